/-
  C18 — determinism: no result depends on the iteration order of a Go map.

  One theorem `site_…_perm_invariant` per map-range site of the regenerated table (c)
  (Gen/C18Sites.lean): the model of the loop (Model/C18.lean), which takes the entries of the map
  in iteration order as its argument `l`, returns the same value for every listing `l'` of the same
  map (`l.Perm l'`, keys distinct).  `sites_covered` re-decides on every run that the extracted
  site list is exactly the proved list, so a new or edited `range` over a map is an unproved
  obligation.  `…_pinned_order_matters`: the bodies before the repairs (F23, F30–F33, and the two
  found by this check) do depend on the order.
-/
import Gotree.Lemmas.C18
import Gotree.Lemmas.C18Read
import Gotree.Spec.C18

namespace Gotree.C18

/-! ### tree package -/

/-- tree/tipbags.go `TipBag.Tips` ★ -/
theorem site_TipBagTips_perm_invariant {N} (l l' : List (String × N)) (h : l.Perm l')
    (hn : nodupKeys l = true) : tipBagTips l = tipBagTips l' :=
  walkSorted_perm _ h hn

/-- tree/tree.go `UpdateTipIndex` ★: the loop that empties the index, followed by the refill -/
theorem site_UpdateTipIndex_perm_invariant {N} (sortedTips : List (String × N)) (l l' : List (String × N))
    (_h : l.Perm l') : updateTipIndex sortedTips l = updateTipIndex sortedTips l' := by
  unfold updateTipIndex
  rw [clearIndex_eq_nil, clearIndex_eq_nil]

/-- …and the loop alone leaves the empty map, whatever the order -/
theorem site_UpdateTipIndex_clears {N} (l : List (String × N)) : clearIndex l = [] :=
  clearIndex_eq_nil l

/-- tree/tree.go `CompareTipIndexes` -/
theorem site_CompareTipIndexes_perm_invariant {N} (other : List String) (l l' : List (String × N))
    (h : l.Perm l') : compareTipIndexes other l = compareTipIndexes other l' := by
  unfold compareTipIndexes
  rw [compareTipIndexesLoop_eq, compareTipIndexesLoop_eq, h.all_eq, h.length_eq]

/-- tree/tree.go `Merge` (the disjointness test) -/
theorem site_Merge_perm_invariant {N} (other : List String) (l l' : List (String × N))
    (h : l.Perm l') : mergeDisjointLoop other l = mergeDisjointLoop other l' := by
  rw [mergeDisjointLoop_eq, mergeDisjointLoop_eq, h.all_eq]

/-- tree/tree.go `Rename`: the names of all nodes after the loop -/
theorem site_Rename_perm_invariant (index : List (String × Nat)) (names : Nat → String)
    (l l' : List (String × String)) (h : l.Perm l') (hn : nodupKeys l = true)
    (hv : nodupVals index = true) : renameLoop index names l = renameLoop index names l' :=
  renameLoop_perm index names h hn hv

/-- the WHOLE of `Tree.Rename` (NewNodeIndex, the loop over the map, UpdateTipIndex) on the node names in
    `Nodes()` order: the only hypothesis left is that the keys of the map are distinct — the node index
    built by `NewNodeIndex` is injective by construction (buildNodeIndex_nodupVals) -/
theorem Rename_whole_perm_invariant (names : List String) (isTip : List Bool) (l l' : List (String × String))
    (h : l.Perm l') (hn : nodupKeys l = true) : renameFull names isTip l = renameFull names isTip l' :=
  renameFull_perm names isTip h hn

/-! ### acr / asr -/

/-- acr/parsimony.go `ParsimonyAcr`: the alphabet (collected in map order, then sorted) -/
theorem site_ParsimonyAcr_alphabet_perm_invariant (l l' : List (String × String)) (h : l.Perm l') :
    acrAlphabet l = acrAlphabet l' :=
  sortS_eq_of_perm (acrCollect_perm h)

/-- asr/parsimony.go, tip case ★ (after de2cfbe no range is left; `charToIndex` is only looked up):
    the counts vector of a tip character does not depend on the listing of `charToIndex` -/
theorem site_asrExpand_perm_invariant (nucl : Bool) (alphabet : List Char) (c : Char) (l l' : List (Char × Nat))
    (h : l.Perm l') (hn : nodupKeys l = true) : asrTipCounts nucl alphabet l c = asrTipCounts nucl alphabet l' c :=
  asrTipCounts_perm nucl alphabet c h hn

/-! ### cmd -/

/-- cmd/acr.go `--out-states` ★ -/
theorem site_acrStates_perm_invariant (l l' : List (String × String)) (h : l.Perm l')
    (hn : nodupKeys l = true) : acrStateLines l = acrStateLines l' :=
  walkSorted_perm _ h hn

/-- cmd/comparetips.go, the `>` lines ★ -/
theorem site_compareTips_perm_invariant (refTips : List String) (l l' : List (String × Bool)) (h : l.Perm l')
    (hn : nodupKeys l = true) : compareTipsLines refTips l = compareTipsLines refTips l' :=
  walkSorted_perm _ h hn

/-- …and the whole standard output of `compare tips -f` -/
theorem compareTipsOutput_perm_invariant (refTips : List String) (l l' : List (String × Bool)) (h : l.Perm l')
    (hn : nodupKeys l = true) : compareTipsOutput refTips l = compareTipsOutput refTips l' := by
  unfold compareTipsOutput
  rw [site_compareTips_perm_invariant refTips l l' h hn]
  have hg : ∀ t, get l t = get l' t := get_perm h hn
  simp only [hg]

/-- cmd/extractmutations.go `sortedMutationKeys` and the two loops that print the tables ★ -/
theorem site_mutationKeys_perm_invariant (l l' : List (String × Mut)) (h : l.Perm l') :
    sortedMutationKeys l = sortedMutationKeys l' := by
  unfold sortedMutationKeys
  rw [collectKeys_eq, collectKeys_eq]
  exact sortS_eq_of_perm (h.map _)

theorem site_mutationLines_perm_invariant (eems : Bool) (treeId : Nat) (l l' : List (String × Mut))
    (h : l.Perm l') (hn : nodupKeys l = true) : mutationLines eems treeId l = mutationLines eems treeId l' :=
  walkSorted_perm _ h hn

/-- cmd/rename.go `writeNameMap` ★ -/
theorem site_writeNameMap_perm_invariant (l l' : List (String × String)) (h : l.Perm l')
    (hn : nodupKeys l = true) : nameMapLines l = nameMapLines l' :=
  walkSorted_perm _ h hn

/-- cmd/comparetrees.go `--rf` (0c409eb) -/
theorem site_compareTreesRf_perm_invariant (l l' : List (Int × Int)) (h : l.Perm l')
    (hn : nodupKeys l = true) : rfLines l = rfLines l' :=
  rfLines_perm h hn

/-- what the five "collect the keys, sort, walk" loops (TipBag.Tips, acr --out-states, compare tips,
    compute mutations, rename -m) emit is the map in key order: the Spec the driver reports as
    `impl-in-key-order` on the real output -/
theorem walkSorted_is_key_order {V} (fmt : String → V → Option String) (l : List (String × V))
    (hn : nodupKeys l = true) :
    walkSorted (fun k v => v.bind (fmt k)) l = specSortedLines fmt l := by
  rw [walkSorted_eq_keyOrder _ l hn]
  rfl

/-- `compare trees --rf` writes the distances in the order of the tree ids -/
theorem rfLines_is_id_order (l : List (Int × Int)) (hn : nodupKeys l = true) :
    rfLines l = specSortedLinesI (fun _ v => toString v ++ "\n") l :=
  rfLines_eq_keyOrder l hn

/-- io/nexus `WriteNexus --translate`: the translate map handed to `Tree.Rename` has pairwise distinct keys,
    i.e. it satisfies the hypothesis `nodupKeys` of site_Rename_perm_invariant whatever the input trees
    (also when tip names are themselves numbers, so that the map is chained) -/
theorem nexus_translate_map_nodupKeys (trees : List (List String)) :
    nodupKeys (nexusLabels trees).1 = true :=
  nexusLabels_nodup_aux trees ([], [], 0) (by simp [nodupKeys])

/-! ### mutations -/

/-- mutations/mutations.go `MutationList.Append`: error-or-merged map (as its lookup function) -/
theorem site_MutationListAppend_perm_invariant (m : List (String × Mut)) (l l' : List (String × Mut))
    (h : l.Perm l') (hn : nodupKeys l = true) : mutAppend m l = mutAppend m l' :=
  mutAppend_perm m h hn

/-- mutations/countmutations.go: the character distribution (commutative accumulation) -/
theorem site_charDistribution_perm_invariant (cd : List (Char × Nat)) (l l' : List (Char × Nat))
    (h : l.Perm l') : charDist cd l = charDist cd l' :=
  charDist_perm cd h

/-- mutations/counteems.go `CountEEMs` (bf532dd): the whole records -/
theorem site_CountEEMs_perm_invariant (acc : List (EemKey × Mut)) (l l' : List (String × Mut))
    (h : l.Perm l') (hn : nodupKeys l = true) : eemRecords acc l = eemRecords acc l' := by
  unfold eemRecords
  rw [eemLoop_perm acc h hn]

/-- the WHOLE of `mutations.CountEEMs` (per site: `countEEMSiteBranch`, then the merge in sorted key order):
    the records — branch index and child node name included — do not depend on how Go lists the per-site
    maps.  This is the function the driver runs against the real `CountEEMs` (site case `eems`). -/
theorem countEEMs_order_invariant (charOfAt : Nat → String → Char)
    (ord₁ ord₂ : List (String × Mut) → List (String × Mut))
    (h₁ : ∀ l, (ord₁ l).Perm l) (h₂ : ∀ l, (ord₂ l).Perm l) (nsites : Nat) (t : T) :
    countEEMs charOfAt ord₁ nsites t = countEEMs charOfAt ord₂ nsites t :=
  countEEMs_order charOfAt ord₁ ord₂ h₁ h₂ nsites t

/-- before bf532dd the printed part (number of emergences per site/parent/child) was already
    order-independent when every collected mutation has NumEEM = 1 (as `countEEMSiteBranch` builds them) -/
theorem site_CountEEMs_pinned_counts_perm_invariant (acc : List (EemKey × Mut)) (l l' : List (String × Mut))
    (h : l.Perm l') (h1 : l.all (fun e => e.2.numEEM == 1) = true) :
    eemCountsPinned acc l = eemCountsPinned acc l' := by
  funext id
  rw [eemCountsPinned_fold, eemCountsPinned_fold]
  apply List.Perm.foldl_eq' h
  intro x hx y hy z
  have hall := List.all_eq_true.mp h1
  exact eemObsStep_comm id z x y (by simpa using hall x hx) (by simpa using hall y hy)

/-- mutations/countmutations.go, the WHOLE recursion `countMutationSiteBranch` (number of tips, character
    distributions merged child by child, mutation records): whatever the order in which Go lists the
    distribution map returned for each child (`ord₁`, `ord₂`: arbitrary re-listings), the records are the same -/
theorem countMutationsSite_order_invariant (charOf : String → Char)
    (ord₁ ord₂ : List (Char × Nat) → List (Char × Nat))
    (h₁ : ∀ l, (ord₁ l).Perm l) (h₂ : ∀ l, (ord₂ l).Perm l) (t : T) :
    countMutationsSite charOf ord₁ t = countMutationsSite charOf ord₂ t := by
  cases t with
  | node d p kids =>
    simp only [countMutationsSite]
    rw [(cmsNode_rel charOf ord₁ ord₂ h₁ h₂ none (.node d p kids)).2.2.1]

/-! ### the bodies before the repairs depend on the order -/

/-- seeded change C18-1: if the loop of `Rename` also re-indexed each renamed node under its new name,
    chained renames (a→b, b→c) would depend on the order -/
theorem Rename_reindexing_order_matters :
    renameLoopReindex [("a", 0), ("b", 1)] (fun i => if i == 0 then "a" else "b") [("a", "b"), ("b", "c")] 0 ≠
    renameLoopReindex [("a", 0), ("b", 1)] (fun i => if i == 0 then "a" else "b") [("b", "c"), ("a", "b")] 0 := by decide

/-- …whereas the loop as it is handles chained renames identically in every order (instance of
    site_Rename_perm_invariant on the same witness) -/
theorem Rename_chained_example :
    renameLoop [("a", 0), ("b", 1)] (fun i => if i == 0 then "a" else "b") [("a", "b"), ("b", "c")] =
    renameLoop [("a", 0), ("b", 1)] (fun i => if i == 0 then "a" else "b") [("b", "c"), ("a", "b")] :=
  site_Rename_perm_invariant _ _ _ _ (List.Perm.swap ..) (by decide) (by decide)


/-- F23 (asr, before de2cfbe): the two entries cut off depend on the order -/
theorem asrExpand_pinned_order_matters :
    asrPossibilitiesPinned [('A', 0), ('C', 1), ('-', 2), ('*', 3)] 'X' ≠
    asrPossibilitiesPinned [('-', 2), ('*', 3), ('A', 0), ('C', 1)] 'X' := by decide

theorem asrTipCounts_pinned_order_matters :
    asrTipCountsPinned [('A', 0), ('C', 1), ('-', 2), ('*', 3)] 'X' ≠
    asrTipCountsPinned [('-', 2), ('*', 3), ('A', 0), ('C', 1)] 'X' := by decide

/-- F30 (acr --out-states, before 7086b4c) -/
theorem acrStates_pinned_order_matters :
    acrStateLinesPinned [("n1", "A"), ("n2", "B")] ≠ acrStateLinesPinned [("n2", "B"), ("n1", "A")] := by decide

/-- F31 (compare tips, before 32f9976) -/
theorem compareTips_pinned_order_matters :
    compareTipsLinesPinned ["a"] [("x", true), ("y", true)] ≠ compareTipsLinesPinned ["a"] [("y", true), ("x", true)] := by decide

/-- F32 (compute mutations, before a35432b) -/
theorem mutationLines_pinned_order_matters :
    mutationLinesPinned true 0 [("0-A-C", ⟨0, 1, "n", 'A', 'C', 2, 1, 1⟩), ("1-A-C", ⟨1, 1, "n", 'A', 'C', 2, 1, 1⟩)] ≠
    mutationLinesPinned true 0 [("1-A-C", ⟨1, 1, "n", 'A', 'C', 2, 1, 1⟩), ("0-A-C", ⟨0, 1, "n", 'A', 'C', 2, 1, 1⟩)] := by decide

/-- F33 (rename -m, before 4f7266a) -/
theorem writeNameMap_pinned_order_matters :
    nameMapLinesPinned [("a", "T1"), ("b", "T2")] ≠ nameMapLinesPinned [("b", "T2"), ("a", "T1")] := by decide

/-- compare trees --rf before 0c409eb: the lines follow the order of delivery -/
theorem compareTreesRf_pinned_order_matters :
    rfLinesPinned [(0, 4), (1, 6)] ≠ rfLinesPinned [(1, 6), (0, 4)] := by decide

/-- CountEEMs before bf532dd: the record kept for (site, parent, child) is the first one met -/
theorem CountEEMs_pinned_order_matters :
    eemRecordsPinned [] [("0-1-A-C", ⟨0, 1, "t1", 'A', 'C', 0, 0, 1⟩), ("0-2-A-C", ⟨0, 2, "t2", 'A', 'C', 0, 0, 1⟩)] (0, 'A', 'C') ≠
    eemRecordsPinned [] [("0-2-A-C", ⟨0, 2, "t2", 'A', 'C', 0, 0, 1⟩), ("0-1-A-C", ⟨0, 1, "t1", 'A', 'C', 0, 0, 1⟩)] (0, 'A', 'C') := by decide

/-- `MutationList.Append`: WHICH duplicate key the error message names does depend on the order
    (DESIGN §6 C18).  Not reachable from CountMutations / CountEEMs: their keys carry the site
    and the branch id, so the appended maps are key-disjoint; whether there is an error does not
    depend on the order (site_MutationListAppend_perm_invariant). -/
theorem MutationListAppend_error_key_order_matters :
    mutAppendErrKey [("a", Mut.zero), ("b", Mut.zero)] [("a", Mut.zero), ("b", Mut.zero)] ≠
    mutAppendErrKey [("a", Mut.zero), ("b", Mut.zero)] [("b", Mut.zero), ("a", Mut.zero)] := by decide

/-- the acr alphabet without its `sort.Strings` would depend on the order -/
theorem acrAlphabet_unsorted_order_matters :
    acrAlphabetUnsorted [("t1", "A"), ("t2", "B")] ≠ acrAlphabetUnsorted [("t2", "B"), ("t1", "A")] := by decide

/-- excluded package `draw` (its commands ARE run by the templates): `initFonts` stores each font under its own
    name, then the cache is only looked up — what `Load` returns does not depend on the order of the range -/
theorem site_drawFonts_perm_invariant (l l' : List (String × String)) (h : l.Perm l')
    (hn : nodupKeys l = true) (name : String) : fontCacheLoad l name = fontCacheLoad l' name := by
  unfold fontCacheLoad
  rw [get_foldl_put l [] name hn, get_foldl_put l' [] name (nodupKeys_perm h hn), get_perm h hn name]

/-- excluded package `download` (not reachable offline): `writeMapfile` writes while ranging -/
theorem ncbiMapLines_order_matters :
    ncbiMapLines [("1", "a"), ("2", "b")] ≠ ncbiMapLines [("2", "b"), ("1", "a")] := by decide

/-! ### the readers that build the maps: cmd/root.go `readMapFile`, cmd/acr.go `parseTipStates` (round 7) -/

/-- the map `readMapFile` returns has pairwise distinct keys: the hypothesis `nodupKeys` of the site theorems
    is a theorem about the reader's model, not an assumption, for the map of `gotree rename -m` -/
theorem readMapFile_nodupKeys (revert : Bool) (lines : List String) (m : List (String × String))
    (h : readMapFile revert lines = .ok m) : nodupKeys m = true :=
  readLoop_nodupKeys _ lines 1 [] m rfl h

/-- …and for the tip → state table of `gotree acr --states` -/
theorem parseTipStates_nodupKeys (lines : List String) (m : List (String × String))
    (h : parseTipStates lines = .ok m) : nodupKeys m = true :=
  readLoop_nodupKeys _ lines 1 [] m rfl h

/-- what the map answers for a key is the value of the LAST line of the file whose key column is that key
    (second column with `--revert`): stated on the list of lines, no map involved -/
theorem readMapFile_last_line_wins (revert : Bool) (lines : List String) (m : List (String × String))
    (h : readMapFile revert lines = .ok m) (k : String) :
    get m k = lastBinding (mapFileEntry revert) lines none k := by
  have := readLoop_get _ lines 1 [] m h k
  simpa [get] using this

theorem parseTipStates_last_line_wins (lines : List String) (m : List (String × String))
    (h : parseTipStates lines = .ok m) (k : String) :
    get m k = lastBinding (twoCols isTabOrComma) lines none k := by
  have := readLoop_get _ lines 1 [] m h k
  simpa [get] using this

/-- the error of `readMapFile` names the first line (1-based) that has not exactly two columns -/
theorem readMapFile_error_is_first_bad_line (revert : Bool) (lines : List String) (n : Nat)
    (h : readMapFile revert lines = .error n) :
    1 ≤ n ∧ ((lines.drop (n - 1)).head?.bind (mapFileEntry revert) = none ∧ (lines.drop (n - 1)).head?.isSome) ∧
      ∀ i, i < n - 1 → ((lines.drop i).head?.bind (mapFileEntry revert)).isSome :=
  readLoop_error _ lines 1 [] n h

/-- `gotree rename -m file [-r]`, reader and `Tree.Rename` together: whatever listing `l'` Go gives of the map
    the reader built, the renamed names (or the failure) are those of the model run on the file — no
    hypothesis is left -/
theorem renameFromFile_listing_irrelevant (revert : Bool) (lines names : List String) (isTip : List Bool)
    (m l' : List (String × String)) (h : readMapFile revert lines = .ok m) (hp : m.Perm l') :
    renameFull names isTip l' = renameFromFile revert lines names isTip := by
  unfold renameFromFile
  rw [h]
  exact (Rename_whole_perm_invariant names isTip m l' hp (readMapFile_nodupKeys revert lines m h)).symm

/-- `gotree acr --states file`: the alphabet and the state of every tip are those of the file, whatever the
    listing of the table -/
theorem acrFromFile_listing_irrelevant (lines tips : List String) (m l' : List (String × String))
    (h : parseTipStates lines = .ok m) (hp : m.Perm l') :
    acrAlphabet l' = acrAlphabet m ∧ tipStateLines l' tips = tipStateLines m tips := by
  refine ⟨(site_ParsimonyAcr_alphabet_perm_invariant m l' hp).symm, ?_⟩
  unfold tipStateLines
  apply List.map_congr_left
  intro t _
  rw [get_perm hp (parseTipStates_nodupKeys lines m h) t]

/-- seeded change C18-4 (read the file forward, then invert the map by ranging over it when `--revert` is
    given): with a map file that is not injective the inverted map depends on the order… -/
theorem readMap_invert_after_order_matters :
    get (invertLoop [("a", "x"), ("b", "x")]) "x" ≠ get (invertLoop [("b", "x"), ("a", "x")]) "x" := by decide

/-- …whereas the reader as it is fills the reverted map line by line: the last line wins (instance of
    readMapFile_last_line_wins on the same file) -/
theorem readMapFile_revert_example :
    (readMapFile true ["a\tx", "b\tx"]).toOption.map (fun m => get m "x") = some (some "b") := by decide

/-! ### `gotree rename --auto -m out`: tree.RenameAuto over the trees of the file, then writeNameMap (round 7) -/

/-- the name map `RenameAuto` fills (looked up and extended, never ranged over) has distinct keys… -/
theorem renameAutoMap_keys_distinct (internals tips : Bool) (length : Nat) (trees : List (List (String × Bool)))
    (m : List (String × String)) (h : renameAutoMap internals tips length trees 1 [] = some m) :
    nodupKeys m = true :=
  renameAutoMap_nodupKeys internals tips length trees 1 [] m rfl h

/-- …so the map file the command writes is the same for every listing `l'` Go gives of that map to
    `writeNameMap`: the hypothesis of site_writeNameMap_perm_invariant is discharged for the whole `--auto` path -/
theorem renameAutoCmd_mapfile_listing_irrelevant (internals tips : Bool) (length : Nat)
    (trees : List (List (String × Bool))) (m l' : List (String × String))
    (h : renameAutoMap internals tips (if length < 5 then 5 else length) trees 1 [] = some m) (hp : m.Perm l') :
    (renameAutoCmd internals tips length trees).2 = some (nameMapLines l') := by
  unfold renameAutoCmd
  rw [renameAutoTrees_snd, h]
  simp only [Option.map_some]
  rw [site_writeNameMap_perm_invariant m l' hp (renameAutoMap_keys_distinct _ _ _ _ m h)]

/-- the generated identifiers: zero-padded to the requested length, and the failure when the counter needs
    more digits than the length leaves ("Id length 5 does not allow to generate as much ids") -/
theorem autoName_examples :
    autoName 'T' 6 12 = "T00012" ∧ autoName 'N' 10 7 = "N000000007" ∧ (autoName 'T' 5 10000).length ≠ 5 := by decide

/-- a name met again (same tip in the next tree, or two inner nodes without a name at the same position) reuses
    its identifier; the counter only advances on new names -/
theorem renameAuto_reuses_names :
    renameAutoLoop true true 5 0 [("", false), ("b", true), ("c", true)] [] 4 [("0", "N0001"), ("a", "T0002"), ("b", "T0003")] =
      .ok ["N0001", "T0003", "T0004"] 5 [("0", "N0001"), ("a", "T0002"), ("b", "T0003"), ("c", "T0004")] := by decide

/-! ### the table -/

/-- a proved site: its key in table (c) and the theorem -/
structure ProvedSite where
  key : String
  statement : Prop
  proof : statement

def provedSites : List ProvedSite := [
  ⟨"acr/parsimony.go:ParsimonyAcr:466da4eec245#1", _, site_ParsimonyAcr_alphabet_perm_invariant⟩,
  ⟨"cmd/acr.go:acrCmd:69d303350f73#1", _, site_acrStates_perm_invariant⟩,
  ⟨"cmd/comparetips.go:difftipsCmd:b9b06c89dc0d#1", _, site_compareTips_perm_invariant⟩,
  ⟨"cmd/comparetrees.go:compareTreesCmd:f5977218f020#1", _, site_compareTreesRf_perm_invariant⟩,
  ⟨"cmd/extractmutations.go:sortedMutationKeys:cff9c655e428#1", _, site_mutationLines_perm_invariant⟩,
  ⟨"cmd/rename.go:writeNameMap:fec59d425afe#1", _, site_writeNameMap_perm_invariant⟩,
  ⟨"mutations/counteems.go:CountEEMs:6958822e76a2#1", _, site_CountEEMs_perm_invariant⟩,
  ⟨"mutations/countmutations.go:countMutationSiteBranch:f14ba4b390f3#1", _, site_charDistribution_perm_invariant⟩,
  ⟨"mutations/mutations.go:MutationList.Append:7cd4e9aa30b3#1", _, site_MutationListAppend_perm_invariant⟩,
  ⟨"tree/tipbags.go:TipBag.Tips:9479da34ef3f#1", _, @site_TipBagTips_perm_invariant.{0}⟩,
  ⟨"tree/tree.go:Tree.UpdateTipIndex:105ae1ebc217#1", _, @site_UpdateTipIndex_perm_invariant.{0}⟩,
  ⟨"tree/tree.go:Tree.CompareTipIndexes:77f5fc7a8940#1", _, @site_CompareTipIndexes_perm_invariant.{0}⟩,
  ⟨"tree/tree.go:Tree.Rename:ea9659a5edb0#1", _, site_Rename_perm_invariant⟩,
  ⟨"tree/tree.go:Tree.Merge:c3180b3fd5e1#1", _, @site_Merge_perm_invariant.{0}⟩]

/-- the keys the driver compares the table with are those of the proved sites -/
theorem provedSites_keys : provedSites.map (·.key) = provedSiteKeys := by decide

/-- ★ the regenerated table (c) (packages in scope) is exactly the list of proved sites -/
theorem sites_covered : coreSites.map (·.key) = provedSites.map (·.key) := by decide

/-- a proved site BY CONSTRUCTION: the row carries the model function of the loop (`body`: parameters = the other
    variables the loop reads, then the map entries in iteration order) and the proof that it returns the same
    value for every listing of the same map — not an arbitrary proposition next to a key -/
structure SiteProof where
  key : String
  model : String
  case : String
  P : Type
  K : Type
  V : Type
  Out : Type
  hyp : P → List (K × V) → Prop
  body : P → List (K × V) → Out
  inv : ∀ (p : P) (l l' : List (K × V)), l.Perm l' → hyp p l → body p l = body p l'

def siteProofs : List SiteProof := [
  { key := "acr/parsimony.go:ParsimonyAcr:466da4eec245#1", model := "acrAlphabet", case := "acralphabet",
    P := Unit, K := String, V := String, Out := List String, hyp := fun _ _ => True,
    body := fun _ l => acrAlphabet l, inv := fun _ l l' h _ => site_ParsimonyAcr_alphabet_perm_invariant l l' h },
  { key := "cmd/acr.go:acrCmd:69d303350f73#1", model := "acrStateLines", case := "acrstates",
    P := Unit, K := String, V := String, Out := List String, hyp := fun _ l => nodupKeys l = true,
    body := fun _ l => acrStateLines l, inv := fun _ l l' h hn => site_acrStates_perm_invariant l l' h hn },
  { key := "cmd/comparetips.go:difftipsCmd:b9b06c89dc0d#1", model := "compareTipsOutput", case := "comparetips",
    P := List String, K := String, V := Bool, Out := List String, hyp := fun _ l => nodupKeys l = true,
    body := fun p l => compareTipsOutput p l, inv := fun p l l' h hn => compareTipsOutput_perm_invariant p l l' h hn },
  { key := "cmd/comparetrees.go:compareTreesCmd:f5977218f020#1", model := "rfLines", case := "rf",
    P := Unit, K := Int, V := Int, Out := List String, hyp := fun _ l => nodupKeys l = true,
    body := fun _ l => rfLines l, inv := fun _ l l' h hn => site_compareTreesRf_perm_invariant l l' h hn },
  { key := "cmd/extractmutations.go:sortedMutationKeys:cff9c655e428#1", model := "sortedMutationKeys+mutationLines", case := "mutations",
    P := Bool × Nat, K := String, V := Mut, Out := List String × List String, hyp := fun _ l => nodupKeys l = true,
    body := fun p l => (sortedMutationKeys l, mutationLines p.1 p.2 l),
    inv := fun p l l' h hn => by
      rw [site_mutationKeys_perm_invariant l l' h, site_mutationLines_perm_invariant p.1 p.2 l l' h hn] },
  { key := "cmd/rename.go:writeNameMap:fec59d425afe#1", model := "nameMapLines", case := "namemap",
    P := Unit, K := String, V := String, Out := List String, hyp := fun _ l => nodupKeys l = true,
    body := fun _ l => nameMapLines l, inv := fun _ l l' h hn => site_writeNameMap_perm_invariant l l' h hn },
  { key := "mutations/counteems.go:CountEEMs:6958822e76a2#1", model := "eemRecords (inside countEEMs)", case := "eems",
    P := List (EemKey × Mut), K := String, V := Mut, Out := EemKey → Option Mut, hyp := fun _ l => nodupKeys l = true,
    body := fun p l => eemRecords p l, inv := fun p l l' h hn => site_CountEEMs_perm_invariant p l l' h hn },
  { key := "mutations/countmutations.go:countMutationSiteBranch:f14ba4b390f3#1", model := "charDist (inside countMutationsSite)", case := "chardist",
    P := List (Char × Nat), K := Char, V := Nat, Out := Char → Option Nat, hyp := fun _ _ => True,
    body := fun p l => charDist p l, inv := fun p l l' h _ => site_charDistribution_perm_invariant p l l' h },
  { key := "mutations/mutations.go:MutationList.Append:7cd4e9aa30b3#1", model := "mutAppend", case := "append",
    P := List (String × Mut), K := String, V := Mut, Out := Option (String → Option Mut), hyp := fun _ l => nodupKeys l = true,
    body := fun p l => mutAppend p l, inv := fun p l l' h hn => site_MutationListAppend_perm_invariant p l l' h hn },
  { key := "tree/tipbags.go:TipBag.Tips:9479da34ef3f#1", model := "tipBagTips", case := "tipbag",
    P := Unit, K := String, V := String, Out := List (Option String), hyp := fun _ l => nodupKeys l = true,
    body := fun _ l => tipBagTips l, inv := fun _ l l' h hn => site_TipBagTips_perm_invariant l l' h hn },
  { key := "tree/tree.go:Tree.UpdateTipIndex:105ae1ebc217#1", model := "updateTipIndex", case := "updatetipindex",
    P := List (String × Nat), K := String, V := Nat, Out := Option (List (String × Nat)), hyp := fun _ _ => True,
    body := fun p l => updateTipIndex p l, inv := fun p l l' h _ => site_UpdateTipIndex_perm_invariant p l l' h },
  { key := "tree/tree.go:Tree.CompareTipIndexes:77f5fc7a8940#1", model := "compareTipIndexes", case := "comparetipindexes",
    P := List String, K := String, V := String, Out := Bool, hyp := fun _ _ => True,
    body := fun p l => compareTipIndexes p l, inv := fun p l l' h _ => site_CompareTipIndexes_perm_invariant p l l' h },
  { key := "tree/tree.go:Tree.Rename:ea9659a5edb0#1", model := "renameFull", case := "rename",
    P := List String × List Bool, K := String, V := String, Out := Option (List String), hyp := fun _ l => nodupKeys l = true,
    body := fun p l => renameFull p.1 p.2 l, inv := fun p l l' h hn => Rename_whole_perm_invariant p.1 p.2 l l' h hn },
  { key := "tree/tree.go:Tree.Merge:c3180b3fd5e1#1", model := "mergeDisjointLoop", case := "comparetipindexes",
    P := List String, K := String, V := String, Out := Bool, hyp := fun _ _ => True,
    body := fun p l => mergeDisjointLoop p l, inv := fun p l l' h _ => site_Merge_perm_invariant p l l' h }]

/-- ★ the regenerated table (c) is exactly the list of sites proved by construction -/
theorem sites_covered_by_construction : coreSites.map (·.key) = siteProofs.map (·.key) := by decide

/-- key, model name and correspondence case of every row are those of the one table `Spec.siteCaseTable`
    that the driver uses to say which key a site case exercises: every site has a case that runs its body -/
theorem siteProofs_table : siteProofs.map (fun r => (r.key, r.model, r.case)) = siteCaseTable := by decide

/-- the property's first sentence, as far as a model can state it.  In the model a result is a FUNCTION of
    (input, options, random draws) and of the listing of each map it ranges over — there is no clock, address
    or process argument by construction — and the last argument does not matter: whatever listings `orders`
    of the map the repeated runs meet, the rendered outputs satisfy the oracle predicate `oneOutput` that the
    driver evaluates on the real runs -/
theorem SiteProof.runs_one_output (r : SiteProof) (render : r.Out → String) (p : r.P) (l : List (r.K × r.V))
    (hl : r.hyp p l) (orders : List (List (r.K × r.V))) (ho : ∀ o ∈ orders, l.Perm o) :
    oneOutput (orders.map (fun o => render (r.body p o))) = true := by
  have hall : ∀ o ∈ orders, render (r.body p o) = render (r.body p l) :=
    fun o h => by rw [r.inv p l o (ho o h) hl]
  cases orders with
  | nil => rfl
  | cons a t =>
    simp only [List.map_cons, oneOutput, List.all_map, List.all_eq_true, Function.comp, beq_iff_eq]
    intro o h
    rw [hall o (List.mem_cons_of_mem _ h), hall a (List.mem_cons_self ..)]

/-- instance: the whole standard output of `gotree compare tips -i ref -f tips`, in any number of runs -/
theorem compareTips_runs_one_output (refTips : List String) (l : List (String × Bool)) (hn : nodupKeys l = true)
    (orders : List (List (String × Bool))) (ho : ∀ o ∈ orders, l.Perm o) :
    oneOutput (orders.map (fun o => String.join (compareTipsOutput refTips o))) = true := by
  have hall : ∀ o ∈ orders, compareTipsOutput refTips o = compareTipsOutput refTips l :=
    fun o h => (compareTipsOutput_perm_invariant refTips l o (ho o h) hn).symm
  cases orders with
  | nil => rfl
  | cons a t =>
    simp only [List.map_cons, oneOutput, List.all_map, List.all_eq_true, Function.comp, beq_iff_eq]
    intro o h
    rw [hall o (List.mem_cons_of_mem _ h), hall a (List.mem_cons_self ..)]

/-- instance without any hypothesis on the map: `gotree rename -i tree -m file [-r]` in any number of runs — the
    map is the one the reader's model builds from the file, `orders` are the listings Go gives of it to
    `Tree.Rename` in the successive runs; the printed names (or the failure) satisfy the oracle predicate -/
theorem renameFromFile_runs_one_output (revert : Bool) (lines names : List String) (isTip : List Bool)
    (m : List (String × String)) (h : readMapFile revert lines = .ok m)
    (orders : List (List (String × String))) (ho : ∀ o ∈ orders, m.Perm o) :
    oneOutput (orders.map (fun o => match renameFull names isTip o with
      | none => "error" | some after => "\n".intercalate after)) = true := by
  have hall : ∀ o ∈ orders, renameFull names isTip o = renameFromFile revert lines names isTip :=
    fun o ho' => renameFromFile_listing_irrelevant revert lines names isTip m o h (ho o ho')
  cases orders with
  | nil => rfl
  | cons a t =>
    simp only [List.map_cons, oneOutput, List.all_map, List.all_eq_true, Function.comp, beq_iff_eq]
    intro o ho'
    rw [hall o (List.mem_cons_of_mem _ ho'), hall a (List.mem_cons_self ..)]

/-- the boundary seeds are seeds: 0, a negative value other than -1 and the largest int64 are handed to
    `rand.Seed` unchanged whatever the clock says… -/
theorem boundary_seeds_ignore_clock (c : Int) :
    effectiveSeed 0 c = 0 ∧ effectiveSeed (-2) c = -2 ∧ effectiveSeed 9223372036854775807 c = 9223372036854775807 := by
  refine ⟨?_, ?_, ?_⟩ <;> simp [effectiveSeed]

/-- …whereas a test `seed <= 0` for "no seed given" would read the clock for two of them -/
theorem seed_nonpositive_variant_reads_clock :
    effectiveSeedNonPositive 0 1 ≠ effectiveSeedNonPositive 0 2 ∧
    effectiveSeedNonPositive (-2) 1 ≠ effectiveSeedNonPositive (-2) 2 := by decide

/-! ### the number of threads is a configuration: support/tbe.go hands every reference branch to exactly one worker -/

/-- whatever the number of workers and whichever worker receives which branch, the branches visited for one
    bootstrap tree are all the reference branches, each once, in `Edges()` order: the supports cannot depend on -t -/
theorem tbe_feeder_visits_every_branch_once {α} (cpu : Nat) (sched : Nat → Nat) (edges : List α) :
    feederVisited cpu sched edges = edges := by
  unfold feederVisited feederHandled
  rw [List.map_map]
  have : ((fun (x : Nat × α) => x.2) ∘ fun (e : α × Nat) => (sched e.2 % cpu, e.1)) = fun (e : α × Nat) => e.1 := rfl
  rw [this]
  exact List.zipIdx_map_fst 0 edges

/-- seeded change C18-7 (static blocks of `len(edges)/cpu` branches): with 13 branches, 5 workers leave the last
    three branches unvisited, 64 workers leave all of them, while 1 worker visits all — the result depends on -t -/
theorem tbe_static_blocks_depend_on_threads :
    staticVisited 1 (List.range 13) = List.range 13 ∧ staticVisited 5 (List.range 13) = List.range 10 ∧
    staticVisited 64 (List.range 13) = [] := by decide

/-- cobra runs only the nearest persistent pre-run hook: every runnable command of the live command tree either
    has the root's hook (which calls `rand.Seed(seed)`) as its nearest one, or a hook whose body calls
    `RootCmd.PersistentPreRun` itself (`compute support`).  Seeded change C18-9 (a hook on `brlen`) and the own
    breakage M1 (a hook on `generate`) make this list non-empty; the random templates give the failing input. -/
theorem seed_hook_reaches_every_command : commandsNotSeeded = [] := by decide

/-- the list is not empty by vacuity: four commands do sit under a hook of their own -/
theorem seed_hook_table_nonvacuous : Gen.C18Sites.preRunHidden.length ≥ 4 ∧
    Gen.C18Sites.preRunHooks.any (fun h => h.2.1 == "gotree") = true := by decide

/-- the sites of the excluded packages are exactly the reviewed ones -/
theorem excluded_sites_reviewed : excludedSites.map (·.key) = reviewedExcludedSites.map (·.1) := by decide

/-- every other source of order / address / clock dependence of the table is reviewed, none is stale,
    and the extractor type-checked the whole repository -/
theorem sources_covered :
    unreviewedSources = [] ∧ staleSources = [] ∧ Gen.C18Sites.typeErrors = [] := by decide

/-- `cmd/root.go:73-93`: the only seeding of a random source in the whole repository is the unconditional
    `rand.Seed(seed)` of PersistentPreRun (no other `rand.Seed`, `rand.NewSource`, `rand.New`, `crypto/rand`) -/
theorem seed_single_unconditional :
    seedSites.map (fun s => (s.file, s.fn, s.operand, s.guard)) = [("cmd/root.go", "RootCmd", "math/rand.Seed", "")] := by decide

/-- …and the only clock read of that file is under the guard `seed == -1` (no seed given) -/
theorem clock_only_without_seed :
    clockSeedSites.map (·.guard) = ["if seed == -1"] := by decide

/-- once a seed is given the clock does not reach the random source … -/
theorem seed_given_ignores_clock (seedFlag : Int) (h : seedFlag ≠ -1) (c c' : Int) :
    effectiveSeed seedFlag c = effectiveSeed seedFlag c' := by
  unfold effectiveSeed
  have : (seedFlag == -1) = false := by simpa using h
  simp [this]

/-- … and without one it does (the property's precondition "once a seed is given" is needed) -/
theorem no_seed_reads_clock : effectiveSeed (-1) 1 ≠ effectiveSeed (-1) 2 := by decide

/-- no address is ever formatted (`%p`, pointer-valued fmt arguments, unsafe, reflect pointers),
    no reflect map iteration, no multi-way select, no pid/hostname/environment read, in the packages in scope -/
theorem no_address_sources :
    (Gen.C18Sites.sources.filter (fun s => s.scope == "core" &&
      ["pointerfmt", "pointerarg", "address", "reflectmap", "select", "pid", "host", "env", "tmp"].contains s.kind)) = [] := by decide

/-- the files that exist only under the build tag `verif` are the two reviewed hook files -/
theorem hook_files_reviewed : Gen.C18Sites.hookFiles = reviewedHookFiles := by decide

/-- the sources inside hook files are exactly the reviewed ones, every hook-scope entry of the table lies
    in a hook file, and no map range lives in hook code -/
theorem hook_sources_reviewed :
    hookSources.map (·.key) = reviewedHookSources.map (·.1) ∧
    hookSources.all (fun s => Gen.C18Sites.hookFiles.contains s.file) = true ∧
    Gen.C18Sites.sites.filter (·.scope == "hook") = [] := by decide

/-- outside hook code (i.e. in every normal build) the environment is never read and the clock is read
    only by the reviewed statements (seed == -1, support logs) -/
theorem env_and_clock_only_reviewed :
    (Gen.C18Sites.sources.filter (fun s => s.scope != "hook" && s.kind == "env")) = [] ∧
    (Gen.C18Sites.sources.filter (fun s => s.scope != "hook" && s.kind == "clock")).all
      (fun s => (reviewedSources.map (·.1)).contains s.key) = true := by decide

/-- goalign (the version pinned in go.mod, read from the module cache): in the part of `align`, `io/fasta`,
    `io/phylip` (and what they import of goalign) that is reachable from the repository's code — calls
    through the `Alignment`/`SeqBag` interfaces reach every method of that name — there is no range over a
    map and no clock / seed / address / environment source; the scan type-checked without a note -/
theorem dependency_goalign_clean :
    Gen.C18Sites.depSites = [] ∧ Gen.C18Sites.depSources = [] ∧ Gen.C18Sites.depNotes = [] := by decide

/-- "all commands": every runnable command of the live command tree (regenerated from `cmd.RootCmd` on every
    run) has a run template, except the four network commands, each listed with its reason; and nothing is
    listed that is not a command -/
theorem commands_covered :
    uncoveredCommands = [] ∧
    (templateCommands ++ omittedCommands.map (·.1)).all (Gen.C18Sites.commands.contains ·) = true := by decide

/-- the packages the dependency scan loaded: goalign's align / io / fasta / phylip (+ what they import of
    goalign), gostats (`Exp` draws from the global math/rand source), bitset — all clean by
    dependency_goalign_clean, which speaks about `depSites` / `depSources` of exactly these packages -/
theorem dependency_packages_scanned :
    ["github.com/evolbioinfo/goalign/align", "github.com/evolbioinfo/goalign/io/fasta",
     "github.com/evolbioinfo/goalign/io/phylip", "github.com/fredericlemoine/bitset",
     "github.com/fredericlemoine/gostats"].all (Gen.C18Sites.depPackages.contains ·) = true := by decide

/-- "several threads": the files of package cmd that read the thread count are exactly those of the reviewed
    table `threadCommands`, whose commands all have a run template (the driver checks on every run that the
    named template exists and passes -t ≥ 2 in at least one generated request) -/
theorem threads_covered :
    Gen.C18Sites.cpuFiles = (threadCommands.map (·.1)).eraseDups ∧
    threadCommands.all (fun r => templateCommands.contains r.2.1) = true := by decide

/-! ### the hypotheses are satisfiable on non-trivial maps -/

example : nodupKeys [("t1", "A"), ("t2", "B"), ("t3", "A"), ("t4", "C"), ("t5", "B"), ("t6", "A"), ("t7", "C"), ("t8", "A")] = true := by decide
example : nodupVals [("t1", 3), ("t2", 5), ("I1", 0), ("I2", 1)] = true ∧ nodupKeys [("t1", "x"), ("I2", "y"), ("zz", "w")] = true := by decide
example : acrCollect [("t1", "B"), ("t2", "A"), ("t3", "B")] = ["B", "A"] := by decide
example : nameMapLines [("b", "T2"), ("a", "T1"), ("c", "T3")] = nameMapLines [("a", "T1"), ("b", "T2"), ("c", "T3")] :=
  site_writeNameMap_perm_invariant _ _ (List.Perm.swap ..) (by decide)
example : renameLoop [("a", 0), ("b", 1)] (fun _ => "") [("b", "y"), ("a", "x")] = renameLoop [("a", 0), ("b", 1)] (fun _ => "") [("a", "x"), ("b", "y")] :=
  site_Rename_perm_invariant _ _ _ _ (List.Perm.swap ..) (by decide) (by decide)
example : ([("0-1-A-C", (⟨0, 1, "t1", 'A', 'C', 0, 0, 1⟩ : Mut)), ("0-2-A-C", ⟨0, 2, "t2", 'A', 'C', 0, 0, 1⟩)].all (fun e => e.2.numEEM == 1)) = true := by decide

example : (readMapFile true ["n0\tt1", "n1\tt2", "n2\tt1", "n3\tt3"]).toOption.map (fun m => (get m "t1", get m "t2", m.length)) =
    some (some "n2", some "n1", 3) := by decide
example : ([["a\tb", "no tab here", "c\td"], ["a\tb", "c\td\te"], ["a\tb", ""], ["a\tb"]].map (fun f =>
    match readMapFile false f with | .error n => some n | .ok _ => none)) = [some 2, some 2, some 2, none] := by decide
example : (parseTipStates ["t1\tA", "t2,B", "t1,C"]).toOption.map (fun m => (get m "t1", get m "t2")) = some (some "C", some "B") ∧
    (parseTipStates ["t1\tA,B"]).toOption.isNone = true := by decide
example : renameAutoLoop false true 5 0 [("a", true), ("", false), ("b", true)] [] 1 [] =
    .ok ["T0001", "", "T0002"] 3 [("a", "T0001"), ("b", "T0002")] := by decide

end Gotree.C18
