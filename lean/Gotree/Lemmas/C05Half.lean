/-
  C05 — towards `midpoint_halfway`: what `MaxLengthPath` computes, and where the cut of
  `RerootMidPoint` puts the root.
-/
import Gotree.Lemmas.C05Side

namespace Gotree.C05
open Gotree Gotree.C14

/-! ## MaxLengthPath: the length is the depth of the leaves below the far end, and bounds all depths -/

/-- depth of a leaf below the top of a subtree (sum over the branches above it) -/
def depthIn (l : List SplitE) (b : String) : Rat := belowW EdgeD.lenOr0 l b

theorem lenOr0_nonneg {e : EdgeD} (h : 0 ≤ e.len) : e.lenOr0 = e.len := by
  unfold EdgeD.lenOr0 NIL
  have : ¬ e.len = -1 := by grind
  simp [this]

/-- all lengths present and non-negative -/
def NonNeg (l : List SplitE) : Prop := ∀ s ∈ l, 0 ≤ s.e.len

theorem depthIn_nonneg : ∀ (l : List SplitE) (b : String), NonNeg l → 0 ≤ depthIn l b
  | [], _, _ => by simp [depthIn, belowW_nil]
  | s :: l, b, h => by
    have h1 := h s (by simp)
    have h2 := depthIn_nonneg l b (fun x hx => h x (by simp [hx]))
    unfold depthIn at *
    rw [belowW_cons, lenOr0_nonneg h1]
    split <;> grind

/-- depth of a leaf of kid `j`: the branch to the kid plus the depth inside the kid -/
theorem depthIn_kid {K : Kids} {j : Nat} {e : EdgeD} {c : T} (hn : (leavesL K).Nodup)
    (hk : K[j]? = some (e, c)) {b : String} (hb : b ∈ c.leaves) :
    depthIn (splitsL K) b = e.lenOr0 + depthIn c.splitsBelow b := by
  obtain ⟨hkk, _⟩ := list_split_at K j (e, c) hk
  have hnd := hn
  rw [hkk, leavesL_append, leavesL_cons] at hnd
  have h1 : b ∉ leavesL (K.take j) := fun h => (List.nodup_append.1 hnd).2.2 b h b (by simp [hb]) rfl
  have h2 : b ∉ leavesL (K.drop (j + 1)) :=
    fun h => (List.nodup_append.1 (List.nodup_append.1 hnd).2.1).2.2 b hb b h rfl
  unfold depthIn
  conv => lhs; rw [hkk]
  rw [splitsL_append, splitsL_cons, belowW_append, belowW_cons, belowW_append,
    belowW_zero _ _ b (out_of_subL _ b h1), belowW_zero _ (splitsL (K.drop (j + 1))) b (out_of_subL _ b h2)]
  have : c.leaves.contains b = true := by simpa using hb
  simp only [this, if_true]
  grind

/-- state of `mlpL` after the first `idx` kids -/
def MlpInv (K : Kids) (idx : Nat) (best : List Nat) (cur : Rat) : Prop :=
  0 ≤ cur ∧ (∀ j e c, j < idx → K[j]? = some (e, c) → (mlp c).2 + e.len ≤ cur) ∧
  ((best = [] ∧ cur = 0) ∨ ∃ j e c, j < idx ∧ K[j]? = some (e, c) ∧ best = j :: (mlp c).1 ∧ cur = (mlp c).2 + e.len)

theorem mlpL_inv (K : Kids) : ∀ (k : Kids) (idx : Nat) (best : List Nat) (cur : Rat),
    K.drop idx = k → MlpInv K idx best cur →
    MlpInv K K.length (mlpL k idx best cur).1 (mlpL k idx best cur).2
  | [], idx, best, cur, hk, inv => by
    have hlen : K.length ≤ idx := by
      have := congrArg List.length hk; simp at this; omega
    simp only [mlpL]
    obtain ⟨i1, i2, i3⟩ := inv
    refine ⟨i1, fun j e c hj hc => i2 j e c (by omega) hc, ?_⟩
    rcases i3 with h | ⟨j, e, c, hj, hc, hb, hcur⟩
    · exact Or.inl h
    · exact Or.inr ⟨j, e, c, (List.getElem?_eq_some_iff.1 hc).1, hc, hb, hcur⟩
  | (e, t) :: r, idx, best, cur, hk, inv => by
    have hki : K[idx]? = some (e, t) := by
      have := congrArg (fun l => l[0]?) hk
      simpa using this
    have hk' : K.drop (idx + 1) = r := by
      have := congrArg (List.drop 1) hk
      simpa [List.drop_drop, Nat.add_comm] using this
    obtain ⟨i1, i2, i3⟩ := inv
    simp only [mlpL]
    split
    · rename_i hgt
      refine mlpL_inv K r (idx + 1) _ _ hk' ⟨by grind, ?_, Or.inr ⟨idx, e, t, by omega, hki, rfl, rfl⟩⟩
      intro j e' c' hj hc'
      by_cases hji : j = idx
      · subst hji; rw [hki] at hc'; cases hc'; exact Rat.le_refl
      · have := i2 j e' c' (by omega) hc'
        grind
    · rename_i hle
      refine mlpL_inv K r (idx + 1) _ _ hk' ⟨i1, ?_, ?_⟩
      · intro j e' c' hj hc'
        by_cases hji : j = idx
        · subst hji; rw [hki] at hc'; cases hc'; grind
        · exact i2 j e' c' (by omega) hc'
      · rcases i3 with h | ⟨j, e', c', hj, hc', hb, hcur⟩
        · exact Or.inl h
        · exact Or.inr ⟨j, e', c', by omega, hc', hb, hcur⟩

theorem mlp_inv (d : NodeD) (p : Nat) (K : Kids) : MlpInv K K.length (mlp (.node d p K)).1 (mlp (.node d p K)).2 := by
  simp only [mlp]
  exact mlpL_inv K K 0 [] 0 rfl ⟨Rat.le_refl, by intro j e c hj; omega, Or.inl ⟨rfl, rfl⟩⟩

theorem mem_leavesL : ∀ (K : Kids) (b : String), b ∈ leavesL K →
    ∃ (j : Nat) (e : EdgeD) (c : T), K[j]? = some (e, c) ∧ b ∈ c.leaves
  | [], b, h => by simp [leavesL_nil] at h
  | (e, c) :: r, b, h => by
    rw [leavesL_cons] at h
    rcases List.mem_append.1 h with h | h
    · exact ⟨0, e, c, rfl, h⟩
    · obtain ⟨j, e', c', hk, hb⟩ := mem_leavesL r b h
      exact ⟨j + 1, e', c', by rw [List.getElem?_cons_succ]; exact hk, hb⟩

theorem kid_splits_sub {K : Kids} {j : Nat} {e : EdgeD} {c : T} (hk : K[j]? = some (e, c)) :
    (⟨c.leaves, e, c.isLeaf⟩ : SplitE) ∈ splitsL K ∧ ∀ s ∈ c.splitsBelow, s ∈ splitsL K := by
  obtain ⟨hkk, _⟩ := list_split_at K j (e, c) hk
  rw [hkk, splitsL_append, splitsL_cons]
  exact ⟨by simp, fun s hs => by simp [hs]⟩

theorem atPath_cons_inv {d : NodeD} {pp : Nat} {K : Kids} {j : Nat} {p' : List Nat} {f : T}
    (h : AtPath (.node d pp K) (j :: p') f) : ∃ e c, K[j]? = some (e, c) ∧ AtPath c p' f := by
  rcases h with ⟨h, _⟩ | ⟨e, hd⟩
  · cases h
  · simp only [T.kids_node] at hd
    cases p' with
    | nil => simp only [descend] at hd; exact ⟨e, f, hd, Or.inl ⟨rfl, rfl⟩⟩
    | cons a r =>
      simp only [descend] at hd
      cases hk : K[j]? with
      | none => simp [hk] at hd
      | some ec =>
        obtain ⟨e0, c0⟩ := ec
        simp only [hk] at hd
        exact ⟨e0, c0, rfl, Or.inr ⟨e, hd⟩⟩

/-- no leaf is deeper than the length `MaxLengthPath` returns -/
theorem mlp_bound : ∀ (x : T), x.leaves.Nodup → NonNeg x.splitsBelow →
    ∀ b ∈ x.leaves, depthIn x.splitsBelow b ≤ (mlp x).2 := by
  intro x
  induction x using T.induct with
  | h d pp K ih =>
    intro hn hnn b hb
    obtain ⟨i1, i2, _⟩ := mlp_inv d pp K
    by_cases hK : K = []
    · subst hK; simp only [T.splitsBelow_node, splitsL_nil, depthIn, belowW_nil]; exact i1
    · rw [leaves_of_kids hK] at hn hb
      rw [T.splitsBelow_node] at hnn ⊢
      obtain ⟨j, e, c, hk, hbc⟩ := mem_leavesL K b hb
      obtain ⟨m1, m2⟩ := kid_splits_sub hk
      have he : 0 ≤ e.len := hnn _ m1
      rw [depthIn_kid hn hk hbc, lenOr0_nonneg he]
      have := ih (e, c) (List.mem_of_getElem? hk) (kid_leaves_nodup hn hk) (fun s hs => hnn s (m2 s hs)) b hbc
      have h2 := i2 j e c (List.getElem?_eq_some_iff.1 hk).1 hk
      simp only at this
      grind

/-- every leaf below the far end of the path is exactly that deep -/
theorem mlp_far : ∀ (x : T), x.leaves.Nodup → NonNeg x.splitsBelow →
    ∀ f, AtPath x (mlp x).1 f → ∀ b ∈ f.leaves, depthIn x.splitsBelow b = (mlp x).2 := by
  intro x
  induction x using T.induct with
  | h d pp K ih =>
    intro hn hnn f hf b hb
    obtain ⟨i1, i2, i3⟩ := mlp_inv d pp K
    rcases i3 with ⟨hb0, hc0⟩ | ⟨j, e, c, hj, hk, hbest, hcur⟩
    · rw [hb0] at hf
      rcases hf with ⟨_, rfl⟩ | ⟨e, hd⟩
      · have h1 := mlp_bound _ hn hnn b hb
        have h2 := depthIn_nonneg (T.node d pp K).splitsBelow b hnn
        rw [hc0] at h1 ⊢
        grind
      · simp [descend] at hd
    · rw [hbest] at hf
      obtain ⟨e', c', hk', hfc⟩ := atPath_cons_inv hf
      rw [hk] at hk'; cases hk'
      have hK : K ≠ [] := by intro h0; rw [h0] at hk; simp at hk
      rw [leaves_of_kids hK] at hn
      rw [T.splitsBelow_node] at hnn ⊢
      obtain ⟨m1, m2⟩ := kid_splits_sub hk
      have he : 0 ≤ e.len := hnn _ m1
      have hbc : b ∈ c.leaves := atPath_leaves_sub hfc b hb
      rw [depthIn_kid hn hk hbc, lenOr0_nonneg he, hcur]
      have := ih (e, c) (List.mem_of_getElem? hk) (kid_leaves_nodup hn hk) (fun s hs => hnn s (m2 s hs)) f hfc b hb
      simp only at this
      grind



/-- sum of the lengths of a list of branches -/
def sumLen (l : List EdgeD) : Rat := (l.map (·.len)).sum

theorem sumLen_nil : sumLen [] = 0 := rfl
theorem sumLen_cons (e : EdgeD) (l : List EdgeD) : sumLen (e :: l) = e.len + sumLen l := by simp [sumLen]
theorem sumLen_append (a b : List EdgeD) : sumLen (a ++ b) = sumLen a + sumLen b := by
  induction a with
  | nil => simp [sumLen_nil, Rat.zero_add]
  | cons e a ih => simp only [List.cons_append, sumLen_cons, ih]; grind
theorem sumLen_reverse (l : List EdgeD) : sumLen l.reverse = sumLen l := by
  induction l with
  | nil => rfl
  | cons e l ih => simp only [List.reverse_cons, sumLen_append, sumLen_cons, sumLen_nil, ih]; grind
theorem sumLen_take_drop (l : List EdgeD) (m : Nat) : sumLen l = sumLen (l.take m) + sumLen (l.drop m) := by
  conv => lhs; rw [← List.take_append_drop m l]
  exact sumLen_append _ _

/-- the path of `MaxLengthPath` continues, below each of its nodes, with the path of that node;
    the total is the sum of the branches along it -/
theorem mlp_suffix : ∀ (m : Nat) (x : T) (e : EdgeD) (B : T), m < (mlp x).1.length →
    descend x.kids ((mlp x).1.take (m + 1)) = some (e, B) →
    (mlp B).1 = (mlp x).1.drop (m + 1) ∧
    (mlp x).2 = sumLen (edgesAlongK x.kids ((mlp x).1.take (m + 1))) + (mlp B).2
  | m, .node d pp K, e, B, hm, hd => by
    obtain ⟨_, _, i3⟩ := mlp_inv d pp K
    rcases i3 with ⟨hb0, _⟩ | ⟨j, e0, c0, hj, hk, hbest, hcur⟩
    · rw [hb0] at hm; simp at hm
    · simp only [T.kids_node] at hd ⊢
      rw [hbest] at hm hd ⊢
      cases m with
      | zero =>
        simp only [Nat.zero_add, List.take_succ_cons, List.take_zero, descend] at hd
        rw [hk] at hd; cases hd
        simp only [Nat.zero_add, List.drop_succ_cons, List.drop_zero, List.take_succ_cons, List.take_zero,
          edgesAlongK, hk, sumLen_cons, sumLen_nil, true_and]
        rw [hcur]; grind
      | succ m =>
        have hm' : m < (mlp c0).1.length := by simpa using hm
        have hne : (mlp c0).1.take (m + 1) ≠ [] := by
          intro h0
          have := congrArg List.length h0
          simp only [List.length_take, List.length_nil] at this
          omega
        have hd' : descend c0.kids ((mlp c0).1.take (m + 1)) = some (e, B) := by
          rw [List.take_succ_cons] at hd
          cases hq : (mlp c0).1.take (m + 1) with
          | nil => exact absurd hq hne
          | cons a r => rw [hq] at hd; simpa [descend, hk] using hd
        obtain ⟨h1, h2⟩ := mlp_suffix m c0 e B hm' hd'
        refine ⟨by simpa using h1, ?_⟩
        rw [List.take_succ_cons]
        simp only [edgesAlongK, hk, sumLen_cons]
        rw [hcur, h2]; grind

theorem edgesAlongK_take : ∀ (c : List Nat) (K : Kids) (m : Nat),
    edgesAlongK K (c.take m) = (edgesAlongK K c).take m
  | _, _, 0 => by simp [edgesAlongK]
  | [], _, _ + 1 => by simp [edgesAlongK]
  | i :: r, K, m + 1 => by
    simp only [List.take_succ_cons, edgesAlongK]
    cases K[i]? with
    | none => simp
    | some ec => obtain ⟨e, c⟩ := ec; simp [edgesAlongK_take r c.kids m]

/-- depth of a leaf below a node reached by a path -/
theorem depthIn_descend : ∀ (p : List Nat) (K : Kids) (e : EdgeD) (B : T) (b : String),
    (leavesL K).Nodup → NonNeg (splitsL K) → descend K p = some (e, B) → b ∈ B.leaves →
    depthIn (splitsL K) b = sumLen (edgesAlongK K p) + depthIn B.splitsBelow b
  | [], _, _, _, _, _, _, h, _ => by simp [descend] at h
  | [i], K, e, B, b, hn, hnn, h, hb => by
    simp only [descend] at h
    obtain ⟨m1, _⟩ := kid_splits_sub h
    rw [depthIn_kid hn h hb, lenOr0_nonneg (hnn _ m1)]
    simp [edgesAlongK, h, sumLen_cons, sumLen_nil, Rat.add_zero]
  | i :: j :: r, K, e, B, b, hn, hnn, h, hb => by
    simp only [descend] at h
    cases hk : K[i]? with
    | none => simp [hk] at h
    | some ec =>
      obtain ⟨e0, c0⟩ := ec
      simp only [hk] at h
      obtain ⟨m1, m2⟩ := kid_splits_sub hk
      have hne : c0.kids ≠ [] := by
        intro h0; rw [h0] at h; cases r <;> simp [descend] at h
      have hc0l : c0.leaves = leavesL c0.kids := by
        obtain ⟨d0, p0, k0⟩ := c0; exact leaves_of_kids hne
      have hc0s : c0.splitsBelow = splitsL c0.kids := by
        obtain ⟨d0, p0, k0⟩ := c0; simp [T.splitsBelow_node]
      have hbc0 : b ∈ c0.leaves := by
        rw [hc0l]; exact descend_leaves_sub (j :: r) c0.kids e B h b hb
      have hn0 : (leavesL c0.kids).Nodup := by rw [← hc0l]; exact kid_leaves_nodup hn hk
      have ih := depthIn_descend (j :: r) c0.kids e B b hn0
        (by rw [← hc0s]; exact fun s hs => hnn s (m2 s hs)) h hb
      rw [depthIn_kid hn hk hbc0, lenOr0_nonneg (hnn _ m1), hc0s, ih]
      simp only [edgesAlongK, hk, sumLen_cons]
      grind

/-- a valid non-empty path leads to a node -/
theorem valid_descend : ∀ (c : List Nat) (K : Kids), ValidK K c → c ≠ [] → ∃ e f, descend K c = some (e, f)
  | [], _, _, h => absurd rfl h
  | [i], K, hv, _ => by
    simp only [ValidK, edgesAlongK] at hv
    cases hk : K[i]? with
    | none => simp [hk] at hv
    | some ec => obtain ⟨e, c⟩ := ec; exact ⟨e, c, by simp [descend, hk]⟩
  | i :: j :: r, K, hv, _ => by
    simp only [ValidK, edgesAlongK] at hv
    cases hk : K[i]? with
    | none => simp [hk] at hv
    | some ec =>
      obtain ⟨e, c⟩ := ec
      simp only [hk, List.length_cons] at hv
      have hv' : ValidK c.kids (j :: r) := by
        simp only [ValidK, edgesAlongK, List.length_cons] at hv ⊢; omega
      obtain ⟨e', f, hd⟩ := valid_descend (j :: r) c.kids hv' (by simp)
      exact ⟨e', f, by simp [descend, hk, hd]⟩

/-- the sum accumulated by the loop of `RerootMidPoint` -/
theorem walkHalf_sum (half : Rat) : ∀ (l : List EdgeD) (len0 : Rat) (i0 i : Nat) (len : Rat),
    walkHalf half l len0 i0 = some (i, len) → len0 < half → len = len0 + sumLen (l.take (i - i0))
  | [], len0, i0, i, len, h, h0 => by simp [walkHalf, h0] at h
  | e :: r, len0, i0, i, len, h, h0 => by
    simp only [walkHalf, h0, if_true] at h
    by_cases h1 : len0 + e.len < half
    · have := walkHalf_sum half r (len0 + e.len) (i0 + 1) i len h h1
      obtain ⟨j, _, hj, _⟩ := walkHalf_spec half r (len0 + e.len) (i0 + 1) i len h h1
      have hi : i - i0 = (i - (i0 + 1)) + 1 := by omega
      rw [hi, List.take_succ_cons, sumLen_cons, this]; grind
    · have hi : i = i0 + 1 ∧ len = len0 + e.len := by
        cases r with
        | nil => simp only [walkHalf, h1, if_false] at h; cases h; exact ⟨rfl, rfl⟩
        | cons e2 r2 => simp only [walkHalf, h1, if_false] at h; cases h; exact ⟨rfl, rfl⟩
      obtain ⟨rfl, rfl⟩ := hi
      have : i0 + 1 - i0 = 1 := by omega
      rw [this]; simp [sumLen_cons, sumLen_nil, Rat.add_zero]



/-- what a node reached by a path inherits -/
theorem descend_inherit : ∀ (p : List Nat) (K : Kids) (e : EdgeD) (B : T), (leavesL K).Nodup →
    descend K p = some (e, B) → B.leaves.Nodup ∧ ∀ s ∈ B.splitsBelow, s ∈ splitsL K
  | [], _, _, _, _, h => by simp [descend] at h
  | [i], K, e, B, hn, h => by
    simp only [descend] at h
    exact ⟨kid_leaves_nodup hn h, (kid_splits_sub h).2⟩
  | i :: j :: r, K, e, B, hn, h => by
    simp only [descend] at h
    cases hk : K[i]? with
    | none => simp [hk] at h
    | some ec =>
      obtain ⟨e0, c0⟩ := ec
      simp only [hk] at h
      have hne : c0.kids ≠ [] := by
        intro h0; rw [h0] at h; cases r <;> simp [descend] at h
      have hc0l : c0.leaves = leavesL c0.kids := by
        obtain ⟨d0, p0, k0⟩ := c0; exact leaves_of_kids hne
      have hc0s : c0.splitsBelow = splitsL c0.kids := by
        obtain ⟨d0, p0, k0⟩ := c0; simp [T.splitsBelow_node]
      have hn0 : (leavesL c0.kids).Nodup := by rw [← hc0l]; exact kid_leaves_nodup hn hk
      obtain ⟨h1, h2⟩ := descend_inherit (j :: r) c0.kids e B hn0 h
      exact ⟨h1, fun s hs => (kid_splits_sub hk).2 s (by rw [hc0s]; exact h2 s hs)⟩

theorem descend_snoc_mk : ∀ (q : List Nat) (K : Kids) (i : Nat) (e e' : EdgeD) (A y : T),
    descend K q = some (e', A) → A.kids[i]? = some (e, y) → descend K (q ++ [i]) = some (e, y)
  | [], _, _, _, _, _, _, h, _ => by simp [descend] at h
  | [j], K, i, e, e', A, y, h, hA => by
    simp only [descend] at h
    simp [descend, h, hA]
  | j :: j2 :: r, K, i, e, e', A, y, h, hA => by
    simp only [descend] at h
    cases hk : K[j]? with
    | none => simp [hk] at h
    | some ec =>
      obtain ⟨e0, c0⟩ := ec
      simp only [hk] at h
      have := descend_snoc_mk (j2 :: r) c0.kids i e e' A y h hA
      simp only [List.cons_append] at this ⊢
      simp [descend, hk, this]

/-- two names that no entry has both below: the distance is the sum of the depths -/
theorem distW_split (w : EdgeD → Rat) : ∀ (l : List SplitE) (a b : String),
    (∀ s ∈ l, ¬ (a ∈ s.below ∧ b ∈ s.below)) → distW w l a b = belowW w l a + belowW w l b
  | [], _, _, _ => by simp [distW_nil, belowW_nil, Rat.add_zero]
  | s :: l, a, b, h => by
    have h1 := h s (by simp)
    have ih := distW_split w l a b (fun x hx => h x (by simp [hx]))
    rw [distW_cons, belowW_cons, belowW_cons, ih]
    by_cases ha : a ∈ s.below <;> by_cases hb : b ∈ s.below
    · exact absurd ⟨ha, hb⟩ h1
    · simp [SplitE.sep, ha, hb]; grind
    · simp [SplitE.sep, ha, hb]; grind
    · simp [SplitE.sep, ha, hb]; grind

theorem rootDist_eq (t : T) (a : String) : t.rootDist a = depthIn t.splits a := rfl

theorem mlp_nil_zero (x : T) (h : (mlp x).1 = []) : (mlp x).2 = 0 := by
  obtain ⟨d, pp, K⟩ := x
  obtain ⟨_, _, i3⟩ := mlp_inv d pp K
  rcases i3 with ⟨_, h0⟩ | ⟨j, e, c, _, _, hb, _⟩
  · exact h0
  · rw [h] at hb; cases hb

/-- the total of `MaxLengthPath` is the sum of the branches along its path -/
theorem mlp_total (x : T) : (mlp x).2 = sumLen (edgesAlongK x.kids (mlp x).1) := by
  by_cases h : (mlp x).1 = []
  · rw [mlp_nil_zero x h, h]
    cases x; simp [edgesAlongK, sumLen_nil]
  · have hv : ValidK x.kids (mlp x).1 := mlp_valid x
    obtain ⟨e, f, hd⟩ := valid_descend _ _ hv h
    have hlen : 0 < (mlp x).1.length := List.length_pos_iff.2 h
    have htake : (mlp x).1.take ((mlp x).1.length - 1 + 1) = (mlp x).1 := by
      rw [Nat.sub_add_cancel hlen]; exact List.take_length
    obtain ⟨h1, h2⟩ := mlp_suffix ((mlp x).1.length - 1) x e f (by omega) (by rw [htake]; exact hd)
    rw [htake] at h2
    have : (mlp f).1 = [] := by
      rw [h1, Nat.sub_add_cancel hlen]; exact List.drop_length
    rw [h2, mlp_nil_zero f this]; grind



/-- **Where the cut puts the root** (the tree presented at the start tip `T0` of the chosen
    path, of length `L`): some tip `b` is at distance `L` from `T0`, and in the result both are
    at distance `L/2` from the root. -/
theorem midpointCut_half (cand : Cand) (u : T) (h : midpointCut true cand = .ok u)
    (hc : cand.c = (mlp cand.tT).1) (hL : cand.len = (mlp cand.tT).2) (hpos : 0 < cand.len)
    (hu : cand.tT.tipNames.Nodup) (hroot : cand.tT.kids.length = 1) (hg : LensGood cand.tT.splits)
    (hnn : NonNeg cand.tT.splits) :
    ∃ b, b ∈ leavesL cand.tT.kids ∧ cand.tT.dist cand.tT.name b = cand.len ∧
      u.rootDist b = cand.len / 2 ∧ u.rootDist cand.tT.name = cand.len / 2 := by
  have hv : ValidK cand.tT.kids cand.c := by rw [hc]; exact mlp_valid cand.tT
  obtain ⟨hsame, hk2⟩ := midpointCut_same cand u h hv hpos hu hg
  -- the start tip is the root and is below no branch
  have htips : cand.tT.tipNames = cand.tT.name :: leavesL cand.tT.kids := by
    unfold T.tipNames; simp [hroot]
  rw [htips] at hu
  have hT0 : cand.tT.name ∉ leavesL cand.tT.kids := (List.nodup_cons.1 hu).1
  have hnK : (leavesL cand.tT.kids).Nodup := (List.nodup_cons.1 hu).2
  unfold midpointCut at h
  simp only [Bool.not_true, Bool.false_and, Bool.false_eq_true, if_false] at h
  cases hw : walkHalf (cand.len / 2) (edgesAlong cand.tT cand.c).reverse 0 0 with
  | none => simp [hw] at h
  | some il =>
    obtain ⟨i, len⟩ := il
    simp only [hw] at h
    have hhalf : (0 : Rat) < cand.len / 2 := by grind
    obtain ⟨j, em, hij, hem, hlt, hge⟩ := walkHalf_spec _ _ 0 0 i len hw hhalf
    have hsum := walkHalf_sum _ _ 0 0 i len hw hhalf
    have hi1 : i - 1 = j := by omega
    rw [hi1, hem] at h
    simp only at h
    have hE : (edgesAlong cand.tT cand.c).length = cand.c.length := by rw [edgesAlong_eq]; exact hv
    have hjlt : j < cand.c.length := by
      have := (List.getElem?_eq_some_iff.1 hem).1
      simpa [hE] using this
    have hm : cand.c.length - 1 - j < cand.c.length := by omega
    have hEm : (edgesAlongK cand.tT.kids cand.c)[cand.c.length - 1 - j]? = some em := by
      rw [← edgesAlong_eq]
      rw [List.getElem?_reverse (by rw [hE]; exact hjlt)] at hem
      rw [hE] at hem
      exact hem
    generalize hmdef : cand.c.length - 1 - j = m at *
    obtain ⟨KA, B, em2, h1, h2, h3⟩ := valid_step cand.c cand.tT.kids m hv hm
    rw [hEm] at h1
    cases h1
    rcases hR : rerootP cand.tT (cand.c.take m) none cand.back with ⟨tA, adj, bk⟩
    simp only [hR] at h
    have hkid : tA.kids[adjIdx adj (cand.c.getD m 0)]? = some (em, B) := by
      rcases h3 with ⟨hm0, rfl⟩ | ⟨_, e, A, hd, rfl⟩
      · rw [hm0] at hR
        simp only [List.take_zero, rerootP_nil, Prod.mk.injEq] at hR
        obtain ⟨rfl, rfl, _⟩ := hR
        simpa [adjIdx] using h2
      · obtain ⟨pos, x, r1, r2, r3⟩ := rerootP_descend _ cand.tT none cand.back cand.tT.kids e A rfl hd
        rw [hR] at r1 r2
        simp only at r1 r2
        subst r1; subst r2
        rw [T.kids_node, getElem_insertAt_adj _ _ _ _ r3]
        exact h2
    -- the node below the cut branch, reached from the start tip
    have hgetD : cand.c.getD m 0 = cand.c[m] := by
      simp [List.getD_eq_getElem?_getD, List.getElem?_eq_getElem hm]
    have htk : cand.c.take (m + 1) =
        cand.c.take m ++ [cand.c[m]] := by
      rw [List.take_add_one, List.getElem?_eq_getElem hm]; rfl
    have hBdesc : descend cand.tT.kids (cand.c.take (m + 1)) = some (em, B) := by
      rw [htk]
      rcases h3 with ⟨hm0, rfl⟩ | ⟨_, e, A, hd, rfl⟩
      · subst hm0
        simp only [List.take_zero, List.nil_append, descend]
        rw [← hgetD]; exact h2
      · exact descend_snoc_mk _ _ _ _ _ _ _ hd (by rw [← hgetD]; exact h2)
    rw [hc] at hBdesc hm
    obtain ⟨hB1, hB2⟩ := mlp_suffix _ cand.tT em B hm hBdesc
    rw [← hc] at hBdesc hm hB1 hB2
    obtain ⟨hBn, hBs⟩ := descend_inherit _ _ em B hnK hBdesc
    have hnnK : NonNeg (splitsL cand.tT.kids) := hnn
    have hBnn : NonNeg B.splitsBelow := fun s hs => hnnK s (hBs s hs)
    -- a tip below the far end of the path
    obtain ⟨f', hf'⟩ : ∃ f', AtPath B (mlp B).1 f' := by
      by_cases h0 : (mlp B).1 = []
      · exact ⟨B, Or.inl ⟨h0, rfl⟩⟩
      · obtain ⟨e', f', hd'⟩ := valid_descend _ _ (mlp_valid B) h0
        exact ⟨f', Or.inr ⟨e', hd'⟩⟩
    obtain ⟨b, hbf⟩ : ∃ b, b ∈ f'.leaves := by
      cases hfl : f'.leaves with
      | nil => exact absurd hfl (T.leaves_ne_nil f')
      | cons b _ => exact ⟨b, by simp⟩
    have hbB : b ∈ B.leaves := atPath_leaves_sub hf' b hbf
    have hdB : depthIn B.splitsBelow b = (mlp B).2 := mlp_far B hBn hBnn f' hf' b hbf
    have hbK : b ∈ leavesL cand.tT.kids := descend_leaves_sub _ _ em B hBdesc b hbB
    have hdT : depthIn (splitsL cand.tT.kids) b = cand.len := by
      rw [depthIn_descend _ _ em B b hnK hnnK hBdesc hbB, hdB, hL, hB2]
    -- the distance from the start tip
    have hdist : cand.tT.dist cand.tT.name b = cand.len := by
      unfold T.dist T.splits
      rw [distW_left_out _ _ _ _ (out_of_subL _ _ hT0)]
      exact hdT
    split at h
    · rename_i u' hcut
      cases h
      -- the two children of the new root
      rw [cutAt_eq tA _ _ _ false em B hkid] at hcut
      have hu' := (Option.some.inj hcut).symm
      simp only [Bool.false_eq_true, if_false] at hu'
      have hun : u.tipNames.Nodup := hsame.tips.nodup_iff.2 (by rw [htips]; exact hu)
      have hutips : u.tipNames = leavesL u.kids := by
        unfold T.tipNames; simp [hk2]
      have hnuK : (leavesL u.kids).Nodup := by rw [← hutips]; exact hun
      have hk0 : u.kids[0]? = some ({ EdgeD.blank with len := em.len - (len - cand.len / 2), sup := em.sup },
          T.node B.d B.kids.length B.kids) := by rw [hu']; rfl
      have hBl : (T.node B.d B.kids.length B.kids).leaves = B.leaves := by
        obtain ⟨dB, pB, kB⟩ := B; simp [T.leaves_node]
      have hBsb : (T.node B.d B.kids.length B.kids).splitsBelow = B.splitsBelow := by
        obtain ⟨dB, pB, kB⟩ := B; simp [T.splitsBelow_node]
      have hrb : u.rootDist b = (em.len - (len - cand.len / 2)) + (mlp B).2 := by
        rw [rootDist_eq]
        unfold T.splits
        rw [depthIn_kid hnuK hk0 (by rw [hBl]; exact hbB), hBsb, hdB]
        rw [lenOr0_nonneg (by show (0 : Rat) ≤ em.len - (len - cand.len / 2); grind)]
      -- the arithmetic of the cut
      have hlen : len = sumLen ((edgesAlongK cand.tT.kids cand.c).drop m) := by
        rw [hsum, Nat.sub_zero, hij, Nat.zero_add, edgesAlong_eq, Rat.zero_add]
        have hEl : (edgesAlongK cand.tT.kids cand.c).length = cand.c.length := hv
        rw [List.take_reverse, sumLen_reverse, hEl]
        congr 2; omega
      have htot : cand.len = sumLen (edgesAlongK cand.tT.kids cand.c) := by
        rw [hL, hc]; exact mlp_total cand.tT
      have hsplit := sumLen_take_drop (edgesAlongK cand.tT.kids cand.c) m
      have htk1 : sumLen (edgesAlongK cand.tT.kids (cand.c.take (m + 1))) =
          sumLen ((edgesAlongK cand.tT.kids cand.c).take m) + em.len := by
        rw [edgesAlongK_take, List.take_add_one, hEm]
        simp [sumLen_append, sumLen_cons, sumLen_nil, Rat.add_zero]
      have hB2' : cand.len = sumLen (edgesAlongK cand.tT.kids (cand.c.take (m + 1))) + (mlp B).2 := hL.trans hB2
      have hrb' : u.rootDist b = cand.len / 2 := by
        rw [hrb]
        grind
      -- the start tip, by complement
      have hT0u : cand.tT.name ∈ u.tipNames := hsame.tips.mem_iff.2 (by rw [htips]; simp)
      have hbu : b ∈ u.tipNames := hsame.tips.mem_iff.2 (by rw [htips]; simp [hbK])
      have hdu : u.dist cand.tT.name b = cand.len := by
        rw [hsame.dist _ _ (by rw [htips]; simp) (by rw [htips]; simp [hbK])]; exact hdist
      have hno : ∀ s ∈ u.splits, ¬ (cand.tT.name ∈ s.below ∧ b ∈ s.below) := by
        intro s hs
        unfold T.splits at hs
        rw [hu'] at hs
        simp only [T.kids_node, splitsL_cons, splitsL_nil, List.append_nil, List.mem_cons, List.mem_append] at hs
        have hT0B : cand.tT.name ∉ B.leaves := fun hx => hT0 (descend_leaves_sub _ _ em B hBdesc _ hx)
        -- the other side has none of the leaves of B
        have hbA : ∀ x, x ∈ B.leaves →
            x ∉ (T.node tA.d (tA.kids.length - 1) (tA.kids.eraseIdx (adjIdx adj (cand.c.getD m 0)))).leaves := by
          intro x hx hxa
          rw [hutips, hu'] at hun
          simp only [T.kids_node, leavesL_cons, leavesL_nil, List.append_nil, hBl] at hun
          exact (List.nodup_append.1 hun).2.2 x hx x hxa rfl
        rcases hs with rfl | hs | rfl | hs
        · simp only [hBl]; exact fun hh => hT0B hh.1
        · rw [hBsb] at hs
          exact fun hh => hT0B (below_sub B s hs _ hh.1)
        · exact fun hh => hbA b hbB hh.2
        · exact fun hh => hbA b hbB (below_sub _ s hs _ hh.2)
      have := distW_split EdgeD.lenOr0 u.splits cand.tT.name b hno
      have hd2 : u.dist cand.tT.name b = u.rootDist cand.tT.name + u.rootDist b := this
      refine ⟨b, hbK, hdist, hrb', ?_⟩
      rw [hdu, hrb'] at hd2
      grind
    · cases h



/-! ## which presentations `RerootMidPoint` tries, and which one it keeps -/

/-- a property of all branch data is kept by root moves -/
theorem moveRoot_edgesP (P : EdgeD → Prop) (t : T) (i : Nat) (h : ∀ s ∈ t.splits, P s.e) :
    ∀ s ∈ (moveRoot t i).splits, P s.e := by
  cases hk : t.kids[i]? with
  | none => rw [moveRoot_of_none t i hk]; exact h
  | some ec =>
    obtain ⟨e, c⟩ := ec
    obtain ⟨rest, p1, p2⟩ := moveRoot_splits_perm t i e c hk
    intro s hs
    rcases List.mem_cons.1 (p2.mem_iff.1 hs) with rfl | hr
    · exact h ⟨c.leaves, e, c.isLeaf⟩ (p1.mem_iff.2 (by simp))
    · exact h s (p1.mem_iff.2 (by simp [hr]))

theorem rerootP_edgesP (P : EdgeD → Prop) : ∀ (path : List Nat) (t : T) (adj : Option Nat) (back : List Nat),
    (∀ s ∈ t.splits, P s.e) → ∀ s ∈ (rerootP t path adj back).1.splits, P s.e
  | [], t, _, _, h => h
  | i :: rest, t, adj, back, h => by
    cases hk : t.kids[adjIdx adj i]? with
    | none => rw [rerootP_cons_none t i rest adj back hk]; exact h
    | some ec =>
      obtain ⟨e, c⟩ := ec
      rw [rerootP_cons_some t i rest adj back e c hk]
      exact rerootP_edgesP P rest _ _ _ (moveRoot_edgesP P t _ h)

theorem unroot_nonneg (t : T) (h : NonNeg t.splits) : NonNeg (unroot t).splits := by
  by_cases hr : ∃ d p e1 e2 d1 d2 p1 p2 k1 k2, t = .node d p [(e1, .node d1 p1 k1), (e2, .node d2 p2 k2)]
  · obtain ⟨d, p, e1, e2, d1, d2, p1, p2, k1, k2, rfl⟩ := hr
    rw [unroot_rooted]
    have hsp : (T.node d p [(e1, T.node d1 p1 k1), (e2, T.node d2 p2 k2)]).splits =
        ⟨(T.node d1 p1 k1).leaves, e1, k1.isEmpty⟩ :: (splitsL k1 ++
          (⟨(T.node d2 p2 k2).leaves, e2, k2.isEmpty⟩ :: (splitsL k2 ++ []))) := by
      simp [T.splits, splitsL_cons, splitsL_nil, T.splitsBelow_node, T.isLeaf_node]
    rw [hsp] at h
    have g1 : 0 ≤ e1.len := h ⟨(T.node d1 p1 k1).leaves, e1, k1.isEmpty⟩ (by simp)
    have g2 : 0 ≤ e2.len := h ⟨(T.node d2 p2 k2).leaves, e2, k2.isEmpty⟩ (by simp)
    have g3 : 0 ≤ (unrootEdge k1.isEmpty k2.isEmpty e1 e2).len := by
      show 0 ≤ unrootLen e1 e2
      unfold unrootLen rmax NIL
      by_cases a1 : e1.len = -1 <;> by_cases a2 : e2.len = -1 <;> simp [a1, a2] <;> grind
    have in1 : ∀ s ∈ splitsL k1, 0 ≤ s.e.len := fun s hs => h s (by simp [hs])
    have in2 : ∀ s ∈ splitsL k2, 0 ≤ s.e.len := fun s hs => h s (by simp [hs])
    intro s hs
    split at hs
    · simp only [T.splits, T.kids_node, splitsL_append, splitsL_cons, splitsL_nil, T.splitsBelow_node,
        List.mem_append, List.mem_cons, List.append_nil] at hs
      rcases hs with hs | hs | hs
      all_goals first | exact in1 _ hs | exact in2 _ hs | (subst hs; exact g3)
    · simp only [T.splits, T.kids_node, splitsL_append, splitsL_cons, splitsL_nil, T.splitsBelow_node,
        List.mem_append, List.mem_cons, List.append_nil] at hs
      rcases hs with hs | hs | hs
      all_goals first | exact in1 _ hs | exact in2 _ hs | (subst hs; exact g3)
  · rw [unroot_other t (fun d p e1 e2 d1 d2 p1 p2 k1 k2 h => hr ⟨d, p, e1, e2, d1, d2, p1, p2, k1, k2, h⟩)]
    exact h

/- the leaf paths lead to the leaves -/
mutual
theorem leafPathsT_sem : ∀ (c : T) (p : List Nat), p ∈ leafPathsT c →
    (p = [] ∧ c.kids = []) ∨ ∃ e l, descend c.kids p = some (e, l) ∧ l.kids = []
  | .node d pp [], p, h => by
    simp only [leafPathsT, List.mem_singleton] at h
    exact Or.inl ⟨h, rfl⟩
  | .node d pp (k :: ks), p, h => by
    simp only [leafPathsT] at h
    obtain ⟨j, p', rfl, e', l, hd, hl⟩ := leafPathsL_sem (k :: ks) 0 p h
    right
    simp only [Nat.zero_add, T.kids_node]
    exact ⟨e', l, hd, hl⟩
theorem leafPathsL_sem : ∀ (k : Kids) (i : Nat) (p : List Nat), p ∈ leafPathsL k i →
    ∃ j p', p = (i + j) :: p' ∧ ∃ e' l, descend k (j :: p') = some (e', l) ∧ l.kids = []
  | [], _, _, h => by simp [leafPathsL] at h
  | (e, t) :: r, i, p, h => by
    simp only [leafPathsL, List.mem_append, List.mem_map] at h
    rcases h with ⟨p', hp', rfl⟩ | h
    · refine ⟨0, p', rfl, ?_⟩
      rcases leafPathsT_sem t p' hp' with ⟨rfl, hl⟩ | ⟨e', l, hd, hl⟩
      · exact ⟨e, t, by simp [descend], hl⟩
      · refine ⟨e', l, ?_, hl⟩
        cases p' with
        | nil => simp [descend] at hd
        | cons a b => simp [descend, hd]
    · obtain ⟨j, p', rfl, e', l, hd, hl⟩ := leafPathsL_sem r (i + 1) p h
      refine ⟨j + 1, p', by rw [show i + 1 + j = i + (j + 1) by omega], e', l, ?_, hl⟩
      cases p' with
      | nil => simpa [descend] using hd
      | cons a b => simpa [descend] using hd
end

/-- every start of `RerootMidPoint` presents the tree at a tip: the root has one neighbour -/
theorem tipPath_root (t1 : T) (p : List Nat) (hp : p ∈ tipPaths t1) :
    (rerootP t1 p none []).1.kids.length = 1 := by
  unfold tipPaths at hp
  rcases List.mem_append.1 hp with hp | hp
  · split at hp
    · rename_i h1
      simp only [List.mem_singleton] at hp
      subst hp
      simpa [rerootP_nil] using h1
    · cases hp
  · obtain ⟨j, p', rfl, e', l, hd, hl⟩ := leafPathsL_sem t1.kids 0 p hp
    simp only [Nat.zero_add]
    obtain ⟨pos, x, r1, _, _⟩ := rerootP_descend (j :: p') t1 none [] t1.kids e' l rfl hd
    rw [r1, T.kids_node, hl]
    simp [insertAt]

/-- the candidate kept by the loop over the tips -/
def CandOK2 (t1 : T) (cand : Cand) : Prop :=
  (∃ p ∈ tipPaths t1, cand.tT = (rerootP t1 p none []).1) ∧ cand.c = (mlp cand.tT).1 ∧
    cand.len = (mlp cand.tT).2 ∧ 0 < cand.len

theorem bestCand_spec2 (t1 : T) (cand : Cand) : ∀ (ps : List (List Nat)) (best : Option Cand) (cur : Rat),
    (∀ p ∈ ps, p ∈ tipPaths t1) → 0 ≤ cur → (∀ b, best = some b → CandOK2 t1 b ∧ b.len = cur) →
    bestCand t1 ps best cur = some cand → CandOK2 t1 cand ∧ cur ≤ cand.len ∧
      ∀ p ∈ ps, (mlp (rerootP t1 p none []).1).2 ≤ cand.len
  | [], best, cur, _, _, hb, h => by
    simp only [bestCand] at h
    obtain ⟨h1, h2⟩ := hb cand h
    exact ⟨h1, by rw [h2]; exact Rat.le_refl, fun p hp => by cases hp⟩
  | p :: ps, best, cur, hps, hc, hb, h => by
    simp only [bestCand] at h
    split at h
    · rename_i hl
      obtain ⟨h1, h2, h3⟩ := bestCand_spec2 t1 cand ps _ _ (fun q hq => hps q (by simp [hq])) (by grind)
        (by
          intro b hb'
          cases hb'
          exact ⟨⟨⟨p, hps p (by simp), rfl⟩, rfl, rfl, by grind⟩, rfl⟩) h
      refine ⟨h1, by grind, ?_⟩
      intro q hq
      rcases List.mem_cons.1 hq with rfl | hq
      · exact h2
      · exact h3 q hq
    · rename_i hl
      obtain ⟨h1, h2, h3⟩ := bestCand_spec2 t1 cand ps best cur (fun q hq => hps q (by simp [hq])) hc hb h
      refine ⟨h1, h2, ?_⟩
      intro q hq
      rcases List.mem_cons.1 hq with rfl | hq
      · grind
      · exact h3 q hq



/- every leaf has its path -/
mutual
theorem leafPathsT_cover : ∀ (c : T) (x : String), x ∈ c.leaves →
    ∃ p ∈ leafPathsT c, (p = [] ∧ c.kids = [] ∧ c.name = x) ∨
      ∃ e l, descend c.kids p = some (e, l) ∧ l.kids = [] ∧ l.name = x
  | .node d pp [], x, h => by
    simp only [T.leaves, List.mem_singleton] at h
    exact ⟨[], by simp [leafPathsT], Or.inl ⟨rfl, rfl, by simp [T.name, h]⟩⟩
  | .node d pp (k :: ks), x, h => by
    simp only [T.leaves] at h
    obtain ⟨p, hp, j, p', rfl, e', l, hd, hl, hx⟩ := leafPathsL_cover (k :: ks) 0 x h
    refine ⟨_, by simpa [leafPathsT] using hp, Or.inr ⟨e', l, ?_, hl, hx⟩⟩
    simpa using hd
theorem leafPathsL_cover : ∀ (k : Kids) (i : Nat) (x : String), x ∈ leavesL k →
    ∃ p ∈ leafPathsL k i, ∃ j p', p = (i + j) :: p' ∧
      ∃ e' l, descend k (j :: p') = some (e', l) ∧ l.kids = [] ∧ l.name = x
  | [], _, _, h => by simp [leavesL_nil] at h
  | (e, t) :: r, i, x, h => by
    rw [leavesL_cons] at h
    rcases List.mem_append.1 h with h | h
    · obtain ⟨p', hp', hcase⟩ := leafPathsT_cover t x h
      refine ⟨i :: p', by simp only [leafPathsL, List.mem_append, List.mem_map]; exact Or.inl ⟨p', hp', rfl⟩,
        0, p', rfl, ?_⟩
      rcases hcase with ⟨rfl, hl, hx⟩ | ⟨e', l, hd, hl, hx⟩
      · exact ⟨e, t, by simp [descend], hl, hx⟩
      · refine ⟨e', l, ?_, hl, hx⟩
        cases p' with
        | nil => simp [descend] at hd
        | cons a b => simp [descend, hd]
    · obtain ⟨p, hp, j, p', rfl, e', l, hd, hl, hx⟩ := leafPathsL_cover r (i + 1) x h
      refine ⟨_, by simp only [leafPathsL, List.mem_append]; exact Or.inr hp, j + 1, p',
        by rw [show i + 1 + j = i + (j + 1) by omega], e', l, ?_, hl, hx⟩
      cases p' with
      | nil => simpa [descend] using hd
      | cons a b => simpa [descend] using hd
end

/-- every tip is the root of one of the presentations tried -/
theorem tipPath_cover (t1 : T) (x : String) (hx : x ∈ t1.tipNames) :
    ∃ p ∈ tipPaths t1, (rerootP t1 p none []).1.name = x := by
  unfold T.tipNames at hx
  rcases List.mem_append.1 hx with hx | hx
  · split at hx
    · rename_i h1
      simp only [List.mem_singleton] at hx
      refine ⟨[], ?_, by simp [rerootP_nil, hx]⟩
      unfold tipPaths; simp [h1]
    · cases hx
  · obtain ⟨p, hp, j, p', rfl, e', l, hd, hl, hxl⟩ := leafPathsL_cover t1.kids 0 x hx
    refine ⟨_, by unfold tipPaths; exact List.mem_append_right _ hp, ?_⟩
    simp only [Nat.zero_add]
    obtain ⟨pos, x0, r1, _, _⟩ := rerootP_descend (j :: p') t1 none [] t1.kids e' l rfl hd
    rw [r1]; simpa [T.name] using hxl

/-- the largest value of a nested loop keeping the maximum -/
theorem foldl_max_inner (f : String → Rat) (p : String → Bool) : ∀ (l : List String) (m : Rat),
    m ≤ l.foldl (fun m b => if p b && decide (f b > m) then f b else m) m ∧
    (∀ b ∈ l, p b = true → f b ≤ l.foldl (fun m b => if p b && decide (f b > m) then f b else m) m) ∧
    (l.foldl (fun m b => if p b && decide (f b > m) then f b else m) m = m ∨
      ∃ b ∈ l, p b = true ∧ l.foldl (fun m b => if p b && decide (f b > m) then f b else m) m = f b)
  | [], m => ⟨Rat.le_refl, by simp, Or.inl rfl⟩
  | x :: l, m => by
    simp only [List.foldl_cons]
    by_cases hc : (p x && decide (f x > m)) = true
    · simp only [hc, if_true]
      obtain ⟨h1, h2, h3⟩ := foldl_max_inner f p l (f x)
      simp only [Bool.and_eq_true, decide_eq_true_eq] at hc
      refine ⟨by grind, ?_, ?_⟩
      · intro b hb hpb
        rcases List.mem_cons.1 hb with rfl | hb
        · exact h1
        · exact h2 b hb hpb
      · right
        rcases h3 with h3 | ⟨b, hb, hpb, h3⟩
        · exact ⟨x, by simp, hc.1, h3⟩
        · exact ⟨b, by simp [hb], hpb, h3⟩
    · have hc' : (p x && decide (f x > m)) = false := by simpa using hc
      simp only [hc', Bool.false_eq_true, if_false]
      obtain ⟨h1, h2, h3⟩ := foldl_max_inner f p l m
      refine ⟨h1, ?_, ?_⟩
      · intro b hb hpb
        rcases List.mem_cons.1 hb with rfl | hb
        · simp only [Bool.and_eq_false_iff, decide_eq_false_iff_not] at hc'
          rcases hc' with hc' | hc'
          · rw [hpb] at hc'; cases hc'
          · grind
        · exact h2 b hb hpb
      · rcases h3 with h3 | ⟨b, hb, hpb, h3⟩
        · exact Or.inl h3
        · exact Or.inr ⟨b, by simp [hb], hpb, h3⟩



/-- the inner loop of `diam` for a fixed first tip -/
def diamInner (t : T) (a : String) (m : Rat) : Rat :=
  t.tipNames.foldl (fun m b => if a != b && t.dist a b > m then t.dist a b else m) m

theorem diam_eq (t : T) : diam t = t.tipNames.foldl (fun m a => diamInner t a m) 0 := rfl

theorem diamInner_spec (t : T) (a : String) (m : Rat) :
    m ≤ diamInner t a m ∧ (∀ b ∈ t.tipNames, a ≠ b → t.dist a b ≤ diamInner t a m) ∧
    (diamInner t a m = m ∨ ∃ b ∈ t.tipNames, a ≠ b ∧ diamInner t a m = t.dist a b) := by
  obtain ⟨h1, h2, h3⟩ := foldl_max_inner (fun b => t.dist a b) (fun b => a != b) t.tipNames m
  refine ⟨h1, fun b hb hab => h2 b hb (by simpa using hab), ?_⟩
  rcases h3 with h3 | ⟨b, hb, hpb, h3⟩
  · exact Or.inl h3
  · exact Or.inr ⟨b, hb, by simpa using hpb, h3⟩

theorem diamOuter_spec (t : T) : ∀ (la : List String) (m : Rat),
    m ≤ la.foldl (fun m a => diamInner t a m) m ∧
    (∀ a ∈ la, ∀ b ∈ t.tipNames, a ≠ b → t.dist a b ≤ la.foldl (fun m a => diamInner t a m) m) ∧
    (la.foldl (fun m a => diamInner t a m) m = m ∨
      ∃ a ∈ la, ∃ b ∈ t.tipNames, a ≠ b ∧ la.foldl (fun m a => diamInner t a m) m = t.dist a b)
  | [], m => ⟨Rat.le_refl, by simp, Or.inl rfl⟩
  | x :: la, m => by
    simp only [List.foldl_cons]
    obtain ⟨i1, i2, i3⟩ := diamInner_spec t x m
    obtain ⟨o1, o2, o3⟩ := diamOuter_spec t la (diamInner t x m)
    refine ⟨by grind, ?_, ?_⟩
    · intro a ha b hb hab
      rcases List.mem_cons.1 ha with rfl | ha
      · have := i2 b hb hab; grind
      · exact o2 a ha b hb hab
    · rcases o3 with o3 | ⟨a, ha, b, hb, hab, o3⟩
      · rcases i3 with i3 | ⟨b, hb, hab, i3⟩
        · left; rw [o3, i3]
        · right; exact ⟨x, by simp, b, hb, hab, by rw [o3, i3]⟩
      · right; exact ⟨a, by simp [ha], b, hb, hab, o3⟩

/-- the diameter: an upper bound of all distances between distinct tips that is attained -/
theorem diam_of_max (t : T) (L : Rat) (hL : 0 < L) (a b : String) (ha : a ∈ t.tipNames) (hb : b ∈ t.tipNames)
    (hab : a ≠ b) (hd : t.dist a b = L)
    (hmax : ∀ x ∈ t.tipNames, ∀ y ∈ t.tipNames, x ≠ y → t.dist x y ≤ L) : diam t = L := by
  rw [diam_eq]
  obtain ⟨o1, o2, o3⟩ := diamOuter_spec t t.tipNames 0
  have h1 := o2 a ha b hb hab
  rw [hd] at h1
  rcases o3 with o3 | ⟨x, hx, y, hy, hxy, o3⟩
  · rw [o3] at h1; grind
  · have := hmax x hx y hy hxy
    rw [← o3] at this
    grind



/-- a tree presented at one of its tips: that tip is the root, the others are the leaves -/
theorem tip_presentation {tT : T} (hroot : tT.kids.length = 1) (hu : tT.tipNames.Nodup) :
    tT.tipNames = tT.name :: leavesL tT.kids ∧ tT.name ∉ leavesL tT.kids ∧ (leavesL tT.kids).Nodup ∧
    tT.leaves = leavesL tT.kids ∧ tT.splitsBelow = tT.splits := by
  have htips : tT.tipNames = tT.name :: leavesL tT.kids := by unfold T.tipNames; simp [hroot]
  rw [htips] at hu
  refine ⟨htips, (List.nodup_cons.1 hu).1, (List.nodup_cons.1 hu).2, ?_, ?_⟩
  · obtain ⟨d, pp, K⟩ := tT
    have : K ≠ [] := by intro h0; simp [h0] at hroot
    exact leaves_of_kids this
  · obtain ⟨d, pp, K⟩ := tT; simp [T.splits, T.splitsBelow_node]

/-- **`midpoint_halfway`**: after a successful midpoint rooting of a tree whose lengths are all
    present and non-negative, the root has two children and lies halfway along a longest
    tip-to-tip path (the Spec predicate `halfwayOK` that the oracle evaluates). -/
theorem midpoint_halfway_core (t t' : T) (h : rerootMidPoint t = .ok t') (hu : t.tipNames.Nodup)
    (hnn : NonNeg t.splits) (hs : ∀ s ∈ t.splits, GoodL s.e.sup) : halfwayOK t t' = true := by
  have hg : LensGood t.splits := fun s hs' => Or.inr (hnn s hs')
  obtain ⟨hsame, hk2⟩ := midpoint_same t t' h hu hg hs
  unfold rerootMidPoint rerootMidPointWith at h
  simp only [midpointFarEndFixedInRepo] at h
  split at h
  · cases h
  · cases hb : bestCand (unroot t) (tipPaths (unroot t)) none 0 with
    | none => rw [hb] at h; simp at h
    | some cand =>
      rw [hb] at h
      simp only at h
      obtain ⟨⟨⟨p, hp, hpT⟩, hc, hL, hpos⟩, _, hmaxc⟩ :=
        bestCand_spec2 (unroot t) cand _ none 0 (fun q hq => hq) Rat.le_refl (by intro b hb'; cases hb') hb
      have S1 := unroot_same t hu hg hs
      have hu1 : (unroot t).tipNames.Nodup := S1.tips.nodup_iff.2 hu
      have lg1 := unroot_lensGood t hg
      have nn1 := unroot_nonneg t hnn
      -- the presentation that was kept
      obtain ⟨S2, g2⟩ := rerootP_same p (unroot t) none [] hu1 lg1
      have nn2 := rerootP_edgesP (fun e => 0 ≤ e.len) p (unroot t) none [] nn1
      rw [← hpT] at S2 g2 nn2
      have hu2 : cand.tT.tipNames.Nodup := S2.tips.nodup_iff.2 hu1
      have hroot : cand.tT.kids.length = 1 := by rw [hpT]; exact tipPath_root _ p hp
      obtain ⟨b, hbK, hdist, hrb, hrT⟩ := midpointCut_half cand t' h hc hL hpos hu2 hroot g2 nn2
      obtain ⟨htips, hT0, _, _, _⟩ := tip_presentation hroot hu2
      have ST := S1.trans S2
      have hT0t : cand.tT.name ∈ t.tipNames := ST.tips.mem_iff.1 (by rw [htips]; simp)
      have hbt : b ∈ t.tipNames := ST.tips.mem_iff.1 (by rw [htips]; simp [hbK])
      have hne : cand.tT.name ≠ b := fun h0 => hT0 (h0 ▸ hbK)
      have hdt : t.dist cand.tT.name b = cand.len := by rw [← ST.dist _ _ hT0t hbt]; exact hdist
      -- no two tips are farther apart
      have hmax : ∀ x ∈ t.tipNames, ∀ y ∈ t.tipNames, x ≠ y → t.dist x y ≤ cand.len := by
        intro x hx y hy hxy
        obtain ⟨q, hq, hqn⟩ := tipPath_cover (unroot t) x (S1.tips.mem_iff.2 hx)
        obtain ⟨Sx, gx⟩ := rerootP_same q (unroot t) none [] hu1 lg1
        have nnx := rerootP_edgesP (fun e => 0 ≤ e.len) q (unroot t) none [] nn1
        have hux : (rerootP (unroot t) q none []).1.tipNames.Nodup := Sx.tips.nodup_iff.2 hu1
        have hrx := tipPath_root _ q hq
        obtain ⟨htx, hx0, hnx, hlx, hsx⟩ := tip_presentation hrx hux
        have STx := S1.trans Sx
        rw [← STx.dist x y hx hy]
        have hyK : y ∈ leavesL (rerootP (unroot t) q none []).1.kids := by
          have := STx.tips.mem_iff.2 hy
          rw [htx, hqn] at this
          rcases List.mem_cons.1 this with h0 | h0
          · exact absurd h0.symm hxy
          · exact h0
        have hb1 := mlp_bound (rerootP (unroot t) q none []).1 (by rw [hlx]; exact hnx)
          (by rw [hsx]; exact nnx) y (by rw [hlx]; exact hyK)
        have hb2 := hmaxc q hq
        unfold T.dist T.splits
        rw [← hqn, distW_left_out _ _ _ _ (out_of_subL _ _ hx0)]
        rw [hsx] at hb1
        unfold T.splits at hb1
        exact Rat.le_trans hb1 hb2
      have hdiam := diam_of_max t cand.len hpos _ b hT0t hbt hne hdt hmax
      -- the Spec predicate
      unfold halfwayOK
      simp only [Bool.and_eq_true, beq_iff_eq, List.any_eq_true, bne_iff_ne, ne_eq]
      refine ⟨hk2, cand.tT.name, hT0t, b, hbt, ⟨⟨⟨hne, ?_⟩, ?_⟩, ?_⟩⟩
      · rw [hdiam, hsame.dist _ _ hT0t hbt]; exact hdt
      · rw [hdiam]; exact hrT
      · rw [hdiam]; exact hrb


theorem allLens_iff (t : T) : allLens t = true ↔ NonNeg t.splits := by
  simp only [allLens, T.edges, List.all_eq_true, List.mem_map, decide_eq_true_eq, NonNeg, ge_iff_le]
  constructor
  · intro h s hs; exact h s.e ⟨s, hs, rfl⟩
  · rintro h e ⟨s, hs, rfl⟩; exact h s hs

end Gotree.C05
