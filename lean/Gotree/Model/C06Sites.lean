/-
  C06 — the vocabulary of the table `Gotree/Gen/C06Sites.lean`, regenerated from the source by
  `harness/c06/extract.go` on every run, and what the hand-written model (`Model/C06.lean`) expects
  to find there.  Conditions are kept as small boolean expressions `Ex` over printed Go atoms, so that
  the two conditions that DECIDE something in the model — which tips `RemoveTips` selects, which source
  of names `gotree prune` uses — can be evaluated in Lean and proved equal to the model's definitions
  (`Proofs/C06.lean`: `sites_select`, `sites_source`).  Core Lean only.
-/
import Gotree.Model.C06

namespace Gotree.C06.Sites
open Gotree

/-- a Go condition: `!`, `&&`, `||` over comparisons and other atoms, printed on one line -/
inductive Ex where
  | atom (s : String)
  | cmp (op l r : String)
  | not (e : Ex)
  | and (a b : Ex)
  | or (a b : Ex)
  deriving DecidableEq, Repr, Inhabited

/-- value of a condition, given the value of its leaves (`none`: a leaf the valuation does not know) -/
def Ex.eval (ρ : Ex → Option Bool) : Ex → Option Bool
  | .not e => (e.eval ρ).map (!·)
  | .and a b => match a.eval ρ, b.eval ρ with
    | some x, some y => some (x && y)
    | _, _ => none
  | .or a b => match a.eval ρ, b.eval ρ with
    | some x, some y => some (x || y)
    | _, _ => none
  | .cmp op l r =>
    match ρ (.cmp op l r) with
    | some b => some b
    | none =>
      -- `a == b` / `a != b` between two boolean atoms the valuation knows
      match op, ρ (.atom l), ρ (.atom r) with
      | "==", some x, some y => some (x == y)
      | "!=", some x, some y => some (x != y)
      | _, _, _ => none
  | e => ρ e

/-- one branch of the if / else-if chain of `RunE` (cmd/prune.go): its condition (`none` for the final
    else), the statements before the call, the arguments of `RemoveTips` -/
structure Branch where
  cond : Option Ex
  before : List String
  call : List String
  deriving DecidableEq, Repr

/-- a flag of `gotree prune`: bound variable, name, shorthand, registration function, default -/
structure Flag where
  var : String
  name : String
  short : String
  reg : String
  dflt : String
  deriving DecidableEq, Repr

/-- the arguments of the `RemoveTips` call of the first branch of the chain whose condition holds -/
def pick (ρ : Ex → Option Bool) : List Branch → Option (List String)
  | [] => none
  | b :: r =>
    match b.cond with
    | none => some b.call
    | some c =>
      match c.eval ρ with
      | some true => some b.call
      | some false => pick ρ r
      | none => none

/- ## the valuations -/

/-- `RemoveTips`, selection of a tip: `revert` is the parameter, `ok` = the tip's name is in `namemap` -/
def ρSelect (revert ok : Bool) : Ex → Option Bool
  | .atom "revert" => some revert
  | .atom "ok" => some ok
  | _ => none

/-- `RunE`: `-f` given / `-c` given (the compared tree was read) / `--random` positive -/
def ρFlags (hasFile hasComp randomPos : Bool) : Ex → Option Bool
  | .cmp "!=" "tipfile" "\"none\"" => some hasFile
  | .cmp "!=" "comptree" "nil" => some hasComp
  | .cmp ">" "randomtips" "0" => some randomPos
  | _ => none

/-- what each `Source` of the model hands to `RemoveTips` in the source text -/
def callOf : Source → List String
  | .file => ["revert, tips..."]
  | .comp => ["revert, specificTipNames..."]
  | .random => ["revert, sampled..."]
  | .args => ["revert, args..."]

/-- value of a string of decimal digits -/
def digitsVal (cs : List Char) : Option Nat :=
  if cs.isEmpty || !cs.all Char.isDigit then none
  else some (cs.foldl (fun n c => 10 * n + (c.toNat - '0'.toNat)) 0)

/-- a decimal literal such as `-1.0` as an exact value (sentinels) -/
def litRat? (s : String) : Option Rat :=
  let cs := s.toList
  let (neg, cs) := match cs with
    | '-' :: r => (true, r)
    | _ => (false, cs)
  let ip := cs.takeWhile (· != '.')
  let fp := (cs.dropWhile (· != '.')).drop 1
  match digitsVal ip, (if fp.isEmpty then some 0 else digitsVal fp) with
  | some i, some f =>
    let v : Rat := (i : Rat) + (f : Rat) / ((10 ^ fp.length : Nat) : Rat)
    some (if neg then -v else v)
  | _, _ => none

/- ## evaluation on probes: comparisons between integer-valued terms -/

/-- an integer literal of the source, also `-1.0` (a decimal with a zero fraction) -/
def litInt? (s : String) : Option Int :=
  let cs := s.toList
  let (neg, cs) := match cs with
    | '-' :: r => (true, r)
    | _ => (false, cs)
  let ip := cs.takeWhile (· != '.')
  let fp := (cs.dropWhile (· != '.')).drop 1
  match digitsVal ip, (if fp.isEmpty then some 0 else digitsVal fp) with
  | some i, some 0 => some (if neg then -(i : Int) else (i : Int))
  | _, _ => none

def cmpInt (op : String) (x y : Int) : Option Bool :=
  if op == "==" then some (x == y) else if op == "!=" then some (x != y)
  else if op == "<" then some (decide (x < y)) else if op == "<=" then some (decide (x ≤ y))
  else if op == ">" then some (decide (x > y)) else if op == ">=" then some (decide (x ≥ y))
  else none

/-- value of a condition under a valuation of its integer-valued terms (`τ`; literals are read by `litInt?`,
    pointers are numbered) and of its boolean atoms (`β`); `==` / `!=` between two boolean atoms is allowed.
    `none`: a leaf the valuation does not know — every equivalent rewrite within this vocabulary keeps the value. -/
def Ex.evalN (τ : String → Option Int) (β : String → Option Bool) : Ex → Option Bool
  | .atom s => β s
  | .cmp op l r =>
    let tv := fun (x : String) => match τ x with
      | some v => some v
      | none => litInt? x
    match tv l, tv r with
    | some x, some y => cmpInt op x y
    | _, _ =>
      match op, β l, β r with
      | "==", some x, some y => some (x == y)
      | "!=", some x, some y => some (x != y)
      | _, _, _ => none
  | .not e => (e.evalN τ β).map (!·)
  | .and a b => match a.evalN τ β, b.evalN τ β with
    | some x, some y => some (x && y)
    | _, _ => none
  | .or a b => match a.evalN τ β, b.evalN τ β with
    | some x, some y => some (x || y)
    | _, _ => none

/-- a state of `removeTip` / of the loop of `RemoveTips` as far as their conditions look at it -/
structure Probe where
  tdeg : Int := 1        -- len(tip.neigh)
  deg : Int := 3         -- len(internal.neigh)
  d1 : Int := 3          -- len(n1.neigh)
  d2 : Int := 3          -- len(n2.neigh)
  l1 : Int := 0          -- length1 (as an integer; -1 = absent)
  l2 : Int := 0
  s1 : Int := 0          -- sup1
  s2 : Int := 0
  nilLen : Int := -1     -- NIL_LENGTH, NIL_SUPPORT as found in tree/edge.go
  nilSup : Int := -1
  tipIsInternal : Bool := false   -- internal == tip (the tip is the root)
  isRoot : Bool := false          -- internal == t.Root()
  err : Bool := false             -- err != nil
  rooted : Bool := false
  dir1 : Bool := true
  dir2 : Bool := true
  ok : Bool := false

def Probe.τ (p : Probe) : String → Option Int
  | "len(tip.neigh)" => some p.tdeg | "tip.Nneigh()" => some p.tdeg
  | "len(internal.neigh)" => some p.deg | "internal.Nneigh()" => some p.deg
  | "len(n1.neigh)" => some p.d1 | "n1.Nneigh()" => some p.d1
  | "len(n2.neigh)" => some p.d2 | "n2.Nneigh()" => some p.d2
  | "n.Nneigh()" => some p.deg | "len(n.neigh)" => some p.deg
  | "length1" => some p.l1 | "length2" => some p.l2 | "sup1" => some p.s1 | "sup2" => some p.s2
  | "NIL_LENGTH" => some p.nilLen | "NIL_SUPPORT" => some p.nilSup
  | "internal" => some 1
  | "tip" => some (if p.tipIsInternal then 1 else 3)
  | "t.Root()" => some (if p.isRoot then 1 else 2)
  | "err" => some (if p.err then 1 else 0) | "reftree.Err" => some (if p.err then 1 else 0)
  | "nil" => some 0
  | _ => none

def Probe.β (p : Probe) : String → Option Bool
  | "rooted" => some p.rooted | "dir1" => some p.dir1 | "dir2" => some p.dir2 | "ok" => some p.ok
  | "n1.Tip()" => some (p.d1 == 1) | "n2.Tip()" => some (p.d2 == 1)
  | "true" => some true | "false" => some false
  | _ => none

def Probe.eval (p : Probe) (e : Ex) : Option Bool := e.evalN p.τ p.β

def bools : List Bool := [false, true]
def degs : List Int := [0, 1, 2, 3, 4]
def vals : List Int := [-1, 0, 1, 3]

/- ## what the model expects -/

/-- `RemoveTips`: the rootedness is read once before the loop -/
def expRtPre : List String := ["rooted := t.Rooted()"]
def expRtRange : String := "t.Tips()"
def expRtCallArgs : List String := ["tip, rooted"]
/-- the tip index first, then the branch indexes (bitsets, hashes, depths) that depend on it -/
def expRtPost : List String := ["t.UpdateTipIndex()", "t.ReinitInternalIndexes()"]

/-- `removeLoop`: a listed tip that no longer has exactly one neighbour stops the call -/
def expRtGuard (p : Probe) : List (Option Bool × Bool) := [(some (p.tdeg != 1), true)]

/-- `removeTip`: not a tip / the tip is the root / delNeighbor failed / case 1 / case 2 with the
    rooted-root exception (50ed682) — `finishNode`, `rootAfterLoss`, `removeTipR` -/
def expTipIfs (p : Probe) : List (Option Bool) :=
  [some (p.tdeg != 1), some p.tipIsInternal, some p.err, some (p.deg == 1),
   some (p.deg == 2 && !(p.rooted && p.isRoot))]
/-- the chain of case 1 goes on while the node is not the root and is left with one neighbour -/
def expTipChain (p : Probe) : List (Option Bool) := [some (!p.isRoot && p.deg == 1)]
/-- `fuseEdge`: a length is set unless both are absent -/
def expLenGuard (p : Probe) : List (Option Bool) := [some (p.l1 != -1 || p.l2 != -1)]
def expLenArg : List String := ["math.Max(0, length1) + math.Max(0, length2)"]
/-- `fuseEdge`: a support is set unless both are absent or one end is a tip (`bothInner`) -/
def expSupGuard (p : Probe) : List (Option Bool) := [some ((p.s1 != -1 || p.s2 != -1) && decide (p.d1 > 1) && decide (p.d2 > 1))]
def expSupArg : List String := ["math.Max(sup1, sup2)"]
/-- who becomes the parent of whom (the child is appended at the end of the parent's neighbours) -/
def expConnect (p : Probe) : List (Option Bool × String) :=
  [(some (p.dir1 && p.dir2), "n1, n2"), (some (!p.dir1 && !p.dir2), "n2, n1"),
   (some (decide (p.d1 > 1)), "n1, n2"), (some (decide (p.d2 > 1)), "n2, n1")]
def expSetRoot (p : Probe) : List (Option Bool × String) :=
  [(some (decide (p.d1 > 1)), "n1"), (some (decide (p.d2 > 1)), "n2")]

/-- cmd/prune.go: the file of `-f` and the tree of `-c` are read once, before the loop -/
def expPruneReads : List (Ex × String) :=
  [(.cmp "!=" "intree2file" "\"none\"", "comptree, err = readTree(intree2file)"),
   (.cmp "!=" "tipfile" "\"none\"", "tips, err = parseTipsFile(tipfile)")]
def expPruneRange : String := "treechan"
def expPruneChain : List Branch :=
  [⟨some (.cmp "!=" "tipfile" "\"none\""), [], ["revert, tips..."]⟩,
   ⟨some (.cmp "!=" "comptree" "nil"), ["specificTipNames = specificTips(reftree.Tree, comptree)"], ["revert, specificTipNames..."]⟩,
   ⟨some (.cmp ">" "randomtips" "0"), ["sampled := randomTips(reftree.Tree, randomtips)"], ["revert, sampled..."]⟩,
   ⟨none, [], ["revert, args..."]⟩]
/-- the loop body: a failed input stops the command, then the chain, a failure stops the command (`pruneAll`),
    the result is written at once -/
def expPruneBody (p : Probe) : List (String × Option (Option Bool)) :=
  [("if-return", some (some p.err)), ("<chain>", none), ("if-return", some (some p.err)),
   ("f.WriteString(reftree.Tree.Newick() + \"\\n\")", none)]
def expPruneFlags : List Flag :=
  [⟨"intreefile", "ref", "i", "StringVarP", "\"stdin\""⟩,
   ⟨"intree2file", "comp", "c", "StringVarP", "\"none\""⟩,
   ⟨"outtreefile", "output", "o", "StringVarP", "\"stdout\""⟩,
   ⟨"tipfile", "tipfile", "f", "StringVarP", "\"none\""⟩,
   ⟨"revert", "revert", "r", "BoolVarP", "false"⟩,
   ⟨"randomtips", "random", "", "IntVar", "0"⟩]
/-- `specificTips(ref, comp)`: nodes with one neighbour of `comp`, then of `ref`, kept when unknown -/
def expSpecParams : List String := ["ref", "comp"]
def expSpecRanges : List String := ["comp.Nodes()", "ref.Nodes()"]
def expSpecConds (p : Probe) : List (Option Bool) := [some (p.deg == 1), some (p.deg == 1), some (!p.ok)]

end Gotree.C06.Sites
