/-
  C13 — gotree's Nexus reader on the standard-form documents of `Model/C13Std.lean`.
-/
import Gotree.Model.C13Std
import Gotree.Lemmas.C13NexTr2
import Gotree.Lemmas.C13Foreign

namespace Gotree.C13
open Gotree
open Nex

theorem stdMap_eq (k : Nat) (ls : List String) : stdMap k ls = mapFrom k ls := by
  induction ls generalizing k with
  | nil => rfl
  | cons l r ih => simp [stdMap, mapFrom, ih]

/- ## scanning -/

/-- the label list, one label per line, up to the line end before the ';' -/
theorem scan_stdLabels (ls : List String) (h : ∀ l ∈ ls, tokLabel l) (rest : Txt) :
    scanGo (stdLabels ls ++ '\n' :: rest) none = ls.flatMap (fun l => [.eol, classify l]) ++ .eol :: scanGo rest none := by
  induction ls with
  | nil => simp only [stdLabels, List.nil_append, List.flatMap_nil]; rw [scanGo_sep '\n' (by decide)]; simp [flush, sepToks, isWs]
  | cons l r ih =>
    have hl := (h l (by simp)).1
    have ih' := ih (fun x hx => h x (by simp [hx]))
    simp only [stdLabels, List.cons_append, List.append_assoc, List.flatMap_cons]
    rw [scanGo_sep '\n' (by decide), scanGo_lit stdSep _ (by decide)]
    have k : scanGo stdSep none = [] := by decide
    -- the label is followed by '\n' (the next label's line, or the closing line)
    have hnext : ∃ X, stdLabels r ++ '\n' :: rest = '\n' :: X := by
      cases r with
      | nil => exact ⟨rest, rfl⟩
      | cons a b => exact ⟨_, rfl⟩
    obtain ⟨X, hX⟩ := hnext
    rw [hX, scanGo_word' _ hl '\n' (by decide), ← hX, ih', k]
    simp [flush, sepToks, isWs]

def stdTrToks (m : List (String × String)) : List String → List Tok
  | [] => []
  | [l] => [.eol, classify (idxOf m l), classify l]
  | l :: r => .eol :: classify (idxOf m l) :: classify l :: .comma :: stdTrToks m r

theorem stdTrLines_eq (m : List (String × String)) (l : String) (r : List String) :
    stdTrLines m (l :: r) = '\n' :: (stdSep ++ ((idxOf m l).toList ++ ' ' :: (l.toList ++
      (match r with | [] => [] | _ :: _ => ',' :: stdTrLines m r)))) := by
  cases r with
  | nil =>
    simp only [stdTrLines, idxOf, List.append_nil]
    cases lookup m l <;> rfl
  | cons a b =>
    simp only [stdTrLines, idxOf]
    cases lookup m l <;> rfl

theorem scan_stdTrLines (m : List (String × String)) (ls : List String)
    (h : ∀ l ∈ ls, tokLabel l ∧ tokLabel (idxOf m l)) (rest : Txt) :
    scanGo (stdTrLines m ls ++ '\n' :: rest) none = stdTrToks m ls ++ .eol :: scanGo rest none := by
  induction ls with
  | nil => simp only [stdTrLines, stdTrToks, List.nil_append]; rw [scanGo_sep '\n' (by decide)]; simp [flush, sepToks, isWs]
  | cons l r ih =>
    obtain ⟨h1, h2⟩ := h l (by simp)
    have ih' := ih (fun x hx => h x (by simp [hx]))
    have k : scanGo stdSep none = [] := by decide
    rw [stdTrLines_eq]
    simp only [List.cons_append, List.append_assoc]
    rw [scanGo_sep '\n' (by decide), scanGo_lit stdSep _ (by decide), scanGo_word _ h2.1 ' ' (by decide)]
    cases r with
    | nil =>
      simp only [List.nil_append, stdTrToks]
      rw [scanGo_word' _ h1.1 '\n' (by decide), scanGo_sep '\n' (by decide), k]
      simp [flush, sepToks, isWs]
    | cons a b =>
      simp only [List.cons_append, stdTrToks]
      rw [scanGo_word _ h1.1 ',' (by decide), ih', k]
      simp [flush, sepToks, isWs]

/-- a TREE command with a rooting comment: name, `=`, `[&U]`, the tree text, the line end -/
def stdCmdToks (name : String) (btoks : List Tok) : List Tok :=
  [.kw .tree "tree", classify name, .equal, .openbrack, .ident "&U", .closebrack] ++ btoks ++ [.eol]

def stdCmdsToks (cs : List Cmd) : List Tok := cs.flatMap fun c => stdCmdToks c.name c.btoks

def stdLines (C : NewickCodec) : List (Nat × T) → Txt
  | [] => []
  | it :: r => stdTree ++ ((litTree2 ++ natTxt it.1) ++ ' ' :: (stdEq ++ (C.write it.2 ++ '\n' :: stdLines C r)))

theorem scan_stdLines (C : NewickCodec) (its : List (Nat × T))
    (h : ∀ it ∈ its, ∃ body, C.write it.2 = body ++ [';'] ∧ ∀ c ∈ body, c ≠ '\r') (rest : Txt) :
    scanGo (stdLines C its ++ rest) none = stdCmdsToks (its.map (cmdOf C)) ++ scanGo rest none := by
  induction its with
  | nil => simp [stdCmdsToks, stdLines]
  | cons it r ih =>
    obtain ⟨body, hb, hcr⟩ := h it (by simp)
    obtain ⟨id, t⟩ := it
    have e : stdLines C ((id, t) :: r) ++ rest =
        stdTree ++ ((litTree2 ++ natTxt id) ++ ' ' :: (stdEq ++ (body ++ ';' :: ('\n' :: (stdLines C r ++ rest))))) := by
      simp only [stdLines, hb, List.append_assoc, List.cons_append, List.nil_append]
    have hw : isWord (litTree2 ++ natTxt id) := by
      refine ⟨by simp [litTree2], ?_⟩
      intro c hc
      have ht : ∀ c ∈ litTree2, isIdent c = true := by decide
      rcases List.mem_append.1 hc with h | h
      · exact ht c h
      · exact (natTxt_word id).2 c h
    rw [e, scanGo_lit stdTree _ (by decide), scanGo_word _ hw ' ' (by decide), scanGo_lit stdEq _ (by decide),
      scanGo_append body ';' (by decide) hcr, scanGo_sep '\n' (by decide), ofList_tree_nat,
      ih (fun x hx => h x (by simp [hx]))]
    have k1 : scanGo stdTree none = [.kw .tree "tree"] := by decide
    have k2 : scanGo stdEq none = [.equal, .openbrack, .ident "&U", .closebrack] := by decide
    rw [k1, k2]
    simp [stdCmdToks, stdCmdsToks, cmdOf, hb, sepToks, isWs, flush]

theorem scan_stdTaxlabels (ls : List String) (h : ∀ l ∈ ls, tokLabel l) (rest : Txt) :
    scanGo (stdTaxlabels ++ (stdLabels ls ++ '\n' :: rest)) none =
      .kw .taxlabels "taxlabels" :: (ls.flatMap (fun l => [.eol, classify l]) ++ .eol :: scanGo rest none) := by
  have hw : isWord stdTaxlabels := ⟨by decide, by decide⟩
  have hc : classify (String.ofList stdTaxlabels) = .kw .taxlabels "taxlabels" := by decide
  obtain ⟨X, hX⟩ : ∃ X, stdLabels ls ++ '\n' :: rest = '\n' :: X := by
    cases ls with
    | nil => exact ⟨rest, rfl⟩
    | cons a b => exact ⟨_, rfl⟩
  rw [hX, scanGo_word' _ hw '\n' (by decide), ← hX, hc, scan_stdLabels ls h]

theorem scan_stdTranslate (m : List (String × String)) (ls : List String)
    (h : ∀ l ∈ ls, tokLabel l ∧ tokLabel (idxOf m l)) (rest : Txt) :
    scanGo (stdTranslate ++ (stdTrLines m ls ++ '\n' :: rest)) none =
      .kw .translate "translate" :: (stdTrToks m ls ++ .eol :: scanGo rest none) := by
  have hw : isWord stdTranslate := ⟨by decide, by decide⟩
  have hc : classify (String.ofList stdTranslate) = .kw .translate "translate" := by decide
  obtain ⟨X, hX⟩ : ∃ X, stdTrLines m ls ++ '\n' :: rest = '\n' :: X := by
    cases ls with
    | nil => exact ⟨rest, rfl⟩
    | cons a b => rw [stdTrLines_eq]; exact ⟨_, rfl⟩
  rw [hX, scanGo_word' _ hw '\n' (by decide), ← hX, hc, scan_stdTrLines m ls h]

def stdTaxaToks (nS : String) (labels : List String) : List Tok :=
  [.eol, .kw .dimensions "dimensions", .kw .ntax "ntax", .equal, .numeric nS, .endcmd, .eol, .kw .taxlabels "taxlabels"] ++
  labels.flatMap (fun l => [.eol, classify l]) ++ [.eol, .endcmd, .eol, .kw .end_ "end", .endcmd]

/-- the tokens of the standard-form document after `#NEXUS` -/
def stdDocToks (nS : String) (labels : List String) (m : List (String × String)) (cs : List Cmd) : List Tok :=
  [.eol, .kw .begin_ "begin", .kw .taxa "taxa", .endcmd] ++ stdTaxaToks nS labels ++
  [.eol, .eol, .kw .begin_ "begin", .kw .trees "trees", .endcmd, .eol, .kw .translate "translate"] ++
  stdTrToks m labels ++ [.eol, .endcmd, .eol] ++ stdCmdsToks cs ++ [.kw .end_ "end", .endcmd, .eol]

/-- the document with the tree lines given as a list of numbered written trees -/
def stdDoc (C : NewickCodec) (labels : List String) (m : List (String × String)) (its : List (Nat × T)) : Txt :=
  stdA ++ (natTxt labels.length ++ ';' :: (stdB ++ (stdTaxlabels ++ (stdLabels labels ++ '\n' :: ';' :: (stdC ++
  (stdTranslate ++ (stdTrLines m labels ++ '\n' :: ';' :: (stdD ++ (stdLines C its ++ stdE)))))))))

theorem scan_stdDoc (C : NewickCodec) (labels : List String) (m : List (String × String)) (its : List (Nat × T))
    (hn : labels.length ≤ 9223372036854775807)
    (hl : ∀ l ∈ labels, tokLabel l ∧ tokLabel (idxOf m l))
    (h : ∀ it ∈ its, ∃ body, C.write it.2 = body ++ [';'] ∧ ∀ c ∈ body, c ≠ '\r') :
    scan (stdDoc C labels m its) =
      .kw .nexus "#NEXUS" :: stdDocToks (toString labels.length) labels m (its.map (cmdOf C)) := by
  unfold scan stdDoc
  rw [scanGo_lit stdA _ (by decide), scanGo_word _ (natTxt_word _) ';' (by decide), classify_natTxt _ hn,
    scanGo_lit stdB _ (by decide), scan_stdTaxlabels _ (fun l hl' => (hl l hl').1), scanGo_sep ';' (by decide),
    scanGo_lit stdC _ (by decide), scan_stdTranslate _ _ hl, scanGo_sep ';' (by decide),
    scanGo_lit stdD _ (by decide), scan_stdLines C its h]
  have k1 : scanGo stdA none = [.kw .nexus "#NEXUS", .eol, .kw .begin_ "begin", .kw .taxa "taxa", .endcmd, .eol,
      .kw .dimensions "dimensions", .kw .ntax "ntax", .equal] := by decide
  have k2 : scanGo stdB none = [.eol] := by decide
  have k3 : scanGo stdC none = [.eol, .kw .end_ "end", .endcmd, .eol, .eol, .kw .begin_ "begin", .kw .trees "trees", .endcmd, .eol] := by decide
  have k4 : scanGo stdD none = [.eol] := by decide
  have k5 : scanGo stdE none = [.kw .end_ "end", .endcmd, .eol] := by decide
  rw [k1, k2, k3, k4, k5]
  simp [stdDocToks, stdTaxaToks, sepToks, isWs, flush]

/- ## parsing -/

theorem classify_cases' (s : String) (h : keywordOf s = none) : classify s = .numeric s ∨ classify s = .ident s := by
  unfold classify
  split
  · exact Or.inl rfl
  · simp [h]

theorem parseTaxlabels_std (ls : List String) (h : ∀ l ∈ ls, keywordOf l = none) (acc : List String) (rest : List Tok) :
    parseTaxlabels (ls.flatMap (fun l => [.eol, classify l]) ++ .eol :: .endcmd :: rest) acc =
      .ok (ls.foldl insertLabel acc, rest) := by
  induction ls generalizing acc with
  | nil => simp [parseTaxlabels]
  | cons l ls ih =>
    have ih' := fun acc => ih (fun x hx => h x (by simp [hx])) acc
    simp only [List.flatMap_cons, List.cons_append, List.nil_append, List.foldl_cons]
    rcases classify_cases' l (h l (by simp)) with e | e <;>
      (rw [e]; simp only [parseTaxlabels]; exact ih' _)

theorem parseTaxa_std (f : Nat) (nS : String) (labels : List String) (h : ∀ l ∈ labels, keywordOf l = none)
    (rest : List Tok) :
    parseTaxa (f + 6) (stdTaxaToks nS labels ++ rest) (-1) [] =
      .ok ((intVal nS, labels.foldl insertLabel []), rest) := by
  simp only [stdTaxaToks, List.cons_append, List.nil_append, List.append_assoc]
  simp only [parseTaxa, parseDims]
  rw [parseTaxlabels_std labels h]

theorem parseTransl_std (m : List (String × String)) (ls : List String)
    (h : ∀ l ∈ ls, keywordOf l = none ∧ keywordOf (idxOf m l) = none) (acc : List (String × String)) (rest : List Tok) :
    parseTransl (stdTrToks m ls ++ .eol :: .endcmd :: rest) acc = .ok (tableOf m ls acc, rest) := by
  induction ls generalizing acc with
  | nil => simp [parseTransl, tableOf, stdTrToks]
  | cons l ls ih =>
    obtain ⟨h1, h2⟩ := h l (by simp)
    have ih' := ih (fun x hx => h x (by simp [hx]))
    cases ls with
    | nil =>
      simp only [stdTrToks, List.cons_append, List.nil_append, tableOf, List.foldl_cons, List.foldl_nil]
      rcases classify_cases' _ h2 with e2 | e2 <;> rcases classify_cases' _ h1 with e1 | e1 <;>
        (rw [e1, e2]; simp [parseTransl, Tok.name?])
    | cons l' ls' =>
      simp only [stdTrToks, List.cons_append, List.nil_append, tableOf, List.foldl_cons] at ih' ⊢
      rcases classify_cases' _ h2 with e2 | e2 <;> rcases classify_cases' _ h1 with e1 | e1 <;>
        (rw [e1, e2]; simp only [parseTransl, Tok.name?]; exact ih' _)

theorem parseTreeStr_head (l : List Tok) (acc s : Txt) (r : List Tok) (h : parseTreeStr l acc = .ok (s, r)) :
    dropEol l = l := by
  cases l with
  | nil => rfl
  | cons t r' => cases t <;> first | rfl | (simp [parseTreeStr] at h)

theorem parseTrees_stdcmd (f : Nat) (name : String) (btoks : List Tok) (body : Txt) (rest : List Tok) (a : TreesAcc)
    (hn : keywordOf name = none) (hb : parseTreeStr btoks [] = .ok (body, [])) :
    parseTrees (f + 2) (stdCmdToks name btoks ++ rest) a =
      parseTrees f rest { a with trees := a.trees ++ [(name, body)] } := by
  have hp := parseTreeStr_append btoks [] body (.eol :: rest) hb
  have hd : dropEol (btoks ++ .eol :: rest) = btoks ++ .eol :: rest :=
    parseTreeStr_head _ _ _ _ hp
  have hs : skipComment (.ident "&U" :: .closebrack :: (btoks ++ .eol :: rest)) = some (btoks ++ .eol :: rest) :=
    skipComment_spec [.ident "&U"] _ (by simp)
  simp only [stdCmdToks, List.cons_append, List.nil_append, List.append_assoc]
  rw [parseTrees]
  simp only [classify_name name hn, hs, Option.map_some, hd, hp]
  rw [parseTrees]

theorem parseTrees_stdcmds (cs : List Cmd) (h : ∀ c ∈ cs, c.ok) (f : Nat) (rest : List Tok) (a : TreesAcc) :
    parseTrees (f + 2 * cs.length) (stdCmdsToks cs ++ rest) a =
      parseTrees f rest { a with trees := a.trees ++ cs.map fun c => (c.name, c.body) } := by
  induction cs generalizing a with
  | nil => simp [stdCmdsToks]
  | cons c cs ih =>
    obtain ⟨h1, h2, _⟩ := h c (by simp)
    have e : f + 2 * (c :: cs).length = (f + 2 * cs.length) + 2 := by simp; omega
    rw [e]
    simp only [stdCmdsToks, List.flatMap_cons, List.append_assoc]
    rw [parseTrees_stdcmd _ c.name c.btoks c.body _ a h1 h2]
    have := ih (fun x hx => h x (by simp [hx])) { a with trees := a.trees ++ [(c.name, c.body)] }
    simp only [stdCmdsToks] at this
    rw [this]
    simp

theorem parseTrees_std (m : List (String × String)) (labels : List String)
    (hl : ∀ l ∈ labels, keywordOf l = none ∧ keywordOf (idxOf m l) = none)
    (cs : List Cmd) (h : ∀ c ∈ cs, c.ok) (f : Nat) (hf : 2 * cs.length + 4 ≤ f)
    (rest : List Tok) (a : TreesAcc) :
    parseTrees f (.eol :: .kw .translate "translate" :: (stdTrToks m labels ++
        .eol :: .endcmd :: .eol :: (stdCmdsToks cs ++ .kw .end_ "end" :: .endcmd :: rest))) a =
      .ok ({ trees := a.trees ++ cs.map fun c => (c.name, c.body), transl := some (tableOf m labels []) }, rest) := by
  obtain ⟨g, rfl⟩ : ∃ g, f = (((g + 1 + 2 * cs.length) + 1) + 1) + 1 := ⟨f - (2 * cs.length + 4), by omega⟩
  rw [parseTrees, parseTrees]
  rw [parseTransl_std m labels hl]
  simp only []
  rw [parseTrees]
  rw [parseTrees_stdcmds cs h (g + 1)]
  rw [parseTrees]

theorem parseLoop_stdDoc (nS : String) (labels : List String) (m : List (String × String)) (cs : List Cmd)
    (hl : ∀ l ∈ labels, keywordOf l = none ∧ keywordOf (idxOf m l) = none) (hc : ∀ c ∈ cs, c.ok)
    (f : Nat) (hf : 2 * cs.length + 13 ≤ f) :
    parseLoop f (stdDocToks nS labels m cs) {} =
      .ok { ntax := intVal nS, taxlabels := some (labels.foldl insertLabel []),
            trees := some (cs.map fun c => (c.name, c.body)), transl := some (tableOf m labels []) } := by
  obtain ⟨g, rfl⟩ : ∃ g, f = g + 2 * cs.length + 13 := ⟨f - (2 * cs.length + 13), by omega⟩
  simp only [stdDocToks, List.cons_append, List.nil_append, List.append_assoc]
  rw [parseLoop, parseLoop]
  simp only []
  have e1 : g + 2 * cs.length + 11 = (g + 2 * cs.length + 5) + 6 := by omega
  rw [e1, parseTaxa_std _ nS labels (fun l h => (hl l h).1)]
  simp only []
  rw [parseLoop, parseLoop, parseLoop]
  simp only []
  rw [parseTrees_std m labels hl cs hc _ (by omega)]
  simp only [List.nil_append]
  rw [parseLoop, parseLoop]
  simp

/- ## one tree, for a map numbered from any `k` (copy of `tr_tree_ok`, which is stated for `k = 0`) -/

theorem tr_tree_ok_from (k : Nat) (tips0 slice : List String) (t : T)
    (h0 : tips0.Nodup) (h0ne : ∀ x ∈ tips0, x ≠ "")
    (hsl : slice.Nodup) (hmem : ∀ x, x ∈ slice ↔ x ∈ tips0)
    (htm : ∀ x, x ∈ t.tipNames ↔ x ∈ tips0) (htn : t.tipNames.Nodup)
    (hn : namesOK t = true) :
    wOf (mapFrom k tips0) t = renameT (mapFrom k tips0) t ∧
    renameChecked (tableOf (mapFrom k tips0) slice []) (renameT (mapFrom k tips0) t) = some t := by
  -- notation
  have hM : ∀ x, x ∈ tips0 → ∃ j : Nat, lookup (mapFrom k tips0) x = some (toString j) := by
    intro x hx
    obtain ⟨v, hv⟩ := lookup_mapFrom_mem k tips0 x hx
    obtain ⟨j, _, hj⟩ := lookup_mapFrom_range k tips0 x v hv
    exact ⟨j, by rw [hv, hj]⟩
  have hMout : ∀ x, x ∉ tips0 → lookup (mapFrom k tips0) x = none := by
    intro x hx
    apply (lookup_none_iff _ x).2
    rw [keys_mapFrom]; exact hx
  have fin : ∀ x, x ∈ tips0 → ∃ j : Nat, renameName (mapFrom k tips0) x = toString j ∧ idxOf (mapFrom k tips0) x = toString j := by
    intro x hx
    obtain ⟨j, hj⟩ := hM x hx
    have hne : (x == "") = false := by simpa using h0ne x hx
    exact ⟨j, by simp [renameName, hne, hj], by simp [idxOf, hj]⟩
  have fout : ∀ x, x ∉ tips0 → renameName (mapFrom k tips0) x = x := by
    intro x hx
    simp only [renameName, hMout x hx]
    split <;> rfl
  have finj : ∀ a ∈ tips0, ∀ b ∈ tips0, renameName (mapFrom k tips0) a = renameName (mapFrom k tips0) b → a = b := by
    intro a ha b hb he
    obtain ⟨ja, hja⟩ := hM a ha
    obtain ⟨jb, hjb⟩ := hM b hb
    have ea : renameName (mapFrom k tips0) a = toString ja := by
      have hne : (a == "") = false := by simpa using h0ne a ha
      simp [renameName, hne, hja]
    have eb : renameName (mapFrom k tips0) b = toString jb := by
      have hne : (b == "") = false := by simpa using h0ne b hb
      simp [renameName, hne, hjb]
    rw [ea, eb] at he
    rw [he] at hja
    exact lookup_mapFrom_inj k tips0 h0 a b _ hja hjb
  have idxinj : ∀ a ∈ slice, ∀ b ∈ slice, idxOf (mapFrom k tips0) a = idxOf (mapFrom k tips0) b → a = b := by
    intro a ha b hb he
    obtain ⟨ja, ha1, ha2⟩ := fin a ((hmem a).1 ha)
    obtain ⟨jb, hb1, hb2⟩ := fin b ((hmem b).1 hb)
    exact finj a ((hmem a).1 ha) b ((hmem b).1 hb) (by rw [ha1, hb1, ← ha2, ← hb2, he])
  simp only [namesOK, innerNamesDistinct, nonTipNamesNotNumeral, Bool.and_eq_true, Bool.not_eq_true', List.all_eq_true,
    Bool.or_eq_true, beq_iff_eq] at hn
  obtain ⟨hdup, hcls⟩ := hn
  -- classification of the names of t
  have hcl : ∀ y ∈ allNames t, y = "" ∨ y ∈ tips0 ∨ (y ∉ tips0 ∧ isNumeral y = false) := by
    intro y hy
    rcases hcls y hy with (h | h) | h
    · exact Or.inl h
    · exact Or.inr (Or.inl ((htm y).1 (by simpa using h)))
    · by_cases hin : y ∈ tips0
      · exact Or.inr (Or.inl hin)
      · exact Or.inr (Or.inr ⟨hin, by simpa using h⟩)
  -- (i) the tree is written renamed
  have h1 : renameChecked (mapFrom k tips0) t = some (renameT (mapFrom k tips0) t) := by
    have hd2 : hasDup (renameT (mapFrom k tips0) t).tipNames = false := by
      rw [tipNames_renameT, hasDup_false_iff]
      exact nodup_map_inj_on _ _ htn (fun a ha b hb => finj a ((htm a).1 ha) b ((htm b).1 hb))
    simp [renameChecked, hdup, hd2]
  refine ⟨by simp [wOf, hdup], ?_⟩
  -- (ii) read back through the table
  have hback : ∀ y ∈ allNames t,
      renameName (tableOf (mapFrom k tips0) slice []) (renameName (mapFrom k tips0) y) = y := by
    intro y hy
    rcases hcl y hy with h | h | ⟨h, hnum⟩
    · subst h; simp [renameName]
    · obtain ⟨j, e1, e2⟩ := fin y h
      rw [e1, ← e2]
      have hl := tableOf_mem (mapFrom k tips0) slice [] y hsl idxinj ((hmem y).2 h)
      have hne : (idxOf (mapFrom k tips0) y == "") = false := by
        rw [e2]
        have := isNumeral_natStr j
        simp only [isNumeral, Bool.and_eq_true, bne_iff_ne, ne_eq] at this
        simpa using this.1
      simp [renameName, hne, hl]
    · rw [fout y h]
      have hl := tableOf_other (mapFrom k tips0) slice [] y (by
        intro l hl' he
        obtain ⟨j, _, e2⟩ := fin l ((hmem l).1 hl')
        rw [e2] at he
        rw [← he, isNumeral_natStr] at hnum
        cases hnum)
      simp only [renameName, hl, lookup]
      split <;> rfl
  have hb := renameT_back _ _ t hback
  have hnames : hasDup ((allNames (renameT (mapFrom k tips0) t)).filter (· != "")) = false := by
    rw [allNames_renameT, filter_map_ne _ _ (by
      intro y hy
      rcases hcl y hy with h | h | ⟨h, _⟩
      · subst h; simp [renameName]
      · obtain ⟨j, e1, _⟩ := fin y h
        rw [e1]
        have := isNumeral_natStr j
        simp only [isNumeral, Bool.and_eq_true, bne_iff_ne, ne_eq] at this
        exact ⟨fun e => absurd e this.1, fun e => absurd e (h0ne y h)⟩
      · rw [fout y h]), hasDup_false_iff]
    apply nodup_map_inj_on _ _ ((hasDup_false_iff _).1 hdup)
    intro a ha b hb' he
    have ha' := (List.mem_filter.1 ha)
    have hb'' := (List.mem_filter.1 hb')
    have hane : a ≠ "" := by simpa using ha'.2
    have hbne : b ≠ "" := by simpa using hb''.2
    rcases hcl a ha'.1 with h | h | ⟨h, hna⟩
    · exact absurd h hane
    · rcases hcl b hb''.1 with h' | h' | ⟨h', hnb⟩
      · exact absurd h' hbne
      · exact finj a h b h' he
      · obtain ⟨j, e1, _⟩ := fin a h
        rw [e1, fout b h'] at he
        rw [← he, isNumeral_natStr] at hnb
        cases hnb
    · rcases hcl b hb''.1 with h' | h' | ⟨h', _⟩
      · exact absurd h' hbne
      · obtain ⟨j, e1, _⟩ := fin b h'
        rw [e1, fout a h] at he
        rw [he, isNumeral_natStr] at hna
        cases hna
      · rw [fout a h, fout b h'] at he
        exact he
  have htips : hasDup t.tipNames = false := (hasDup_false_iff _).2 htn
  simp [renameChecked, hnames, hb, htips]


/- ## the whole document -/

theorem stdTreeLines_eq (C : NewickCodec) (m : List (String × String)) (i : Nat) (ts : List T) :
    stdTreeLines C m i ts = stdLines C ((enumFrom i ts).map fun it => (it.1, renameT m it.2)) := by
  induction ts generalizing i with
  | nil => rfl
  | cons t r ih => simp only [stdTreeLines, enumFrom, List.map_cons, stdLines, ih]

theorem writeNexusStd_eq (C : NewickCodec) (labels : List String) (ts : List T) :
    writeNexusStd C labels ts =
      stdDoc C labels (mapFrom 1 labels) ((enumFrom 1 ts).map fun it => (it.1, renameT (mapFrom 1 labels) it.2)) := by
  unfold writeNexusStd stdDoc
  rw [stdTreeLines_eq, stdMap_eq]

theorem stdTrToks_noCR (m : List (String × String)) (ls : List String) : Tok.loneCR ∉ stdTrToks m ls := by
  induction ls with
  | nil => simp [stdTrToks]
  | cons l r ih =>
    cases r with
    | nil =>
      simp only [stdTrToks, List.mem_cons, List.not_mem_nil, or_false, reduceCtorEq, false_or, not_or]
      exact ⟨fun h => classify_ne_loneCR _ h.symm, fun h => classify_ne_loneCR _ h.symm⟩
    | cons a b =>
      simp only [stdTrToks, List.mem_cons, reduceCtorEq, false_or, not_or] at ih ⊢
      exact ⟨fun h => classify_ne_loneCR _ h.symm, fun h => classify_ne_loneCR _ h.symm, ih⟩

theorem snd_mem_of_enumFrom (i : Nat) (l : List T) (it : Nat × T) (h : it ∈ enumFrom i l) : it.2 ∈ l := by
  induction l generalizing i with
  | nil => simp [enumFrom] at h
  | cons t r ih =>
    simp only [enumFrom, List.mem_cons] at h
    rcases h with h | h
    · simp [h]
    · exact List.mem_cons_of_mem _ (ih (i + 1) h)

theorem stdCmdsToks_length (cs : List Cmd) : 2 * cs.length ≤ (stdCmdsToks cs).length := by
  induction cs with
  | nil => simp [stdCmdsToks]
  | cons c cs ih =>
    simp only [stdCmdsToks, List.flatMap_cons, List.length_append, List.length_cons, stdCmdToks] at ih ⊢
    omega

/-- gotree's Nexus reader on a standard-form document: every tree comes back -/
theorem parse_std (C : NewickCodec) (L : NewickLaws C) (labels : List String) (ts : List T)
    (hn : labels.length ≤ 9223372036854775807)
    (hlab : ∀ l ∈ labels, labelOK l = true)
    (hnd : hasDup labels = false)
    (hset : ∀ t ∈ ts, sameSet t.tipNames labels = true)
    (htnd : ∀ t ∈ ts, hasDup t.tipNames = false)
    (hnames : ∀ t ∈ ts, namesOK t = true)
    (hw : ∀ t ∈ ts, L.wf (renameT (stdMap 1 labels) t) = true)
    (hs : ∀ t ∈ ts, treeTextOK (C.write (renameT (stdMap 1 labels) t)) = true) :
    ∃ d, Nex.parse C (writeNexusStd C labels ts) = .ok d ∧ recsAre ts (recsOfTrees (d.map (·.2)) 0) 0 = true := by
  rw [stdMap_eq] at hw hs
  have hN : labels.Nodup := (hasDup_false_iff _).1 hnd
  have hne : ∀ x ∈ labels, x ≠ "" := by
    intro x hx he
    have := hlab x hx
    rw [he] at this
    simp [labelOK] at this
  have hmem : ∀ t ∈ ts, ∀ x, x ∈ t.tipNames ↔ x ∈ labels := by
    intro t ht x
    have := hset t ht
    simp only [sameSet, Bool.and_eq_true, List.all_eq_true, List.contains_iff_mem] at this
    exact ⟨this.1 x, this.2 x⟩
  have hl : ∀ l ∈ labels, tokLabel l ∧ tokLabel (idxOf (mapFrom 1 labels) l) := by
    intro l hl'
    refine ⟨labelOK_tokLabel l (hlab l hl'), ?_⟩
    obtain ⟨v, hv⟩ := lookup_mapFrom_mem 1 labels l hl'
    obtain ⟨j, _, hj⟩ := lookup_mapFrom_range 1 labels l v hv
    simp only [idxOf, hv, hj]
    exact labelOK_tokLabel _ (labelOK_natStr j)
  have hper : ∀ t ∈ ts, renameChecked (tableOf (mapFrom 1 labels) labels []) (renameT (mapFrom 1 labels) t) = some t ∧
      okTaxa labels t = true := by
    intro t ht
    have htn : t.tipNames.Nodup := (hasDup_false_iff _).1 (htnd t ht)
    refine ⟨(tr_tree_ok_from 1 labels labels t hN hne hN (fun _ => Iff.rfl) (hmem t ht) htn (hnames t ht)).2, ?_⟩
    simp only [okTaxa, List.all_eq_true, List.contains_iff_mem]
    exact fun x hx => (hmem t ht x).1 hx
  have hb := backOK_of (tableOf (mapFrom 1 labels) labels []) labels (renameT (mapFrom 1 labels)) ts 1 hper
  have hwW : ∀ w ∈ (enumFrom 1 ts).map (fun it => (it.1, renameT (mapFrom 1 labels) it.2)), L.wf w.2 = true := by
    intro w hw'
    obtain ⟨it, hit, rfl⟩ := List.mem_map.1 hw'
    exact hw it.2 (snd_mem_of_enumFrom 1 _ it hit)
  have hsW : ∀ w ∈ (enumFrom 1 ts).map (fun it => (it.1, renameT (mapFrom 1 labels) it.2)),
      treeTextOK (C.write w.2) = true := by
    intro w hw'
    obtain ⟨it, hit, rfl⟩ := List.mem_map.1 hw'
    exact hs it.2 (snd_mem_of_enumFrom 1 _ it hit)
  generalize hWdef : (enumFrom 1 ts).map (fun it => (it.1, renameT (mapFrom 1 labels) it.2)) = W at hb hwW hsW
  have hbody : ∀ it ∈ W, ∃ body, C.write it.2 = body ++ [';'] ∧ ∀ c ∈ body, c ≠ '\r' := by
    intro it hit
    obtain ⟨body, hb', hc⟩ := L.write_shape it.2 (hwW it hit)
    exact ⟨body, hb', fun c hc' => (hc c hc').2.1⟩
  have hcs : ∀ c ∈ W.map (cmdOf C), c.ok := by
    intro c hc
    obtain ⟨it, hit, rfl⟩ := List.mem_map.1 hc
    exact cmdOf_ok C it (hsW it hit)
  have hkw : ∀ l ∈ labels, keywordOf l = none ∧ keywordOf (idxOf (mapFrom 1 labels) l) = none :=
    fun l hl' => ⟨(hl l hl').1.2, (hl l hl').2.2⟩
  have hscan := scan_stdDoc C labels (mapFrom 1 labels) W hn hl hbody
  have hnocr : (scan (stdDoc C labels (mapFrom 1 labels) W)).contains .loneCR = false := by
    rw [hscan]
    rw [List.contains_eq_mem, decide_eq_false_iff_not]
    intro hm
    simp only [stdDocToks, stdTaxaToks, List.mem_cons, List.mem_append, List.mem_flatMap,
      List.not_mem_nil, reduceCtorEq, false_or, or_false] at hm
    rcases hm with ((⟨l, _, h⟩ | h) | hm)
    · exact classify_ne_loneCR l h.symm
    · exact stdTrToks_noCR _ _ h
    · simp only [stdCmdsToks, List.mem_flatMap] at hm
      obtain ⟨c, hc, hm⟩ := hm
      have hok := hcs c hc
      simp only [stdCmdToks, List.mem_append, List.mem_cons, List.not_mem_nil, or_false, reduceCtorEq, false_or] at hm
      rcases hm with h | h
      · exact classify_ne_loneCR _ h.symm
      · exact parseTreeStr_noCR _ _ _ _ hok.2.1 (by simp) h
  have hfold : labels.foldl insertLabel [] = labels := by
    rw [foldl_insertLabel _ [] (by simpa using hnd)]; simp
  obtain ⟨d, hd, hr⟩ := buildTrees_tr C L _ _ W ts 0 hwW hb
  refine ⟨d, ?_, hr⟩
  rw [writeNexusStd_eq, hWdef]
  unfold Nex.parse
  rw [hscan] at hnocr
  simp only [hscan, hnocr, Bool.false_eq_true, if_false]
  rw [parseLoop_stdDoc _ _ _ _ hkw hcs _ (by
    have := stdCmdsToks_length (W.map (cmdOf C))
    simp only [stdDocToks, stdTaxaToks, List.length_append, List.length_cons, List.length_nil, List.length_map] at this ⊢
    omega)]
  simp only [intVal_natStr, hfold, Option.getD_some]
  simp only [bne_self_eq_false, Bool.and_false, Bool.false_eq_true, if_false, hd]

end Gotree.C13
