// Table of property C07, regenerated from the working tree of the repository on every run
// (`vh gen-tables`): the facts of the source that the hand-written model of C07 assumes.
//
//   - tree/tree.go: the selection condition of CollapseShortBranches / CollapseLowSupport /
//     CollapseTopoDepth and the first two arguments each hands to RemoveEdges; the `continue`
//     guards of the loop of RemoveEdges (condition + statements, in order); every if/for
//     condition of resolveRecur, its Set… calls and the reads feeding them; the calls of Resolve;
//   - tree/edge.go: the error condition and the value of Edge.TopoDepth, the NIL_* sentinels;
//   - tree/node.go, edge.go, tree.go: the bodies of the one-line accessors those conditions use
//     (Tip, Nneigh, Length, Support, Left, Right, NumTipsLeft/Right, SetLength …, Root);
//   - cmd/collapsebrlen.go, collapsesupport.go, collapsedepth.go, resolve.go: the library method
//     called on each tree, the flag (name, shorthand, registration, default) bound to each of its
//     arguments, the methods called on `t.Tree` in the loop, the `if t.Err != nil { return t.Err }`.
//
// In the expressions the i-th parameter of the enclosing function is written `$i`, the variable
// of the loop over the branches / the receiver of TopoDepth `$e`, a local assigned from
// `$e.TopoDepth()` is replaced by that call.  Output: <out>/C07Sites.lean.  go/parser only.
package c07

import (
	"bytes"
	"fmt"
	"go/ast"
	"go/parser"
	"go/printer"
	"go/token"
	"os"
	"path/filepath"
	"strings"
)

type subst map[string]string

var xfset = token.NewFileSet()

func leanStr(s string) string {
	return "\"" + strings.ReplaceAll(strings.ReplaceAll(s, "\\", "\\\\"), "\"", "\\\"") + "\""
}

func leanStrs(l []string) string {
	q := make([]string, len(l))
	for i, s := range l {
		q[i] = leanStr(s)
	}
	return "[" + strings.Join(q, ", ") + "]"
}

// show prints an expression on one line, identifiers replaced through sb
func show(e ast.Expr, sb subst) string {
	switch x := e.(type) {
	case *ast.Ident:
		if r, ok := sb[x.Name]; ok {
			return r
		}
		return x.Name
	case *ast.BasicLit:
		return x.Value
	case *ast.ParenExpr:
		return "(" + show(x.X, sb) + ")"
	case *ast.SelectorExpr:
		return show(x.X, sb) + "." + x.Sel.Name
	case *ast.StarExpr:
		return "*" + show(x.X, sb)
	case *ast.UnaryExpr:
		return x.Op.String() + show(x.X, sb)
	case *ast.BinaryExpr:
		return show(x.X, sb) + " " + x.Op.String() + " " + show(x.Y, sb)
	case *ast.IndexExpr:
		return show(x.X, sb) + "[" + show(x.Index, sb) + "]"
	case *ast.CallExpr:
		var a []string
		for _, y := range x.Args {
			a = append(a, show(y, sb))
		}
		s := show(x.Fun, sb) + "(" + strings.Join(a, ", ")
		if x.Ellipsis.IsValid() {
			s += "..."
		}
		return s + ")"
	}
	var b bytes.Buffer
	printer.Fprint(&b, xfset, e)
	return strings.Join(strings.Fields(b.String()), " ")
}

// conv turns a condition into the Lean term of type Ex
func conv(e ast.Expr, sb subst) string {
	switch x := e.(type) {
	case *ast.ParenExpr:
		return conv(x.X, sb)
	case *ast.UnaryExpr:
		if x.Op == token.NOT {
			return "(.not " + conv(x.X, sb) + ")"
		}
	case *ast.BinaryExpr:
		switch x.Op {
		case token.LAND:
			return "(.and " + conv(x.X, sb) + " " + conv(x.Y, sb) + ")"
		case token.LOR:
			return "(.or " + conv(x.X, sb) + " " + conv(x.Y, sb) + ")"
		case token.LEQ, token.LSS, token.GEQ, token.GTR, token.EQL, token.NEQ:
			return "(.cmp " + leanStr(x.Op.String()) + " " + leanStr(show(x.X, sb)) + " " + leanStr(show(x.Y, sb)) + ")"
		}
	}
	return "(.atom " + leanStr(show(e, sb)) + ")"
}

// stmt prints a statement on one line (guard bodies, reads)
func stmt(s ast.Stmt, sb subst) string {
	switch x := s.(type) {
	case *ast.ExprStmt:
		return show(x.X, sb)
	case *ast.BranchStmt:
		return x.Tok.String()
	case *ast.ReturnStmt:
		var a []string
		for _, r := range x.Results {
			a = append(a, show(r, sb))
		}
		return strings.TrimSpace("return " + strings.Join(a, ", "))
	case *ast.AssignStmt:
		var l, r []string
		for _, y := range x.Lhs {
			l = append(l, show(y, sb))
		}
		for _, y := range x.Rhs {
			r = append(r, show(y, sb))
		}
		return strings.Join(l, ", ") + " " + x.Tok.String() + " " + strings.Join(r, ", ")
	case *ast.IfStmt:
		var b []string
		for _, y := range x.Body.List {
			b = append(b, stmt(y, sb))
		}
		s := "if " + show(x.Cond, sb) + " { " + strings.Join(b, "; ") + " }"
		if x.Else != nil {
			s += " else …"
		}
		return s
	}
	var b bytes.Buffer
	printer.Fprint(&b, xfset, s)
	return strings.Join(strings.Fields(b.String()), " ")
}

func parseFile(path string) (*ast.File, error) {
	return parser.ParseFile(xfset, path, nil, 0)
}

func method(f *ast.File, name string) *ast.FuncDecl {
	for _, d := range f.Decls {
		if fd, ok := d.(*ast.FuncDecl); ok && fd.Name.Name == name && fd.Body != nil {
			return fd
		}
	}
	return nil
}

// params maps the parameters of fd to $0, $1, …
func params(fd *ast.FuncDecl) subst {
	sb := subst{}
	i := 0
	for _, p := range fd.Type.Params.List {
		for _, n := range p.Names {
			sb[n.Name] = fmt.Sprintf("$%d", i)
			i++
		}
	}
	return sb
}

func firstRange(b *ast.BlockStmt) *ast.RangeStmt {
	for _, s := range b.List {
		if r, ok := s.(*ast.RangeStmt); ok {
			return r
		}
	}
	return nil
}

func callNamed(n ast.Node, name string) *ast.CallExpr {
	var out *ast.CallExpr
	ast.Inspect(n, func(x ast.Node) bool {
		if c, ok := x.(*ast.CallExpr); ok && out == nil {
			if s, ok := c.Fun.(*ast.SelectorExpr); ok && s.Sel.Name == name {
				out = c
			}
		}
		return out == nil
	})
	return out
}

// selector: the condition of the LAST `if` of the loop of a Collapse… function (the one that appends),
// and the first two arguments of its RemoveEdges call
func selector(tf *ast.File, name string) (cond string, args []string, err error) {
	fd := method(tf, name)
	if fd == nil {
		return "", nil, fmt.Errorf("%s not found", name)
	}
	sb := params(fd)
	r := firstRange(fd.Body)
	if r == nil {
		return "", nil, fmt.Errorf("%s: no range loop", name)
	}
	if v, ok := r.Value.(*ast.Ident); ok {
		sb[v.Name] = "$e"
	}
	var sel *ast.IfStmt
	for _, s := range r.Body.List {
		is, ok := s.(*ast.IfStmt)
		if !ok {
			continue
		}
		// `if d, err = e.TopoDepth(); err != nil { return err }`: d stands for the call
		if as, ok := is.Init.(*ast.AssignStmt); ok && len(as.Rhs) == 1 && len(as.Lhs) >= 1 {
			if c, ok := as.Rhs[0].(*ast.CallExpr); ok {
				if id, ok := as.Lhs[0].(*ast.Ident); ok {
					sb[id.Name] = show(c, sb)
				}
			}
		}
		if containsAppend(is.Body) {
			sel = is
		}
	}
	if sel == nil {
		return "", nil, fmt.Errorf("%s: no selecting if", name)
	}
	rc := callNamed(fd.Body, "RemoveEdges")
	if rc == nil || len(rc.Args) < 2 {
		return "", nil, fmt.Errorf("%s: no RemoveEdges call", name)
	}
	return conv(sel.Cond, sb), []string{show(rc.Args[0], sb), show(rc.Args[1], sb)}, nil
}

func containsAppend(n ast.Node) bool {
	found := false
	ast.Inspect(n, func(x ast.Node) bool {
		if c, ok := x.(*ast.CallExpr); ok {
			if id, ok := c.Fun.(*ast.Ident); ok && id.Name == "append" {
				found = true
			}
		}
		return !found
	})
	return found
}

func endsWith(b *ast.BlockStmt, tok token.Token) bool {
	if len(b.List) == 0 {
		return false
	}
	br, ok := b.List[len(b.List)-1].(*ast.BranchStmt)
	return ok && br.Tok == tok
}

// GenTables writes <out>/C07Sites.lean
func GenTables(repo, out string) error {
	tf, err := parseFile(filepath.Join(repo, "tree", "tree.go"))
	if err != nil {
		return err
	}
	ef, err := parseFile(filepath.Join(repo, "tree", "edge.go"))
	if err != nil {
		return err
	}
	var w strings.Builder
	w.WriteString("-- GENERATED by harness/c07/extract.go (`vh gen-tables`) from tree/tree.go, tree/edge.go,\n")
	w.WriteString("-- cmd/collapsebrlen.go, cmd/collapsesupport.go, cmd/collapsedepth.go, cmd/resolve.go; do not edit.\n")
	w.WriteString("import Gotree.Model.C07Sites\n\nnamespace Gotree.Gen.C07Sites\nopen Gotree.C07.Sites\n\n")

	// 1. selectors
	var rargs []string
	for _, p := range [][2]string{{"CollapseShortBranches", "selLen"}, {"CollapseLowSupport", "selSup"}, {"CollapseTopoDepth", "selDepth"}} {
		cond, args, err := selector(tf, p[0])
		if err != nil {
			return err
		}
		fmt.Fprintf(&w, "def %s : Ex := %s\n", p[1], cond)
		rargs = append(rargs, fmt.Sprintf("(%s, %s)", leanStr(p[0]), leanStrs(args)))
	}
	fmt.Fprintf(&w, "def removeArgs : List (String × List String) := [%s]\n\n", strings.Join(rargs, ", "))

	// 2. TopoDepth
	td := method(ef, "TopoDepth")
	if td == nil || td.Recv == nil || len(td.Recv.List) == 0 || len(td.Recv.List[0].Names) == 0 {
		return fmt.Errorf("Edge.TopoDepth not found")
	}
	sb := subst{td.Recv.List[0].Names[0].Name: "$e"}
	derr, dval := "(.atom \"?\")", "?"
	for _, s := range td.Body.List {
		if is, ok := s.(*ast.IfStmt); ok {
			derr = conv(is.Cond, sb)
		}
		if rs, ok := s.(*ast.ReturnStmt); ok && len(rs.Results) >= 1 {
			dval = show(rs.Results[0], sb)
		}
	}
	fmt.Fprintf(&w, "def depthErr : Ex := %s\ndef depthValue : String := %s\n\n", derr, leanStr(dval))

	// 3. the guards of RemoveEdges
	re := method(tf, "RemoveEdges")
	if re == nil {
		return fmt.Errorf("RemoveEdges not found")
	}
	sb = params(re)
	rl := firstRange(re.Body)
	if rl == nil {
		return fmt.Errorf("RemoveEdges: no range loop")
	}
	// a local defined once before the loop (`rootdeg := t.Root().Nneigh()`) stands for its defining expression
	for _, st := range re.Body.List {
		if st == ast.Stmt(rl) {
			break
		}
		if as, ok := st.(*ast.AssignStmt); ok && as.Tok == token.DEFINE && len(as.Lhs) == 1 && len(as.Rhs) == 1 {
			if id, ok := as.Lhs[0].(*ast.Ident); ok {
				sb[id.Name] = show(as.Rhs[0], sb)
			}
		}
	}
	if v, ok := rl.Value.(*ast.Ident); ok {
		sb[v.Name] = "$e"
	}
	var guards []string
	for _, s := range rl.Body.List {
		is, ok := s.(*ast.IfStmt)
		if !ok || !endsWith(is.Body, token.CONTINUE) {
			continue
		}
		var body []string
		for _, y := range is.Body.List {
			body = append(body, stmt(y, sb))
		}
		guards = append(guards, fmt.Sprintf("⟨%s, %s⟩", conv(is.Cond, sb), leanStrs(body)))
	}
	fmt.Fprintf(&w, "def guards : List Guard := [\n  %s]\n\n", strings.Join(guards, ",\n  "))

	// 4. resolveRecur / Resolve
	rr := method(tf, "resolveRecur")
	if rr == nil {
		return fmt.Errorf("resolveRecur not found")
	}
	sb = params(rr)
	var conds, sets, reads []string
	ast.Inspect(rr.Body, func(x ast.Node) bool {
		switch y := x.(type) {
		case *ast.IfStmt:
			conds = append(conds, conv(y.Cond, sb))
		case *ast.ForStmt:
			if y.Cond != nil {
				conds = append(conds, conv(y.Cond, sb))
			}
		case *ast.ExprStmt:
			if c, ok := y.X.(*ast.CallExpr); ok {
				if s, ok := c.Fun.(*ast.SelectorExpr); ok && strings.HasPrefix(s.Sel.Name, "Set") {
					sets = append(sets, show(c, subst{}))
				}
			}
		case *ast.AssignStmt:
			if len(y.Rhs) == 1 {
				if c, ok := y.Rhs[0].(*ast.CallExpr); ok {
					if s, ok := c.Fun.(*ast.SelectorExpr); ok && (s.Sel.Name == "Support" || s.Sel.Name == "Length" || s.Sel.Name == "PValue") {
						reads = append(reads, stmt(y, subst{}))
					}
				}
			}
		}
		return true
	})
	fmt.Fprintf(&w, "def resolveConds : List Ex := [\n  %s]\n", strings.Join(conds, ",\n  "))
	fmt.Fprintf(&w, "def resolveSets : List String := %s\n", leanStrs(sets))
	fmt.Fprintf(&w, "def resolveReads : List String := %s\n", leanStrs(reads))
	rs := method(tf, "Resolve")
	if rs == nil {
		return fmt.Errorf("Resolve not found")
	}
	var top []string
	ast.Inspect(rs.Body, func(x ast.Node) bool {
		if c, ok := x.(*ast.CallExpr); ok {
			top = append(top, show(c, subst{}))
		}
		return true
	})
	fmt.Fprintf(&w, "def resolveTop : List String := %s\n\n", leanStrs(top))

	// 5. sentinels
	var consts []string
	for _, d := range ef.Decls {
		gd, ok := d.(*ast.GenDecl)
		if !ok || gd.Tok != token.CONST {
			continue
		}
		for _, sp := range gd.Specs {
			vs := sp.(*ast.ValueSpec)
			for i, n := range vs.Names {
				if (n.Name == "NIL_SUPPORT" || n.Name == "NIL_LENGTH" || n.Name == "NIL_PVALUE") && i < len(vs.Values) {
					consts = append(consts, fmt.Sprintf("(%s, %s)", leanStr(n.Name), leanStr(show(vs.Values[i], subst{}))))
				}
			}
		}
	}
	fmt.Fprintf(&w, "def consts : List (String × String) := [%s]\n\n", strings.Join(consts, ", "))

	// 5b. the one-line accessors the conditions above are written with: what Tip(), Nneigh(), Length() … read
	nf, err := parseFile(filepath.Join(repo, "tree", "node.go"))
	if err != nil {
		return err
	}
	var accs []string
	tipDef := "(.atom \"?\")"
	for _, q := range []struct {
		f    *ast.File
		recv string
		name string
	}{{nf, "Node", "Tip"}, {nf, "Node", "Nneigh"}, {nf, "Node", "Neigh"}, {ef, "Edge", "Length"}, {ef, "Edge", "Support"},
		{ef, "Edge", "PValue"}, {ef, "Edge", "Left"}, {ef, "Edge", "Right"}, {ef, "Edge", "NumTipsLeft"}, {ef, "Edge", "NumTipsRight"},
		{ef, "Edge", "SetLength"}, {ef, "Edge", "SetSupport"}, {ef, "Edge", "SetPValue"}, {tf, "Tree", "Root"}} {
		fd := method(q.f, q.name)
		body := "?"
		if fd != nil && fd.Recv != nil && len(fd.Recv.List) == 1 && len(fd.Recv.List[0].Names) == 1 && len(fd.Body.List) == 1 {
			sb := params(fd)
			sb[fd.Recv.List[0].Names[0].Name] = "$r"
			body = stmt(fd.Body.List[0], sb)
			if rs, ok := fd.Body.List[0].(*ast.ReturnStmt); ok && q.name == "Tip" && len(rs.Results) == 1 {
				tipDef = conv(rs.Results[0], sb)
			}
		}
		accs = append(accs, fmt.Sprintf("(%s, %s)", leanStr(q.recv+"."+q.name), leanStr(body)))
	}
	fmt.Fprintf(&w, "def accessors : List (String × String) := [\n  %s]\ndef tipDef : Ex := %s\n\n", strings.Join(accs, ",\n  "), tipDef)

	// 6. the commands
	var cmds []string
	for _, p := range [][2]string{{"collapsebrlen.go", "CollapseShortBranches"}, {"collapsesupport.go", "CollapseLowSupport"},
		{"collapsedepth.go", "CollapseTopoDepth"}, {"resolve.go", "Resolve"}} {
		row, err := cmdRow(filepath.Join(repo, "cmd", p[0]), p[0], p[1])
		if err != nil {
			return err
		}
		cmds = append(cmds, row)
	}
	fmt.Fprintf(&w, "def cmds : List Cmd := [\n  %s]\n\nend Gotree.Gen.C07Sites\n", strings.Join(cmds, ",\n  "))

	os.MkdirAll(out, 0755)
	path := filepath.Join(out, "C07Sites.lean")
	if old, err := os.ReadFile(path); err == nil && string(old) == w.String() {
		return nil // unchanged: keep the time stamp (no rebuild)
	}
	return os.WriteFile(path, []byte(w.String()), 0644)
}

// cmdRow reads one command file
func cmdRow(path, file, lib string) (string, error) {
	f, err := parseFile(path)
	if err != nil {
		return "", err
	}
	// flag registrations: &variable -> (flag, shorthand, registration, default)
	type reg struct{ flag, short, fn, dflt string }
	regs := map[string]reg{}
	ast.Inspect(f, func(x ast.Node) bool {
		c, ok := x.(*ast.CallExpr)
		if !ok || len(c.Args) < 3 {
			return true
		}
		s, ok := c.Fun.(*ast.SelectorExpr)
		if !ok || !strings.Contains(s.Sel.Name, "Var") {
			return true
		}
		u, ok := c.Args[0].(*ast.UnaryExpr)
		if !ok || u.Op != token.AND {
			return true
		}
		v := show(u.X, subst{})
		unq := func(e ast.Expr) string { return strings.Trim(show(e, subst{}), "\"") }
		if strings.HasSuffix(s.Sel.Name, "P") && len(c.Args) >= 4 {
			regs[v] = reg{unq(c.Args[1]), unq(c.Args[2]), s.Sel.Name, show(c.Args[3], subst{})}
		} else {
			regs[v] = reg{unq(c.Args[1]), "", s.Sel.Name, show(c.Args[2], subst{})}
		}
		return true
	})
	use := ""
	var loop *ast.RangeStmt
	ast.Inspect(f, func(x ast.Node) bool {
		switch y := x.(type) {
		case *ast.KeyValueExpr:
			if k, ok := y.Key.(*ast.Ident); ok && k.Name == "Use" && use == "" {
				use = strings.Trim(show(y.Value, subst{}), "\"")
			}
		case *ast.RangeStmt:
			if id, ok := y.X.(*ast.Ident); ok && id.Name == "treechan" && loop == nil {
				loop = y
			}
		}
		return true
	})
	if loop == nil {
		return "", fmt.Errorf("%s: no loop over treechan", file)
	}
	rec := ""
	if k, ok := loop.Key.(*ast.Ident); ok {
		rec = k.Name
	}
	// the methods called on <rec>.Tree, in source order
	var calls []string
	var libCall *ast.CallExpr
	ast.Inspect(loop.Body, func(x ast.Node) bool {
		c, ok := x.(*ast.CallExpr)
		if !ok {
			return true
		}
		if s, ok := c.Fun.(*ast.SelectorExpr); ok && show(s.X, subst{}) == rec+".Tree" {
			calls = append(calls, s.Sel.Name)
			if s.Sel.Name == lib {
				libCall = c
			}
		}
		return true
	})
	// source order of nested calls: f.WriteString(t.Tree.Newick()) is visited outer first, which is fine
	// here (only calls on the tree are recorded)
	if libCall == nil {
		return "", fmt.Errorf("%s: no call of %s on %s.Tree", file, lib, rec)
	}
	var args []string
	for _, a := range libCall.Args {
		r, ok := regs[show(a, subst{})]
		if !ok {
			r = reg{"?" + show(a, subst{}), "", "", ""}
		}
		args = append(args, fmt.Sprintf("⟨%s, %s, %s, %s⟩", leanStr(r.flag), leanStr(r.short), leanStr(r.fn), leanStr(r.dflt)))
	}
	// the loop starts with `if <rec>.Err != nil { …; return <rec>.Err }`
	errRet := false
	if len(loop.Body.List) > 0 {
		if is, ok := loop.Body.List[0].(*ast.IfStmt); ok && show(is.Cond, subst{}) == rec+".Err != nil" && len(is.Body.List) > 0 {
			if r, ok := is.Body.List[len(is.Body.List)-1].(*ast.ReturnStmt); ok && len(r.Results) == 1 && show(r.Results[0], subst{}) == rec+".Err" {
				errRet = true
			}
		}
	}
	return fmt.Sprintf("⟨%s, %s, %s, [%s], %s, %v⟩", leanStr(file), leanStr(use), leanStr(lib), strings.Join(args, ", "), leanStrs(calls), errRet), nil
}
