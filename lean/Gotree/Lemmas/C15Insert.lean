/-
  C15 — lemmas about `InsertIdenticalTip(s)`.  Core Lean only.
-/
import Gotree.Lemmas.C15Graft

namespace Gotree.C15
open Gotree Gotree.C14

abbrev wL : EdgeD → Rat := EdgeD.lenOr0

theorem wL_zeroEdge : wL zeroEdge = 0 := by decide

theorem wL_of_len_zero {e : EdgeD} (h : (e.len == 0) = true) : wL e = 0 := by
  have h0 : e.len = 0 := by simpa using h
  have hn : NIL = (-1 : Rat) := rfl
  simp only [wL, EdgeD.lenOr0, h0, hn]
  decide

theorem distW_self (w : EdgeD → Rat) (a : String) : ∀ (l : List SplitE), distW w l a a = 0
  | [] => rfl
  | s :: l => by rw [distW_cons, distW_self w a l]; simp [SplitE.sep, Rat.add_zero]

/-- the cherry `InsertIdenticalTip` builds in place of the tip -/
def cherry (new : String) (t : T) : T := .node ⟨"", []⟩ 1 [(zeroEdge, T.leaf new), (zeroEdge, t)]

theorem insAt_some {old new : String} {d : NodeD} {p : Nat} {k : Kids} {t' : T}
    (h : insAt old new (.node d p k) = some t') : ∃ k', insKids false old new k = some k' ∧ t' = .node d p k' := by
  simp only [insAt] at h
  cases hk : insKids false old new k with
  | none => simp [hk] at h
  | some k' => simp [hk] at h; exact ⟨k', rfl, h.symm⟩

/-- the four cases of `insKids` on a non-empty list -/
theorem insKids_cases {lone : Bool} {old new : String} {e : EdgeD} {t : T} {r k' : Kids}
    (h : insKids lone old new ((e, t) :: r) = some k') :
    (t.isLeaf = true ∧ t.name = old ∧ (e.len == 0 && !lone) = true ∧ k' = ((e, t) :: r) ++ [(zeroEdge, T.leaf new)]) ∨
    (t.isLeaf = true ∧ t.name = old ∧ (e.len == 0 && !lone) = false ∧ k' = (e, cherry new t) :: r) ∨
    (¬(t.isLeaf = true ∧ t.name = old) ∧ ∃ t', insAt old new t = some t' ∧ k' = (e, t') :: r) ∨
    (¬(t.isLeaf = true ∧ t.name = old) ∧ insAt old new t = none ∧ ∃ r', insKids lone old new r = some r' ∧ k' = (e, t) :: r') := by
  simp only [insKids] at h
  split at h
  · rename_i hm
    simp only [Bool.and_eq_true, beq_iff_eq] at hm
    split at h
    · rename_i h0
      injection h with h
      exact Or.inl ⟨hm.1, hm.2, by simpa using h0, h.symm⟩
    · rename_i h0
      injection h with h
      exact Or.inr (Or.inl ⟨hm.1, hm.2, by simpa using h0, h.symm⟩)
  · rename_i hm
    simp only [Bool.and_eq_true, beq_iff_eq] at hm
    split at h
    · rename_i t' ht
      injection h with h
      exact Or.inr (Or.inr (Or.inl ⟨hm, t', ht, h.symm⟩))
    · rename_i ht
      cases hr : insKids lone old new r with
      | none => simp [hr] at h
      | some r' => simp [hr] at h; exact Or.inr (Or.inr (Or.inr ⟨hm, ht, r', rfl, h.symm⟩))

theorem cherry_leaves (new : String) (t : T) : (cherry new t).leaves = new :: t.leaves := by
  simp [cherry, T.leaves, leavesL, T.leaf]

theorem cherry_splits (new : String) (t : T) :
    (cherry new t).splitsBelow = ⟨[new], zeroEdge, true⟩ :: ⟨t.leaves, zeroEdge, t.isLeaf⟩ :: t.splitsBelow := by
  simp [cherry, splitsL, T.leaf, T.leaves, T.isLeaf]

theorem insKids_ne {lone : Bool} {old new : String} : ∀ {k k' : Kids}, insKids lone old new k = some k' → k ≠ [] ∧ k' ≠ []
  | [], _, h => by simp [insKids] at h
  | (e, t) :: r, k', h => by
    refine ⟨by simp, ?_⟩
    rcases insKids_cases h with ⟨_, _, _, rfl⟩ | ⟨_, _, _, rfl⟩ | ⟨_, t', _, rfl⟩ | ⟨_, _, r', _, rfl⟩ <;> simp

mutual
/-- the new leaf list is the old one plus the new name -/
theorem insAt_perm {old new : String} : ∀ (t t' : T), insAt old new t = some t' → t'.leaves.Perm (new :: t.leaves)
  | .node d p k, t', h => by
    obtain ⟨k', hk, rfl⟩ := insAt_some h
    rw [leaves_of_kids_ne _ _ _ (insKids_ne hk).1, leaves_of_kids_ne _ _ _ (insKids_ne hk).2]
    exact insKids_perm k k' hk
theorem insKids_perm {lone : Bool} {old new : String} : ∀ (k k' : Kids), insKids lone old new k = some k' → (leavesL k').Perm (new :: leavesL k)
  | [], _, h => by simp [insKids] at h
  | (e, t) :: r, k', h => by
    rcases insKids_cases h with ⟨_, _, _, rfl⟩ | ⟨_, _, _, rfl⟩ | ⟨_, t', ht, rfl⟩ | ⟨_, _, r', hr, rfl⟩
    · rw [leavesL_append]
      simp only [leavesL, T.leaf, T.leaves, List.append_nil]
      exact List.perm_append_singleton _ _
    · simp only [leavesL, cherry_leaves, List.cons_append]
      exact List.Perm.refl _
    · simp only [leavesL]
      exact (insAt_perm t t' ht).append_right _
    · simp only [leavesL]
      exact ((insKids_perm r r' hr).append_left _).trans List.perm_middle
end

theorem insKids_mem {lone : Bool} {old new : String} {k k' : Kids} (h : insKids lone old new k = some k') (x : String) :
    x ∈ leavesL k' ↔ x = new ∨ x ∈ leavesL k := by
  rw [(insKids_perm k k' h).mem_iff]; simp

theorem insAt_mem {old new : String} {t t' : T} (h : insAt old new t = some t') (x : String) :
    x ∈ t'.leaves ↔ x = new ∨ x ∈ t.leaves := by
  rw [(insAt_perm t t' h).mem_iff]; simp

mutual
theorem insAt_none {old new : String} : ∀ (t : T), insAt old new t = none → ¬(t.isLeaf = true ∧ t.name = old) → old ∉ t.leaves
  | .node d p [], _, hm => by
    simp [T.isLeaf, T.name] at hm
    simp [T.leaves]; exact fun h => hm h.symm
  | .node d p (x :: k), h, _ => by
    rw [leaves_node_cons]
    apply insKids_none (x :: k)
    simp only [insAt] at h
    cases hk : insKids false old new (x :: k) with
    | none => rfl
    | some k' => simp [hk] at h
theorem insKids_none {lone : Bool} {old new : String} : ∀ (k : Kids), insKids lone old new k = none → old ∉ leavesL k
  | [], _ => by simp [leavesL]
  | (e, t) :: r, h => by
    simp only [insKids] at h
    split at h
    · split at h <;> cases h
    · rename_i hm
      simp only [Bool.and_eq_true, beq_iff_eq] at hm
      split at h
      · cases h
      · rename_i ht
        cases hr : insKids lone old new r with
        | some r' => simp [hr] at h
        | none =>
          simp only [leavesL, List.mem_append, not_or]
          exact ⟨insAt_none t ht hm, insKids_none r hr⟩
end

mutual
theorem insAt_old_mem {old new : String} : ∀ (t t' : T), insAt old new t = some t' → old ∈ t.leaves
  | .node d p k, t', h => by
    obtain ⟨k', hk, rfl⟩ := insAt_some h
    rw [leaves_of_kids_ne _ _ _ (insKids_ne hk).1]
    exact insKids_old_mem k k' hk
theorem insKids_old_mem {lone : Bool} {old new : String} : ∀ (k k' : Kids), insKids lone old new k = some k' → old ∈ leavesL k
  | [], _, h => by simp [insKids] at h
  | (e, t) :: r, k', h => by
    rcases insKids_cases h with ⟨hl, hn, _, rfl⟩ | ⟨hl, hn, _, rfl⟩ | ⟨_, t', ht, rfl⟩ | ⟨_, _, r', hr, rfl⟩
    · simp [leavesL, (isLeaf_leaves hl).1, hn]
    · simp [leavesL, (isLeaf_leaves hl).1, hn]
    · simp [leavesL, insAt_old_mem t t' ht]
    · simp [leavesL, insKids_old_mem r r' hr]
end

mutual
/-- path lengths between names other than the new one do not move -/
theorem insAt_dist_out {old new : String} : ∀ (t t' : T), insAt old new t = some t' →
    ∀ a b, a ≠ new → b ≠ new → distW wL t'.splitsBelow a b = distW wL t.splitsBelow a b
  | .node d p k, t', h, a, b, ha, hb => by
    obtain ⟨k', hk, rfl⟩ := insAt_some h
    simpa using insKids_dist_out k k' hk a b ha hb
theorem insKids_dist_out {lone : Bool} {old new : String} : ∀ (k k' : Kids), insKids lone old new k = some k' →
    ∀ a b, a ≠ new → b ≠ new → distW wL (splitsL k') a b = distW wL (splitsL k) a b
  | [], _, h, _, _, _, _ => by simp [insKids] at h
  | (e, t) :: r, k', h, a, b, ha, hb => by
    rcases insKids_cases h with ⟨_, _, _, rfl⟩ | ⟨hl, hn, _, rfl⟩ | ⟨_, t', ht, rfl⟩ | ⟨_, _, r', hr, rfl⟩
    · rw [splitsL_append, distW_append]
      simp only [splitsL, T.leaf, T.leaves, T.splitsBelow, List.append_nil, distW_cons, distW_nil]
      rw [sep_of_both_out ⟨[new], zeroEdge, _⟩ a b (by simp [ha]) (by simp [hb])]
      simp [Rat.add_zero]
    · simp only [splitsL, distW_cons, distW_append, cherry_splits, cherry_leaves, wL_zeroEdge]
      rw [(isLeaf_leaves hl).2, distW_nil,
        sep_congr ⟨t.leaves, e, t.isLeaf⟩ ⟨new :: t.leaves, e, (cherry new t).isLeaf⟩ a b (by simp [ha]) (by simp [hb])]
      simp [Rat.add_zero, Rat.zero_add]
    · simp only [splitsL, distW_cons, distW_append]
      rw [insAt_dist_out t t' ht a b ha hb,
        sep_congr ⟨t.leaves, e, t.isLeaf⟩ ⟨t'.leaves, e, t'.isLeaf⟩ a b
          (by simp [insAt_mem ht, ha]) (by simp [insAt_mem ht, hb])]
    · simp only [splitsL, distW_cons, distW_append]
      rw [insKids_dist_out r r' hr a b ha hb]
end

/-- two names below none of the entries are equally far from anything -/
theorem distW_out_out (w : EdgeD → Rat) (l : List SplitE) (a a' x : String)
    (ha : ∀ s ∈ l, a ∉ s.below) (ha' : ∀ s ∈ l, a' ∉ s.below) : distW w l a x = distW w l a' x := by
  rw [distW_left_out w l a x ha, distW_left_out w l a' x ha']

mutual
/-- the new tip is as far from everything else as the tip it was put next to -/
theorem insAt_dist_new {old new : String} : ∀ (t t' : T), insAt old new t = some t' →
    t.leaves.Nodup → new ∉ t.leaves → ∀ x, x ≠ new →
    distW wL t'.splitsBelow new x = distW wL t.splitsBelow old x
  | .node d p k, t', h, hu, hn, x, hx => by
    obtain ⟨k', hk, rfl⟩ := insAt_some h
    rw [leaves_of_kids_ne _ _ _ (insKids_ne hk).1] at hu hn
    simpa using insKids_dist_new k k' hk hu hn x hx
theorem insKids_dist_new {lone : Bool} {old new : String} : ∀ (k k' : Kids), insKids lone old new k = some k' →
    (leavesL k).Nodup → new ∉ leavesL k → ∀ x, x ≠ new →
    distW wL (splitsL k') new x = distW wL (splitsL k) old x
  | [], _, h, _, _, _, _ => by simp [insKids] at h
  | (e, t) :: r, k', h, hu, hn, x, hx => by
    simp only [leavesL, List.mem_append, not_or] at hn
    simp only [leavesL] at hu
    have hd := List.nodup_append.mp hu
    have rest : ∀ y ∈ t.leaves, y ∉ leavesL r := fun y hy hr => hd.2.2 y hy y hr rfl
    rcases insKids_cases h with ⟨hl, hnm, h0, rfl⟩ | ⟨hl, hnm, _, rfl⟩ | ⟨_, t', ht, rfl⟩ | ⟨hm, ht, r', hr, rfl⟩
    · have hold : old ∉ leavesL r := rest old (by simp [(isLeaf_leaves hl).1, hnm])
      rw [splitsL_append, distW_append]
      simp only [splitsL, T.leaf, T.leaves, T.splitsBelow, List.append_nil, distW_cons, distW_nil, distW_append,
        wL_zeroEdge, wL_of_len_zero (Bool.and_eq_true _ _ ▸ h0 : (e.len == 0) = true ∧ (!lone) = true).1, (isLeaf_leaves hl).2]
      rw [distW_out_out wL (splitsL r) new old x (out_of_subL _ _ hn.2) (out_of_subL _ _ hold)]
      simp [Rat.add_zero, Rat.zero_add, distW_nil]
    · have hold : old ∉ leavesL r := rest old (by simp [(isLeaf_leaves hl).1, hnm])
      simp only [splitsL, distW_cons, distW_append, cherry_splits, cherry_leaves, wL_zeroEdge]
      rw [(isLeaf_leaves hl).2, distW_nil, (isLeaf_leaves hl).1, hnm,
        distW_out_out wL (splitsL r) new old x (out_of_subL _ _ hn.2) (out_of_subL _ _ hold)]
      have : (SplitE.mk [new, old] e (cherry new t).isLeaf).sep new x = (SplitE.mk [old] e t.isLeaf).sep old x := by
        simp [SplitE.sep, hx]
      rw [this]
      simp [Rat.add_zero, Rat.zero_add, distW_nil]
    · have hold : old ∈ t.leaves := insAt_old_mem t t' ht
      simp only [splitsL, distW_cons, distW_append]
      rw [insAt_dist_new t t' ht hd.1 hn.1 x hx,
        distW_out_out wL (splitsL r) new old x (out_of_subL _ _ hn.2) (out_of_subL _ _ (rest old hold))]
      have : (SplitE.mk t'.leaves e t'.isLeaf).sep new x = (SplitE.mk t.leaves e t.isLeaf).sep old x := by
        simp [SplitE.sep, insAt_mem ht, hx, hold]
      rw [this]
    · have hold : old ∉ t.leaves := insAt_none t ht hm
      simp only [splitsL, distW_cons, distW_append]
      rw [insKids_dist_new r r' hr hd.2.1 hn.2 x hx,
        distW_out_out wL t.splitsBelow new old x (out_of_sub _ _ hn.1) (out_of_sub _ _ hold)]
      have : (SplitE.mk t.leaves e t.isLeaf).sep new x = (SplitE.mk t.leaves e t.isLeaf).sep old x := by
        simp [SplitE.sep, hn.1, hold]
      rw [this]
end

/-- below a root that is a tip the number of children does not change -/
theorem insKids_length {old new : String} {e : EdgeD} {c : T} {k' : Kids}
    (h : insKids true old new [(e, c)] = some k') : k'.length = 1 := by
  rcases insKids_cases h with ⟨_, _, h0, _⟩ | ⟨_, _, _, rfl⟩ | ⟨_, t', _, rfl⟩ | ⟨_, _, r', hr, rfl⟩
  · simp at h0
  · simp
  · simp
  · simp [insKids] at hr

theorem insKids_length_ge {lone : Bool} {old new : String} : ∀ {k k' : Kids}, insKids lone old new k = some k' → k.length ≤ k'.length
  | [], _, h => by simp [insKids] at h
  | (e, t) :: r, k', h => by
    rcases insKids_cases h with ⟨_, _, _, rfl⟩ | ⟨_, _, _, rfl⟩ | ⟨_, t', _, rfl⟩ | ⟨_, _, r', hr, rfl⟩
    · simp
    · simp
    · simp
    · simpa using insKids_length_ge hr

end Gotree.C15
