/-
  C01 — concrete witnesses (existence statements by kernel evaluation, not property theorems):
  every clause of the quantifier is needed, regression of fix 331c4ae, the example trees.
  `ratCodec` is the lawful all-rationals codec (`1r2` = 1/2); the same witnesses for the codec the driver
  runs (`goCodec`) are `*_go` below and are what Proofs/C01.lean aggregates.
-/
import Gotree.Lemmas.C01Codec
import Gotree.Lemmas.C01GoRead

namespace Gotree.C01
open Gotree Gotree.Newick

/-! ### every clause of the quantifier is needed: concrete witnesses (lawful codec `ratCodec`) on which
    the model's own round trip fails once ONE clause of WF01 is dropped -/

def leafE (len : Rat) (name : String) : EdgeD × T := (⟨len, NIL, NIL, [], 0⟩, T.leaf name)
def innerAB (e : EdgeD) (d : NodeD) : EdgeD × T := (e, .node d 0 [leafE NIL "a", leafE NIL "b"])
def root3 (k : EdgeD × T) : T := .node ⟨"", []⟩ 0 [k, leafE NIL "c"]

/-- a tip name with a trailing blank is trimmed by the parser -/
theorem needs_trimmed_tip : roundTripModel ratCodec.toCodec (root3 (leafE NIL "x ")) = false := by decide +kernel
/-- a tip name with a leading blank loses it in the lexer -/
theorem needs_no_leading_blank : roundTripModel ratCodec.toCodec (root3 (leafE NIL " x")) = false := by decide +kernel
/-- a numeric-looking inner name comes back as a support -/
theorem needs_nonnumeric_inner_name :
    roundTripModel ratCodec.toCodec (root3 (innerAB ⟨NIL, NIL, NIL, [], 0⟩ ⟨"12r1", []⟩)) = false := by decide +kernel
/-- a float/float inner name comes back as support and p-value -/
theorem needs_not_float_slash_float :
    roundTripModel ratCodec.toCodec (root3 (innerAB ⟨NIL, NIL, NIL, [], 0⟩ ⟨"1r2/1r4", []⟩)) = false := by decide +kernel
/-- a second branch comment comes back as a node comment -/
theorem needs_one_branch_comment :
    roundTripModel ratCodec.toCodec (root3 (innerAB ⟨1, NIL, NIL, ["x", "y"], 0⟩ ⟨"", []⟩)) = false := by decide +kernel
/-- a branch comment on a branch without length comes back as a node comment -/
theorem needs_length_for_branch_comment :
    roundTripModel ratCodec.toCodec (root3 (innerAB ⟨NIL, NIL, NIL, ["x"], 0⟩ ⟨"", []⟩)) = false := by decide +kernel
/-- a support next to a name is not written -/
theorem needs_name_xor_support :
    roundTripModel ratCodec.toCodec (root3 (innerAB ⟨NIL, 1/2, NIL, [], 0⟩ ⟨"N", []⟩)) = false := by decide +kernel
/-- a p-value without support is not written -/
theorem needs_support_for_pvalue :
    roundTripModel ratCodec.toCodec (root3 (innerAB ⟨NIL, NIL, 1/2, [], 0⟩ ⟨"", []⟩)) = false := by decide +kernel
/-- a support on a tip branch is not written -/
theorem needs_no_support_on_tip :
    roundTripModel ratCodec.toCodec (root3 (⟨NIL, 1/2, NIL, [], 0⟩, T.leaf "x")) = false := by decide +kernel
/-- a `]` inside a comment ends it -/
theorem needs_comment_without_bracket :
    roundTripModel ratCodec.toCodec (root3 (innerAB ⟨NIL, NIL, NIL, [], 0⟩ ⟨"", ["a]b"]⟩)) = false := by decide +kernel
/-- a metacharacter inside a name splits it -/
theorem needs_no_metachar : roundTripModel ratCodec.toCodec (root3 (leafE NIL "x:y")) = false := by decide +kernel
/-- quoting does not protect a metacharacter: the parser knows no quotes (`'x,y'` is two tips) -/
theorem needs_no_metachar_even_quoted : roundTripModel ratCodec.toCodec (root3 (leafE NIL "'x,y'")) = false := by decide +kernel
/-- … while quotes, blanks inside and NHX-style comments as such are harmless -/
theorem quotes_blanks_nhx_roundtrip :
    roundTripModel ratCodec.toCodec (root3 (innerAB ⟨1, NIL, NIL, ["&&NHX:S=x:E=1.1.1"], 0⟩ ⟨"'Homo sapiens'", ["&&NHX:B=100", "&!color=#ff0000"]⟩)) = true ∧
    roundTripModel ratCodec.toCodec (root3 (leafE 2 "it''s \"x\" y")) = true := by decide +kernel
/-- a numeric-looking root name is ignored by the parser ("support attached to the root") -/
theorem needs_nonnumeric_root_name :
    roundTripModel ratCodec.toCodec (.node ⟨"1r2", []⟩ 0 [leafE NIL "a", leafE NIL "b"]) = false := by decide +kernel
/-- and the same shapes inside WF01 do round-trip (the witnesses are not broken for another reason) -/
theorem witnesses_control :
    roundTripModel ratCodec.toCodec (root3 (leafE NIL "x")) = true ∧
    roundTripModel ratCodec.toCodec (root3 (innerAB ⟨1, 1/2, 1/4, ["x"], 0⟩ ⟨"", ["a[b"]⟩)) = true ∧
    roundTripModel ratCodec.toCodec (root3 (innerAB ⟨NIL, NIL, NIL, [], 0⟩ ⟨"1r2/x", []⟩)) = true := by decide +kernel

/-! ### fix 331c4ae (writer, root with a single neighbour): regression theorems -/

def root1 : T := .node ⟨"R", ["rc"]⟩ 0 [innerAB ⟨1, 1/2, NIL, [], 0⟩ ⟨"", []⟩]


/-- with the writer as it is now a root with one child round-trips (instance of `parse_write_gen`) … -/
theorem root1_roundtrip : roundTripModel ratCodec.toCodec root1 = true := by decide +kernel

/-- … while the text of the writer pinned before the fix, "(a,b)1r2:1r1R[rc];", is not read back as the tree. -/
theorem writePinned_root1_fails :
    (match Newick.parse ratCodec.toCodec (Newick.writePinned ratCodec.toCodec root1) with
     | .ok t' => sameTree root1 t'
     | _ => false) = false := by decide +kernel

/-- unrooted, a multifurcation, support/p-value next to two node comments and a branch comment, an inner
    name with a slash, a numeric-looking tip, a blank inside a tip name, absent / zero / negative / fractional
    lengths, root name and root comment, non-zero parent position and arbitrary branch ids -/
def exTree : T :=
  .node ⟨"root", ["rc"]⟩ 0
    [ (⟨3, 9/10, 1/20, ["bc"], 7⟩, .node ⟨"", ["c1", "c;2"]⟩ 0
        [ (⟨1/2, NIL, NIL, [], 0⟩, T.leaf "a"), (⟨NIL, NIL, NIL, [], 0⟩, T.leaf "b c"), (⟨0, NIL, NIL, [], 0⟩, T.leaf "100") ]),
      (⟨NIL, NIL, NIL, [], 3⟩, .node ⟨"N1/x", []⟩ 2 [ (⟨2, NIL, NIL, ["k"], 0⟩, T.leaf "c"), (⟨NIL, NIL, NIL, [], 0⟩, T.leaf "d") ]),
      (⟨-5/4, NIL, NIL, [], 0⟩, T.leaf "e") ]


/-! ### the same witnesses for the executable codec `goCodec` (the one the driver runs against strconv) -/

theorem needs_go :
    roundTripModel goCodec (root3 (leafE NIL "x ")) = false ∧
    roundTripModel goCodec (root3 (leafE NIL " x")) = false ∧
    roundTripModel goCodec (root3 (innerAB ⟨NIL, NIL, NIL, [], 0⟩ ⟨"12", []⟩)) = false ∧
    roundTripModel goCodec (root3 (innerAB ⟨NIL, NIL, NIL, [], 0⟩ ⟨"0.5/0.25", []⟩)) = false ∧
    roundTripModel goCodec (root3 (innerAB ⟨1, NIL, NIL, ["x", "y"], 0⟩ ⟨"", []⟩)) = false ∧
    roundTripModel goCodec (root3 (innerAB ⟨NIL, NIL, NIL, ["x"], 0⟩ ⟨"", []⟩)) = false ∧
    roundTripModel goCodec (root3 (innerAB ⟨NIL, 1/2, NIL, [], 0⟩ ⟨"N", []⟩)) = false ∧
    roundTripModel goCodec (root3 (innerAB ⟨NIL, NIL, 1/2, [], 0⟩ ⟨"", []⟩)) = false ∧
    roundTripModel goCodec (root3 (⟨NIL, 1/2, NIL, [], 0⟩, T.leaf "x")) = false ∧
    roundTripModel goCodec (root3 (innerAB ⟨NIL, NIL, NIL, [], 0⟩ ⟨"", ["a]b"]⟩)) = false ∧
    roundTripModel goCodec (root3 (leafE NIL "x:y")) = false ∧
    roundTripModel goCodec (root3 (leafE NIL "'x,y'")) = false ∧
    roundTripModel goCodec (.node ⟨"1e5", []⟩ 0 [leafE NIL "a", leafE NIL "b"]) = false := by decide +kernel

theorem control_go :
    roundTripModel goCodec (root3 (leafE NIL "x")) = true ∧
    roundTripModel goCodec (root3 (innerAB ⟨1, 1/2, 1/4, ["x"], 0⟩ ⟨"", ["a[b", "95%"]⟩)) = true ∧
    roundTripModel goCodec (root3 (innerAB ⟨NIL, NIL, NIL, [], 0⟩ ⟨"0.5/x", []⟩)) = true ∧
    roundTripModel goCodec root1 = true := by decide +kernel

/-- a tree of float64 values that are not dyadic-short: 0.1, 0.30000000000000004, 1e-320 (sub-normal),
    1.7976931348623157e308 (largest), 1e21, with a multifurcation, comments, support and p-value -/
def exTreeGo : T :=
  .node ⟨"root", ["rc"]⟩ 0
    [ (⟨3602879701896397 / 36028797018963968, 1351079888211149 / 4503599627370496, 2024 / 2 ^ 1074, ["bc"], 7⟩,
        .node ⟨"", ["c1", "95%"]⟩ 0
        [ (⟨(2 ^ 53 - 1) * 2 ^ 971, NIL, NIL, [], 0⟩, T.leaf "a"), (⟨NIL, NIL, NIL, [], 0⟩, T.leaf "b c"),
          (⟨1000000000000000000000, NIL, NIL, [], 0⟩, T.leaf "100") ]),
      (⟨NIL, NIL, NIL, [], 3⟩, .node ⟨"N1/x", []⟩ 2 [ (⟨2, NIL, NIL, ["k"], 0⟩, T.leaf "c"), (⟨NIL, NIL, NIL, [], 0⟩, T.leaf "d") ]),
      (⟨-5/4, NIL, NIL, [], 0⟩, T.leaf "e") ]

end Gotree.C01
