/-
  C14 round 2 — Part 3: the walk up from a tip inside a subtree.  Core Lean only.
-/
import Gotree.Lemmas.C14Walk2

namespace Gotree.C14
open Gotree Gotree.C14.Go

theorem kidsIdx_snd : ∀ (m : Nat) (ks : Kids), (kidsIdx m ks).map (·.2) = ks
  | _, [] => rfl
  | m, (e, t) :: r => by simp [kidsIdx, kidsIdx_snd (m + t.size) r]

theorem kidsIdx_range : ∀ (ks : Kids) (m : Nat), ∀ x ∈ kidsIdx m ks, m ≤ x.1 ∧ x.1 + x.2.2.size ≤ m + T.sizeL ks
  | [], _, x, hx => by simp [kidsIdx] at hx
  | (e, t) :: r, m, x, hx => by
    simp only [kidsIdx, List.mem_cons] at hx
    rw [sizeL_cons]
    rcases hx with rfl | hx
    · exact ⟨Nat.le_refl _, by show m + t.size ≤ _; omega⟩
    · have := kidsIdx_range r (m + t.size) x hx; omega

theorem wd_names_list (g : G) (w : EdgeD → Rat) (p : Nat) (acc : Rat) : ∀ (l : List (Nat × (EdgeD × T))),
    (∀ x ∈ l, Sub g.nodes x.1 (flatT (some p) x.1 x.2.2)) →
    (l.flatMap fun x => wdT w x.1 x.2.2 (acc + w x.2.1)).map (fun iv => (g.name iv.1, iv.2))
      = walkDownL w (l.map (·.2)) acc
  | [], _ => by simp [walkDownL]
  | x :: l, h => by
    obtain ⟨c, e, t⟩ := x
    simp only [List.flatMap_cons, List.map_append, List.map_cons, walkDownL]
    rw [wdT_names g w t c (some p) _ (h (c, e, t) (by simp)), wd_names_list g w p acc l (fun y hy => h y (by simp [hy]))]

theorem wd_idx_list (w : EdgeD → Rat) (acc : Rat) : ∀ (l : List (Nat × (EdgeD × T))),
    (l.flatMap fun x => wdT w x.1 x.2.2 (acc + w x.2.1)).map (·.1) = l.flatMap fun x => leafIdxT x.1 x.2.2
  | [] => rfl
  | x :: l => by
    simp only [List.flatMap_cons, List.map_append, wdT_idx, wd_idx_list w acc l]

theorem leafIdxL_kidsIdx : ∀ (ks : Kids) (m : Nat), (kidsIdx m ks).flatMap (fun x => leafIdxT x.1 x.2.2) = leafIdxL m ks
  | [], _ => by simp [kidsIdx, leafIdxL]
  | (e, t) :: r, m => by simp [kidsIdx, leafIdxL, leafIdxL_kidsIdx r (m + t.size)]

theorem stepW_noskip (w : EdgeD → Rat) (c : Nat) (acc : Rat) : ∀ (l : List (Nat × (EdgeD × T))),
    (∀ y ∈ l, y.1 ≠ c) → l.flatMap (stepW w (some c) acc) = l.flatMap fun x => wdT w x.1 x.2.2 (acc + w x.2.1)
  | [], _ => rfl
  | y :: l, h => by
    have hy : (some y.1 == some c) = false := by simpa using h y (by simp)
    simp only [List.flatMap_cons, stepW, hy, Bool.false_eq_true, if_false]
    rw [← stepW_noskip w c acc l (fun z hz => h z (by simp [hz]))]

theorem stepW_none (w : EdgeD → Rat) (acc : Rat) (l : List (Nat × (EdgeD × T))) :
    l.flatMap (stepW w none acc) = l.flatMap fun x => wdT w x.1 x.2.2 (acc + w x.2.1) := by
  apply flatMap_congr'
  intro x _
  simp [stepW]

theorem walkUpL_split (w : EdgeD → Rat) (a : String) (e : EdgeD) (t : T) (k2 : Kids) (d : Rat) (res : List (String × Rat))
    (ht : walkUp w a t = some (d, res)) : ∀ (k1 : Kids), a ∉ leavesL k1 →
    walkUpL w a (k1 ++ (e, t) :: k2) =
      some (d + w e, walkDownL w k1 (d + w e) ++ (res ++ walkDownL w k2 (d + w e)))
  | [], _ => by simp [walkUpL, ht, walkDownL]
  | (e', t') :: k1, ha => by
    simp only [leavesL, List.mem_append, not_or] at ha
    simp only [List.cons_append, walkUpL, walkUp_none w a t' ha.1, walkUpL_split w a e t k2 d res ht k1 ha.2,
      walkDownL, List.append_assoc]

theorem leafIdxT_node_ne (n : Nat) (d : NodeD) (pp : Nat) {ks : Kids} (h : ks ≠ []) :
    leafIdxT n (.node d pp ks) = leafIdxL (n + 1) ks := by
  cases ks with
  | nil => exact absurd rfl h
  | cons x k => simp only [leafIdxT]

theorem walkUp_node_ne (w : EdgeD → Rat) (a : String) (d : NodeD) (pp : Nat) {ks : Kids} (h : ks ≠ []) :
    walkUp w a (.node d pp ks) = walkUpL w a ks := by
  cases ks with
  | nil => exact absurd rfl h
  | cons x k => simp only [walkUp]

theorem leaves_node_ne (d : NodeD) (pp : Nat) {ks : Kids} (h : ks ≠ []) : (T.node d pp ks).leaves = leavesL ks := by
  cases ks with
  | nil => exact absurd rfl h
  | cons x k => simp only [T.leaves]

theorem walkDownL_append (w : EdgeD → Rat) (acc : Rat) : ∀ (k1 k2 : Kids),
    walkDownL w (k1 ++ k2) acc = walkDownL w k1 acc ++ walkDownL w k2 acc
  | [], _ => by simp [walkDownL]
  | (e, t) :: k1, k2 => by simp [walkDownL, walkDownL_append w acc k1 k2]

theorem bind_some_comp {α : Type} (x : Option α) (f g : α → α) :
    (x.bind fun s => some (f s)).bind (fun s => some (g s)) = x.bind fun s => some (g (f s)) := by
  cases x <;> rfl

/-- The walk started at the tip `a` (node `ia`) of the subtree `t` (top node `n`, parent `p`):
    inside `t` it writes, up to order, what `walkUp` of the rose-tree model lists, and it calls
    `pathLengths` on the parent once, with the length `walkUp` accumulates to the top. -/
theorem walk_up (g : G) (ids : Array Nat) (metric : Int) : ∀ (t : T) (n p : Nat) (a : String) (ia : Nat),
    p < n → Sub g.nodes n (flatT (some p) n t) → Sub g.edges n (gedgesT n t) → t.leaves.Nodup →
    ia ∈ leafIdxT n t → g.name ia = a →
    ∃ (h : Nat) (ws1 ws2 : List (Nat × Rat)) (d : Rat) (res : List (String × Rat)),
      h < t.size ∧ walkUp (weight metric) a t = some (d, res) ∧
      ((ws1 ++ ws2).map fun iv => (g.name iv.1, iv.2)).Perm res ∧
      ((ws1 ++ ws2).map (·.1)).Perm ((leafIdxT n t).erase ia) ∧
      ∀ (F : Nat) (L : Array Rat), t.size ≤ F → (∀ i ∈ leafIdxT n t, ids.getD i 0 < L.size) →
        pathLengths g ids metric F ia none L 0 =
          (callUp g ids metric (F - h - 1) n p (applyW ids L ws1) d).bind (fun s => some (applyW ids s ws2)) := by
  intro t
  induction t using T.induct with
  | h d pp ks ih =>
    intro n p a ia hp hs he hnd hia hname
    rw [flatT_node] at hs
    rw [gedgesT_node] at he
    have hnode := hs.head
    by_cases hk : ks = []
    · -- the tip itself
      subst hk
      simp only [leafIdxT, List.mem_singleton] at hia
      subst hia
      have hnm : d.name = a := by rw [← hname]; simp [G.name, hnode]
      refine ⟨0, [], [], 0, [], by rw [size_node]; omega, by simp [walkUp, hnm], by simp, by simp [leafIdxT], ?_⟩
      intro F L hF _
      rw [size_node] at hF
      obtain ⟨F', rfl⟩ : ∃ F', F = F' + 1 := ⟨F - 1, by omega⟩
      rw [pathLengths_succ g ids metric F' ia none L 0 _ hnode]
      simp only [Option.isSome_none, Bool.and_false, Bool.false_eq_true, if_false, kidIdx, List.map_nil, insAt,
        List.take_nil, List.drop_nil, List.nil_append, List.foldlM_cons, List.foldlM_nil]
      have : plStep g ids metric F' ia none 0 L (p, ia - 1) = callUp g ids metric F' ia p L 0 := by
        simp [plStep, callUp]
      rw [this]
      simp only [applyW, List.foldl_nil, Nat.sub_zero, Nat.add_sub_cancel]
      cases callUp g ids metric F' ia p L 0 <;> rfl
    · rw [leafIdxT_node_ne n d pp hk] at hia
      have hnd' : (leavesL ks).Nodup := by rw [leaves_node_ne d pp hk] at hnd; exact hnd
      -- the child holding `a`
      obtain ⟨k1, e, tc, k2, hsplit, hic, hkidx, hlidx⟩ := split_at_leaf ks (n + 1) ia hia
      let c := n + 1 + T.sizeL k1
      have hc : c = n + 1 + T.sizeL k1 := rfl
      rw [← hc] at hic hkidx hlidx
      have hok := kids_ok g ks (n + 1) n (by omega) hs.tail (by simpa using he)
      have hxmem : (c, (e, tc)) ∈ kidsIdx (n + 1) ks := by rw [hkidx]; simp
      have hx := hok _ hxmem
      have hleaves : leavesL ks = leavesL k1 ++ (tc.leaves ++ leavesL k2) := by
        rw [hsplit, leavesL_append, leavesL_cons]
      have hndc : tc.leaves.Nodup := by
        rw [hleaves] at hnd'
        exact (List.nodup_append.1 (List.nodup_append.1 hnd').2.1).1
      have hatc : a ∈ tc.leaves := by
        rw [← hname, ← leafIdxT_names g tc c (some n) hx.nodes]
        exact List.mem_map_of_mem hic
      have hak1 : a ∉ leavesL k1 := by
        rw [hleaves] at hnd'
        intro h
        exact (List.nodup_append.1 hnd').2.2 a h a (by simp [hatc]) rfl
      obtain ⟨h, ws1, ws2, dd, res, hh, hwu, hperm, hidx, hrun⟩ :=
        ih (e, tc) hx.mem c n a ia hx.gt hx.nodes hx.edges hndc hic hname
      have hh : h < tc.size := hh
      have hwu : walkUp (weight metric) a tc = some (dd, res) := hwu
      have hidx : ((ws1 ++ ws2).map (·.1)).Perm ((leafIdxT c tc).erase ia) := hidx
      have hsz : tc.size ≤ T.sizeL ks := hx.size
      have hedge : g.edges[c - 1]? = some ⟨n, c, e⟩ := hx.edge
      have hrun : ∀ (F : Nat) (L : Array Rat), tc.size ≤ F → (∀ i ∈ leafIdxT c tc, ids.getD i 0 < L.size) →
          pathLengths g ids metric F ia none L 0 =
            (callUp g ids metric (F - h - 1) c n (applyW ids L ws1) dd).bind (fun s => some (applyW ids s ws2)) := hrun
      -- the loop at `n` coming from `c`
      let acc' := dd + weight metric e
      let l := kidsIdx (n + 1) ks
      let A := (l.take pp).flatMap (stepW (weight metric) (some c) acc')
      let B := (l.drop pp).flatMap (stepW (weight metric) (some c) acc')
      have hAB : A ++ B = l.flatMap (stepW (weight metric) (some c) acc') := by
        show (l.take pp).flatMap _ ++ (l.drop pp).flatMap _ = _
        rw [← List.flatMap_append, List.take_append_drop]
      -- children other than `c`
      have hne1 : ∀ y ∈ kidsIdx (n + 1) k1, y.1 ≠ c := by
        intro y hy; have := kidsIdx_range k1 (n + 1) y hy
        have := size_pos y.2.2; omega
      have hne2 : ∀ y ∈ kidsIdx (c + tc.size) k2, y.1 ≠ c := by
        intro y hy; have := kidsIdx_range k2 (c + tc.size) y hy
        have := size_pos tc; omega
      have hflat : l.flatMap (stepW (weight metric) (some c) acc') =
          (kidsIdx (n + 1) k1 ++ kidsIdx (c + tc.size) k2).flatMap fun x => wdT (weight metric) x.1 x.2.2 (acc' + weight metric x.2.1) := by
        show (kidsIdx (n + 1) ks).flatMap _ = _
        rw [hkidx, List.flatMap_append, List.flatMap_cons, List.flatMap_append,
          stepW_noskip _ c acc' _ hne1, stepW_noskip _ c acc' _ hne2]
        simp [stepW]
      have hsub12 : ∀ x ∈ kidsIdx (n + 1) k1 ++ kidsIdx (c + tc.size) k2, x ∈ kidsIdx (n + 1) ks := by
        intro x hx'; rw [hkidx]
        rcases List.mem_append.1 hx' with h' | h'
        · exact List.mem_append.2 (Or.inl h')
        · exact List.mem_append.2 (Or.inr (List.mem_cons_of_mem _ h'))
      have hk12 : (kidsIdx (n + 1) k1 ++ kidsIdx (c + tc.size) k2).map (·.2) = k1 ++ k2 := by
        rw [List.map_append, kidsIdx_snd, kidsIdx_snd]
      have hABnames : (A ++ B).map (fun iv => (g.name iv.1, iv.2)) =
          walkDownL (weight metric) k1 acc' ++ walkDownL (weight metric) k2 acc' := by
        rw [hAB, hflat, wd_names_list g _ n acc' _ (fun x hx' => (hok x (hsub12 x hx')).nodes), hk12,
          walkDownL_append]
      have hABidx : (A ++ B).map (·.1) = leafIdxL (n + 1) k1 ++ leafIdxL (c + tc.size) k2 := by
        rw [hAB, hflat, wd_idx_list, List.flatMap_append, leafIdxL_kidsIdx, leafIdxL_kidsIdx]
      refine ⟨h + 1, ws1 ++ A, B ++ ws2, acc', walkDownL (weight metric) k1 acc' ++ (res ++ walkDownL (weight metric) k2 acc'),
        ?_, ?_, ?_, ?_, ?_⟩
      · rw [size_node]; omega
      · rw [walkUp_node_ne _ a d pp hk, hsplit]
        exact walkUpL_split (weight metric) a e tc k2 dd res hwu k1 hak1
      · -- names
        rw [List.perm_iff_count]
        intro z
        have h1 := List.perm_iff_count.1 hperm z
        have h2 := congrArg (List.count z) hABnames
        simp only [List.map_append, List.count_append] at h1 h2 ⊢
        omega
      · -- indices
        have hia1 : ia ∉ leafIdxL (n + 1) k1 := by
          intro h'; have := leafIdxL_range k1 (n + 1) ia h'
          have := leafIdxT_range tc c ia hic; omega
        have herase : (leafIdxL (n + 1) ks).erase ia =
            leafIdxL (n + 1) k1 ++ ((leafIdxT c tc).erase ia ++ leafIdxL (c + tc.size) k2) := by
          rw [hlidx, List.append_assoc, List.erase_append_right _ hia1, List.erase_append_left _ hic]
        rw [leafIdxT_node_ne n d pp hk, herase, List.perm_iff_count]
        intro z
        have h1 := List.perm_iff_count.1 hidx z
        have h2 := congrArg (List.count z) hABidx
        simp only [List.map_append, List.count_append] at h1 h2 ⊢
        omega
      · intro F L hF hidr
        rw [size_node] at hF
        have hidr' : ∀ i ∈ leafIdxL (n + 1) ks, ids.getD i 0 < L.size := by
          intro i hi; exact hidr i (by rw [leafIdxT_node_ne n d pp hk]; exact hi)
        rw [hrun F L (by omega) (fun i hi => hidr' i (hx.leaves i hi))]
        -- the call made from `c` on `n`
        obtain ⟨f', hf'⟩ : ∃ f', F - h - 1 = f' + 1 := ⟨F - h - 2, by show F - h - 1 = F - h - 2 + 1; omega⟩
        have hcall : ∀ s : Array Rat, s.size = L.size →
            callUp g ids metric (F - h - 1) c n s dd =
              (callUp g ids metric f' n p (applyW ids s A) acc').bind (fun s2 => some (applyW ids s2 B)) := by
          intro s hss
          have hL : callUp g ids metric (F - h - 1) c n s dd = pathLengths g ids metric (f' + 1) n (some c) s acc' := by
            unfold callUp; rw [hedge, hf']
          rw [hL, pathLengths_succ g ids metric f' n (some c) s acc' _ hnode]
          have hlen : (insAt ((kidIdx (n + 1) ks).map fun c => (c, c - 1)) pp (p, n - 1)).length = ks.length + 1 := by
            simp [insAt, kidIdx_length]; omega
          have hl2 : ((insAt ((kidIdx (n + 1) ks).map fun c => (c, c - 1)) pp (p, n - 1)).length == 1) = false := by
            rw [hlen]
            have : ks.length ≠ 0 := fun h0 => hk (List.length_eq_zero_iff.1 h0)
            simp [this]
          simp only [hl2, Bool.false_and, Bool.false_eq_true, if_false]
          have hpairs : (kidIdx (n + 1) ks).map (fun c => (c, c - 1)) = l.map fun x => (x.1, x.1 - 1) := by
            rw [kidIdx_eq, List.map_map]; rfl
          rw [hpairs]
          unfold insAt
          rw [← List.map_take, ← List.map_drop, List.foldlM_append]
          have hsizes : T.sizeL ks = T.sizeL k1 + (tc.size + T.sizeL k2) := by
            rw [hsplit, sizeL_append, sizeL_cons]
          have hfuel : ∀ x ∈ l, some x.1 ≠ some c → x.2.2.size ≤ f' := by
            intro x hxl hxc
            have hxc' : x.1 ≠ c := fun h' => hxc (by rw [h'])
            have hxl' : x ∈ kidsIdx (n + 1) k1 ++ (c, (e, tc)) :: kidsIdx (c + tc.size) k2 := by rw [← hkidx]; exact hxl
            rcases List.mem_append.1 hxl' with h' | h'
            · have := kidsIdx_range k1 (n + 1) x h'; omega
            · rcases List.mem_cons.1 h' with h'' | h''
              · exact absurd (by rw [h'']) hxc'
              · have := kidsIdx_range k2 (c + tc.size) x h''; omega
          have hr1 : ∀ i ∈ leafIdxL (n + 1) ks, ids.getD i 0 < s.size := by rw [hss]; exact hidr'
          rw [loop_kids g ids metric f' n (n + 1) ks (some c) acc' (l.take pp) s
            (fun x hx' => hok x (List.mem_of_mem_take hx')) (fun x hx' => hfuel x (List.mem_of_mem_take hx')) hr1]
          simp only [Option.bind_eq_bind, Option.bind_some]
          rw [List.foldlM_cons]
          have hpar : plStep g ids metric f' n (some c) acc' (applyW ids s A) (p, n - 1) =
              callUp g ids metric f' n p (applyW ids s A) acc' := by
            have : (some p != some c) = true := by
              have : p ≠ c := by omega
              simpa using this
            simp [plStep, callUp, this]
          rw [hpar]
          cases hcu : callUp g ids metric f' n p (applyW ids s A) acc' with
          | none => rfl
          | some s2 =>
            have hs2 : s2.size = L.size := by
              unfold callUp at hcu
              cases hee : g.edges[n - 1]? with
              | none => rw [hee] at hcu; simp at hcu
              | some ee =>
                rw [hee] at hcu
                rw [pathLengths_size g ids metric _ _ _ _ _ _ hcu, applyW_size, hss]
            simp only [Option.bind_some]
            exact loop_kids g ids metric f' n (n + 1) ks (some c) acc' (l.drop pp) s2
              (fun x hx' => hok x (List.mem_of_mem_drop hx')) (fun x hx' => hfuel x (List.mem_of_mem_drop hx'))
              (by rw [hs2]; exact hidr')
        rw [hcall _ (applyW_size ids ws1 L), ← applyW_append, bind_some_comp]
        have e1 : F - (h + 1) - 1 = f' := by omega
        rw [e1]
        congr 1
        funext s2
        rw [applyW_append]

end Gotree.C14
