/-
  C14 — the property theorems (DESIGN §6 C14).  Everything is about the model
  of `Gotree/Model/C14.lean`; the Spec predicates are those of `Gotree/Spec/C14.lean`
  that the driver also evaluates on the implementation's own output.

  `hu : t.tipNames.Nodup` is the hypothesis "tip names are unique".
-/
import Gotree.Lemmas.C14

namespace Gotree.C14
open Gotree

/-! ### the hypotheses are satisfiable on non-trivial trees -/

example : exT.tipNames = ["A", "B", "C", "D"] := by decide
example : exT.tipNames.Nodup := by decide
example : exTipRoot.tipNames = ["D", "A", "B", "C"] := by decide
example : exTipRoot.tipNames.Nodup := by decide
example : "A" ∈ exT.tipNames ∧ "C" ∈ exT.tipNames ∧ "A" ≠ "C" := by decide

/-! ### distance matrix -/

/-- Every entry the walk from tip `a` writes for another tip `b` is the sum of
    the branch weights over the branches separating `a` from `b`. -/
theorem row_eq_pathsum (w : EdgeD → Rat) (t : T) (hu : t.tipNames.Nodup) (a b : String)
    (ha : a ∈ t.tipNames) (hb : b ∈ t.tipNames) (hab : a ≠ b) :
    (row w t a).lookup b = some (distW w t.splits a b) :=
  row_lookup w t hu a b ha hb hab

/- concrete instances (kernel-evaluated): A–C crosses 1, 1/2 and 3; seen from the
   tip-rooted tree, A–D crosses 1, 1/2 and 1 -/
example : (row Metric.brlen.w exT "A").lookup "C" = some (9/2) := by decide +kernel
example : distW Metric.brlen.w exT.splits "A" "C" = 9/2 := by decide +kernel
example : (row Metric.brlen.w exTipRoot "A").lookup "D" = some (5/2) := by decide +kernel
example : (row Metric.brlen.w exTipRoot "D").lookup "B" = some (7/2) := by decide +kernel

/-- The model's matrix meets the Spec that is used as oracle. -/
theorem matrix_eq_pathsum (m : Metric) (t : T) (hu : t.tipNames.Nodup) :
    matrixOK m t (matrix m t).1 (matrix m t).2 = true := by
  unfold matrixOK
  rw [Bool.and_eq_true, beq_iff_eq, beq_iff_eq]
  exact ⟨rfl, matrix_spec m t hu⟩

/-- The matrix is `n × n` for `n` the number of tips (gives their meaning to the
    `getD` statements below). -/
theorem matrix_square (m : Metric) (t : T) :
    (matrix m t).1.length = t.tipNames.length ∧
    (matrix m t).2.length = t.tipNames.length ∧
    ∀ r ∈ (matrix m t).2, r.length = t.tipNames.length := by
  have hl : (matrix m t).1.length = t.tipNames.length := (sortNames_perm t.tipNames).length_eq
  have h := matrix_isSquare m t
  exact ⟨hl, hl ▸ h.length, fun r hr => hl ▸ h.row_length r hr⟩

theorem matrix_symmetric (m : Metric) (t : T) (hu : t.tipNames.Nodup) (i j : Nat) :
    ((matrix m t).2.getD i []).getD j 0 = ((matrix m t).2.getD j []).getD i 0 := by
  rw [matrix_spec m t hu,
    entry_map_map _ (fun a b => if a == b then 0 else pathSum m t a b),
    entry_map_map _ (fun a b => if a == b then 0 else pathSum m t a b)]
  cases (sortNames t.tipNames)[i]? <;> cases (sortNames t.tipNames)[j]? <;> try rfl
  rename_i a b
  by_cases h : a = b
  · simp [h]
  · have h1 : (a == b) = false := by simpa using h
    have h2 : (b == a) = false := by simpa using Ne.symm h
    simp only [h1, h2, Bool.false_eq_true, if_false]
    exact pathSum_comm m t a b

theorem matrix_zero_diag (m : Metric) (t : T) (i : Nat) :
    ((matrix m t).2.getD i []).getD i 0 = 0 := by
  have : (matrix m t).2 = (sortNames t.tipNames).map fun a => (sortNames t.tipNames).map
      ((fun a b => if a == b then 0 else ((row m.w t a).lookup b).getD 0) a) := rfl
  rw [this, entry_map_map]
  cases (sortNames t.tipNames)[i]? <;> simp

/-- Rows and columns are the tips in increasing name order. -/
theorem matrix_rows_sorted (m : Metric) (t : T) :
    (matrix m t).1 = sortNames t.tipNames ∧
    (sortNames t.tipNames).Pairwise (· ≤ ·) ∧
    (sortNames t.tipNames).Perm t.tipNames :=
  ⟨rfl, sortNames_sorted _, sortNames_perm _⟩

/-! ### average -/

/-- When `AvgDistanceMatrix` succeeds on a non-empty list of trees: the names are
    the sorted tips of the first tree, every tree has the same sorted tips, the
    result is `n × n` and each entry is the mean of the entries of the
    individual matrices. -/
theorem avg_is_mean (m : Metric) (ts : List T) (hne : ts ≠ []) (names : List String)
    (M : List (List Rat)) (h : avgMatrix m ts = some (names, M)) :
    names = sortNames (ts.head hne).tipNames ∧
    (∀ u ∈ ts, sortNames u.tipNames = names) ∧
    M.length = names.length ∧ (∀ r ∈ M, r.length = names.length) ∧
    ∀ i j : Nat, (M.getD i []).getD j 0 =
      (ts.map fun u => ((matrix m u).2.getD i []).getD j 0).sum / ((ts.length : Nat) : Rat) := by
  cases ts with
  | nil => exact absurd rfl hne
  | cons t ts =>
    rw [avgMatrix_cons] at h
    split at h
    · rename_i hall
      simp only [Option.some.injEq, Prod.mk.injEq] at h
      obtain ⟨h1, h2⟩ := h
      simp only [List.all_eq_true, beq_iff_eq] at hall
      have hsame : ∀ u ∈ ts, (matrix m u).1.length = names.length := fun u hu => by
        rw [hall u hu, h1]
      obtain ⟨hsq, hent⟩ := sumM_spec m names.length ts (matrix m t).2
        (h1 ▸ matrix_isSquare m t) hsame
      have hsq' := div_square _ ((ts.length + 1 : Nat) : Rat) hsq
      rw [h2] at hsq'
      refine ⟨h1.symm, ?_, hsq'.length, hsq'.row_length, fun i j => ?_⟩
      · intro u hu
        rcases List.mem_cons.1 hu with rfl | hu
        · exact h1
        · exact (hall u hu).trans h1
      · rw [← h2, div_entry, hent i j]
        simp only [List.map_cons, List.sum_cons, List.length_cons]
    · exact absurd h (by simp)

/-- Different taxa are rejected, and only they. -/
theorem avg_different_taxa_err (m : Metric) (ts : List T) :
    avgMatrix m ts = none ↔
      ∃ hne : ts ≠ [], ∃ u ∈ ts, sortNames u.tipNames ≠ sortNames (ts.head hne).tipNames := by
  cases ts with
  | nil => simp [avgMatrix]
  | cons t ts =>
    rw [avgMatrix_cons]
    constructor
    · intro h
      split at h
      · exact absurd h (by simp)
      · rename_i hall
        simp only [Bool.not_eq_true, List.all_eq_false, beq_iff_eq] at hall
        obtain ⟨u, hu, hne⟩ := hall
        exact ⟨by simp, u, by simp [hu], hne⟩
    · rintro ⟨_, u, hu, hne⟩
      rcases List.mem_cons.1 hu with rfl | hu
      · exact absurd rfl hne
      · have : ¬ (ts.all fun u => (matrix m u).1 == (matrix m t).1) = true := by
          simp only [Bool.not_eq_true, List.all_eq_false, beq_iff_eq]
          exact ⟨u, hu, hne⟩
        simp [this]

/-- two different trees on the same taxa are accepted (so the hypothesis of
    `avg_is_mean` is satisfiable on a list of distinct trees) -/
example : avgMatrix .brlen [exT, exTipRoot] ≠ none := by
  rw [Ne, avg_different_taxa_err]
  rintro ⟨_, u, hu, hne⟩
  have hp : exTipRoot.tipNames.Perm exT.tipNames := by decide
  simp only [List.mem_cons, List.not_mem_nil, or_false] at hu
  rcases hu with rfl | rfl
  · exact hne rfl
  · exact hne (sortNames_eq_of_perm hp)

/-! ### cut -/

/-- Two tips share a bag iff every branch separating them is shorter than the threshold. -/
theorem cut_components (thr : Rat) (t : T) (hu : t.tipNames.Nodup) (a b : String)
    (ha : a ∈ t.tipNames) (hb : b ∈ t.tipNames) :
    sameBag (cut thr t) a b = pathShort thr t a b :=
  cut_sameBag thr t hu a b ha hb

/- concrete instances (kernel-evaluated), threshold 2: B (length 2) and C (length 3)
   are cut off, A and D stay together, also when D is the root -/
example : cut 2 exT = [["A", "D"], ["B"], ["C"]] := by decide +kernel
example : cut 2 exTipRoot = [["D", "A"], ["B"], ["C"]] := by decide +kernel
example : sameBag (cut 2 exT) "A" "D" = true ∧ pathShort 2 exT "A" "D" = true ∧
    sameBag (cut 2 exT) "A" "B" = false ∧ pathShort 2 exT "A" "B" = false := by decide +kernel

/-- The bags partition the tips. -/
theorem cut_partition (thr : Rat) (t : T) :
    ((cut thr t).flatten).Perm t.tipNames ∧ ∀ g ∈ cut thr t, g ≠ [] :=
  ⟨cut_perm thr t, cut_nonempty thr t⟩

/-- The model's cut meets the Spec that is used as oracle. -/
theorem cutOK_holds (thr : Rat) (t : T) (hu : t.tipNames.Nodup) :
    cutOK thr t (cut thr t) = true := by
  simp only [cutOK, Bool.and_eq_true, List.all_eq_true, beq_iff_eq]
  refine ⟨⟨sortNames_eq_of_perm (cut_partition thr t).1, fun g hg => ?_⟩, fun a ha b hb => ?_⟩
  · cases g with
    | nil => exact absurd rfl ((cut_partition thr t).2 _ hg)
    | cons x g => rfl
  · exact cut_components thr t hu a b ha hb

end Gotree.C14
