/-
  C19 — model of what happens to the three global options AFTER parsing and before a command body
  runs (cmd/root.go:71-88 `PersistentPreRun`, cmd/computesupport.go:37 which calls it explicitly,
  cmd/comparetrees.go:67-70): what their documented defaults *mean*.

    --format (default "newick")  switch rootInputFormat { "newick" | "nexus" | "phyloxml" | "nextstrain" ; default: newick }
                                 → every unknown text is silently the default
    --seed   (default -1)        if seed == -1 { seed = time.Now().UnixNano() }; rand.Seed(seed)
                                 → the documented default is a sentinel: "taken from the clock"
    --threads (default 1)        compare trees only: if rootCpus > NumCPU { rootCpus = NumCPU }
-/
namespace Gotree.C19.PreRun

inductive Fmt | newick | nexus | phyloxml | nextstrain
  deriving DecidableEq, Repr

/-- cmd/root.go:72-83 -/
def formatOf (s : String) : Fmt :=
  match s with
  | "newick" => .newick
  | "nexus" => .nexus
  | "phyloxml" => .phyloxml
  | "nextstrain" => .nextstrain
  | _ => .newick

/-- cmd/root.go:84-87: the value handed to `rand.Seed`; `none` = nanoseconds of the clock -/
def seedOf (seed : Int) : Option Int := if seed == -1 then none else some seed

/-- cmd/comparetrees.go:67-70 -/
def clampThreads (t maxcpus : Int) : Int := if t > maxcpus then maxcpus else t

structure Settings where
  fmt : Fmt
  seed : Option Int
  deriving DecidableEq, Repr

/-- state a command body finds after `PersistentPreRun` -/
def preRun (format : String) (seed : Int) : Settings := ⟨formatOf format, seedOf seed⟩

def defaultFormat : String := "newick"
def defaultSeed : Int := -1
def defaultThreads : Int := 1

/-! ### predictions the driver compares with runs of the binary -/

/-- kind of text on the input: the name of the format it is written in -/
def readable (format inputKind : String) : Bool := formatOf format == formatOf inputKind

/-- two runs of a random command give the same output iff the seed is not taken from the clock -/
def reproducible (seed : Int) : Bool := (seedOf seed).isSome

end Gotree.C19.PreRun
