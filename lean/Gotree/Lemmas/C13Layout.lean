/-
  C13 — multi-tree Newick files with a free layout: blank and blank-only lines, blanks before and after
  a tree, a tree wrapped over several lines, a last line without line end.
-/
import Gotree.Lemmas.C13

namespace Gotree.C13
open Gotree

/-- The lines of one item of the file hold the tree `t`: they are single lines, their concatenation is
    `ws₀ ++ write t ++ blanks` (so empty / blank-only lines in front, blanks in front, a tree cut
    anywhere into several lines, blanks behind), and the ';' sits in the last of them. -/
structure ItemOK (C : NewickCodec) (t : T) (lines : List Txt) : Prop where
  oneLine : ∀ l ∈ lines, oneLine l
  shape : ∃ init y bl ws₀ body, lines = init ++ [y ++ ';' :: bl] ∧ C.write t = body ++ [';'] ∧
    init.flatten ++ y = ws₀ ++ body ∧ (∀ c ∈ ws₀, isNewickWs c = true) ∧ (∀ c ∈ bl, isBlank c = true)

theorem chunksGo_init (init : List Txt) (rest : List Txt) (acc : Txt)
    (h : ';' ∉ acc ++ init.flatten) :
    chunksGo (init ++ rest) acc = chunksGo rest (acc ++ init.flatten) ∧
    tailGo (init ++ rest) acc = tailGo rest (acc ++ init.flatten) := by
  induction init generalizing acc with
  | nil => simp
  | cons l r ih =>
    have h1 : ';' ∉ acc ++ l := by
      intro hm; apply h
      simp only [List.flatten_cons, List.mem_append] at hm ⊢
      rcases hm with hm | hm
      · exact Or.inl hm
      · exact Or.inr (Or.inl hm)
    have hns := lastNonBlank_ne_semi (acc ++ l) h1
    simp only [List.cons_append, chunksGo, tailGo, hns, Bool.false_eq_true, if_false, List.flatten_cons]
    have := ih (acc ++ l) (by simpa [List.append_assoc] using h)
    simpa [List.append_assoc] using this

/-- the chunks of a file made of items -/
theorem chunks_items (C : NewickCodec) (L : NewickLaws C) (items : List (T × List Txt))
    (hw : ∀ it ∈ items, L.wf it.1 = true) (hi : ∀ it ∈ items, ItemOK C it.1 it.2) :
    ∃ cs, chunksGo (items.flatMap (·.2)) [] = cs ∧ tailGo (items.flatMap (·.2)) [] = [] ∧
      cs.length = items.length ∧
      ∀ (i : Nat) (hi' : i < items.length) (hc : i < cs.length),
        ∃ ws₀ body bl, C.write (items[i]).1 = body ++ [';'] ∧ cs[i] = ws₀ ++ body ++ ';' :: bl ∧
          (∀ c ∈ ws₀, isNewickWs c = true) ∧ (∀ c ∈ bl, isBlank c = true) := by
  induction items with
  | nil => exact ⟨[], rfl, rfl, rfl, fun i hi' => absurd hi' (by simp)⟩
  | cons it r ih =>
    obtain ⟨cs, h1, h2, h3, h4⟩ := ih (fun x hx => hw x (by simp [hx])) (fun x hx => hi x (by simp [hx]))
    obtain ⟨init, y, bl, ws₀, body, hl, hb, hcat, hws, hbl⟩ := (hi it (by simp)).shape
    obtain ⟨body', hb', hbody⟩ := L.write_shape it.1 (hw it (by simp))
    have hbe : body' = body := by
      have := hb'.symm.trans hb
      exact List.append_cancel_right this
    subst hbe
    have hnosemi : ';' ∉ ([] : Txt) ++ init.flatten := by
      intro hm
      have : ';' ∈ ws₀ ++ body' := by rw [← hcat]; simp at hm ⊢; exact Or.inl hm
      rcases List.mem_append.1 this with h | h
      · have := hws ';' h; simp [isNewickWs] at this
      · exact (hbody ';' h).2.2.1 rfl
    have hchunk : ([] : Txt) ++ init.flatten ++ (y ++ ';' :: bl) = ws₀ ++ body' ++ ';' :: bl := by
      simp only [List.nil_append, ← List.append_assoc, hcat]
    have hlnb : lastNonBlank (([] : Txt) ++ init.flatten ++ (y ++ ';' :: bl)) = ';' := by
      rw [hchunk]; exact lastNonBlank_semi _ bl hbl
    have hlnb2 : (lastNonBlank (ws₀ ++ body' ++ ';' :: bl) == ';') = true := by
      rw [lastNonBlank_semi _ bl hbl]; rfl
    have hlnb3 : (lastNonBlank (ws₀ ++ (body' ++ ';' :: bl)) == ';') = true := by
      rw [← List.append_assoc]; exact hlnb2
    obtain ⟨g1, g2⟩ := chunksGo_init init ((y ++ ';' :: bl) :: r.flatMap (·.2)) [] hnosemi
    refine ⟨(ws₀ ++ body' ++ ';' :: bl) :: cs, ?_, ?_, by simp [h3], ?_⟩
    · simp only [List.flatMap_cons, hl, List.append_assoc, List.singleton_append]
      rw [g1]
      simp only [chunksGo, hchunk, List.append_assoc, hlnb3, if_true, h1]
    · simp only [List.flatMap_cons, hl, List.append_assoc, List.singleton_append]
      rw [g2]
      simp only [tailGo, hchunk, List.append_assoc, hlnb3, if_true, h2]
    · intro i hi' hc
      cases i with
      | zero => exact ⟨ws₀, body', bl, hb, rfl, hws, hbl⟩
      | succ j => exact h4 j (by simpa using hi') (by simpa using hc)

theorem parse_chunk (C : NewickCodec) (L : NewickStreamLaws C) (t : T) (hw : L.wf t = true)
    (ws₀ body bl : Txt) (hb : C.write t = body ++ [';']) (hws : ∀ c ∈ ws₀, isNewickWs c = true) :
    C.parse (ws₀ ++ body ++ ';' :: bl) = some (L.norm t) := by
  obtain ⟨body', hb', hbody⟩ := L.write_shape t hw
  have hbe : body' = body := List.append_cancel_right (hb'.symm.trans hb)
  subst hbe
  have hno : ∀ c ∈ ws₀ ++ body', c ≠ ';' ∧ c ≠ '[' := by
    intro c hc
    rcases List.mem_append.1 hc with h | h
    · have := hws c h
      constructor <;> (intro e; subst e; simp [isNewickWs] at this)
    · exact ⟨(hbody c h).2.2.1, (hbody c h).2.2.2⟩
  rw [L.parse_prefix (ws₀ ++ body') bl hno]
  have := L.parse_ws_skip [] ws₀ (body' ++ [';']) (by simp) (by decide) hws
  simp only [List.nil_append] at this
  rw [List.append_assoc, this, ← hb]
  exact L.parse_write t hw

/-- splitting a text whose last line has no line end -/
theorem splitLines_noFinal (ls : List Txt) (l : Txt) (h : ∀ x ∈ ls, oneLine x) (hl : ∀ c ∈ l, c ≠ '\n') (hne : l ≠ []) :
    splitLines (unlines ls ++ l) = ls ++ [l] := by
  induction ls with
  | nil =>
    simp only [unlines, List.nil_append]
    unfold splitLines
    have : ∀ (cur : Txt), splitLinesGo l cur = [(l.reverse ++ cur).reverse] ∨ (l = [] ∧ True) := by
      intro cur
      induction l generalizing cur with
      | nil => exact Or.inr ⟨rfl, trivial⟩
      | cons c r ih =>
        left
        have hc : (c == '\n') = false := by simpa using hl c (by simp)
        simp only [splitLinesGo, hc, Bool.false_eq_true, if_false]
        cases r with
        | nil => simp [splitLinesGo]
        | cons d r' =>
          rcases ih (fun x hx => hl x (by simp [hx])) (by simp) (c :: cur) with h | ⟨h, _⟩
          · rw [h]; simp
          · cases h
    rcases this [] with h | ⟨h, _⟩
    · rw [h]; simp
    · exact absurd h hne
  | cons a r ih =>
    simp only [unlines, List.cons_append, List.append_assoc]
    rw [splitLines_cons a _ (h a (by simp))]
    rw [ih (fun x hx => h x (by simp [hx]))]

end Gotree.C13
