/-
  C12 — ACCTRAN at a leaf: the slice written is `inter (tip slice) (reported slice of the parent)`,
  which for a one-state tip is the tip slice itself.
-/
import Gotree.Lemmas.C12Acr

namespace Gotree.C12
open Gotree

section acctips
variable (k : Nat) (tv : String → Vec)

/-- what ACCTRAN leaves at a leaf -/
def LeafOut (d : NodeD) (vec : Vec) : Prop :=
  ∃ q : Option Vec, (∀ pv, q = some pv → Set01 k pv) ∧
    vec = (match q with | none => tv d.name | some pv => inter k (tv d.name) pv)

theorem acc_leaf_list : ∀ (ks : Kids),
    (∀ et ∈ ks, ∀ (par : Option Vec), (∀ pv, par = some pv → Set01 k pv) →
      (∀ n ∈ et.2.leaves, leaf01 k tv n) →
      ∀ (p : List Nat) (d : NodeD) (pp : Nat) (vec : Vec), sub et.2 p = some (.node d pp []) →
      (acctran k par (upA k tv et.2)).get p = some vec → LeafOut k tv d vec) →
    (∀ n ∈ leavesL ks, leaf01 k tv n) →
    ∀ (par : Option Vec), (∀ pv, par = some pv → Set01 k pv) →
    ∀ (i : Nat) (p : List Nat) (d : NodeD) (pp : Nat) (vec : Vec), subL ks i p = some (.node d pp []) →
    A.getL (acctranL k par (upAL k tv ks)) i p = some vec → LeafOut k tv d vec
  | [], _, _, _, _, _, _, _, _, _, h, _ => by simp [subL] at h
  | (e, c) :: r, ih, hl, par, hpar, 0, p, d, pp, vec, h, hg => by
    simp only [subL] at h
    simp only [upAL, acctranL, A.getL] at hg
    exact ih (e, c) (List.mem_cons_self ..) par hpar
      (fun n hn => hl n (by simp only [leavesL, List.mem_append]; exact Or.inl hn)) p d pp vec h hg
  | (e, c) :: r, ih, hl, par, hpar, i + 1, p, d, pp, vec, h, hg => by
    simp only [subL] at h
    simp only [upAL, acctranL, A.getL] at hg
    exact acc_leaf_list r (fun et het => ih et (List.mem_cons_of_mem _ het))
      (fun n hn => hl n (by simp only [leavesL, List.mem_append]; exact Or.inr hn)) par hpar i p d pp vec h hg

theorem acc_leaf : ∀ (c : T) (par : Option Vec), (∀ pv, par = some pv → Set01 k pv) →
    (∀ n ∈ c.leaves, leaf01 k tv n) →
    ∀ (p : List Nat) (d : NodeD) (pp : Nat) (vec : Vec), sub c p = some (.node d pp []) →
    (acctran k par (upA k tv c)).get p = some vec → LeafOut k tv d vec := by
  intro c
  induction c using T.induct with
  | h d0 p0 ks ih =>
    intro par hpar hl p d pp vec h hg
    match ks, ih, hl, p, h, hg with
    | [], _, _, [], h, hg =>
      simp only [sub, Option.some.injEq, T.node.injEq] at h
      obtain ⟨h1, _, _⟩ := h
      subst h1
      simp only [upA, upAL, upS, acctran, A.get, Option.some.injEq] at hg
      exact ⟨none, (fun _ e => by cases e), hg.symm⟩
    | [], _, _, i :: q, h, _ => simp [sub, subL] at h
    | x :: xs, _, _, [], h, _ => simp [sub] at h
    | x :: xs, ih, hl, i :: q, h, hg =>
      rw [leaves_node_cons] at hl
      simp only [sub] at h
      rw [acctran_upA_cons] at hg
      simp only [A.get] at hg
      have hVU01 : Set01 k (upS k tv (.node d0 p0 (x :: xs))) :=
        fun j hj => upS_le_one k tv _ (by intro n hn; rw [leaves_node_cons] at hn; exact hl n hn) j hj
      refine acc_leaf_list k tv (x :: xs) ih hl _ ?_ i q d pp vec h hg
      intro pv hpv
      simp only [Option.some.injEq] at hpv
      subst hpv
      match par with
      | none => exact hVU01
      | some q' => exact inter_01 k _ _ hVU01

/- since fix a20daad ACCTRAN never rewrites a leaf -/
theorem acctran_leaf_list : ∀ (ks : Kids),
    (∀ et ∈ ks, ∀ (par : Option Vec) (p : List Nat) (d : NodeD) (pp : Nat), sub et.2 p = some (.node d pp []) →
      (acctran k par (upA k tv et.2)).sub p = some (.node (tv d.name) [])) →
    ∀ (par : Option Vec) (i : Nat) (p : List Nat) (d : NodeD) (pp : Nat), subL ks i p = some (.node d pp []) →
    A.subL (acctranL k par (upAL k tv ks)) i p = some (.node (tv d.name) [])
  | [], _, _, _, _, _, _, h => by simp [subL] at h
  | (e, c) :: r, ih, par, 0, p, d, pp, h => by
    simp only [subL] at h
    simp only [upAL, acctranL, A.subL]
    exact ih (e, c) (List.mem_cons_self ..) par p d pp h
  | (e, c) :: r, ih, par, i + 1, p, d, pp, h => by
    simp only [subL] at h
    simp only [upAL, acctranL, A.subL]
    exact acctran_leaf_list r (fun et het => ih et (List.mem_cons_of_mem _ het)) par i p d pp h

theorem acctran_leaf_sub : ∀ (c : T) (par : Option Vec) (p : List Nat) (d : NodeD) (pp : Nat),
    sub c p = some (.node d pp []) → (acctran k par (upA k tv c)).sub p = some (.node (tv d.name) []) := by
  intro c
  induction c using T.induct with
  | h d0 p0 ks ih =>
    intro par p d pp h
    match ks, ih, p, h with
    | [], _, [], h =>
      simp only [sub, Option.some.injEq, T.node.injEq] at h
      obtain ⟨h1, _, _⟩ := h
      subst h1
      rw [acctran_upA_leaf]; simp [A.sub]
    | [], _, i :: q, h => simp [sub, subL] at h
    | x :: xs, _, [], h => simp [sub] at h
    | x :: xs, ih, i :: q, h =>
      simp only [sub] at h
      rw [acctran_upA_cons]
      simp only [A.sub]
      exact acctran_leaf_list k tv (x :: xs) ih _ i q d pp h

/-- a one-state tip is not altered by the intersection step -/
theorem inter_single_tip (s pv : Vec) (x : Nat) (hx : IsSingle k s x) (hs01 : Set01 k s) (hpv : Set01 k pv)
    (i : Nat) (hi : i < k) : (inter k s pv).at i ≠ 0 ↔ s.at i ≠ 0 := by
  rcases inter_cases k s pv with ⟨⟨i0, hi0, hgt0⟩, heq⟩ | ⟨_, heq⟩
  · rw [heq, at_tab]
    simp only [hi, if_true, at_vadd]
    have hi0x : i0 = x := by
      apply (hx.2 i0 hi0).mp
      have := hpv i0 hi0; omega
    subst hi0x
    have h1 := hs01 i hi
    have h2 := hpv i hi
    have h3 := hs01 i0 hi0
    have h4 := hpv i0 hi0
    by_cases hii : i = i0
    · subst hii
      have : s.at i ≠ 0 := by omega
      simp [this]; omega
    · have : s.at i = 0 := by
        by_cases h0 : s.at i = 0
        · exact h0
        · exact absurd ((hx.2 i hi).mp h0) hii
      simp [this]; omega
  · rw [heq]

end acctips

end Gotree.C12
