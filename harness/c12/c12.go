// Package c12: parsimony reconstruction (acr, asr) is optimal.
package c12

import (
	"bytes"
	"compress/gzip"
	"fmt"
	"math/rand"
	"os"
	"sort"
	"strings"
	"time"

	"verifharness/core"

	"github.com/evolbioinfo/goalign/align"
	"github.com/evolbioinfo/gotree/acr"
	"github.com/evolbioinfo/gotree/asr"
	"github.com/evolbioinfo/gotree/io/newick"
	"github.com/evolbioinfo/gotree/tree"
)

var algoNames = []string{"deltran", "acctran", "downpass", "none"}

// priorAlgo >= 0: the next doAcr / doAsr first runs that algorithm on the SAME tree object (a two-step history; the
// result of the second run must not depend on the first).  Written in the algo field as "algo~prior".
var priorAlgo = -1

func algoField(algo int) string {
	if priorAlgo >= 0 {
		return algoNames[algo] + "~" + algoNames[priorAlgo]
	}
	return algoNames[algo]
}

func algoIndex(s string) int {
	priorAlgo = -1
	if i := strings.IndexByte(s, '~'); i >= 0 {
		p := algoIndex(s[i+1:])
		s = s[:i]
		priorAlgo = p
	}
	for i, a := range algoNames {
		if a == s {
			return i
		}
	}
	return -1
}

// ---- harness-side re-rooting (does not use the code under test) ----

func zeroPPos(n *core.N) {
	n.PPos = 0
	for _, k := range n.Kids {
		zeroPPos(k)
	}
}

// rerootAt returns a copy of the tree re-rooted at the node reached by path (an inner node).
func rerootAt(root *core.N, path []int) *core.N {
	r := root.Clone()
	zeroPPos(r)
	for _, i := range path {
		child := r.Kids[i]
		r.Kids = append(append([]*core.N(nil), r.Kids[:i]...), r.Kids[i+1:]...)
		r.E = child.E
		child.E = nil
		child.Kids = append(child.Kids, r)
		r = child
	}
	return r
}

// rootOnBranch returns a copy of the tree rooted on the branch above the node reached by path (any non-root node):
// a new node with one child is inserted there and becomes the root (two children).
func rootOnBranch(root *core.N, path []int) *core.N {
	r := root.Clone()
	zeroPPos(r)
	parent := r.At(path[:len(path)-1])
	i := path[len(path)-1]
	child := parent.Kids[i]
	mid := &core.N{E: child.E, Kids: []*core.N{child}}
	child.E = core.NewE()
	parent.Kids[i] = mid
	return rerootAt(r, path)
}

// branchChoice: the branch above the last node in pre-order (deterministic, so that a replay is exact).
func branchChoice(root *core.N) []int {
	if len(root.Kids) < 2 {
		return nil
	}
	ps := root.Paths()
	return ps[len(ps)-1]
}

// innerPaths lists the paths of the non-root nodes that have children, pre-order.
func innerPaths(root *core.N) [][]int {
	var out [][]int
	for _, p := range root.Paths() {
		if len(p) == 0 {
			continue
		}
		if x := root.At(p); x != nil && len(x.Kids) > 0 {
			out = append(out, p)
		}
	}
	return out
}

// rerootChoices: up to three inner nodes, chosen deterministically (so that a replay is exact).
func rerootChoices(root *core.N) [][]int {
	if len(root.Kids) < 2 {
		return nil
	}
	ps := innerPaths(root)
	if len(ps) <= 3 {
		return ps
	}
	return [][]int{ps[0], ps[len(ps)/2], ps[len(ps)-1]}
}

// ---- ACR ----

func sortedMap(m map[string]string) (keys, vals []string) {
	for k := range m {
		keys = append(keys, k)
	}
	sort.Strings(keys)
	for _, k := range keys {
		vals = append(vals, m[k])
	}
	return
}

func toMap(keys, vals []string) map[string]string {
	m := map[string]string{}
	for i := range keys {
		if i < len(vals) {
			m[keys[i]] = vals[i]
		}
	}
	return m
}

func copyMap(m map[string]string) map[string]string {
	c := map[string]string{}
	for k, v := range m {
		c[k] = v
	}
	return c
}

func doAcr(c *core.Ctx, n *core.N, tips map[string]string, algo int) {
	keys, vals := sortedMap(tips)
	in := []string{n.Dump(), core.StrList(keys), core.StrList(vals), algoField(algo)}
	prior := priorAlgo
	priorAlgo = -1
	t, err := core.Build(n)
	if err != nil {
		panic(err)
	}
	if prior >= 0 {
		core.Safe(func() { acr.ParsimonyAcr(t, copyMap(tips), prior, false) })
	}
	var statemap map[string]string
	var nsteps int
	var rerr error
	if p, msg := core.Safe(func() { statemap, nsteps, rerr = acr.ParsimonyAcr(t, copyMap(tips), algo, false) }); p {
		c.Emit("C12.acr", append(in, "panic:"+core.Escape(msg), "", "", "", "", "", "")...)
		return
	}
	if rerr != nil {
		c.Emit("C12.acr", append(in, "err", "", "", "", "", "", "")...)
		return
	}
	after, wf := core.Alpha(t)
	if !wf.OK() {
		c.Emit("C12.acr", append(in, "panic:malformed-"+core.Escape(strings.Join(wf.Problems, ";")), "", "", "", "", "", "")...)
		return
	}
	mk, mv := sortedMap(statemap)
	// the same character on re-rooted copies
	var rr []int
	var rrp strings.Builder
	for _, p := range rerootChoices(n) {
		rrp.WriteString(core.IntList(p))
		rrp.WriteByte(';')
		t2, err := core.Build(rerootAt(n, p))
		if err != nil {
			panic(err)
		}
		s2 := -1
		if p, _ := core.Safe(func() {
			var e2 error
			_, s2, e2 = acr.ParsimonyAcr(t2, copyMap(tips), algo, false)
			if e2 != nil {
				s2 = -1
			}
		}); p {
			s2 = -2
		}
		rr = append(rr, s2)
	}
	if bp := branchChoice(n); len(bp) > 0 {
		t2, err := core.Build(rootOnBranch(n, bp))
		if err != nil {
			panic(err)
		}
		s2 := -1
		if p, _ := core.Safe(func() {
			var e2 error
			_, s2, e2 = acr.ParsimonyAcr(t2, copyMap(tips), algo, false)
			if e2 != nil {
				s2 = -1
			}
		}); p {
			s2 = -2
		}
		rr = append(rr, s2)
		rrp.WriteString(core.IntList(append(append([]int(nil), bp...), 999999)))
		rrp.WriteByte(';')
	}
	c.Emit("C12.acr", append(in, "ok", fmt.Sprint(nsteps), after.Dump(), core.StrList(mk), core.StrList(mv), core.IntList(rr), rrp.String())...)
}

var statePool = []string{"A", "B", "C", "D", "E", "F", "s10", "s9", "Z", "a"}

func treeOpts(g *core.G) core.TreeOpts {
	o := core.DefaultOpts()
	o.Lengths = 2
	o.Supports = 0
	o.InnerNames = 0.25
	o.Multif = 0.35
	o.MaxDeg = 6
	if g.Chance(0.15) {
		o.Singles = 0.15
	}
	if g.Chance(0.15) { // nodes / branches that already bear comments (ACR replaces them, ASR appends)
		o.Comments = 0.3
	}
	if g.Chance(0.1) {
		o.MaxTips = 30
	}
	if bigTrees && g.Chance(0.04) { // thorough tier: deep recursions
		o.MaxTips = 90
	}
	return o
}

// bigTrees is switched on by Run in the thorough tier.
var bigTrees = false

// drawTree draws a tree; rarely one whose root has a single neighbour (a "tip" for Go).
func drawTree(c *core.Ctx, o core.TreeOpts) *core.N {
	n, _ := c.G.Tree(o)
	if c.G.Chance(0.03) {
		e := core.NewE()
		e.Len = 1
		n.E = e
		n = &core.N{Name: "", Kids: []*core.N{n}}
		if c.G.Chance(0.5) {
			n.Name = "rt"
		}
	}
	return n
}

// assign draws one state per tip: independent, or copied along the tip order (clustered).
func assign(g *core.G, tips []string, states []string) map[string]string {
	m := map[string]string{}
	clustered := g.Chance(0.5)
	prev := states[g.Intn(len(states))]
	for _, t := range tips {
		if !clustered || g.Chance(0.4) {
			prev = states[g.Intn(len(states))]
		}
		m[t] = prev
	}
	return m
}

func acrCase(c *core.Ctx) {
	g := c.G
	n := drawTree(c, treeOpts(g))
	k := 1 + g.Intn(6)
	if g.Chance(0.1) {
		k = 1 + g.Intn(len(statePool))
	}
	perm := g.R.Perm(len(statePool))
	states := make([]string, k)
	for i := range states {
		states[i] = statePool[perm[i]]
	}
	tips := assign(g, n.TipNames(), states)
	if g.Chance(0.15) { // entries for names that are not in the tree, possibly with further states
		for i := 0; i < 1+g.Intn(3); i++ {
			tips[fmt.Sprintf("x%d", i)] = statePool[g.Intn(len(statePool))]
		}
	}
	if g.Chance(0.04) { // a tip without state
		tn := n.TipNames()
		delete(tips, tn[g.Intn(len(tn))])
	}
	algo := g.Intn(3)
	if g.Chance(0.05) {
		algo = 3
	}
	if g.Chance(0.06) { // look-alike inner names: duplicates, names that look like the numeric keys of unnamed nodes, a tip's name
		i := 0
		var rec func(x *core.N)
		rec = func(x *core.N) {
			i++
			if len(x.Kids) > 0 {
				switch g.Intn(4) {
				case 0:
					x.Name = "dup"
				case 1:
					x.Name = fmt.Sprint(g.Intn(n.NNodes()))
				case 2:
					x.Name = "t0"
				}
			}
			for _, k := range x.Kids {
				rec(k)
			}
		}
		rec(n)
	}
	if g.Chance(0.12) {
		priorAlgo = g.Intn(4)
	}
	doAcr(c, n, tips, algo)
}

// ---- ACR with random resolution ----

// stream returns the first n Int31() values of a source seeded like rand.Seed(seed).
func stream(seed int64, n int) []int {
	r := rand.New(rand.NewSource(seed))
	out := make([]int, n)
	for i := range out {
		out[i] = int(r.Int31())
	}
	return out
}

func doAcrR(c *core.Ctx, n *core.N, tips map[string]string, algo int, seed int64) {
	keys, vals := sortedMap(tips)
	in := []string{n.Dump(), core.StrList(keys), core.StrList(vals), algoNames[algo], fmt.Sprint(seed)}
	t, err := core.Build(n)
	if err != nil {
		panic(err)
	}
	var nsteps int
	var rerr error
	var next int32
	if p, msg := core.Safe(func() {
		rand.Seed(seed)
		_, nsteps, rerr = acr.ParsimonyAcr(t, copyMap(tips), algo, true)
		next = rand.Int31()
	}); p {
		c.Emit("C12.acrr", append(in, "panic:"+core.Escape(msg), "", "", "", "")...)
		return
	}
	if rerr != nil {
		c.Emit("C12.acrr", append(in, "err", "", "", "", "")...)
		return
	}
	after, wf := core.Alpha(t)
	if !wf.OK() {
		c.Emit("C12.acrr", append(in, "panic:malformed", "", "", "", "")...)
		return
	}
	c.Emit("C12.acrr", append(in, "ok", fmt.Sprint(nsteps), after.Dump(), fmt.Sprint(next),
		core.IntList(stream(seed, n.NNodes()+8)))...)
}

func acrRCase(c *core.Ctx) {
	g := c.G
	n := drawTree(c, treeOpts(g))
	k := 2 + g.Intn(4)
	perm := g.R.Perm(len(statePool))
	states := make([]string, k)
	for i := range states {
		states[i] = statePool[perm[i]]
	}
	tips := assign(g, n.TipNames(), states)
	doAcrR(c, n, tips, g.Intn(3), int64(g.Intn(1<<30)))
}

func doAsrR(c *core.Ctx, n *core.N, names, seqs []string, algo int, seed int64) {
	in := []string{n.Dump(), core.StrList(names), core.StrList(seqs), algoNames[algo], fmt.Sprint(seed)}
	fail := func(o string) { c.Emit("C12.asrr", append(in, o, "", "", "", "")...) }
	t, err := core.Build(n)
	if err != nil {
		panic(err)
	}
	a, err := mkAlign(names, seqs, false)
	if err != nil {
		fail("err")
		return
	}
	var nsteps []int
	var rerr error
	var next int32
	if p, msg := core.Safe(func() {
		rand.Seed(seed)
		nsteps, rerr = asr.ParsimonyAsr(t, a, algo, true)
		next = rand.Int31()
	}); p {
		fail("panic:" + core.Escape(msg))
		return
	}
	if rerr != nil {
		fail("err")
		return
	}
	after, wf := core.Alpha(t)
	if !wf.OK() {
		fail("panic:malformed")
		return
	}
	L := 0
	if len(seqs) > 0 {
		L = len(seqs[0])
	}
	c.Emit("C12.asrr", append(in, "ok", core.IntList(nsteps), after.Dump(), fmt.Sprint(next),
		core.IntList(stream(seed, n.NNodes()*L+8)))...)
}

func nucSeqs(g *core.G, nseq int) []string {
	L := 1 + g.Intn(4)
	amb := g.Chance(0.4)
	seqs := make([]string, nseq)
	for i := range seqs {
		b := make([]byte, L)
		for j := range b {
			b[j] = plainChars[g.Intn(1+g.Intn(4))]
			if g.Chance(0.08) {
				b[j] = '-'
			}
			if amb && g.Chance(0.2) {
				b[j] = iupacChars[g.Intn(len(iupacChars))]
			}
		}
		seqs[i] = string(b)
	}
	return seqs
}

func asrRCase(c *core.Ctx) {
	g := c.G
	o := treeOpts(g)
	if o.MaxTips > 16 {
		o.MaxTips = 16
	}
	n := drawTree(c, o)
	names := n.TipNames()
	sort.Strings(names)
	doAsrR(c, n, names, nucSeqs(g, len(names)), g.Intn(3), int64(g.Intn(1<<30)))
}

// the same through the binary: --random-resolve --seed S
func cliAcrR(c *core.Ctx, n *core.N, tips map[string]string, algo int, seed int64) {
	keys, vals := sortedMap(tips)
	in := []string{n.Dump(), core.StrList(keys), core.StrList(vals), algoNames[algo], fmt.Sprint(seed)}
	fail := func(o string) { c.Emit("C12.acrrcli", append(in, o, "", "", "", "")...) }
	t, err := core.Build(n)
	if err != nil {
		panic(err)
	}
	var sb strings.Builder
	for i, k := range keys {
		sb.WriteString(k + "\t" + vals[i] + "\n")
	}
	treef, statef, outt, outs := c.TmpFile(t.Newick()+"\n"), c.TmpFile(sb.String()), c.TmpFile(""), c.TmpFile("")
	defer func() {
		for _, f := range []string{treef, statef, outt, outs} {
			os.Remove(f)
		}
	}()
	r := c.RunCLI("", 30*time.Second, "acr", "-i", treef, "--states", statef, "--algo", algoNames[algo],
		"-o", outt, "--out-steps", outs, "--random-resolve", "--seed", fmt.Sprint(seed))
	steps := strings.TrimSpace(strings.TrimPrefix(strings.TrimSpace(readFile(outs)), "steps"))
	dump, ok := parseOutTree(readFile(outt))
	if r.Timeout || r.Exit != 0 || steps == "" || !ok {
		fail("err")
		return
	}
	c.Emit("C12.acrrcli", append(in, "ok", steps, dump, "", core.IntList(stream(seed, n.NNodes()+8)))...)
}

func cliAsrR(c *core.Ctx, n *core.N, names, seqs []string, algo int, seed int64) {
	in := []string{n.Dump(), core.StrList(names), core.StrList(seqs), algoNames[algo], fmt.Sprint(seed)}
	fail := func(o string) { c.Emit("C12.asrrcli", append(in, o, "", "", "", "")...) }
	t, err := core.Build(n)
	if err != nil {
		panic(err)
	}
	var sb strings.Builder
	for i, nm := range names {
		fmt.Fprintf(&sb, ">%s\n%s\n", nm, seqs[i])
	}
	treef, alnf, outt, outl := c.TmpFile(t.Newick()+"\n"), c.TmpFile(sb.String()), c.TmpFile(""), c.TmpFile("")
	defer func() {
		for _, f := range []string{treef, alnf, outt, outl} {
			os.Remove(f)
		}
	}()
	r := c.RunCLI("", 30*time.Second, "asr", "-i", treef, "-a", alnf, "--algo", algoNames[algo],
		"-o", outt, "--log", outl, "--random-resolve", "--seed", fmt.Sprint(seed))
	logl := strings.TrimSpace(readFile(outl))
	dump, ok := parseOutTree(readFile(outt))
	if r.Timeout || r.Exit != 0 || !strings.HasPrefix(logl, "steps") || !ok {
		fail("err")
		return
	}
	var steps strings.Builder
	for _, x := range strings.Fields(strings.TrimPrefix(logl, "steps")) {
		steps.WriteString(x + ",")
	}
	L := 0
	if len(seqs) > 0 {
		L = len(seqs[0])
	}
	c.Emit("C12.asrrcli", append(in, "ok", steps.String(), dump, "", core.IntList(stream(seed, n.NNodes()*L+8)))...)
}

func cliRCase(c *core.Ctx, i int) {
	g := c.G
	o := treeOpts(g)
	o.Singles = 0
	o.MinTips, o.MaxTips = 5, 14
	n, _ := g.Tree(o)
	seed := int64(g.Intn(1 << 30))
	if i%2 == 0 {
		k := 2 + g.Intn(3)
		perm := g.R.Perm(len(statePool))
		states := make([]string, k)
		for j := range states {
			states[j] = statePool[perm[j]]
		}
		cliAcrR(c, n, assign(g, n.TipNames(), states), g.Intn(3), seed)
		return
	}
	names := n.TipNames()
	sort.Strings(names)
	cliAsrR(c, n, names, nucSeqs(g, len(names)), g.Intn(3), seed)
}

// ---- ASR ----

const plainChars = "ACGT"
const iupacChars = "RYSWKMBDHVN"

func columnMap(names, seqs []string, j int) map[string]string {
	m := map[string]string{}
	for i, nm := range names {
		m[nm] = string(seqs[i][j])
	}
	return m
}

const aaChars = "ARNDCQEGHILKMFPSTWYV"

func isPlain(seqs []string, prot bool) bool {
	ok := "ACGT-"
	if prot {
		ok = aaChars + "-*"
	}
	for _, s := range seqs {
		for i := 0; i < len(s); i++ {
			if !strings.ContainsRune(ok, rune(s[i])) {
				return false
			}
		}
	}
	return true
}

func mkAlign(names, seqs []string, prot bool) (align.Alignment, error) {
	a := align.NewAlign(align.NUCLEOTIDS)
	if prot {
		a = align.NewAlign(align.AMINOACIDS)
	}
	for i, nm := range names {
		if err := a.AddSequence(nm, seqs[i], ""); err != nil {
			return nil, err
		}
	}
	return a, nil
}

func nodeComments(n *core.N, out *[]string) {
	cm := ""
	if len(n.Comments) > 0 {
		cm = n.Comments[len(n.Comments)-1]
	}
	*out = append(*out, cm)
	for _, k := range n.Kids {
		nodeComments(k, out)
	}
}

func doAsr(c *core.Ctx, n *core.N, names, seqs []string, algo int, prot bool) {
	in := []string{n.Dump(), core.StrList(names), core.StrList(seqs), algoField(algo)}
	prior := priorAlgo
	priorAlgo = -1
	op := "C12.asr"
	if prot {
		op = "C12.asrp"
	}
	fail := func(outcome string) {
		c.Emit(op, append(in, outcome, "", "", "", "")...)
	}
	t, err := core.Build(n)
	if err != nil {
		panic(err)
	}
	a, err := mkAlign(names, seqs, prot)
	if err != nil {
		fail("err")
		return
	}
	if prior >= 0 && prior < 3 {
		if a0, e0 := mkAlign(names, seqs, prot); e0 == nil {
			core.Safe(func() { asr.ParsimonyAsr(t, a0, prior, false) })
		}
	}
	var nsteps []int
	var rerr error
	if p, msg := core.Safe(func() { nsteps, rerr = asr.ParsimonyAsr(t, a, algo, false) }); p {
		fail("panic:" + core.Escape(msg))
		return
	}
	if rerr != nil {
		fail("err")
		return
	}
	after, wf := core.Alpha(t)
	if !wf.OK() {
		fail("panic:malformed")
		return
	}
	var rr strings.Builder
	var rrTrees []*core.N
	for _, p := range rerootChoices(n) {
		rrTrees = append(rrTrees, rerootAt(n, p))
	}
	if bp := branchChoice(n); len(bp) > 0 {
		rrTrees = append(rrTrees, rootOnBranch(n, bp))
	}
	for _, n2 := range rrTrees {
		t2, err := core.Build(n2)
		if err != nil {
			panic(err)
		}
		var s2 []int
		a2, _ := mkAlign(names, seqs, prot)
		core.Safe(func() {
			var e2 error
			s2, e2 = asr.ParsimonyAsr(t2, a2, algo, false)
			if e2 != nil {
				s2 = nil
			}
		})
		rr.WriteString(core.IntList(s2))
		rr.WriteByte(';')
	}
	// site by site: the single-character implementation on every column
	var cols [][]string
	if isPlain(seqs, prot) && len(seqs) > 0 {
		for j := 0; j < len(seqs[0]); j++ {
			t3, err := core.Build(n)
			if err != nil {
				panic(err)
			}
			var st int
			var e3 error
			if p, _ := core.Safe(func() { _, st, e3 = acr.ParsimonyAcr(t3, columnMap(names, seqs, j), algo, false) }); p || e3 != nil {
				cols = append(cols, []string{"-1"})
				continue
			}
			a3, _ := core.Alpha(t3)
			col := []string{fmt.Sprint(st)}
			nodeComments(a3, &col)
			cols = append(cols, col)
		}
	}
	c.Emit(op, append(in, "ok", core.IntList(nsteps), after.Dump(), rr.String(), core.StrLists(cols))...)
}

func asrCase(c *core.Ctx) {
	g := c.G
	o := treeOpts(g)
	if o.MaxTips > 16 {
		o.MaxTips = 16
	}
	if g.Chance(0.2) {
		o.Comments = 0.2
	}
	if g.Chance(0.3) { // polytomies of high degree
		o.Multif = 0.8
		o.MaxDeg = 7
	}
	n := drawTree(c, o)
	names := n.TipNames()
	sort.Strings(names)
	if g.Chance(0.25) {
		protCase(c, n, names)
		return
	}
	L := 1 + g.Intn(5)
	mode := g.Intn(4) // 0 plain, 1 plain with gaps, 2-3 IUPAC
	if mode == 3 {
		mode = 2
	}
	seqs := make([]string, len(names))
	cols := make([][]byte, L)
	for j := 0; j < L; j++ {
		col := make([]byte, len(names))
		nst := 1 + g.Intn(4)
		prev := plainChars[g.Intn(nst)]
		clustered := g.Chance(0.5)
		for i := range col {
			if !clustered || g.Chance(0.4) {
				prev = plainChars[g.Intn(nst)]
			}
			col[i] = prev
			if mode >= 1 && g.Chance(0.12) {
				col[i] = '-'
			}
			if mode == 2 && g.Chance(0.25) {
				col[i] = iupacChars[g.Intn(len(iupacChars))]
			}
		}
		cols[j] = col
	}
	for i := range names {
		b := make([]byte, L)
		for j := 0; j < L; j++ {
			b[j] = cols[j][i]
		}
		seqs[i] = string(b)
	}
	if g.Chance(0.05) { // known finding F59: characters goalign accepts but align.IupacCode does not know
		const odd = "acgtn?XU."
		for i := range seqs {
			b := []byte(seqs[i])
			for j := range b {
				if g.Chance(0.15) {
					b[j] = odd[g.Intn(len(odd))]
				}
			}
			seqs[i] = string(b)
		}
	}
	if g.Chance(0.04) && len(names) > 0 {
		i := g.Intn(len(names))
		names = append(names[:i:i], names[i+1:]...)
		seqs = append(seqs[:i:i], seqs[i+1:]...)
	}
	algo := g.Intn(3)
	if c.G.Chance(0.12) {
		priorAlgo = c.G.Intn(3)
	}
	doAsr(c, n, names, seqs, algo, false)
}

// protSeqs draws a protein alignment: few amino acids per column, clustered, with gaps,
// stop codons and (mode 2) the "any amino acid" code X.
func protSeqs(g *core.G, nseq int, detectable bool) []string {
	L := 1 + g.Intn(4)
	mode := g.Intn(3)
	cols := make([][]byte, L)
	for j := range cols {
		pool := aaChars
		if j == 0 && detectable {
			pool = "QEILFP" // letters that make goalign's reader choose the amino-acid alphabet
		}
		nst := 1 + g.Intn(5)
		st := make([]byte, nst)
		for i := range st {
			st[i] = pool[g.Intn(len(pool))]
		}
		if mode == 2 && g.Chance(0.4) && !(j == 0 && detectable) { // the gap (or the stop) as a regular state of the column, next to X tips
			st[g.Intn(nst)] = "-*"[g.Intn(2)]
			if g.Chance(0.5) {
				st[g.Intn(nst)] = '-'
			}
		}
		col := make([]byte, nseq)
		prev := st[g.Intn(nst)]
		clustered := g.Chance(0.5)
		for i := range col {
			if !clustered || g.Chance(0.4) {
				prev = st[g.Intn(nst)]
			}
			col[i] = prev
			if mode >= 1 && g.Chance(0.1) {
				col[i] = '-'
			}
			if mode >= 1 && g.Chance(0.03) {
				col[i] = '*'
			}
			if mode == 2 && g.Chance(0.2) {
				col[i] = 'X'
			}
		}
		cols[j] = col
	}
	seqs := make([]string, nseq)
	for i := range seqs {
		b := make([]byte, L)
		for j := range b {
			b[j] = cols[j][i]
		}
		seqs[i] = string(b)
	}
	return seqs
}

func protCase(c *core.Ctx, n *core.N, names []string) {
	seqs := protSeqs(c.G, len(names), false)
	doAsr(c, n, names, seqs, c.G.Intn(3), true)
}

// ---- CLI tier: the gotree binary built from the working tree ----

func readFile(p string) string {
	b, err := os.ReadFile(p)
	if err != nil {
		return ""
	}
	return string(b)
}

// parseOutTree reads the Newick the binary wrote and returns its dump.
func parseOutTree(s string) (string, bool) {
	t, err := newick.NewParser(strings.NewReader(s)).Parse()
	if err != nil {
		return "", false
	}
	a, wf := core.Alpha(t)
	if !wf.OK() {
		return "", false
	}
	return a.Dump(), true
}

func cliAcr(c *core.Ctx, n *core.N, tips map[string]string, algo int) {
	keys, vals := sortedMap(tips)
	in := []string{n.Dump(), core.StrList(keys), core.StrList(vals), algoNames[algo]}
	fail := func(outcome string) { c.Emit("C12.acrcli", append(in, outcome, "", "", "", "", "", "")...) }
	t, err := core.Build(n)
	if err != nil {
		panic(err)
	}
	var sb strings.Builder
	for i, k := range keys {
		sep := "\t"
		if i%2 == 1 {
			sep = ","
		}
		sb.WriteString(k + sep + vals[i] + "\n")
	}
	treef := c.TmpFile(t.Newick() + "\n")
	statef := c.TmpFile(sb.String())
	outt, outs, outr := c.TmpFile(""), c.TmpFile(""), c.TmpFile("")
	r := c.RunCLI("", 30*time.Second, "acr", "-i", treef, "--states", statef, "--algo", algoNames[algo],
		"-o", outt, "--out-steps", outs, "--out-states", outr)
	defer func() {
		for _, f := range []string{treef, statef, outt, outs, outr} {
			os.Remove(f)
		}
	}()
	if r.Timeout {
		fail("panic:timeout")
		return
	}
	steps := strings.TrimSpace(strings.TrimPrefix(strings.TrimSpace(readFile(outs)), "steps"))
	if r.Exit != 0 || steps == "" {
		if strings.Contains(r.Stderr, "panic") || strings.Contains(r.Stderr, "goroutine") {
			fail("panic:" + core.Escape(r.Stderr[:min(len(r.Stderr), 200)]))
		} else {
			fail("err")
		}
		return
	}
	dump, ok := parseOutTree(readFile(outt))
	if !ok {
		fail("panic:unreadable-output-tree")
		return
	}
	var mk, mv []string
	for _, l := range strings.Split(strings.TrimRight(readFile(outr), "\n"), "\n") {
		if l == "" {
			continue
		}
		i := strings.Index(l, ",")
		if i < 0 {
			fail("panic:bad-states-line")
			return
		}
		mk = append(mk, l[:i])
		mv = append(mv, l[i+1:])
	}
	c.Emit("C12.acrcli", append(in, "ok", steps, dump, core.StrList(mk), core.StrList(mv), "", "")...)
}

func cliAsr(c *core.Ctx, n *core.N, names, seqs []string, algo int, phylip bool, prot bool) {
	in := []string{n.Dump(), core.StrList(names), core.StrList(seqs), algoNames[algo]}
	op := "C12.asrcli"
	if prot {
		op = "C12.asrpcli"
	}
	fail := func(outcome string) { c.Emit(op, append(in, outcome, "", "", "", "")...) }
	t, err := core.Build(n)
	if err != nil {
		panic(err)
	}
	var sb strings.Builder
	if phylip {
		L := 0
		if len(seqs) > 0 {
			L = len(seqs[0])
		}
		fmt.Fprintf(&sb, " %d %d\n", len(names), L)
		for i, nm := range names {
			fmt.Fprintf(&sb, "%s  %s\n", nm, seqs[i])
		}
	} else {
		for i, nm := range names {
			fmt.Fprintf(&sb, ">%s\n%s\n", nm, seqs[i])
		}
	}
	treef := c.TmpFile(t.Newick() + "\n")
	alnf := c.TmpFile(sb.String())
	outt, outl := c.TmpFile(""), c.TmpFile("")
	args := []string{"asr", "-i", treef, "-a", alnf, "--algo", algoNames[algo], "-o", outt, "--log", outl}
	if phylip {
		args = append(args, "-p")
	}
	r := c.RunCLI("", 30*time.Second, args...)
	defer func() {
		for _, f := range []string{treef, alnf, outt, outl} {
			os.Remove(f)
		}
	}()
	if r.Timeout {
		fail("panic:timeout")
		return
	}
	logl := strings.TrimSpace(readFile(outl))
	if r.Exit != 0 || !strings.HasPrefix(logl, "steps") {
		if strings.Contains(r.Stderr, "panic") || strings.Contains(r.Stderr, "goroutine") {
			fail("panic:" + core.Escape(r.Stderr[:min(len(r.Stderr), 200)]))
		} else {
			fail("err")
		}
		return
	}
	var steps strings.Builder
	for _, x := range strings.Fields(strings.TrimPrefix(logl, "steps")) {
		steps.WriteString(x + ",")
	}
	dump, ok := parseOutTree(readFile(outt))
	if !ok {
		fail("panic:unreadable-output-tree")
		return
	}
	c.Emit(op, append(in, "ok", steps.String(), dump, "", "")...)
}

func cliCase(c *core.Ctx, i int) {
	g := c.G
	o := treeOpts(g)
	o.Singles = 0
	o.MinTips = 5
	o.MaxTips = 14
	n, _ := g.Tree(o)
	if i%2 == 0 {
		k := 2 + g.Intn(3)
		perm := g.R.Perm(len(statePool))
		states := make([]string, k)
		for j := range states {
			states[j] = statePool[perm[j]]
		}
		tips := assign(g, n.TipNames(), states)
		if g.Chance(0.05) {
			tn := n.TipNames()
			delete(tips, tn[g.Intn(len(tn))])
		}
		cliAcr(c, n, tips, g.Intn(4))
		return
	}
	names := n.TipNames()
	sort.Strings(names)
	if i%8 == 3 {
		cliAsr(c, n, names, protSeqs(g, len(names), true), g.Intn(3), g.Chance(0.3), true)
		return
	}
	L := 1 + g.Intn(4)
	seqs := make([]string, len(names))
	amb := g.Chance(0.5)
	for i := range names {
		b := make([]byte, L)
		for j := range b {
			b[j] = plainChars[g.Intn(1+g.Intn(4))]
			if g.Chance(0.1) {
				b[j] = '-'
			}
			if amb && g.Chance(0.2) {
				b[j] = iupacChars[g.Intn(len(iupacChars))]
			}
		}
		seqs[i] = string(b)
	}
	cliAsr(c, n, names, seqs, g.Intn(3), g.Chance(0.3), false)
}

// ---- CLI tier, every option of `gotree acr` / `gotree asr` ----

func gz(s string) string {
	var b bytes.Buffer
	w := gzip.NewWriter(&b)
	w.Write([]byte(s))
	w.Close()
	return b.String()
}

func has(opts, o string) bool { return strings.Contains(","+opts+",", ","+o+",") }

// splitOut separates tree lines from the other lines of a stream that may hold both.
func splitOut(s string) (trees, other string) {
	for _, l := range strings.SplitAfter(s, "\n") {
		if l == "" {
			continue
		}
		if strings.HasPrefix(l, "(") {
			trees += l
		} else {
			other += l
		}
	}
	return
}

func dumpsOfNewicks(s string) (string, bool) {
	var b strings.Builder
	for _, l := range strings.Split(strings.TrimRight(s, "\n"), "\n") {
		if l == "" {
			continue
		}
		d, ok := parseOutTree(l)
		if !ok {
			return "", false
		}
		b.WriteString(d)
		b.WriteByte('|')
	}
	return b.String(), true
}

// cliAcrFull runs `gotree acr` with the options named in opts:
//   states-stdin | tree-stdin (at most one), gz, o-file, steps-file, states-out
func cliAcrFull(c *core.Ctx, ns []*core.N, lines []string, algoS, opts string) {
	in := []string{core.Dumps(ns), core.StrList(lines), core.Escape(algoS), opts}
	fail := func(outcome string) { c.Emit("C12.acrfull", append(in, outcome, "", "", "")...) }
	var nw strings.Builder
	for _, n := range ns {
		t, err := core.Build(n)
		if err != nil {
			panic(err)
		}
		nw.WriteString(t.Newick() + "\n")
	}
	statesTxt := strings.Join(lines, "\n")
	if len(lines) > 0 && !has(opts, "no-final-newline") {
		statesTxt += "\n"
	}
	var files []string
	tmp := func(content string) string {
		f := c.TmpFile(content)
		files = append(files, f)
		return f
	}
	defer func() {
		for _, f := range files {
			os.Remove(f)
			os.Remove(f + ".gz")
		}
	}()
	args := []string{"acr"}
	if !has(opts, "algo-default") { // --algo omitted: the flag default applies (the model: cliDefaultAlgo)
		args = append(args, "--algo", algoS)
	}
	stdin := ""
	if has(opts, "states-stdin") {
		stdin = statesTxt // --states omitted: the default is stdin
		if has(opts, "dash") {
			args = append(args, "--states", "-") // the other spelling of stdin
		}
	} else if has(opts, "gz") {
		f := tmp("") + ".gz"
		os.WriteFile(f, []byte(gz(statesTxt)), 0644)
		args = append(args, "--states", f)
	} else {
		args = append(args, "--states", tmp(statesTxt))
	}
	if has(opts, "tree-stdin") && !has(opts, "states-stdin") {
		stdin = nw.String()
		if has(opts, "dash") {
			args = append(args, "-i", "-")
		}
	} else {
		args = append(args, "-i", tmp(nw.String()))
	}
	outt, outs, outr := "", "", ""
	if has(opts, "o-file") {
		outt = tmp("")
		args = append(args, "-o", outt)
	}
	if has(opts, "steps-file") {
		outs = tmp("")
		args = append(args, "--out-steps", outs)
	}
	if has(opts, "states-out") {
		outr = tmp("")
		args = append(args, "--out-states", outr)
	}
	r := c.RunCLI(stdin, 30*time.Second, args...)
	if r.Timeout {
		fail("panic:timeout")
		return
	}
	if strings.Contains(r.Stderr, "panic:") || strings.Contains(r.Stderr, "goroutine ") {
		fail("panic:" + core.Escape(r.Stderr[:min(len(r.Stderr), 200)]))
		return
	}
	if r.Exit != 0 {
		fail("fail")
		return
	}
	treesTxt, stepsTxt := "", ""
	so := r.Stdout
	if outt != "" {
		treesTxt = readFile(outt)
	}
	if outs != "" {
		stepsTxt = readFile(outs)
	}
	t2, s2 := splitOut(so)
	if outt == "" {
		treesTxt = t2
	} else if t2 != "" {
		fail("panic:tree-on-stdout")
		return
	}
	if outs == "" {
		stepsTxt = s2
	} else if s2 != "" {
		fail("panic:steps-on-stdout")
		return
	}
	if r.Exit != 0 {
		fail("fail")
		return
	}
	if treesTxt == "" && stepsTxt == "" {
		fail("silent")
		return
	}
	dumps, ok := dumpsOfNewicks(treesTxt)
	if !ok {
		fail("panic:unreadable-output-tree")
		return
	}
	statesOut := "-"
	if outr != "" {
		statesOut = core.Escape(readFile(outr))
	}
	c.Emit("C12.acrfull", append(in, "ok", core.Escape(stepsTxt), dumps, statesOut)...)
}

var algoSpellings = []string{"acctran", "ACCTRAN", "AccTran", "deltran", "DELTRAN", "DelTran", "downpass", "DownPass", "DOWNPASS", "none", "None", "fitch", "acctrans", ""}

func sameTipTrees(g *core.G, k int) []*core.N {
	o := treeOpts(g)
	o.Singles = 0
	o.MinTips = 4 + g.Intn(8)
	o.MaxTips = o.MinTips
	var ns []*core.N
	for i := 0; i < k; i++ {
		n, _ := g.Tree(o)
		ns = append(ns, n)
	}
	return ns
}

// one full-CLI case in seven leaves --algo out
func withDefaultAlgo(g *core.G, opts string) string {
	if !g.Chance(0.15) {
		return opts
	}
	if opts == "" {
		return "algo-default"
	}
	return opts + ",algo-default"
}

func pickOpts(g *core.G, all []string, p float64) string {
	var o []string
	for _, x := range all {
		if g.Chance(p) {
			o = append(o, x)
		}
	}
	return strings.Join(o, ",")
}

func cliAcrFullCase(c *core.Ctx) {
	g := c.G
	ns := sameTipTrees(g, 1+g.Intn(3))
	k := 2 + g.Intn(3)
	perm := g.R.Perm(len(statePool))
	states := make([]string, k)
	for j := range states {
		states[j] = statePool[perm[j]]
	}
	tips := assign(g, ns[0].TipNames(), states)
	keys, vals := sortedMap(tips)
	var lines []string
	for i, kk := range keys {
		sep := "\t"
		if g.Chance(0.4) {
			sep = ","
		}
		if g.Chance(0.1) { // an earlier line for the same tip: the later one wins
			lines = append(lines, kk+sep+statePool[g.Intn(len(statePool))])
		}
		lines = append(lines, kk+sep+vals[i])
	}
	if g.Chance(0.15) {
		lines = append(lines, "zz"+"\t"+statePool[g.Intn(len(statePool))])
	}
	switch {
	case g.Chance(0.05):
		lines = append(lines, "a,b,c")
	case g.Chance(0.04):
		lines = append(lines[:1], append([]string{""}, lines[1:]...)...)
	case g.Chance(0.04):
		lines = append(lines, "lonely")
	case g.Chance(0.04) && len(lines) > 2:
		lines = lines[:len(lines)-1] // a tip without state (unless it was a duplicate)
	}
	algoS := algoSpellings[g.Intn(len(algoSpellings))]
	if g.Chance(0.6) {
		algoS = algoSpellings[g.Intn(9)]
	}
	opts := pickOpts(g, []string{"states-stdin", "tree-stdin", "dash", "gz", "o-file", "steps-file", "states-out", "no-final-newline"}, 0.4)
	opts = withDefaultAlgo(g, opts)
	cliAcrFull(c, ns, lines, algoS, opts)
}

// cliAsrFull runs `gotree asr`: opts = align-stdin | tree-stdin, phylip, strict, o-file, log-file
func cliAsrFull(c *core.Ctx, ns []*core.N, names, seqs []string, algoS, opts string) {
	in := []string{core.Dumps(ns), core.StrList(names), core.StrList(seqs), core.Escape(algoS), opts}
	fail := func(outcome string) { c.Emit("C12.asrfull", append(in, outcome, "", "")...) }
	var nw strings.Builder
	for _, n := range ns {
		t, err := core.Build(n)
		if err != nil {
			panic(err)
		}
		nw.WriteString(t.Newick() + "\n")
	}
	var sb strings.Builder
	if has(opts, "phylip") {
		L := 0
		if len(seqs) > 0 {
			L = len(seqs[0])
		}
		fmt.Fprintf(&sb, " %d %d\n", len(names), L)
		for i, nm := range names {
			if has(opts, "strict") {
				fmt.Fprintf(&sb, "%-10s%s\n", nm, seqs[i])
			} else {
				fmt.Fprintf(&sb, "%s  %s\n", nm, seqs[i])
			}
		}
	} else {
		for i, nm := range names {
			fmt.Fprintf(&sb, ">%s\n%s\n", nm, seqs[i])
		}
	}
	var files []string
	tmp := func(content string) string {
		f := c.TmpFile(content)
		files = append(files, f)
		return f
	}
	defer func() {
		for _, f := range files {
			os.Remove(f)
		}
	}()
	args := []string{"asr"}
	if !has(opts, "algo-default") {
		args = append(args, "--algo", algoS)
	}
	stdin := ""
	if has(opts, "align-stdin") {
		stdin = sb.String()
	} else {
		args = append(args, "-a", tmp(sb.String()))
	}
	if has(opts, "tree-stdin") && !has(opts, "align-stdin") {
		stdin = nw.String()
	} else {
		args = append(args, "-i", tmp(nw.String()))
	}
	if has(opts, "phylip") {
		args = append(args, "-p")
		if has(opts, "strict") {
			args = append(args, "--input-strict")
		}
	}
	outt, outl := "", ""
	if has(opts, "o-file") {
		outt = tmp("")
		args = append(args, "-o", outt)
	}
	if has(opts, "log-file") {
		outl = tmp("")
		args = append(args, "--log", outl)
	}
	r := c.RunCLI(stdin, 30*time.Second, args...)
	if r.Timeout {
		fail("panic:timeout")
		return
	}
	if strings.Contains(r.Stderr, "panic:") || strings.Contains(r.Stderr, "goroutine ") {
		fail("panic:" + core.Escape(r.Stderr[:min(len(r.Stderr), 200)]))
		return
	}
	if r.Exit != 0 {
		fail("fail")
		return
	}
	treesTxt, logTxt := "", ""
	t2, l2 := splitOut(r.Stdout)
	if outt != "" {
		treesTxt = readFile(outt)
	} else {
		treesTxt = t2
	}
	if outl != "" {
		logTxt = readFile(outl)
	} else {
		logTxt = l2
	}
	dumps, ok := dumpsOfNewicks(treesTxt)
	if !ok {
		fail("panic:unreadable-output-tree")
		return
	}
	c.Emit("C12.asrfull", append(in, "ok", core.Escape(logTxt), dumps)...)
}

func cliAsrFullCase(c *core.Ctx) {
	g := c.G
	ns := sameTipTrees(g, 1+g.Intn(3))
	names := ns[0].TipNames()
	sort.Strings(names)
	L := 1 + g.Intn(4)
	seqs := make([]string, len(names))
	amb := g.Chance(0.5)
	for i := range names {
		b := make([]byte, L)
		for j := range b {
			b[j] = plainChars[g.Intn(1+g.Intn(4))]
			if g.Chance(0.1) {
				b[j] = '-'
			}
			if amb && g.Chance(0.2) {
				b[j] = iupacChars[g.Intn(len(iupacChars))]
			}
		}
		seqs[i] = string(b)
	}
	if g.Chance(0.05) && len(names) > 3 { // a tip without sequence
		names, seqs = names[1:], seqs[1:]
	}
	algoS := algoSpellings[g.Intn(len(algoSpellings))]
	if g.Chance(0.6) {
		algoS = algoSpellings[g.Intn(9)]
	}
	opts := pickOpts(g, []string{"align-stdin", "tree-stdin", "phylip", "strict", "o-file", "log-file"}, 0.4)
	opts = withDefaultAlgo(g, opts)
	cliAsrFull(c, ns, names, seqs, algoS, opts)
}

// ---- the flag default of --algo, judged on the code's own outputs ----

// documentedDefaultAlgo is what the usage text of `gotree acr` / `gotree asr` (and the model: cliDefaultAlgo) say
// the commands do when --algo is left out.
const documentedDefaultAlgo = "acctran"

// cliDefault runs `gotree <cmd>` on the same files without --algo and with --algo acctran / deltran / downpass and
// reports the four standard outputs (trees with their comments and the steps lines).  The oracle needs no model:
// the output without --algo must be the one of --algo acctran; the case is effective (tag algos-differ) when the
// explicit runs differ from each other.  list1/list2 = lines of the states file / "" (acr), names / sequences (asr).
func cliDefault(c *core.Ctx, cmd string, ns []*core.N, list1, list2 []string) {
	in := []string{cmd, core.Dumps(ns), core.StrList(list1), core.StrList(list2)}
	fail := func(o string) { c.Emit("C12.clidef", append(in, o, "", "", "", "")...) }
	var nw strings.Builder
	for _, n := range ns {
		t, err := core.Build(n)
		if err != nil {
			panic(err)
		}
		nw.WriteString(t.Newick() + "\n")
	}
	treef := c.TmpFile(nw.String())
	defer os.Remove(treef)
	var dataf string
	args := []string{cmd, "-i", treef}
	if cmd == "acr" {
		dataf = c.TmpFile(strings.Join(list1, "\n") + "\n")
		args = append(args, "--states", dataf)
	} else {
		var fa strings.Builder
		for i, nm := range list1 {
			fa.WriteString(">" + nm + "\n" + list2[i] + "\n")
		}
		dataf = c.TmpFile(fa.String())
		args = append(args, "-a", dataf)
	}
	defer os.Remove(dataf)
	var outs []string
	for _, a := range []string{"", "acctran", "deltran", "downpass"} {
		ar := append([]string(nil), args...)
		if a != "" {
			ar = append(ar, "--algo", a)
		}
		r := c.RunCLI("", 30*time.Second, ar...)
		if r.Timeout {
			fail("panic:timeout")
			return
		}
		if strings.Contains(r.Stderr, "panic:") || strings.Contains(r.Stderr, "goroutine ") {
			fail("panic:" + core.Escape(r.Stderr[:min(len(r.Stderr), 200)]))
			return
		}
		if r.Exit != 0 {
			outs = append(outs, "exit")
			continue
		}
		outs = append(outs, core.Escape(r.Stdout))
	}
	c.Emit("C12.clidef", append(in, "ok", outs[0], outs[1], outs[2], outs[3])...)
}

// cliDefaultCase: few states, clustered, on trees of 5..14 tips: the up-pass leaves ambiguous inner nodes that
// ACCTRAN, DELTRAN and the plain down-pass resolve differently
func cliDefaultCase(c *core.Ctx) {
	g := c.G
	o := treeOpts(g)
	o.Singles = 0
	o.Comments = 0
	o.MinTips = 5 + g.Intn(10)
	o.MaxTips = o.MinTips
	o.Multif = 0.1
	n, _ := g.Tree(o)
	names := n.TipNames()
	if g.Chance(0.5) {
		st := []string{"x", "y", "z"}[:2+g.Intn(2)]
		var lines []string
		for _, nm := range names {
			lines = append(lines, nm+"\t"+st[g.Intn(len(st))])
		}
		cliDefault(c, "acr", []*core.N{n}, lines, nil)
		return
	}
	L := 2 + g.Intn(3)
	seqs := make([]string, len(names))
	for i := range seqs {
		b := make([]byte, L)
		for j := range b {
			b[j] = "ACGT"[g.Intn(2+g.Intn(2))]
		}
		seqs[i] = string(b)
	}
	cliDefault(c, "asr", []*core.N{n}, names, seqs)
}

func parseDumps(s string) []*core.N {
	var ns []*core.N
	for _, d := range strings.Split(strings.TrimSuffix(s, "|"), "|") {
		n, err := core.ParseDump(d)
		if err != nil {
			panic(err)
		}
		ns = append(ns, n)
	}
	return ns
}

// ---- replay ----

func parseList(s string) []string {
	var out []string
	for _, x := range strings.Split(s, ",") {
		u, err := core.Unescape(x)
		if err != nil {
			panic(err)
		}
		out = append(out, u)
	}
	if len(out) > 0 {
		out = out[:len(out)-1]
	}
	return out
}

// Replay re-executes request lines (the recorded outputs are ignored).
func Replay(c *core.Ctx, lines []string) {
	for _, l := range lines {
		f := strings.Split(l, "\t")
		if len(f) < 5 {
			continue
		}
		if f[0] == "C12.acrfull" {
			if c.Gotree != "" {
				a, _ := core.Unescape(f[3])
				cliAcrFull(c, parseDumps(f[1]), parseList(f[2]), a, f[4])
			}
			continue
		}
		if f[0] == "C12.clidef" && len(f) >= 4 {
			if c.Gotree != "" {
				var l2 []string
				if len(f) >= 5 {
					l2 = parseList(f[4])
				}
				cliDefault(c, f[1], parseDumps(f[2]), parseList(f[3]), l2)
			}
			continue
		}
		if f[0] == "C12.asrfull" && len(f) >= 6 {
			if c.Gotree != "" {
				a, _ := core.Unescape(f[4])
				cliAsrFull(c, parseDumps(f[1]), parseList(f[2]), parseList(f[3]), a, f[5])
			}
			continue
		}
		n, err := core.ParseDump(f[1])
		if err != nil {
			panic(err)
		}
		algo := algoIndex(f[4])
		if algo < 0 {
			continue
		}
		switch f[0] {
		case "C12.acrr":
			if len(f) >= 6 {
				var seed int64
				fmt.Sscan(f[5], &seed)
				doAcrR(c, n, toMap(parseList(f[2]), parseList(f[3])), algo, seed)
			}
		case "C12.asrr", "C12.acrrcli", "C12.asrrcli":
			if len(f) >= 6 {
				var seed int64
				fmt.Sscan(f[5], &seed)
				switch {
				case f[0] == "C12.asrr":
					doAsrR(c, n, parseList(f[2]), parseList(f[3]), algo, seed)
				case c.Gotree == "":
				case f[0] == "C12.acrrcli":
					cliAcrR(c, n, toMap(parseList(f[2]), parseList(f[3])), algo, seed)
				default:
					cliAsrR(c, n, parseList(f[2]), parseList(f[3]), algo, seed)
				}
			}
		case "C12.acr":
			doAcr(c, n, toMap(parseList(f[2]), parseList(f[3])), algo)
		case "C12.asr":
			doAsr(c, n, parseList(f[2]), parseList(f[3]), algo, false)
		case "C12.asrp":
			doAsr(c, n, parseList(f[2]), parseList(f[3]), algo, true)
		case "C12.asrpcli":
			if c.Gotree != "" {
				cliAsr(c, n, parseList(f[2]), parseList(f[3]), algo, false, true)
			}
		case "C12.acrcli":
			if c.Gotree != "" {
				cliAcr(c, n, toMap(parseList(f[2]), parseList(f[3])), algo)
			}
		case "C12.asrcli":
			if c.Gotree != "" {
				cliAsr(c, n, parseList(f[2]), parseList(f[3]), algo, false, false)
			}
		}
	}
}

// ---- nodes of very high degree (the degree is unbounded in the property's quantifier) ----

// bigStar: a polytomy of d tips t0.. plus a cherry (u0,u1)y below the root: the root has d+1 neighbours
func bigStar(d int) *core.N {
	root := &core.N{}
	for i := 0; i < d; i++ {
		root.Kids = append(root.Kids, &core.N{Name: fmt.Sprintf("t%d", i), E: core.NewE()})
	}
	y := &core.N{Name: "y", E: core.NewE()}
	y.Kids = []*core.N{{Name: "u0", E: core.NewE()}, {Name: "u1", E: core.NewE()}}
	root.Kids = append(root.Kids, y)
	return root
}

// hugeDegreeCases: per degree one ASR and one ACR case whose counts at the root reach 255, 256, 257 … for one state
// against a small count for another (site 0: all A but the last tip of the star; site 1: two tips differ, the cherry
// too; site 2: halves), through the library and, for two of them, through the binary
func hugeDegreeCases(c *core.Ctx) {
	for k, d := range []int{255, 256, 257, 300, 512} {
		n := bigStar(d)
		names := n.TipNames()
		sort.Strings(names)
		seqs := make([]string, len(names))
		tips := map[string]string{}
		for i, nm := range names {
			b := []byte("AAA")
			switch {
			case nm == fmt.Sprintf("t%d", d-1):
				b = []byte("CCC")
			case nm == fmt.Sprintf("t%d", d-2):
				b = []byte("ACG")
			case nm == "u0" || nm == "u1":
				b = []byte("AGC")
			}
			if strings.HasPrefix(nm, "t") && i%2 == 0 && string(b) == "AAA" {
				b[2] = 'C'
			}
			seqs[i] = string(b)
			tips[nm] = string(b[:1])
		}
		doAsr(c, n, names, seqs, k%3, false)
		doAcr(c, n, tips, (k+1)%3)
		if c.Gotree != "" && (d == 256 || d == 257) {
			cliAsr(c, n, names, seqs, (k+2)%3, false, false)
			cliAcr(c, n, tips, k%3)
		}
	}
}

// Run generates the cases of C12.
func Run(c *core.Ctx) {
	if c.Arg != "" {
		Replay(c, core.ReadRequests(c.Arg))
		return
	}
	bigTrees = !c.Quick()
	if c.Seed%1000 == c.Seed || c.Seed%1000 == 0 { // once per run (first shard of the thorough tier)
		hugeDegreeCases(c)
	}
	n := c.Scale(600, 15000)
	for i := 0; i < n; i++ {
		if i%3 == 2 {
			asrCase(c)
		} else if i%12 == 1 {
			acrRCase(c)
		} else if i%12 == 7 {
			asrRCase(c)
		} else {
			acrCase(c)
		}
	}
	if c.Gotree != "" {
		m := c.Scale(160, 2000)
		for i := 0; i < m; i++ {
			switch {
			case i%10 == 4:
				cliDefaultCase(c)
			case i%8 == 2:
				cliRCase(c, i/8)
			case i%4 == 1:
				cliAcrFullCase(c)
			case i%4 == 3:
				cliAsrFullCase(c)
			default:
				cliCase(c, i/2)
			}
		}
	}
}

var _ = tree.NewTree
