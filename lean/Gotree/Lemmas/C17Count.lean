/-
  C17 — counting the rearrangements of `Rearrange` on binary trees.
-/
import Gotree.Model.C17
import Gotree.Spec.Splits
import Gotree.Spec.C17

namespace Gotree.C17
open Gotree

/-- number of branches below a list of children whose lower end is not a tip -/
def innerCount (k : Kids) : Nat := ((splitsL k).filter (fun s => !s.tip)).length

theorem innerCount_nil : innerCount [] = 0 := rfl

theorem innerCount_cons (e : EdgeD) (c : T) (r : Kids) :
    innerCount ((e, c) :: r) = (if c.isLeaf then 0 else 1) + innerCount c.kids + innerCount r := by
  obtain ⟨d, p, k⟩ := c
  simp only [innerCount, splitsL, T.splitsBelow, List.filter_cons, List.filter_append, T.kids_node]
  cases h : (T.node d p k).isLeaf <;> simp <;> omega

theorem internalEdges_length (t : T) : t.internalEdges.length = innerCount t.kids := by
  simp [T.internalEdges, T.splits, innerCount]

/-- the branches to the children `rest` of a node with three neighbours, and everything below -/
theorem enumL_length_par3 (isRoot : Bool) (pre : List Nat) (p : Nat) :
    ∀ (rest : Kids) (j : Nat), binaryL rest = true →
      (∀ et ∈ rest, ∀ pre', et.2.binaryBelow = true → (enumT false pre' et.2).length = 2 * innerCount et.2.kids) →
      (enumL isRoot pre p true j rest).length = 2 * innerCount rest := by
  intro rest
  induction rest with
  | nil => intro j _ _; simp [enumL, innerCount_nil]
  | cons ec rest ih =>
    obtain ⟨e, c⟩ := ec
    intro j hb IH
    simp only [binaryL, Bool.and_eq_true] at hb
    rw [enumL, innerCount_cons]
    simp only [List.length_append]
    rw [ih (j + 1) hb.2 (fun et het => IH et (by simp [het])), IH (e, c) (by simp) _ hb.1]
    obtain ⟨d2, p2, k2⟩ := c
    have hk2 := hb.1
    simp only [T.binaryBelow, Bool.and_eq_true, Bool.or_eq_true, beq_iff_eq] at hk2
    rcases hk2.1 with h0 | h2
    · have : k2 = [] := List.length_eq_zero_iff.mp h0
      subst this
      simp [T.isLeaf]
      omega
    · have hne : k2 ≠ [] := by intro h; simp [h] at h2
      simp [T.isLeaf, h2, hne]
      omega

/-- below a node that has not three neighbours (the root of a rooted tree) -/
theorem enumL_length_nopar (isRoot : Bool) (pre : List Nat) (p : Nat) :
    ∀ (rest : Kids) (j : Nat), binaryL rest = true →
      (∀ et ∈ rest, ∀ pre', et.2.binaryBelow = true → (enumT false pre' et.2).length = 2 * innerCount et.2.kids) →
      (enumL isRoot pre p false j rest).length + 2 * (rest.filter (fun et => !et.2.isLeaf)).length = 2 * innerCount rest := by
  intro rest
  induction rest with
  | nil => intro j _ _; simp [enumL, innerCount_nil]
  | cons ec rest ih =>
    obtain ⟨e, c⟩ := ec
    intro j hb IH
    simp only [binaryL, Bool.and_eq_true] at hb
    rw [enumL, innerCount_cons]
    simp only [List.length_append, Bool.false_and, Bool.false_eq_true, if_false, List.length_nil, Nat.zero_add]
    have h1 := ih (j + 1) hb.2 (fun et het => IH et (by simp [het]))
    rw [IH (e, c) (by simp) _ hb.1]
    cases hl : c.isLeaf <;> simp [hl] <;> omega

theorem enumT_length_below : ∀ (t : T) (pre : List Nat), t.binaryBelow = true →
    (enumT false pre t).length = 2 * innerCount t.kids := by
  intro t
  induction t using T.induct with
  | h d p k ih =>
    intro pre hb
    simp only [T.binaryBelow, Bool.and_eq_true, Bool.or_eq_true, beq_iff_eq] at hb
    rw [enumT]
    simp only [Bool.false_eq_true, if_false, T.kids_node]
    rcases hb.1 with h0 | h2
    · have : k = [] := List.length_eq_zero_iff.mp h0
      subst this
      simp [enumL, innerCount_nil]
    · rw [h2]
      exact enumL_length_par3 false pre p k 0 hb.2 (fun et het pre' hbe => ih et het pre' hbe)

/- ## any tree: two rearrangements per branch with both ends of degree three -/

open Gotree.C17.Spec in
theorem enumL_length_general (isRoot : Bool) (pre : List Nat) (p : Nat) (nn : Nat) :
    ∀ (rest : Kids) (j : Nat),
      (∀ et ∈ rest, ∀ pre', (enumT false pre' et.2).length =
        2 * ((endsBelow (et.2.kids.length + 1) et.2).filter fun q => q.1 == 3 && q.2 == 3).length) →
      (enumL isRoot pre p (nn == 3) j rest).length = 2 * ((endsL nn rest).filter fun q => q.1 == 3 && q.2 == 3).length := by
  intro rest
  induction rest with
  | nil => intro j _; simp [enumL, endsL]
  | cons ec rest ih =>
    obtain ⟨e, c⟩ := ec
    intro j IH
    rw [enumL, endsL]
    simp only [List.length_append, List.filter_cons, List.filter_append]
    rw [ih (j + 1) (fun et het => IH et (by simp [het])), IH (e, c) (by simp) _]
    by_cases h1 : nn = 3 <;> by_cases h2 : c.kids.length = 2 <;> simp [h1, h2] <;> omega

open Gotree.C17.Spec in
theorem enumT_length_general : ∀ (t : T) (pre : List Nat),
    (enumT false pre t).length = 2 * ((endsBelow (t.kids.length + 1) t).filter fun q => q.1 == 3 && q.2 == 3).length := by
  intro t
  induction t using T.induct with
  | h d p k ih =>
    intro pre
    rw [enumT, endsBelow]
    simp only [Bool.false_eq_true, if_false, T.kids_node]
    have : (k.length == 2) = (k.length + 1 == 3) := by
      by_cases h : k.length = 2 <;> simp [h]
    rw [this]
    exact enumL_length_general false pre p (k.length + 1) k 0 (fun et het pre' => ih et het pre')

/- ## half of the proposals have `cross = false` -/

theorem enumT_filter_cross : ∀ (t : T) (isRoot : Bool) (pre : List Nat),
    2 * ((enumT isRoot pre t).filter fun r => !r.cross).length = (enumT isRoot pre t).length := by
  intro t
  induction t using T.induct with
  | h d p k ih =>
    have key : ∀ (isRoot : Bool) (pre : List Nat) (p1 : Nat) (par3 : Bool) (rest : Kids), (∀ et ∈ rest, et ∈ k) → ∀ (j : Nat),
        2 * ((enumL isRoot pre p1 par3 j rest).filter fun r => !r.cross).length = (enumL isRoot pre p1 par3 j rest).length := by
      intro isRoot pre p1 par3 rest
      induction rest with
      | nil => intro _ j; simp [enumL]
      | cons ec rest ihr =>
        obtain ⟨e, c⟩ := ec
        intro hsub j
        have h1 : 2 * ((enumT false (pre ++ [j]) c).filter fun r => !r.cross).length = (enumT false (pre ++ [j]) c).length :=
          ih (e, c) (hsub _ (by simp)) false (pre ++ [j])
        have h2 := ihr (fun et het => hsub et (by simp [het])) (j + 1)
        rw [enumL]
        simp only [List.filter_append, List.length_append]
        by_cases hc : (par3 && c.kids.length == 2) = true
        · simp only [hc, if_true, newNNI, List.filter_cons, Bool.not_false, Bool.not_true, Bool.false_eq_true, if_false,
            List.filter_nil, List.length_cons, List.length_nil]
          omega
        · simp only [hc, Bool.false_eq_true, if_false, List.filter_nil, List.length_nil]
          omega
    intro isRoot pre
    rw [enumT]
    exact key isRoot pre p _ k (fun _ h => h) 0

end Gotree.C17
