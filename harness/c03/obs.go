package c03

import (
	"fmt"
	"strconv"
	"strings"

	"github.com/evolbioinfo/gotree/tree"
)

// obs is what the public traversal API answers after a step.  Nodes and
// branches are named by the child-index path (in the α dump) of the node /
// of the lower end of the branch, found by a plain walk of the harness
// (pointer identity); a pointer the walk did not meet is printed "?".
type obs struct {
	nodes, tips                string // paths, each followed by ","
	edges, internal, tipEdges  string // "edgepath/leftpath/rightpath" each followed by ","
	newick                     string
}

func pathStr(p []int) string {
	s := make([]string, len(p))
	for i, x := range p {
		s[i] = strconv.Itoa(x)
	}
	return strings.Join(s, ".")
}

// rawGraph prints the pointer graph reachable from Root() through Neigh() WITHOUT judging it: the
// nodes in breadth-first discovery order (root = 0), and for every slot i of a node the index of
// neigh[i], an index for the branch object br[i], and the indexes of br[i].Left() / br[i].Right()
// (-1 = nil, -2 = a node not reached through Neigh(), "x" = len(neigh) != len(br)).  The Lean Spec
// (`graphProblems`) decides whether this is a tree with symmetric adjacency oriented away from the root.
func rawGraph(t *tree.Tree) string {
	if t == nil || t.Root() == nil {
		return "nil"
	}
	idx := map[*tree.Node]int{t.Root(): 0}
	order := []*tree.Node{t.Root()}
	eidx := map[*tree.Edge]int{}
	for q := 0; q < len(order) && len(order) < 100000; q++ {
		for _, nb := range order[q].Neigh() {
			if nb == nil {
				continue
			}
			if _, ok := idx[nb]; !ok {
				idx[nb] = len(order)
				order = append(order, nb)
			}
		}
	}
	ni := func(n *tree.Node) int {
		if n == nil {
			return -1
		}
		if i, ok := idx[n]; ok {
			return i
		}
		return -2
	}
	var b strings.Builder
	for _, n := range order {
		neigh, br := n.Neigh(), n.Edges()
		if len(neigh) != len(br) {
			b.WriteString("x;")
			continue
		}
		for i, nb := range neigh {
			e := br[i]
			ei := -1
			if e != nil {
				if j, ok := eidx[e]; ok {
					ei = j
				} else {
					ei = len(eidx)
					eidx[e] = ei
				}
			}
			l, r := -1, -1
			if e != nil {
				l, r = ni(e.Left()), ni(e.Right())
			}
			fmt.Fprintf(&b, "%d/%d/%d/%d,", ni(nb), ei, l, r)
		}
		b.WriteByte(';')
	}
	return b.String()
}

// observe must only be called on a heap that core.Alpha accepted (the
// library's recursions do not terminate on cyclic heaps).
func observe(t *tree.Tree) obs {
	np := map[*tree.Node]string{}
	ep := map[*tree.Edge]string{}
	var walk func(cur, prev *tree.Node, path []int)
	walk = func(cur, prev *tree.Node, path []int) {
		np[cur] = pathStr(path)
		j := 0
		for i, nb := range cur.Neigh() {
			if nb == prev {
				continue
			}
			p := append(append([]int(nil), path...), j)
			ep[cur.Edges()[i]] = pathStr(p)
			walk(nb, cur, p)
			j++
		}
	}
	walk(t.Root(), nil, nil)
	nstr := func(n *tree.Node) string {
		if s, ok := np[n]; ok {
			return s
		}
		return "?"
	}
	nodeList := func(ns []*tree.Node) string {
		var b strings.Builder
		for _, n := range ns {
			b.WriteString(nstr(n))
			b.WriteByte(',')
		}
		return b.String()
	}
	edgeList := func(es []*tree.Edge) string {
		var b strings.Builder
		for _, e := range es {
			if s, ok := ep[e]; ok {
				b.WriteString(s)
			} else {
				b.WriteString("?")
			}
			b.WriteByte('/')
			b.WriteString(nstr(e.Left()))
			b.WriteByte('/')
			b.WriteString(nstr(e.Right()))
			b.WriteByte(',')
		}
		return b.String()
	}
	return obs{
		nodes:    nodeList(t.Nodes()),
		tips:     nodeList(t.Tips()),
		edges:    edgeList(t.Edges()),
		internal: edgeList(t.InternalEdges()),
		tipEdges: edgeList(t.TipEdges()),
		newick:   t.Newick(),
	}
}
