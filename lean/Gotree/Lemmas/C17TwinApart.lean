/-
  C17 — the two neighbours proposed for one branch, in the `Apart` form (so that the canonical
  split sets of the two neighbours can be compared).
-/
import Gotree.Lemmas.C17ApartLocal
import Gotree.Lemmas.C17Twin

namespace Gotree.C17
open Gotree Gotree.C17.Spec

theorem apart_kids2 {Z : List String} {isRoot : Bool} {k k' : Kids} (j1 j2 : Nat) (R : List SplitE)
    (h1 : (splitsL k).Perm (entryOf k j1 :: R)) (h2 : (splitsL k').Perm (entryOf k' j2 :: R))
    (he : (entryOf k j1).e = (entryOf k' j2).e) (ht : (entryOf k j1).tip = false) (ht' : (entryOf k' j2).tip = false)
    (hcZ : ∀ x ∈ (entryOf k j1).below, x ∈ Z) (hcZ' : ∀ x ∈ (entryOf k' j2).below, x ∈ Z)
    (q1 : ∃ x, x ∈ (entryOf k j1).below ∧ x ∈ (entryOf k' j2).below)
    (q2 : ∃ x, x ∈ (entryOf k j1).below ∧ x ∉ (entryOf k' j2).below)
    (q3 : ∃ x, x ∈ Z ∧ x ∉ (entryOf k j1).below ∧ x ∈ (entryOf k' j2).below)
    (q4 : isRoot = true → ∃ x, x ∈ Z ∧ x ∉ (entryOf k j1).below ∧ x ∉ (entryOf k' j2).below)
    (hR : ∀ s ∈ R, s.below ≠ [] ∧ Within Z (entryOf k j1).below (entryOf k' j2).below s.below) :
    ∃ cb, Apart Z cb isRoot (splitsL k) (splitsL k') :=
  ⟨_, entryOf k j1, entryOf k' j2, R, R, rfl, h1, h2, sameBranches_refl _, he, ht, ht', hcZ, hcZ', q1, q2, q3, q4, hR⟩

macro "apart2_at3" j1:num j2:num eu:ident ev:ident ey:ident tu:ident tv:ident ty:ident
    xu:ident xv:ident xy:ident bu:ident bv:ident bY:ident : tactic => `(tactic|
  (refine apart_kids2 $j1 $j2
    (((⟨T.leaves $tu, $eu, T.isLeaf $tu⟩ : SplitE) :: T.splitsBelow $tu) ++
      ((⟨T.leaves $tv, $ev, T.isLeaf $tv⟩ : SplitE) :: T.splitsBelow $tv) ++
      ((⟨T.leaves $ty, $ey, T.isLeaf $ty⟩ : SplitE) :: T.splitsBelow $ty))
    (by ev_entries; perm_entries) (by ev_entries; perm_entries) (by ev_entries) (by ev_entries) (by ev_entries)
    (by ev_entries; intro x hx; simp only [List.mem_append] at hx ⊢; grind)
    (by ev_entries; intro x hx; simp only [List.mem_append] at hx ⊢; grind)
    (by ev_entries; pick2 $xu $xv $xy $xy) (by ev_entries; pick2 $xu $xv $xy $xy) (by ev_entries; pick3 $xu $xv $xy $xy)
    (by intro h; cases h) ?_
   ev_entries
   intro s hs
   simp only [List.mem_append] at hs
   rcases hs with (hs | hs) | hs
   · obtain ⟨hne, hsub⟩ := $bu s hs
     exact ⟨hne, by within_block hsub⟩
   · obtain ⟨hne, hsub⟩ := $bv s hs
     exact ⟨hne, by within_block hsub⟩
   · obtain ⟨hne, hsub⟩ := $bY s hs
     exact ⟨hne, by within_block hsub⟩))

macro "apart2_at4" j1:num j2:num eu:ident ev:ident ey:ident ez:ident tu:ident tv:ident ty:ident tz:ident
    xu:ident xv:ident xy:ident xz:ident bu:ident bv:ident bY:ident bz:ident : tactic => `(tactic|
  (refine apart_kids2 $j1 $j2
    (((⟨T.leaves $tu, $eu, T.isLeaf $tu⟩ : SplitE) :: T.splitsBelow $tu) ++
      ((⟨T.leaves $tv, $ev, T.isLeaf $tv⟩ : SplitE) :: T.splitsBelow $tv) ++
      ((⟨T.leaves $ty, $ey, T.isLeaf $ty⟩ : SplitE) :: T.splitsBelow $ty) ++
      ((⟨T.leaves $tz, $ez, T.isLeaf $tz⟩ : SplitE) :: T.splitsBelow $tz))
    (by ev_entries; perm_entries) (by ev_entries; perm_entries) (by ev_entries) (by ev_entries) (by ev_entries)
    (by ev_entries; intro x hx; simp only [List.mem_append] at hx ⊢; grind)
    (by ev_entries; intro x hx; simp only [List.mem_append] at hx ⊢; grind)
    (by ev_entries; pick2 $xu $xv $xy $xz) (by ev_entries; pick2 $xu $xv $xy $xz) (by ev_entries; pick3 $xu $xv $xy $xz)
    (by intro _; ev_entries; pick3 $xu $xv $xy $xz) ?_
   ev_entries
   intro s hs
   simp only [List.mem_append] at hs
   rcases hs with ((hs | hs) | hs) | hs
   · obtain ⟨hne, hsub⟩ := $bu s hs
     exact ⟨hne, by within_block hsub⟩
   · obtain ⟨hne, hsub⟩ := $bv s hs
     exact ⟨hne, by within_block hsub⟩
   · obtain ⟨hne, hsub⟩ := $bY s hs
     exact ⟨hne, by within_block hsub⟩
   · obtain ⟨hne, hsub⟩ := $bz s hs
     exact ⟨hne, by within_block hsub⟩))

/-- the statement of the local fact for one configuration -/
def LocalTwinApart (path : List Nat) (d1 : NodeD) (isRoot : Bool) (p1 : Nat) (k1 : Kids) (j p2 : Nat) : Prop :=
  (leavesL k1).Nodup →
    ∀ S1 S2, applyLocal isRoot (newNNI path isRoot p1 j p2 false) (.node d1 p1 k1) = some S1 →
      applyLocal isRoot (newNNI path isRoot p1 j p2 true) (.node d1 p1 k1) = some S2 →
      ∃ cb, Apart (leavesL k1) cb isRoot (splitsL S1.kids) (splitsL S2.kids)

set_option maxHeartbeats 4000000 in
theorem local_twin_apart_root (path : List Nat) (d1 d2 : NodeD) (e eu ev : EdgeD) (tu tv : T)
    (y z : EdgeD × T) (p1 p2 : Nat) (hp2 : p2 ≤ 2) :
    LocalTwinApart path d1 true p1 [(e, T.node d2 p2 [(eu, tu), (ev, tv)]), y, z] 0 p2 ∧
    LocalTwinApart path d1 true p1 [y, (e, T.node d2 p2 [(eu, tu), (ev, tv)]), z] 1 p2 ∧
    LocalTwinApart path d1 true p1 [y, z, (e, T.node d2 p2 [(eu, tu), (ev, tv)])] 2 p2 := by
  obtain ⟨xu, hxu⟩ := List.exists_mem_of_ne_nil _ (leaves_ne_nil tu)
  obtain ⟨xv, hxv⟩ := List.exists_mem_of_ne_nil _ (leaves_ne_nil tv)
  obtain ⟨ey, ty⟩ := y
  obtain ⟨ez, tz⟩ := z
  obtain ⟨xy, hxy⟩ := List.exists_mem_of_ne_nil _ (leaves_ne_nil ty)
  obtain ⟨xz, hxz⟩ := List.exists_mem_of_ne_nil _ (leaves_ne_nil tz)
  have bu := block_sub eu tu
  have bv := block_sub ev tv
  have bY := block_sub ey ty
  have bz := block_sub ez tz
  have h2 : p2 = 0 ∨ p2 = 1 ∨ p2 = 2 := by omega
  unfold LocalTwinApart
  rcases h2 with rfl | rfl | rfl <;>
    refine ⟨?_, ?_, ?_⟩ <;> intro hnd S1 S2 hS1 hS2 <;> eval_local at hS1 <;> eval_local at hS2 <;>
    subst hS1 <;> subst hS2 <;>
    simp only [leavesL, T.leaves, List.append_nil, List.nodup_append, List.mem_append] at hnd <;>
    simp only [T.kids_node, leavesL, List.append_nil] <;>
    first
    | apart2_at4 0 0 eu ev ey ez tu tv ty tz xu xv xy xz bu bv bY bz
    | apart2_at4 1 1 eu ev ey ez tu tv ty tz xu xv xy xz bu bv bY bz
    | apart2_at4 2 2 eu ev ey ez tu tv ty tz xu xv xy xz bu bv bY bz

set_option maxHeartbeats 4000000 in
theorem local_twin_apart_nonroot (path : List Nat) (d1 d2 : NodeD) (e eu ev : EdgeD) (tu tv : T)
    (y : EdgeD × T) (p1 p2 : Nat) (hp1 : p1 ≤ 2) (hp2 : p2 ≤ 2) :
    LocalTwinApart path d1 false p1 [(e, T.node d2 p2 [(eu, tu), (ev, tv)]), y] 0 p2 ∧
    LocalTwinApart path d1 false p1 [y, (e, T.node d2 p2 [(eu, tu), (ev, tv)])] 1 p2 := by
  obtain ⟨xu, hxu⟩ := List.exists_mem_of_ne_nil _ (leaves_ne_nil tu)
  obtain ⟨xv, hxv⟩ := List.exists_mem_of_ne_nil _ (leaves_ne_nil tv)
  obtain ⟨ey, ty⟩ := y
  obtain ⟨xy, hxy⟩ := List.exists_mem_of_ne_nil _ (leaves_ne_nil ty)
  have bu := block_sub eu tu
  have bv := block_sub ev tv
  have bY := block_sub ey ty
  have h1 : p1 = 0 ∨ p1 = 1 ∨ p1 = 2 := by omega
  have h2 : p2 = 0 ∨ p2 = 1 ∨ p2 = 2 := by omega
  unfold LocalTwinApart
  rcases h1 with rfl | rfl | rfl <;> rcases h2 with rfl | rfl | rfl <;>
    refine ⟨?_, ?_⟩ <;> intro hnd S1 S2 hS1 hS2 <;> eval_local at hS1 <;> eval_local at hS2 <;>
    subst hS1 <;> subst hS2 <;>
    simp only [leavesL, T.leaves, List.append_nil, List.nodup_append, List.mem_append] at hnd <;>
    simp only [T.kids_node, leavesL, List.append_nil] <;>
    first
    | apart2_at3 0 0 eu ev ey tu tv ty xu xv xy bu bv bY
    | apart2_at3 1 1 eu ev ey tu tv ty xu xv xy bu bv bY
    | apart2_at3 0 1 eu ev ey tu tv ty xu xv xy bu bv bY
    | apart2_at3 1 0 eu ev ey tu tv ty xu xv xy bu bv bY

theorem local_twin_apart {path : List Nat} {isRoot : Bool} {p1 : Nat} {k1 : Kids} {j : Nat}
    {e : EdgeD} {d2 : NodeD} {p2 : Nat} {u v : EdgeD × T} (d1 : NodeD)
    (s : Site path isRoot p1 k1 j e d2 p2 u v) : LocalTwinApart path d1 isRoot p1 k1 j p2 := by
  obtain ⟨eu, tu⟩ := u
  obtain ⟨ev, tv⟩ := v
  exact site_cases s (LocalTwinApart path d1)
    (fun y z p1 hp2 => local_twin_apart_root path d1 d2 e eu ev tu tv y z p1 p2 hp2)
    (fun y hp1 hp2 => local_twin_apart_nonroot path d1 d2 e eu ev tu tv y p1 p2 hp1 hp2)

/-- lifting for two rewritings of the same tree at the same path -/
theorem apart_lift2 (Z : List String) (isRoot : Bool) (f1 f2 : T → Option T) : ∀ (q : List Nat) (t t1 t2 S : T),
    subAt q t = some S → modAt q f1 t = some t1 → modAt q f2 t = some t2 → (leavesL t1.kids).Nodup →
    (∀ S1 S2, f1 S = some S1 → f2 S = some S2 →
      RL S1 S2 ∧ (∀ x ∈ Z, x ∈ leavesL S1.kids) ∧ ∃ cb, Apart Z cb isRoot (splitsL S1.kids) (splitsL S2.kids)) →
    RL t1 t2 ∧ (∀ x ∈ Z, x ∈ leavesL t1.kids) ∧ ∃ cb, Apart Z cb isRoot (splitsL t1.kids) (splitsL t2.kids) := by
  intro q
  induction q with
  | nil =>
    intro t t1 t2 S hs h1 h2 _ hr
    simp only [subAt, Option.some.injEq] at hs
    subst hs
    exact hr t1 t2 (by simpa [modAt] using h1) (by simpa [modAt] using h2)
  | cons i q ih =>
    intro t t1 t2 S hs h1 h2 hnd hr
    obtain ⟨d, pp, k⟩ := t
    simp only [subAt] at hs
    cases hki : k[i]? with
    | none => simp [hki] at hs
    | some ec =>
      obtain ⟨e, c⟩ := ec
      simp only [hki] at hs
      simp only [modAt, hki] at h1 h2
      cases hm1 : modAt q f1 c with
      | none => simp [hm1] at h1
      | some c1 =>
        cases hm2 : modAt q f2 c with
        | none => simp [hm2] at h2
        | some c2 =>
          simp only [hm1, Option.some.injEq] at h1
          simp only [hm2, Option.some.injEq] at h2
          subst h1
          subst h2
          simp only [T.kids_node] at hnd ⊢
          have hi : i < k.length := (List.getElem?_eq_some_iff.mp hki).1
          have hk1 : (k.set i (e, c1))[i]? = some (e, c1) := by simp [hi]
          obtain ⟨hl, hZ, cb, hA⟩ := ih c c1 c2 S hs hm1 hm2 (nodup_leavesL_kids e c1 _ i hk1 hnd) hr
          have hZc : ∀ x ∈ Z, x ∈ c1.leaves := fun x hx => mem_leaves_of_mem_leavesL_kids (hZ x hx)
          refine ⟨⟨by simp, fun _ => rfl, leavesL_set2 c1 c2 e hl.leaves_perm k i⟩, ?_, cb, ?_⟩
          · intro x hx
            exact (leaves_sublist_leavesL e c1 _ i hk1).subset (hZc x hx)
          · have := apart_up c1 c2 e hA hZc hl.leaves_perm hl.isLeaf_eq (k.set i (e, c1)) i hk1 hnd
            simpa [List.set_set] using this

end Gotree.C17
