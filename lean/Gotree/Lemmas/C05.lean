/-
  C05 — helper lemmas for `Gotree/Proofs/C05.lean` (core Lean only).
-/
import Gotree.Spec.C05
import Gotree.Lemmas.C05Splits

namespace Gotree.C05
open Gotree

theorem uniq_iff (t : T) : uniq t = true ↔ t.tipNames.Nodup := by simp [uniq]

theorem lensOK_iff (t : T) : lensOK t = true ↔ LensGood t.splits := by
  simp only [lensOK, List.all_eq_true, LensGood, GoodL, Bool.or_eq_true, beq_iff_eq, decide_eq_true_eq]

/-- The relation "u is t up to rooting/order": same tips, same unrooted splits (every
    non-trivial split with its length and support, every tip branch with its length), same
    tip-to-tip distances. -/
structure Same (t u : T) : Prop where
  tips : u.tipNames.Perm t.tipNames
  usp : u.usplits.Perm t.usplits
  tl : u.tipLens.Perm t.tipLens
  dist : ∀ (a b : String), a ∈ t.tipNames → b ∈ t.tipNames → u.dist a b = t.dist a b

theorem Same.refl (t : T) : Same t t := ⟨List.Perm.refl _, List.Perm.refl _, List.Perm.refl _, fun _ _ _ _ => rfl⟩

theorem Same.trans {t u v : T} (h₁ : Same t u) (h₂ : Same u v) : Same t v :=
  ⟨h₂.tips.trans h₁.tips, h₂.usp.trans h₁.usp, h₂.tl.trans h₁.tl, fun a b ha hb =>
    (h₂.dist a b (h₁.tips.mem_iff.2 ha) (h₁.tips.mem_iff.2 hb)).trans (h₁.dist a b ha hb)⟩

theorem Same.symm {t u : T} (h : Same t u) : Same u t :=
  ⟨h.tips.symm, h.usp.symm, h.tl.symm, fun a b ha hb =>
    (h.dist a b (h.tips.mem_iff.1 ha) (h.tips.mem_iff.1 hb)).symm⟩

/-- from the full unrooted split map -/
theorem Same.ofAll {t u : T} (tips : u.tipNames.Perm t.tipNames) (h : u.usplitsAll.Perm t.usplitsAll)
    (dist : ∀ (a b : String), a ∈ t.tipNames → b ∈ t.tipNames → u.dist a b = t.dist a b) : Same t u :=
  ⟨tips, usplits_perm_of tips h, tipLens_perm_of tips h, dist⟩

/-- what the property's clauses need, read off `Same` -/
theorem Same.spec {t u : T} (s : Same t u) :
    u.tipNames.Perm t.tipNames ∧ u.usplits.Perm t.usplits ∧ u.tipLens.Perm t.tipLens ∧
    ∀ a b, a ∈ t.tipNames → b ∈ t.tipNames → u.dist a b = t.dist a b :=
  ⟨s.tips, s.usp, s.tl, s.dist⟩

/-- the branch data of the split list do not change under a root move -/
theorem moveRoot_lensGood (t : T) (i : Nat) (hg : LensGood t.splits) : LensGood (moveRoot t i).splits := by
  cases h : t.kids[i]? with
  | none => rw [moveRoot_of_none t i h]; exact hg
  | some ec =>
    obtain ⟨e, c⟩ := ec
    obtain ⟨rest, p1, p2⟩ := moveRoot_splits_perm t i e c h
    intro s hs
    have hs' := p2.mem_iff.1 hs
    rcases List.mem_cons.1 hs' with rfl | hr
    · exact hg ⟨c.leaves, e, c.isLeaf⟩ (p1.mem_iff.2 (by simp))
    · exact hg s (p1.mem_iff.2 (by simp [hr]))

theorem moveRoot_same (t : T) (i : Nat) (hu : t.tipNames.Nodup) (hg : LensGood t.splits) :
    Same t (moveRoot t i) :=
  Same.ofAll (moveRoot_tips t i) (moveRoot_usplitsAll t i hu hg) (fun a b ha hb => moveRoot_dist t i hu a b ha hb)

theorem rerootP_nil (t : T) (adj : Option Nat) (back : List Nat) : rerootP t [] adj back = (t, adj, back) := rfl

theorem rerootP_cons_none (t : T) (i : Nat) (rest : List Nat) (adj : Option Nat) (back : List Nat)
    (h : t.kids[adjIdx adj i]? = none) : rerootP t (i :: rest) adj back = (t, adj, back) := by
  simp [rerootP, h]

theorem rerootP_cons_some (t : T) (i : Nat) (rest : List Nat) (adj : Option Nat) (back : List Nat)
    (e : EdgeD) (c : T) (h : t.kids[adjIdx adj i]? = some (e, c)) :
    rerootP t (i :: rest) adj back =
      rerootP (moveRoot t (adjIdx adj i)) rest (some (min c.ppos c.kids.length))
        (backStep back (adjIdx adj i) (min c.ppos c.kids.length)) := by
  simp [rerootP, h]

/-- any fold of root moves -/
theorem rerootP_same : ∀ (path : List Nat) (t : T) (adj : Option Nat) (back : List Nat),
    t.tipNames.Nodup → LensGood t.splits →
    Same t (rerootP t path adj back).1 ∧ LensGood (rerootP t path adj back).1.splits
  | [], t, _, _, _, hg => ⟨Same.refl t, hg⟩
  | i :: rest, t, adj, back, hu, hg => by
    cases h : t.kids[adjIdx adj i]? with
    | none => rw [rerootP_cons_none t i rest adj back h]; exact ⟨Same.refl t, hg⟩
    | some ec =>
      obtain ⟨e, c⟩ := ec
      rw [rerootP_cons_some t i rest adj back e c h]
      have s1 := moveRoot_same t (adjIdx adj i) hu hg
      have hu' : (moveRoot t (adjIdx adj i)).tipNames.Nodup := s1.tips.nodup_iff.2 hu
      have hg' := moveRoot_lensGood t (adjIdx adj i) hg
      obtain ⟨s2, g2⟩ := rerootP_same rest (moveRoot t (adjIdx adj i)) _ _ hu' hg'
      exact ⟨s1.trans s2, g2⟩

/-! ## reorderings: entries up to the order in which the leaves below are listed -/

/-- an entry with its leaf list sorted -/
def nrm (s : SplitE) : SplitE := ⟨sortS s.below, s.e, s.tip⟩

theorem sep_nrm (s : SplitE) (a b : String) : (nrm s).sep a b = s.sep a b := by
  simp [nrm, SplitE.sep, List.contains_eq_mem, mem_sortS]

theorem distW_nrm (w : EdgeD → Rat) (l : List SplitE) (a b : String) :
    distW w (l.map nrm) a b = distW w l a b := by
  induction l with
  | nil => rfl
  | cons s l ih => simp only [List.map_cons, C14.distW_cons, ih, sep_nrm]; rfl

theorem toU_nrm (all : List String) (s : SplitE) : toU all (nrm s) = toU all s := by
  simp only [toU, nrm]
  rw [canonSide_perm_side all (sortS_perm s.below)]

theorem map_toU_nrm (all : List String) (l : List SplitE) : (l.map nrm).map (toU all) = l.map (toU all) := by
  simp [List.map_map, Function.comp_def, toU_nrm]

theorem nrm_e (s : SplitE) : (nrm s).e = s.e := rfl

theorem leavesL_perm {k₁ k₂ : Kids} (h : k₁.Perm k₂) : (leavesL k₁).Perm (leavesL k₂) := by
  induction h with
  | nil => exact List.Perm.refl _
  | cons x _ ih => obtain ⟨e, t⟩ := x; simp only [leavesL_cons]; exact List.Perm.append_left _ ih
  | swap x y l =>
    obtain ⟨e, t⟩ := x; obtain ⟨e', t'⟩ := y
    simp only [leavesL_cons, ← List.append_assoc]
    exact List.Perm.append_right _ List.perm_append_comm
  | trans _ _ ih₁ ih₂ => exact ih₁.trans ih₂

theorem splitsL_perm {k₁ k₂ : Kids} (h : k₁.Perm k₂) : (splitsL k₁).Perm (splitsL k₂) := by
  induction h with
  | nil => exact List.Perm.refl _
  | cons x _ ih =>
    obtain ⟨e, t⟩ := x; simp only [splitsL_cons]
    exact List.Perm.cons _ (List.Perm.append_left _ ih)
  | swap x y l =>
    obtain ⟨e, t⟩ := x; obtain ⟨e', t'⟩ := y
    have h1 : splitsL ((e', t') :: (e, t) :: l) = splitsL [(e', t')] ++ (splitsL [(e, t)] ++ splitsL l) := by
      rw [← splitsL_append, ← splitsL_append]; rfl
    have h2 : splitsL ((e, t) :: (e', t') :: l) = splitsL [(e, t)] ++ (splitsL [(e', t')] ++ splitsL l) := by
      rw [← splitsL_append, ← splitsL_append]; rfl
    rw [h1, h2]
    exact List.perm_append_comm_assoc _ _ _
  | trans _ _ ih₁ ih₂ => exact ih₁.trans ih₂

/-- pointwise: same branch data, the subtrees agree up to reordering -/
def KidRel (x y : EdgeD × T) : Prop :=
  y.1 = x.1 ∧ y.2.leaves.Perm x.2.leaves ∧ y.2.isLeaf = x.2.isLeaf ∧
    (y.2.splitsBelow.map nrm).Perm (x.2.splitsBelow.map nrm)

/-- pointwise relation of two kid lists -/
inductive KidsRel : Kids → Kids → Prop where
  | nil : KidsRel [] []
  | cons {x y : EdgeD × T} {k k₂ : Kids} : KidRel x y → KidsRel k k₂ → KidsRel (x :: k) (y :: k₂)

theorem kidRel_lists : ∀ {k k₂ : Kids}, KidsRel k k₂ →
    (leavesL k₂).Perm (leavesL k) ∧ ((splitsL k₂).map nrm).Perm ((splitsL k).map nrm) ∧ k₂.length = k.length
  | _, _, .nil => ⟨List.Perm.refl _, List.Perm.refl _, rfl⟩
  | (e, t) :: k, (e', t') :: k₂, .cons hxy hr => by
    obtain ⟨h1, h2, h3⟩ := kidRel_lists hr
    obtain ⟨he, hl, hi, hs⟩ := hxy
    simp only at he hl hi hs
    subst he
    refine ⟨?_, ?_, by simp [h3]⟩
    · simp only [leavesL_cons]; exact hl.append h1
    · simp only [splitsL_cons, List.map_cons, List.map_append, nrm, hi, sortS_congr hl]
      exact List.Perm.cons _ (hs.append h2)

/-- a node whose kid list is a permutation of a pointwise related kid list -/
theorem node_reordered {d : NodeD} {p p' : Nat} {k k₂ k' : Kids} (hr : KidsRel k k₂) (hp : k'.Perm k₂) :
    (T.node d p' k').leaves.Perm (T.node d p k).leaves ∧ (T.node d p' k').isLeaf = (T.node d p k).isLeaf ∧
    ((T.node d p' k').splitsBelow.map nrm).Perm ((T.node d p k).splitsBelow.map nrm) ∧
    k'.length = k.length := by
  obtain ⟨h1, h2, h3⟩ := kidRel_lists hr
  have hlen : k'.length = k.length := hp.length_eq.trans h3
  have hemp : k'.isEmpty = k.isEmpty := by
    cases k' <;> cases k <;> simp_all
  refine ⟨?_, by simp [T.isLeaf_node, hemp], ?_, hlen⟩
  · simp only [T.leaves_node, hemp]
    split
    · exact List.Perm.refl _
    · exact (leavesL_perm hp).trans h1
  · simp only [T.splitsBelow_node]
    exact ((splitsL_perm hp).map nrm).trans h2

/-- root level: a reordered tree is the same tree -/
theorem same_of_reordered {t u : T} (hname : u.name = t.name) (hlen : u.kids.length = t.kids.length)
    (hl : (leavesL u.kids).Perm (leavesL t.kids)) (hs : (u.splits.map nrm).Perm (t.splits.map nrm))
    (hg : LensGood t.splits) : Same t u := by
  have htips : u.tipNames.Perm t.tipNames := by
    unfold T.tipNames; rw [hname, hlen]; exact List.Perm.append_left _ hl
  refine Same.ofAll htips ?_ ?_
  · refine usplitsAll_perm_of htips ?_ hg
    rw [← map_toU_nrm, ← map_toU_nrm _ t.splits]
    exact hs.map _
  · intro a b _ _
    unfold T.dist
    rw [← distW_nrm, ← distW_nrm _ t.splits, distW_perm _ hs]

/-! ### SortNeighborsByTips -/

theorem insSorted_perm (x : EdgeD × T) : ∀ (k : Kids), (insSorted x k).Perm (x :: k)
  | [] => List.Perm.refl _
  | y :: r => by
    unfold insSorted
    split
    · exact List.Perm.refl _
    · exact (List.Perm.cons y (insSorted_perm x r)).trans (List.Perm.swap x y r)

theorem insSort_perm (k : Kids) : (insSort k).Perm k := by
  unfold insSort
  suffices h : ∀ (k acc : Kids), (k.foldl (fun acc x => insSorted x acc) acc).Perm (acc ++ k) by
    simpa using h k []
  intro k
  induction k with
  | nil => intro acc; simp
  | cons x k ih =>
    intro acc
    simp only [List.foldl_cons]
    refine (ih _).trans ?_
    refine (List.Perm.append_right k (insSorted_perm x acc)).trans ?_
    simp only [List.cons_append]
    exact List.perm_middle.symm

mutual
theorem sortT_rel : ∀ (t : T), (sortT t).leaves.Perm t.leaves ∧ (sortT t).isLeaf = t.isLeaf ∧
    ((sortT t).splitsBelow.map nrm).Perm (t.splitsBelow.map nrm) ∧ (sortT t).kids.length = t.kids.length
  | .node d p k => by
    simpa [sortT] using node_reordered (d := d) (p := p) (p' := 0) (sortL_rel k) (insSort_perm (sortL k))
theorem sortL_rel : ∀ (k : Kids), KidsRel k (sortL k)
  | [] => by simp only [sortL]; exact KidsRel.nil
  | (e, t) :: r => by
    simp only [sortL]
    obtain ⟨h1, h2, h3, _⟩ := sortT_rel t
    exact KidsRel.cons ⟨rfl, h1, h2, h3⟩ (sortL_rel r)
end

theorem sortT_same (t : T) (hg : LensGood t.splits) : Same t (sortT t) := by
  obtain ⟨d, p, k⟩ := t
  obtain ⟨h1, h2, h3⟩ := kidRel_lists (sortL_rel k)
  have hp := insSort_perm (sortL k)
  refine same_of_reordered (by simp [sortT, T.name]) (by simp [sortT, hp.length_eq, h3])
    (by simpa [sortT] using (leavesL_perm hp).trans h1)
    (by simpa [sortT, T.splits] using ((splitsL_perm hp).map nrm).trans h2) hg

/-! ### RotateInternalNodes -/

theorem set_swap_one {α : Type} : ∀ (r : List α) (j : Nat) (a b : α), r[j]? = some b →
    (b :: r.set j a).Perm (a :: r)
  | [], j, a, b, h => by simp at h
  | y :: r, 0, a, b, h => by
    simp at h; subst h
    simpa using List.Perm.swap a y r
  | y :: r, j + 1, a, b, h => by
    have ih := set_swap_one r j a b (by simpa using h)
    simp only [List.set_cons_succ]
    exact (List.Perm.swap y b _).trans ((List.Perm.cons y ih).trans (List.Perm.swap a y r))

theorem set_set_perm {α : Type} : ∀ (l : List α) (i j : Nat) (a b : α), l[i]? = some a → l[j]? = some b →
    ((l.set i b).set j a).Perm l
  | [], i, j, a, b, h, _ => by simp at h
  | x :: r, 0, 0, a, b, h1, h2 => by
    simp at h1 h2; subst h1; subst h2; simp
  | x :: r, 0, j + 1, a, b, h1, h2 => by
    simp at h1; subst h1
    simp only [List.set_cons_zero, List.set_cons_succ]
    exact set_swap_one r j x b (by simpa using h2)
  | x :: r, i + 1, 0, a, b, h1, h2 => by
    simp at h2; subst h2
    simp only [List.set_cons_zero, List.set_cons_succ]
    exact set_swap_one r i x a (by simpa using h1)
  | x :: r, i + 1, j + 1, a, b, h1, h2 => by
    simp only [List.set_cons_succ]
    exact List.Perm.cons x (set_set_perm r i j a b (by simpa using h1) (by simpa using h2))

theorem swapAt_perm {α : Type} (l : List α) (i j : Nat) : (swapAt l i j).Perm l := by
  unfold swapAt
  cases h1 : l[i]? with
  | none => exact List.Perm.refl _
  | some a =>
    cases h2 : l[j]? with
    | none => exact List.Perm.refl _
    | some b => exact set_set_perm l i j a b h1 h2

theorem shuf_perm {α : Type} : ∀ (s i : Nat) (l : List α) (ds : List Nat), (shuf s i l ds).Perm l
  | 0, _, l, _ => by simp [shuf]
  | _ + 1, _, l, [] => by simp [shuf]
  | s + 1, i, l, j :: ds => by
    simp only [shuf]
    exact (shuf_perm s (i + 1) _ ds).trans (swapAt_perm l i j)

theorem filterMap_id_map_some {α : Type} (l : List α) : (l.map some).filterMap id = l := by
  induction l with
  | nil => rfl
  | cons x l ih => simp [ih]

theorem filterMap_insertAt_none {α : Type} (l : List α) (p : Nat) :
    (insertAt (l.map some) p none).filterMap id = l := by
  unfold insertAt
  rw [List.filterMap_append, List.filterMap_cons_none (by rfl), ← List.map_take, ← List.map_drop,
    filterMap_id_map_some, filterMap_id_map_some, List.take_append_drop]

mutual
theorem rot_rel : ∀ (isRoot : Bool) (t : T) (ds : List Nat),
    (rot isRoot t ds).1.leaves.Perm t.leaves ∧ (rot isRoot t ds).1.isLeaf = t.isLeaf ∧
    ((rot isRoot t ds).1.splitsBelow.map nrm).Perm (t.splitsBelow.map nrm) ∧
    (rot isRoot t ds).1.kids.length = t.kids.length ∧ (rot isRoot t ds).1.name = t.name ∧
    (leavesL (rot isRoot t ds).1.kids).Perm (leavesL t.kids)
  | isRoot, .node d p k, ds => by
    have hr := rotL_rel k (ds.drop (k.length + (if isRoot then 0 else 1)))
    have hp : (List.filterMap id (shuf (k.length + (if isRoot then 0 else 1)) 0
        (if isRoot then (rotL k (ds.drop (k.length + (if isRoot then 0 else 1)))).1.map some
         else insertAt ((rotL k (ds.drop (k.length + (if isRoot then 0 else 1)))).1.map some) p none)
        (ds.take (k.length + (if isRoot then 0 else 1))))).Perm
        (rotL k (ds.drop (k.length + (if isRoot then 0 else 1)))).1 := by
      refine ((shuf_perm _ _ _ _).filterMap _).trans ?_
      cases isRoot
      · simp [filterMap_insertAt_none]
      · simp
    obtain ⟨h1, h2, h3, h4⟩ := node_reordered (d := d) (p := p)
      (p' := if isRoot then 0 else List.findIdx (fun x => x.isNone) (shuf (k.length + (if isRoot then 0 else 1)) 0
        (if isRoot then (rotL k (ds.drop (k.length + (if isRoot then 0 else 1)))).1.map some
         else insertAt ((rotL k (ds.drop (k.length + (if isRoot then 0 else 1)))).1.map some) p none)
        (ds.take (k.length + (if isRoot then 0 else 1))))) hr hp
    obtain ⟨g1, _, _⟩ := kidRel_lists hr
    refine ⟨by simpa [rot] using h1, by simpa [rot] using h2, by simpa [rot] using h3,
      by simpa [rot] using h4, by simp [rot, T.name], ?_⟩
    simpa [rot] using (leavesL_perm hp).trans g1
theorem rotL_rel : ∀ (k : Kids) (ds : List Nat), KidsRel k (rotL k ds).1
  | [], _ => by simp only [rotL]; exact KidsRel.nil
  | (e, t) :: r, ds => by
    simp only [rotL]
    obtain ⟨h1, h2, h3, _⟩ := rot_rel false t ds
    exact KidsRel.cons ⟨rfl, h1, h2, h3⟩ (rotL_rel r _)
end

theorem rotate_same (t : T) (draws : List Nat) (hg : LensGood t.splits) : Same t (rotate t draws) := by
  obtain ⟨_, _, h3, h4, h5, h6⟩ := rot_rel true t draws
  refine same_of_reordered h5 h4 h6 ?_ hg
  have e1 : (rotate t draws).splits = (rot true t draws).1.splitsBelow := by
    unfold rotate T.splits; cases (rot true t draws).1; rfl
  have e2 : t.splits = t.splitsBelow := by unfold T.splits; cases t; rfl
  rw [e1, e2]; exact h3


/-! ## fusing two branches of one split -/

theorem goodU_cons {x : USplit} {l : List USplit} (h : GoodU (x :: l)) : GoodL x.len ∧ GoodU l :=
  ⟨h x (by simp), fun y hy => h y (by simp [hy])⟩

theorem goodU_filter {l : List USplit} (p : USplit → Bool) (h : GoodU l) : GoodU (l.filter p) :=
  fun x hx => h x (List.mem_filter.1 hx).1

theorem goodU_forget {l : List USplit} (h : GoodU l) : GoodU (l.map forgetSup) := by
  intro x hx
  obtain ⟨y, hy, rfl⟩ := List.mem_map.1 hx
  exact h y hy

theorem sidesNodup_nil : SidesNodup [] := by simp [SidesNodup]
theorem goodU_nil : GoodU [] := by intro x hx; cases hx

/-- fold level: two entries of one split against their fusion -/
theorem ufold_fuse_pair {L L' R : List USplit} {x1 x2 y : USplit} (p : USplit → Bool)
    (hp : ∀ a b : USplit, a.side = b.side → p a = p b)
    (hL : L.Perm (x1 :: x2 :: R)) (hL' : L'.Perm (y :: R)) (hg : GoodU L)
    (h12 : x1.side = x2.side) (hy : p x1 = true → y = fuseU x1 x2) (hys : y.side = x1.side) :
    (ufoldU (L'.filter p) []).Perm (ufoldU (L.filter p) []) := by
  have g := GoodU.of_perm hL.symm hg
  obtain ⟨g1, g'⟩ := goodU_cons g
  obtain ⟨g2, gR⟩ := goodU_cons g'
  have q1 : (L.filter p).Perm ((x1 :: x2 :: R).filter p) := hL.filter p
  have q2 : (L'.filter p).Perm ((y :: R).filter p) := hL'.filter p
  have hp2 : p x2 = p x1 := hp _ _ h12.symm
  have hpy : p y = p x1 := hp _ _ hys
  by_cases h : p x1 = true
  · have e1 : (x1 :: x2 :: R).filter p = x1 :: x2 :: R.filter p := by simp [h, hp2]
    have e2 : (y :: R).filter p = y :: R.filter p := by simp [h, hpy]
    rw [e1] at q1; rw [e2] at q2
    have gy : GoodL y.len := by rw [hy h]; exact fuseLen_good g1 g2
    have gl' : GoodU (L'.filter p) := GoodU.of_perm q2 (by
      intro z hz; rcases List.mem_cons.1 hz with rfl | hz
      · exact gy
      · exact goodU_filter p gR z hz)
    refine (ufoldU_perm q2 gl' [] sidesNodup_nil goodU_nil).trans ?_
    refine List.Perm.trans ?_ (ufoldU_perm q1 (goodU_filter p hg) [] sidesNodup_nil goodU_nil).symm
    rw [hy h, ufoldU_fuse x1 x2 _ [] h12 g1 g2 goodU_nil]
  · have hf : p x1 = false := by simpa using h
    have e1 : (x1 :: x2 :: R).filter p = R.filter p := by simp [hf, hp2]
    have e2 : (y :: R).filter p = R.filter p := by simp [hf, hpy]
    rw [e1] at q1; rw [e2] at q2
    have gl' : GoodU (L'.filter p) := GoodU.of_perm q2 (goodU_filter p gR)
    exact (ufoldU_perm q2 gl' [] sidesNodup_nil goodU_nil).trans
      (ufoldU_perm q1 (goodU_filter p hg) [] sidesNodup_nil goodU_nil).symm

/-- Tree level: `t` has two branches `X1`, `X2` carrying one and the same split, `u` has the
    single branch `Y` instead (lengths fused; supports fused when the split is not trivial). -/
theorem same_of_fuse {t u : T} {X1 X2 Y : SplitE} {rest : List SplitE}
    (htips : u.tipNames.Perm t.tipNames)
    (ht : t.splits.Perm (X1 :: X2 :: rest))
    (hu : (u.splits.map nrm).Perm ((Y :: rest).map nrm))
    (hs12 : canonSide t.tipNames X1.below = canonSide t.tipNames X2.below)
    (hsY : canonSide t.tipNames Y.below = canonSide t.tipNames X1.below)
    (hlen : Y.e.len = fuseLen X1.e.len X2.e.len)
    (hsup : nontrivU t.tipNames (toU t.tipNames X1) = true → Y.e.sup = fuseSup X1.e.sup X2.e.sup)
    (hsep1 : ∀ a b, a ∈ t.tipNames → b ∈ t.tipNames → X1.sep a b = Y.sep a b)
    (hsep2 : ∀ a b, a ∈ t.tipNames → b ∈ t.tipNames → X2.sep a b = Y.sep a b)
    (hw : Y.e.lenOr0 = X1.e.lenOr0 + X2.e.lenOr0)
    (hg : LensGood t.splits) : Same t u := by
  have hL : (t.splits.map (toU t.tipNames)).Perm
      (toU t.tipNames X1 :: toU t.tipNames X2 :: rest.map (toU t.tipNames)) := by
    simpa using ht.map (toU t.tipNames)
  have hL' : (u.splits.map (toU t.tipNames)).Perm (toU t.tipNames Y :: rest.map (toU t.tipNames)) := by
    have := hu.map (toU t.tipNames)
    rw [map_toU_nrm, map_toU_nrm] at this
    simpa using this
  have hgU : GoodU (t.splits.map (toU t.tipNames)) := hg.goodU _
  have h12 : (toU t.tipNames X1).side = (toU t.tipNames X2).side := hs12
  have hys : (toU t.tipNames Y).side = (toU t.tipNames X1).side := hsY
  obtain ⟨husp, htl⟩ := usplits_tipLens_of_ufold htips
    (ufold_fuse_pair (nontrivU t.tipNames) (nontrivU_side _) hL hL' hgU h12 (by
      intro hp
      simp only [toU, fuseU] at hsY ⊢
      rw [hsY, hlen, hsup hp]) hys)
    (by
      have hLf := hL.map forgetSup
      have hLf' := hL'.map forgetSup
      simp only [List.map_cons] at hLf hLf'
      have := ufold_fuse_pair (L := (t.splits.map (toU t.tipNames)).map forgetSup)
        (L' := (u.splits.map (toU t.tipNames)).map forgetSup) (trivU t.tipNames) (trivU_side _) hLf hLf'
        (goodU_forget hgU) (by simpa using h12) (by
          intro _
          simp only [toU, fuseU, forgetSup, fuseSup] at hsY ⊢
          rw [hsY, hlen]; simp) (by simpa using hys)
      have c : ∀ l : List USplit, (l.map forgetSup).filter (trivU t.tipNames) = (l.filter (trivU t.tipNames)).map forgetSup := by
        intro l
        induction l with
        | nil => rfl
        | cons z l ih =>
          have : trivU t.tipNames (forgetSup z) = trivU t.tipNames z := trivU_side _ _ _ rfl
          by_cases hz : trivU t.tipNames z <;> simp [this, hz, ih]
      rw [c, c] at this
      exact this)
  refine ⟨htips, husp, htl, ?_⟩
  intro a b ha hb
  unfold T.dist
  rw [← distW_nrm, distW_perm _ hu, distW_nrm, distW_perm _ ht]
  exact (distW_fuse _ X1 X2 Y rest a b (hsep1 a b ha hb) (hsep2 a b ha hb) hw).symm



theorem length_filter_not_singleton : ∀ (all : List String) (x : String), all.Nodup → x ∈ all →
    (all.filter (fun y => !([x].contains y))).length + 1 = all.length
  | [], x, _, h => by simp at h
  | a :: r, x, hn, hx => by
    have hn' := List.nodup_cons.1 hn
    by_cases hax : a = x
    · subst hax
      have : r.filter (fun y => !([a].contains y)) = r := by
        apply List.filter_eq_self.2
        intro y hy
        have : y ≠ a := fun h => hn'.1 (h ▸ hy)
        simp [this]
      rw [List.filter_cons]
      have h0 : (![a].contains a) = false := by simp
      simp only [h0, Bool.false_eq_true, if_false, this, List.length_cons]
    · have hxr : x ∈ r := by
        rcases List.mem_cons.1 hx with h | h
        · exact absurd h.symm hax
        · exact h
      have ih := length_filter_not_singleton r x hn'.2 hxr
      have : ([x].contains a) = false := by simp [hax]
      simp only [List.filter_cons, this, Bool.not_false, if_true, List.length_cons]
      omega

theorem sortS_singleton (x : String) : sortS [x] = [x] := List.perm_singleton.1 (sortS_perm [x])

/-- a single tip is a trivial split -/
theorem trivial_singleton {all : List String} (hn : all.Nodup) {x : String} (hx : x ∈ all) (e : EdgeD) (tp : Bool) :
    nontrivU all (toU all ⟨[x], e, tp⟩) = false := by
  have hcount := length_filter_not_singleton all x hn hx
  have hf : [x].filter all.contains = [x] := by simp [hx]
  have hall : ∀ y ∈ sortS (complS all [x]), all.contains y = true := by
    intro y hy
    have := mem_sortS.1 hy
    simp only [complS, List.mem_filter] at this
    simpa using this.1
  have hc : canonSide all [x] = [x] ∨ canonSide all [x] = sortS (complS all [x]) := by
    unfold canonSide
    simp only [hf, sortS_singleton]
    cases minS all with
    | none => exact Or.inl rfl
    | some m =>
      by_cases h : [x].contains m = true
      · right; simp only [h, if_true]
      · left; simp only [h, Bool.false_eq_true, if_false]
  have key : lightSize all (canonSide all [x]) ≤ 1 := by
    rcases hc with hc | hc
    · rw [hc]; unfold lightSize; rw [hf]; simp only [List.length_singleton]; omega
    · rw [hc]; unfold lightSize
      rw [List.filter_eq_self.2 hall, (sortS_perm _).length_eq]
      simp only [complS]
      omega
  show decide (2 ≤ lightSize all (canonSide all [x])) = false
  exact decide_eq_false (by omega)



/-! ## UnRoot -/

theorem supsOK_iff (t : T) : supsOK t = true ↔ ∀ s ∈ t.splits, GoodL s.e.sup := by
  simp only [supsOK, List.all_eq_true, GoodL, Bool.or_eq_true, beq_iff_eq, decide_eq_true_eq]

theorem unrootLen_eq {e1 e2 : EdgeD} (g1 : GoodL e1.len) (g2 : GoodL e2.len) :
    unrootLen e1 e2 = fuseLen e1.len e2.len := by
  unfold unrootLen fuseLen rmax GoodL NIL at *
  by_cases h1 : e1.len = -1 <;> by_cases h2 : e2.len = -1 <;> simp [h1, h2] <;> grind

theorem unrootLen_lenOr0 {e1 e2 : EdgeD} (g1 : GoodL e1.len) (g2 : GoodL e2.len) (e3 : EdgeD)
    (h : e3.len = unrootLen e1 e2) : e3.lenOr0 = e1.lenOr0 + e2.lenOr0 := by
  unfold EdgeD.lenOr0
  rw [h]
  unfold unrootLen rmax GoodL NIL at *
  by_cases h1 : e1.len = -1 <;> by_cases h2 : e2.len = -1 <;> simp [h1, h2] <;> grind

theorem unrootSup_eq {e1 e2 : EdgeD} (g1 : GoodL e1.sup) (g2 : GoodL e2.sup) :
    unrootSup false false e1 e2 = fuseSup e1.sup e2.sup := by
  unfold unrootSup fuseSup rmax GoodL NIL at *
  by_cases h1 : e1.sup = -1 <;> by_cases h2 : e2.sup = -1 <;> simp [h1, h2] <;> grind

/-- the branch `UnRoot` creates -/
def unrootEdge (b1 b2 : Bool) (e1 e2 : EdgeD) : EdgeD :=
  { EdgeD.blank with len := unrootLen e1 e2, sup := unrootSup b1 b2 e1 e2 }

theorem unroot_rooted (d : NodeD) (p : Nat) (e1 e2 : EdgeD) (d1 d2 : NodeD) (p1 p2 : Nat) (k1 k2 : Kids) :
    unroot (.node d p [(e1, .node d1 p1 k1), (e2, .node d2 p2 k2)]) =
      if k1.isEmpty then .node d2 0 (k2 ++ [(unrootEdge k1.isEmpty k2.isEmpty e1 e2, .node d1 0 k1)])
      else .node d1 0 (k1 ++ [(unrootEdge k1.isEmpty k2.isEmpty e1 e2, .node d2 k2.length k2)]) := rfl

theorem unroot_other (t : T) (h : ∀ d p e1 e2 d1 d2 p1 p2 k1 k2,
    t ≠ .node d p [(e1, .node d1 p1 k1), (e2, .node d2 p2 k2)]) : unroot t = t := by
  unfold unroot
  split
  · exact absurd rfl (h _ _ _ _ _ _ _ _ _ _)
  · rfl

/-- `UnRoot` keeps the tree: the two root branches become one branch carrying the sum of the
    lengths and (when neither end is a tip) the larger support. -/
theorem unroot_same (t : T) (hu : t.tipNames.Nodup) (hg : LensGood t.splits)
    (hs : ∀ s ∈ t.splits, GoodL s.e.sup) : Same t (unroot t) := by
  by_cases hr : ∃ d p e1 e2 d1 d2 p1 p2 k1 k2, t = .node d p [(e1, .node d1 p1 k1), (e2, .node d2 p2 k2)]
  · obtain ⟨d, p, e1, e2, d1, d2, p1, p2, k1, k2, rfl⟩ := hr
    rw [unroot_rooted]
    -- the rooted case
    have hall : (T.node d p [(e1, T.node d1 p1 k1), (e2, T.node d2 p2 k2)]).tipNames =
        (T.node d1 p1 k1).leaves ++ (T.node d2 p2 k2).leaves := by
      simp [T.tipNames, leavesL_cons, leavesL_nil]
    have hsp : (T.node d p [(e1, T.node d1 p1 k1), (e2, T.node d2 p2 k2)]).splits =
        ⟨(T.node d1 p1 k1).leaves, e1, k1.isEmpty⟩ :: (splitsL k1 ++
          (⟨(T.node d2 p2 k2).leaves, e2, k2.isEmpty⟩ :: (splitsL k2 ++ []))) := by
      simp [T.splits, splitsL_cons, splitsL_nil, T.splitsBelow_node, T.isLeaf_node]
    have ht : (T.node d p [(e1, T.node d1 p1 k1), (e2, T.node d2 p2 k2)]).splits.Perm
        (⟨(T.node d1 p1 k1).leaves, e1, k1.isEmpty⟩ :: ⟨(T.node d2 p2 k2).leaves, e2, k2.isEmpty⟩ ::
          (splitsL k1 ++ splitsL k2)) := by
      rw [hsp]
      refine List.Perm.cons _ ?_
      simp only [List.append_nil]
      exact List.perm_middle
    have m1 : (⟨(T.node d1 p1 k1).leaves, e1, k1.isEmpty⟩ : SplitE) ∈
        (T.node d p [(e1, T.node d1 p1 k1), (e2, T.node d2 p2 k2)]).splits := ht.mem_iff.2 (by simp)
    have m2 : (⟨(T.node d2 p2 k2).leaves, e2, k2.isEmpty⟩ : SplitE) ∈
        (T.node d p [(e1, T.node d1 p1 k1), (e2, T.node d2 p2 k2)]).splits := ht.mem_iff.2 (by simp)
    have g1 : GoodL e1.len := hg _ m1
    have g2 : GoodL e2.len := hg _ m2
    have s1 : GoodL e1.sup := hs _ m1
    have s2 : GoodL e2.sup := hs _ m2
    rw [hall] at hu
    have hcompl : canonSide ((T.node d1 p1 k1).leaves ++ (T.node d2 p2 k2).leaves) (T.node d1 p1 k1).leaves =
        canonSide ((T.node d1 p1 k1).leaves ++ (T.node d2 p2 k2).leaves) (T.node d2 p2 k2).leaves :=
      canonSide_compl hu (List.Perm.refl _)
    have hsepc : ∀ (ea eb : EdgeD) (ta tb : Bool) (a b : String),
        a ∈ (T.node d1 p1 k1).leaves ++ (T.node d2 p2 k2).leaves →
        b ∈ (T.node d1 p1 k1).leaves ++ (T.node d2 p2 k2).leaves →
        (SplitE.mk (T.node d1 p1 k1).leaves ea ta).sep a b = (SplitE.mk (T.node d2 p2 k2).leaves eb tb).sep a b :=
      fun ea eb ta tb a b ha hb => sep_compl hu (List.Perm.refl _) ea eb ta tb ha hb
    by_cases hk1 : k1 = []
    · -- the first neighbour of the root is a tip: the other one becomes the root
      subst hk1
      simp only [List.isEmpty_nil, if_true]
      have hx : d1.name ∈ (T.node d1 p1 []).leaves ++ (T.node d2 p2 k2).leaves := by simp [T.leaves_node]
      refine same_of_fuse (X1 := ⟨(T.node d1 p1 []).leaves, e1, true⟩) (X2 := ⟨(T.node d2 p2 k2).leaves, e2, k2.isEmpty⟩)
        (Y := ⟨(T.node d1 0 []).leaves, unrootEdge true k2.isEmpty e1 e2, true⟩) (rest := splitsL [] ++ splitsL k2) ?_ (by simpa using ht) ?_ ?_ ?_ ?_ ?_ ?_ ?_ ?_ hg
      · -- tips
        rw [hall]
        unfold T.tipNames
        simp only [T.kids_node, T.name, T.d_node, List.length_append, List.length_cons, List.length_nil,
          leavesL_append, leavesL_cons, leavesL_nil, T.leaves_node, List.isEmpty_nil, if_true, List.append_nil]
        cases k2 with
        | nil => simpa [leavesL_nil] using List.Perm.swap d1.name d2.name []
        | cons k ks =>
          simp only [List.length_cons, List.isEmpty_cons, Bool.false_eq_true, if_false]
          have : (ks.length + 1 + 0 + 1 == 1) = false := by simp
          simp only [this, Bool.false_eq_true, if_false, List.nil_append]
          exact List.perm_append_comm
      · simp only [T.splits, T.kids_node, splitsL_append, splitsL_cons, splitsL_nil, T.splitsBelow_node,
          T.isLeaf_node, List.isEmpty_nil, List.nil_append, List.append_nil]
        exact (List.perm_middle.trans (by simp)).map nrm
      · rw [hall]; exact hcompl
      · rw [hall]; simp [T.leaves_node]
      · exact unrootLen_eq g1 g2
      · intro hp
        rw [hall] at hp
        have := trivial_singleton hu hx e1 true
        simp only [T.leaves_node, List.isEmpty_nil, if_true] at hp this
        rw [this] at hp; cases hp
      · intro a b _ _; simp [T.leaves_node, SplitE.sep]
      · intro a b ha hb
        rw [hall] at ha hb
        simpa [T.leaves_node] using (hsepc (unrootEdge true k2.isEmpty e1 e2) e2 true k2.isEmpty a b ha hb).symm
      · exact unrootLen_lenOr0 g1 g2 _ rfl
    · -- the first neighbour becomes the root
      have hke : k1.isEmpty = false := by cases k1 <;> simp_all
      simp only [hke, Bool.false_eq_true, if_false]
      refine same_of_fuse (X1 := ⟨(T.node d1 p1 k1).leaves, e1, false⟩) (X2 := ⟨(T.node d2 p2 k2).leaves, e2, k2.isEmpty⟩)
        (Y := ⟨(T.node d2 k2.length k2).leaves, unrootEdge false k2.isEmpty e1 e2, k2.isEmpty⟩) (rest := splitsL k1 ++ splitsL k2) ?_
        (by simpa [hke] using ht) ?_ ?_ ?_ ?_ ?_ ?_ ?_ ?_ hg
      · rw [hall]
        unfold T.tipNames
        simp only [T.kids_node, List.length_append, List.length_cons, List.length_nil,
          leavesL_append, leavesL_cons, leavesL_nil, List.append_nil]
        have : (k1.length + 0 + 1 == 1) = false := by cases k1 <;> simp_all
        simp only [this, Bool.false_eq_true, if_false, List.nil_append, T.leaves_node, hke]
        exact List.Perm.refl _
      · simp only [T.splits, T.kids_node, splitsL_append, splitsL_cons, splitsL_nil, T.splitsBelow_node,
          T.isLeaf_node, List.append_nil]
        exact (List.perm_middle).map nrm
      · rw [hall]; exact hcompl
      · rw [hall]; simpa only [T.leaves_node] using hcompl.symm
      · exact unrootLen_eq g1 g2
      · intro hp
        by_cases hk2 : k2 = []
        · subst hk2
          rw [hall] at hp
          have hx : d2.name ∈ (T.node d1 p1 k1).leaves ++ (T.node d2 p2 []).leaves := by simp [T.leaves_node]
          have h2 := trivial_singleton hu hx e2 true
          have : nontrivU ((T.node d1 p1 k1).leaves ++ (T.node d2 p2 []).leaves)
              (toU ((T.node d1 p1 k1).leaves ++ (T.node d2 p2 []).leaves) ⟨(T.node d1 p1 k1).leaves, e1, false⟩) =
              nontrivU ((T.node d1 p1 k1).leaves ++ (T.node d2 p2 []).leaves)
                (toU ((T.node d1 p1 k1).leaves ++ (T.node d2 p2 []).leaves) ⟨[d2.name], e2, true⟩) := by
            apply nontrivU_side
            simpa [toU, T.leaves_node] using hcompl
          rw [this, h2] at hp; cases hp
        · have hke2 : k2.isEmpty = false := by cases k2 <;> simp_all
          simp only [hke2]
          exact unrootSup_eq s1 s2
      · intro a b ha hb
        rw [hall] at ha hb
        simpa [T.leaves_node] using hsepc e1 (unrootEdge false k2.isEmpty e1 e2) false k2.isEmpty a b ha hb
      · intro a b _ _; simp [T.leaves_node, SplitE.sep]
      · exact unrootLen_lenOr0 g1 g2 _ rfl
  · rw [unroot_other t (fun d p e1 e2 d1 d2 p1 p2 k1 k2 h => hr ⟨d, p, e1, e2, d1, d2, p1, p2, k1, k2, h⟩)]
    exact Same.refl _



/-! ## cutting a branch by a new root -/

/-- a root with exactly two kids -/
theorem two_kids (d : NodeD) (p : Nat) (e1 e2 : EdgeD) (c1 c2 : T) :
    (T.node d p [(e1, c1), (e2, c2)]).tipNames = c1.leaves ++ c2.leaves ∧
    (T.node d p [(e1, c1), (e2, c2)]).splits.Perm
      (⟨c1.leaves, e1, c1.isLeaf⟩ :: ⟨c2.leaves, e2, c2.isLeaf⟩ :: (c1.splitsBelow ++ c2.splitsBelow)) := by
  constructor
  · simp [T.tipNames, leavesL_cons, leavesL_nil]
  · simp only [T.splits, T.kids_node, splitsL_cons, splitsL_nil, List.append_nil]
    exact List.Perm.cons _ List.perm_middle

theorem cutAt_eq (t : T) (r : Nat) (ea eb : EdgeD) (aFirst : Bool) (e : EdgeD) (c : T)
    (hk : t.kids[r]? = some (e, c)) :
    cutAt t r ea eb aFirst = some (.node ⟨"", []⟩ 0
      (if aFirst then [(ea, .node t.d (t.kids.length - 1) (t.kids.eraseIdx r)), (eb, .node c.d c.kids.length c.kids)]
       else [(eb, .node c.d c.kids.length c.kids), (ea, .node t.d (t.kids.length - 1) (t.kids.eraseIdx r))])) := by
  obtain ⟨d, p, kids⟩ := t
  obtain ⟨dc, pc, kc⟩ := c
  simp only [T.kids_node] at hk
  simp [cutAt, hk]

/-- **Cutting a branch by a new root**: the branch `e` between the root `A` of `t` and its kid
    `r` is replaced by two branches `ea` (to `A`) and `eb` (to the kid) below a new root; if the
    lengths add up to the old length and both carry the old support, nothing else changes. -/
theorem cutAt_same (t u : T) (r : Nat) (ea eb : EdgeD) (aFirst : Bool) (e : EdgeD) (c : T)
    (hk : t.kids[r]? = some (e, c)) (h : cutAt t r ea eb aFirst = some u)
    (hn : t.tipNames.Nodup) (hg : LensGood t.splits) (ga : GoodL ea.len) (gb : GoodL eb.len)
    (hlen : e.len = fuseLen ea.len eb.len) (hsup : e.sup = fuseSup ea.sup eb.sup)
    (hw : e.lenOr0 = ea.lenOr0 + eb.lenOr0) : Same t u := by
  rw [cutAt_eq t r ea eb aFirst e c hk] at h
  have hu := (Option.some.inj h).symm
  clear h
  obtain ⟨q1, _⟩ := moveRoot_tipNames_split t r e c hk
  obtain ⟨rest, p1, _⟩ := moveRoot_splits_perm t r e c hk
  -- the two new subtrees have the leaves of the two sides
  have hA : (T.node t.d (t.kids.length - 1) (t.kids.eraseIdx r)).leaves = (oldRoot t r).leaves := by
    simp [oldRoot, T.leaves_node]
  have hB : (T.node c.d c.kids.length c.kids).leaves = c.leaves := by
    obtain ⟨dc, pc, kc⟩ := c; simp [T.leaves_node]
  have hAs : (T.node t.d (t.kids.length - 1) (t.kids.eraseIdx r)).splitsBelow = (oldRoot t r).splitsBelow := by
    simp [oldRoot, T.splitsBelow_node]
  have hBs : (T.node c.d c.kids.length c.kids).splitsBelow = c.splitsBelow := by
    obtain ⟨dc, pc, kc⟩ := c; simp [T.splitsBelow_node]
  have hBl : (T.node c.d c.kids.length c.kids).isLeaf = c.isLeaf := by
    obtain ⟨dc, pc, kc⟩ := c; simp [T.isLeaf_node]
  -- rest of the split list: what hangs on both sides
  have hrest : rest.Perm ((oldRoot t r).splitsBelow ++ c.splitsBelow) := by
    obtain ⟨hkk, he⟩ := list_split_at t.kids r (e, c) hk
    have h1 : t.splits.Perm (⟨c.leaves, e, c.isLeaf⟩ ::
        (splitsL (t.kids.take r) ++ splitsL (t.kids.drop (r + 1)) ++ c.splitsBelow)) := by
      unfold T.splits
      conv => lhs; rw [hkk]
      rw [splitsL_append, splitsL_cons]
      refine List.perm_middle.trans (List.Perm.cons _ ?_)
      simp only [List.append_assoc]
      exact List.Perm.append_left _ List.perm_append_comm
    have h2 : (oldRoot t r).splitsBelow = splitsL (t.kids.take r) ++ splitsL (t.kids.drop (r + 1)) := by
      simp [oldRoot, T.splitsBelow_node, he, splitsL_append]
    rw [h2]
    exact (List.Perm.cons_inv (p1.symm.trans h1))
  -- u, its tips and its split list
  have key : ∀ (x : T), (x = .node ⟨"", []⟩ 0 [(ea, .node t.d (t.kids.length - 1) (t.kids.eraseIdx r)), (eb, .node c.d c.kids.length c.kids)] ∨
      x = .node ⟨"", []⟩ 0 [(eb, .node c.d c.kids.length c.kids), (ea, .node t.d (t.kids.length - 1) (t.kids.eraseIdx r))]) →
      x.tipNames.Perm (c.leaves ++ (oldRoot t r).leaves) ∧
      x.splits.Perm (⟨(oldRoot t r).leaves, ea, (oldRoot t r).isLeaf⟩ :: ⟨c.leaves, eb, c.isLeaf⟩ :: rest) := by
    intro x hx
    have hAl : (T.node t.d (t.kids.length - 1) (t.kids.eraseIdx r)).isLeaf = (oldRoot t r).isLeaf := by
      simp [oldRoot, T.isLeaf_node]
    rcases hx with rfl | rfl
    · obtain ⟨t1, t2⟩ := two_kids ⟨"", []⟩ 0 ea eb (.node t.d (t.kids.length - 1) (t.kids.eraseIdx r)) (.node c.d c.kids.length c.kids)
      rw [hA, hB, hAs, hBs, hAl, hBl] at t2
      rw [hA, hB] at t1
      exact ⟨by rw [t1]; exact List.perm_append_comm,
        t2.trans (List.Perm.cons _ (List.Perm.cons _ hrest.symm))⟩
    · obtain ⟨t1, t2⟩ := two_kids ⟨"", []⟩ 0 eb ea (.node c.d c.kids.length c.kids) (.node t.d (t.kids.length - 1) (t.kids.eraseIdx r))
      rw [hA, hB, hAs, hBs, hAl, hBl] at t2
      rw [hA, hB] at t1
      exact ⟨by rw [t1],
        t2.trans ((List.Perm.swap _ _ _).trans (List.Perm.cons _ (List.Perm.cons _ (List.perm_append_comm.trans hrest.symm))))⟩
  obtain ⟨k1, k2⟩ := key u (by rw [hu]; cases aFirst <;> simp)
  have htips : u.tipNames.Perm t.tipNames := k1.trans q1
  have hnu : u.tipNames.Nodup := htips.nodup_iff.2 hn
  have hpA : ((oldRoot t r).leaves ++ c.leaves).Perm u.tipNames := List.perm_append_comm.trans k1.symm
  -- `u` has two branches for the split that `t` has one branch for
  have hgu : LensGood u.splits := by
    intro s hs
    rcases List.mem_cons.1 (k2.mem_iff.1 hs) with rfl | hs
    · exact ga
    · rcases List.mem_cons.1 hs with rfl | hs
      · exact gb
      · exact hg s (p1.mem_iff.2 (List.mem_cons_of_mem _ hs))
  refine Same.symm (same_of_fuse (t := u) (u := t) (X1 := ⟨(oldRoot t r).leaves, ea, (oldRoot t r).isLeaf⟩)
    (X2 := ⟨c.leaves, eb, c.isLeaf⟩) (Y := ⟨c.leaves, e, c.isLeaf⟩) (rest := rest)
    htips.symm k2 (p1.map nrm) ?_ ?_ hlen (fun _ => hsup) ?_ ?_ hw hgu)
  · exact canonSide_compl hnu hpA
  · exact (canonSide_compl hnu hpA).symm
  · intro a b ha hb
    exact sep_compl hnu hpA ea e _ _ ha hb
  · intro a b _ _; rfl



/-! ## RerootOutGroup: plan and preservation -/

theorem Res.bind_ok {α β : Type} {r : Res α} {f : α → Res β} {v : β} (h : r.bind f = .ok v) :
    ∃ x, r = .ok x ∧ f x = .ok v := by
  cases r with
  | ok x => exact ⟨x, rfl, h⟩
  | err m => simp [Res.bind] at h
  | panic m => simp [Res.bind] at h

theorem check_ok_err {c : Bool} {m : String} {u : Unit} (h : check c (.err m) = .ok u) : c = true := by
  unfold check at h; split at h
  · assumption
  · cases h

theorem check_ok_panic {c : Bool} {m : String} {u : Unit} (h : check c (.panic m) = .ok u) : c = true := by
  unfold check at h; split at h
  · assumption
  · cases h

theorem ofOption_ok_err {α : Type} {o : Option α} {m : String} {v : α} (h : ofOption o (.err m) = .ok v) : o = some v := by
  cases o with
  | none => simp [ofOption] at h
  | some x => simp [ofOption] at h; rw [h]

theorem ofOption_ok_panic {α : Type} {o : Option α} {m : String} {v : α} (h : ofOption o (.panic m) = .ok v) : o = some v := by
  cases o with
  | none => simp [ofOption] at h
  | some x => simp [ofOption] at h; rw [h]

/-- what a successful plan consists of -/
theorem outgroupPlan_ok {strict : Bool} {S : List String} {t1 : T} {pl : Plan}
    (h : outgroupPlan strict S t1 = .ok pl) :
    ∃ spath : List Nat,
      pl.seff = effOutgroup t1 S ∧ pl.seff ≠ [] ∧ tempRootNeighbour t1 pl.seff = some spath ∧
      pl.ts = (rerootP t1 spath none []).1 ∧ 1 < pl.ts.kids.length ∧
      lcaNode pl.seff pl.seff.length pl.ts = .found pl.f.p pl.f.es pl.f.tip pl.f.diff ∧
      (strict = true → pl.f.diff = 0) ∧
      (pl.tn, pl.adj, pl.back) = rerootP pl.ts pl.f.p none (rerootP t1 spath none []).2.2 ∧
      rootEdgeIdx pl.tn (pl.f.es.map (adjIdx pl.adj)) = .ok pl.r := by
  unfold outgroupPlan at h
  obtain ⟨_, _, h⟩ := Res.bind_ok h
  obtain ⟨_, h2, h⟩ := Res.bind_ok h
  obtain ⟨spath, h3, h⟩ := Res.bind_ok h
  obtain ⟨_, h4, h⟩ := Res.bind_ok h
  obtain ⟨f, h5, h⟩ := Res.bind_ok h
  obtain ⟨_, h6, h⟩ := Res.bind_ok h
  obtain ⟨r, h7, h⟩ := Res.bind_ok h
  cases h
  refine ⟨spath, rfl, ?_, ofOption_ok_err h3, rfl, ?_, ?_, ?_, rfl, h7⟩
  · have := check_ok_err h2
    intro he
    simp only [Bool.not_eq_true', List.isEmpty_eq_false_iff] at this
    exact this he
  · cases strict
    · simpa using check_ok_err h4
    · simpa using check_ok_err h4
  · unfold lcaRes at h5
    split at h5
    · cases h5
    · cases h5; assumption
  · intro hs
    have := check_ok_err h6
    subst hs
    simpa using this

theorem unroot_lensGood (t : T) (hg : LensGood t.splits) : LensGood (unroot t).splits := by
  by_cases hr : ∃ d p e1 e2 d1 d2 p1 p2 k1 k2, t = .node d p [(e1, .node d1 p1 k1), (e2, .node d2 p2 k2)]
  · obtain ⟨d, p, e1, e2, d1, d2, p1, p2, k1, k2, rfl⟩ := hr
    rw [unroot_rooted]
    have hsp : (T.node d p [(e1, T.node d1 p1 k1), (e2, T.node d2 p2 k2)]).splits =
        ⟨(T.node d1 p1 k1).leaves, e1, k1.isEmpty⟩ :: (splitsL k1 ++
          (⟨(T.node d2 p2 k2).leaves, e2, k2.isEmpty⟩ :: (splitsL k2 ++ []))) := by
      simp [T.splits, splitsL_cons, splitsL_nil, T.splitsBelow_node, T.isLeaf_node]
    rw [hsp] at hg
    have g1 : GoodL e1.len := hg ⟨(T.node d1 p1 k1).leaves, e1, k1.isEmpty⟩ (by simp)
    have g2 : GoodL e2.len := hg ⟨(T.node d2 p2 k2).leaves, e2, k2.isEmpty⟩ (by simp)
    have g3 : GoodL (unrootEdge k1.isEmpty k2.isEmpty e1 e2).len := by
      show GoodL (unrootLen e1 e2)
      rw [unrootLen_eq g1 g2]; exact fuseLen_good g1 g2
    have in1 : ∀ s ∈ splitsL k1, GoodL s.e.len := fun s hs => hg s (by simp [hs])
    have in2 : ∀ s ∈ splitsL k2, GoodL s.e.len := fun s hs => hg s (by simp [hs])
    intro s hs
    split at hs
    · simp only [T.splits, T.kids_node, splitsL_append, splitsL_cons, splitsL_nil, T.splitsBelow_node,
        List.mem_append, List.mem_cons, List.append_nil] at hs
      rcases hs with hs | hs | hs
      all_goals first | exact in1 _ hs | exact in2 _ hs | (subst hs; exact g3)
    · simp only [T.splits, T.kids_node, splitsL_append, splitsL_cons, splitsL_nil, T.splitsBelow_node,
        List.mem_append, List.mem_cons, List.append_nil] at hs
      rcases hs with hs | hs | hs
      all_goals first | exact in1 _ hs | exact in2 _ hs | (subst hs; exact g3)
  · rw [unroot_other t (fun d p e1 e2 d1 d2 p1 p2 k1 k2 h => hr ⟨d, p, e1, e2, d1, d2, p1, p2, k1, k2, h⟩)]
    exact hg

theorem halfEdge_good {e : EdgeD} (g : GoodL e.len) : GoodL (halfEdge e).len := by
  unfold halfEdge GoodL NIL at *
  by_cases h : e.len = -1 <;> simp [h] <;> grind

theorem halfEdge_len {e : EdgeD} (g : GoodL e.len) : e.len = fuseLen (halfEdge e).len (halfEdge e).len := by
  unfold halfEdge fuseLen GoodL NIL at *
  by_cases h : e.len = -1 <;> simp [h] <;> grind

theorem halfEdge_sup (e : EdgeD) : e.sup = fuseSup (halfEdge e).sup (halfEdge e).sup := by
  simp [halfEdge, fuseSup]

theorem halfEdge_lenOr0 {e : EdgeD} (g : GoodL e.len) : e.lenOr0 = (halfEdge e).lenOr0 + (halfEdge e).lenOr0 := by
  unfold EdgeD.lenOr0 halfEdge GoodL NIL at *
  by_cases h : e.len = -1 <;> simp [h] <;> grind

/-- the branch of kid `r` is in the split list -/
theorem kid_mem_splits (t : T) (r : Nat) (e : EdgeD) (c : T) (hk : t.kids[r]? = some (e, c)) :
    (⟨c.leaves, e, c.isLeaf⟩ : SplitE) ∈ t.splits := by
  obtain ⟨rest, p1, _⟩ := moveRoot_splits_perm t r e c hk
  exact p1.mem_iff.2 (by simp)

/-- Outgroup rooting (outgroup kept), when it succeeds, keeps the tree. -/
theorem outgroup_same (t t' : T) (strict : Bool) (S : List String)
    (h : rerootOutGroup false strict S t = .ok t') (hu : t.tipNames.Nodup) (hg : LensGood t.splits)
    (hs : ∀ s ∈ t.splits, GoodL s.e.sup) : Same t t' := by
  unfold rerootOutGroup rerootOutGroupWith at h
  obtain ⟨pl, hpl, h⟩ := Res.bind_ok h
  obtain ⟨ec, hec, h⟩ := Res.bind_ok h
  obtain ⟨e, c⟩ := ec
  have hk := ofOption_ok_panic hec
  simp only [Bool.false_eq_true, if_false] at h
  have hcut := ofOption_ok_panic h
  obtain ⟨spath, _, _, _, hts, _, _, _, htn, _⟩ := outgroupPlan_ok hpl
  have S1 := unroot_same t hu hg hs
  have hu1 : (unroot t).tipNames.Nodup := S1.tips.nodup_iff.2 hu
  obtain ⟨S2, g2⟩ := rerootP_same spath (unroot t) none [] hu1 (unroot_lensGood t hg)
  rw [← hts] at S2 g2
  have hu2 : pl.ts.tipNames.Nodup := S2.tips.nodup_iff.2 hu1
  obtain ⟨S3, g3⟩ := rerootP_same pl.f.p pl.ts none (rerootP (unroot t) spath none []).2.2 hu2 g2
  rw [← htn] at S3 g3
  have hu3 : pl.tn.tipNames.Nodup := S3.tips.nodup_iff.2 hu2
  have ge : GoodL e.len := g3 _ (kid_mem_splits pl.tn pl.r e c hk)
  exact ((S1.trans S2).trans S3).trans
    (cutAt_same pl.tn t' pl.r (halfEdge e) (halfEdge e) _ e c hk hcut hu3 g3 (halfEdge_good ge) (halfEdge_good ge)
      (halfEdge_len ge) (halfEdge_sup e) (halfEdge_lenOr0 ge))



/-! ## what re-rooting along a path presents -/

/-- follow a child-index path: the branch and the node reached -/
def descend : Kids → List Nat → Option (EdgeD × T)
  | _, [] => none
  | K, [i] => K[i]?
  | K, i :: j :: r =>
    match K[i]? with
    | none => none
    | some (_, c) => descend c.kids (j :: r)

theorem insertAt_min {α : Type} (l : List α) (p : Nat) (x : α) : insertAt l p x = insertAt l (min p l.length) x := by
  unfold insertAt
  by_cases h : p ≤ l.length
  · rw [Nat.min_eq_left h]
  · have h' : l.length ≤ p := by omega
    rw [Nat.min_eq_right h', List.take_of_length_le h', List.drop_of_length_le h']
    simp

theorem getElem_insertAt_adj {α : Type} (l : List α) (pos i : Nat) (x : α) (hp : pos ≤ l.length) :
    (insertAt l pos x)[adjIdx (some pos) i]? = l[i]? := by
  unfold insertAt adjIdx
  simp only
  by_cases h : i < pos
  · simp only [h, if_true]
    rw [List.getElem?_append_left (by simp; omega), List.getElem?_take_of_lt h]
  · simp only [h, if_false]
    rw [List.getElem?_append_right (by simp; omega)]
    have : i + 1 - (List.take pos l).length = (i - pos) + 1 := by simp; omega
    rw [this, List.getElem?_cons_succ, List.getElem?_drop]
    congr 1; omega

/-- the kids of the root of the moment, seen as the raw kid list `K` of the node it is -/
def Inv (t : T) (adj : Option Nat) (K : Kids) : Prop :=
  match adj with
  | none => t.kids = K
  | some pos => pos ≤ K.length ∧ ∃ x, t.kids = insertAt K pos x

theorem Inv.get {t : T} {adj : Option Nat} {K : Kids} (h : Inv t adj K) (i : Nat) :
    t.kids[adjIdx adj i]? = K[i]? := by
  cases adj with
  | none => simp only [Inv] at h; simp [adjIdx, h]
  | some pos =>
    obtain ⟨hp, x, hx⟩ := h
    rw [hx]; exact getElem_insertAt_adj K pos i x hp

/-- **Re-rooting along a path presents the tree at the node reached**: the root carries the data
    of that node, its kids are the node's kids with the former parent inserted. -/
theorem rerootP_descend : ∀ (path : List Nat) (t : T) (adj : Option Nat) (back : List Nat) (K : Kids)
    (e : EdgeD) (c : T), Inv t adj K → descend K path = some (e, c) →
    ∃ pos x, (rerootP t path adj back).1 = .node c.d 0 (insertAt c.kids pos (e, x)) ∧
      (rerootP t path adj back).2.1 = some pos ∧ pos ≤ c.kids.length
  | [], _, _, _, _, _, _, _, hd => by simp [descend] at hd
  | [i], t, adj, back, K, e, c, hinv, hd => by
    simp only [descend] at hd
    have hk : t.kids[adjIdx adj i]? = some (e, c) := by rw [hinv.get i]; exact hd
    rw [rerootP_cons_some t i [] adj back e c hk, rerootP_nil]
    refine ⟨min c.ppos c.kids.length, oldRoot t (adjIdx adj i), ?_, rfl, Nat.min_le_right _ _⟩
    rw [moveRoot_of_get t _ e c hk, ← insertAt_min]
  | i :: j :: r, t, adj, back, K, e, c, hinv, hd => by
    simp only [descend] at hd
    cases hki : K[i]? with
    | none => simp [hki] at hd
    | some ec0 =>
      obtain ⟨e0, c0⟩ := ec0
      simp only [hki] at hd
      have hk : t.kids[adjIdx adj i]? = some (e0, c0) := by rw [hinv.get i]; exact hki
      rw [rerootP_cons_some t i (j :: r) adj back e0 c0 hk]
      refine rerootP_descend (j :: r) _ _ _ c0.kids e c ?_ hd
      refine ⟨Nat.min_le_right _ _, (e0, oldRoot t (adjIdx adj i)), ?_⟩
      rw [moveRoot_of_get t _ e0 c0 hk, T.kids_node, ← insertAt_min]


end Gotree.C05
