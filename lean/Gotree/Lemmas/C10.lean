/-
  C10 lemmas, part A: the post-order recursion `minTransferDistRecur` (with its
  early stop) computes the least of the per-branch distances and never more
  than the starting value `p - 1`.
-/
import Gotree.Spec.C10
import Gotree.Lemmas.C14

namespace Gotree.C10
open Gotree

/-- number of heavy-side ("one") tips in a list of leaves -/
def onesOf (light : String → Bool) (l : List String) : Nat := l.countP (fun x => !light x)

/-- the distance the code computes for a bootstrap branch with the leaves `B` below it -/
def dOf (light : String → Bool) (p n : Int) (B : List String) : Int :=
  edgeDist p n B.length (onesOf light B)

/-- `m` is the least of `init` and the values satisfying `S` -/
def IsMinOf (init : Int) (S : Int → Prop) (m : Int) : Prop :=
  m ≤ init ∧ (∀ d, S d → m ≤ d) ∧ (m = init ∨ S m)

theorem IsMinOf.unique {init : Int} {S : Int → Prop} {m m' : Int}
    (h : IsMinOf init S m) (h' : IsMinOf init S m') : m = m' := by
  obtain ⟨a1, a2, a3⟩ := h
  obtain ⟨b1, b2, b3⟩ := h'
  have h1 : m ≤ m' := by
    rcases b3 with rfl | hs
    · exact a1
    · exact a2 _ hs
  have h2 : m' ≤ m := by
    rcases a3 with rfl | hs
    · exact b1
    · exact b2 _ hs
  omega

theorem IsMinOf.refl (init : Int) (S : Int → Prop) (h : ∀ d, S d → init ≤ d) : IsMinOf init S init :=
  ⟨Int.le_refl _, h, Or.inl rfl⟩

theorem IsMinOf.trans {a m₁ m₂ : Int} {S₁ S₂ : Int → Prop}
    (h₁ : IsMinOf a S₁ m₁) (h₂ : IsMinOf m₁ S₂ m₂) : IsMinOf a (fun d => S₁ d ∨ S₂ d) m₂ := by
  obtain ⟨a1, a2, a3⟩ := h₁
  obtain ⟨b1, b2, b3⟩ := h₂
  refine ⟨by omega, ?_, ?_⟩
  · intro d hd
    rcases hd with hd | hd
    · have := a2 d hd; omega
    · exact b2 d hd
  · rcases b3 with rfl | hs
    · rcases a3 with rfl | hs
      · exact Or.inl rfl
      · exact Or.inr (Or.inl hs)
    · exact Or.inr (Or.inr hs)

theorem IsMinOf.mono {a m : Int} {S S' : Int → Prop} (h : IsMinOf a S m) (hs : ∀ d, S d ↔ S' d) :
    IsMinOf a S' m := by
  obtain ⟨a1, a2, a3⟩ := h
  exact ⟨a1, fun d hd => a2 d ((hs d).2 hd), a3.imp id (fun x => (hs m).1 x)⟩

/-- `foldl min` is the least of the start value and the elements -/
theorem foldl_min_isMin (l : List Int) (init : Int) : IsMinOf init (fun d => d ∈ l) (l.foldl min init) := by
  induction l generalizing init with
  | nil => exact ⟨Int.le_refl _, by simp, Or.inl rfl⟩
  | cons x l ih =>
    simp only [List.foldl_cons]
    obtain ⟨a1, a2, a3⟩ := ih (min init x)
    refine ⟨by have := Int.min_le_left init x; omega, ?_, ?_⟩
    · intro d hd
      rcases List.mem_cons.1 hd with rfl | hd
      · have := Int.min_le_right init d; omega
      · exact a2 d hd
    · rcases a3 with h | h
      · rw [h]
        by_cases hx : init ≤ x
        · left; simp [Int.min_def, hx]
        · right; simp [Int.min_def, hx]
      · right; exact List.mem_cons_of_mem _ h

/-- what the recursion guarantees when it returns `(o, st')`, entered with `stop = false`
    and `dist = init`, over a set `S` of distances, `oexp` the expected count of ones -/
def Good (absent : Bool) (init : Int) (S : Int → Prop) (o oexp : Nat) (st' : MS) : Prop :=
  (st'.stop = false → o = oexp ∧ IsMinOf init S st'.dist) ∧
  (st'.stop = true → absent = true ∧ st'.dist = 1 ∧ S 1 ∧ 1 ≤ init)

/-- one visit of a branch after its subtree went through without stopping -/
theorem visit_good (absent : Bool) (p n : Int) (r ones : Nat) (init : Int) (S : Int → Prop) (st : MS)
    (hst : st.stop = false) (hm : IsMinOf init S st.dist) :
    Good absent init (fun d => S d ∨ d = edgeDist p n r ones) ones ones (visitEdge p n absent r ones st) := by
  obtain ⟨a1, a2, a3⟩ := hm
  unfold Good
  by_cases hd : edgeDist p n r ones ≤ st.dist
  · have hv : visitEdge p n absent r ones st =
        ⟨edgeDist p n r ones, (edgeDist p n r ones == 1 && absent)⟩ := by
      simp [visitEdge, hd, hst]
    rw [hv]
    refine ⟨fun _ => ⟨rfl, ?_, ?_, Or.inr (Or.inr rfl)⟩, fun hs => ?_⟩
    · exact Int.le_trans hd a1
    · intro d h
      rcases h with h | h
      · exact Int.le_trans hd (a2 d h)
      · rw [h]; exact Int.le_refl _
    · have hs' : edgeDist p n r ones = 1 ∧ absent = true := by
        simpa [Bool.and_eq_true, beq_iff_eq] using hs
      refine ⟨hs'.2, hs'.1, Or.inr hs'.1.symm, ?_⟩
      have := hs'.1; omega
  · have hv : visitEdge p n absent r ones st = st := by simp [visitEdge, hd]
    rw [hv]
    refine ⟨fun _ => ⟨rfl, a1, ?_, a3.imp id Or.inl⟩, fun hs => ?_⟩
    · intro d h
      rcases h with h | h
      · exact a2 d h
      · omega
    · rw [hst] at hs; cases hs

section recur
variable (light : String → Bool) (p n : Int) (absent : Bool)

/-- the distances of the branches of a forest -/
def DsetL (k : Kids) (d : Int) : Prop := ∃ s ∈ splitsL k, d = dOf light p n s.below

theorem DsetL_cons (e : EdgeD) (t : T) (r : Kids) (d : Int) :
    DsetL light p n ((e, t) :: r) d ↔
      (d = dOf light p n t.leaves ∨ DsetL light p n t.kids d) ∨ DsetL light p n r d := by
  unfold DsetL
  cases t with
  | node x pp k =>
    simp only [splitsL, T.splitsBelow, List.mem_cons, List.mem_append, T.kids_node]
    constructor
    · rintro ⟨s, (rfl | hs | hs), hd⟩
      · exact Or.inl (Or.inl hd)
      · exact Or.inl (Or.inr ⟨s, hs, hd⟩)
      · exact Or.inr ⟨s, hs, hd⟩
    · rintro ((hd | ⟨s, hs, hd⟩) | ⟨s, hs, hd⟩)
      · exact ⟨_, Or.inl rfl, hd⟩
      · exact ⟨s, Or.inr (Or.inl hs), hd⟩
      · exact ⟨s, Or.inr (Or.inr hs), hd⟩

mutual
theorem mtdNode_good : ∀ (t : T) (st : MS), st.stop = false →
    Good absent st.dist (fun d => d = dOf light p n t.leaves ∨ DsetL light p n t.kids d)
      (mtdNode light p n absent t st).1 (onesOf light t.leaves) (mtdNode light p n absent t st).2
  | .node x _ [], st, hst => by
    have hv := visit_good absent p n 1 (if light x.name then 0 else 1) st.dist (fun _ => False) st hst
      (IsMinOf.refl _ _ (by intro d h; cases h))
    have ho : onesOf light [x.name] = (if light x.name then 0 else 1) := by
      unfold onesOf; by_cases hl : light x.name <;> simp [hl]
    have hd : dOf light p n [x.name] = edgeDist p n 1 (if light x.name then 0 else 1) := by
      unfold dOf; rw [ho]; rfl
    simp only [mtdNode, hst, Bool.false_eq_true, if_false, T.leaves, T.kids_node, ho, hd]
    obtain ⟨g1, g2⟩ := hv
    refine ⟨fun h => ?_, fun h => ?_⟩
    · obtain ⟨e1, e2⟩ := g1 h
      exact ⟨e1, e2.mono (fun d => by simp [DsetL, splitsL])⟩
    · obtain ⟨e1, e2, e3, e4⟩ := g2 h
      exact ⟨e1, e2, Or.inl (by simpa using e3), e4⟩
  | .node x _ (k :: ks), st, hst => by
    have ih := mtdKids_good (k :: ks) st hst
    simp only [mtdNode, hst, Bool.false_eq_true, if_false, T.leaves, T.kids_node]
    generalize hres : mtdKids light p n absent (k :: ks) st = res at ih
    obtain ⟨ones, st'⟩ := res
    simp only [] at ih ⊢
    obtain ⟨g1, g2⟩ := ih
    by_cases hs : st'.stop = true
    · simp only [hs, if_true]
      obtain ⟨e1, e2, e3, e4⟩ := g2 hs
      exact ⟨fun h => (by rw [hs] at h; cases h), fun _ => ⟨e1, e2, Or.inr e3, e4⟩⟩
    · have hs' : st'.stop = false := by simpa using hs
      obtain ⟨e1, e2⟩ := g1 hs'
      simp only [hs', Bool.false_eq_true, if_false]
      have hv := visit_good absent p n (leavesL (k :: ks)).length ones st.dist
        (DsetL light p n (k :: ks)) st' hs' e2
      have hd : dOf light p n (leavesL (k :: ks)) = edgeDist p n (leavesL (k :: ks)).length ones := by
        unfold dOf; rw [e1]
      obtain ⟨v1, v2⟩ := hv
      refine ⟨fun h => ?_, fun h => ?_⟩
      · obtain ⟨_, f2⟩ := v1 h
        exact ⟨e1, f2.mono (fun d => by rw [hd]; exact Or.comm)⟩
      · obtain ⟨f1, f2, f3, f4⟩ := v2 h
        exact ⟨f1, f2, by rw [hd]; exact Or.comm.1 f3, f4⟩
theorem mtdKids_good : ∀ (k : Kids) (st : MS), st.stop = false →
    Good absent st.dist (DsetL light p n k)
      (mtdKids light p n absent k st).1 (onesOf light (leavesL k)) (mtdKids light p n absent k st).2
  | [], st, hst => by
    simp only [mtdKids, leavesL, onesOf, List.countP_nil]
    exact ⟨fun _ => ⟨rfl, IsMinOf.refl _ _ (by intro d ⟨s, hs, _⟩; simp [splitsL] at hs)⟩,
      fun h => by rw [hst] at h; cases h⟩
  | (e, t) :: rest, st, hst => by
    have ih1 := mtdNode_good t st hst
    simp only [mtdKids]
    generalize hres : mtdNode light p n absent t st = res at ih1
    obtain ⟨o₁, st₁⟩ := res
    simp only [] at ih1 ⊢
    obtain ⟨g1, g2⟩ := ih1
    by_cases hs : st₁.stop = true
    · simp only [hs, if_true]
      obtain ⟨e1, e2, e3, e4⟩ := g2 hs
      exact ⟨fun h => (by rw [hs] at h; cases h),
        fun _ => ⟨e1, e2, (DsetL_cons light p n e t rest 1).2 (Or.inl e3), e4⟩⟩
    · have hs' : st₁.stop = false := by simpa using hs
      obtain ⟨e1, e2⟩ := g1 hs'
      simp only [hs', Bool.false_eq_true, if_false]
      have ih2 := mtdKids_good rest st₁ hs'
      generalize hres2 : mtdKids light p n absent rest st₁ = res2 at ih2
      obtain ⟨o₂, st₂⟩ := res2
      simp only [] at ih2 ⊢
      obtain ⟨k1, k2⟩ := ih2
      refine ⟨fun h => ?_, fun h => ?_⟩
      · obtain ⟨f1, f2⟩ := k1 h
        refine ⟨?_, (e2.trans f2).mono (fun d => (DsetL_cons light p n e t rest d).symm)⟩
        simp only [leavesL, onesOf, List.countP_append] at *
        omega
      · obtain ⟨f1, f2, f3, f4⟩ := k2 h
        refine ⟨f1, f2, (DsetL_cons light p n e t rest 1).2 (Or.inr f3), ?_⟩
        have := e2.1; omega
end

end recur

/-- ★ the recursion is the fold of `min` over the split list, started at `p - 1` -/
theorem minTransferDist_eq_fold (light : String → Bool) (p n : Int) (absent : Bool) (b : T)
    (hp : p ≠ 1) (hroot : b.kids.length ≠ 1)
    (habs : absent = true → ∀ s ∈ b.splits, 1 ≤ dOf light p n s.below) :
    minTransferDist light p n absent b =
      (b.splits.map fun s => dOf light p n s.below).foldl min (p - 1) := by
  have hfold := foldl_min_isMin (b.splits.map fun s => dOf light p n s.below) (p - 1)
  have hS : ∀ d, (d ∈ b.splits.map fun s => dOf light p n s.below) ↔ DsetL light p n b.kids d := by
    intro d
    simp only [List.mem_map, DsetL, T.splits]
    constructor
    · rintro ⟨s, hs, rfl⟩; exact ⟨s, hs, rfl⟩
    · rintro ⟨s, hs, rfl⟩; exact ⟨s, hs, rfl⟩
  unfold minTransferDist
  have hp' : (p == 1) = false := by simpa using hp
  have hr' : (b.kids.length == 1) = false := by simpa using hroot
  simp only [hp', hr', Bool.false_eq_true, if_false]
  have hg := mtdKids_good light p n absent b.kids ⟨p - 1, false⟩ rfl
  obtain ⟨g1, g2⟩ := hg
  by_cases hs : (mtdKids light p n absent b.kids ⟨p - 1, false⟩).2.stop = true
  · obtain ⟨e1, e2, ⟨s, hs1, hs2⟩, e4⟩ := g2 hs
    have hmin : IsMinOf (p - 1) (DsetL light p n b.kids) 1 := by
      refine ⟨e4, ?_, Or.inr ⟨s, hs1, hs2⟩⟩
      rintro d ⟨s', hs', rfl⟩
      exact habs e1 s' hs'
    rw [e2]
    exact (hmin.unique (hfold.mono hS))
  · have hs' : (mtdKids light p n absent b.kids ⟨p - 1, false⟩).2.stop = false := by simpa using hs
    exact ((g1 hs').2.unique (hfold.mono hS))

/-- the recursion never returns more than its starting value -/
theorem minTransferDist_le (light : String → Bool) (p n : Int) (absent : Bool) (b : T) :
    minTransferDist light p n absent b ≤ p - 1 := by
  unfold minTransferDist
  by_cases hp : (p == 1) = true
  · simp [hp]
  · by_cases hr : (b.kids.length == 1) = true
    · simp [hp, hr]
    · simp only [hp, hr, Bool.false_eq_true, if_false]
      have hg := mtdKids_good light p n absent b.kids ⟨p - 1, false⟩ rfl
      obtain ⟨g1, g2⟩ := hg
      by_cases hs : (mtdKids light p n absent b.kids ⟨p - 1, false⟩).2.stop = true
      · obtain ⟨_, e2, _, e4⟩ := g2 hs
        rw [e2]; exact e4
      · have hs' : (mtdKids light p n absent b.kids ⟨p - 1, false⟩).2.stop = false := by simpa using hs
        exact (g1 hs').2.1

end Gotree.C10
