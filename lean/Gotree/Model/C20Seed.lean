/-
  C20 — the seed of the commands (cmd/root.go, PersistentPreRun) and the option defaults the
  commands fall back on.  Core Lean only.
-/
namespace Gotree.C20

/-- `--seed` (Int64, default `-1`): `if seed == -1 { seed = time.Now().UTC().UnixNano() }; rand.Seed(seed)`.
    `flag = none`: the option is absent.  `clock` = what `UnixNano()` answers.  `-1` is the only
    sentinel: every other value (0 and the other negative numbers included) seeds the source as it is. -/
def seedUsed (flag : Option Int) (clock : Int) : Int :=
  let s := flag.getD (-1)
  if s == -1 then clock else s

/-- is the run reproducible, i.e. does the seed not depend on the clock -/
def seedFixed (flag : Option Int) : Bool := flag.getD (-1) != -1

/-- `sampleCmd.PersistentFlags().IntVarP(&numtrees, "nbtrees", "n", 1, …)`: `gotree sample` without `-n` -/
def sampleDefaultN : Int := 1

/-- `pruneCmd.PersistentFlags().IntVar(&randomtips, "random", 0, …)`: without `--random` nothing is drawn
    (`pruneSelection … 0 …` takes the names of the command line) -/
def pruneDefaultRandom : Int := 0

end Gotree.C20
