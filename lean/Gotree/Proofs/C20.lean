/-
  C20 — the property theorems (DESIGN §6 C20, Appendix B).  Everything is about the
  model functions of `Gotree/Model/C20.lean` that the driver runs against the Go
  code; "unbiased" is a counting statement over the explicit draw space `space bounds`
  (all lists `d` with `d[i] < bounds[i]`, i.e. all possible answers of the scripted
  `rand.Intn` calls): all fibres of `draws ↦ outcome` have the same size.
-/
import Gotree.Lemmas.C20Topo
import Gotree.Lemmas.C20Rose
import Gotree.Model.C20Seed

namespace Gotree.C20
open Gotree

/-! ### the hypotheses are satisfiable on non-trivial instances -/

example : isSubsetK [false, true, false, true, false] 2 5 = true := by decide
example : (space (resScript (· + 1) 2 4)).length = 12 := by decide
example : reservoir 2 (List.range 4) [0, 3] = [2, 1] := by decide
example : indicator 4 (reservoir 2 (List.range 4) [0, 3]) = [false, true, true, false] := by decide

/-! ### reservoir sampling without replacement (`gotree sample`, `gotree prune --random`) -/

/-- ★ Every `k`-element subset `s` of the `n` items is the outcome of exactly `(n-k)!`
    of the `(k+1)·(k+2)·…·n` possible draw lists: the selection is uniform over the
    `k`-subsets, for all `k ≤ n`. -/
theorem reservoir_uniform (k n : Nat) (hk : k ≤ n) (s : List Bool) (hS : isSubsetK s k n = true) :
    ((space (resScript (· + 1) k n)).filter fun d =>
        indicator n (reservoir k (List.range n) d) == s).length = fact (n - k) := by
  obtain ⟨m, rfl⟩ : ∃ m, n = k + m := ⟨n - k, by omega⟩
  simp only [isSubsetK, Bool.and_eq_true, beq_iff_eq] at hS
  rw [← List.countP_eq_length_filter, show k + m - k = m by omega]
  have := reservoir_count k m s hS.1 hS.2
  simpa [reservoir_eq_fold] using this

example : isSortedSubset [1, 3] 2 5 = true := by decide

/-- ★ the same statement in the words of DESIGN Appendix B: for every `k`-subset `S` of
    `{0, …, n-1}`, written as its increasing list, exactly `(n-k)!` draw lists leave the
    reservoir holding `S`. -/
theorem reservoir_uniform_sorted (k n : Nat) (hk : k ≤ n) (S : List Nat) (hS : isSortedSubset S k n = true) :
    ((space (resScript (· + 1) k n)).filter fun d =>
        sortNat (reservoir k (List.range n) d) == S).length = fact (n - k) := by
  simp only [isSortedSubset, Bool.and_eq_true, beq_iff_eq, List.all_eq_true, decide_eq_true_eq] at hS
  obtain ⟨⟨hlen, hlt⟩, hsorted⟩ := hS
  have hpw := pairwise_of_sortedLt S hsorted
  have hnd := nodup_of_pairwise_lt S hpw
  have hsub : isSubsetK (indicator n S) k n = true := by
    have h1 := count_indicator n S hnd hlt
    have h2 : (indicator n S).length = n := by simp [indicator]
    simp only [isSubsetK, h1, h2, hlen, BEq.rfl, Bool.and_self]
  rw [← reservoir_uniform k n hk (indicator n S) hsub, ← List.countP_eq_length_filter, ← List.countP_eq_length_filter]
  apply List.countP_congr
  intro d hd
  obtain ⟨m, rfl⟩ : ∃ m, n = k + m := ⟨n - k, by omega⟩
  have hl : d.length = m := by rw [length_of_mem_space hd, length_resScript]; omega
  have hinv := resInv k m d hl
  rw [← reservoir_eq_fold] at hinv
  simp only [beq_iff_eq]
  rw [indicator_eq_iff _ _ _ hinv.lt hlt]
  constructor
  · intro h x; rw [← h, mem_sortNat]
  · intro h
    apply sorted_ext _ _ (sortNat_sorted _ hinv.nodup) hpw
    intro x; rw [mem_sortNat]; exact h x

/-- `k ≥ n`: all items are kept (in input order), whatever the draws. -/
theorem reservoir_all_kept (k : Nat) (items : List α) (d : List Nat) (h : items.length ≤ k) :
    reservoir k items d = items :=
  reservoir_all k items d h

/-- the size of the draw space: `(k+1)·…·n = n!/k!` draw lists -/
theorem reservoir_space_size (k m : Nat) :
    (space (resScript (· + 1) k (k + m))).length * fact k = fact (k + m) := by
  induction m with
  | zero => simp [resScript_self, space_nil]
  | succ m ih =>
    rw [show k + (m + 1) = (k + m) + 1 from rfl, resScript_succ _ _ _ (Nat.le_add_right _ _), space_snoc,
      List.length_flatMap]
    simp only [List.length_map, List.length_range]
    rw [sum_map_const, fact, ← ih]
    simp [Nat.mul_comm, Nat.mul_left_comm]

/-- Every item has a non-zero chance (`1 ≤ k ≤ n`): for each item `x` some draw list selects
    it — in particular the first one, which F27/F28 made unselectable. -/
theorem reservoir_every_item_selectable (k n x : Nat) (hk : 1 ≤ k) (hkn : k ≤ n) (hx : x < n) :
    ∃ d ∈ space (resScript (· + 1) k n), x ∈ reservoir k (List.range n) d := by
  obtain ⟨s, hl, hc, hsx⟩ := exists_subset_containing k n x hk hkn hx
  have hS : isSubsetK s k n = true := by simp [isSubsetK, hl, hc]
  have h := reservoir_uniform k n hkn s hS
  have hpos : 0 < fact (n - k) := by
    generalize n - k = m
    induction m with
    | zero => simp [fact]
    | succ m ih => simp [fact]; exact ih
  rw [← h] at hpos
  obtain ⟨d, hd⟩ := List.exists_mem_of_length_pos hpos
  rw [List.mem_filter] at hd
  refine ⟨d, hd.1, ?_⟩
  have he : indicator n (reservoir k (List.range n) d) = s := by simpa using hd.2
  have h0 : (indicator n (reservoir k (List.range n) d))[x]? = some true := by rw [he]; exact hsx
  simp [indicator, hx] at h0
  exact h0

/-! #### before 1a7ed4d / cc52c59 (F27, F28): `Intn(i)` instead of `Intn(i+1)` -/

/-- F27: with `k = 1`, `n = 2` the pinned bound leaves one draw list, and it selects item 1. -/
theorem reservoir_pinned_fails_first_unselectable :
    ((space (resScript id 1 2)).filter fun d => indicator 2 (reservoir 1 (List.range 2) d) == [true, false]).length = 0 ∧
    ((space (resScript id 1 2)).filter fun d => indicator 2 (reservoir 1 (List.range 2) d) == [false, true]).length = 1 := by
  decide

/-- F28: from 4 items with `k = 2` the pinned bound never draws the subset `{0, 1}`. -/
theorem reservoir_pinned_fails_subset_unreachable :
    ((space (resScript id 2 4)).filter fun d =>
        indicator 4 (reservoir 2 (List.range 4) d) == [true, true, false, false]).length = 0 := by
  decide

/-- … while the code as it is now reaches it twice (`(4-2)!`). -/
example : ((space (resScript (· + 1) 2 4)).filter fun d =>
    indicator 4 (reservoir 2 (List.range 4) d) == [true, true, false, false]).length = 2 := by decide

/-- The selection is a matter of positions only: selecting among any items is selecting
    among their positions `0 … n-1`, so `reservoir_uniform` speaks about trees of a file and
    about the tips of a tree (`randomTips`) alike. -/
theorem reservoir_positions (k : Nat) (items : List α) (dflt : α) (d : List Nat) :
    reservoir k items d = (reservoir k (List.range items.length) d).map fun q => items.getD q dflt := by
  rw [← reservoir_map, map_getD_range]

theorem randomTips_positions (t : T) (k : Nat) (d : List Nat) :
    randomTips t k d = (reservoir k (List.range t.tipNames.length) d).map fun q => t.tipNames.getD q "" :=
  reservoir_positions k t.tipNames "" d

/-! ### `gotree prune`: which option decides (`pruneSelection`, compared with the binary) -/

/-- only `--random k` (k > 0) without `-f` and `-c` draws, and then it is `randomTips`, to which
    `reservoir_uniform` applies through `randomTips_positions` -/
theorem pruneSelection_random (k : Nat) (hk : 0 < k) (args : List String) (t : T) (d : List Nat) :
    pruneSelection none none (k : Int) args t d = randomTips t k d := by
  simp only [pruneSelection, gt_iff_lt, Int.natCast_pos, hk, if_true, Int.toNat_natCast]

/-- with `-f`, with `-c`, or without a positive `--random`, the selection does not depend on the draws -/
theorem pruneSelection_deterministic (tipfile comp : Option (List String)) (random : Int) (args : List String)
    (t : T) (d1 d2 : List Nat) (h : tipfile.isSome ∨ comp.isSome ∨ random ≤ 0) :
    pruneSelection tipfile comp random args t d1 = pruneSelection tipfile comp random args t d2 := by
  cases tipfile with
  | some l => rfl
  | none =>
    cases comp with
    | some c => rfl
    | none =>
      have hr : ¬ (random > 0) := by
        rcases h with h | h | h
        · simp at h
        · simp at h
        · omega
      simp [pruneSelection, hr]

/-! ### reservoir sampling with replacement (`gotree sample --replace`) -/

example : sampleReplace 2 (List.range 3) [0, 0, 1, 0, 2, 1] = [some 0, some 1] := by decide
example : [0, 0, 1, 0, 2, 1] ∈ space (replScript 2 3) := by decide

/-- Every assignment `a` of items to the `k` slots is the outcome of exactly `((n-1)!)^k` of
    the `(n!)^k` draw lists: the slots are independent and each is uniform over the `n` items. -/
theorem replace_uniform (k n : Nat) (a : List Nat) (hk : a.length = k) (ha : ∀ t ∈ a, t < n) :
    ((space (replScript k n)).filter fun d =>
        sampleReplace k (List.range n) d == a.map some).length = (fact (n - 1)) ^ k := by
  rw [← List.countP_eq_length_filter, replScript_eq]
  have := cnt_eq_slotProd k n 0 (List.replicate k none) (a.map some) (by simp)
  unfold cnt at this
  simp only [sampleReplace, List.range_eq_range']
  rw [this, ← hk, slotProd_none n a ha]

/-! ### the `gotree sample` command as a whole (`sampleCmd`, compared with the binary) -/

example : (sampleCmd 2 false true [some 0, some 1, some 2, some 3] [0, 3] == CmdRes.ok [2, 1]) = true := by decide
example : (sampleCmd 2 false true [some 0, none] [] == (CmdRes.err : CmdRes Nat)) = true := by decide
example : (sampleCmd (-1) false true [some 0] [] == (CmdRes.err : CmdRes Nat)) = true := by decide

/-- a readable input and a size `k ≥ 0`: the command writes exactly the reservoir -/
theorem sampleCmd_noreplace (k : Nat) (items : List α) (d : List Nat) :
    sampleCmd (k : Int) false true (items.map some) d = CmdRes.ok (reservoir k items d) := by
  have h1 : ¬ ((k : Int) < 0) := by omega
  have h2 : (items.map some).any (·.isNone) = false := by simp
  have h3 : (items.map some).filterMap id = items := by simp [List.filterMap_map]
  simp [sampleCmd, sampleCmdWith, h2, h3]

/-- an unreadable tree anywhere in the input: an error, nothing is written, whatever the draws -/
theorem sampleCmd_err (k : Nat) (replace : Bool) (items : List (Option α)) (d : List Nat)
    (h : none ∈ items) : sampleCmd (k : Int) replace true items d = CmdRes.err := by
  have h1 : ¬ ((k : Int) < 0) := by omega
  have h2 : items.any (·.isNone) = true := by
    rw [List.any_eq_true]; exact ⟨none, h, rfl⟩
  simp [sampleCmd, sampleCmdWith, h2]

/-- `--replace` on `n ≥ 1` readable trees never dereferences an empty slot: the command writes
    the `k` slots of `sampleReplace` (to which `replace_uniform` applies) -/
theorem sampleCmd_replace (k n : Nat) (hn : 1 ≤ n) (d : List Nat) (hd : d ∈ space (sampleCmdScript k true n)) :
    ∃ out, sampleCmd (k : Int) true true ((List.range n).map some) d = CmdRes.ok out ∧
      out.map some = sampleReplace k (List.range n) d := by
  have hb : inBounds (replScript k n) d = true := by
    have := (mem_space_iff _ _).1 hd
    simpa [sampleCmdScript] using this
  have hall := sampleReplace_allSome k n hn d hb
  have h1 : ¬ ((k : Int) < 0) := by omega
  have h2 : ((List.range n).map some).any (·.isNone) = false := by simp
  have h3 : ((List.range n).map some).filterMap id = List.range n := by simp [List.filterMap_map]
  have hnone : (sampleReplace k (List.range n) d).any (·.isNone) = false := by
    rw [Bool.eq_false_iff]
    intro hany
    rw [List.any_eq_true] at hany
    obtain ⟨o, ho, hn'⟩ := hany
    have hs := List.all_eq_true.1 hall o ho
    cases o with
    | none => simp at hs
    | some v => simp at hn'
  refine ⟨(sampleReplace k (List.range n) d).filterMap id, ?_, ?_⟩
  · simp [sampleCmd, sampleCmdWith, h2, h3, hnone]
  · generalize sampleReplace k (List.range n) d = l at hall
    induction l with
    | nil => rfl
    | cons o l ih =>
      simp only [List.all_cons, Bool.and_eq_true] at hall
      cases o with
      | none => simp at hall
      | some v => simp [ih hall.2]

/-- a negative `--nbtrees` is refused with an error, nothing is read or written (4c7dd84) … -/
theorem sampleCmd_negative (k : Int) (hk : k < 0) (replace opened : Bool) (items : List (Option α)) (d : List Nat) :
    sampleCmd k replace opened items d = CmdRes.err := by
  simp [sampleCmd, sampleCmdWith, hk]

/-- … where the command used to die in `make([]*tree.Tree, -1)` (`gotree sample -n -1`). -/
theorem sampleCmd_pinned_fails :
    (sampleCmdPinned (-1) false true [some 0, some 1] [] == (CmdRes.panic : CmdRes Nat)) = true := by decide

/-- `reservoir_uniform` at the level of the command: among the draw lists of a run on `n` readable
    trees, exactly `(n-k)!` make it write the `k`-subset `s` -/
theorem sampleCmd_uniform (k n : Nat) (hk : k ≤ n) (s : List Bool) (hS : isSubsetK s k n = true) :
    ((space (sampleCmdScript k false n)).filter fun d =>
        match sampleCmd (k : Int) false true ((List.range n).map some) d with
        | .ok out => indicator n out == s
        | _ => false).length = fact (n - k) := by
  rw [← reservoir_uniform k n hk s hS]
  simp only [sampleCmd_noreplace, sampleCmdScript, Int.toNat_natCast]
  rfl

/-! ### `rand.Perm` (inside-out Fisher–Yates) and `ShuffleTips` -/

example : goPerm [0, 1, 0, 2] = [2, 1, 3, 0] := by decide
example : [0, 1, 0, 2] ∈ space (permScript 4) := by decide

/-- ★ `rand.Perm(n)` as a function of its `n` draws (`d[i] < i+1`) is a bijection from the
    draw space onto the permutations of `0 … n-1`: every value is a permutation, different
    draw lists give different permutations, and every permutation is produced.
    (`Function.Bijective` is not in core Lean; the three clauses are its definition.) -/
theorem perm_bijective (n : Nat) :
    (∀ d ∈ space (permScript n), (goPerm d).Perm (List.range n)) ∧
    (∀ d1 ∈ space (permScript n), ∀ d2 ∈ space (permScript n), goPerm d1 = goPerm d2 → d1 = d2) ∧
    (∀ p : List Nat, p.Perm (List.range n) → ∃ d ∈ space (permScript n), goPerm d = p) := by
  refine ⟨?_, ?_, ?_⟩
  · intro d hd
    exact goPerm_perm n d ((mem_space_iff _ _).1 hd)
  · intro d1 h1 d2 h2 he
    exact goPerm_injective n d1 d2 ((mem_space_iff _ _).1 h1) ((mem_space_iff _ _).1 h2) he
  · intro p hp
    obtain ⟨d, hd, he⟩ := goPerm_surjective n p hp
    exact ⟨d, (mem_space_iff _ _).2 hd, he⟩

/-- the draw space of `rand.Perm(n)` has `n!` elements -/
theorem perm_space_size (n : Nat) : (space (permScript n)).length = fact n :=
  length_space_perm n

/-- `(a,b,(c,d));` -/
def exT : T :=
  .node ⟨"", []⟩ 0 [(EdgeD.blank, T.leaf "a"), (EdgeD.blank, T.leaf "b"),
    (EdgeD.blank, .node ⟨"", []⟩ 0 [(EdgeD.blank, T.leaf "c"), (EdgeD.blank, T.leaf "d")])]

example : (exT.kids.length == 1) = false ∧ exT.tipNames.Nodup := by decide
example : [0, 1, 0, 2] ∈ space (shuffleScript exT) := by decide
example : shuffleTips exT [0, 1, 0, 2] = ["c", "b", "d", "a"] := by decide
example : randomTips exT 2 [0, 3] = ["c", "b"] := by decide

/-- `ShuffleTips` on a tree whose tip names are unique (the root may be a tip): the new
    names (in `Tips()` order) are a permutation of the old ones, and different draw lists
    give different assignments — with `perm_space_size`, each of the `n!` assignments of the
    names to the tips comes from exactly one draw list. -/
theorem shuffleTips_bijective_all (t : T) (hu : t.tipNames.Nodup) :
    (∀ d ∈ space (shuffleScript t), (shuffleTips t d).Perm t.tipNames) ∧
    (∀ d1 ∈ space (shuffleScript t), ∀ d2 ∈ space (shuffleScript t),
        shuffleTips t d1 = shuffleTips t d2 → d1 = d2) ∧
    (∀ q : List String, q.Perm t.tipNames → ∃ d ∈ space (shuffleScript t), shuffleTips t d = q) := by
  have hn : allTipNames t = t.tipNames := by simp [allTipNames, T.tipNames]
  have hform : ∀ d ∈ space (shuffleScript t),
      shuffleTips t d = (goPerm d).map (fun q => t.tipNames.getD q "") ∧ (goPerm d).Perm (List.range t.tipNames.length) := by
    intro d hd
    have hb := (mem_space_iff _ _).1 hd
    simp only [shuffleScript, hn] at hb
    have hl : d.length = t.tipNames.length := by simpa [permScript] using length_of_inBounds hb
    have hp := goPerm_perm _ d hb
    have hpl : (goPerm d).length = t.tipNames.length := by simpa using hp.length_eq
    refine ⟨?_, hp⟩
    simp only [shuffleTips, shuffleTipsWith, hn]
    rw [List.take_of_length_le (by omega), hpl, List.drop_length, List.append_nil]
  refine ⟨?_, ?_, ?_⟩
  · intro d hd
    obtain ⟨he, hp⟩ := hform d hd
    rw [he]
    have := hp.map (fun q => t.tipNames.getD q "")
    rwa [map_getD_range] at this
  · intro d1 h1 d2 h2 he
    obtain ⟨e1, p1⟩ := hform d1 h1
    obtain ⟨e2, p2⟩ := hform d2 h2
    rw [e1, e2] at he
    have hb1 := (mem_space_iff _ _).1 h1
    have hb2 := (mem_space_iff _ _).1 h2
    simp only [shuffleScript, hn] at hb1 hb2
    apply goPerm_injective _ d1 d2 hb1 hb2
    apply map_getD_injective t.tipNames "" hu _ _ _ _ he
    · intro q hq; have := p1.mem_iff.1 hq; simpa using this
    · intro q hq; have := p2.mem_iff.1 hq; simpa using this
  · intro q hq
    obtain ⟨p, hp, hpq⟩ := perm_of_names t.tipNames q hu hq
    obtain ⟨d, hd, hg⟩ := goPerm_surjective _ p hp
    have hd' : d ∈ space (shuffleScript t) := by
      rw [mem_space_iff]; simpa [shuffleScript, hn] using hd
    exact ⟨d, hd', by rw [(hform d hd').1, hg, hpq]⟩

/-- (statement of round 1, kept: the hypothesis on the root is no longer needed since 9642e30) -/
theorem shuffleTips_bijective (t : T) (_hr : (t.kids.length == 1) = false) (hu : t.tipNames.Nodup) :
    (∀ d ∈ space (shuffleScript t), (shuffleTips t d).Perm t.tipNames) ∧
    (∀ d1 ∈ space (shuffleScript t), ∀ d2 ∈ space (shuffleScript t),
        shuffleTips t d1 = shuffleTips t d2 → d1 = d2) ∧
    (∀ q : List String, q.Perm t.tipNames → ∃ d ∈ space (shuffleScript t), shuffleTips t d = q) :=
  shuffleTips_bijective_all t hu

/-- `((a,b,c))r;`: a tree whose root is itself a tip -/
def exTipRoot : T :=
  .node ⟨"r", []⟩ 0 [(EdgeD.blank, .node ⟨"", []⟩ 0
    [(EdgeD.blank, T.leaf "a"), (EdgeD.blank, T.leaf "b"), (EdgeD.blank, T.leaf "c")])]

example : exTipRoot.tipNames = ["r", "a", "b", "c"] ∧ exTipRoot.tipNames.Nodup := by decide
example : shuffleTips exTipRoot [0, 1, 0, 2] = ["b", "a", "c", "r"] := by decide

/-- before 9642e30 `AllTipNames()` stopped at a root that is a tip: on `((a,b,c))r;` `ShuffleTips`
    drew `rand.Perm(1)` and every tip kept its name — 1 of the 24 arrangements, whatever the seed -/
theorem shuffleTips_pinned_fails :
    (space (permScript (allTipNamesPinned exTipRoot).length)).length = 1 ∧
    ∀ d ∈ space (permScript (allTipNamesPinned exTipRoot).length),
      shuffleTipsPinned exTipRoot d = exTipRoot.tipNames := by
  decide

/-! ### `RotateNeighbors` -/

example : rotate ["p", "a", "b", "c"] [0, 0, 2, 1] = ["a", "c", "b", "p"] := by decide

/-- `RotateNeighbors` moves the neighbours exactly as `rand.Perm` would permute their
    positions with the same draws … -/
theorem rotate_eq_perm (a : List α) (dflt : α) (d : List Nat) (hd : d ∈ space (rotScript a.length)) :
    rotate a d = (goPerm d).map fun q => a.getD q dflt :=
  rotate_eq_map a dflt d ((mem_space_iff _ _).1 hd)

/-- … hence the arrangement of the `n` neighbour positions is a bijective image of the draw
    space: every arrangement comes from exactly one of the `n!` draw lists. -/
theorem rotate_bijective (n : Nat) :
    (∀ d ∈ space (rotScript n), (rotate (List.range n) d).Perm (List.range n)) ∧
    (∀ d1 ∈ space (rotScript n), ∀ d2 ∈ space (rotScript n),
        rotate (List.range n) d1 = rotate (List.range n) d2 → d1 = d2) ∧
    (∀ p : List Nat, p.Perm (List.range n) → ∃ d ∈ space (rotScript n), rotate (List.range n) d = p) := by
  have hr : ∀ d ∈ space (rotScript n), rotate (List.range n) d = goPerm d :=
    fun d hd => rotate_range n d ((mem_space_iff _ _).1 hd)
  obtain ⟨b1, b2, b3⟩ := perm_bijective n
  refine ⟨?_, ?_, ?_⟩
  · intro d hd; rw [hr d hd]; exact b1 d hd
  · intro d1 h1 d2 h2 he; rw [hr d1 h1, hr d2 h2] at he; exact b2 d1 h1 d2 h2 he
  · intro p hp
    obtain ⟨d, hd, he⟩ := b3 p hp
    exact ⟨d, hd, by rw [hr d hd, he]⟩

example : rotAllPerms [3, 1, 2] [0, 0, 1, 0, 0, 1] = [[1, 2, 0], [0], [0, 1]] := by decide
example : [0, 0, 1, 0, 0, 1] ∈ space (rotAllPermScript [3, 1, 2]) := by decide

/-- `RotateInternalNodes` (`gotree rotate rand`): with `degs` the numbers of neighbours of the nodes
    in `Nodes()` order, the draw lists correspond one to one to the choices of one arrangement of
    the neighbour positions for every node — all nodes are rotated independently and uniformly. -/
theorem rotateInternalNodes_bijective (degs : List Nat) :
    (∀ d ∈ space (rotAllPermScript degs), PermsOf (rotAllPerms degs d) degs) ∧
    (∀ d1 ∈ space (rotAllPermScript degs), ∀ d2 ∈ space (rotAllPermScript degs),
        rotAllPerms degs d1 = rotAllPerms degs d2 → d1 = d2) ∧
    (∀ ps : List (List Nat), PermsOf ps degs →
        ∃ d ∈ space (rotAllPermScript degs), rotAllPerms degs d = ps) :=
  rotAllPerms_bijective' degs

/-- `RotateNeighbors` on a node of the rose tree (`rotateNode`, the function compared with the code on
    every `rotate` case): the neighbours get the arrangement `rotate (range deg) draws` of their positions,
    to which `rotate_bijective` applies. -/
theorem rotateNode_arrangement (isRoot : Bool) (t : T) (d : List Nat)
    (hd : d ∈ space (rotScript (degOf isRoot t))) :
    rotateNode isRoot t d = permNode isRoot t (rotate (List.range (degOf isRoot t)) d) :=
  rotateNode_eq_permNode isRoot t d ((mem_space_iff _ _).1 hd)

example : degsT true exT = [3, 1, 1, 3, 1, 1] := by decide
example : [0, 0, 1, 0, 0, 0, 1, 1, 0, 0] ∈ space (rotAllScriptT true exT) := by decide
example : ((rotAllT true exT [0, 0, 1, 0, 0, 0, 1, 1, 0, 0]).1 ==
    (applyPermsT true exT (rotAllPerms (degsT true exT) [0, 0, 1, 0, 0, 0, 1, 1, 0, 0])).1) = true := by decide

/-- `RotateInternalNodes` on the rose tree (`rotAllT`, the function compared with the code on every
    `rotall` / `rotate rand` case) gives every node, in `Nodes()` order, exactly the arrangement that
    `rotAllPerms` lists for it, and its draw script is the one of `rotAllPerms`: so
    `rotateInternalNodes_bijective` is a statement about the tree operation. -/
theorem rotateInternalNodes_tree (t : T) (d : List Nat) (hd : d ∈ space (rotAllScriptT true t)) :
    (rotAllT true t d).1 = (applyPermsT true t (rotAllPerms (degsT true t) d)).1 ∧
    rotAllScriptT true t = rotAllPermScript (degsT true t) := by
  have h := rotAllT_link true t d [] [] ((mem_space_iff _ _).1 hd)
  simp only [List.append_nil] at h
  exact ⟨by rw [h.1], rotAllScriptT_eq true t⟩

/-! ### `RandomUniformBinaryTree` -/

example : utree false [0, 2, 1] = [[1, 2, 3, 4], [2, 4], [1, 3], [3], [1], [4], [2]] := by decide
example : [0, 2, 1] ∈ space (utreeBounds false 5) := by decide

example : (BT.node (.node (.tip 1) (.tip 3)) (.node (.tip 2) (.tip 4))).isUnrootedOn 5 := by
  unfold BT.isUnrootedOn; decide
example : (utree false [0, 2, 1]).Perm
    ((BT.node (.node (.tip 1) (.tip 3)) (.node (.tip 2) (.tip 4))).clusters 5) := by decide

/-- The unrooted generator is a bijection between its draw space and the unrooted binary
    topologies on `n` labelled tips (any binary tree `bt` over the tips `1 … n-1` hanging from
    tip 0, whatever its shape; its branches are the clusters of its subtrees):
    every value is the cluster set of such a tree; different draw lists give different cluster
    sets; every topology is the cluster set of some draw list.  These three clauses are the
    bijection.  The fourth only computes the size of the draw space, `(2n-5)!!`
    (`numTopologies` is defined as that double factorial, it does not count trees). -/
theorem uniform_unrooted_bijective (n : Nat) (hn : 2 ≤ n) :
    (∀ d ∈ space (utreeBounds false n), ∃ bt : BT, bt.isUnrootedOn n ∧ (utree false d).Perm (bt.clusters n)) ∧
    (∀ d1 ∈ space (utreeBounds false n), ∀ d2 ∈ space (utreeBounds false n),
        (utree false d1).Perm (utree false d2) → d1 = d2) ∧
    (∀ bt : BT, bt.isUnrootedOn n →
        ∃ d ∈ space (utreeBounds false n), (utree false d).Perm (bt.clusters n)) ∧
    (space (utreeBounds false n)).length = numTopologies false n := by
  refine ⟨?_, ?_, ?_, ?_⟩
  · intro d hd
    obtain ⟨m, rfl⟩ : ∃ m, n = m + 2 := ⟨n - 2, by omega⟩
    have hb := (mem_space_iff _ _).1 hd
    rw [loopBounds_eq] at hb
    obtain ⟨bt, h1, h2⟩ := utree_welldefined m d (by simpa [utreeInit] using hb)
    exact ⟨bt, by simpa [BT.isUnrootedOn] using h1, h2⟩
  · intro d1 h1 d2 h2 hp
    have hb1 := (mem_space_iff _ _).1 h1
    have hb2 := (mem_space_iff _ _).1 h2
    rw [loopBounds_eq] at hb1 hb2
    exact utreeLoop_injective _ 2 (utreeInit_inv false) (n - 2) d1 d2 hb1 hb2 hp
  · intro bt hbt
    obtain ⟨m, rfl⟩ : ∃ m, n = m + 2 := ⟨n - 2, by omega⟩
    obtain ⟨d, hd, hp⟩ := utree_surjective m bt (by simpa [BT.isUnrootedOn] using hbt)
    refine ⟨d, ?_, hp⟩
    rw [mem_space_iff, loopBounds_eq]
    simpa [utreeInit] using hd
  · rw [loopBounds_eq, dfact_space]
    simp only [utreeInit, numTopologies]
    exact prod_unrooted (n - 2)

/-! #### the same for the rose tree that is compared with the code's α dump

  `roseTree rooted d` follows `RandomUniformBinaryTree` on the rose tree rooted at `n2`
  (`GraftTipOnEdge` creating the node with neighbours `[n, lnode, rnode]`); the driver compares
  it — after `RerootFirst` for unrooted trees, `roseFinal` — with the α dump of the generated
  tree: names, neighbour order, parent positions.  Its branches have exactly the clusters that
  `utree` lists, so the theorems above are theorems about that tree. -/

example : branchClusters 5 (roseTree false [0, 2, 1]) =
    [[1, 2, 3, 4], [2, 4], [4], [2], [1, 3], [3], [1]] := by decide

/-- the clusters of the branches of the rose tree (in `Edges()` order) are, up to order, the
    clusters `utree` holds for the `edges` slice — rooted or not, for every draw list -/
theorem rose_clusters (rooted : Bool) (n : Nat) (hn : 2 ≤ n) (d : List Nat)
    (hd : d ∈ space (utreeBounds rooted n)) :
    (branchClusters n (roseTree rooted d)).Perm (utree rooted d) := by
  obtain ⟨m, rfl⟩ : ∃ m, n = 2 + m := ⟨n - 2, by omega⟩
  have hb := (mem_space_iff _ _).1 hd
  rw [loopBounds_eq, show 2 + m - 2 = m by omega] at hb
  exact (roseLoop_inv rooted m d hb).2

/-- `RerootFirst` (unrooted trees, `n ≥ 3`) only moves the root pointer from `Tip0` to its
    neighbour: the branches of the final tree `roseFinal` — the one compared with the α dump —
    have the clusters of `roseTree`, except that the branch of `Tip0` is now seen from the other
    side (`{0}` instead of `{1, …, n-1}`): the same splits. -/
theorem roseFinal_clusters (n : Nat) (hn : 3 ≤ n) (d : List Nat) (hd : d ∈ space (utreeBounds false n)) :
    (branchClusters n (roseFinal false d)).Perm ([0] :: (branchClusters n (roseTree false d)).tail) := by
  obtain ⟨m, rfl⟩ : ∃ m, n = m + 3 := ⟨n - 3, by omega⟩
  have hb := (mem_space_iff _ _).1 hd
  rw [loopBounds_eq, show m + 3 - 2 = m + 1 by omega] at hb
  have hs := roseLoop_shape m d (by simpa [utreeInit] using hb)
  simp only [roseFinal, Bool.false_eq_true, if_false]
  exact roseReroot_clusters (m + 3) (by omega) _ hs

/-- `uniform_unrooted_bijective`, stated for the tree itself: the branch clusters of the generated
    rose tree determine the draw list, every unrooted binary topology is the cluster set of the
    tree of some draw list, and every generated tree is such a topology. -/
theorem uniform_unrooted_bijective_rose (n : Nat) (hn : 2 ≤ n) :
    (∀ d ∈ space (utreeBounds false n), ∃ bt : BT, bt.isUnrootedOn n ∧
        (branchClusters n (roseTree false d)).Perm (bt.clusters n)) ∧
    (∀ d1 ∈ space (utreeBounds false n), ∀ d2 ∈ space (utreeBounds false n),
        (branchClusters n (roseTree false d1)).Perm (branchClusters n (roseTree false d2)) → d1 = d2) ∧
    (∀ bt : BT, bt.isUnrootedOn n →
        ∃ d ∈ space (utreeBounds false n), (branchClusters n (roseTree false d)).Perm (bt.clusters n)) := by
  obtain ⟨b1, b2, b3, _⟩ := uniform_unrooted_bijective n hn
  refine ⟨?_, ?_, ?_⟩
  · intro d hd
    obtain ⟨bt, h1, h2⟩ := b1 d hd
    exact ⟨bt, h1, (rose_clusters false n hn d hd).trans h2⟩
  · intro d1 h1 d2 h2 hp
    exact b2 d1 h1 d2 h2 (((rose_clusters false n hn d1 h1).symm.trans hp).trans (rose_clusters false n hn d2 h2))
  · intro bt hbt
    obtain ⟨d, hd, hp⟩ := b3 bt hbt
    exact ⟨d, hd, (rose_clusters false n hn d hd).trans hp⟩

/-- The rooted generator too maps different draw lists to different topologies … -/
theorem uniform_rooted_injective (n : Nat) :
    ∀ d1 ∈ space (utreeBounds true n), ∀ d2 ∈ space (utreeBounds true n),
        (utree true d1).Perm (utree true d2) → d1 = d2 := by
  intro d1 h1 d2 h2 hp
  have hb1 := (mem_space_iff _ _).1 h1
  have hb2 := (mem_space_iff _ _).1 h2
  rw [loopBounds_eq] at hb1 hb2
  exact utreeLoop_injective _ 2 (utreeInit_inv true) (n - 2) d1 d2 hb1 hb2 hp

/-- … but for every `n ≥ 3` it has fewer draw lists (`2·4·…·(2n-4)`) than there are rooted
    topologies (`(2n-3)!!`): some topology is unreachable, whatever the seed (F29). -/
theorem uniform_rooted_too_few_histories (n : Nat) (hn : 3 ≤ n) :
    (space (utreeBounds true n)).length < numTopologies true n := by
  rw [loopBounds_eq, dfact_space]
  simp only [utreeInit, numTopologies, if_true, List.length_cons, List.length_nil]
  have := prod_rooted_lt (n - 2) (by omega)
  rw [show n - 2 + 1 = n - 1 by omega] at this
  exact this

/-- … namely (for every `n ≥ 3`) every topology in which the tip added last hangs alone from
    the root: the cluster `{Tip0, …, Tip(n-2)}` is a branch of no generated tree (F29). -/
theorem uniform_rooted_last_tip_never_alone (n : Nat) (hn : 3 ≤ n) :
    ∀ d ∈ space (utreeBounds true n), List.range (n - 1) ∉ utree true d := by
  intro d hd
  obtain ⟨m, rfl⟩ : ∃ m, n = m + 3 := ⟨n - 3, by omega⟩
  have hb := (mem_space_iff _ _).1 hd
  rw [loopBounds_eq] at hb
  have := utree_rooted_last_alone m d (by simpa [utreeInit] using hb)
  simpa [utree] using this

/-- Concretely (F29, open finding): 2 histories for the 3 rooted trees on 3 tips, 8 for the 15 on 4 tips;
    the topology `((Tip0,Tip1),Tip2)` — the last tip alone at the root — is never produced. -/
theorem uniform_rooted_fails :
    (space (utreeBounds true 3)).length = 2 ∧ numTopologies true 3 = 3 ∧
    (space (utreeBounds true 4)).length = 8 ∧ numTopologies true 4 = 15 ∧
    validTopology true 3 [[0], [1], [2], [0, 1]] = true ∧
    (∀ d ∈ space (utreeBounds true 3), [0, 1] ∉ utree true d) := by
  decide

/-! ## the seed (cmd/root.go): which runs are reproducible, and from which value -/

example : seedUsed (some 5) 99 = 5 ∧ seedUsed (some 0) 99 = 0 ∧ seedUsed (some (-2)) 99 = -2 ∧ seedUsed none 99 = 99 := by decide

/-- every `--seed s` other than `-1` seeds the source with `s` itself, whatever the clock says -/
theorem seedUsed_fixed (s clock : Int) (h : s ≠ -1) :
    seedUsed (some s) clock = s ∧ seedFixed (some s) = true := by
  simp [seedUsed, seedFixed, h]

/-- an absent `--seed` and `--seed -1` take the clock -/
theorem seedUsed_clock (clock : Int) :
    seedUsed none clock = clock ∧ seedUsed (some (-1)) clock = clock ∧
    seedFixed none = false ∧ seedFixed (some (-1)) = false := by
  simp [seedUsed, seedFixed]

/-- `seedFixed` is exactly "the seed does not depend on the clock" (what the driver's oracle of `C20.seedcmd` tests
    on two runs of the command) -/
theorem seedFixed_iff (flag : Option Int) :
    seedFixed flag = true ↔ ∀ c c' : Int, seedUsed flag c = seedUsed flag c' := by
  unfold seedFixed seedUsed
  by_cases h : flag.getD (-1) = -1
  · simp only [h]
    constructor
    · intro h'; simp at h'
    · intro h'; have := h' 0 1; simp at this
  · simp [h]

end Gotree.C20
