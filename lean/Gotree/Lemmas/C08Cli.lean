/-
  C08 — lemmas about the interpreter of the glue table (Model/C08Cli.lean): what the rows of
  the plain and `--rf` modes are, read on the table `expectedGlue`.
-/
import Gotree.Model.C08Cli
import Gotree.Lemmas.C08Zero

namespace Gotree.C08
open Gotree

theorem rowText_plain (tips : Bool) (rc : Rec) : rowText expectedGlue (plainF tips) rc = some (plainLine rc) := by
  cases tips <;> simp [rowText, rowEvent, reached, expectedGlue, active, plainF, Flags.var, pW, pNW, pB, pNB, pRF, pNRF,
    evalArg, sumAtoms, atom, sprintf, sprintfP, fmtPlain, plainLine]

theorem rowText_rf (tips : Bool) (rc : Rec) : rowText expectedGlue (rfF tips) rc = some (rfLine rc) := by
  cases tips <;> simp [rowText, rowEvent, reached, expectedGlue, active, rfF, Flags.var, pW, pNW, pB, pNB, pRF, pNRF,
    evalArg, sumAtoms, atom, sprintf, sprintfP, rfLine]

@[simp] theorem plainF_tips (t : Bool) : (plainF t).tips = t := rfl
@[simp] theorem rfF_tips (t : Bool) : (rfF t).tips = t := rfl

theorem reinitOk_zeroLens (t : T) : reinitOk t.zeroLens = reinitOk t := by
  simp [reinitOk, T.uniqueTips, zeroLens_tipNames]

theorem headerOf_plain (tips : Bool) : headerOf expectedGlue (plainF tips) = ["tree\treference\tcommon\tcompared\n"] := by
  cases tips <;> simp [headerOf, reached, expectedGlue, active, plainF, Flags.var, pW, pNW, pB, pNB, pRF, pNRF]

theorem headerOf_rf (tips : Bool) : headerOf expectedGlue (rfF tips) = [] := by
  cases tips <;> simp [headerOf, reached, expectedGlue, active, rfF, Flags.var, pW, pNW, pB, pNB, pRF, pNRF]

theorem rowText_binary (f : Flags) (hb : f.binary = true) (rc : Rec) :
    rowText expectedGlue f rc = some (binaryLine rc) := by
  rcases f with ⟨t, b, r, w⟩
  simp at hb; subst hb
  cases t <;> cases r <;> cases w <;>
    simp [rowText, rowEvent, reached, expectedGlue, active, Flags.var, pW, pNW, pB, pNB, pRF, pNRF,
      evalArg, sumAtoms, atom, sprintf, sprintfP, fmtBinary, binaryLine]

end Gotree.C08
