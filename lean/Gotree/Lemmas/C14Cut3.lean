/-
  C14 round 2 — the outer loop of `CutEdgesMaxLength` on the pointer graph, part 2:
  bags up to order (`LPerm`) and helper facts.  Core Lean only.
-/
import Gotree.Lemmas.C14Cut2

namespace Gotree.C14
open Gotree Gotree.C14.Go

/-! ## lists of bags up to the order of the bags and inside the bags -/

inductive PW : List (List String) → List (List String) → Prop
  | nil : PW [] []
  | cons {a b : List String} {l l' : List (List String)} : a.Perm b → PW l l' → PW (a :: l) (b :: l')

def LPerm (A B : List (List String)) : Prop := ∃ B₂, A.Perm B₂ ∧ PW B₂ B

theorem PW.refl : ∀ (l : List (List String)), PW l l
  | [] => .nil
  | a :: l => .cons (List.Perm.refl a) (PW.refl l)

theorem PW.append : ∀ {a a' b b' : List (List String)}, PW a a' → PW b b' → PW (a ++ b) (a' ++ b')
  | _, _, _, _, .nil, hb => by simpa using hb
  | _, _, _, _, .cons h hr, hb => .cons h (PW.append hr hb)

theorem PW.perm_right : ∀ {l l₂ l' : List (List String)}, PW l l₂ → l₂.Perm l' →
    ∃ l₃ : List (List String), l.Perm l₃ ∧ PW l₃ l' := by
  intro l l₂ l' hf hp
  induction hp generalizing l with
  | nil => cases hf; exact ⟨[], List.Perm.refl _, .nil⟩
  | cons x _ ih =>
    cases hf with
    | cons h hr =>
      obtain ⟨r', pr, fr⟩ := ih hr
      exact ⟨_ :: r', pr.cons _, .cons h fr⟩
  | swap x y l =>
    cases hf with
    | cons h hr =>
      cases hr with
      | cons h' hr' => exact ⟨_ :: _ :: _, List.Perm.swap _ _ _, .cons h' (.cons h hr')⟩
  | trans _ _ ih₁ ih₂ =>
    obtain ⟨a, pa, fa⟩ := ih₁ hf
    obtain ⟨b, pb, fb⟩ := ih₂ fa
    exact ⟨b, pa.trans pb, fb⟩

theorem LPerm.refl (l : List (List String)) : LPerm l l := ⟨l, List.Perm.refl _, PW.refl l⟩

theorem LPerm.append {a a' b b' : List (List String)} (h₁ : LPerm a a') (h₂ : LPerm b b') : LPerm (a ++ b) (a' ++ b') := by
  obtain ⟨x, px, fx⟩ := h₁
  obtain ⟨y, py, fy⟩ := h₂
  exact ⟨x ++ y, px.append py, fx.append fy⟩

theorem LPerm.perm_right {a b b' : List (List String)} (h : LPerm a b) (hp : b.Perm b') : LPerm a b' := by
  obtain ⟨x, px, fx⟩ := h
  obtain ⟨y, py, fy⟩ := fx.perm_right hp
  exact ⟨y, px.trans py, fy⟩

theorem LPerm.single {a b : List String} (h : a.Perm b) : LPerm [a] [b] := ⟨[a], List.Perm.refl _, .cons h .nil⟩

def optBag (l : List String) : List (List String) := if l.isEmpty then [] else [l]

theorem LPerm.optBag {a b : List String} (h : a.Perm b) : LPerm (optBag a) (optBag b) := by
  unfold C14.optBag
  have : a.isEmpty = b.isEmpty := by
    cases a <;> cases b <;> simp_all
  rw [this]
  split
  · exact LPerm.refl _
  · exact LPerm.single h

/-! ## helper facts -/

theorem Sub.bound {α : Type} {A : Array α} {n : Nat} {l : List α} (h : Sub A n l) : n + l.length ≤ A.size := by
  obtain ⟨pre, post, e, hn⟩ := h
  have := congrArg List.length e
  simp at this
  omega

/-- all branches of a child list long: the flood reaches nothing there -/
theorem open_long (thr : Rat) : ∀ (ks : Kids) (m : Nat), (∀ x ∈ ks, ¬ x.1.len < thr) →
    openL thr m ks = [] ∧ reachL thr m ks = [] ∧ (compL thr ks).1 = []
  | [], _, _ => by simp [openL, reachL, compL]
  | (e, t) :: r, m, h => by
    have he : ¬ e.len < thr := h (e, t) (by simp)
    obtain ⟨h1, h2, h3⟩ := open_long thr r (m + t.size) (fun x hx => h x (by simp [hx]))
    simp [openL, reachL, compL, he, h1, h2, h3]

theorem openW_list (thr : Rat) (prev : Nat) : ∀ (ks : Kids) (m : Nat), (∀ x ∈ kidsIdx m ks, x.1 ≠ prev) →
    (kidsIdx m ks).flatMap (openW thr prev) = openL thr m ks ∧ (kidsIdx m ks).flatMap (reachW thr prev) = reachL thr m ks
  | [], _, _ => by simp [kidsIdx, openL, reachL]
  | (e, t) :: r, m, h => by
    obtain ⟨h1, h2⟩ := openW_list thr prev r (m + t.size) (fun x hx => h x (by simp [kidsIdx, hx]))
    have hne : (m != prev) = true := by
      have := h (m, (e, t)) (by simp [kidsIdx])
      simpa using this
    simp only [kidsIdx, List.flatMap_cons, openL, reachL, openW, reachW, hne, Bool.true_and, decide_eq_true_eq, h1, h2]
    exact ⟨trivial, trivial⟩

theorem compL_append (thr : Rat) : ∀ (a b : Kids),
    (compL thr (a ++ b)).1 = (compL thr a).1 ++ (compL thr b).1 ∧
    (compL thr (a ++ b)).2 = (compL thr a).2 ++ (compL thr b).2
  | [], b => by simp [compL]
  | (e, t) :: a, b => by
    obtain ⟨h1, h2⟩ := compL_append thr a b
    simp only [List.cons_append, compL]
    split <;> simp [h1, h2]

theorem openL_append (thr : Rat) : ∀ (a b : Kids) (m : Nat),
    openL thr m (a ++ b) = openL thr m a ++ openL thr (m + T.sizeL a) b ∧
    reachL thr m (a ++ b) = reachL thr m a ++ reachL thr (m + T.sizeL a) b
  | [], b, m => by simp [openL, reachL, T.sizeL]
  | (e, t) :: a, b, m => by
    obtain ⟨h1, h2⟩ := openL_append thr a b (m + t.size)
    have hs : m + T.sizeL ((e, t) :: a) = m + t.size + T.sizeL a := by rw [sizeL_cons]; omega
    simp only [List.cons_append, openL, reachL, h1, h2, hs, List.append_assoc]
    exact ⟨trivial, trivial⟩

end Gotree.C14
