/-
  C15 — `InsertIdenticalTips` when it FAILS half-way: the insertions made before the failure
  stay, and still no path length between pre-existing tips has moved.  Core Lean only.
-/
import Gotree.Lemmas.C15InsertAll

namespace Gotree.C15
open Gotree Gotree.C14

theorem inv_step {t0 t t1 : T} {tips A : List String} {Z : List (List String)} {old n : String}
    (hI : Inv t0 t tips A Z) (h1 : insertOne t tips old n = .ok t1) (hA : n ∈ A) :
    Inv t0 t1 (tips ++ [n]) A Z := by
  have hsub : ∀ x ∈ t.tipNames, x ∈ tips := fun x hx => (hI.tips_iff x).mpr hx
  have st := insertOne_step h1 hI.nodup hsub
  have hn : n ∉ t.tipNames := fun hx => (insertOne_ok h1).1 (hsub _ hx)
  have mem1 : ∀ x, x ∈ t1.tipNames ↔ x = n ∨ x ∈ t.tipNames := fun x => by rw [st.perm.mem_iff]; simp
  have ne_of : ∀ x ∈ t.tipNames, x ≠ n := fun x hx h0 => hn (h0 ▸ hx)
  refine ⟨?_, fun x => ?_, fun a ha b hb => ?_, fun a ha => ?_, fun x hx => ?_, fun g hg x hx y hy => ?_⟩
  · exact st.perm.nodup_iff.mpr (List.nodup_cons.mpr ⟨hn, hI.nodup⟩)
  · rw [mem1, List.mem_append, hI.tips_iff]; simp [or_comm]
  · rw [st.out a b (ne_of a (hI.sub a ha)) (ne_of b (hI.sub b hb))]; exact hI.keep a ha b hb
  · exact (mem1 a).mpr (Or.inr (hI.sub a ha))
  · rcases (mem1 x).mp hx with rfl | hx
    · exact Or.inr hA
    · exact hI.only x hx
  · obtain ⟨h0, hx'⟩ := hI.zero g hg x hx y hy
    have hy' := (hI.zero g hg y hy x hx).2
    exact ⟨by rw [st.out x y (ne_of x hx') (ne_of y hy')]; exact h0, (mem1 x).mpr (Or.inr hx')⟩

theorem insertNews_keep {t0 : T} {A : List String} {Z : List (List String)} {old : String} :
    ∀ (news : List String) (t : T) (tips : List String) (t' : T) (tips' : List String) (r : Option String),
    Inv t0 t tips A Z → (∀ x ∈ news, x ∈ A) → insertNews old news t tips = (t', tips', r) → Inv t0 t' tips' A Z
  | [], t, tips, t', tips', r, hI, _, h => by
    simp only [insertNews] at h
    injection h with h1 h2
    injection h2 with h2 _
    subst h1; subst h2
    exact hI
  | n :: ns, t, tips, t', tips', r, hI, hA, h => by
    simp only [insertNews] at h
    split at h
    · rename_i t1 h1
      exact insertNews_keep ns t1 (tips ++ [n]) t' tips' r (inv_step hI h1 (hA n (by simp)))
        (fun x hx => hA x (List.mem_cons_of_mem _ hx)) h
    · injection h with h1 h2
      injection h2 with h2 _
      subst h1; subst h2
      exact hI

theorem insertGroups_keep {t0 : T} {A : List String} :
    ∀ (gs : List (List String)) (Z : List (List String)) (t : T) (tips : List String) (t' : T) (r : Option String),
    Inv t0 t tips A Z → (∀ g ∈ gs, "" ∉ g) → (∀ g ∈ gs, ∀ x ∈ g, x ∈ A) →
    insertGroups gs t tips = (t', r) → ∃ tips' Z', Inv t0 t' tips' A Z'
  | [], Z, t, tips, t', r, hI, _, _, h => by
    simp only [insertGroups] at h
    injection h with h1 _
    subst h1
    exact ⟨tips, Z, hI⟩
  | g :: gs, Z, t, tips, t', r, hI, hne, hA, h => by
    simp only [insertGroups] at h
    split at h
    · injection h with h1 _; subst h1; exact ⟨tips, Z, hI⟩
    · split at h
      · injection h with h1 _; subst h1; exact ⟨tips, Z, hI⟩
      · rename_i old news hscan
        obtain ⟨_, h2, add, ha, hb, hc⟩ := scanGroup_spec tips g "" [] old news (hne g (by simp)) hscan
        have hold := h2 rfl
        simp only [List.nil_append] at ha
        subst ha
        have hnewsA : ∀ x ∈ news, x ∈ A := fun x hx => hA g (by simp) x (hb x hx).1
        split at h
        · rename_i t1 tips1 hnews
          have hot : old ∈ t.tipNames := (hI.tips_iff old).mp hold.2
          obtain ⟨hI1, hz1, hm1⟩ := insertNews_inv news t tips [old] t1 tips1 hI (by simp)
            (fun x hx y hy => by
              simp only [List.mem_singleton] at hx hy; subst hx; subst hy; exact distW_self _ _ _)
            (fun x hx => by simp only [List.mem_singleton] at hx; subst hx; exact hot) hnewsA hnews
          have hI2 : Inv t0 t1 tips1 A (Z ++ [g]) := by
            refine ⟨hI1.nodup, hI1.tips_iff, hI1.keep, hI1.sub, hI1.only, fun g' hg' x hx y hy => ?_⟩
            rcases List.mem_append.mp hg' with hg' | hg'
            · exact hI1.zero g' hg' x hx y hy
            · simp only [List.mem_singleton] at hg'
              subst hg'
              have mx : x ∈ [old] ++ news := by rcases hc x hx with h | h <;> simp [h]
              have my : y ∈ [old] ++ news := by rcases hc y hy with h | h <;> simp [h]
              exact ⟨hz1 x mx y my, hm1 x mx⟩
          exact insertGroups_keep gs (Z ++ [g]) t1 tips1 t' r hI2
            (fun g' hg' => hne g' (List.mem_cons_of_mem _ hg')) (fun g' hg' => hA g' (List.mem_cons_of_mem _ hg')) h
        · rename_i t1 tips1 m hnews
          injection h with h1 _
          subst h1
          exact ⟨tips1, Z, insertNews_keep news t tips t1 tips1 (some m) hI hnewsA hnews⟩

end Gotree.C15
