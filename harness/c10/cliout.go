package c10

// Where `gotree compute support fbp|tbe` writes (cmd/computesupport.go PersistentPreRunE, cmd/classical.go,
// cmd/booster.go): -o / -r given as a file, "stdout", "-" or left out; -l a file or left out.  One C10.out
// case = one run of the binary; reported: what arrived on the standard output, in the -o file, in the -r
// file (every line classified raw / sup and read back with gotree's own parser) and the head and the
// last line of the log file.  Model: Gotree/Model/C10Opts.lean (stdoutItems, outFileItems, rawFileItems,
// logHeaderOK).

import (
	"fmt"
	"os"
	"strings"
	"time"

	"verifharness/core"

	"github.com/evolbioinfo/gotree/io/newick"
)

// classifyLines reads back every non-empty line: "raw=<id:avg:depth,…>" for a tree whose inner nodes are
// named id|avgdist|depth, "sup=<α dump>" otherwise, "bad=" when it is not a tree.
func classifyLines(txt string) string {
	var b strings.Builder
	for _, l := range strings.Split(txt, "\n") {
		if strings.TrimSpace(l) == "" {
			continue
		}
		t, err := newick.NewParser(strings.NewReader(l)).Parse()
		if err != nil {
			b.WriteString("bad=@@")
			continue
		}
		isRaw := false
		for _, e := range t.Edges() {
			if !e.Right().Tip() && strings.Count(e.Right().Name(), "|") == 2 {
				isRaw = true
			}
		}
		if isRaw {
			r := parseLogOutputs(t, "")
			b.WriteString("raw=" + strings.SplitN(r.after, "\t", 2)[0] + "@@")
			continue
		}
		a, wf := core.Alpha(t)
		if !wf.OK() {
			b.WriteString("bad=@@")
			continue
		}
		b.WriteString("sup=" + a.Dump() + "@@")
	}
	return b.String()
}

type outReq struct {
	which                  string // fbp | classical | tbe | booster
	outSel, rawSel, logSel string // default | - | stdout | file ; none | - | stdout | file ; stderr | file
	threads                int
	ref                    *core.N
	boots                  []*core.N
}

func doCliOut(c *core.Ctx, q outReq) {
	refTxt := build(q.ref).Newick() + "\n"
	pref, err := parseNewick(refTxt)
	if err != nil {
		return
	}
	var sb strings.Builder
	var pboots []*core.N
	for _, b := range q.boots {
		l := build(b).Newick() + "\n"
		sb.WriteString(l)
		pb, err := parseNewick(l)
		if err != nil {
			return
		}
		pboots = append(pboots, pb)
	}
	isTbe := q.which == "tbe" || q.which == "booster"
	rf, bf := c.TmpFile(refTxt), c.TmpFile(sb.String())
	of, rawf, lf := c.TmpFile(""), c.TmpFile(""), c.TmpFile("")
	args := []string{"compute", "support", q.which, "-i", rf, "-b", bf, "-t", fmt.Sprint(q.threads)}
	outArg := "stdout" // the default of -o, printed in the log
	switch q.outSel {
	case "file":
		outArg = of
		args = append(args, "-o", of)
	case "-", "stdout":
		outArg = q.outSel
		args = append(args, "-o", q.outSel)
	}
	if isTbe {
		switch q.rawSel {
		case "file":
			args = append(args, "-r", rawf)
		case "-", "stdout":
			args = append(args, "-r", q.rawSel)
		}
	}
	if q.logSel == "file" {
		args = append(args, "-l", lf)
	}
	r := c.RunCLI("", 20*time.Second, args...)
	exit := "ok"
	switch {
	case r.Timeout:
		timeouts++
		exit = "timeout"
	case r.Exit == 1:
		exit = errClass(r.Stderr)
	case r.Exit != 0:
		exit = fmt.Sprintf("panic:exit%d", r.Exit)
	}
	ofTxt, _ := os.ReadFile(of)
	rawTxt, _ := os.ReadFile(rawf)
	// the log: the -l file, or the standard error (where TBE's progress messages, ended by \r, arrive as well)
	var logLines, midLines []string
	data := r.Stderr
	if q.logSel == "file" {
		b, _ := os.ReadFile(lf)
		data = string(b)
	}
	var ls []string
	for _, l := range strings.Split(strings.ReplaceAll(data, "\r", "\n"), "\n") {
		if l != "" {
			ls = append(ls, l)
		}
	}
	if len(ls) > 6 {
		logLines = append(append(logLines, ls[:6]...), ls[len(ls)-1])
		midLines = ls[6 : len(ls)-1]
	} else {
		logLines = ls
	}
	c.Emit("C10.out", q.which, q.outSel, q.rawSel, q.logSel, fmt.Sprint(q.threads), pref.Dump(), core.Dumps(pboots),
		core.Escape(rf), core.Escape(bf), core.Escape(outArg),
		exit, classifyLines(r.Stdout), classifyLines(string(ofTxt)), classifyLines(string(rawTxt)), core.StrList(logLines), core.StrList(midLines))
}

func cliOutCase(c *core.Ctx) {
	g := c.G
	saved := smallFirst
	smallFirst = g.Chance(0.5)
	ref := refTree(c)
	smallFirst = saved
	q := outReq{ref: ref, threads: []int{1, 1, 2, 0}[g.Intn(4)]}
	for k := 1 + g.Intn(3); k > 0; k-- {
		q.boots = append(q.boots, bootTree(c, ref))
	}
	q.which = []string{"fbp", "classical", "tbe", "booster", "tbe", "tbe"}[g.Intn(6)]
	q.outSel = []string{"default", "-", "stdout", "file"}[g.Intn(4)]
	q.rawSel = []string{"none", "-", "stdout", "file"}[g.Intn(4)]
	q.logSel = []string{"stderr", "file", "file"}[g.Intn(3)]
	doCliOut(c, q)
}
