package c17

// Histories of Apply / Undo calls on the rearrangements of ONE in-memory tree, in any order
// (tie of lean/Gotree/Model/C17Global.lean, op C17.hist).
//
// The callback of Rearrange only keeps the proposals.  Then a history of calls is played on the
// real tree: kind "nested" is well bracketed (a rearrangement is applied while others are in
// force, and undone before them: what a hill climber that backtracks does; in between, calls that
// must fail or do nothing: the twin of a rearrangement in force, a second Apply, an Undo of
// something not applied), kind "free" has no discipline at all.  Before the history and after
// every call the WHOLE heap is read through the public accessors and pointer identity: every
// node's neigh and br slices, every branch's left and right, plus the `applied` flag of the object
// (reflection, read only), the α dump and the harness' well-formedness verdict.

import (
	"fmt"
	"reflect"
	"strconv"
	"strings"

	"verifharness/core"

	"github.com/evolbioinfo/gotree/tree"
)

type gheap struct {
	nodes  []*tree.Node
	edges  []*tree.Edge
	nodeId map[*tree.Node]int
	edgeId map[*tree.Edge]int
}

func newGHeap(t *tree.Tree) *gheap {
	h := &gheap{nodeId: map[*tree.Node]int{}, edgeId: map[*tree.Edge]int{}}
	h.nodes = append([]*tree.Node(nil), t.Nodes()...) // copies: the lists must not change under our feet
	h.edges = append([]*tree.Edge(nil), t.Edges()...)
	for i, n := range h.nodes {
		h.nodeId[n] = i
	}
	for i, e := range h.edges {
		h.edgeId[e] = i
	}
	return h
}

func (h *gheap) nid(n *tree.Node) string {
	if i, ok := h.nodeId[n]; ok {
		return strconv.Itoa(i)
	}
	return "999999"
}

func (h *gheap) eid(e *tree.Edge) string {
	if i, ok := h.edgeId[e]; ok {
		return strconv.Itoa(i)
	}
	return "999999"
}

// sane: the pointer graph is still a tree on the same nodes (checked without recursion: the α
// walk and the Newick writer recurse for ever on a graph with a cycle, which kills the process)
func (h *gheap) sane(t *tree.Tree) bool {
	for _, n := range h.nodes {
		if len(n.Neigh()) != len(n.Edges()) {
			return false
		}
		for _, x := range n.Neigh() {
			if _, ok := h.nodeId[x]; !ok {
				return false
			}
			back := false
			for _, y := range x.Neigh() {
				if y == n {
					back = true
				}
			}
			if !back {
				return false
			}
		}
	}
	root := t.Root()
	if _, ok := h.nodeId[root]; !ok {
		return false
	}
	type item struct{ cur, prev *tree.Node }
	seen := map[*tree.Node]bool{root: true}
	todo := []item{{root, nil}}
	for len(todo) > 0 {
		it := todo[len(todo)-1]
		todo = todo[:len(todo)-1]
		skipped := false
		for _, x := range it.cur.Neigh() {
			if x == it.prev && !skipped {
				skipped = true
				continue
			}
			if seen[x] {
				return false
			}
			seen[x] = true
			todo = append(todo, item{x, it.cur})
		}
	}
	return len(seen) == len(h.nodes)
}

// snapshot: nodes "neigh:br" each followed by "/", then "#", then branches "left>right" each followed by "/"
func (h *gheap) snapshot() string {
	var b strings.Builder
	for _, n := range h.nodes {
		var ng, br []string
		for _, x := range n.Neigh() {
			ng = append(ng, h.nid(x))
		}
		for _, e := range n.Edges() {
			br = append(br, h.eid(e))
		}
		b.WriteString(strings.Join(ng, ",") + ":" + strings.Join(br, ",") + "/")
	}
	b.WriteString("#")
	for _, e := range h.edges {
		b.WriteString(h.nid(e.Left()) + ">" + h.nid(e.Right()) + "/")
	}
	return b.String()
}

// objects: "n1,n2,n1_1,n1_2,n2_1,n2_2,cross" each followed by "|"
func (h *gheap) object(re tree.Rearrangement) (string, bool) {
	v := reflect.ValueOf(re)
	if v.Kind() != reflect.Ptr || v.Elem().Kind() != reflect.Struct {
		return "", false
	}
	byPtr := map[uintptr]*tree.Node{}
	for _, n := range h.nodes {
		byPtr[reflect.ValueOf(n).Pointer()] = n
	}
	var parts []string
	for _, f := range nniFields {
		fv := v.Elem().FieldByName(f)
		if !fv.IsValid() || fv.Kind() != reflect.Ptr {
			return "", false
		}
		n := byPtr[fv.Pointer()]
		if n == nil {
			return "", false
		}
		parts = append(parts, h.nid(n))
	}
	cv := v.Elem().FieldByName("cross")
	if !cv.IsValid() || cv.Kind() != reflect.Bool {
		return "", false
	}
	if cv.Bool() {
		parts = append(parts, "1")
	} else {
		parts = append(parts, "0")
	}
	return strings.Join(parts, ","), true
}

func appliedFlag(re tree.Rearrangement) string {
	v := reflect.ValueOf(re)
	if v.Kind() != reflect.Ptr || v.Elem().Kind() != reflect.Struct {
		return "?"
	}
	av := v.Elem().FieldByName("applied")
	if !av.IsValid() || av.Kind() != reflect.Bool {
		return "?"
	}
	if av.Bool() {
		return "1"
	}
	return "0"
}

// script: the calls of a history, decided from the seed, the number of proposals and — for the
// nested kind — the outcome of the calls so far (a failed Apply is not pushed).
func doHist(c *core.Ctx, kind string, seed int64, n *core.N) {
	t, err := core.Build(n)
	if err != nil {
		panic(err)
	}
	g := core.NewG(seed)
	before := n.Dump()
	h := newGHeap(t)
	var kept []tree.Rearrangement
	r := &tree.NNIRearranger{}
	runOut := outcome(func() error {
		r.Rearrange(t, func(re tree.Rearrangement) bool {
			kept = append(kept, re)
			return true
		})
		return nil
	})
	var objs strings.Builder
	for _, re := range kept {
		s, ok := h.object(re)
		if !ok {
			runOut = "noview"
			break
		}
		objs.WriteString(s + "|")
	}
	heap0 := h.snapshot()
	if runOut != "ok" || len(kept) == 0 {
		c.Emit("C17.hist", kind, strconv.FormatInt(seed, 10), before, runOut, heap0, objs.String(), "")
		return
	}
	var steps strings.Builder
	prevHeap := heap0
	prevDump := before
	dead := false // the pointer graph is no longer a tree: nothing more may be called on it
	call := func(k int, isApply bool) string {
		if dead {
			return "dead"
		}
		re := kept[k]
		var out string
		op := "U"
		if isApply {
			op = "A"
			out = outcome(re.Apply)
		} else {
			out = outcome(re.Undo)
		}
		wf, d := "heap-corrupt", ""
		if h.sane(t) {
			wf, d, _ = look(t)
		} else {
			dead = true
		}
		hs := h.snapshot()
		hcol, dcol := hs, d
		if hs == prevHeap {
			hcol = "="
		}
		if d == prevDump && wf == "ok" {
			dcol = "="
		}
		fmt.Fprintf(&steps, "%d;%s;%s;%s;%s;%s;%s|", k, op, out, appliedFlag(re), wf, hcol, dcol)
		prevHeap = hs
		if wf == "ok" {
			prevDump = d
		}
		return out
	}
	// reorder: an edit of the same in-memory tree that re-orders the neighbour slices (the real
	// SortNeighborsByTips / RotateInternalNodes) while rearrangements are in force (seeded change C03-9:
	// slice positions remembered by Apply and written to by Undo); record E
	reorder := func() {
		if dead {
			return
		}
		kind := "sort"
		if g.Chance(0.5) {
			kind = "rotate"
		}
		out := outcome(func() error {
			if kind == "sort" {
				t.SortNeighborsByTips()
			} else {
				t.RotateInternalNodes()
			}
			return nil
		})
		wf, d, _ := look(t)
		if out != "ok" {
			wf = core.Escape(out)
		}
		hs := h.snapshot()
		fmt.Fprintf(&steps, "E;%s;%s;%s;%s|", kind, wf, hs, d)
		prevHeap = hs
		if wf == "ok" {
			prevDump = d
		}
	}
	m := len(kept)
	var stack []int
	onStack := func(k int) bool {
		for _, x := range stack {
			if x == k {
				return true
			}
		}
		return false
	}
	// a rearrangement near the last one applied (same or adjacent branch: the interesting ones)
	near := func() int {
		if len(stack) == 0 || g.Chance(0.3) {
			return g.Intn(m)
		}
		k := stack[len(stack)-1] + g.Intn(7) - 3
		if k < 0 {
			k = 0
		}
		if k >= m {
			k = m - 1
		}
		return k
	}
	nsteps := 4 + g.Intn(10)
	switch kind {
	case "nested":
		for i := 0; i < nsteps; i++ {
			switch x := g.Intn(10); {
			case x < 5: // push
				k := near()
				if onStack(k) {
					call(k, true) // a second Apply: nothing happens
				} else if call(k, true) == "ok" {
					stack = append(stack, k)
					if g.Chance(0.3) {
						reorder()
					}
				}
			case x < 8 && len(stack) > 0: // pop
				k := stack[len(stack)-1]
				if call(k, false) == "ok" {
					stack = stack[:len(stack)-1]
				} else {
					i = nsteps // cannot go on in a bracketed way
				}
			case x == 8 && len(stack) > 0: // the twin of the rearrangement in force: must fail
				call(stack[len(stack)-1]^1, true)
			default: // Undo of something that is not applied: nothing happens
				k := g.Intn(m)
				if !onStack(k) {
					call(k, false)
				}
			}
		}
		for len(stack) > 0 {
			k := stack[len(stack)-1]
			stack = stack[:len(stack)-1]
			call(k, false)
		}
	default: // free: `stack` is the list of the rearrangements whose flag is set, oldest first
		refresh := func() {
			stack = stack[:0]
			for k, re := range kept {
				if appliedFlag(re) == "1" {
					stack = append(stack, k)
				}
			}
		}
		if g.Chance(0.5) {
			// pairs of nearby rearrangements: the first is undone while the second is in force (the
			// searches of Undo then fail, or succeed in a changed state), then both are undone
			for p := 3 + g.Intn(4); p > 0; p-- {
				k := g.Intn(m)
				k2 := k + g.Intn(9) - 4
				if k2 < 0 || k2 >= m || k2 == k {
					k2 = g.Intn(m)
				}
				call(k, true)
				if g.Chance(0.5) {
					// second generation: Rearrange is called again on the tree as it is now (the first
					// rearrangement in force); the second rearrangement of the pair is one of the new objects
					var fresh []tree.Rearrangement
					if !dead {
						r.Rearrange(t, func(re tree.Rearrangement) bool {
							fresh = append(fresh, re)
							return true
						})
					}
					var os []string
					ok := true
					for _, re := range fresh {
						o, good := h.object(re)
						if !good {
							ok = false
							break
						}
						os = append(os, o)
					}
					if ok && len(fresh) > 0 {
						fmt.Fprintf(&steps, "R;%s|", strings.Join(os, "+"))
						k2 = len(kept) + g.Intn(len(fresh))
						kept = append(kept, fresh...)
						m = len(kept)
					}
				}
				call(k2, true)
				if g.Chance(0.25) {
					reorder()
				}
				call(k, false)
				call(k2, false)
				call(k, false)
			}
			nsteps = 0
		}
		for i := 0; i < nsteps; i++ {
			switch x := g.Intn(20); {
			case x < 9:
				call(near(), true)
			case x < 16 && len(stack) > 0:
				// Undo of one of the rearrangements in force, not necessarily the last one applied
				call(stack[g.Intn(len(stack))], false)
			default:
				call(g.Intn(m), g.Chance(0.5))
			}
			refresh()
		}
	}
	c.Emit("C17.hist", kind, strconv.FormatInt(seed, 10), before, runOut, heap0, objs.String(), steps.String())
}
