/-
  Helper lemmas for C18: sorting erases order, map lookup does not depend on the listing of a
  map with distinct keys, folds whose steps commute on the observation.
-/
import Gotree.Model.C18

namespace Gotree.C18

/-! ## sorting -/

theorem eq_of_perm_of_pairwise {α} {le : α → α → Prop} (anti : ∀ a b, le a b → le b a → a = b) :
    ∀ (l₁ l₂ : List α), l₁.Perm l₂ → l₁.Pairwise le → l₂.Pairwise le → l₁ = l₂
  | [], l₂, h, _, _ => by simpa using h.symm.eq_nil
  | a :: t, [], h, _, _ => by simpa using h.eq_nil
  | a :: t, b :: u, h, s1, s2 => by
    have s1' := List.pairwise_cons.mp s1
    have s2' := List.pairwise_cons.mp s2
    have hab : a = b := by
      have ha : a ∈ b :: u := h.mem_iff.mp (List.mem_cons_self ..)
      have hb : b ∈ a :: t := h.mem_iff.mpr (List.mem_cons_self ..)
      rcases List.mem_cons.mp ha with h1 | h1
      · exact h1
      · rcases List.mem_cons.mp hb with h2 | h2
        · exact h2.symm
        · exact anti _ _ (s1'.1 b h2) (s2'.1 a h1)
    subst hab
    have := eq_of_perm_of_pairwise anti t u h.cons_inv s1'.2 s2'.2
    rw [this]

theorem sortS_sorted (l : List String) : (sortS l).Pairwise (fun a b => a ≤ b) := by
  have := List.pairwise_mergeSort (le := fun (a b : String) => decide (a ≤ b))
    (by intro a b c h1 h2; simp only [decide_eq_true_eq] at *; exact String.le_trans h1 h2)
    (by intro a b; simp only [Bool.or_eq_true, decide_eq_true_eq]; exact String.le_total a b) l
  simpa [sortS] using this

theorem sortS_perm (l : List String) : (sortS l).Perm l := List.mergeSort_perm l _

theorem sortS_eq_of_perm {l l' : List String} (h : l.Perm l') : sortS l = sortS l' :=
  eq_of_perm_of_pairwise (fun _ _ => String.le_antisymm) _ _
    ((sortS_perm l).trans (h.trans (sortS_perm l').symm)) (sortS_sorted l) (sortS_sorted l')

theorem sortI_sorted (l : List Int) : (sortI l).Pairwise (fun a b => a ≤ b) := by
  have := List.pairwise_mergeSort (le := fun (a b : Int) => decide (a ≤ b))
    (by intro a b c h1 h2; simp only [decide_eq_true_eq] at *; exact Int.le_trans h1 h2)
    (by intro a b; simp only [Bool.or_eq_true, decide_eq_true_eq]; exact Int.le_total a b) l
  simpa [sortI] using this

theorem sortI_perm (l : List Int) : (sortI l).Perm l := List.mergeSort_perm l _

theorem sortI_eq_of_perm {l l' : List Int} (h : l.Perm l') : sortI l = sortI l' :=
  eq_of_perm_of_pairwise (fun _ _ => Int.le_antisymm) _ _
    ((sortI_perm l).trans (h.trans (sortI_perm l').symm)) (sortI_sorted l) (sortI_sorted l')

/-! ## keys, lookup -/

theorem foldl_collect {K V} (l : List (K × V)) (acc : List K) :
    l.foldl (fun acc e => acc ++ [e.1]) acc = acc ++ l.map (·.1) := by
  induction l generalizing acc with
  | nil => simp
  | cons a t ih => simp [List.foldl_cons, ih]

theorem collectKeys_eq {V} (l : List (String × V)) : collectKeys l = l.map (·.1) := by
  simpa [collectKeys] using foldl_collect l []

theorem nodupKeys_iff {K V} [BEq K] [LawfulBEq K] (l : List (K × V)) :
    nodupKeys l = true ↔ (l.map (·.1)).Nodup := by
  induction l with
  | nil => simp [nodupKeys]
  | cons a t ih =>
    obtain ⟨k, v⟩ := a
    simp only [nodupKeys, Bool.and_eq_true, Bool.not_eq_true', List.map_cons, List.nodup_cons, ih]
    constructor
    · rintro ⟨h1, h2⟩
      refine ⟨?_, h2⟩
      intro hm
      obtain ⟨e, he, hk⟩ := List.mem_map.mp hm
      have : t.any (fun e => e.1 == k) = true := List.any_eq_true.mpr ⟨e, he, by simp [hk]⟩
      simp [this] at h1
    · rintro ⟨h1, h2⟩
      refine ⟨?_, h2⟩
      cases hany : t.any (fun e => e.1 == k) with
      | false => rfl
      | true =>
        obtain ⟨e, he, hk⟩ := List.any_eq_true.mp hany
        exact absurd (List.mem_map.mpr ⟨e, he, by simpa using hk⟩) h1

theorem nodupKeys_perm {K V} [BEq K] [LawfulBEq K] {l l' : List (K × V)} (h : l.Perm l') :
    nodupKeys l = true → nodupKeys l' = true := by
  rw [nodupKeys_iff, nodupKeys_iff]
  exact (h.map _).nodup_iff.mp

/-- the lookup of a key does not depend on how a map with distinct keys is listed -/
theorem get_perm {K V} [BEq K] [LawfulBEq K] {l l' : List (K × V)} (h : l.Perm l') :
    nodupKeys l = true → ∀ k, get l k = get l' k := by
  induction h with
  | nil => intros; rfl
  | cons a _ ih =>
    intro hn k
    obtain ⟨ka, va⟩ := a
    have hn' := hn
    simp only [nodupKeys, Bool.and_eq_true] at hn'
    simp only [get, List.lookup_cons]
    cases k == ka with
    | true => rfl
    | false => exact ih hn'.2 k
  | swap a b t =>
    intro hn k
    obtain ⟨ka, va⟩ := a
    obtain ⟨kb, vb⟩ := b
    simp only [get, List.lookup_cons]
    cases h1 : k == kb with
    | false => rfl
    | true =>
      cases h2 : k == ka with
      | false => rfl
      | true =>
        -- both keys equal k: impossible, the keys are distinct
        have e1 : k = kb := by simpa using h1
        have e2 : k = ka := by simpa using h2
        subst e1; subst e2
        simp [nodupKeys] at hn
  | trans h1 _ ih1 ih2 =>
    intro hn k
    rw [ih1 hn k, ih2 (nodupKeys_perm h1 hn) k]

theorem lookup_replace {K V} [BEq K] [LawfulBEq K] (m : List (K × V)) (k c : K) (v : V) :
    List.lookup c (m.map (fun e => if e.1 == k then (k, v) else e)) =
      if k == c then (if m.any (fun e => e.1 == k) then some v else none) else List.lookup c m := by
  induction m with
  | nil => simp
  | cons a t ih =>
    obtain ⟨ka, va⟩ := a
    by_cases h1 : ka = k
    · subst h1
      by_cases h2 : c = ka
      · subst h2; simp
      · have h2' : ¬ ka = c := fun h => h2 h.symm
        have hb : (c == ka) = false := by simpa using h2
        simp [List.lookup_cons, hb, h2', ih]
    · have h1' : (ka == k) = false := by simpa using h1
      by_cases h2 : c = ka
      · subst h2
        have : ¬ k = c := fun h => h1 h.symm
        simp [h1', this]
      · have hb : (c == ka) = false := by simpa using h2
        by_cases h3 : k = c
        · subst h3
          simp only [List.map_cons, h1', Bool.false_eq_true, if_false, List.lookup_cons, hb, ih,
            List.any_cons, Bool.false_or, beq_self_eq_true, if_true]
        · simp [List.lookup_cons, h1', hb, h3, ih]

theorem lookup_none_of_not_any {K V} [BEq K] [LawfulBEq K] (m : List (K × V)) (k : K)
    (h : ¬ m.any (fun e => e.1 == k) = true) : List.lookup k m = none := by
  apply List.lookup_eq_none_iff.mpr
  intro p hp
  cases hh : p.1 == k with
  | true => exact absurd (List.any_eq_true.mpr ⟨p, hp, hh⟩) h
  | false =>
    have : ¬ p.1 = k := by simpa using hh
    simpa [bne_iff_ne] using fun h => this h.symm

theorem get_put {K V} [BEq K] [LawfulBEq K] (m : List (K × V)) (k c : K) (v : V) :
    get (put m k v) c = if k == c then some v else get m c := by
  unfold put
  split
  · rename_i hany
    simp only [get, lookup_replace, hany, if_true]
  · rename_i hany
    simp only [get, List.lookup_append]
    by_cases hc : k = c
    · subst hc
      simp [lookup_none_of_not_any m k hany]
    · have : (c == k) = false := by simpa using fun h => hc h.symm
      simp [List.lookup_cons, this, hc]

/-! ## the pattern "collect, sort, walk" -/

theorem walkSorted_perm {V O} (emit : String → Option V → Option O) {l l' : List (String × V)}
    (h : l.Perm l') (hn : nodupKeys l = true) : walkSorted emit l = walkSorted emit l' := by
  unfold walkSorted
  rw [collectKeys_eq, collectKeys_eq, sortS_eq_of_perm (h.map _)]
  congr 1
  funext k
  rw [get_perm h hn k]

/-! ## acr alphabet -/

theorem acrCollect_fold (l : List (String × String)) (acc : List String) (hacc : acc.Nodup) :
    (l.foldl (fun alphabet e => if alphabet.contains e.2 then alphabet else alphabet ++ [e.2]) acc).Nodup ∧
    ∀ x, x ∈ l.foldl (fun alphabet e => if alphabet.contains e.2 then alphabet else alphabet ++ [e.2]) acc ↔
      (x ∈ acc ∨ x ∈ l.map (·.2)) := by
  induction l generalizing acc with
  | nil => simp [hacc]
  | cons a t ih =>
    simp only [List.foldl_cons, List.map_cons, List.mem_cons]
    by_cases hc : acc.contains a.2 = true
    · simp only [hc, if_true]
      obtain ⟨h1, h2⟩ := ih acc hacc
      refine ⟨h1, fun x => ?_⟩
      rw [h2 x]
      have : a.2 ∈ acc := List.contains_iff_mem.mp hc
      constructor
      · rintro (h | h)
        · exact Or.inl h
        · exact Or.inr (Or.inr h)
      · rintro (h | h | h)
        · exact Or.inl h
        · exact Or.inl (h ▸ this)
        · exact Or.inr h
    · simp only [hc, Bool.false_eq_true, if_false]
      have hnm : ¬ a.2 ∈ acc := fun h => hc (List.contains_iff_mem.mpr h)
      have hnd : (acc ++ [a.2]).Nodup := by
        rw [List.nodup_append]
        refine ⟨hacc, by simp, ?_⟩
        intro x hx y hy
        have : y = a.2 := by simpa using hy
        subst this
        exact fun h => hnm (h ▸ hx)
      obtain ⟨h1, h2⟩ := ih (acc ++ [a.2]) hnd
      refine ⟨h1, fun x => ?_⟩
      rw [h2 x]
      simp only [List.mem_append, List.mem_singleton]
      constructor
      · rintro ((h | h) | h)
        · exact Or.inl h
        · exact Or.inr (Or.inl h)
        · exact Or.inr (Or.inr h)
      · rintro (h | h | h)
        · exact Or.inl (Or.inl h)
        · exact Or.inl (Or.inr h)
        · exact Or.inr h

theorem acrCollect_perm {l l' : List (String × String)} (h : l.Perm l') :
    (acrCollect l).Perm (acrCollect l') := by
  obtain ⟨n1, m1⟩ := acrCollect_fold l [] List.nodup_nil
  obtain ⟨n2, m2⟩ := acrCollect_fold l' [] List.nodup_nil
  refine (List.perm_ext_iff_of_nodup n1 n2).mpr (fun x => ?_)
  show x ∈ List.foldl _ [] l ↔ x ∈ List.foldl _ [] l'
  rw [m1 x, m2 x]
  simp only [List.not_mem_nil, false_or]
  exact (h.map _).mem_iff

/-! ## clearing a map while ranging over it -/

theorem del_fold {N} (o m : List (String × N)) :
    o.foldl (fun m e => del m e.1) m = m.filter (fun e => !(o.any (fun x => x.1 == e.1))) := by
  induction o generalizing m with
  | nil =>
    simp only [List.foldl_nil, List.any_nil, Bool.not_false]
    exact (List.filter_eq_self.mpr (fun _ _ => rfl)).symm
  | cons a t ih =>
    rw [List.foldl_cons, ih (del m a.1)]
    simp only [del, List.filter_filter, List.any_cons]
    congr 1
    funext e
    have : (e.1 == a.1) = (a.1 == e.1) := by
      cases h1 : (a.1 == e.1) <;> cases h2 : (e.1 == a.1) <;> simp_all
    rw [this]
    cases (a.1 == e.1) <;> simp

theorem clearIndex_eq_nil {N} (l : List (String × N)) : clearIndex l = [] := by
  unfold clearIndex
  rw [del_fold]
  apply List.filter_eq_nil_iff.mpr
  intro e he
  have : l.any (fun x => x.1 == e.1) = true := List.any_eq_true.mpr ⟨e, he, by simp⟩
  simp [this]

/-! ## early-exit loops -/

theorem compareTipIndexesLoop_eq {N} (other : List String) (l : List (String × N)) :
    compareTipIndexesLoop other l = l.all (fun e => other.contains e.1) := by
  induction l with
  | nil => rfl
  | cons a t ih =>
    obtain ⟨k, v⟩ := a
    simp only [compareTipIndexesLoop, List.all_cons, ih]
    cases other.contains k <;> simp

theorem mergeDisjointLoop_eq {N} (other : List String) (l : List (String × N)) :
    mergeDisjointLoop other l = l.all (fun e => !(other.contains e.1)) := by
  induction l with
  | nil => rfl
  | cons a t ih =>
    obtain ⟨k, v⟩ := a
    simp only [mergeDisjointLoop, List.all_cons, ih]
    cases other.contains k <;> simp

/-! ## injectivity facts -/

theorem inj_of_nodup_map {α β} (f : α → β) : ∀ (l : List α), (l.map f).Nodup →
    ∀ x ∈ l, ∀ y ∈ l, f x = f y → x = y
  | [], _, x, hx, _, _, _ => by simp at hx
  | a :: t, hn, x, hx, y, hy, hxy => by
    simp only [List.map_cons, List.nodup_cons] at hn
    rcases List.mem_cons.mp hx with rfl | hx' <;> rcases List.mem_cons.mp hy with rfl | hy'
    · rfl
    · exact absurd (List.mem_map.mpr ⟨y, hy', hxy.symm⟩) hn.1
    · exact absurd (List.mem_map.mpr ⟨x, hx', hxy⟩) hn.1
    · exact inj_of_nodup_map f t hn.2 x hx' y hy' hxy

theorem nodupVals_iff {K V} [BEq V] [LawfulBEq V] (l : List (K × V)) :
    nodupVals l = true ↔ (l.map (·.2)).Nodup := by
  induction l with
  | nil => simp [nodupVals]
  | cons a t ih =>
    obtain ⟨k, v⟩ := a
    simp only [nodupVals, Bool.and_eq_true, Bool.not_eq_true', List.map_cons, List.nodup_cons, ih]
    constructor
    · rintro ⟨h1, h2⟩
      refine ⟨?_, h2⟩
      intro hm
      obtain ⟨e, he, hk⟩ := List.mem_map.mp hm
      have : t.any (fun e => e.2 == v) = true := List.any_eq_true.mpr ⟨e, he, by simp [hk]⟩
      simp [this] at h1
    · rintro ⟨h1, h2⟩
      refine ⟨?_, h2⟩
      cases hany : t.any (fun e => e.2 == v) with
      | false => rfl
      | true =>
        obtain ⟨e, he, hk⟩ := List.any_eq_true.mp hany
        exact absurd (List.mem_map.mpr ⟨e, he, by simpa using hk⟩) h1

theorem mem_of_get {K V} [BEq K] [LawfulBEq K] : ∀ (l : List (K × V)) (k : K) (v : V),
    get l k = some v → (k, v) ∈ l
  | [], _, _, h => by simp [get] at h
  | (ka, va) :: t, k, v, h => by
    simp only [get, List.lookup_cons] at h
    cases hk : k == ka with
    | true =>
      simp only [hk] at h
      have e1 : k = ka := by simpa using hk
      have e2 : va = v := by simpa using h
      subst e1; subst e2
      exact List.mem_cons_self ..
    | false =>
      simp only [hk] at h
      exact List.mem_cons_of_mem _ (mem_of_get t k v h)

theorem index_injective (index : List (String × Nat)) (hv : nodupVals index = true) :
    ∀ a b id, get index a = some id → get index b = some id → a = b := by
  intro a b id ha hb
  have h1 := mem_of_get index a id ha
  have h2 := mem_of_get index b id hb
  have := inj_of_nodup_map (·.2) index ((nodupVals_iff index).mp hv) _ h1 _ h2 rfl
  exact congrArg Prod.fst this

/-! ## tree.Rename -/

theorem renameLoop_perm (index : List (String × Nat)) (names : Nat → String)
    {l l' : List (String × String)} (h : l.Perm l') (hn : nodupKeys l = true)
    (hv : nodupVals index = true) : renameLoop index names l = renameLoop index names l' := by
  unfold renameLoop
  apply List.Perm.foldl_eq' h
  intro x hx y hy z
  by_cases hxy : x = y
  · subst hxy; rfl
  · have hk : x.1 ≠ y.1 := fun hk =>
      hxy (inj_of_nodup_map (·.1) l ((nodupKeys_iff l).mp hn) x hx y hy hk)
    cases gx : get index x.1 with
    | none => simp only []
    | some idx =>
      cases gy : get index y.1 with
      | none => simp only []
      | some idy =>
        have hid : idx ≠ idy := fun hid => hk (index_injective index hv _ _ idx gx (hid ▸ gy))
        funext i
        simp only []
        by_cases h1 : i = idx <;> by_cases h2 : i = idy
        · exact absurd (h1.symm.trans h2) hid
        · simp [h1, hid]
        · have hid' : ¬ idy = idx := fun h => hid h.symm
          simp [h2, hid']
        · simp [h1, h2]

/-! ## MutationList.Append -/

theorem mutAppend_eq (m : List (String × Mut)) (l : List (String × Mut)) (hn : nodupKeys l = true) :
    mutAppend m l = if l.any (fun e => (get m e.1).isSome) then none
      else some (fun k => (get m k).or (get l k)) := by
  unfold mutAppend
  induction l generalizing m with
  | nil => simp [mutAppendLoop, get]
  | cons a t ih =>
    obtain ⟨k, v⟩ := a
    have hn' := hn
    simp only [nodupKeys, Bool.and_eq_true, Bool.not_eq_true'] at hn'
    simp only [mutAppendLoop, List.any_cons]
    by_cases hs : (get m k).isSome = true
    · simp [hs]
    · have hs : (get m k).isSome = false := by simpa using hs
      simp only [hs, Bool.false_eq_true, if_false, Bool.false_or]
      rw [ih (put m k v) hn'.2]
      have hkey : ∀ e ∈ t, (k == e.1) = false := by
        intro e he
        cases hh : k == e.1 with
        | false => rfl
        | true =>
          have hek : e.1 = k := (show k = e.1 by simpa using hh).symm
          have hany : t.any (fun e => e.1 == k) = true := List.any_eq_true.mpr ⟨e, he, by simp [hek]⟩
          rw [hn'.1] at hany
          exact absurd hany (by simp)
      have hany : t.any (fun e => (get (put m k v) e.1).isSome) = t.any (fun e => (get m e.1).isSome) := by
        have : ∀ (t' : List (String × Mut)), (∀ e ∈ t', (k == e.1) = false) →
            t'.any (fun e => (get (put m k v) e.1).isSome) = t'.any (fun e => (get m e.1).isSome) := by
          intro t'
          induction t' with
          | nil => intro _; rfl
          | cons e r ihr =>
            intro hk
            simp only [List.any_cons]
            rw [ihr (fun e he => hk e (List.mem_cons_of_mem _ he)), get_put, hk e (List.mem_cons_self ..)]
            simp
        exact this t hkey
      rw [hany]
      split
      · rfl
      · congr 1
        funext c
        rw [get_put]
        have hnone : get m k = none := by
          cases hg : get m k with
          | none => rfl
          | some x => simp [hg] at hs
        by_cases hc : k = c
        · subst hc
          have hnone' : List.lookup k m = none := hnone
          simp [hnone', get]
        · have h1 : (k == c) = false := by simpa using hc
          have h2 : (c == k) = false := by simpa using fun h => hc h.symm
          simp [h1, get, List.lookup_cons, h2]

theorem mutAppend_perm (m : List (String × Mut)) {l l' : List (String × Mut)} (h : l.Perm l')
    (hn : nodupKeys l = true) : mutAppend m l = mutAppend m l' := by
  rw [mutAppend_eq m l hn, mutAppend_eq m l' (nodupKeys_perm h hn), h.any_eq]
  split
  · rfl
  · congr 1
    funext k
    rw [get_perm h hn k]

/-! ## the character distribution (commutative accumulation) -/

def cdStep (c : Char) (o : Option Nat) (e : Char × Nat) : Option Nat :=
  if e.1 == c then some (match o with | none => e.2 | some old => old + e.2) else o

theorem charDist_fold (cd l : List (Char × Nat)) (c : Char) :
    get (charDistLoop cd l) c = l.foldl (cdStep c) (get cd c) := by
  unfold charDistLoop
  induction l generalizing cd with
  | nil => rfl
  | cons e t ih =>
    rw [List.foldl_cons, List.foldl_cons, ih]
    congr 1
    unfold cdStep
    by_cases hc : e.1 = c
    · subst hc
      cases hg : get cd e.1 with
      | none => simp [get_put]
      | some old => simp [get_put]
    · have : (e.1 == c) = false := by simpa using hc
      cases hg : get cd e.1 with
      | none => simp [get_put, this]
      | some old => simp [get_put, this]

theorem cdStep_comm (c : Char) (o : Option Nat) (x y : Char × Nat) :
    cdStep c (cdStep c o x) y = cdStep c (cdStep c o y) x := by
  unfold cdStep
  cases hx : x.1 == c <;> cases hy : y.1 == c <;> cases o <;> simp <;> omega

theorem charDist_perm (cd : List (Char × Nat)) {l l' : List (Char × Nat)} (h : l.Perm l') :
    charDist cd l = charDist cd l' := by
  funext c
  unfold charDist
  rw [charDist_fold, charDist_fold]
  exact List.Perm.foldl_eq' h (fun x _ y _ z => cdStep_comm c z x y) _

/-! ## CountEEMs -/

theorem eemLoop_perm (acc : List (EemKey × Mut)) {l l' : List (String × Mut)} (h : l.Perm l')
    (hn : nodupKeys l = true) : eemLoop acc l = eemLoop acc l' := by
  unfold eemLoop
  rw [collectKeys_eq, collectKeys_eq, sortS_eq_of_perm (h.map _)]
  congr 1
  funext a k
  rw [get_perm h hn k]

def eemObsStep (id : EemKey) (o : Option Nat) (e : String × Mut) : Option Nat :=
  if eemKey e.2 == id then (match o with | some n => some (n + 1) | none => some e.2.numEEM) else o

theorem eemStep_obs (acc : List (EemKey × Mut)) (v : Mut) (id : EemKey) :
    (get (eemStep acc v) id).map (·.numEEM) =
      if eemKey v == id then (match (get acc id).map (·.numEEM) with | some n => some (n + 1) | none => some v.numEEM)
      else (get acc id).map (·.numEEM) := by
  unfold eemStep
  by_cases hc : eemKey v = id
  · subst hc
    cases hg : get acc (eemKey v) with
    | none => simp [get_put]
    | some m => simp [get_put]
  · have : (eemKey v == id) = false := by simpa using hc
    cases hg : get acc (eemKey v) with
    | none => simp [get_put, this]
    | some m => simp [get_put, this]

theorem eemCountsPinned_fold (acc : List (EemKey × Mut)) (l : List (String × Mut)) (id : EemKey) :
    eemCountsPinned acc l id = l.foldl (eemObsStep id) ((get acc id).map (·.numEEM)) := by
  unfold eemCountsPinned eemLoopPinned
  induction l generalizing acc with
  | nil => rfl
  | cons e t ih =>
    rw [List.foldl_cons, List.foldl_cons, ih, eemStep_obs]
    rfl

theorem eemObsStep_comm (id : EemKey) (o : Option Nat) (x y : String × Mut)
    (hx : x.2.numEEM = 1) (hy : y.2.numEEM = 1) :
    eemObsStep id (eemObsStep id o x) y = eemObsStep id (eemObsStep id o y) x := by
  unfold eemObsStep
  cases h1 : eemKey x.2 == id <;> cases h2 : eemKey y.2 == id <;> cases o <;> simp [hx, hy]

/-! ## asr tip counts, rf lines -/

theorem asrTipCounts_perm (nucl : Bool) (alphabet : List Char) {l l' : List (Char × Nat)} (c : Char) (h : l.Perm l')
    (hn : nodupKeys l = true) : asrTipCounts nucl alphabet l c = asrTipCounts nucl alphabet l' c := by
  unfold asrTipCounts
  rw [h.length_eq]
  congr 1
  funext counts c2
  rw [get_perm h hn c2]

theorem rfLines_perm {l l' : List (Int × Int)} (h : l.Perm l') (hn : nodupKeys l = true) :
    rfLines l = rfLines l' := by
  unfold rfLines
  rw [foldl_collect, foldl_collect, List.nil_append, List.nil_append, sortI_eq_of_perm (h.map _)]
  congr 1
  funext id
  rw [get_perm h hn id]

/-! ## the collect-sort-walk loops produce the map in key order -/

theorem get_of_mem {K V} [BEq K] [LawfulBEq K] : ∀ (l : List (K × V)), nodupKeys l = true →
    ∀ e ∈ l, get l e.1 = some e.2
  | [], _, e, he => by simp at he
  | (k, v) :: t, hn, e, he => by
    simp only [nodupKeys, Bool.and_eq_true, Bool.not_eq_true'] at hn
    simp only [get, List.lookup_cons]
    rcases List.mem_cons.mp he with rfl | he'
    · simp
    · have : (e.1 == k) = false := by
        cases hh : e.1 == k with
        | false => rfl
        | true =>
          have hany : t.any (fun x => x.1 == k) = true := List.any_eq_true.mpr ⟨e, he', hh⟩
          rw [hn.1] at hany
          exact absurd hany (by simp)
      simp only [this]
      exact get_of_mem t hn.2 e he'

theorem walkSorted_eq_keyOrder {V O} (emit : String → Option V → Option O) (l : List (String × V))
    (hn : nodupKeys l = true) :
    walkSorted emit l =
      (l.mergeSort (fun a b => decide (a.1 ≤ b.1))).filterMap (fun e => emit e.1 (some e.2)) := by
  have hperm := List.mergeSort_perm l (fun a b => decide (a.1 ≤ b.1))
  have hsorted := List.pairwise_mergeSort (le := fun (a b : String × V) => decide (a.1 ≤ b.1))
    (by intro a b c h1 h2; simp only [decide_eq_true_eq] at *; exact String.le_trans h1 h2)
    (by intro a b; simp only [Bool.or_eq_true, decide_eq_true_eq]; exact String.le_total a.1 b.1) l
  have hkeys : sortS (collectKeys l) = (l.mergeSort (fun a b => decide (a.1 ≤ b.1))).map (·.1) := by
    rw [collectKeys_eq]
    apply eq_of_perm_of_pairwise (fun _ _ => String.le_antisymm) _ _
      ((sortS_perm _).trans (hperm.map _).symm) (sortS_sorted _)
    rw [List.pairwise_map]
    exact hsorted.imp (by intro a b h; simpa using h)
  unfold walkSorted
  rw [hkeys, List.filterMap_map]
  have hcongr : ∀ (s : List (String × V)), (∀ e ∈ s, e ∈ l) →
      s.filterMap ((fun k => emit k (get l k)) ∘ fun x => x.1) = s.filterMap (fun e => emit e.1 (some e.2)) := by
    intro s
    induction s with
    | nil => intro _; rfl
    | cons a t ih =>
      intro hs
      simp only [List.filterMap_cons, Function.comp]
      rw [get_of_mem l hn a (hs a (List.mem_cons_self ..)), ih (fun e he => hs e (List.mem_cons_of_mem _ he))]
  exact hcongr _ (fun e he => hperm.mem_iff.mp he)

theorem rfLines_eq_keyOrder (l : List (Int × Int)) (hn : nodupKeys l = true) :
    rfLines l = (l.mergeSort (fun a b => decide (a.1 ≤ b.1))).map (fun e => toString e.2 ++ "\n") := by
  have hperm := List.mergeSort_perm l (fun a b => decide (a.1 ≤ b.1))
  have hsorted := List.pairwise_mergeSort (le := fun (a b : Int × Int) => decide (a.1 ≤ b.1))
    (by intro a b c h1 h2; simp only [decide_eq_true_eq] at *; exact Int.le_trans h1 h2)
    (by intro a b; simp only [Bool.or_eq_true, decide_eq_true_eq]; exact Int.le_total a.1 b.1) l
  have hkeys : sortI (l.map (·.1)) = (l.mergeSort (fun a b => decide (a.1 ≤ b.1))).map (·.1) := by
    apply eq_of_perm_of_pairwise (fun _ _ => Int.le_antisymm) _ _
      ((sortI_perm _).trans (hperm.map _).symm) (sortI_sorted _)
    rw [List.pairwise_map]
    exact hsorted.imp (by intro a b h; simpa using h)
  unfold rfLines
  rw [foldl_collect, List.nil_append, hkeys, List.map_map]
  have hcongr : ∀ (s : List (Int × Int)), (∀ e ∈ s, e ∈ l) →
      s.map ((fun id => toString ((get l id).getD 0) ++ "\n") ∘ fun x => x.1) = s.map (fun e => toString e.2 ++ "\n") := by
    intro s
    induction s with
    | nil => intro _; rfl
    | cons a t ih =>
      intro hs
      simp only [List.map_cons, Function.comp]
      rw [get_of_mem l hn a (hs a (List.mem_cons_self ..)), ih (fun e he => hs e (List.mem_cons_of_mem _ he))]
      rfl
  exact hcongr _ (fun e he => hperm.mem_iff.mp he)

/-! ## countMutationSiteBranch: the whole recursion does not depend on how Go lists the child distributions -/

theorem keys_put {K V} [BEq K] [LawfulBEq K] (m : List (K × V)) (k : K) (v : V) :
    (put m k v).map (·.1) = if m.any (fun e => e.1 == k) then m.map (·.1) else m.map (·.1) ++ [k] := by
  unfold put
  split
  · rw [List.map_map]
    apply List.map_congr_left
    intro e _
    simp only [Function.comp]
    split
    · rename_i h; simpa using (show e.1 = k by simpa using h).symm
    · rfl
  · simp

theorem nodupKeys_put {K V} [BEq K] [LawfulBEq K] (m : List (K × V)) (k : K) (v : V)
    (h : nodupKeys m = true) : nodupKeys (put m k v) = true := by
  rw [nodupKeys_iff] at *
  rw [keys_put]
  split
  · exact h
  · rename_i hany
    rw [List.nodup_append]
    refine ⟨h, by simp, ?_⟩
    intro a ha b hb
    have hbk : b = k := by simpa using hb
    subst hbk
    intro hab
    subst hab
    obtain ⟨e, he, hk⟩ := List.mem_map.mp ha
    exact hany (List.any_eq_true.mpr ⟨e, he, by simp [hk]⟩)

theorem nodupKeys_charDistLoop (cd l : List (Char × Nat)) (h : nodupKeys cd = true) :
    nodupKeys (charDistLoop cd l) = true := by
  unfold charDistLoop
  induction l generalizing cd with
  | nil => exact h
  | cons e t ih =>
    rw [List.foldl_cons]
    apply ih
    cases get cd e.1 with
    | none => exact nodupKeys_put _ _ _ h
    | some old => exact nodupKeys_put _ _ _ h

/-- on a listing with distinct keys the accumulation step sees each character once -/
theorem cdStep_foldl_nodup (c : Char) : ∀ (l : List (Char × Nat)) (o : Option Nat), nodupKeys l = true →
    l.foldl (cdStep c) o = match get l c with
      | none => o
      | some v => some (match o with | none => v | some old => old + v)
  | [], o, _ => by simp [get]
  | (k, v) :: t, o, hn => by
    have hn' := hn
    simp only [nodupKeys, Bool.and_eq_true, Bool.not_eq_true'] at hn'
    rw [List.foldl_cons, cdStep_foldl_nodup c t _ hn'.2]
    by_cases hk : k = c
    · subst hk
      have hnone : List.lookup k t = none := lookup_none_of_not_any t k (by simp [hn'.1])
      simp [cdStep, hnone, get]
    · have h1 : (k == c) = false := by simpa using hk
      have h2 : (c == k) = false := by simpa using fun h => hk h.symm
      simp [cdStep, h1, get, List.lookup_cons, h2]

/-- the merged distribution, as a lookup function, depends on the two maps only through their lookups -/
theorem charDistLoop_get_congr (cd cd' l l' : List (Char × Nat))
    (hl : nodupKeys l = true) (hl' : nodupKeys l' = true)
    (hcd : ∀ c, get cd c = get cd' c) (hll : ∀ c, get l c = get l' c) :
    ∀ c, get (charDistLoop cd l) c = get (charDistLoop cd' l') c := by
  intro c
  rw [charDist_fold, charDist_fold, cdStep_foldl_nodup c l _ hl, cdStep_foldl_nodup c l' _ hl', hcd c, hll c]

/-- the relation between two runs of the recursion with different listings -/
def CmsRel (a b : Nat × List (Char × Nat) × List MutObs) : Prop :=
  a.1 = b.1 ∧ (∀ c, get a.2.1 c = get b.2.1 c) ∧ a.2.2 = b.2.2 ∧ nodupKeys a.2.1 = true ∧ nodupKeys b.2.1 = true

mutual
theorem cmsNode_rel (charOf : String → Char) (o₁ o₂ : List (Char × Nat) → List (Char × Nat))
    (h₁ : ∀ l, (o₁ l).Perm l) (h₂ : ∀ l, (o₂ l).Perm l) (p : Option Char) :
    ∀ t : T, CmsRel (cmsNode charOf o₁ p t) (cmsNode charOf o₂ p t)
  | .node d pp kids => by
    unfold cmsNode
    by_cases hk : kids.isEmpty = true
    · simp only [hk, if_true]
      exact ⟨rfl, fun _ => rfl, rfl, by simp [nodupKeys], by simp [nodupKeys]⟩
    · simp only [hk, Bool.false_eq_true, if_false]
      have r := cmsKids_rel charOf o₁ o₂ h₁ h₂ (charOf d.name) (0, [], []) (0, [], [])
        ⟨rfl, fun _ => rfl, rfl, by simp [nodupKeys], by simp [nodupKeys]⟩ kids
      obtain ⟨r1, r2, r3, r4, r5⟩ := r
      refine ⟨r1, r2, ?_, r4, r5⟩
      simp only [r1, r2 (charOf d.name), r3]
theorem cmsKids_rel (charOf : String → Char) (o₁ o₂ : List (Char × Nat) → List (Char × Nat))
    (h₁ : ∀ l, (o₁ l).Perm l) (h₂ : ∀ l, (o₂ l).Perm l) (cur : Char)
    (a b : Nat × List (Char × Nat) × List MutObs) (hab : CmsRel a b) :
    ∀ k : Kids, CmsRel (cmsKids charOf o₁ cur a k) (cmsKids charOf o₂ cur b k)
  | [] => by unfold cmsKids; exact hab
  | (e, t) :: r => by
    unfold cmsKids
    have c := cmsNode_rel charOf o₁ o₂ h₁ h₂ (some cur) t
    obtain ⟨a1, a2, a3, a4, a5⟩ := hab
    obtain ⟨c1, c2, c3, c4, c5⟩ := c
    apply cmsKids_rel charOf o₁ o₂ h₁ h₂ cur _ _ _ r
    refine ⟨by simp only [a1, c1], ?_, by simp only [a3, c3], nodupKeys_charDistLoop _ _ a4, nodupKeys_charDistLoop _ _ a5⟩
    apply charDistLoop_get_congr
    · exact nodupKeys_perm (h₁ _).symm c4
    · exact nodupKeys_perm (h₂ _).symm c5
    · exact a2
    · intro c
      rw [get_perm (h₁ _) (nodupKeys_perm (h₁ _).symm c4) c, get_perm (h₂ _) (nodupKeys_perm (h₂ _).symm c5) c]
      exact c2 c
end

/-! ## WriteNexus: the translate map has distinct keys -/

theorem nexusLabelStep_nodup (st : List (String × String) × List String × Nat) (tip : String)
    (h : nodupKeys st.1 = true) : nodupKeys (nexusLabelStep st tip).1 = true := by
  unfold nexusLabelStep
  split
  · exact h
  · exact nodupKeys_put _ _ _ h

theorem nexusLabels_inner_nodup (tips : List String) (st : List (String × String) × List String × Nat)
    (h : nodupKeys st.1 = true) : nodupKeys (tips.foldl nexusLabelStep st).1 = true := by
  induction tips generalizing st with
  | nil => exact h
  | cons a t ih => exact ih _ (nexusLabelStep_nodup st a h)

theorem nexusLabels_nodup_aux (trees : List (List String)) (st : List (String × String) × List String × Nat)
    (h : nodupKeys st.1 = true) :
    nodupKeys (trees.foldl (fun st tips => let st' := tips.foldl nexusLabelStep st; (st'.1, sortS st'.2.1, st'.2.2)) st).1 = true := by
  induction trees generalizing st with
  | nil => exact h
  | cons a t ih =>
    rw [List.foldl_cons]
    exact ih _ (nexusLabels_inner_nodup a st h)

/-! ## the node index that `Rename` builds is injective by construction -/

theorem not_any_of_get_none {K V} [BEq K] [LawfulBEq K] (m : List (K × V)) (k : K)
    (h : (get m k).isSome = false) : m.any (fun e => e.1 == k) = false := by
  cases hany : m.any (fun e => e.1 == k) with
  | false => rfl
  | true =>
    obtain ⟨e, he, hk⟩ := List.any_eq_true.mp hany
    have hk' : e.1 = k := by simpa using hk
    -- the key is present: the lookup cannot be none
    have hnone : List.lookup k m = none := by
      cases hg : List.lookup k m with
      | none => rfl
      | some x => simp [get, hg] at h
    have := List.lookup_eq_none_iff.mp hnone e he
    simp [hk'] at this

theorem put_absent {K V} [BEq K] [LawfulBEq K] (m : List (K × V)) (k : K) (v : V)
    (h : (get m k).isSome = false) : put m k v = m ++ [(k, v)] := by
  unfold put
  simp [not_any_of_get_none m k h]

theorem buildNodeIndex_nodupVals : ∀ (names : List String) (i : Nat) (acc index : List (String × Nat)),
    (acc.map (·.2)).Nodup → (∀ e ∈ acc, e.2 < i) → buildNodeIndex i names acc = some index →
    (index.map (·.2)).Nodup
  | [], i, acc, index, hn, _, h => by
    simp only [buildNodeIndex, Option.some.injEq] at h
    exact h ▸ hn
  | n :: r, i, acc, index, hn, hlt, h => by
    unfold buildNodeIndex at h
    by_cases he : (n == "") = true
    · simp only [he, if_true] at h
      exact buildNodeIndex_nodupVals r (i + 1) acc index hn (fun e he' => Nat.lt_succ_of_lt (hlt e he')) h
    · simp only [he, Bool.false_eq_true, if_false] at h
      by_cases hs : (get acc n).isSome = true
      · simp [hs] at h
      · have hs' : (get acc n).isSome = false := by simpa using hs
        simp only [hs', Bool.false_eq_true, if_false] at h
        rw [put_absent acc n i hs'] at h
        apply buildNodeIndex_nodupVals r (i + 1) (acc ++ [(n, i)]) index _ _ h
        · rw [List.map_append, List.nodup_append]
          refine ⟨hn, by simp, ?_⟩
          intro a ha b hb
          have hb' : b = i := by simpa using hb
          subst hb'
          obtain ⟨e, hem, hea⟩ := List.mem_map.mp ha
          have := hlt e hem
          omega
        · intro e hem
          rcases List.mem_append.mp hem with h1 | h1
          · exact Nat.lt_succ_of_lt (hlt e h1)
          · have : e = (n, i) := by simpa using h1
            subst this
            exact Nat.lt_succ_self _

theorem renameFull_perm (names : List String) (isTip : List Bool) {l l' : List (String × String)}
    (h : l.Perm l') (hn : nodupKeys l = true) : renameFull names isTip l = renameFull names isTip l' := by
  unfold renameFull
  cases hb : buildNodeIndex 0 names [] with
  | none => rfl
  | some index =>
    have hv : nodupVals index = true :=
      (nodupVals_iff index).mpr (buildNodeIndex_nodupVals names 0 [] index (by simp) (by simp) hb)
    simp only []
    rw [renameLoop_perm index _ h hn hv]

/-! ## CountEEMs as a whole -/

mutual
theorem eemNode_nodup (charOf : String → Char) (site : Nat) (p : Option Char) (eid : Int) (cm : Option Mut)
    (acc : List (String × Mut)) (h : nodupKeys acc = true) :
    ∀ t : T, nodupKeys (eemNode charOf site p eid cm acc t) = true
  | .node d pp kids => by
    unfold eemNode
    by_cases hk : kids.isEmpty = true
    · simp only [hk, if_true]
      split
      · exact nodupKeys_put _ _ _ h
      · exact h
    · simp only [hk, Bool.false_eq_true, if_false]
      exact eemKids_nodup charOf site _ _ acc h kids
theorem eemKids_nodup (charOf : String → Char) (site : Nat) (cur : Char) (cm : Option Mut)
    (acc : List (String × Mut)) (h : nodupKeys acc = true) :
    ∀ k : Kids, nodupKeys (eemKids charOf site cur cm acc k) = true
  | [] => by unfold eemKids; exact h
  | (e, t) :: r => by
    unfold eemKids
    exact eemKids_nodup charOf site cur cm _ (eemNode_nodup charOf site (some cur) e.id cm acc h t) r
end

theorem countEEMs_order (charOfAt : Nat → String → Char) (o₁ o₂ : List (String × Mut) → List (String × Mut))
    (h₁ : ∀ l, (o₁ l).Perm l) (h₂ : ∀ l, (o₂ l).Perm l) (nsites : Nat) (t : T) :
    countEEMs charOfAt o₁ nsites t = countEEMs charOfAt o₂ nsites t := by
  unfold countEEMs
  congr 1
  funext acc j
  have hn := eemNode_nodup (charOfAt j) j none 0 none [] (by simp [nodupKeys]) t
  have hp : (o₁ (eemNode (charOfAt j) j none 0 none [] t)).Perm (o₂ (eemNode (charOfAt j) j none 0 none [] t)) :=
    (h₁ _).trans (h₂ _).symm
  exact eemLoop_perm acc hp (nodupKeys_perm (h₁ _).symm hn)

/-! ## key-disjoint inserts -/

theorem get_foldl_put {K V} [BEq K] [LawfulBEq K] : ∀ (l acc : List (K × V)) (k : K), nodupKeys l = true →
    get (l.foldl (fun fc e => put fc e.1 e.2) acc) k = (get l k).or (get acc k)
  | [], acc, k, _ => by simp [get]
  | (a, v) :: t, acc, k, hn => by
    have hn' := hn
    simp only [nodupKeys, Bool.and_eq_true, Bool.not_eq_true'] at hn'
    rw [List.foldl_cons, get_foldl_put t _ k hn'.2, get_put]
    by_cases hk : a = k
    · subst hk
      have hnone : List.lookup a t = none := lookup_none_of_not_any t a (by simp [hn'.1])
      simp [get, hnone]
    · have h1 : (a == k) = false := by simpa using hk
      have h2 : (k == a) = false := by simpa using fun h => hk h.symm
      simp [get, h1, List.lookup_cons, h2]

end Gotree.C18
