import Driver.Proto
import Gotree.Model.C08
import Gotree.Model.C08HM
import Gotree.Model.C08Zero
import Gotree.Model.C08Cli
import Gotree.Gen.C08Glue
import Gotree.Spec.C08
import Gotree.Spec.C05

namespace Gotree.Driver.C08
open Gotree Gotree.Driver Gotree.C08

/-- what the implementation answered -/
inductive Out (α : Type) where
  | res (r : Res α)
  | panic (msg : String)

def parseBool : String → Option Bool
  | "1" => some true | "true" => some true | "0" => some false | "false" => some false | _ => none

def parseCmpOut (s : String) : Option (Out Stats) :=
  if s == "err" || s.startsWith "err;" then some (.res .err)
  else if s == "referr" then some (.res .refErr)
  else if s.startsWith "panic:" then some (.panic s)
  else match s.splitOn ";" with
    | ["ok", a, b, c, d] =>
      match a.toInt?, b.toInt?, c.toInt?, parseBool d with
      | some t1, some co, some t2, some sm => some (.res (.ok ⟨t1, co, t2, sm⟩))
      | _, _, _, _ => none
    | _ => none

def parseWOut (s : String) : Option (Out WStats) :=
  if s == "err" || s.startsWith "err;" then some (.res .err)
  else if s == "referr" then some (.res .refErr)
  else if s.startsWith "panic:" then some (.panic s)
  else match s.splitOn ";" with
    | ["ok", d, a, b, c] =>
      match parseBool d, parseRatList a, parseRatList b, parseRatList c with
      | some sm, some rf, some cp, some co => some (.res (.ok ⟨rf, cp, co, sm⟩))
      | _, _, _, _ => none
    | _ => none

mutual
def maxDeg : T → Nat
  | .node _ _ k => max k.length (maxDegL k)
def maxDegL : Kids → Nat
  | [] => 0
  | (_, t) :: r => max (maxDeg t + 1) (maxDegL r)
end

/-- generator branches / hypotheses of a pair, as tags -/
def pairTags (r c : T) (tips sc : Bool) : List String :=
  let hyp := unrootedOK r && unrootedOK c
  let st := sameTaxa r c
  let uniq := r.uniqueTips && c.uniqueTips
  tagIf tips "tips" ++ tagIf sc "shortcut" ++ tagIf hyp "hyp-unrooted" ++ tagIf (good r && good c) "hyp-good" ++
  tagIf (hyp && !(good r && good c)) "UNROOTED-NOT-GOOD" ++ tagIf st "sametaxa" ++
  tagIf (!st) "difftaxa" ++ tagIf (r.rooted || c.rooted) "rooted" ++
  tagIf (r.kids.length == 1 || c.kids.length == 1) "root-is-tip" ++
  tagIf (!(r.noSingle && c.noSingle)) "singles" ++
  tagIf (maxDeg r > 3 || maxDeg c > 3) "multif" ++
  tagIf (r.tipNames.length ≥ 4) "ge4taxa" ++
  tagIf (let ns := r.tipNames ++ c.tipNames
         ns.any fun a => ns.any fun b => a != b &&
           (a.toLower == b.toLower || (a.toInt?.isSome && a.toInt? == b.toInt?) || (b.startsWith a && a.length + 1 == b.length))) "alias-names" ++
  (if hyp && st && uniq then
    let (a, b, d) := counts r c tips
    tagIf (a > 0 && d == 0) "contraction" ++ tagIf (a == 0 && d > 0) "refinement" ++
    tagIf (a == 0 && d == 0) "identical" ++ tagIf (a > 0 && d > 0) "both-specific" ++
    tagIf (a != d) "asymmetric" ++
    tagIf (b > 0 && (a > 0 || d > 0)) "nontrivial"
   else [])

/-- Oracle for one unweighted record: `none` = holds. -/
def oracleCmp (r c : T) (tips sc : Bool) (o : Out Stats) : Option String :=
  if !(r.uniqueTips && c.uniqueTips) then none else
  match o with
  | .panic m => some ("panic " ++ m)
  | .res out =>
    if !sameTaxa r c then
      (match out with
       | .err => none
       | _ => some "trees on differing taxa not rejected with an error")
    else if !(unrootedOK r && unrootedOK c) then none
    else match out with
      | .ok st =>
        let (a, b, d) := counts r c tips
        let ss := sameSplits r c tips
        if st.same != ss then
          some ("Sametree=" ++ toString st.same ++ " but split sets " ++ (if ss then "equal" else "differ"))
        else if sc then none
        else if st.tree1 != (a : Int) || st.common != (b : Int) || st.tree2 != (d : Int) then
          some ("counts (" ++ toString st.tree1 ++ "," ++ toString st.common ++ "," ++ toString st.tree2 ++
                ") but set algebra gives (" ++ toString a ++ "," ++ toString b ++ "," ++ toString d ++ ")")
        else if st.same != (st.tree1 == 0 && st.tree2 == 0) then
          some "Sametree does not agree with the reported counts"
        else none
      | _ => some "same taxa rejected"

def tieCmp (r c : T) (tips sc : Bool) (o : Out Stats) : Option String :=
  let m := compare r c tips sc
  -- the same record through C04's ReinitIndexes and hash map (FNV-1a, Go's rehash policy)
  if compareHM C04.fnv1a (C04.goPolicy 0.75) r c tips sc != .res m then
    some "hash-map model differs from the association-list model" else
  match o with
  | .panic _ => some "implementation panicked"
  | .res out =>
    match m, out with
    | .ok a, .ok b =>
      if sc then (if a.same == b.same then none else some ("model Sametree " ++ toString a.same))
      else if a == b then none
      else some ("model (" ++ toString a.tree1 ++ "," ++ toString a.common ++ "," ++ toString a.tree2 ++ "," ++ toString a.same ++ ")")
    | .err, .err => none
    | .refErr, .refErr => none
    | _, _ => some "model outcome class differs"

def negL (l : List Rat) : List Rat := l.map (fun x => -x)

/-- do two weighted records agree (flag; terms as multisets unless the shortcut was used) -/
def wAgree (sc : Bool) (a b : WStats) : Bool :=
  a.same == b.same && (sc || (sameMS a.tree1 b.tree1 && sameMS a.tree2 b.tree2 && sameMS a.common b.common))

/-- the region of finding F89 (fixed by 462ffd9): a weighted comparison in which some counted branch has no length
    and the implementation's record is exactly the one obtained by treating the "no length"
    marker -1 as a length (the pinned model `compareWeighted`) -/
def f39 (r c : T) (tips sc : Bool) (w : WStats) : Bool :=
  (lensAbsent tips r || lensAbsent tips c) &&
  (match compareWeighted r c tips sc with | .ok m => wAgree sc m w | _ => false)

def oracleW (r c : T) (tips sc : Bool) (o : Out WStats) : Option String :=
  if !(r.uniqueTips && c.uniqueTips) then none else
  match o with
  | .panic m => some ("panic " ++ m)
  | .res out =>
    if !sameTaxa r c then
      (match out with
       | .err => none
       | _ => some "trees on differing taxa not rejected with an error")
    else if !(unrootedOK r && unrootedOK c) then none
    else match out with
      | .ok w =>
        -- the Spec reads lengths with "absent = 0" (`T.zeroLens`), never the marker -1
        -- F89 (fixed by 462ffd9): the record obtained by adding the marker -1 as a length
        let cls := if f39 r c tips sc w then "[the 'no length' marker -1 counted as a length] " else ""
        let ws := wSame0 r c tips
        if w.same != ws then some (cls ++ "weighted Sametree=" ++ toString w.same ++ " but Spec says " ++ toString ws)
        else if sc then none
        else if !(wTermsOK0 r c tips w.tree1 w.tree2 w.common) then
          some (cls ++ "weighted terms differ from the Spec: ref " ++ showRatList (sortR w.tree1) ++ " comp " ++
                showRatList (sortR w.tree2) ++ " common " ++ showRatList (sortR w.common))
        else none
      | _ => some "same taxa rejected"

/-- tie: the implementation's record is the one of the model — `compareWeighted` (marker -1 kept:
    the code at the time of writing) or `compareWeighted0` (absent = 0: the repaired reading);
    the two coincide whenever every counted branch has a length -/
def tieW (r c : T) (tips sc : Bool) (o : Out WStats) : Option String :=
  let m := compareWeighted r c tips sc
  let m0 := compareWeighted0 r c tips sc
  if compareWeightedHM C04.fnv1a (C04.goPolicy 0.75) r c tips sc != .res m then
    some "hash-map model differs from the association-list model" else
  match o with
  | .panic _ => some "implementation panicked"
  | .res out =>
    match m, m0, out with
    | .ok _, .ok a0, .ok b =>
      -- since 462ffd9 the code reads an absent length as 0: `compareWeighted0`
      -- (`compareWeighted`, marker kept, is the pinned variant)
      if wAgree sc a0 b then none
      else some ("model terms ref " ++ showRatList a0.tree1 ++ " comp " ++ showRatList a0.tree2 ++ " common " ++
                 showRatList a0.common ++ " same " ++ toString a0.same)
    | .err, _, .err => none
    | .refErr, _, .refErr => none
    | _, _, _ => some "model outcome class differs"

/-- where the model is tied to the code: every pair of trees with unique tip names.  On the
    trees of the property the oracle applies as well; on rooted trees and trees with
    single-child nodes (theorems `compare_any`, `compare_self`) the tie alone. -/
def inRegion (r c : T) : Bool := r.uniqueTips && c.uniqueTips

/-- tie on what a rejected record carries besides `Err` (`errRecord`, `errRecordW`) -/
def tieErr (r : T) (tips : Bool) (raw : String) : Option String :=
  match raw.splitOn ";" with
  | ["err", a, b, c, d] =>
    let m := errRecord r tips
    if a.toInt? == some m.tree1 && b.toInt? == some m.common && c.toInt? == some m.tree2 && parseBool d == some m.same then none
    else some ("rejected record carries (" ++ a ++ "," ++ b ++ "," ++ c ++ "," ++ d ++ "), model (" ++
      toString m.tree1 ++ ",0,0,false): the comparison ran on a tree with other taxa")
  | _ => none

def tieErrW (raw : String) : Option String :=
  match raw.splitOn ";" with
  | ["err", d, a, b, c] =>
    if parseBool d == some false && a == "" && b == "" && c == "" then none
    else some "rejected weighted record carries terms: the comparison ran on a tree with other taxa"
  | _ => none

/-- first failure of a list of labelled checks -/
def firstFail : List (String × Option String) → Option String
  | [] => none
  | (l, some m) :: _ => some (l ++ ": " ++ m)
  | (_, none) :: r => firstFail r

/-- the copies made by Reroot / RotateInternalNodes present the same splits -/
def sameView (r r2 : T) : Bool :=
  r.uniqueTips && r2.uniqueTips && sameTaxa r r2 && sameSplits r r2 true

def approxE (printed exact : Rat) : Bool :=
  -- `%E` prints 7 significant digits
  absR (printed - exact) * 1000000 ≤ absR exact

def handleCore (op : String) (f : List String) : Verdict :=
  match op, f with
  | "cmp", [tipsS, scS, dR, dC, dR2, dC2, o1, o2, o3] =>
    match parseBool tipsS, parseBool scS, T.undump dR, T.undump dC, T.undump dR2, T.undump dC2,
          parseCmpOut o1, parseCmpOut o2, parseCmpOut o3 with
    | some tips, some sc, some r, some c, some r2, some c2, some x1, some x2, some x3 =>
      let tags := pairTags r c tips sc
      let hyp := unrootedOK r && unrootedOK c && r.uniqueTips && c.uniqueTips && sameTaxa r c
      let views := sameView r r2 && sameView c c2
      let tags := tags ++ tagIf views "rerooted-copy" ++
        -- hypotheses of `compare_reroot_invariant` / `compare_rotate_invariant` on the copies
        tagIf (hyp && views && unrootedOK r2 && unrootedOK c2 && C05.lensOK r && C05.lensOK c) "hyp-reroot-invariant" ++
        -- branches of the model taken
        (match compare r c tips sc with
         | .ok m => tagIf (sc && !m.same) "model-shortcut-break-or-total" ++ tagIf (m.tree1 < 0 || m.tree2 < 0) "model-negative-count"
         | .err => ["model-err"]
         | .refErr => ["model-referr"])
      let rel : Option String :=
        if !hyp then none else
        match x1, x2, x3 with
        | .res (.ok a), .res (.ok b), .res (.ok d) =>
          if a.same != b.same then some "swap: Sametree changes when the trees are swapped"
          else if !sc && !(a.tree1 == b.tree2 && a.tree2 == b.tree1 && a.common == b.common) then
            some "swap: counts are not swapped when the trees are swapped"
          else if views && unrootedOK r2 && unrootedOK c2 && a.same != d.same then
            some "invariance: Sametree changes with the rooting / child order"
          else if views && unrootedOK r2 && unrootedOK c2 && !sc && a != d then
            some "invariance: counts change with the rooting / child order"
          else none
        | _, _, _ => none
      match firstFail [("ref,comp", oracleCmp r c tips sc x1), ("comp,ref", oracleCmp c r tips sc x2),
                       ("rerooted", oracleCmp r2 c2 tips sc x3), ("relation", rel)] with
      | some m => ⟨.oracle, tags, m⟩
      | none =>
        match firstFail [("ref,comp", tieCmp r c tips sc x1), ("comp,ref", tieCmp c r tips sc x2),
                         ("rerooted", tieCmp r2 c2 tips sc x3), ("ref,comp", tieErr r tips o1),
                         ("comp,ref", tieErr c tips o2), ("rerooted", tieErr r2 tips o3)] with
        | some m =>
          -- a difference between model and code is a broken tie everywhere (also on rooted trees,
          -- single-child nodes: theorems compare_any / compare_self say what the code does there)
          ⟨.tie, tags, m⟩
        | none => ⟨.pass, tags, ""⟩
    | _, _, _, _, _, _, _, _, _ => bad "C08.cmp fields"
  | "wcmp", [tipsS, scS, dR, dC, dR2, dC2, o1, o2, o3] =>
    match parseBool tipsS, parseBool scS, T.undump dR, T.undump dC, T.undump dR2, T.undump dC2,
          parseWOut o1, parseWOut o2, parseWOut o3 with
    | some tips, some sc, some r, some c, some r2, some c2, some x1, some x2, some x3 =>
      let tags := "weighted" :: pairTags r c tips sc ++
        tagIf ((r.edges ++ c.edges).any (·.len == NIL)) "absent-len" ++
        tagIf (lensPresent tips r && lensPresent tips c) "hyp-lens-present" ++
        tagIf ((r.edges ++ c.edges).any (·.len == 0)) "zero-len" ++
        tagIf ((r.edges ++ c.edges).any fun e => e.len < 0 && e.len != NIL) "negative-len"
      let hyp := unrootedOK r && unrootedOK c && r.uniqueTips && c.uniqueTips && sameTaxa r c
      let views := sameView r r2 && sameView c c2
      let tags := tags ++ tagIf views "rerooted-copy" ++
        tagIf (hyp && views && unrootedOK r2 && unrootedOK c2 && C05.lensOK r && C05.lensOK c) "hyp-reroot-invariant" ++
        (match compareWeighted r c tips sc with
         | .ok m => tagIf (m.common.any (· != 0)) "model-common-lendiff" ++ tagIf (!m.tree1.isEmpty) "model-ref-only" ++
                    tagIf (!m.tree2.isEmpty) "model-comp-only" ++ tagIf (sc && !m.same) "model-shortcut-break"
         | .err => ["model-err"]
         | .refErr => ["model-referr"])
      let rel : Option String :=
        if !hyp then none else
        match x1, x2, x3 with
        | .res (.ok a), .res (.ok b), .res (.ok d) =>
          if a.same != b.same then some "swap: weighted Sametree changes when the trees are swapped"
          else if !sc && !(sameMS a.tree1 b.tree2 && sameMS a.tree2 b.tree1 && sameMS a.common (negL b.common)) then
            some "swap: weighted terms are not swapped when the trees are swapped"
          else if views && unrootedOK r2 && unrootedOK c2 && a.same != d.same then
            some "invariance: weighted Sametree changes with the rooting / child order"
          else if views && unrootedOK r2 && unrootedOK c2 && !sc &&
              !(sameMS a.tree1 d.tree1 && sameMS a.tree2 d.tree2 && sameMS a.common d.common) then
            some "invariance: weighted terms change with the rooting / child order"
          else none
        | _, _, _ => none
      match firstFail [("ref,comp", oracleW r c tips sc x1), ("comp,ref", oracleW c r tips sc x2),
                       ("rerooted", oracleW r2 c2 tips sc x3), ("relation", rel)] with
      | some m => ⟨.oracle, tags, m⟩
      | none =>
        match firstFail [("ref,comp", tieW r c tips sc x1), ("comp,ref", tieW c r tips sc x2),
                         ("rerooted", tieW r2 c2 tips sc x3), ("ref,comp", tieErrW o1),
                         ("comp,ref", tieErrW o2), ("rerooted", tieErrW o3)] with
        | some m =>
          -- a difference between model and code is a broken tie everywhere (also on rooted trees,
          -- single-child nodes: theorems compare_any / compare_self say what the code does there)
          ⟨.tie, tags, m⟩
        | none => ⟨.pass, tags, ""⟩
    | _, _, _, _, _, _, _, _, _ => bad "C08.wcmp fields"
  | "common", [tipsS, dA, dB, o] =>
    match parseBool tipsS, T.undump dA, T.undump dB with
    | some tips, some a, some b =>
      let tags := "commonedges" :: pairTags a b tips false
      if !(a.uniqueTips && b.uniqueTips) then ⟨.pass, "skip-dupnames" :: tags, ""⟩ else
      let m := commonEdges a b tips
      if o.startsWith "panic:" then ⟨.oracle, tags, "CommonEdges panicked: " ++ o⟩
      else if !sameTaxa a b then
        (if o == "err" then (if m == .err then ⟨.pass, tags, ""⟩ else ⟨.tie, tags, "model accepts differing taxa"⟩)
         else ⟨.oracle, tags, "CommonEdges: differing taxa not rejected"⟩)
      else match o.splitOn ";" with
        | ["ok", x, y] =>
          match x.toInt?, y.toInt? with
          | some t1, some co =>
            let (sa, sb, _) := counts a b tips
            if unrootedOK a && unrootedOK b && (t1 != (sa : Int) || co != (sb : Int)) then
              ⟨.oracle, tags, "CommonEdges (" ++ toString t1 ++ "," ++ toString co ++ ") but set algebra gives (" ++
                toString sa ++ "," ++ toString sb ++ ")"⟩
            else if m != .ok (t1, co) then
              ⟨.tie, tags, "model CommonEdges differs"⟩
            else ⟨.pass, tags, ""⟩
          | _, _ => bad "C08.common numbers"
        | _ => if o == "err" then ⟨.oracle, tags, "CommonEdges: same taxa rejected"⟩ else bad "C08.common outcome"
    | _, _, _ => bad "C08.common fields"
  | "tipidx", [dA, dB, o] =>
    match T.undump dA, T.undump dB with
    | some a, some b =>
      let st := sameTaxa a b
      let tags := ["tipindex"] ++ tagIf st "sametaxa" ++ tagIf (!st) "difftaxa" ++
        tagIf (!st && a.tipNames.length == b.tipNames.length) "difftaxa-samecount" ++
        tagIf (!st && a.tipNames.all (fun x => b.tipNames.contains x)) "difftaxa-superset" ++
        tagIf (!st && b.tipNames.all (fun x => a.tipNames.contains x)) "difftaxa-subset"
      if !(a.uniqueTips && b.uniqueTips) then ⟨.pass, "skip-dupnames" :: tags, ""⟩ else
      let okI := o == "ok"
      if okI != st then
        ⟨.oracle, tags, if st then "CompareTipIndexes rejects the same taxa" else "CompareTipIndexes accepts differing taxa"⟩
      else if compareTipIndexes a.tipNames b.tipNames != okI then ⟨.tie, tags, "model CompareTipIndexes differs"⟩
      else ⟨.pass, tags, ""⟩
    | _, _ => bad "C08.tipidx fields"
  | "cli", [mode, tipsS, dR, dCs, outcome, rowsS] =>
    match parseBool tipsS, T.undump dR, (splitTerm "|" dCs).mapM T.undump with
    | some tips, some r, some cs =>
      let rows := (splitTerm "|" rowsS).map (·.splitOn ";")
      let allSame := cs.all fun c => sameTaxa r c
      let hyp := unrootedOK r && cs.all unrootedOK
      let tags := ["cli", "cli-" ++ mode] ++ tagIf tips "tips" ++ tagIf (!allSame) "difftaxa" ++ tagIf hyp "hyp-unrooted" ++
        tagIf ((mode == "weighted" || mode == "wbinary") && (lensAbsent tips r || cs.any (lensAbsent tips))) "absent-len" ++
        tagIf (hyp && cs.any fun c => sameTaxa r c && (let (a, b, d) := counts r c tips; b > 0 && (a > 0 || d > 0))) "nontrivial"
      -- the model's records print the same rows (used as the tie; alone, outside the hypotheses)
      let mrow (c : T) (row : List String) : Bool :=
        match mode, row with
        | "plain", [_, x, y, z] =>
          (match compare r c tips false with
           | .ok s => x.toInt? == some s.tree1 && y.toInt? == some s.common && z.toInt? == some s.tree2
           | _ => false)
        | "rf", [x] => (match compare r c tips false with | .ok s => x.toInt? == some (rf s) | _ => false)
        | "binary", [_, x] => (match compare r c tips true with | .ok s => parseBool x == some s.same | _ => false)
        | "wbinary", [_, x] =>
          (match compareWeighted r c tips true, compareWeighted0 r c tips true with
           | .ok _, .ok s0 => parseBool x == some s0.same
           | _, _ => false)
        | "weighted", [_, x, y] =>
          -- the marker-kept model (the code at the time of writing) or the absent = 0 one
          let okW (w : WStats) (pw pk : Rat) : Bool := approxE pw (wrf w) && decide (absR (pk * pk - kf2 w) * 200000 ≤ kf2 w)
          (match compareWeighted r c tips false, compareWeighted0 r c tips false, parseRat? x, parseRat? y with
           | .ok _, .ok w0, some pw, some pk => okW w0 pw pk
           | _, _, _, _ => false)
        | _, _ => false
      if !hyp then
        -- rooted trees / single-child nodes: tie only
        (if r.uniqueTips && cs.all (·.uniqueTips) && allSame then
           (if outcome != "ok" || rows.length != cs.length then
              ⟨.tie, "tie-only" :: tags, "the model answers every tree, the command: " ++ outcome ++ ", " ++ toString rows.length ++ " rows"⟩
            else if (List.zip cs rows).all fun (c, row) => mrow c row then ⟨.pass, "tie-only" :: tags, ""⟩
            else ⟨.tie, "tie-only" :: tags, "model prints other rows (trees outside the property's hypotheses)"⟩)
         else ⟨.pass, "skip-hyp" :: tags, ""⟩) else
      -- the rows expected: one per compared tree up to (excluding) the first one on other taxa
      let good := cs.takeWhile fun c => sameTaxa r c
      if allSame && outcome != "ok" then ⟨.oracle, tags, "command failed on trees with the same taxa: " ++ outcome⟩
      else if !allSame && outcome == "ok" then ⟨.oracle, tags, "command accepted a tree on differing taxa"⟩
      else if !allSame && outcome != "error" then
        -- rejected, but not "with an error": the process was killed by the Go runtime or timed out
        -- (F38, fixed by 832ba44: the weighted branch drained a nil channel and deadlocked)
        ⟨.oracle, tags, "tree on differing taxa not rejected with an error: " ++ outcome⟩
      else if (allSame && rows.length != good.length) || rows.length > good.length then
        -- (after an error the command may or may not have printed the rows of the trees before it)
        ⟨.oracle, tags, "printed " ++ toString rows.length ++ " rows for " ++ toString good.length ++ " comparable trees"⟩
      else
        let good := good.take rows.length
        let idx := List.range good.length
        let checkRow (i : Nat) (c : T) (row : List String) : Option String :=
          let (a, b, d) := counts r c tips
          match mode, row with
          | "plain", [id, x, y, z] =>
            if id.toNat? != some i then some "row id" else
            if x.toInt? == some (a : Int) && y.toInt? == some (b : Int) && z.toInt? == some (d : Int) then none
            else some ("row " ++ toString i ++ ": printed " ++ x ++ "," ++ y ++ "," ++ z ++ " expected " ++
              toString a ++ "," ++ toString b ++ "," ++ toString d)
          | "rf", [x] =>
            if x.toInt? == some ((a + d : Nat) : Int) then none
            else some ("row " ++ toString i ++ ": printed RF " ++ x ++ " expected " ++ toString (a + d))
          | "binary", [id, x] =>
            if id.toNat? != some i then some "row id" else
            if parseBool x == some (sameSplits r c tips) then none
            else some ("row " ++ toString i ++ ": printed identical=" ++ x)
          | "wbinary", [id, x] =>
            if id.toNat? != some i then some "row id" else
            if parseBool x == some (wSame0 r c tips) then none
            else some ((if (lensAbsent tips r || lensAbsent tips c) && parseBool x == some (wSame r c tips)
                        then "[the 'no length' marker -1 counted as a length] " else "") ++
                       "row " ++ toString i ++ ": printed weighted identical=" ++ x)
          | "weighted", [id, x, y] =>
            if id.toNat? != some i then some "row id" else
            match parseRat? x, parseRat? y with
            | some pw, some pk =>
              -- Spec: lengths with "absent = 0", never the marker -1
              let r0 := r.zeroLens
              let c0 := c.zeroLens
              let w : WStats := ⟨onlyLens (U tips r0) (U tips c0), onlyLens (U tips c0) (U tips r0),
                                 commonDiffs (U tips r0) (U tips c0), false⟩
              -- F89: the printed values are those obtained by adding the marker -1 as a length
              let wm : WStats := ⟨onlyLens (U tips r) (U tips c), onlyLens (U tips c) (U tips r),
                                  commonDiffs (U tips r) (U tips c), false⟩
              let cls := if (lensAbsent tips r || lensAbsent tips c) && approxE pw (wrf wm) &&
                  decide (absR (pk * pk - kf2 wm) * 200000 ≤ kf2 wm) then "[the 'no length' marker -1 counted as a length] " else ""
              if !approxE pw (wrf w) then some (cls ++ "row " ++ toString i ++ ": weighted RF " ++ x ++ " expected " ++ showRat (wrf w))
              else if !(absR (pk * pk - kf2 w) * 200000 ≤ kf2 w) then
                some (cls ++ "row " ++ toString i ++ ": KF " ++ y ++ " expected sqrt of " ++ showRat (kf2 w))
              else none
            | _, _ => some "unparsable number"
          | _, _ => some ("unexpected row shape in mode " ++ mode)
        let fails := (List.zip idx (List.zip good rows)).filterMap fun (i, c, row) => checkRow i c row
        match fails with
        | m :: _ => ⟨.oracle, tags, m⟩
        | [] =>
          if (List.zip good rows).all fun (c, row) => mrow c row then ⟨.pass, tags, ""⟩
          else ⟨.tie, tags, "model prints other rows"⟩
    | _, _, _ => bad "C08.cli fields"
  | "cliedges", [dR, dC, outcome, rowsS] =>
    match T.undump dR, T.undump dC with
    | some r, some c =>
      let rows := (splitTerm "|" rowsS).map (·.splitOn ";")
      let hyp := unrootedOK r && unrootedOK c
      let st := sameTaxa r c
      let tags := ["cli", "cli-edges"] ++ tagIf hyp "hyp-unrooted" ++ tagIf (!st) "difftaxa" ++
        tagIf (hyp && st && (let (a, b, _) := counts r c false; a > 0 && b > 0)) "nontrivial"
      if !hyp then
        -- outside the property's hypotheses: tie only (terminal / found of every row against `edgeRows`)
        (if !(r.uniqueTips && c.uniqueTips && st) then ⟨.pass, "skip-hyp" :: tags, ""⟩
         else if outcome != "ok" || rows.length != r.splits.length then
           ⟨.tie, "tie-only" :: tags, "compare edges: " ++ outcome ++ ", " ++ toString rows.length ++ " rows where the model has " ++ toString r.splits.length⟩
         -- (outside the hypotheses the transfer distance of a duplicated split is not modelled:
         --  the tie is on the number of rows and the `terminal` column)
         else if (List.zip (edgeRows r c) rows).all (fun ((mt, _, _), row) =>
             match row with
             | [_, _, term, _, _, _] => parseBool term == some mt
             | _ => false) then ⟨.pass, "tie-only" :: tags, ""⟩
         else ⟨.tie, "tie-only" :: tags, "model prints other compare-edges rows"⟩)
      else if !st then
        (if outcome == "error" then ⟨.pass, tags, ""⟩
         else ⟨.oracle, tags, "compare edges: tree on differing taxa not rejected with an error: " ++ outcome⟩)
      else if outcome != "ok" then ⟨.oracle, tags, "compare edges failed on trees with the same taxa: " ++ outcome⟩
      else if rows.length != r.splits.length then
        ⟨.oracle, tags, "compare edges printed " ++ toString rows.length ++ " rows for " ++ toString r.splits.length ++ " branches"⟩
      else
        let all := r.tipNames
        let sc := S true c
        let expect (s : SplitE) : Bool × Nat × Bool :=
          (s.tip, lightSize all (canonSide all s.below), sc.contains (canonSide all s.below))
        let bad := (List.zip (List.range rows.length) (List.zip r.splits rows)).filterMap fun (i, s, row) =>
          match row with
          | [tid, brid, term, td, found, tr] =>
            let (et, ed, ef) := expect s
            if tid != "0" || brid.toNat? != some i then some ("row " ++ toString i ++ ": ids")
            else if parseBool term != some et then some ("row " ++ toString i ++ ": terminal " ++ term)
            else if td.toNat? != some ed then some ("row " ++ toString i ++ ": topodepth " ++ td ++ " expected " ++ toString ed)
            else if parseBool found != some ef then some ("row " ++ toString i ++ ": found=" ++ found ++ " but the split is " ++ (if ef then "" else "not ") ++ "in the compared tree")
            else if (tr == "0") != ef then some ("row " ++ toString i ++ ": transfer distance " ++ tr ++ " with found=" ++ found)
            else none
          | _ => some ("row " ++ toString i ++ ": shape")
        match bad with
        | m :: _ => ⟨.oracle, tags, "compare edges " ++ m⟩
        | [] =>
          let mrows := edgeRows r c
          let same := (List.zip mrows rows).all fun ((mt, md, mf), row) =>
            match row with
            | [_, _, term, td, found, _] => parseBool term == some mt && td.toNat? == some md && parseBool found == some mf
            | _ => false
          if same then ⟨.pass, tags, ""⟩ else ⟨.tie, tags, "model prints other compare-edges rows"⟩
    | _, _ => bad "C08.cliedges fields"
  | "clitips", [mode, dR, dCs, outcome, rowsS] =>
    match T.undump dR, (splitTerm "|" dCs).mapM T.undump with
    | some r, some cs =>
      let rows := (splitTerm "|" rowsS).map (·.splitOn ";")
      let cs := if mode == "f" then cs.take 1 else cs
      let tags := ["cli", "cli-tips", "cli-tips-" ++ mode] ++
        tagIf (cs.any fun c => !sameTaxa r c) "difftaxa" ++
        -- non-trivial: some tree shares taxa with the reference and has taxa of its own / lacks some
        tagIf (cs.any fun c => !sameTaxa r c && r.tipNames.any (fun x => c.tipNames.contains x)) "nontrivial"
      if !(r.uniqueTips && cs.all (·.uniqueTips)) then ⟨.pass, "skip-dupnames" :: tags, ""⟩
      else if outcome != "ok" then ⟨.oracle, tags, "compare tips failed: " ++ outcome⟩
      else
        let names (id : Nat) (k : String) : List String :=
          sortStrings (rows.filterMap fun row => match row with
            | [i, kk, n] => if i.toNat? == some id && kk == k then unescape n else none
            | _ => none)
        let check (id : Nat) (c : T) (f : List String → List String → List String × List String × Nat) : Option String :=
          let (lt, gt, eq) := f r.tipNames c.tipNames
          if names id "lt" != sortStrings lt then some ("tree " ++ toString id ++ ": '<' names " ++ showStrList (names id "lt"))
          else if names id "gt" != sortStrings gt then some ("tree " ++ toString id ++ ": '>' names " ++ showStrList (names id "gt"))
          else if names id "eq" != [toString eq] then some ("tree " ++ toString id ++ ": '=' " ++ showStrList (names id "eq") ++ " expected " ++ toString eq)
          else none
        let spec (a b : List String) : List String × List String × Nat :=
          (a.filter (fun x => !b.contains x), b.filter (fun x => !a.contains x), (a.filter (fun x => b.contains x)).length)
        let idx := List.range cs.length
        let nrows := rows.length
        let expectRows := (cs.map fun c => let (lt, gt, _) := spec r.tipNames c.tipNames; lt.length + gt.length + 1).sum
        if nrows != expectRows then ⟨.oracle, tags, "compare tips printed " ++ toString nrows ++ " lines, expected " ++ toString expectRows⟩
        else match (List.zip idx cs).filterMap fun (i, c) => check i c spec with
        | m :: _ => ⟨.oracle, tags, "compare tips " ++ m⟩
        | [] =>
          match (List.zip idx cs).filterMap fun (i, c) => check i c tipsDiff with
          | m :: _ => ⟨.tie, tags, "model: " ++ m⟩
          | [] => ⟨.pass, tags, ""⟩
    | _, _ => bad "C08.clitips fields"
  | _, _ => bad ("C08: unknown op " ++ op)

/-- the flags a mode of the harness stands for -/
def flagsOf (mode : String) (tips : Bool) : Option Flags :=
  match mode with
  | "plain" => some ⟨tips, false, false, false⟩
  | "rf" => some ⟨tips, false, true, false⟩
  | "binary" => some ⟨tips, true, false, false⟩
  | "weighted" => some ⟨tips, false, false, true⟩
  | "wbinary" => some ⟨tips, true, false, true⟩
  | "rf+binary" => some ⟨tips, true, true, false⟩
  | "rf+weighted" => some ⟨tips, false, true, true⟩
  | "rf+wbinary" => some ⟨tips, true, true, true⟩
  | _ => none

/-- `gotree compare trees` with the text of its standard output: the rows are judged in the mode the
    DOCUMENTATION gives for the flags (`docMode`: oracle and tie of `handleCore`), then the whole text
    is tied to the model of the command — the interpreter `cliOutput` run on the table regenerated
    from the working tree (`Gen.C08Glue.glue`), so that a change of the glue that the table
    follows is judged by the oracle alone, and one it does not follow breaks the tie. -/
def handleCli (mode tipsS dR dCs outcome rowsS stdoutE threads : String) : Verdict :=
  match parseBool tipsS with
  | none => bad "C08.cli tips"
  | some tips =>
  match flagsOf mode tips with
  | none => bad ("C08.cli mode " ++ mode)
  | some fl =>
    let v := handleCore "cli" [docMode fl, tipsS, dR, dCs, outcome, rowsS]
    let v := { v with tags := v.tags ++ ["cli-flags-" ++ mode] ++ tagIf (fl.rf && (fl.binary || fl.weighted)) "cli-flag-combination" }
    if v.status != .pass then v else
    match T.undump dR, (splitTerm "|" dCs).mapM T.undump, unescape stdoutE with
    | some r, some cs, some text =>
      if !(r.uniqueTips && cs.all (·.uniqueTips)) then v else
      -- table and model agree on what is called and printed?  (fidelity of the table: reported as a tag)
      let v := { v with tags := v.tags ++ tagIf (glueOK Gotree.Gen.C08Glue.glue expectedGlue) "table-as-expected" }
      -- the text modes through `cliOutput`, the `%E` rows of `--weighted` through `cliOutputW`
      let run (g : Glue) : Option (String × Bool) :=
        match cliOutput g fl r cs with
        | some x => some x
        | none => cliOutputW g fl r cs
      let multi := threads != "1"
      let v := { v with tags := v.tags ++ tagIf multi "cli-threads" }
      -- with several worker goroutines the rows come in any order (except `--rf`, printed by id):
      -- the header first, then the same lines
      let sameText (a b : String) : Bool :=
        if !multi || fl.rf && !fl.binary && !fl.weighted then a == b
        else
          let hl := (headerOf expectedGlue fl).length
          let la := a.splitOn "\n"
          let lb := b.splitOn "\n"
          la.take hl == lb.take hl && sortStrings (la.drop hl) == sortStrings (lb.drop hl)
      match run Gotree.Gen.C08Glue.glue, run expectedGlue with
      | some (t, failed), some (t0, failed0) =>
        let v := { v with tags := v.tags ++ ["cli-text"] ++ tagIf ((cliOutput expectedGlue fl r cs).isNone) "cli-text-E" }
        if failed != (outcome != "ok") then
          { v with status := .tie, detail := "model of the command: " ++ (if failed then "fails" else "succeeds") ++ ", the command: " ++ outcome }
        else if (if failed then !multi && !text.startsWith t else !sameText text t) then
          { v with status := .tie, detail := "model of the command writes " ++ t.quote ++ ", the command wrote " ++ text.quote }
        else if t != t0 || failed != failed0 then
          { v with status := .tie, detail := "the regenerated table prints " ++ t.quote ++ ", the table of the model " ++ t0.quote }
        else v
      | none, none => { v with tags := v.tags ++ ["cli-text-none"] }
      | _, _ => { v with status := .tie, detail := "the regenerated table is not one the model of the command can interpret" }
    | _, _, _ => bad "C08.cli text"

/-- the comparison cases carry, as a last field, the number of worker goroutines asked for -/
def handle (op : String) (f : List String) : Verdict :=
  if (op == "cmp" || op == "wcmp") && f.length == 10 then
    let v := handleCore op (f.take 9)
    let thr := f.getLast?.getD ""
    { v with tags := v.tags ++ ["workers-" ++ thr] ++ tagIf (thr != "1") "multi-worker" ++
        tagIf (thr.startsWith "-" || thr == "0") "cpus-below-1" ++
        tagIf (workersOf (thr.toInt?.getD 1) != (thr.toInt?.getD 1).toNat) "model-cpus-clamped" }
  else match op, f with
    | "cli", "nocompared" :: _ :: dR :: _ :: outcome :: rowsS :: stdoutE :: _ =>
      -- no `-c`: the command must fail with an error and print no row (model `cliRun … none`)
      let tags := ["cli", "cli-nocompared"]
      (match T.undump dR with
       | none => bad "C08.cli fields"
       | some r =>
         if outcome != "error" then ⟨.oracle, tags, "compare trees without -c did not fail with an error: " ++ outcome⟩
         else if rowsS != "" then ⟨.oracle, tags, "compare trees without -c printed rows"⟩
         else match cliRun expectedGlue ⟨false, false, false, false⟩ r none, unescape stdoutE with
           | some (t, true), some text => if text.startsWith t then ⟨.pass, tags, ""⟩ else ⟨.tie, tags, "model writes nothing"⟩
           | _, _ => ⟨.tie, tags, "model of the command without -c"⟩)
    | "cli", [mode, tipsS, dR, dCs, outcome, rowsS, stdoutE] => handleCli mode tipsS dR dCs outcome rowsS stdoutE "1"
    | "cli", [mode, tipsS, dR, dCs, outcome, rowsS, stdoutE, threads] => handleCli mode tipsS dR dCs outcome rowsS stdoutE threads
    | "cli", [mode, tipsS, dR, dCs, outcome, rowsS] =>
      -- (a case reported by the parent of a dead executor: no text)
      (match parseBool tipsS with
       | some tips => (match flagsOf mode tips with
          | some fl => handleCore "cli" [docMode fl, tipsS, dR, dCs, outcome, rowsS]
          | none => bad ("C08.cli mode " ++ mode))
       | none => bad "C08.cli tips")
    | _, _ => handleCore op f

end Gotree.Driver.C08
