/-
  C09 — the float64 product `cutoff*float64(nbtrees)` of tree/algo.go:353, exactly.

  The threshold handed to `Consensus` is a float64, i.e. a rational `c`; the number of trees
  `n` is exact in float64; Go computes the correctly rounded (round-to-nearest-even) product
  and truncates it.  `roundF64` is that rounding on rationals (normal range, which is where
  `c·n` with `1/2 ≤ c ≤ 1` lives), `floatCut` the truncated rounded product.  It differs
  from the exact `floorCut c n = ⌊c·n⌋` exactly when the product rounds *up* to an integer
  (`c = 6004799503160661/2^53 = fl(2/3)`, `n = 3`: the exact product is `2 - 3·2^-53`, the
  float64 product `2`): then a bipartition present in exactly that many trees, whose frequency
  is above the threshold, is not selected by the code.  `consensusFloat` is `consensus` with
  that cut (the code before the repair a53968e of this defect); the theorems of Proofs/C09.lean are
  about `consensus` (exact cut).  Core Lean only.
-/
import Gotree.Model.C09

namespace Gotree.C09
open Gotree

def pow2 (e : Int) : Rat :=
  if e ≥ 0 then ((2 ^ e.toNat : Nat) : Rat) else 1 / ((2 ^ (-e).toNat : Nat) : Rat)

/-- the float64 nearest to a positive rational (ties to even; normal range, no overflow) -/
def roundF64 (q : Rat) : Rat :=
  if q ≤ 0 then 0 else
  let e0 : Int := (Nat.log2 q.num.toNat : Int) - (Nat.log2 q.den : Int) - 52
  let s0 := q / pow2 e0
  let e : Int := if s0 ≥ 9007199254740992 then e0 + 1 else if s0 < 4503599627370496 then e0 - 1 else e0
  let s := q / pow2 e
  let m := s.floor
  let r := s - (m : Rat)
  let m' := if r > 1/2 || (r == 1/2 && m % 2 == 1) then m + 1 else m
  (m' : Rat) * pow2 e

/-- `int(cutoff*float64(nbtrees))` for a rounding `rnd` of the product -/
def floatCutG (rnd : Rat → Rat) (c : Rat) (n : Nat) : Nat := (rnd (c * (n : Rat))).floor.toNat

/-- `int(cutoff*float64(nbtrees))` as Go computes it -/
def floatCut (c : Rat) (n : Nat) : Nat := floatCutG roundF64 c n

/-- the cut after the repair: `m := int(c*n); if FMA(c, n, -m) < 0 { m-- }` (FMA gives the sign of
    the exact `c·n - m`), for a rounding `rnd` of the product -/
def fmaCutG (rnd : Rat → Rat) (c : Rat) (n : Nat) : Nat :=
  let m := floatCutG rnd c n
  if c * (n : Rat) - (m : Rat) < 0 then m - 1 else m

def fmaCut (c : Rat) (n : Nat) : Nat := fmaCutG roundF64 c n

/-- the body of `Consensus` with the cut as a parameter (`consensusCore` is the instance `floorCut`) -/
def consensusCoreCut (cut : Rat → Nat → Nat) (unr rs : Bool) (ord : List Entry → List Entry)
    (ts : List T) (c : Rat) : Out :=
  if ts.any (fun t => t.kids.length < 2) then .unsupported
  else match countAll unr rs ts with
    | .error w => .err w
    | .ok none => .err "empty"
    | .ok (some cn) =>
      let sel := selectEntries (cut c cn.n) cn.n (ord cn.idx)
      match applyAll cn.alltips cn.n (starOf cn.first) sel with
      | .ok r => .ok r
      | .error w => .err w

def consensusCut (cut : Rat → Nat → Nat) (ord : List Entry → List Entry) (ts : List T) (c : Rat) : Out :=
  if c < 1/2 || c > 1 then .err "range"
  else consensusCoreCut cut true true ord (ts.map rerootTip) c

/-- `Consensus` with the float64 product (the code as long as tree/algo.go:353 truncates the
    rounded product) -/
def consensusFloat (ord : List Entry → List Entry) (ts : List T) (c : Rat) : Out :=
  consensusCut floatCut ord ts c

/-- THE SWITCH: the cut of the code as it is now: `fmaCut` since the repair a53968e
    (`minCount--` when `math.FMA(cutoff, n, -minCount) < 0`), which is the exact floor
    (`fma_cut_exact`); it was `floatCut` before.  Used by the driver's tie model and by the
    literal model. -/
def cutNow : Rat → Nat → Nat := fmaCut

def consensusNow (ord : List Entry → List Entry) (ts : List T) (c : Rat) : Out :=
  consensusCut cutNow ord ts c

end Gotree.C09
