/-
  C16 — what the remaining constructors of treegen.go must return (Bool predicates for the driver
  and the theorems).  Core Lean only.
-/
import Gotree.Model.C16Extra
import Gotree.Spec.C16

namespace Gotree.C16
open Gotree

/-- (name, length) of the children of the root, in order -/
def rootTips (t : T) : List (String × Rat) := t.kids.map fun et => (et.2.name, et.1.len)

/-- star carrying exactly these (name, length) pairs in this order -/
def starIs (want : List (String × Rat)) (t : T) : Bool :=
  starShape want.length t && rootTips t == want

/-- StarTreeFromName: a star on the names, in the order given, all lengths 1 -/
def starFromNamesOK (names : List String) (t : T) : Bool := starIs (names.map fun x => (x, 1)) t

/-- the terminal branches of a tree: (tip name, length), in `TipEdges()` order -/
def tipEdgesOf (t : T) : List (String × Rat) := (t.splits.filter (·.tip)).map fun s => (s.below.headD "", s.e.len)

/-- StarTreeFromTree: a star with the tips of the terminal branches of the input and their lengths -/
def starFromTreeOK (tin t : T) : Bool := starIs (tipEdgesOf tin) t

/-- a tree whose only inner branch separates `right` from `left`: the tips are those, every branch
    has length 1, the root has the inner node and the left tips, the inner node the right tips -/
def twoStarOK (left right : List String) (t : T) : Bool :=
  sameNames t.tipNames (left ++ right) && t.edges.all (fun e => e.len == 1) &&
  (match t.kids with
   | (_, n) :: ls => sameNames (leavesL n.kids) right && n.kids.all (fun et => et.2.isLeaf) && !n.isLeaf &&
                     sameNames (leavesL ls) left && ls.all (fun et => et.2.isLeaf)
   | [] => false)

/-- `AllTipNames()` (since 9642e30: a root that is a tip is listed and the walk goes on below it):
    the names in `Tips()` order -/
def allTipNames (t : T) : List String := t.tipNames

end Gotree.C16
