/-
  C04 — what the property means.

  * the split of a branch is the set of leaf names below it (entry of `T.splits`)
    against the other tips; the recorded index must be `specIdx`;
  * two branches define the same split when the sides are equal or complementary
    as sets of tips (`sameSplit`);
  * a split-keyed index must behave like a plain association list (`Assoc`);
  * two quartets are "the same key" exactly when they are on the same four taxa.
  Core Lean only.
-/
import Gotree.Model.C04
import Gotree.Model.C04HM
import Gotree.Model.C04Q
import Gotree.Model.C04Quartets
import Gotree.Model.C04Depth

namespace Gotree.C04
open Gotree

/-- additive name hash of a list of tips -/
def sumH (H : String → UInt64) : List String → UInt64
  | [] => 0
  | a :: r => H a + sumH H r

/-- the tips that are not in `side`, in the order of `all` -/
def compl (all side : List String) : List String := all.filter fun x => !side.contains x

/-- The index a branch must carry, from the tips of the tree and the leaves below the branch. -/
def specIdx (H : String → UInt64) (tips below : List String) : EdgeIdx :=
  { bits := (sortNames tips).map fun x => below.contains x
    nleft := (compl tips below).length
    nright := below.length
    hleft := sumH H (compl tips below)
    hright := sumH H below }

/-- size of the light side -/
def specTopoDepth (tips below : List String) : Nat := min below.length (compl tips below).length

/-- same side: the same tips of `all` are in `a` and in `b` -/
def sameSide (all a b : List String) : Bool := all.all fun x => a.contains x == b.contains x

/-- complementary sides -/
def complSide (all a b : List String) : Bool := all.all fun x => a.contains x != b.contains x

/-- The two tip sets define the same bipartition of `all`. -/
def sameSplit (all a b : List String) : Bool := sameSide all a b || complSide all a b

/-- membership vector of a side over the taxa -/
def memVec (all side : List String) : List Bool := all.map fun x => side.contains x

/-- `sameSplit` on membership vectors (what the driver evaluates on large trees; equal to
    `sameSplit` by theorem `sameSplit_vec`) -/
def sameSplitV (u v : List Bool) : Bool := u == v || u.map (!·) == v

/-- what `FindEdge` must answer: is there a branch in the other tree with the same split and the
    same kind of lower node (tip / inner node)? -/
def specFindEdge (all below : List String) (tip : Bool) (others : List SplitE) : Bool :=
  others.any fun s => tip == s.tip && sameSplit all below s.below

/-- what `CommonEdges` must return: (branches of the first tree — inner ones only unless `tipEdges` —
    whose split is on no branch of the same kind of the second tree, those that are) -/
def specCommon (all : List String) (tipEdges : Bool) (s1 s2 : List SplitE) : Int × Int :=
  let considered := s1.filter fun s => tipEdges || !s.tip
  let common := considered.filter fun s => specFindEdge all s.below s.tip s2
  (((considered.length - common.length : Nat) : Int), (common.length : Int))

/-- per-branch oracle: what the implementation reported for one branch
    (bitset, NumTipsLeft, NumTipsRight, TopoDepth) against the split of that branch -/
def branchOK (tips below : List String) (bits : List Bool) (nl nr : Int) (td : Option Int) : Bool :=
  bits == (sortNames tips).map (fun x => below.contains x) &&
  nr == below.length && nl == (compl tips below).length &&
  td == some ((specTopoDepth tips below : Nat) : Int)

/- ## association list = "plain map" -/

section
variable {κ ν : Type} (eqv : κ → κ → Bool)

def Assoc.get (k : κ) : List (κ × ν) → Option ν
  | [] => none
  | (k', v) :: r => if eqv k k' then some v else Assoc.get k r

/-- overwrite the value of the (first) equal key, keeping the key; else append -/
def Assoc.put (k : κ) (v : ν) : List (κ × ν) → List (κ × ν)
  | [] => [(k, v)]
  | (k', v') :: r => if eqv k k' then (k', v) :: r else (k', v') :: Assoc.put k v r

def Assoc.run : List (HMOp κ ν) → List (κ × ν) → List (HMOut κ ν)
  | [], _ => []
  | .put k v :: r, a => .unit :: Assoc.run r (Assoc.put eqv k v a)
  | .get k :: r, a => .val (Assoc.get eqv k a) :: Assoc.run r a
  | .kvs :: r, a => .kvs a :: Assoc.run r a
  | .keys :: r, a => .keys (a.map (·.1)) :: Assoc.run r a

/-- the plain-map meaning of the `EdgeIndex` operations -/
def Assoc.runEI : List (EIOp κ) → List (κ × EIInfo) → List EIOut
  | [], _ => []
  | .add k len :: r, a =>
    .unit :: Assoc.runEI r (match Assoc.get eqv k a with
      | none => Assoc.put eqv k ⟨1, len⟩ a
      | some v => Assoc.put eqv k ⟨v.count + 1, v.len + len⟩ a)
  | .putv k c l :: r, a => .unit :: Assoc.runEI r (Assoc.put eqv k ⟨c, l⟩ a)
  | .value k :: r, a => .val (Assoc.get eqv k a) :: Assoc.runEI r a
  | .edges mn mx :: r, a => .nedges (a.filter fun kv => eiKeep mn mx kv.2).length :: Assoc.runEI r a
  | .unindexed :: r, a => .err :: Assoc.runEI r a

end

/-- number of occurrences of the key (up to `eqv`) in a list of `AddEdgeCount` calls -/
def countOf {κ : Type} (eqv : κ → κ → Bool) (k : κ) (es : List (κ × Rat)) : Nat :=
  (es.filter fun e => eqv k e.1).length

/-- sum of the lengths recorded with those occurrences -/
def lenOf {κ : Type} (eqv : κ → κ → Bool) (k : κ) (es : List (κ × Rat)) : Rat :=
  ((es.filter fun e => eqv k e.1).map (·.2)).sum

/-- outputs agree: `KeyValues` up to order (a Go map has none either) -/
def HMOut.sim {κ ν : Type} : HMOut κ ν → HMOut κ ν → Prop
  | .unit, .unit => True
  | .val a, .val b => a = b
  | .kvs a, .kvs b => a.Perm b
  | .keys a, .keys b => a.Perm b
  | _, _ => False

/-- two output lists agree entry by entry -/
def HMOut.simL {κ ν : Type} : List (HMOut κ ν) → List (HMOut κ ν) → Prop
  | [], [] => True
  | a :: r, b :: s => HMOut.sim a b ∧ HMOut.simL r s
  | _, _ => False

/-- executable version for the driver -/
def HMOut.simB {κ ν : Type} [DecidableEq κ] [DecidableEq ν] : HMOut κ ν → HMOut κ ν → Bool
  | .unit, .unit => true
  | .val a, .val b => a == b
  | .kvs a, .kvs b => a.isPerm b
  | .keys a, .keys b => a.isPerm b
  | _, _ => false

/- ## quartets -/

/-- same four taxa (as multisets) -/
def Quartet.sameTaxa (q q2 : Quartet) : Bool := q.taxa.isPerm q2.taxa

/-- same unordered pair -/
def pairEq (a b c d : Nat) : Bool := (a == c && b == d) || (a == d && b == c)

/-- same topology: the same two unordered pairs -/
def Quartet.sameTopo (q q2 : Quartet) : Bool :=
  (pairEq q.t1 q.t2 q2.t1 q2.t2 && pairEq q.t3 q.t4 q2.t3 q2.t4) ||
  (pairEq q.t1 q.t2 q2.t3 q2.t4 && pairEq q.t3 q.t4 q2.t1 q2.t2)

/-- what `Compare` must answer for quartets of distinct taxa -/
def Quartet.specCompare (q q2 : Quartet) : QCmp :=
  if q.sameTopo q2 then .equals else if q.sameTaxa q2 then .conflict else .diff

/- ## the quartets of a tree -/

/-- a quartet up to the order inside its two pairs (left pair = away from the branch, right pair = below it) -/
def Quartet.canon (q : Quartet) : List Nat := [min q.t1 q.t2, max q.t1 q.t2, min q.t3 q.t4, max q.t3 q.t4]

/-- a list of quartets as a sorted list of canonical forms (= as a multiset) -/
def sortQs (l : List Quartet) : List (List Nat) := (l.map Quartet.canon).mergeSort fun a b => decide (a ≤ b)

/-- a quartet as such: the two unordered pairs, whichever is called "left" -/
def Quartet.canonU (q : Quartet) : List Nat :=
  let a := [min q.t1 q.t2, max q.t1 q.t2]
  let b := [min q.t3 q.t4, max q.t3 q.t4]
  if a ≤ b then a ++ b else b ++ a

/-- a list of quartets as a multiset of quartets (orientation-free) -/
def sortQsU (l : List Quartet) : List (List Nat) := (l.map Quartet.canonU).mergeSort fun a b => decide (a ≤ b)

/- What `Quartets` must deliver, read off the tree without any bookkeeping of "left" lists or
   neighbour order: for every branch x—y whose two ends have at least three neighbours,
   * non specific: two tips not below the branch, two tips below it;
   * specific: one tip behind each of two other branches of x, one tip below each of two child branches of y. -/
mutual
def specQT (tips : List String) (rank : String → Nat) (specific isRoot : Bool) : T → List Quartet
  | .node _ _ kids => specQL tips rank specific isRoot kids 0 kids
def specQL (tips : List String) (rank : String → Nat) (specific isRoot : Bool) (all : Kids) (i : Nat) :
    Kids → List Quartet
  | [] => []
  | (_, y) :: r =>
    (if all.length + (if isRoot then 0 else 1) < 3 || y.kids.length + 1 < 3 then []
     else if specific then
       iterSpecific
         (((all.zipIdx.filter fun x => x.2 != i).map fun x => x.1.2.leaves.map rank) ++
           (if isRoot then [] else [(compl tips (leavesL all)).map rank]))
         (y.kids.map fun ec => ec.2.leaves.map rank)
     else iterPlain ((compl tips y.leaves).map rank) (y.leaves.map rank)) ++
    specQT tips rank specific false y ++
    specQL tips rank specific isRoot all (i + 1) r
end

def specQuartets (rank : String → Nat) (specific : Bool) (t : T) : List Quartet :=
  specQT t.tipNames rank specific true t

/-- `IndexQuartets` over a list of quartets = a plain map keyed by the four taxa:
    the first quartet of each class stays the key, the last one is the value -/
def specIndexQuartets (qs : List Quartet) : List (Quartet × Quartet) :=
  qs.foldl (fun a q => Assoc.put Quartet.hashEquals q q a) []

/-! ### `gotree stats splits` / `Edge.DumpBitSet` -/

/-- the first line of `gotree stats splits`: the tips by DEcreasing rank (the last sorted name first) -/
def specSplitsHeader (tips : List String) : String := "Tree\t" ++ "|".intercalate (sortNames tips).reverse

/-- what the dump of a branch must show: one digit per tip under the names of the header ('1' = the tip is below the
    branch), then a dot -/
def specDumpLine (tips below : List String) : String :=
  String.ofList (((sortNames tips).reverse.map fun x => if below.contains x then '1' else '0') ++ ['.'])

/-! ### node depths (`ComputeDepths`, last step of `ReinitIndexes`) -/

/- distance from a node to the closest tip BELOW it (a node without children is a tip) -/
mutual
def downT : T → Int
  | .node _ _ [] => 0
  | .node _ _ (k :: ks) => 1 + downL (k :: ks)
def downL : Kids → Int                      -- least `downT` of the children (-1 without children)
  | [] => -1
  | (_, t) :: r => let a := downT t; let b := downL r; if b == -1 || a < b then a else b
end

mutual
def downPreT : T → List Int
  | .node d p k => downT (.node d p k) :: downPreL k
def downPreL : Kids → List Int
  | [] => []
  | (_, t) :: r => downPreT t ++ downPreL r
end

def minList (l : List Int) : Int := match l with | [] => 0 | x :: r => r.foldl min x

/- "the length of the path from n to the closest tip" in an unrooted tree, by two passes, pre-order:
   `up` = distance from the node to the closest tip that is not below it (none: the root of a tree whose root
   is not a tip) -/
mutual
def sdT (up : Option Int) : T → List Int
  | .node _ _ k =>
    minList ((match up with | some u => [u] | none => []) ++ (if k.isEmpty then [0] else [1 + downL k])) :: sdL up k 0 k
def sdL (up : Option Int) (all : Kids) (i : Nat) : Kids → List Int
  | [] => []
  | (_, t) :: r =>
    let away := minList ((match up with | some u => [u] | none => []) ++ (all.eraseIdx i).map fun s => 1 + downT s.2)
    sdT (some (1 + away)) t ++ sdL up all (i + 1) r
end

/-- the depth `Node.Depth()` must give after `ComputeDepths`, pre-order: in a rooted tree (root with two neighbours)
    the distance to the closest tip below the node, else the distance to the closest tip in any direction (a root
    with a single neighbour is itself a tip) -/
def specDepths (t : T) : List Int :=
  if t.kids.length == 2 then downPreT t
  else sdT (if t.kids.length == 1 then some 0 else none) t

end Gotree.C04
