/-
  C12 — the text the two reconstructions leave on the tree.

  * `assignStatesToTree` (acr/parsimony.go): `n.ClearComments()`, then ONE comment: the names of the states with a
    positive count, in alphabet order, joined by `|`; `*` when there is none.
  * `assignSequencesToTree` (asr/parsimony.go): `n.AddComment(...)` WITHOUT clearing — the comments already on the node
    stay, the new one comes last: per site the characters with a positive count, in alphabet order, written as they
    are when there is one, between `{` `}` when there are several, `*` when there is none.

  The readers (`readAcrComment`, `readSeqSets`) are the ones the driver applies to the implementation's output.
-/
import Gotree.Model.C12

namespace Gotree.C12
open Gotree

/-- `strings.Join(names, sep)` on characters -/
def joinChars (sep : Char) : List (List Char) → List Char
  | [] => []
  | [a] => a
  | a :: b :: r => a ++ sep :: joinChars sep (b :: r)

/-- `strings.Split(s, sep)` on characters (never empty) -/
def splitChars (sep : Char) : List Char → List (List Char)
  | [] => [[]]
  | c :: r =>
    if c == sep then [] :: splitChars sep r
    else match splitChars sep r with
      | [] => [[c]]
      | x :: xs => (c :: x) :: xs

/-- the comment `assignStatesToTree` writes for the state names `names` (`stateNames alpha v`) -/
def acrCommentChars (names : List String) : List Char := joinChars '|' (names.map String.toList)

def acrComment (names : List String) : String := String.ofList (acrCommentChars names)

/-- what the driver reads back from a node comment of ACR -/
def readAcrComment (c : String) : List String := (splitChars '|' c.toList).map String.ofList

/-- node comments after ACR: the old ones are dropped -/
def acrCommentsAfter (_old : List String) (names : List String) : List String := [acrComment names]

/-- one site of `assignSequencesToTree`; `cs` = the characters with a positive count, or `['*']` when none -/
def asrSiteChars (cs : List Char) : List Char :=
  if cs.length > 1 then '{' :: cs ++ ['}'] else cs

def asrCommentChars (sites : List (List Char)) : List Char := sites.flatMap asrSiteChars

/-- the comment for a node whose sites hold the names `sites` (`stateNames asrAlphabet v` per site: one-character names) -/
def asrComment (sites : List (List String)) : String :=
  String.ofList (asrCommentChars (sites.map fun names => names.flatMap String.toList))

/-- node comments after ASR: the old ones are kept, the sequence comes last -/
def asrCommentsAfter (old : List String) (sites : List (List String)) : List String := old ++ [asrComment sites]

/-- read an ASR comment: per site one character or `{…}` (`cur` = inside braces) -/
def readSeqChars : List Char → Option (List Char) → List (List Char) → Option (List (List Char))
  | [], none, acc => some acc.reverse
  | [], some _, _ => none
  | c :: r, none, acc =>
    if c == '{' then readSeqChars r (some []) acc
    else readSeqChars r none ([c] :: acc)
  | c :: r, some cur, acc =>
    if c == '}' then readSeqChars r none (cur.reverse :: acc)
    else readSeqChars r (some (c :: cur)) acc

def readSeqSets (c : String) : Option (List (List String)) :=
  (readSeqChars c.toList none []).map fun l => l.map fun s => s.map String.singleton

end Gotree.C12
