/-
  C04 — the statement-by-statement `updateBitSet` (stack of bitsets) computes the bitsets of the
  summarised model: `reinitLit = reinit`.  Core Lean only.
-/
import Gotree.Spec.C04

namespace Gotree.C04
open Gotree

/-- `Set` of several ids in turn -/
def setBits (b : List Bool) (ids : List Nat) : List Bool := ids.foldl (fun b i => b.set i true) b

theorem setBits_nil (b : List Bool) : setBits b [] = b := rfl
theorem setBits_cons (b : List Bool) (i : Nat) (r : List Nat) : setBits b (i :: r) = setBits (b.set i true) r := rfl

theorem setBits_append (b : List Bool) (a c : List Nat) : setBits b (a ++ c) = setBits (setBits b a) c := by
  unfold setBits; rw [List.foldl_append]

theorem setBits_length (b : List Bool) (ids : List Nat) : (setBits b ids).length = b.length := by
  induction ids generalizing b with
  | nil => rfl
  | cons i r ih => rw [setBits_cons, ih, List.length_set]

theorem setBits_getElem (b : List Bool) (ids : List Nat) (i : Nat) (h : i < (setBits b ids).length) :
    (setBits b ids)[i] = (b[i]'(by rw [setBits_length] at h; exact h) || ids.contains i) := by
  induction ids generalizing b with
  | nil => simp [setBits_nil]
  | cons j r ih =>
    have h' : i < (setBits (b.set j true) r).length := by rw [setBits_cons] at h; exact h
    have := ih (b.set j true) h'
    simp only [setBits_cons, this, List.getElem_set, List.contains_cons]
    by_cases hji : j = i
    · subst hji; simp
    · have : (i == j) = false := by simp; exact fun e => hji e.symm
      simp [hji, this]

theorem setBits_zero (n : Nat) (ids : List Nat) : setBits (zeroBits n) ids = mkBits n ids := by
  apply List.ext_getElem
  · simp [setBits_length, zeroBits, mkBits]
  · intro i h1 h2
    rw [setBits_getElem]
    simp [zeroBits, mkBits]

theorem clearAll_zero (n : Nat) : clearAll (zeroBits n) = zeroBits n := by
  simp [clearAll, zeroBits]

theorem map_setBits_append (st : List (List Bool)) (a c : List Nat) :
    (st.map fun b => setBits b a).map (fun b => setBits b c) = st.map fun b => setBits b (a ++ c) := by
  simp only [List.map_map]
  apply List.map_congr_left
  intro b _; simp [Function.comp, setBits_append]

/-- the per-branch bitsets of the summarised model, from the split list -/
def bitsOf (rank : String → Nat) (n : Nat) (l : List SplitE) : List (List Bool) :=
  l.map fun s => mkBits n (s.below.map rank)

mutual
theorem fillT_eq (rank : String → Nat) (n : Nat) : ∀ (t : T) (cb : List Bool) (rest : List (List Bool)),
    fillT rank n t (cb :: rest) =
      ((clearAll cb :: rest).map (fun b => setBits b (t.leaves.map rank)), bitsOf rank n t.splitsBelow)
  | .node d _ [], cb, rest => by
    simp [fillT, T.leaves, T.splitsBelow, splitsL, bitsOf, setBits]
  | .node _ _ (k :: ks), cb, rest => by
    rw [fillT, T.leaves, T.splitsBelow]
    exact fillL_eq rank n (k :: ks) (clearAll cb :: rest)
theorem fillL_eq (rank : String → Nat) (n : Nat) : ∀ (k : Kids) (st : List (List Bool)),
    fillL rank n k st = (st.map (fun b => setBits b ((leavesL k).map rank)), bitsOf rank n (splitsL k))
  | [], st => by simp [fillL, leavesL, splitsL, bitsOf, setBits_nil]
  | (e, t) :: r, st => by
    rw [fillL, fillT_eq rank n t (zeroBits n) st]
    simp only [List.map_cons, clearAll_zero]
    rw [fillL_eq rank n r]
    simp only [leavesL, splitsL, bitsOf, List.map_cons, List.map_append, map_setBits_append, setBits_zero]
end

theorem updateBitSet_eq (rank : String → Nat) (n : Nat) (k : Kids) :
    updateBitSet rank n k = bitsOf rank n (splitsL k) := by
  induction k with
  | nil => rfl
  | cons x r ih =>
    obtain ⟨e, t⟩ := x
    rw [updateBitSet, fillT_eq rank n t (zeroBits n) []]
    simp only [List.map_cons, List.map_nil, clearAll_zero, ih, splitsL, bitsOf, List.map_append, setBits_zero]

/- the bitsets inside the summarised `idxT`/`idxL` -/
mutual
theorem idxT_bits (H : String → UInt64) (rank : String → Nat) (n : Nat) : ∀ (t : T) (up : UInt64 × Nat),
    (idxT H rank n up t).map (·.bits) = bitsOf rank n t.splitsBelow
  | .node _ _ k, up => by rw [idxT, T.splitsBelow]; exact idxL_bits H rank n k up (0, 0)
theorem idxL_bits (H : String → UInt64) (rank : String → Nat) (n : Nat) : ∀ (k : Kids) (up acc : UInt64 × Nat),
    (idxL H rank n up acc k).map (·.bits) = bitsOf rank n (splitsL k)
  | [], _, _ => by simp [idxL, splitsL, bitsOf]
  | (e, t) :: r, up, acc => by
    rw [idxL, splitsL]
    simp only [List.map_cons, List.map_append, bitsOf]
    rw [idxT_bits H rank n t, idxL_bits H rank n r]
    simp [bitsOf]
end

theorem zipWith_bits_self (l : List EdgeIdx) :
    List.zipWith (fun (e : EdgeIdx) (b : List Bool) => { e with bits := b }) l (l.map (·.bits)) = l := by
  induction l with
  | nil => rfl
  | cons x r ih => simp only [List.map_cons, List.zipWith_cons_cons, ih]

/-- the statement-by-statement bitset computation gives the very index of `reinit` — for every tree -/
theorem reinitLit_eq_reinit (H : String → UInt64) (t : T) : reinitLit H t = reinit H t := by
  unfold reinitLit
  cases h : reinit H t with
  | err m => rfl
  | ok r =>
    obtain ⟨sorted, idx⟩ := r
    simp only
    congr 2
    rw [updateBitSet_eq]
    -- `idx` is the `idxL` list of `reinit`
    unfold reinit at h
    simp only at h
    split at h
    · cases h
    · split at h
      · cases h
      · cases h
        rw [← idxL_bits H _ _ t.kids (rootUp H t) (0, 0)]
        exact zipWith_bits_self _

end Gotree.C04
