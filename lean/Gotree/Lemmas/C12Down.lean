/-
  C12 — the model's DOWNPASS computes the argmin of the second Sankoff pass.
  `Dual C a b`: the Sankoff cost vector `a` and the count vector `b` of the Go code
  add up to a constant, so "largest count" = "least cost".
-/
import Gotree.Lemmas.C12Tot

namespace Gotree.C12
open Gotree

def Dual (k C : Nat) (a b : Vec) : Prop := ∀ t, t < k → a.at t + b.at t = C

theorem maxTo_iff (k : Nat) (hk : 0 < k) (b : Vec) (s : Nat) (hs : s < k) :
    b.at s = maxTo b.at k ↔ ∀ t, t < k → b.at t ≤ b.at s := by
  constructor
  · intro h t ht; rw [h]; exact le_maxTo _ k t ht
  · intro h
    obtain ⟨hi, he⟩ := argTo_fst b.at k hk
    have h1 := h _ hi
    have h2 := le_maxTo b.at k s hs
    omega

theorem minOver_iff (k : Nat) (hk : 0 < k) (a : Vec) (s : Nat) (hs : s < k) :
    a.at s = minOver k a.at ↔ ∀ t, t < k → a.at s ≤ a.at t := by
  constructor
  · intro h t ht; rw [h]; exact minOver_le k a.at t ht
  · intro h
    obtain ⟨i, hi, he⟩ := minOver_attained k hk a.at
    have h1 := h _ hi
    have h2 := minOver_le k a.at s hs
    omega

theorem dual_max_min (k C : Nat) (hk : 0 < k) (a b : Vec) (hd : Dual k C a b) (s : Nat) (hs : s < k) :
    b.at s = maxTo b.at k ↔ a.at s = minOver k a.at := by
  rw [maxTo_iff k hk b s hs, minOver_iff k hk a s hs]
  constructor
  · intro h t ht
    have := h t ht; have := hd t ht; have := hd s hs; omega
  · intro h t ht
    have := h t ht; have := hd t ht; have := hd s hs; omega

theorem dual_cp (k C : Nat) (hk : 0 < k) (a b : Vec) (hd : Dual k C a b) (s : Nat) (hs : s < k) :
    (cp k b).at s ≠ 0 ↔ ∀ t, t < k → a.at s ≤ a.at t := by
  rw [← minOver_iff k hk a s hs, ← dual_max_min k C hk a b hd s hs]
  simp only [cp, at_tab, hs, if_true]
  split <;> simp_all

theorem dual_through (k C : Nat) (hk : 0 < k) (a b : Vec) (hd : Dual k C a b) :
    Dual k (minOver k a.at + 1) (through k a) (cp k b) := by
  intro s hs
  have h1 := minOver_through k hk a.at s hs
  have h2 := dual_max_min k C hk a b hd s hs
  simp only [through, cp, at_tab, hs, if_true]
  rw [h1]
  by_cases hb : b.at s = maxTo b.at k
  · have := h2.mp hb; simp [hb, this]
  · have : ¬ a.at s = minOver k a.at := fun h => hb (h2.mpr h)
    simp [hb, this]

section down
variable (k : Nat) (tv : String → Vec)

theorem dual_child (hk : 0 < k) (c : T) (hl : ∀ n ∈ c.leaves, leaf01 k tv n) :
    Dual k (upN k tv c + 1) (gv k tv c) (upS k tv c) := by
  intro t ht
  have h1 := key k tv hk c hl t ht
  have h2 := upS_le_one k tv c hl t ht
  rw [h1]; split <;> omega

theorem dual_fL (hk : 0 < k) : ∀ (ks : Kids), (∀ n ∈ leavesL ks, leaf01 k tv n) →
    Dual k (upNL k tv ks + ks.length) (fL k tv ks) (sumL k tv ks)
  | [], _ => by intro t _; simp [fL, sumL, at_vzero, upNL]
  | (e, c) :: r, hl => by
    intro t ht
    have h1 := dual_fL hk r (fun n hn => hl n (by simp only [leavesL, List.mem_append]; exact Or.inr hn)) t ht
    have h2 := dual_child k tv hk c (fun n hn => hl n (by simp only [leavesL, List.mem_append]; exact Or.inl hn)) t ht
    simp only [fL, sumL, upNL, at_vadd, ht, if_true, List.length_cons]
    omega

/-- what the model knows about the part of the tree above a node: nothing at the root,
    otherwise a count vector dual to the Sankoff outside cost -/
def UpInv (U : Vec) : Option Vec → Prop
  | none => ∀ t, t < k → U.at t = 0
  | some u => ∃ C, Dual k C U u

def PD (c : T) : Prop :=
  ∀ (U : Vec) (us : Option Vec), UpInv k U us → (∀ n ∈ c.leaves, leaf01 k tv n) →
    ∀ (p : List Nat) (vec tot : Vec), (down k tv us c).get p = some vec → (totA k tv U c).get p = some tot →
    innerAt c p = true → ∀ s, s < k → (vec.at s ≠ 0 ↔ ∀ t, t < k → tot.at s ≤ tot.at t)

theorem down_tot_list (hk : 0 < k) : ∀ (ks : Kids), (∀ et ∈ ks, PD k tv et.2) →
    (∀ n ∈ leavesL ks, leaf01 k tv n) →
    ∀ (U : Vec) (us : Option Vec), UpInv k U us → ∀ (pre' pre : Vec) (Cp : Nat), Dual k Cp pre' pre →
    ∀ (i : Nat) (p : List Nat) (vec tot : Vec), A.getL (downL k tv us pre ks) i p = some vec →
    A.getL (totL k tv U pre' ks) i p = some tot → innerOpt (subL ks i p) = true →
    ∀ s, s < k → (vec.at s ≠ 0 ↔ ∀ t, t < k → tot.at s ≤ tot.at t)
  | [], _, _, _, _, _, _, _, _, _, _, _, _, _, hd, _, _ => by simp [downL, A.getL] at hd
  | (e, c) :: rest, ih, hl, U, us, hinv, pre', pre, Cp, hp, 0, p, vec, tot, hd, hg, hin => by
    simp only [downL, A.getL] at hd
    simp only [totL, A.getL] at hg
    simp only [subL] at hin
    have hlc : ∀ n ∈ c.leaves, leaf01 k tv n :=
      fun n hn => hl n (by simp only [leavesL, List.mem_append]; exact Or.inl hn)
    have hlr : ∀ n ∈ leavesL rest, leaf01 k tv n :=
      fun n hn => hl n (by simp only [leavesL, List.mem_append]; exact Or.inr hn)
    have hfr := dual_fL k tv hk rest hlr
    -- the outside of `c`: Sankoff vector R, count vector st
    match us, hinv, hd with
    | none, hinv, hd =>
      have hC0 : Dual k (Cp + (upNL k tv rest + rest.length)) (vadd k U (vadd k pre' (fL k tv rest)))
          (vadd k pre (sumL k tv rest)) := by
        intro t ht
        have := hinv t ht; have := hp t ht; have := hfr t ht
        simp only [at_vadd, ht, if_true]; omega
      have hinv' := dual_through k _ hk _ _ hC0
      exact ih (e, c) (List.mem_cons_self ..) _ (some _) ⟨_, hinv'⟩ hlc p vec tot hd hg
        (by simpa [innerAt] using hin)
    | some u, ⟨C, hC⟩, hd =>
      have hC0 : Dual k (C + (Cp + (upNL k tv rest + rest.length))) (vadd k U (vadd k pre' (fL k tv rest)))
          (vadd k u (vadd k pre (sumL k tv rest))) := by
        intro t ht
        have := hC t ht; have := hp t ht; have := hfr t ht
        simp only [at_vadd, ht, if_true]; omega
      have hinv' := dual_through k _ hk _ _ hC0
      exact ih (e, c) (List.mem_cons_self ..) _ (some _) ⟨_, hinv'⟩ hlc p vec tot hd hg
        (by simpa [innerAt] using hin)
  | (e, c) :: rest, ih, hl, U, us, hinv, pre', pre, Cp, hp, i + 1, p, vec, tot, hd, hg, hin => by
    simp only [downL, A.getL] at hd
    simp only [totL, A.getL] at hg
    simp only [subL] at hin
    have hlc : ∀ n ∈ c.leaves, leaf01 k tv n :=
      fun n hn => hl n (by simp only [leavesL, List.mem_append]; exact Or.inl hn)
    have hlr : ∀ n ∈ leavesL rest, leaf01 k tv n :=
      fun n hn => hl n (by simp only [leavesL, List.mem_append]; exact Or.inr hn)
    have hc := dual_child k tv hk c hlc
    have hp' : Dual k (Cp + (upN k tv c + 1)) (vadd k pre' (gv k tv c)) (vadd k pre (upS k tv c)) := by
      intro t ht
      have := hp t ht; have := hc t ht
      simp only [at_vadd, ht, if_true]; omega
    exact down_tot_list hk rest (fun et het => ih et (List.mem_cons_of_mem _ het)) hlr U us hinv _ _ _ hp'
      i p vec tot hd hg hin

theorem down_tot (hk : 0 < k) : ∀ c : T, PD k tv c := by
  intro c
  induction c using T.induct with
  | h d p ks ih =>
    intro U us hinv hl pth vec tot hd hg hin
    match ks, ih, hl, pth, hd, hg, hin with
    | [], _, _, [], _, _, hin => simp [innerAt, innerOpt, sub] at hin
    | [], _, _, i :: q, _, _, hin => simp [innerAt, innerOpt, sub, subL] at hin
    | x :: xs, _, hl, [], hd, hg, _ =>
      rw [leaves_node_cons] at hl
      have hf := dual_fL k tv hk (x :: xs) hl
      simp only [totA, A.get, Option.some.injEq] at hg
      subst hg
      match us, hinv, hd with
      | none, hinv, hd =>
        simp only [down, A.get, Option.some.injEq] at hd
        subst hd
        have hdual : Dual k (upNL k tv (x :: xs) + (x :: xs).length)
            (vadd k (fL k tv (x :: xs)) U) (sumL k tv (x :: xs)) := by
          intro t ht
          have := hinv t ht; have := hf t ht
          simp only [at_vadd, ht, if_true]; omega
        exact fun s hs => dual_cp k _ hk _ _ hdual s hs
      | some u, ⟨C, hC⟩, hd =>
        simp only [down, A.get, Option.some.injEq] at hd
        subst hd
        have hdual : Dual k (C + (upNL k tv (x :: xs) + (x :: xs).length))
            (vadd k (fL k tv (x :: xs)) U) (vadd k u (sumL k tv (x :: xs))) := by
          intro t ht
          have := hC t ht; have := hf t ht
          simp only [at_vadd, ht, if_true]; omega
        exact fun s hs => dual_cp k _ hk _ _ hdual s hs
    | x :: xs, ih, hl, i :: q, hd, hg, hin =>
      rw [leaves_node_cons] at hl
      simp only [down, A.get] at hd
      simp only [totA, A.get] at hg
      exact down_tot_list k tv hk (x :: xs) ih hl U us hinv (vzero k) (vzero k) 0
        (by intro t _; simp [at_vzero]) i q vec tot hd hg (by simpa [innerAt, sub] using hin)

/- existence of the slices along a path -/
theorem tot_get_list : ∀ (ks : Kids),
    (∀ et ∈ ks, ∀ (U : Vec) (p : List Nat), (sub et.2 p).isSome = true → ((totA k tv U et.2).get p).isSome = true) →
    ∀ (U pre : Vec) (i : Nat) (p : List Nat), (subL ks i p).isSome = true →
    (A.getL (totL k tv U pre ks) i p).isSome = true
  | [], _, _, _, _, _, h => by simp [subL] at h
  | (e, c) :: rest, ih, U, pre, 0, p, h => by
    simp only [subL] at h
    simp only [totL, A.getL]
    exact ih (e, c) (List.mem_cons_self ..) _ p h
  | (e, c) :: rest, ih, U, pre, i + 1, p, h => by
    simp only [subL] at h
    simp only [totL, A.getL]
    exact tot_get_list rest (fun et het => ih et (List.mem_cons_of_mem _ het)) U _ i p h

theorem tot_get : ∀ (c : T) (U : Vec) (p : List Nat), (sub c p).isSome = true →
    ((totA k tv U c).get p).isSome = true := by
  intro c
  induction c using T.induct with
  | h d pp ks ih =>
    intro U p h
    match ks, ih, p, h with
    | [], _, [], _ => simp [totA, A.get]
    | [], _, i :: q, h => simp [sub, subL] at h
    | x :: xs, _, [], _ => simp [totA, A.get]
    | x :: xs, ih, i :: q, h =>
      simp only [sub] at h
      simp only [totA, A.get]
      exact tot_get_list k tv (x :: xs) ih U _ i q h

theorem fits_get_list : ∀ (ks : Kids),
    (∀ et ∈ ks, ∀ (l : LT) (p : List Nat), fits k tv et.2 l = true → (sub et.2 p).isSome = true →
      ∃ s, s < k ∧ l.get p = some s) →
    ∀ (ls : List LT) (i : Nat) (p : List Nat), fitsL k tv ks ls = true → (subL ks i p).isSome = true →
    ∃ s, s < k ∧ LT.getL ls i p = some s
  | [], _, _, _, _, _, h => by simp [subL] at h
  | _ :: _, _, [], _, _, hf, _ => by simp [fitsL] at hf
  | (e, c) :: rest, ih, l :: lr, 0, p, hf, h => by
    simp only [fitsL, Bool.and_eq_true] at hf
    simp only [subL] at h
    simp only [LT.getL]
    exact ih (e, c) (List.mem_cons_self ..) l p hf.1 h
  | (e, c) :: rest, ih, l :: lr, i + 1, p, hf, h => by
    simp only [fitsL, Bool.and_eq_true] at hf
    simp only [subL] at h
    simp only [LT.getL]
    exact fits_get_list rest (fun et het => ih et (List.mem_cons_of_mem _ het)) lr i p hf.2 h

theorem fits_get : ∀ (c : T) (l : LT) (p : List Nat), fits k tv c l = true → (sub c p).isSome = true →
    ∃ s, s < k ∧ l.get p = some s := by
  intro c
  induction c using T.induct with
  | h d pp ks ih =>
    intro l p hf h
    match ks, ih, l, p, hf, h with
    | [], _, .node r ls, [], hf, _ =>
      simp only [fits, Bool.and_eq_true, decide_eq_true_eq] at hf
      exact ⟨r, hf.1.2, by simp [LT.get]⟩
    | [], _, _, i :: q, _, h => simp [sub, subL] at h
    | x :: xs, _, .node r ls, [], hf, _ =>
      simp only [fits, Bool.and_eq_true, decide_eq_true_eq] at hf
      exact ⟨r, hf.1, by simp [LT.get]⟩
    | x :: xs, ih, .node r ls, i :: q, hf, h =>
      simp only [fits, Bool.and_eq_true, decide_eq_true_eq] at hf
      simp only [sub] at h
      simp only [LT.get]
      exact fits_get_list k tv (x :: xs) ih ls i q hf.2 h

end down

end Gotree.C12
