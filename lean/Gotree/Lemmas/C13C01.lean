/-
  C13 ∘ C01 — the Newick codec of property C01 (its verified model of io/newick and Node.Newick,
  `Gotree.Newick.parse` / `Gotree.Newick.write`) as an instance of this property's `NewickCodec`, with the
  three base laws of `NewickLaws` DISCHARGED from C01's theorem `parse_write`.
  (The two stream laws of `NewickStreamLaws`, used only by `first_eq_head` for Newick, are not derived
  here.)
-/
import Gotree.Lemmas.C13
import Gotree.Model.C13Codec
import Gotree.Proofs.C01

namespace Gotree.C13
open Gotree

/-- C01's model as a `NewickCodec` -/
def c01Codec (F : Newick.FloatCodec) : NewickCodec := codecOf F.toCodec

/-- the text is one line, ends with ';', and has no other ';' and no comment -/
def plainText (w : Txt) : Bool :=
  match w.reverse with
  | ';' :: body => body.all fun c => c != '\n' && c != '\r' && c != ';' && c != '['
  | _ => false

mutual
theorem strip_normFrom : ∀ (t : T) (n : Nat), strip (Newick.normFrom n t).1 = strip t
  | .node d p k, n => by
    simp only [Newick.normFrom, strip]
    rw [stripL_normFromL k n]
theorem stripL_normFromL : ∀ (k : Kids) (n : Nat), stripL (Newick.normFromL n k).1 = stripL k
  | [], _ => rfl
  | (e, t) :: r, n => by
    simp only [Newick.normFromL, stripL]
    rw [strip_normFrom t (n + 1), stripL_normFromL r _]
end

/-- the base laws hold of C01's codec on the trees of C01's quantifier whose text has no comment and
    no ';' or line break inside a name -/
def c01Laws (F : Newick.FloatCodec) : NewickLaws (c01Codec F) where
  wf t := C01.WF01 F.isFloat F.dom t && plainText (Newick.write F.toCodec t)
  norm := T.normIds
  parse_write := by
    intro t h
    simp only [Bool.and_eq_true] at h
    simp only [c01Codec, codecOf, C01.parse_write F t h.1]
  norm_strip := by
    intro t _
    exact strip_normFrom t 0
  write_shape := by
    intro t h
    simp only [Bool.and_eq_true] at h
    have h2 := h.2
    simp only [plainText] at h2
    split at h2
    · rename_i body heq
      refine ⟨body.reverse, ?_, ?_⟩
      · have := congrArg List.reverse heq
        simp only [List.reverse_reverse, List.reverse_cons] at this
        exact this
      · intro c hc
        rw [List.all_eq_true] at h2
        have := h2 c (by simpa using hc)
        simp only [Bool.and_eq_true, bne_iff_ne, ne_eq] at this
        exact ⟨this.1.1.1, this.1.1.2, this.1.2, this.2⟩
    · cases h2

end Gotree.C13
