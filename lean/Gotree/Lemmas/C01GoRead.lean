/-
  C01 — what the executable `goParseFloat` (model of strconv.ParseFloat) returns on a plain positional
  decimal  <digits>[.<digits>]  — the only shape `goFormatFloat` writes.  Core Lean only.
-/
import Gotree.Lemmas.C01GoCodec

namespace Gotree.Newick

theorem isDigit_props (c : Char) (h : c.isDigit = true) :
    (c == '_') = false ∧ (c == '.') = false ∧ decDigit? c = some (c.toNat - 48) ∧ (c == '+') = false ∧ (c == '-') = false ∧
    lower c = c := by
  have h' := h
  simp only [Char.isDigit, Bool.and_eq_true, decide_eq_true_eq] at h'
  have hn : 48 ≤ c.toNat ∧ c.toNat ≤ 57 := ⟨h'.1, h'.2⟩
  refine ⟨?_, ?_, ?_, ?_, ?_, ?_⟩
  · cases hx : (c == '_') with
    | false => rfl
    | true => simp at hx; subst hx; revert h; decide
  · cases hx : (c == '.') with
    | false => rfl
    | true => simp at hx; subst hx; revert h; decide
  · simp only [decDigit?]
    have h1 : '0' ≤ c := h'.1
    have h2 : c ≤ '9' := h'.2
    simp [h1, h2]
  · cases hx : (c == '+') with
    | false => rfl
    | true => simp at hx; subst hx; revert h; decide
  · cases hx : (c == '-') with
    | false => rfl
    | true => simp at hx; subst hx; revert h; decide
  · simp only [lower]
    have : ¬ ('A' ≤ c ∧ c ≤ 'Z') := by
      intro ⟨ha, _⟩
      have : 65 ≤ c.toNat := ha
      omega
    simp [this]

/-- the digit loop of `readFloat` over a run of decimal digits -/
theorem readMant_digits : ∀ (ds rest : List Char) (m : Mant), ds.all Char.isDigit = true →
    readMant false (ds ++ rest) m =
      readMant false rest { m with sawdigits := m.sawdigits || !ds.isEmpty,
                                   digits := Nat.ofDigitChars 10 ds m.digits,
                                   frac := if m.sawdot then m.frac + ds.length else m.frac } := by
  intro ds
  induction ds with
  | nil => intro rest m _; cases m; simp
  | cons c ds ih =>
    intro rest m h
    simp only [List.all_cons, Bool.and_eq_true] at h
    obtain ⟨h1, h2, h3, _, _, _⟩ := isDigit_props c h.1
    simp only [List.cons_append, readMant, h1, h2, h3, Bool.false_eq_true, if_false]
    rw [ih rest _ h.2]
    congr 1
    cases m with
    | mk dg fr sd sg us =>
      simp only [Nat.ofDigitChars_cons, List.length_cons, List.isEmpty_cons, Bool.not_false, Bool.or_true, Bool.true_or]
      have e1 : dg * 10 + (c.toNat - 48) = 10 * dg + (c.toNat - '0'.toNat) := by
        have : '0'.toNat = 48 := rfl
        rw [this]; omega
      cases sd <;> simp [e1] <;> omega

def plainChar (c : Char) : Bool := c.isDigit || c == '.'

/-- `<digits>` or `<digits>.<digits>` -/
def plainDec (a b : List Char) : List Char := a ++ (if b.isEmpty then [] else '.' :: b)

theorem plainChar_lower_ne_x (x : Char) (h : plainChar x = true) : (lower x == 'x') = false := by
  simp only [plainChar, Bool.or_eq_true, beq_iff_eq] at h
  rcases h with h | h
  · obtain ⟨_, _, _, _, _, hl⟩ := isDigit_props x h
    rw [hl]
    cases hx : (x == 'x') with
    | false => rfl
    | true => simp at hx; subst hx; revert h; decide
  · subst h; decide

theorem pfBase_plain (s : List Char) (h : s.all plainChar = true) : pfBase s = (false, s) := by
  unfold pfBase
  split
  · rename_i x c r
    simp only [List.all_cons, Bool.and_eq_true] at h
    simp [plainChar_lower_ne_x x h.2.1]
  · rfl

theorem pfSign_digit (c : Char) (r : List Char) (h : c.isDigit = true) : pfSign (c :: r) = (false, c :: r) := by
  obtain ⟨_, _, _, hp, hm, _⟩ := isDigit_props c h
  unfold pfSign
  split
  · rename_i heq; injection heq with h1 _; subst h1; simp at hp
  · rename_i heq; injection heq with h1 _; subst h1; simp at hm
  · rfl

theorem special_digit (c : Char) (r : List Char) (h : c.isDigit = true) :
    (pfUnsigned ((c :: r).map lower) == "inf".toList) = false ∧
    (pfUnsigned ((c :: r).map lower) == "infinity".toList) = false ∧
    (((c :: r).map lower) == "nan".toList) = false := by
  obtain ⟨_, _, _, hp, hm, hl⟩ := isDigit_props c h
  have hu : pfUnsigned ((c :: r).map lower) = c :: r.map lower := by
    rw [List.map_cons, hl]
    unfold pfUnsigned
    split
    · rename_i heq; injection heq with h1 _; subst h1; simp at hp
    · rename_i heq; injection heq with h1 _; subst h1; simp at hm
    · rfl
  have hne : ∀ (k : Char) (t : List Char), k.isDigit = false → ((c :: r.map lower) == k :: t) = false := by
    intro k t hk
    cases hx : ((c :: r.map lower) == k :: t) with
    | false => rfl
    | true =>
      simp at hx
      rw [hx.1] at h; rw [h] at hk; cases hk
  refine ⟨?_, ?_, ?_⟩
  · rw [hu]; exact hne 'i' _ (by decide)
  · rw [hu]; exact hne 'i' _ (by decide)
  · rw [List.map_cons, hl]; exact hne 'n' _ (by decide)

/-- the mantissa state after a plain decimal -/
theorem readMant_plain (a b : List Char) (ha : a.all Char.isDigit = true) (hb : b.all Char.isDigit = true) (hne : a ≠ []) :
    ∃ sd, readMant false (plainDec a b) {} =
      (⟨Nat.ofDigitChars 10 (a ++ b) 0, b.length, sd, true, false⟩, []) := by
  have ha' : (!a.isEmpty) = true := by cases a with | nil => exact absurd rfl hne | cons => rfl
  unfold plainDec
  cases hbe : b.isEmpty with
  | true =>
    have hb0 : b = [] := List.isEmpty_iff.1 hbe
    subst hb0
    refine ⟨false, ?_⟩
    have := readMant_digits a [] {} ha
    simp only [List.append_nil] at this
    simp only [List.isEmpty_nil, if_true, List.append_nil]
    rw [this]
    simp [readMant, ha']
  | false =>
    refine ⟨true, ?_⟩
    simp only [Bool.false_eq_true, if_false]
    rw [readMant_digits a ('.' :: b) {} ha]
    simp only [readMant, Bool.false_eq_true, if_false, ha', Bool.or_true]
    have h2 := readMant_digits b [] ⟨Nat.ofDigitChars 10 a 0, 0, true, true, false⟩ hb
    simp only [List.append_nil] at h2
    simp only [show (('.' : Char) == '_') = false from by decide, beq_self_eq_true, Bool.false_eq_true, if_false, if_true]
    rw [h2]
    simp [readMant, Nat.ofDigitChars_append]

/-- value of the decimal `D · 10^(-frac)` as `readFloat`/`atof64` compute it (with the shortcuts for
    magnitudes far outside the float64 range) -/
def decValue (D frac : Nat) : Option Rat :=
  let ex : Int := 0 - (frac : Int)
  let mag : Int := (numDecDigits D : Int) + ex
  if mag > 311 then none
  else if mag < -330 then some 0
  else roundF64 (scale10 ((D : Nat) : Rat) ex)

theorem pfValue_dec (m : Mant) : pfValue false m 0 = decValue m.digits m.frac := by
  simp [pfValue, decValue]

theorem plainDec_all (a b : List Char) (ha : a.all Char.isDigit = true) (hb : b.all Char.isDigit = true) :
    (plainDec a b).all plainChar = true := by
  have h1 := all_imp _ plainChar a ha (fun c hc => by simp [plainChar, hc])
  have h2 := all_imp _ plainChar b hb (fun c hc => by simp [plainChar, hc])
  unfold plainDec
  split
  · simp [h1]
  · simp [List.all_append, h1, h2, plainChar]

/-- `strconv.ParseFloat` (model) on a plain positional decimal. -/
theorem goParseFloat_plain (a b : List Char) (ha : a.all Char.isDigit = true) (hb : b.all Char.isDigit = true) (hne : a ≠ []) :
    goParseFloat (plainDec a b) =
      (if Nat.ofDigitChars 10 (a ++ b) 0 == 0 then .fin 0
       else match decValue (Nat.ofDigitChars 10 (a ++ b) 0) b.length with
         | none => .bad
         | some q => .fin q) := by
  obtain ⟨sd, hm⟩ := readMant_plain a b ha hb hne
  have hall := plainDec_all a b ha hb
  cases a with
  | nil => exact absurd rfl hne
  | cons c a' =>
    have hc : c.isDigit = true := by simp only [List.all_cons, Bool.and_eq_true] at ha; exact ha.1
    have hshape : plainDec (c :: a') b = c :: (a' ++ (if b.isEmpty then [] else '.' :: b)) := rfl
    obtain ⟨s1, s2, s3⟩ := special_digit c (a' ++ (if b.isEmpty then [] else '.' :: b)) hc
    rw [goParseFloat_eq]
    unfold goParseFloat'
    rw [hshape] at hm hall ⊢
    rw [s1, s2, s3, pfSign_digit c _ hc]
    simp only [Bool.or_self, Bool.false_eq_true, if_false]
    rw [pfBase_plain _ hall, hm]
    simp only [Bool.not_true, Bool.false_eq_true, if_false, pfExp, pfFinish, List.isEmpty_nil, Bool.or_self, Bool.false_and,
      pfValue_dec]
    split
    · simp
    · cases decValue (Nat.ofDigitChars 10 (c :: a' ++ b) 0) b.length <;> simp

/- ## arithmetic of `scale10` and of the number of decimal digits -/

theorem pow10_ne_zero (k : Nat) : ((pow10 k : Nat) : Rat) ≠ 0 := by
  have : 0 < 10 ^ k := Nat.pow_pos (by decide)
  unfold pow10
  intro h
  have h2 : ((10 ^ k : Nat) : Rat) = ((0 : Nat) : Rat) := h
  have := Rat.natCast_inj.1 h2
  omega

theorem pow10_succ (k : Nat) : ((pow10 (k + 1) : Nat) : Rat) = 10 * ((pow10 k : Nat) : Rat) := by
  unfold pow10
  rw [Nat.pow_succ, Rat.natCast_mul]
  rw [Rat.mul_comm]; rfl

/-- dropping a trailing zero of the digits and raising the exponent -/
theorem scale10_strip (m : Nat) (p : Int) (hp : p < 0) :
    scale10 ((m : Nat) : Rat) (p + 1) = scale10 (((10 * m : Nat)) : Rat) p := by
  unfold scale10
  have h2 : ¬ p ≥ 0 := by omega
  simp only [h2, if_false]
  by_cases h1 : p + 1 ≥ 0
  · have : p = -1 := by omega
    subst this
    simp [pow10, Rat.natCast_mul]
    grind
  · simp only [h1, if_false]
    have hk : (-p).toNat = (-(p + 1)).toNat + 1 := by omega
    rw [hk, pow10_succ, Rat.natCast_mul]
    have := pow10_ne_zero (-(p + 1)).toNat
    grind

/-- appending zeros to the digits -/
theorem scale10_zeros (n : Nat) (p : Int) (hp : p ≥ 0) :
    scale10 (((n * 10 ^ p.toNat : Nat)) : Rat) 0 = scale10 ((n : Nat) : Rat) p := by
  unfold scale10
  simp [hp, pow10, Rat.natCast_mul]

theorem numDec_div (n : Nat) (h : 10 ≤ n) : numDecDigits n = numDecDigits (n / 10) + 1 := by
  unfold numDecDigits
  rw [Nat.toDigits_of_base_le (by decide) h]
  simp

theorem numDec_mul_pow (n : Nat) (hn : 0 < n) : ∀ k : Nat, numDecDigits (n * 10 ^ k) = numDecDigits n + k := by
  intro k
  induction k with
  | zero => simp
  | succ k ih =>
    have hpos : 0 < n * 10 ^ k := Nat.mul_pos hn (Nat.pow_pos (by decide))
    have h10 : 10 ≤ n * 10 ^ (k + 1) := by rw [Nat.pow_succ, ← Nat.mul_assoc]; omega
    rw [numDec_div _ h10]
    have : n * 10 ^ (k + 1) / 10 = n * 10 ^ k := by
      rw [Nat.pow_succ, ← Nat.mul_assoc, Nat.mul_div_cancel _ (by decide)]
    rw [this, ih]; omega

theorem ofDigits_zeros_append (k : Nat) (ds : List Char) : Nat.ofDigitChars 10 (List.replicate k '0' ++ ds) 0 = Nat.ofDigitChars 10 ds 0 := by
  rw [Nat.ofDigitChars_append, Nat.ofDigitChars_replicate_zero]; simp

/- ## what `renderFixed` writes -/

/-- `out` is the plain decimal of `n · 10^p`: digits `a`, optional fraction `b`, with the value and the
    decimal magnitude that `readFloat` will recompute -/
def RendersAs (out : List Char) (n : Nat) (p : Int) : Prop :=
  ∃ a b : List Char, out = plainDec a b ∧ a.all Char.isDigit = true ∧ b.all Char.isDigit = true ∧ a ≠ [] ∧
    Nat.ofDigitChars 10 (a ++ b) 0 ≠ 0 ∧
    scale10 ((Nat.ofDigitChars 10 (a ++ b) 0 : Nat) : Rat) (0 - (b.length : Int)) = scale10 ((n : Nat) : Rat) p ∧
    (numDecDigits (Nat.ofDigitChars 10 (a ++ b) 0) : Int) + (0 - (b.length : Int)) = (numDecDigits n : Int) + p

theorem natDigits_digits (n : Nat) : (natDigits n).all Char.isDigit = true := digits_all n

theorem natDigits_val (n : Nat) : Nat.ofDigitChars 10 (natDigits n) 0 = n := Nat.ofDigitChars_ten_toDigits

theorem renderFixed_shape : ∀ (fuel n : Nat) (p : Int), 0 < n → n < 10 ^ fuel → RendersAs (renderFixed fuel n p) n p := by
  intro fuel
  induction fuel with
  | zero => intro n p h0 h1; simp at h1; omega
  | succ f ih =>
    intro n p h0 h1
    simp only [renderFixed]
    split
    · -- a trailing zero is dropped
      rename_i hc
      simp only [Bool.and_eq_true, beq_iff_eq, bne_iff_ne, ne_eq, decide_eq_true_eq] at hc
      obtain ⟨⟨hmod, _⟩, hp⟩ := hc
      have hn10 : n = 10 * (n / 10) := by omega
      have hpos : 0 < n / 10 := by omega
      have hlt : n / 10 < 10 ^ f := by
        rw [Nat.pow_succ] at h1; omega
      obtain ⟨a, b, e1, e2, e3, e4, e5, e6, e7⟩ := ih (n / 10) (p + 1) hpos hlt
      refine ⟨a, b, e1, e2, e3, e4, e5, ?_, ?_⟩
      · rw [e6, scale10_strip (n / 10) p hp, ← hn10]
      · rw [e7, numDec_div n (by omega)]
        push_cast; omega
    · split
      · -- integer: the digits and p zeros
        rename_i hp
        refine ⟨natDigits n ++ List.replicate p.toNat '0', [], by simp [plainDec], ?_, by simp, by simp [natDigits_ne_nil], ?_, ?_, ?_⟩
        · rw [List.all_append, natDigits_digits n]
          simp only [Bool.true_and]
          rw [List.all_eq_true]
          intro c hc
          have := List.eq_of_mem_replicate hc
          subst this; decide
        all_goals
          simp only [List.append_nil, Nat.ofDigitChars_append, Nat.ofDigitChars_replicate_zero, natDigits_val, List.length_nil]
        · have : 0 < 10 ^ p.toNat * n := Nat.mul_pos (Nat.pow_pos (by decide)) h0
          omega
        · rw [Nat.mul_comm]
          have := scale10_zeros n p hp
          simpa using this
        · rw [Nat.mul_comm, numDec_mul_pow n h0]
          push_cast; omega
      · rename_i hp
        have hp' : p < 0 := by omega
        have hk : (((-p).toNat : Nat) : Int) = -p := by omega
        split
        · -- the point inside the digits
          rename_i hlen
          refine ⟨(natDigits n).take ((natDigits n).length - (-p).toNat), (natDigits n).drop ((natDigits n).length - (-p).toNat), ?_,
            all_take _ _ _ (natDigits_digits n), all_drop _ _ _ (natDigits_digits n), ?_, ?_, ?_, ?_⟩
          · have hb : ((natDigits n).drop ((natDigits n).length - (-p).toNat)).isEmpty = false := by
              cases hd : (natDigits n).drop ((natDigits n).length - (-p).toNat) with
              | nil =>
                have := congrArg List.length hd
                simp only [List.length_drop, List.length_nil] at this
                omega
              | cons => rfl
            simp [plainDec, hb]
          · intro h
            have := congrArg List.length h
            simp only [List.length_take, List.length_nil] at this
            omega
          all_goals simp only [List.take_append_drop, natDigits_val, List.length_drop]
          · omega
          · have : ((natDigits n).length - ((natDigits n).length - (-p).toNat) : Nat) = (-p).toNat := by omega
            rw [this, hk]
            have : (0 : Int) - -p = p := by omega
            rw [this]
          · have : ((natDigits n).length - ((natDigits n).length - (-p).toNat) : Nat) = (-p).toNat := by omega
            rw [this, hk]; omega
        · -- 0.000ddd
          rename_i hlen
          refine ⟨['0'], List.replicate ((-p).toNat - (natDigits n).length) '0' ++ natDigits n, ?_, by decide, ?_, by simp, ?_, ?_, ?_⟩
          · have hb : (List.replicate ((-p).toNat - (natDigits n).length) '0' ++ natDigits n).isEmpty = false := by
              simp [natDigits_ne_nil]
            simp [plainDec, hb]
          · rw [List.all_append, natDigits_digits n]
            simp only [Bool.and_true]
            rw [List.all_eq_true]
            intro c hc
            have := List.eq_of_mem_replicate hc
            subst this; decide
          all_goals
            simp only [List.cons_append, List.nil_append, Nat.ofDigitChars_cons, Nat.ofDigitChars_append,
              Nat.ofDigitChars_replicate_zero, Nat.mul_zero, Nat.zero_add, natDigits_val, List.length_append, List.length_replicate,
              show ('0' : Char).toNat - ('0' : Char).toNat = 0 from rfl]
          · omega
          · have : (((-p).toNat - (natDigits n).length + (natDigits n).length : Nat) : Int) = -p := by omega
            rw [this]
            have : (0 : Int) - -p = p := by omega
            rw [this]
          · have : (((-p).toNat - (natDigits n).length + (natDigits n).length : Nat) : Int) = -p := by omega
            rw [this]; omega

/- ## reading back what was written -/

/-- the common part: the literal is a sign (or none) followed by a plain decimal -/
theorem goParseFloat_signed (s : List Char) (neg : Bool) (a b : List Char)
    (ha : a.all Char.isDigit = true) (hb : b.all Char.isDigit = true) (hne : a ≠ [])
    (hs1 : (pfUnsigned (s.map lower) == "inf".toList) = false) (hs2 : (pfUnsigned (s.map lower) == "infinity".toList) = false)
    (hs3 : (s.map lower == "nan".toList) = false) (hsign : pfSign s = (neg, plainDec a b)) :
    goParseFloat s =
      (if Nat.ofDigitChars 10 (a ++ b) 0 == 0 then .fin 0
       else match decValue (Nat.ofDigitChars 10 (a ++ b) 0) b.length with
         | none => .bad
         | some q => .fin (if neg then -q else q)) := by
  obtain ⟨sd, hm⟩ := readMant_plain a b ha hb hne
  have hall := plainDec_all a b ha hb
  rw [goParseFloat_eq]
  unfold goParseFloat'
  rw [hs1, hs2, hs3, hsign]
  simp only [Bool.or_self, Bool.false_eq_true, if_false]
  rw [pfBase_plain _ hall, hm]
  simp only [Bool.not_true, Bool.false_eq_true, if_false, pfExp, pfFinish, List.isEmpty_nil, Bool.or_self, Bool.false_and,
    pfValue_dec]
  split
  · simp
  · cases decValue (Nat.ofDigitChars 10 (a ++ b) 0) b.length <;> simp

theorem goParseFloat_minus_plain (a b : List Char) (ha : a.all Char.isDigit = true) (hb : b.all Char.isDigit = true) (hne : a ≠ []) :
    goParseFloat ('-' :: plainDec a b) =
      (if Nat.ofDigitChars 10 (a ++ b) 0 == 0 then .fin 0
       else match decValue (Nat.ofDigitChars 10 (a ++ b) 0) b.length with
         | none => .bad
         | some q => .fin (-q)) := by
  cases a with
  | nil => exact absurd rfl hne
  | cons c a' =>
    have hc : c.isDigit = true := by simp only [List.all_cons, Bool.and_eq_true] at ha; exact ha.1
    have hshape : plainDec (c :: a') b = c :: (a' ++ (if b.isEmpty then [] else '.' :: b)) := rfl
    obtain ⟨s1, s2, _⟩ := special_digit c (a' ++ (if b.isEmpty then [] else '.' :: b)) hc
    have hun : pfUnsigned (('-' :: plainDec (c :: a') b).map lower) = pfUnsigned ((plainDec (c :: a') b).map lower) := by
      obtain ⟨_, _, _, hp, hm, hl⟩ := isDigit_props c hc
      rw [hshape]
      simp only [List.map_cons, show lower '-' = '-' from by decide, hl]
      have : pfUnsigned (c :: List.map lower (a' ++ if b.isEmpty = true then [] else '.' :: b)) =
          c :: List.map lower (a' ++ if b.isEmpty = true then [] else '.' :: b) := by
        unfold pfUnsigned
        split
        · rename_i heq; injection heq with h1 _; subst h1; simp at hp
        · rename_i heq; injection heq with h1 _; subst h1; simp at hm
        · rfl
      rw [this]; rfl
    have h := goParseFloat_signed ('-' :: plainDec (c :: a') b) true (c :: a') b ha hb hne
      (by rw [hun, hshape]; exact s1) (by rw [hun, hshape]; exact s2) (by simp [show lower '-' = '-' from by decide]) rfl
    simpa using h

/-- `ParseFloat(FormatFloat)` of the model, structurally: what `renderFixed` wrote for `n · 10^p` is read
    back as the float64 nearest to `n · 10^p` (inside the decimal magnitudes the reader does not cut off). -/
theorem goParseFloat_render (n : Nat) (p : Int) (h0 : 0 < n) (h1 : n < 10 ^ 400)
    (hlo : -330 ≤ (numDecDigits n : Int) + p) (hhi : (numDecDigits n : Int) + p ≤ 311) :
    goParseFloat (renderFixed 400 n p) = (match roundF64 (scale10 ((n : Nat) : Rat) p) with | none => .bad | some q => .fin q) ∧
    goParseFloat ('-' :: renderFixed 400 n p) = (match roundF64 (scale10 ((n : Nat) : Rat) p) with | none => .bad | some q => .fin (-q)) := by
  obtain ⟨a, b, e1, e2, e3, e4, e5, e6, e7⟩ := renderFixed_shape 400 n p h0 h1
  have hD : (Nat.ofDigitChars 10 (a ++ b) 0 == 0) = false := by simp [e5]
  have hval : decValue (Nat.ofDigitChars 10 (a ++ b) 0) b.length = roundF64 (scale10 ((n : Nat) : Rat) p) := by
    unfold decValue
    simp only [e7, e6]
    have h1 : ¬ ((numDecDigits n : Int) + p > 311) := by omega
    have h2 : ¬ ((numDecDigits n : Int) + p < -330) := by omega
    simp [h1, h2]
  constructor
  · rw [e1]
    have := goParseFloat_signed (plainDec a b) false a b e2 e3 e4
    cases a with
    | nil => exact absurd rfl e4
    | cons c a' =>
      have hc : c.isDigit = true := by simp only [List.all_cons, Bool.and_eq_true] at e2; exact e2.1
      have hshape : plainDec (c :: a') b = c :: (a' ++ (if b.isEmpty then [] else '.' :: b)) := rfl
      obtain ⟨s1, s2, s3⟩ := special_digit c (a' ++ (if b.isEmpty then [] else '.' :: b)) hc
      have h := this (by rw [hshape]; exact s1) (by rw [hshape]; exact s2) (by rw [hshape]; exact s3)
        (by rw [hshape]; exact pfSign_digit c _ hc)
      rw [h, hD, hval]
      simp
  · rw [e1, goParseFloat_minus_plain a b e2 e3 e4, hD, hval]
    simp

/-- Second and third codec law for the executable codec, on the structural domain: the text written for
    `x` is accepted by the model of `ParseFloat` and read back as `x`. -/
theorem goDomS_goDom (x : Rat) (h : goDomS x = true) : goDom x = true := by
  unfold goDomS at h
  by_cases hx : x = 0
  · subst hx
    have : goParseFloat ['0'] = .fin 0 := by
      have := goParseFloat_plain ['0'] [] (by decide) (by decide) (by simp)
      have hz : Nat.ofDigitChars 10 ['0'] 0 = 0 := by decide
      simpa [plainDec, hz] using this
    simp [goDom, goCodec, goFormatFloat, this]
  · have hx' : (x == 0) = false := by simp [hx]
    simp only [hx', Bool.false_or, Bool.and_eq_true, decide_eq_true_eq, beq_iff_eq] at h
    obtain ⟨⟨⟨⟨h0, h1⟩, hlo⟩, hhi⟩, hr⟩ := h
    obtain ⟨hpos, hneg⟩ := goParseFloat_render _ _ h0 h1 hlo hhi
    rw [hr] at hpos hneg
    simp only at hpos hneg
    by_cases hlt : x < 0
    · have hf : goFormatFloat x = '-' :: renderFixed 400 (shortest (if x < 0 then -x else x)).1 (shortest (if x < 0 then -x else x)).2 := by
        simp [goFormatFloat, hx', hlt]
      simp only [hlt, if_true] at hneg hf
      have hxx : - -x = x := by simp
      simp [goDom, goCodec, hf, hneg, hxx]
    · have hf : goFormatFloat x = renderFixed 400 (shortest (if x < 0 then -x else x)).1 (shortest (if x < 0 then -x else x)).2 := by
        simp [goFormatFloat, hx', hlt]
      simp only [hlt, if_false] at hpos hf
      simp [goDom, goCodec, hf, hpos]

/-- `goCodec` as a lawful `FloatCodec` on the structural domain: all four laws proved. -/
def goFloatCodecS : FloatCodec where
  toCodec := goCodec
  dom := goDomS
  fmt_clean := fun x _ => goFormatFloat_clean x
  fmt_isFloat := fun x h => goFloatCodec.fmt_isFloat x (goDomS_goDom x h)
  parse_fmt := fun x h => goFloatCodec.parse_fmt x (goDomS_goDom x h)
  isFloat_noSlash := goCodec_isFloat_noSlash

end Gotree.Newick
