/-
  C01 — executable model of gotree's Newick code (io/newick/*.go, tree/node.go Node.Newick,
  tree/tree.go Tree.Newick), as the code is NOW.

  PUBLIC NAMES (stable; imported by C02 and C13), all in namespace `Gotree.Newick`:

    Codec / FloatCodec / goCodec      see Model/C01Float.lean
    Outcome α                         ok a | err msg | panic msg | unrep msg
                                      (`unrep`: the Go code succeeds but stores NaN/±Inf, which `EdgeD` (Rat) cannot hold)
    Tok                               the tokens of newick_token.go
    isWhitespace, isIdent             newick_token.go
    scan      : Codec → Bool → List Char → Tok × List Char × List Char     Scanner.Scan(ignoreSemiColumn): token, literal, rest
    skipWs, scanIW                    Parser.scanIgnoreWhitespace
    consumeComment                    Parser.consumeComment
    PState, Frame, iter, run          Parser.parseIter (state, one turn of the loop, the loop)
    parse     : Codec → List Char → Outcome T        Parser.Parse  (input = the runes delivered by bufio.ReadRune)
    parseStr  : Codec → String → Outcome T
    write     : Codec → T → List Char                Tree.Newick
    writeStr  : Codec → T → String
    T.normIds : T → T                                what a re-read tree looks like: ppos 0, branch ids in creation (pre-)order
    trimSpace / isSpaceGo             strings.TrimSpace / unicode.IsSpace

  Modelling notes (each read off the Go source):
  * No fuel: `consumeComment` and `run` recurse on the remaining input; `scan_lt`/`iter_le` prove that
    every turn consumes at least one character or stops.
  * The one-token `unscan` buffer of the parser is used at exactly two places (Parse: after it has seen
    the first `(`; parseIter: on `;`).  Both times the token is re-read by `scanIgnoreWhitespace` in the
    same mode, so "unscan" is modelled by handing on the input position *before* that token (`skipWs`).
  * Node stack: Go attaches a child to its parent when it is created and pops it at the next `,`/`)`.
    A frame here holds the node data, the data of the branch above it and the children finished so far;
    a popped frame is appended to the frame below (same order, because a node only gets children
    while it is on top).  `node == nil` ⇔ the stack is empty; `edge == nil` ⇔ the stack has at most one
    frame (only the frame pushed while `node == nil`, i.e. on the empty stack, carries a nil edge).
    A root popped off the stack (`(a,b),`) stays `t.Root()`: field `done`; a later `(` on the empty stack
    makes a NEW root (`(a,b),(c);` parses to `(c);` — the code's behaviour, kept).
  * `stale`: parseIter's named result `err` is assigned by the failed `ParseFloat` of an `x/y` label and
    returned by the bare `return` of the EOT/EOF cases unless a later Pop / consumeComment / ParseFloat
    overwrote it (`(a(b))x/y;` is an error, `(a(b))xy;` is not).
  * Node ids (`SetId(nnodes)`) are not part of `NodeD`; branch ids are (`nedges`).
  * No Go index expression / nil dereference is reachable in parseIter (every use is guarded); the only
    `panic` of the model is the nil root in `Parse`'s `newtree.Tips()`, unreachable because `Parse`
    insists on a first `(` (C02 proves it).
-/
import Gotree.Model.C01Float

namespace Gotree.Newick

inductive Outcome (α : Type) where
  | ok (a : α)
  | err (msg : String)
  | panic (msg : String)
  | unrep (msg : String)
  deriving Repr, Inhabited

inductive Tok where
  | illegal | eof | ws | ident | numeric | openpar | closepar | startlen | openbrack | closebrack | newsibling | eot
  deriving DecidableEq, Repr, Inhabited

/- ## Lexer (newick_token.go, newick_lexer.go) -/

def isWhitespace (c : Char) : Bool := c == ' ' || c == '\t' || c == '\n' || c == '\r'

def isIdent (ign : Bool) (c : Char) : Bool :=
  c != '[' && c != ']' && c != '(' && c != ')' && c != ',' && c != ':' && (ign || c != ';')

/-- `Scanner.Scan(ignoreSemiColumn)`: token, literal, remaining input. -/
def scan (C : Codec) (ign : Bool) : List Char → Tok × List Char × List Char
  | [] => (.eof, [], [])
  | c :: r =>
    if isWhitespace c then (.ws, c :: r.takeWhile isWhitespace, r.dropWhile isWhitespace)
    else if c == '(' then (.openpar, [c], r)
    else if c == ')' then (.closepar, [c], r)
    else if c == '[' then (.openbrack, [c], r)
    else if c == ']' then (.closebrack, [c], r)
    else if c == ',' then (.newsibling, [c], r)
    else if c == ';' && !ign then (.eot, [c], r)
    else if c == ':' then (.startlen, [c], r)
    else
      -- scanIdent: the first rune unconditionally, then every identifier rune
      let lit := c :: r.takeWhile (isIdent ign)
      (if C.isFloat lit then .numeric else .ident, lit, r.dropWhile (isIdent ign))

theorem scan_le (C : Codec) (ign : Bool) (inp : List Char) : (scan C ign inp).2.2.length ≤ inp.length := by
  cases inp with
  | nil => simp [scan]
  | cons c r =>
    have h1 := (List.dropWhile_sublist (l := r) isWhitespace).length_le
    have h2 := (List.dropWhile_sublist (l := r) (isIdent ign)).length_le
    simp only [scan]
    repeat' split
    all_goals simp only [List.length_cons]
    all_goals omega

theorem scan_lt (C : Codec) (ign : Bool) (inp : List Char) (h : (scan C ign inp).1 ≠ .eof) :
    (scan C ign inp).2.2.length < inp.length := by
  cases inp with
  | nil => simp [scan] at h
  | cons c r =>
    have h1 := (List.dropWhile_sublist (l := r) isWhitespace).length_le
    have h2 := (List.dropWhile_sublist (l := r) (isIdent ign)).length_le
    simp only [scan]
    repeat' split
    all_goals simp only [List.length_cons]
    all_goals omega

/-- position of the next non-blank token (`scanIgnoreWhitespace` skips one `WS` token, which holds
    all contiguous blanks) -/
def skipWs (C : Codec) (inp : List Char) : List Char :=
  if (scan C false inp).1 = .ws then (scan C false inp).2.2 else inp

/-- `Parser.scanIgnoreWhitespace` -/
def scanIW (C : Codec) (inp : List Char) : Tok × List Char × List Char := scan C false (skipWs C inp)

theorem skipWs_le (C : Codec) (inp : List Char) : (skipWs C inp).length ≤ inp.length := by
  unfold skipWs; split
  · exact scan_le C false inp
  · exact Nat.le_refl _

theorem scanIW_le (C : Codec) (inp : List Char) : (scanIW C inp).2.2.length ≤ inp.length :=
  Nat.le_trans (scan_le C false _) (skipWs_le C inp)

theorem scanIW_lt (C : Codec) (inp : List Char) (h : (scanIW C inp).1 ≠ .eof) :
    (scanIW C inp).2.2.length < inp.length :=
  Nat.lt_of_lt_of_le (scan_lt C false _ h) (skipWs_le C inp)

/-- `Parser.consumeComment` after the `[`: concatenates the literals returned by `scan(true)` up to the
    matching `]`; `none` = "unmatched bracket" (EOF). -/
def consumeComment (C : Codec) (inp : List Char) (acc : List Char) : Option (List Char × List Char) :=
  if (scan C true inp).1 = .closebrack then some (acc, (scan C true inp).2.2)
  else if h2 : (scan C true inp).1 = .eof ∨ (scan C true inp).1 = .illegal then none
  else consumeComment C (scan C true inp).2.2 (acc ++ (scan C true inp).2.1)
termination_by inp.length
decreasing_by
  apply scan_lt
  intro h3; exact h2 (Or.inl h3)

theorem consumeComment_le (C : Codec) : ∀ (n : Nat) (inp acc : List Char) (c r : List Char), inp.length ≤ n →
    consumeComment C inp acc = some (c, r) → r.length ≤ inp.length := by
  intro n
  induction n with
  | zero =>
    intro inp acc c r hn h
    unfold consumeComment at h
    split at h
    · cases h; exact scan_le C true inp
    · split at h
      · cases h
      · rename_i h2 h3
        have := scan_lt C true inp (fun h4 => h3 (Or.inl h4))
        omega
  | succ n ih =>
    intro inp acc c r hn h
    unfold consumeComment at h
    split at h
    · cases h; exact scan_le C true inp
    · split at h
      · cases h
      · rename_i h2 h3
        have hlt := scan_lt C true inp (fun h4 => h3 (Or.inl h4))
        have := ih _ _ c r (by omega) h
        omega

/- ## Parser state (newick_parser.go parseIter, newick_nodestack.go) -/

structure Frame where
  d : NodeD
  e : EdgeD          -- data of the branch above the node (unused for the bottom frame: Go's nil edge)
  kids : Kids
  deriving Repr, Inhabited

structure PState where
  stack : List Frame := []        -- head = top of Go's NodeStack
  level : Int := 0
  prevTok : Option Tok := none    -- `none` = Go's -1
  nedges : Nat := 0
  done : Option T := none         -- t.Root() once its frame has been popped
  stale : Bool := false           -- named result `err` left non-nil (see the header)
  deriving Repr, Inhabited

def Frame.toT (f : Frame) : T := .node f.d 0 f.kids

namespace PState

def nodeNil (st : PState) : Bool := st.stack.isEmpty
def edgeNil (st : PState) : Bool := st.stack.length ≤ 1

/-- `nodeStack.Pop()` followed by `node, edge, _ = nodeStack.Head()`; `none` = the stack was empty. -/
def pop (st : PState) : Option PState :=
  match st.stack with
  | [] => none
  | [f] => some { st with stack := [], done := some f.toT }
  | f :: p :: rest => some { st with stack := { p with kids := p.kids ++ [(f.e, f.toT)] } :: rest }

/-- `newNode = t.NewNode(); newNode.SetName(name); edge = t.ConnectNodes(node, newNode); edge.SetId(nedges); nedges++;
    node = newNode; nodeStack.Push(node, edge)` -/
def pushChild (st : PState) (name : String) : PState :=
  { st with stack := ⟨⟨name, []⟩, { EdgeD.blank with id := (st.nedges : Int) }, []⟩ :: st.stack, nedges := st.nedges + 1 }

/-- `node = t.NewNode(); nodeStack.Push(node, nil); t.SetRoot(node)` -/
def pushRoot (st : PState) : PState :=
  { st with stack := [⟨⟨"", []⟩, EdgeD.blank, []⟩], done := none }

def modTop (st : PState) (f : Frame → Frame) : PState :=
  match st.stack with
  | [] => st
  | x :: r => { st with stack := f x :: r }

def topLen (st : PState) : Rat :=
  match st.stack with
  | [] => NIL
  | x :: _ => x.e.len

def addNodeComment (st : PState) (c : String) : PState :=
  st.modTop fun f => { f with d := { f.d with comments := f.d.comments ++ [c] } }
def addEdgeComment (st : PState) (c : String) : PState :=
  st.modTop fun f => { f with e := { f.e with comments := f.e.comments ++ [c] } }
def setName (st : PState) (n : String) : PState := st.modTop fun f => { f with d := { f.d with name := n } }
def setLen (st : PState) (v : Rat) : PState := st.modTop fun f => { f with e := { f.e with len := v } }
def setSup (st : PState) (v : Rat) : PState := st.modTop fun f => { f with e := { f.e with sup := v } }
def setPval (st : PState) (v : Rat) : PState := st.modTop fun f => { f with e := { f.e with pval := v } }

/-- unwind the stack: every node still on it is attached to the one below (Go attached it at creation). -/
def unwind : List Frame → Option (EdgeD × T) → Option T
  | [], acc => acc.map (·.2)
  | f :: rest, acc =>
    let f' : Frame := match acc with
      | none => f
      | some c => { f with kids := f.kids ++ [c] }
    unwind rest (some (f'.e, f'.toT))

/-- the tree `t.Root()` denotes when parseIter returns -/
def result (st : PState) : Option T :=
  match st.stack with
  | [] => st.done
  | s => unwind s none

end PState

/-- `strings.Split(lit, "/")` -/
def splitSlash : List Char → List (List Char)
  | [] => [[]]
  | c :: r =>
    match splitSlash r with
    | [] => [[]]          -- unreachable: the result is never empty
    | p :: ps => if c == '/' then [] :: p :: ps else (c :: p) :: ps

/-- one turn of the `for` loop of parseIter, after the token has been read -/
inductive Iter where
  | cont (st : PState) (rest : List Char)
  | stop (o : Outcome (PState × List Char))

open PState in
/-- The `switch tok` of parseIter.  `pos` is the input position of the token (for `unscan`), `rest`
    the input after it. -/
def iter (C : Codec) (st : PState) (tok : Tok) (lit pos rest : List Char) : Iter :=
  match tok with
  | .openpar =>
    if st.nodeNil then
      if st.level > 0 then .stop (.err "nil node at depth > 0")
      else .cont { st.pushRoot with level := st.level + 1, prevTok := some .openpar } rest
    else
      if st.level == 0 then .stop (.err "An open parenthesis while the stack is empty")
      else .cont { st.pushChild "" with level := st.level + 1, prevTok := some .openpar } rest
  | .closepar =>
    match st.pop with
    | none => .stop (.err "Closing parenthesis while the stack is already empty")
    | some st' => .cont { st' with level := st.level - 1, prevTok := some .closepar, stale := false } rest
  | .openbrack =>
    match consumeComment C rest [] with
    | none => .stop (.err "unmatched bracket")
    | some (c, r2) =>
      let c := String.ofList c
      let st := { st with stale := false }
      if st.prevTok == some .startlen && !st.edgeNil then
        .cont { st.addEdgeComment c with prevTok := some .closebrack } r2
      else if st.prevTok == some .startlen && st.edgeNil && !st.nodeNil then
        .cont { st.addNodeComment c with prevTok := some .closebrack } r2
      else if (st.prevTok == some .closepar || st.prevTok == some .ident || st.prevTok == some .numeric ||
               st.prevTok == some .closebrack) && !st.nodeNil then
        .cont { st.addNodeComment c with prevTok := some .closebrack } r2
      else .stop (.err "comment should not be located here")
  | .closebrack => .stop (.err "mismatched ] here")
  | .startlen =>
    let s := scanIW C rest
    if s.1 ≠ .numeric then .stop (.err "no numeric value after ':'")
    else if !st.nodeNil && st.level != 0 then
      if st.edgeNil then .stop (.err "Edge length should not be located here")
      else if st.topLen != NIL then .stop (.err "More than one length is given")
      else match C.parse s.2.1 with
        | none => .stop (.unrep "non-finite length")
        | some v => .cont { st.setLen v with prevTok := some .startlen, stale := false } s.2.2
    else if st.level == 0 then .cont { st with prevTok := some .startlen } s.2.2
    else .stop (.err "Cannot assign length to nil node")
  | .newsibling =>
    match st.pop with
    | none => .stop (.err "Stack is empty, a coma should not be located here")
    | some st' => .cont { st' with prevTok := some .newsibling, stale := false } rest
  | .ident | .numeric =>
    if st.prevTok == some .closepar then
      if tok == .numeric then
        if st.level == 0 || st.edgeNil then .cont st rest
        else match C.parse lit with
          | none => .stop (.unrep "non-finite support")
          | some v => .cont { st.setSup v with stale := false } rest
      else
        let named (st : PState) : Iter :=
          if st.nodeNil then .stop (.err "Cannot assign node name to nil node")
          else .cont (st.setName (String.ofList lit)) rest
        match splitSlash lit with
        | [a, b] =>
          if st.edgeNil then named st
          else if !C.isFloat a then named { st with stale := true }
          else if !C.isFloat b then named { st with stale := true }
          else match C.parse a, C.parse b with
            | some s, some p => .cont { (st.setSup s).setPval p with stale := false } rest
            | _, _ => .stop (.unrep "non-finite support or p-value")
        | _ => named st
    else
      if st.prevTok != some .openpar && st.prevTok != some .newsibling then
        .stop (.err "There should not be a tip name in this context")
      else if st.nodeNil then .stop (.err "Cannot create a new tip with no parent")
      else .cont { st.pushChild (String.ofList lit) with prevTok := some tok } rest
  | .eot =>
    if st.level != 0 then .stop (.err "Mismatched parenthesis at ;")
    else if st.stale then .stop (.err "strconv.ParseFloat: invalid syntax")
    else .stop (.ok ({ st with prevTok := some .eot }, pos))
  | .eof =>
    if st.stale then .stop (.err "strconv.ParseFloat: invalid syntax")
    else .stop (.ok ({ st with prevTok := some .eof }, rest))
  | .ws | .illegal => .cont st rest

theorem iter_le (C : Codec) (st : PState) (tok : Tok) (lit pos rest : List Char) (st' : PState) (r' : List Char)
    (h : iter C st tok lit pos rest = .cont st' r') : r'.length ≤ rest.length := by
  have hs := scanIW_le C rest
  unfold iter at h
  split at h
  all_goals (try simp only [] at h)
  all_goals repeat' split at h
  all_goals first
    | (cases h; done)
    | (cases h; first | exact Nat.le_refl _ | exact hs | (rename_i hc; exact consumeComment_le C _ _ _ _ _ (Nat.le_refl _) hc))
    | skip

/-- The `for` loop of parseIter.  Returns the final state and the input position at which `Parse`
    goes on (before the `;` that was unscanned, or the empty rest at EOF). -/
def run (C : Codec) (st : PState) (inp : List Char) : Outcome (PState × List Char) :=
  match hi : iter C st (scanIW C inp).1 (scanIW C inp).2.1 (skipWs C inp) (scanIW C inp).2.2 with
  | .stop o => o
  | .cont st' r' =>
    if h : (scanIW C inp).1 = .eof then .err "unreachable: EOF always stops"   -- `iter … .eof …` is a `stop`
    else run C st' r'
termination_by inp.length
decreasing_by
  have h1 := iter_le C st _ _ _ _ st' r' hi
  have h2 := scanIW_lt C inp h
  omega

/- ## strings.TrimSpace -/

/-- `unicode.IsSpace` -/
def isSpaceGo (c : Char) : Bool :=
  let n := c.toNat
  n == 0x20 || (0x09 ≤ n && n ≤ 0x0D) || n == 0x85 || n == 0xA0 || n == 0x1680 ||
  (0x2000 ≤ n && n ≤ 0x200A) || n == 0x2028 || n == 0x2029 || n == 0x202F || n == 0x205F || n == 0x3000

def trimSpace (s : String) : String :=
  String.ofList ((s.toList.dropWhile isSpaceGo).reverse.dropWhile isSpaceGo).reverse

/- `for _, tip := range newtree.Tips() { tip.SetName(strings.TrimSpace(tip.Name())) }` below the root -/
mutual
def trimLeaves : T → T
  | .node d p [] => .node { d with name := trimSpace d.name } p []
  | .node d p (k :: ks) => .node d p (trimLeavesL (k :: ks))
def trimLeavesL : Kids → Kids
  | [] => []
  | (e, t) :: r => (e, trimLeaves t) :: trimLeavesL r
end

/-- the same from the root: the root is a tip iff it has exactly one neighbour -/
def trimTips : T → T
  | .node d p k => .node (if k.length == 1 then { d with name := trimSpace d.name } else d) p (trimLeavesL k)

/-- `Parser.Parse` -/
def parse (C : Codec) (inp : List Char) : Outcome T :=
  -- May have information inside [] before the tree
  let s0 := scanIW C inp
  let start : Option (List Char) :=        -- the position of the token that must be "("
    if s0.1 = .openbrack then
      match consumeComment C s0.2.2 [] with
      | none => none
      | some (_, r) => some r
    else some inp
  match start with
  | none => .err "unmatched bracket"
  | some inp1 =>
    if (scanIW C inp1).1 ≠ .openpar then .err "found …, expected ("
    else
      -- p.unscan(): parseIter re-reads the "("
      match run C {} (skipWs C inp1) with
      | .err m => .err m
      | .panic m => .panic m
      | .unrep m => .unrep m
      | .ok (st, rest) =>
        if st.level != 0 then .err "mismatched parenthesis after parsing"
        else if (scanIW C rest).1 ≠ .eot then .err "found …, expected ;"
        else match st.result with
          | none => .panic "nil root in Tips()"
          | some t => .ok (trimTips t)

def parseStr (C : Codec) (s : String) : Outcome T := parse C s.toList

/- ## Writer (tree/node.go Node.Newick, tree/tree.go Tree.Newick) -/

def bracket (c : String) : List Char := '[' :: (c.toList ++ [']'])

def writeComments (cs : List String) : List Char := (cs.map bracket).flatten

/-- what follows `child.Newick(n, newick)` for one child: support(/p-value) if the child has no name,
    node comments, `:length`, branch comments -/
def writeDecor (C : Codec) (e : EdgeD) (d : NodeD) : List Char :=
  (if e.sup != NIL && d.name == "" then
     C.fmt e.sup ++ (if e.pval != NIL then '/' :: C.fmt e.pval else [])
   else []) ++
  writeComments d.comments ++
  (if e.len != NIL then ':' :: C.fmt e.len else []) ++
  writeComments e.comments

mutual
/-- `Node.Newick(parent, buf)`; `nonRoot` = the node has a parent among its neighbours -/
def writeNode (C : Codec) (nonRoot : Bool) : T → List Char
  | .node d _ kids =>
    let nneigh := kids.length + (if nonRoot then 1 else 0)
    -- `len(n.neigh) > 1 || parent == nil`, inside `if len(n.neigh) > 0` (fix 331c4ae: "(child)root;")
    let paren : Bool := decide (nneigh > 1) || (!nonRoot && decide (nneigh > 0))
    (if paren then ['('] else []) ++ writeKids C true kids ++ (if paren then [')'] else []) ++ d.name.toList
/-- the loop over the children; `first` = no child written yet (`nbchild == 0`) -/
def writeKids (C : Codec) (first : Bool) : Kids → List Char
  | [] => []
  | (e, t) :: r =>
    (if first then [] else [',']) ++ writeNode C true t ++ writeDecor C e t.d ++ writeKids C false r
end

/-- `Tree.Newick()` -/
def write (C : Codec) (t : T) : List Char :=
  writeNode C false t ++ writeComments t.d.comments ++ [';']

def writeStr (C : Codec) (t : T) : String := String.ofList (write C t)

/- ## Normal form of a re-read tree -/

mutual
/-- renumber the branches in creation (= pre-) order from `n`, reset `ppos`; returns the next id -/
def normFrom : Nat → T → T × Nat
  | n, .node d _ kids => let (k, n') := normFromL n kids; (.node d 0 k, n')
def normFromL : Nat → Kids → Kids × Nat
  | n, [] => ([], n)
  | n, (e, t) :: r =>
    let (t', n1) := normFrom (n + 1) t
    let (r', n2) := normFromL n1 r
    (({ e with id := (n : Int) }, t') :: r', n2)
end

/- ## One `Parser` used for several trees (a second `Parse()` on the same reader)

   After a successful `Parse` the unscan buffer is empty (the final `;` was read by
   `scanIgnoreWhitespace`), so the next call goes on right after that `;`. -/

theorem iter_stop_le (C : Codec) (st : PState) (tok : Tok) (lit pos rest : List Char) (st' : PState) (r : List Char)
    (h : iter C st tok lit pos rest = .stop (.ok (st', r))) : r = pos ∨ r = rest := by
  unfold iter at h
  split at h
  all_goals (try simp only [] at h)
  all_goals repeat' split at h
  all_goals first
    | (cases h; done)
    | (cases h; first | exact Or.inl rfl | exact Or.inr rfl)
    | skip

theorem run_le (C : Codec) : ∀ (n : Nat) (inp : List Char) (st st' : PState) (r : List Char), inp.length ≤ n →
    run C st inp = .ok (st', r) → r.length ≤ inp.length := by
  intro n
  induction n with
  | zero =>
    intro inp st st' r hn h
    rw [run] at h
    split at h
    · rename_i o ho
      subst h
      rcases iter_stop_le C st _ _ _ _ st' r ho with h1 | h1
      · rw [h1]; exact skipWs_le C inp
      · rw [h1]; exact scanIW_le C inp
    · split at h
      · cases h
      · rename_i hne
        have := scanIW_lt C inp hne
        omega
  | succ n ih =>
    intro inp st st' r hn h
    rw [run] at h
    split at h
    · rename_i o ho
      subst h
      rcases iter_stop_le C st _ _ _ _ st' r ho with h1 | h1
      · rw [h1]; exact skipWs_le C inp
      · rw [h1]; exact scanIW_le C inp
    · split at h
      · cases h
      · rename_i st2 r2 hi hne
        have h1 := iter_le C st _ _ _ _ st2 r2 hi
        have h2 := scanIW_lt C inp hne
        have := ih r2 st2 st' r (by omega) h
        omega

/-- `Parser.Parse`, returning also the input the reader is left at on success. -/
def parseR (C : Codec) (inp : List Char) : Outcome (T × List Char) :=
  let s0 := scanIW C inp
  let start : Option (List Char) :=
    if s0.1 = .openbrack then
      match consumeComment C s0.2.2 [] with
      | none => none
      | some (_, r) => some r
    else some inp
  match start with
  | none => .err "unmatched bracket"
  | some inp1 =>
    if (scanIW C inp1).1 ≠ .openpar then .err "found …, expected ("
    else
      match run C {} (skipWs C inp1) with
      | .err m => .err m
      | .panic m => .panic m
      | .unrep m => .unrep m
      | .ok (st, rest) =>
        if st.level != 0 then .err "mismatched parenthesis after parsing"
        else if (scanIW C rest).1 ≠ .eot then .err "found …, expected ;"
        else match st.result with
          | none => .panic "nil root in Tips()"
          | some t => .ok (trimTips t, (scanIW C rest).2.2)

theorem parseR_lt (C : Codec) (inp : List Char) (t : T) (r : List Char) (h : parseR C inp = .ok (t, r)) :
    r.length < inp.length := by
  unfold parseR at h
  simp only [] at h
  split at h
  · cases h
  · rename_i inp1 hstart
    have hinp1 : inp1.length ≤ inp.length := by
      split at hstart
      · split at hstart
        · cases hstart
        · rename_i c r2 hc
          cases hstart
          have := consumeComment_le C _ _ _ _ _ (Nat.le_refl _) hc
          have := scanIW_le C inp
          omega
      · cases hstart; exact Nat.le_refl _
    split at h
    · cases h
    · split at h
      · cases h
      · cases h
      · cases h
      · rename_i st rest hrun
        split at h
        · cases h
        · split at h
          · cases h
          · rename_i heot
            split at h
            · cases h
            · cases h
              have h1 := run_le C _ _ _ _ _ (Nat.le_refl _) hrun
              have h2 := skipWs_le C inp1
              have h3 := scanIW_lt C rest (by
                intro he
                apply heot
                rw [he]
                decide)
              omega

/-- `Parse()` called again and again on the same Parser until it fails: the outcomes, the failure last. -/
def parseMany (C : Codec) (inp : List Char) : List (Outcome T) :=
  match h : parseR C inp with
  | .ok (t, r) => .ok t :: parseMany C r
  | .err m => [.err m]
  | .panic m => [.panic m]
  | .unrep m => [.unrep m]
termination_by inp.length
decreasing_by exact parseR_lt C inp t r h

/- ## `Parser.More` (3850fd2) and the loop of `ReadMultiTrees` over one line

   `More` reads the next non-blank token and unscans it: nothing is consumed but the leading blanks
   (the buffered token is re-read by the next `scanIgnoreWhitespace`, same mode), so it is a test on the
   input, and the reader stands at `skipWs` afterwards. -/

/-- `p.More()`: is anything but white space left -/
def more (C : Codec) (inp : List Char) : Bool := decide ((scanIW C inp).1 ≠ .eof)

/-- `for more := true; more; more = parser.More() { t, err := parser.Parse(); if err != nil { …; break }; … }`:
    the outcomes in order; an error is the last one. -/
def parseWhileMore (C : Codec) (inp : List Char) : List (Outcome T) :=
  match h : parseR C inp with
  | .ok (t, r) => .ok t :: (if more C r then parseWhileMore C (skipWs C r) else [])
  | .err m => [.err m]
  | .panic m => [.panic m]
  | .unrep m => [.unrep m]
termination_by inp.length
decreasing_by
  have h1 := parseR_lt C inp t r h
  have h2 := skipWs_le C r
  omega

/- ## The scanner before fix 6ae5e49 (defect F1), kept as a variant for the regression theorem

   `var eof = rune(0)`: `read()` answered NUL at the end of the input, so a NUL *in* the input was taken for
   the end: `Scan` returned EOF on it, and the loops of scanIdent / scanWhitespace stopped on it WITHOUT
   unreading it. -/

/-- drop the NUL the old loops swallowed when they stopped on it -/
def dropNul : List Char → List Char
  | c :: r => if c == '\x00' then r else c :: r
  | [] => []

def scanPinned (C : Codec) (ign : Bool) : List Char → Tok × List Char × List Char
  | [] => (.eof, [], [])
  | c :: r =>
    if c == '\x00' then (.eof, [], r)
    else if isWhitespace c then
      (.ws, c :: r.takeWhile isWhitespace, dropNul (r.dropWhile isWhitespace))
    else if c == '(' then (.openpar, [c], r)
    else if c == ')' then (.closepar, [c], r)
    else if c == '[' then (.openbrack, [c], r)
    else if c == ']' then (.closebrack, [c], r)
    else if c == ',' then (.newsibling, [c], r)
    else if c == ';' && !ign then (.eot, [c], r)
    else if c == ':' then (.startlen, [c], r)
    else
      let p := fun x => isIdent ign x && x != '\x00'
      let lit := c :: r.takeWhile p
      (if C.isFloat lit then .numeric else .ident, lit, dropNul (r.dropWhile p))

/- ## The writer before fix 331c4ae, kept as a variant for the regression theorem:
   parentheses only when `len(n.neigh) > 1`, so a root with a single neighbour was written "childroot;" -/
mutual
def writeNodePinned (C : Codec) (nonRoot : Bool) : T → List Char
  | .node d _ kids =>
    let nneigh := kids.length + (if nonRoot then 1 else 0)
    (if nneigh > 1 then ['('] else []) ++ writeKidsPinned C true kids ++ (if nneigh > 1 then [')'] else []) ++ d.name.toList
def writeKidsPinned (C : Codec) (first : Bool) : Kids → List Char
  | [] => []
  | (e, t) :: r =>
    (if first then [] else [',']) ++ writeNodePinned C true t ++ writeDecor C e t.d ++ writeKidsPinned C false r
end

def writePinned (C : Codec) (t : T) : List Char :=
  writeNodePinned C false t ++ writeComments t.d.comments ++ [';']

end Gotree.Newick

/-- what `Parse(Newick(t))` is expected to return: `ppos` 0 everywhere, branch ids in pre-order -/
def Gotree.T.normIds (t : Gotree.T) : Gotree.T := (Gotree.Newick.normFrom 0 t).1
