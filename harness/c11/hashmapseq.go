package c11

// C11.hmseq: a HISTORY of calls on one hashmap.HashMap (PutValue with fresh and with already stored
// keys, Value, Keys, KeyValues; initial capacities that are not powers of two, several load factors,
// colliding hash codes), executed by one goroutine while `threads-1` other goroutines read the map
// (Value / Keys / KeyValues).  The answers of the writer do not depend on the readers; they are
// compared with an association list (oracle) and with the statement-by-statement model of
// hashmap.go (Lean `Gotree.C11.HM`), whose Keys() ORDER is reported as fidelity.
//
// Request: kind hmseq, flags "<capacity>,<lfNum>,<lfDen>,<mod>", items = calls `p:k:v` | `g:k` | `K` | `V`.
// Records: one answer per call, each followed by ";": `u` | `v<int>` | `absent` | `K<key>.<key>.…` |
// `V<key>=<value>.…` (a nil cell is `nil.`) | `panic` (the history stops there).

import (
	"fmt"
	"strconv"
	"strings"
	"sync"
	"sync/atomic"

	"verifharness/core"

	"github.com/evolbioinfo/gotree/hashmap"
)

func runHashMapSeq(r request) (res result) {
	res.Took = -1
	var capacity, lfNum, lfDen, mod int
	if _, err := fmt.Sscanf(r.Flags, "%d,%d,%d,%d", &capacity, &lfNum, &lfDen, &mod); err != nil || lfDen == 0 {
		return result{Outcome: "crash:" + core.Escape("harness: bad hmseq flags "+r.Flags), Took: -1}
	}
	hm := hashmap.NewHashMap(uint64(capacity), float64(lfNum)/float64(lfDen))
	var stop int32
	var wg sync.WaitGroup
	for g := 1; g < r.Threads; g++ {
		wg.Add(1)
		go func(g int) {
			defer wg.Done()
			for i := 0; atomic.LoadInt32(&stop) == 0 && i < 200000; i++ {
				switch (i + g) % 3 {
				case 0:
					hm.Value(intKey{(i * 7) % 37, mod})
				case 1:
					hm.Keys()
				default:
					hm.KeyValues()
				}
			}
		}(g)
	}
	var b strings.Builder
	for _, op := range r.Items {
		f := strings.Split(op, ":")
		ans, ok := func() (ans string, ok bool) {
			defer func() {
				if recover() != nil {
					ans, ok = "panic", false
				}
			}()
			switch {
			case f[0] == "p" && len(f) == 3:
				k, _ := strconv.Atoi(f[1])
				v, _ := strconv.Atoi(f[2])
				hm.PutValue(intKey{k, mod}, v)
				return "u", true
			case f[0] == "g" && len(f) == 2:
				k, _ := strconv.Atoi(f[1])
				if v, found := hm.Value(intKey{k, mod}); found {
					return fmt.Sprintf("v%v", v), true
				}
				return "absent", true
			case f[0] == "K":
				var s strings.Builder
				s.WriteString("K")
				for _, k := range hm.Keys() {
					if ik, isKey := k.(intKey); isKey {
						fmt.Fprintf(&s, "%d.", ik.k)
					} else {
						s.WriteString("nil.")
					}
				}
				return s.String(), true
			case f[0] == "V":
				var s strings.Builder
				s.WriteString("V")
				for _, kv := range hm.KeyValues() {
					if kv == nil {
						s.WriteString("nil.")
					} else if ik, isKey := kv.Key.(intKey); isKey {
						fmt.Fprintf(&s, "%d=%v.", ik.k, kv.Value)
					} else {
						s.WriteString("nil.")
					}
				}
				return s.String(), true
			}
			return "badop", false
		}()
		b.WriteString(ans)
		b.WriteByte(';')
		if !ok {
			break
		}
	}
	atomic.StoreInt32(&stop, 1)
	wg.Wait()
	return result{Outcome: "ok", Records: b.String(), Took: -1}
}

// genHashMapSeq draws the histories: a small key universe (so that keys are put again), capacities that
// are not powers of two, load factors on both sides of 1, hash codes with few distinct values.
func genHashMapSeq(c *core.Ctx, cfg *config) []request {
	g := c.G
	nh := c.Scale(14, 80)
	if cfg.ncoll > 0 && cfg.ncoll <= 5 {
		nh = 3 // the small race pass of the quick tier
	}
	var reqs []request
	for i := 0; i < nh; i++ {
		capacity := []int{0, 1, 2, 3, 5, 8, 16, 6}[g.Intn(8)]
		lf := [][2]int{{3, 4}, {1, 2}, {1, 1}, {2, 1}, {1, 4}, {3, 4}, {3, 2}, {2, 1}}[g.Intn(8)]
		mod := []int{0, 0, 3, 7}[g.Intn(4)]
		universe := 2 + g.Intn(35)
		nops := 4 + g.Intn(90)
		if i%5 == 0 {
			nops = 1 + g.Intn(6)
		}
		var ops []string
		for j := 0; j < nops; j++ {
			switch x := g.Intn(20); {
			case x < 11:
				ops = append(ops, fmt.Sprintf("p:%d:%d", g.Intn(universe), g.Intn(1000)-200))
			case x < 16:
				ops = append(ops, fmt.Sprintf("g:%d", g.Intn(universe+2)))
			case x < 18:
				ops = append(ops, "K")
			default:
				ops = append(ops, "V")
			}
		}
		ops = append(ops, "K", "V")
		for _, th := range []int{1, 3} {
			reqs = append(reqs, request{Kind: "hmseq", Threads: th, Flags: fmt.Sprintf("%d,%d,%d,%d", capacity, lf[0], lf[1], mod), Ref: "-", Items: ops})
		}
	}
	return reqs
}
