/-
  C01 — simulation: the literal node-stack machine (Model/C01Lit.lean) and the functional machine
  (`Newick.iter` / `Newick.run`) compute the same thing from the initial state.  Core Lean only.
-/
import Gotree.Model.C01Lit
import Gotree.Lemmas.C01

set_option linter.unusedSimpArgs false

namespace Gotree.Newick.Lit
open Gotree Gotree.Newick

def eraseF (f : LFrame) : Frame := ⟨f.d, f.e.getD EdgeD.blank, f.kids⟩

/-- forget the two variables and the nil-ness of the stored edges -/
def erase (l : LState) : PState := ⟨l.stack.map eraseF, l.level, l.prevTok, l.nedges, l.done, l.stale⟩

def eraseO : Outcome (LState × List Char) → Outcome (PState × List Char)
  | .ok (l, r) => .ok (erase l, r)
  | .err m => .err m
  | .panic m => .panic m
  | .unrep m => .unrep m

def eraseIter : IterL → Iter
  | .cont l r => .cont (erase l) r
  | .stop o => .stop (eraseO o)

/-- only the bottom element was pushed with a nil edge -/
def Shape : List LFrame → Prop
  | [] => True
  | [f] => f.e = none
  | f :: p :: r => (∃ e, f.e = some e) ∧ Shape (p :: r)

/-- the invariant: the variables are what `Head()` would answer, and `Shape` -/
def Inv (l : LState) : Prop :=
  l.nodeNil = l.stack.isEmpty ∧ l.edgeNil = decide (l.stack.length ≤ 1) ∧ Shape l.stack

theorem inv_init : Inv {} := ⟨rfl, rfl, trivial⟩

theorem iter_sim (C : Codec) (l : LState) (tok : Tok) (lit pos rest : List Char) (h : Inv l) :
    eraseIter (iterL C l tok lit pos rest) = iter C (erase l) tok lit pos rest := by
  obtain ⟨stack, nn, en, L, pt, n, dn, sb⟩ := l
  obtain ⟨h1, h2, h3⟩ := h
  simp only at h1 h2 h3
  cases stack with
  | nil =>
    simp at h1 h2
    rw [h1, h2]
    cases tok <;> simp only [iterL, iter, erase, LState.pop, PState.pop, PState.nodeNil, PState.edgeNil,
      LState.pushRoot, PState.pushRoot, List.map_nil, List.isEmpty_nil, List.length_nil, Nat.zero_le, decide_true, if_true]
    all_goals (repeat' split)
    all_goals simp_all [eraseF, eraseIter, eraseO, erase]
  | cons f rest' =>
    cases rest' with
    | nil =>
      simp [Shape] at h1 h2 h3
      rw [h1, h2]
      obtain ⟨fd, fe, fk⟩ := f
      simp only at h3
      subst h3
      cases tok <;> simp only [iterL, iter, erase, LState.pop, PState.pop, PState.nodeNil, PState.edgeNil,
        LState.pushRoot, PState.pushRoot, LState.pushChild, PState.pushChild, eraseF, LState.headVars, LFrame.toT, Frame.toT,
        LState.topLen, PState.topLen, LState.modTop, PState.modTop, LState.addNodeComment, PState.addNodeComment,
        LState.setName, PState.setName, List.map_cons, List.map_nil, List.isEmpty_cons, List.length_cons, List.length_nil]
      all_goals (repeat' split)
      all_goals simp_all [eraseF, eraseIter, eraseO, erase]
    | cons p r =>
      simp [Shape] at h1 h2 h3
      rw [h1, h2]
      obtain ⟨fd, fe, fk⟩ := f
      obtain ⟨⟨e, he⟩, _⟩ := h3
      simp only at he
      subst he
      cases tok <;> simp only [iterL, iter, erase, LState.pop, PState.pop, PState.nodeNil, PState.edgeNil,
        LState.pushRoot, PState.pushRoot, LState.pushChild, PState.pushChild, eraseF, LState.headVars, LFrame.toT, Frame.toT,
        LState.topLen, PState.topLen, LState.modTop, PState.modTop, LState.addNodeComment, PState.addNodeComment,
        LState.setName, PState.setName, LState.onEdge, LState.addEdgeComment, PState.addEdgeComment, LState.setLen, PState.setLen,
        LState.setSup, PState.setSup, LState.setPval, PState.setPval,
        List.map_cons, List.map_nil, List.isEmpty_cons, List.length_cons, List.length_nil, Option.getD_some, Option.map_some,
        List.length_map, show ¬ (r.length + 1 + 1 ≤ 1) from by omega, decide_false, Bool.not_false, Bool.not_true,
        Bool.false_eq_true, Bool.true_and, Bool.and_true, if_false, if_true, Bool.or_false, Bool.and_false]
      all_goals (repeat' split)
      all_goals (try (simp [eraseF, eraseIter, eraseO, erase]; done))
      all_goals (try (simp_all only [reduceCtorEq, Option.some.injEq]; done))
      all_goals (try (simp_all [eraseF, eraseIter, eraseO, erase]; done))
      all_goals (simp only [*, if_false, if_true, Bool.false_eq_true])
      all_goals (repeat' split)
      all_goals (simp_all [eraseF, eraseIter, eraseO, erase])

theorem shape_tail (f : LFrame) (s : List LFrame) (h : Shape (f :: s)) : Shape s := by
  cases s with
  | nil => trivial
  | cons p r => exact h.2

/-- the variables after `Head()` satisfy the invariant on any well-shaped stack -/
theorem inv_headVars (l : LState) (h : Shape l.stack) : Inv l.headVars := by
  obtain ⟨stack, nn, en, L, pt, n, dn, sb⟩ := l
  simp only at h
  cases stack with
  | nil => exact ⟨rfl, rfl, trivial⟩
  | cons f s =>
    cases s with
    | nil =>
      simp only [Shape] at h
      simp [Inv, LState.headVars, Shape, h]
    | cons p r =>
      obtain ⟨⟨e, he⟩, h2⟩ := h
      simp [Inv, LState.headVars, Shape, he, h2]

theorem inv_pop (l l' : LState) (h : Inv l) (hp : l.pop = some l') : Inv l' := by
  obtain ⟨stack, nn, en, L, pt, n, dn, sb⟩ := l
  obtain ⟨-, -, h3⟩ := h
  simp only at h3
  cases stack with
  | nil => simp [LState.pop] at hp
  | cons f s =>
    have hs := shape_tail f s h3
    simp only [LState.pop] at hp
    split at hp
    · cases hp
      exact inv_headVars _ hs
    · split at hp
      · rename_i p r2
        cases hp
        apply inv_headVars
        simp only []
        cases r2 with
        | nil => exact hs
        | cons q r3 => exact ⟨hs.1, hs.2⟩
      · cases hp
        exact inv_headVars _ trivial

theorem inv_pushChild (l : LState) (name : String) (h : Inv l) (hn : l.nodeNil = false) : Inv (l.pushChild name) := by
  obtain ⟨stack, nn, en, L, pt, n, dn, sb⟩ := l
  obtain ⟨h1, _, h3⟩ := h
  simp only at h1 h3 hn
  cases stack with
  | nil => simp [hn] at h1
  | cons f s => simp [Inv, LState.pushChild, Shape, h3]

theorem inv_pushRoot (l : LState) (h : Inv l) (hn : l.nodeNil = true) : Inv l.pushRoot := by
  obtain ⟨stack, nn, en, L, pt, n, dn, sb⟩ := l
  obtain ⟨h1, h2, h3⟩ := h
  simp only at h1 h2 h3 hn
  cases stack with
  | nil => simp at h2; simp [Inv, LState.pushRoot, Shape, h2]
  | cons f s => simp [hn] at h1

theorem inv_modTop (l : LState) (g : LFrame → LFrame) (hg : ∀ f, (g f).e.isSome = f.e.isSome) (h : Inv l) :
    Inv (l.modTop g) := by
  obtain ⟨stack, nn, en, L, pt, n, dn, sb⟩ := l
  obtain ⟨h1, h2, h3⟩ := h
  simp only at h1 h2 h3
  cases stack with
  | nil => exact ⟨h1, h2, h3⟩
  | cons f s =>
    refine ⟨by simpa [LState.modTop] using h1, by simpa [LState.modTop] using h2, ?_⟩
    simp only [LState.modTop]
    have := hg f
    cases s with
    | nil =>
      simp only [Shape] at h3 ⊢
      rw [h3] at this
      cases hx : (g f).e with
      | none => rfl
      | some x => rw [hx] at this; cases this
    | cons p r =>
      obtain ⟨⟨e, he⟩, h4⟩ := h3
      refine ⟨?_, h4⟩
      rw [he] at this
      cases hx : (g f).e with
      | none => rw [hx] at this; cases this
      | some x => exact ⟨x, rfl⟩

theorem inv_fields (l : LState) (L : Int) (pt : Option Tok) (sb : Bool) (h : Inv l) :
    Inv { l with level := L, prevTok := pt, stale := sb } := h

theorem isSome_map {α} (g : α → α) (o : Option α) : (o.map g).isSome = o.isSome := by cases o <;> rfl

theorem inv_onEdge (l : LState) (g : EdgeD → EdgeD) (h : Inv l) : Inv (l.onEdge g) :=
  inv_modTop l _ (fun f => isSome_map g f.e) h

theorem iter_inv (C : Codec) (l : LState) (tok : Tok) (lit pos rest : List Char) (l' : LState) (r : List Char)
    (hinv : Inv l) (h : iterL C l tok lit pos rest = .cont l' r) : Inv l' := by
  have hst : Inv { l with stale := false } := hinv
  have hst' : Inv { l with stale := true } := hinv
  unfold iterL at h
  split at h
  all_goals (try simp only [] at h)
  all_goals repeat' split at h
  all_goals first
    | (cases h; done)
    | (cases h
       first
        | exact hinv
        | exact inv_pushRoot _ hinv (by simp_all)
        | exact inv_pushChild _ _ hinv (by simp_all)
        | (rename_i st' hpop; have := inv_pop l st' hinv hpop; exact this)
        | exact inv_modTop _ _ (fun f => by first | rfl | exact isSome_map _ _) hinv
        | exact inv_modTop _ _ (fun f => by first | rfl | exact isSome_map _ _) hst
        | exact inv_modTop _ _ (fun f => by first | rfl | exact isSome_map _ _) hst'
        | exact inv_onEdge _ _ hinv
        | exact inv_onEdge _ _ hst
        | exact inv_onEdge _ _ (inv_onEdge _ _ hinv)
        | exact inv_onEdge _ _ (inv_onEdge _ _ hst))

/- ## the loops -/

theorem runL_cont (C : Codec) (st : LState) (inp : List Char) (st' : LState) (r' : List Char)
    (h : iterL C st (scanIW C inp).1 (scanIW C inp).2.1 (skipWs C inp) (scanIW C inp).2.2 = .cont st' r')
    (hne : (scanIW C inp).1 ≠ .eof) : runL C st inp = runL C st' r' := by
  rw [runL]
  split
  · rename_i o ho; rw [h] at ho; cases ho
  · rename_i s2 r2 ho
    rw [h] at ho; cases ho
    simp [hne]

theorem runL_stop (C : Codec) (st : LState) (inp : List Char) (o : Outcome (LState × List Char))
    (h : iterL C st (scanIW C inp).1 (scanIW C inp).2.1 (skipWs C inp) (scanIW C inp).2.2 = .stop o) :
    runL C st inp = o := by
  rw [runL]
  split
  · rename_i o' ho; rw [h] at ho; cases ho; rfl
  · rename_i s2 r2 ho
    rw [h] at ho; cases ho

theorem iterL_eof_stop (C : Codec) (st : LState) (lit pos rest : List Char) : ∃ o, iterL C st .eof lit pos rest = .stop o := by
  simp only [iterL]
  split
  · exact ⟨_, rfl⟩
  · exact ⟨_, rfl⟩

/-- The literal machine and the functional machine agree on every input, from every state satisfying the
    invariant. -/
theorem runL_sim (C : Codec) : ∀ (n : Nat) (inp : List Char) (l : LState), inp.length ≤ n → Inv l →
    eraseO (runL C l inp) = run C (erase l) inp := by
  intro n
  induction n with
  | zero =>
    intro inp l hn hinv
    have hsim := iter_sim C l (scanIW C inp).1 (scanIW C inp).2.1 (skipWs C inp) (scanIW C inp).2.2 hinv
    cases hL : iterL C l (scanIW C inp).1 (scanIW C inp).2.1 (skipWs C inp) (scanIW C inp).2.2 with
    | stop o =>
      rw [hL] at hsim
      rw [runL_stop C l inp o hL, run_stop C (erase l) inp (eraseO o) hsim.symm]
    | cont l' r' =>
      by_cases he : (scanIW C inp).1 = .eof
      · rw [he] at hL
        obtain ⟨o, ho⟩ := iterL_eof_stop C l (scanIW C inp).2.1 (skipWs C inp) (scanIW C inp).2.2
        rw [ho] at hL; cases hL
      · have := scanIW_lt C inp he
        omega
  | succ n ih =>
    intro inp l hn hinv
    have hsim := iter_sim C l (scanIW C inp).1 (scanIW C inp).2.1 (skipWs C inp) (scanIW C inp).2.2 hinv
    cases hL : iterL C l (scanIW C inp).1 (scanIW C inp).2.1 (skipWs C inp) (scanIW C inp).2.2 with
    | stop o =>
      rw [hL] at hsim
      rw [runL_stop C l inp o hL, run_stop C (erase l) inp (eraseO o) hsim.symm]
    | cont l' r' =>
      by_cases he : (scanIW C inp).1 = .eof
      · rw [he] at hL
        obtain ⟨o, ho⟩ := iterL_eof_stop C l (scanIW C inp).2.1 (skipWs C inp) (scanIW C inp).2.2
        rw [ho] at hL; cases hL
      · rw [hL] at hsim
        have hlt := scanIW_lt C inp he
        have hle := iterL_le C l _ _ _ _ l' r' hL
        rw [runL_cont C l inp l' r' hL he, run_cont C (erase l) inp (erase l') r' hsim.symm he]
        exact ih r' l' (by omega) (iter_inv C l _ _ _ _ l' r' hinv hL)

/-- From the initial state of parseIter the two machines compute the same outcome (state up to the
    forgotten variables): the nil tests that `Newick.iter` derives from the shape of the stack are the
    tests on the variables `node` and `edge` of the code. -/
theorem runL_eq_run (C : Codec) (inp : List Char) : eraseO (runL C {} inp) = run C {} inp :=
  runL_sim C inp.length inp {} (Nat.le_refl _) inv_init

def addAccL (f : LFrame) (acc : Option (EdgeD × T)) : LFrame :=
  match acc with
  | none => f
  | some c => { f with kids := f.kids ++ [c] }

def addAccP (f : Frame) (acc : Option (EdgeD × T)) : Frame :=
  match acc with
  | none => f
  | some c => { f with kids := f.kids ++ [c] }

theorem unwindL_some (f : LFrame) (s : List LFrame) (acc : Option (EdgeD × T)) (e : EdgeD) (he : f.e = some e) :
    LState.unwind (f :: s) acc = LState.unwind s (some (e, (addAccL f acc).toT)) := by
  cases acc <;> simp [LState.unwind, addAccL, he]

theorem unwindL_none (f : LFrame) (s : List LFrame) (acc : Option (EdgeD × T)) (he : f.e = none) :
    LState.unwind (f :: s) acc = some (addAccL f acc).toT := by
  cases acc <;> simp [LState.unwind, addAccL, he]

theorem unwindP_cons (f : Frame) (s : List Frame) (acc : Option (EdgeD × T)) :
    PState.unwind (f :: s) acc = PState.unwind s (some ((addAccP f acc).e, (addAccP f acc).toT)) := by
  cases acc <;> simp [PState.unwind, addAccP]

theorem addAcc_toT (f : LFrame) (acc : Option (EdgeD × T)) : (addAccP (eraseF f) acc).toT = (addAccL f acc).toT := by
  cases acc <;> simp [addAccP, addAccL, eraseF, LFrame.toT, Frame.toT]

theorem addAcc_e (f : LFrame) (acc : Option (EdgeD × T)) : (addAccP (eraseF f) acc).e = f.e.getD EdgeD.blank := by
  cases acc <;> simp [addAccP, eraseF]

theorem unwind_sim : ∀ (s : List LFrame) (f : LFrame) (acc : Option (EdgeD × T)), Shape (f :: s) →
    LState.unwind (f :: s) acc = PState.unwind (eraseF f :: s.map eraseF) acc := by
  intro s
  induction s with
  | nil =>
    intro f acc hs
    simp only [Shape] at hs
    rw [unwindL_none f [] acc hs, List.map_nil, unwindP_cons, addAcc_toT]
    simp [PState.unwind]
  | cons p r ih =>
    intro f acc hs
    obtain ⟨⟨e, he⟩, hs2⟩ := hs
    rw [unwindL_some f (p :: r) acc e he, List.map_cons, unwindP_cons, addAcc_toT, addAcc_e, he]
    exact ih p _ hs2

/-- … and they deliver the same tree. -/
theorem result_sim (l : LState) (h : Inv l) : l.result = (erase l).result := by
  obtain ⟨stack, nn, en, L, pt, n, dn, sb⟩ := l
  obtain ⟨-, -, h3⟩ := h
  simp only at h3
  cases stack with
  | nil => rfl
  | cons f s =>
    simp only [LState.result, PState.result, erase, List.map_cons]
    exact unwind_sim s f none h3

theorem iterL_stop_inv (C : Codec) (l : LState) (tok : Tok) (lit pos rest : List Char) (l' : LState) (r : List Char)
    (hinv : Inv l) (h : iterL C l tok lit pos rest = .stop (.ok (l', r))) : Inv l' := by
  unfold iterL at h
  split at h
  all_goals (try simp only [] at h)
  all_goals repeat' split at h
  all_goals first
    | (cases h; done)
    | (cases h; exact hinv)

theorem runL_inv (C : Codec) : ∀ (n : Nat) (inp : List Char) (l l' : LState) (r : List Char), inp.length ≤ n → Inv l →
    runL C l inp = .ok (l', r) → Inv l' := by
  intro n
  induction n with
  | zero =>
    intro inp l l' r hn hinv h
    cases hL : iterL C l (scanIW C inp).1 (scanIW C inp).2.1 (skipWs C inp) (scanIW C inp).2.2 with
    | stop o =>
      rw [runL_stop C l inp o hL] at h
      subst h
      exact iterL_stop_inv C l _ _ _ _ l' r hinv hL
    | cont l2 r2 =>
      by_cases he : (scanIW C inp).1 = .eof
      · rw [he] at hL
        obtain ⟨o, ho⟩ := iterL_eof_stop C l (scanIW C inp).2.1 (skipWs C inp) (scanIW C inp).2.2
        rw [ho] at hL; cases hL
      · have := scanIW_lt C inp he
        omega
  | succ n ih =>
    intro inp l l' r hn hinv h
    cases hL : iterL C l (scanIW C inp).1 (scanIW C inp).2.1 (skipWs C inp) (scanIW C inp).2.2 with
    | stop o =>
      rw [runL_stop C l inp o hL] at h
      subst h
      exact iterL_stop_inv C l _ _ _ _ l' r hinv hL
    | cont l2 r2 =>
      by_cases he : (scanIW C inp).1 = .eof
      · rw [he] at hL
        obtain ⟨o, ho⟩ := iterL_eof_stop C l (scanIW C inp).2.1 (skipWs C inp) (scanIW C inp).2.2
        rw [ho] at hL; cases hL
      · have hlt := scanIW_lt C inp he
        have hle := iterL_le C l _ _ _ _ l2 r2 hL
        rw [runL_cont C l inp l2 r2 hL he] at h
        exact ih r2 l2 l' r (by omega) (iter_inv C l _ _ _ _ l2 r2 hinv hL) h

/-- `Parse` on the literal machine is `Newick.parse`. -/
theorem parseL_eq_parse (C : Codec) (inp : List Char) : parseL C inp = Newick.parse C inp := by
  unfold parseL Newick.parse
  simp only []
  generalize (if (scanIW C inp).1 = Tok.openbrack then
      (match consumeComment C (scanIW C inp).2.2 [] with
        | none => none
        | some (_, r) => some r)
    else some inp) = start
  cases start with
  | none => rfl
  | some inp1 =>
    simp only []
    by_cases hop : (scanIW C inp1).1 ≠ Tok.openpar
    · rw [if_pos hop, if_pos hop]
    · rw [if_neg hop, if_neg hop]
      have hsim := runL_eq_run C (skipWs C inp1)
      cases hr : runL C {} (skipWs C inp1) with
      | err m => rw [hr] at hsim; simp only [eraseO] at hsim; rw [← hsim]
      | panic m => rw [hr] at hsim; simp only [eraseO] at hsim; rw [← hsim]
      | unrep m => rw [hr] at hsim; simp only [eraseO] at hsim; rw [← hsim]
      | ok p =>
        obtain ⟨l', r⟩ := p
        rw [hr] at hsim; simp only [eraseO] at hsim; rw [← hsim]
        have hinv := runL_inv C _ _ _ l' r (Nat.le_refl _) inv_init hr
        simp only [result_sim l' hinv]
        rfl

end Gotree.Newick.Lit
