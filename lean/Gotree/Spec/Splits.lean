/-
  Shared Spec vocabulary: the *unrooted* view of a tree, computed from the split
  list only (DESIGN §3.1).  Used by the oracles of C05–C10, C15–C17.
  Core Lean only (linked into the driver).  Tip names are assumed unique
  wherever these functions are given a meaning by a theorem.
-/
import Gotree.Model.Core

namespace Gotree

def sortS (l : List String) : List String := l.mergeSort (fun a b => decide (a ≤ b))

/-- least element of a list of names -/
def minS : List String → Option String
  | [] => none
  | a :: r => some (r.foldl (fun m x => if x < m then x else m) a)

/-- `all \ side`, keeping the order of `all` -/
def complS (all side : List String) : List String := all.filter (fun x => !side.contains x)

/-- Canonical presentation of the split `side | all \ side`: the sorted side that
    does NOT contain the least taxon. -/
def canonSide (all side : List String) : List String :=
  let s := sortS (side.filter all.contains)
  match minS all with
  | none => s
  | some m => if s.contains m then sortS (complS all s) else s

/-- number of taxa on the lighter side -/
def lightSize (all side : List String) : Nat :=
  let k := (side.filter all.contains).length
  min k (all.length - k)

/-- An unrooted branch: canonical side, length, support (`NIL` = absent). -/
structure USplit where
  side : List String
  len : Rat
  sup : Rat
  deriving Repr, BEq, DecidableEq

/-- Fusing two branches that define the same split (the two root branches of a
    rooted tree, or the two branches around a suppressed degree-2 node):
    lengths add with absent = 0 unless both are absent, support = max with
    absent = -1 (so absent only if both are). -/
def fuseLen (a b : Rat) : Rat :=
  if a == NIL && b == NIL then NIL else (if a == NIL then 0 else a) + (if b == NIL then 0 else b)

def fuseSup (a b : Rat) : Rat := if a ≥ b then a else b

def insertU (s : USplit) : List USplit → List USplit
  | [] => [s]
  | x :: r => if x.side == s.side then { x with len := fuseLen x.len s.len, sup := fuseSup x.sup s.sup } :: r
              else x :: insertU s r

/-- All branches of the tree as unrooted splits over the tree's leaves
    (`all` = names of the tips, the root included when it is a tip), fused by
    canonical side, sorted by side. -/
def T.usplitsAll (t : T) : List USplit :=
  let all := t.tipNames
  let l := t.splits.foldl (fun acc s => insertU ⟨canonSide all s.below, s.e.len, s.e.sup⟩ acc) []
  l.mergeSort (fun a b => decide (toString a.side ≤ toString b.side))

/-- The non-trivial ones (both sides have at least two taxa). -/
def T.usplits (t : T) : List USplit :=
  t.usplitsAll.filter (fun s => 2 ≤ lightSize t.tipNames s.side)

/-- Just the non-trivial split set (canonical sides). -/
def T.usplitSet (t : T) : List (List String) := t.usplits.map (·.side)

/-- The trivial ones (tip branches), as (tip, length). -/
def T.tipLens (t : T) : List (List String × Rat) :=
  (t.usplitsAll.filter (fun s => lightSize t.tipNames s.side ≤ 1)).map (fun s => (s.side, s.len))

/-- Distance matrix over the sorted tip names (absent length = 0). -/
def T.distMatrix (t : T) : List String × List (List Rat) :=
  let tips := sortS t.tipNames
  (tips, tips.map fun a => tips.map fun b => if a == b then 0 else t.dist a b)

/-- Restriction of a split set to a subset `keep` of the taxa: canonical sides
    over `keep`, trivial ones dropped, duplicates removed, sorted. -/
def restrictSplits (all keep : List String) (sides : List (List String)) : List (List String) :=
  let k := all.filter keep.contains
  let r := sides.map (fun s => canonSide k (s.filter k.contains))
  let r := r.filter (fun s => 2 ≤ lightSize k s)
  (r.eraseDups).mergeSort (fun a b => decide (toString a ≤ toString b))

/-- Sorted, duplicate-free presentation of a split set (for comparisons). -/
def canonSet (sides : List (List String)) : List (List String) :=
  (sides.eraseDups).mergeSort (fun a b => decide (toString a ≤ toString b))

/-- Root-to-tip distance (absent length = 0): sum over the entries containing the tip. -/
def T.rootDist (t : T) (a : String) : Rat :=
  (t.splits.map fun s => if s.below.contains a then s.e.lenOr0 else 0).sum

/-- Unique tip names. -/
def T.uniqueTips (t : T) : Bool := t.tipNames.eraseDups.length == t.tipNames.length

/- No single-child inner node (the root may have any degree ≠ 1). -/
mutual
def T.noSingleBelow : T → Bool
  | .node _ _ k => k.length != 1 && noSingleL k
def noSingleL : Kids → Bool
  | [] => true
  | (_, t) :: r => t.noSingleBelow && noSingleL r
end

def T.noSingle (t : T) : Bool := noSingleL t.kids

/- Every inner node has exactly two children; the root two or three. -/
mutual
def T.binaryBelow : T → Bool
  | .node _ _ k => (k.length == 0 || k.length == 2) && binaryL k
def binaryL : Kids → Bool
  | [] => true
  | (_, t) :: r => t.binaryBelow && binaryL r
end

def T.binary (t : T) : Bool := (t.kids.length == 2 || t.kids.length == 3) && binaryL t.kids

end Gotree
