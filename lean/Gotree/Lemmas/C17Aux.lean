/-
  C17 — small helpers used by the property theorems.
-/
import Gotree.Lemmas.C17Sim
import Gotree.Spec.C17

namespace Gotree.C17
open Gotree

/-- what `Apply` keeps, for every proposed rearrangement (helper for the next theorems) -/
theorem apply_RK (t t' : T) (r : NNI) (hpos : pposOK t = true) (h : r ∈ rearrangements t)
    (ha : apply t r = some t') : RK t t' := by
  obtain ⟨S, hs, hP⟩ := rearrangements_generic
    (fun S r => ∀ S', applyLocal r.path.isEmpty r S = some S' → RK S S')
    (by
      intro path isRoot d1 p1 k1 j e d2 p2 u v cross site
      have hr : (newNNI path isRoot p1 j p2 cross).path.isEmpty = isRoot := by
        simp [newNNI, site.root]
      rw [hr]
      exact local_RK d1 cross site)
    t hpos r h
  exact RK.lift _ r.path t t' S hs ha hP

theorem mem_of_diffCount_one {A B : Spec.SplitSet} (h : Spec.diffCount A B = 1) : ∃ a, a ∈ A ∧ a ∉ B := by
  unfold Spec.diffCount at h
  match hf : A.filter (fun s => !B.contains s), h with
  | [a], _ =>
    have : a ∈ A.filter (fun s => !B.contains s) := by rw [hf]; simp
    simp only [List.mem_filter, Bool.not_eq_true', List.contains_eq_mem, decide_eq_false_iff_not] at this
    exact ⟨a, this.1, this.2⟩

theorem eq_of_diffCount_one {A B : Spec.SplitSet} (h : Spec.diffCount A B = 1) {a b : List String}
    (ha : a ∈ A) (ha' : a ∉ B) (hb : b ∈ A) (hb' : b ∉ B) : a = b := by
  unfold Spec.diffCount at h
  have ma : a ∈ A.filter (fun s => !B.contains s) := by simp [ha, ha']
  have mb : b ∈ A.filter (fun s => !B.contains s) := by simp [hb, hb']
  match hf : A.filter (fun s => !B.contains s), h with
  | [x], _ =>
    rw [hf] at ma mb
    simp only [List.mem_singleton] at ma mb
    rw [ma, mb]

/-- a VARIANT of `applyH` that forgets to invert the central branch when the swapped neighbour
    of n1 is its parent (not the code: used only to show that "the heap is oriented away from the
    root", which is part of `apply t r = some t'`, is a real condition) -/
def applyHNoInverse (h : Heap) (cross : Bool) : Option Heap :=
  match h.ng1.idx .b with
  | none => none
  | some n12index =>
  let n22node : Ref := if cross then .c else .d
  match h.ng2.idx n22node with
  | none => none
  | some n22index => some { h with ng1 := h.ng1.set n12index n22node, ng2 := h.ng2.set n22index .b }

def applyNoInverse (t : T) (r : NNI) : Option T :=
  modAt r.path (fun S =>
    match extract S r.path.isEmpty r false with
    | none => none
    | some h =>
      match applyHNoInverse h r.cross with
      | none => none
      | some h' => if h'.oriented then some (rebuild h') else none) t

end Gotree.C17
