/-
  C14 (round 7) — the `-l` value of `gotree brlen cut` beyond the decimal spellings.

  pflag's Float64 value is `strconv.ParseFloat(s, 64)`, which also accepts `inf`, `infinity` (any case, optional
  sign) and `nan` (any case, NO sign): the command then runs with `cutlengthmax = ±Inf / NaN`.  `Model/C14Cli.lean`
  said "anything else is rejected": wrong for these spellings (found by reading strconv/atof.go `special` and by
  running the binary).  Hexadecimal floats (`0x1p-1`) and digit separators (`1_0`) are accepted by ParseFloat too;
  they are NOT modelled: the driver neither ties nor judges such a request (tag `l-unmodelled`).

  Core Lean only.
-/
import Gotree.Model.C14Cli

namespace Gotree.C14.Cli
open Gotree Gotree.C14 Gotree.C14.Go

inductive Thr where
  | fin (q : Rat)
  | pinf
  | ninf
  | nan
  deriving Repr, DecidableEq

def lowerS (s : String) : String := String.ofList (s.toList.map Char.toLower)

/-- `special` of strconv/atof.go: an optional sign then `inf` or `infinity`; `nan` without sign; any case;
    the whole text must be consumed (`infin` is a syntax error) -/
def parseSpecial (s : String) : Option Thr :=
  let l := lowerS s
  if l == "nan" then some .nan
  else
    let nb : Bool × String := match l.toList with
      | '-' :: r => (true, String.ofList r)
      | '+' :: r => (false, String.ofList r)
      | _ => (false, l)
    if nb.2 == "inf" || nb.2 == "infinity" then some (if nb.1 then .ninf else .pinf) else none

def parseThr (s : String) : Option Thr :=
  match parseSpecial s with
  | some t => some t
  | none => (parseDec s).map .fin

/-- spellings `ParseFloat` accepts that the model does not read: hexadecimal floats, digit separators -/
def unmodelledSpelling (s : String) : Bool :=
  s.toList.any fun c => c == 'x' || c == 'X' || c == '_' || c == 'p' || c == 'P'

def maxLen (t : T) : Rat := t.edges.foldl (fun m e => if e.len > m then e.len else m) 0
def minLen (t : T) : Rat := t.edges.foldl (fun m e => if e.len < m then e.len else m) (-1)

/-- the threshold as a rational for ONE tree: every `Length() < maxlen` of the cut has the truth value it has with
    the float — `+Inf` is above every length (and above the sentinel −1 of an absent one), `-Inf` and `NaN` make
    every comparison false -/
def Thr.forTree (t : T) : Thr → Rat
  | .fin q => q
  | .pinf => maxLen t + 1
  | .ninf => minLen t - 1
  | .nan => minLen t - 1

def cutEachThr (thr : Thr) : List InTree → Nat → String → CliOut
  | [], _, acc => ⟨0, acc, ""⟩
  | .bad e :: _, _, acc => ⟨1, acc, e⟩
  | .good t :: r, id, acc =>
    match cutGo (thr.forTree t) t with
    | .ok bags => cutEachThr thr r (id + 1) (acc ++ String.join (bags.map (bagLine id)))
    | .err e => ⟨1, acc, e⟩
    | .panic e => ⟨2, acc, e⟩

/-- `gotree brlen cut [-l <value>] -i <file>` with the special values of `ParseFloat`; identical to `cutCmd`
    on the decimal spellings -/
def cutCmdThr (lflag : Option String) (input : Except String (List InTree)) : CliOut :=
  let thr : Option Thr := match lflag with
    | none => some (.fin (1 / 2))
    | some s => parseThr s
  match thr with
  | none =>
    let v := lflag.getD ""
    ⟨1, "", "invalid argument \"" ++ v ++ "\" for \"-l, --max-length\" flag: strconv.ParseFloat: parsing \"" ++ v ++ "\": invalid syntax"⟩
  | some thr =>
    match input with
    | .error path => ⟨1, "", "open " ++ path ++ ": no such file or directory"⟩
    | .ok trees => cutEachThr thr trees 0 ""

/-! ### round 7b: hexadecimal floats and digit separators (strconv `readFloat`, `underscoreOK`) -/

def dropSign : List Char → List Char
  | '-' :: r => r
  | '+' :: r => r
  | cs => cs

def hasHexPrefix (cs : List Char) : Bool :=
  match dropSign cs with
  | '0' :: x :: _ => x == 'x' || x == 'X'
  | _ => false

def hexDigit? (c : Char) : Option Nat :=
  if c.isDigit then some (c.toNat - 48)
  else if 'a' ≤ c ∧ c ≤ 'f' then some (c.toNat - 87)
  else if 'A' ≤ c ∧ c ≤ 'F' then some (c.toNat - 55)
  else none

/-- `underscoreOK` of strconv/atoi.go: an underscore must separate digits (the base prefix counts as a digit);
    state `0` = digit, `1` = underscore, `2` = other, `3` = start -/
def underscoreLoop (hex : Bool) : List Char → Nat → Bool
  | [], st => st != 1
  | c :: r, st =>
    if c.isDigit || (hex && (hexDigit? c).isSome) then underscoreLoop hex r 0
    else if c == '_' then (if st != 0 then false else underscoreLoop hex r 1)
    else if st == 1 then false
    else underscoreLoop hex r 2

def underscoreOK (cs : List Char) : Bool :=
  match dropSign cs with
  | '0' :: x :: r =>
    if x == 'x' || x == 'X' || x == 'b' || x == 'B' || x == 'o' || x == 'O' then underscoreLoop true r 0
    else underscoreLoop false ('0' :: x :: r) 3
  | r => underscoreLoop false r 3

def decNat? (cs : List Char) : Option Nat :=
  if cs.isEmpty || !cs.all Char.isDigit then none else some (cs.foldl (fun n c => 10 * n + (c.toNat - 48)) 0)

def hexNat? (cs : List Char) : Option Nat :=
  cs.foldl (fun acc c => match acc, hexDigit? c with | some n, some d => some (16 * n + d) | _, _ => none) (some 0)

/-- `[sign] 0x hex[.hex] p [sign] dec` (the exponent is mandatory); the value is exact: mantissa · 2^exp.
    `none` also for what the model does not read exactly (more than 13 hex digits, |exp| > 1000) -/
def parseHex (cs : List Char) : Option Rat :=
  let neg := cs.head? == some '-'
  match dropSign cs with
  | '0' :: _ :: body =>
    match body.span (fun c => c != 'p' && c != 'P') with
    | (_, []) => none
    | (mant, _ :: ex) =>
      let ip := mant.takeWhile (· != '.')
      let fp := (mant.dropWhile (· != '.')).drop 1
      let eneg := ex.head? == some '-'
      if (ip.isEmpty && fp.isEmpty) || fp.contains '.' || ip.length + fp.length > 13 then none else
      match hexNat? (ip ++ fp), decNat? (dropSign ex) with
      | some m, some e =>
        if e > 1000 then none else
        let e2 : Int := (if eneg then -(e : Int) else (e : Int)) - 4 * (fp.length : Int)
        let q : Rat := if e2 ≥ 0 then (m : Rat) * ((2 ^ e2.toNat : Nat) : Rat) else (m : Rat) / ((2 ^ (-e2).toNat : Nat) : Rat)
        some (if neg then -q else q)
      | _, _ => none
  | _ => none

/-- the `-l` text as `strconv.ParseFloat` reads it: as `parseThr` (decimals, inf, nan) when it has neither an
    underscore nor a `0x` prefix; otherwise the underscores must pass `underscoreOK` and are dropped, and a `0x`
    text is a hexadecimal float -/
def parseThrX (s : String) : Option Thr :=
  let cs := s.toList
  if !cs.contains '_' && !hasHexPrefix cs then parseThr s
  else if cs.contains '_' && !underscoreOK cs then none
  else
    let cs' := cs.filter (· != '_')
    if hasHexPrefix cs' then (parseHex cs').map .fin else parseThr (String.ofList cs')

/-- accepted by ParseFloat but read inexactly or not at all by the model: long hexadecimal mantissas, huge exponents -/
def unmodelledSpellingX (s : String) : Bool :=
  let cs := s.toList.filter (· != '_')
  (hasHexPrefix cs && (parseHex cs).isNone && (cs.any fun c => c == 'p' || c == 'P') &&
    (cs.length > 17 || (cs.reverse.takeWhile Char.isDigit).length > 3))

def cutCmdThrX (lflag : Option String) (input : Except String (List InTree)) : CliOut :=
  let thr : Option Thr := match lflag with
    | none => some (.fin (1 / 2))
    | some s => parseThrX s
  match thr with
  | none =>
    let v := lflag.getD ""
    ⟨1, "", "invalid argument \"" ++ v ++ "\" for \"-l, --max-length\" flag: strconv.ParseFloat: parsing \"" ++ v ++ "\": invalid syntax"⟩
  | some thr =>
    match input with
    | .error path => ⟨1, "", "open " ++ path ++ ": no such file or directory"⟩
    | .ok trees => cutEachThr thr trees 0 ""

end Gotree.C14.Cli
