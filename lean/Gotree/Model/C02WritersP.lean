/-
  C02 — the writers one level lower, with their index expressions as explicit panic sites.

  In the Go structures a node holds TWO slices, `neigh` and `br`, and the writers index the second with positions
  of the first (`n.br[i]` in Node.Newick, `n.Edges()[i]` in phyloxml.writeClade).  A tree value `T` cannot express
  a node whose slices differ in length, so the models of Model/C02Writers.lean have no panic site.  Here a node
  `P` keeps the children and the branches to them as two SEPARATE lists; indexing past the end of `brs` is the
  outcome `panic`.  `P.ofT` is the structure `Tree.ConnectNodes` builds (it appends to both slices at once — the
  only way the readers add a neighbour); on it the writers are proved never to panic and to write exactly what the
  `T`-level models write (Lemmas/C02WritersP.lean).
-/
import Gotree.Model.C02Writers
import Gotree.Model.C02

namespace Gotree.C02.Writers
open Gotree

/-- a node with its children and the branches to them in two lists (`neigh` / `br` without the parent's slot,
    which stands at the same position of both) -/
inductive P where
  | node (d : NodeD) (kids : List P) (brs : List EdgeD)

def P.d : P → NodeD
  | .node d _ _ => d

mutual
/-- what `ConnectNodes` builds for a tree value -/
def P.ofT : T → P
  | .node d _ k => .node d (P.ofKids k) (brsOf k)
def P.ofKids : Kids → List P
  | [] => []
  | (_, t) :: r => P.ofT t :: P.ofKids r
def brsOf : Kids → List EdgeD
  | [] => []
  | (e, _) :: r => e :: brsOf r
end

def idxPanic : String := "index out of range"

mutual
/-- `writeClade(n, prev, e, buf, level)`: `nextedge := n.Edges()[i]` for every neighbour `i` other than `prev` -/
def pxNodeP (lvl : Nat) (above : Option EdgeD) : P → Res (List PxLine)
  | .node d kids brs =>
    let isTip : Bool := kids.length + (if above.isSome then 1 else 0) == 1
    match pxKidsP (lvl + 1) kids brs with
    | .ok ls => .ok (PxLine.opn lvl :: (pxContent lvl above isTip d ++ (ls ++ [PxLine.cls lvl])))
    | .err m => .err m
    | .panic m => .panic m
def pxKidsP (lvl : Nat) : List P → List EdgeD → Res (List PxLine)
  | [], _ => .ok []
  | _ :: _, [] => .panic idxPanic              -- n.Edges()[i] with i ≥ len(n.br)
  | k :: ks, e :: es =>
    match pxNodeP lvl (some e) k with
    | .ok l =>
      (match pxKidsP lvl ks es with
       | .ok r => .ok (l ++ r)
       | .err m => .err m
       | .panic m => .panic m)
    | .err m => .err m
    | .panic m => .panic m
end

open Gotree.Newick in
mutual
/-- `Node.Newick(parent, buf)`: `n.br[i]` for every neighbour `i` other than the parent -/
def writeNodeP (C : Codec) (nonRoot : Bool) : P → Res (List Char)
  | .node d kids brs =>
    let nneigh := kids.length + (if nonRoot then 1 else 0)
    let paren : Bool := decide (nneigh > 1) || (!nonRoot && decide (nneigh > 0))
    match writeKidsP C true kids brs with
    | .ok ks => .ok ((if paren then ['('] else []) ++ ks ++ (if paren then [')'] else []) ++ d.name.toList)
    | .err m => .err m
    | .panic m => .panic m
def writeKidsP (C : Codec) (first : Bool) : List P → List EdgeD → Res (List Char)
  | [], _ => .ok []
  | _ :: _, [] => .panic idxPanic              -- n.br[i] with i ≥ len(n.br)
  | k :: ks, e :: es =>
    match writeNodeP C true k with
    | .ok w =>
      (match writeKidsP C false ks es with
       | .ok r => .ok ((if first then [] else [',']) ++ w ++ writeDecor C e k.d ++ r)
       | .err m => .err m
       | .panic m => .panic m)
    | .err m => .err m
    | .panic m => .panic m
end

/-- `Tree.Newick()` on the pointer-level structure -/
def newickP (p : P) : Res (List Char) :=
  match writeNodeP Gotree.Newick.goCodec false p with
  | .ok w => .ok (w ++ Gotree.Newick.writeComments p.d.comments ++ [';'])
  | .err m => .err m
  | .panic m => .panic m

end Gotree.C02.Writers
