package c11

// extract.go — table (b) of DESIGN §4.1 for C11: a go/parser + go/types (source importer) pass over
// tree/algo.go, support/*.go and io/utils/readtrees.go that writes lean/Gotree/Gen/C11Goroutines.lean.
//
// For every `go func` literal:
//   - the writes to variables captured from outside the literal (assignments, op-assignments, ++/--,
//     sync/atomic calls), each with the synchronisation that dominates it: a sync.Mutex/RWMutex write
//     lock held (Lock … Unlock in the same statement sequence, or Lock + defer Unlock), an atomic call,
//     an element of a shared slice indexed by something computed from the item received from the
//     ranged-over channel, or nothing.  Calls are followed (depth ≤ 3) into closures of the enclosing
//     function and into functions/methods of the parsed packages (tree, support, io/utils, hashmap)
//     when a captured variable flows into them (receiver or argument); what is not followed and
//     involves a captured variable is listed under `unfollowed`;
//   - every exit path of the worker (end of the `for … range ch` loop, each `return` and each `break`
//     out of the loop inside its body) with whether `wg.Done()` is reached (directly or by defer);
//   - channel sends, closes (with "a wg.Wait() precedes"), and whether it calls wg.Wait().
//
// Limits (trusted, cross-checked by the race detector and the watchdog of the runner): writes through
// local aliases other than `x := shared…`/range values, writes to package-level variables inside
// callees, and interface-method calls are not analysed.

import (
	"fmt"
	"go/ast"
	"go/build"
	"go/importer"
	"go/parser"
	"go/token"
	"go/types"
	"os"
	"path/filepath"
	"sort"
	"strings"
)

type xWrite struct {
	Var, How, Sync string
	Line           int
}

// xAccess: one read or write of a captured variable by a goroutine.  Form: whole (the variable itself),
// elem (an element), field, deref.
type xAccess struct {
	Var, Form string
	Write     bool
	Sync      string
	Line      int
}
type xExit struct {
	Kind string
	Line int
	Done bool
}
type xChan struct {
	Name string
	Line int
	Wait bool
}
type xGo struct {
	File, Fn   string
	Line       int
	RangesOver string
	Counted    bool
	Exits      []xExit
	Writes     []xWrite
	Sends      []xChan
	Closes     []xChan
	Waits      bool
	Unfollowed []string
	Accesses   []xAccess
	Multi      bool  // started inside a loop: several instances run concurrently
	Main       bool  // not a goroutine: the part of the enclosing function that runs while its goroutines run
	AddOK      bool  // a wg.Add accounts for this worker before it starts
	RetNoClose []int // `return` statements located before the close(ch) this goroutine is responsible for
}

// filled by extractGoroutines: the exported methods of *hashmap.HashMap
var hmMethods []*xGo

type fnDecl struct {
	decl *ast.FuncDecl
	info *types.Info
}

type extractor struct {
	fset  *token.FileSet
	decls map[string]*fnDecl // by types.Func.FullName()
}

// root of the tracked object a value was derived from
type root struct {
	name  string
	item  bool // derived from the item received from the ranged-over channel
	param bool // a parameter of a callee bound to the variable: assigning the parameter itself is local
}

type walkCtx struct {
	x       *extractor
	info    *types.Info
	g       *xGo
	tracked map[types.Object]root
	held    map[string]bool
	via     string
	depth   int
	chain   map[string]bool
	enc     *ast.FuncDecl // enclosing function of the go statement (for closures)
	encInfo *types.Info
	waited  *bool
	top     bool // statements of the goroutine itself (not of a callee)
	lit     *ast.FuncLit
	pkgPath string
}

func (c *walkCtx) clone() *walkCtx {
	d := *c
	d.held = map[string]bool{}
	for k, v := range c.held {
		d.held[k] = v
	}
	return &d
}

func exprStr(e ast.Expr) string {
	switch v := e.(type) {
	case *ast.Ident:
		return v.Name
	case *ast.SelectorExpr:
		return exprStr(v.X) + "." + v.Sel.Name
	case *ast.StarExpr:
		return "*" + exprStr(v.X)
	case *ast.UnaryExpr:
		return v.Op.String() + exprStr(v.X)
	case *ast.IndexExpr:
		return exprStr(v.X) + "[" + exprStr(v.Index) + "]"
	case *ast.CallExpr:
		return exprStr(v.Fun) + "()"
	case *ast.ParenExpr:
		return exprStr(v.X)
	}
	return "?"
}

// rootIdent returns the identifier an lvalue / argument is rooted at, and the index expressions met.
func rootIdent(e ast.Expr) (*ast.Ident, []ast.Expr, string) {
	var idx []ast.Expr
	form := "assign"
	for {
		switch v := e.(type) {
		case *ast.Ident:
			// innermost index first
			for i, j := 0, len(idx)-1; i < j; i, j = i+1, j-1 {
				idx[i], idx[j] = idx[j], idx[i]
			}
			return v, idx, form
		case *ast.ParenExpr:
			e = v.X
		case *ast.StarExpr:
			if form == "assign" {
				form = "deref"
			}
			e = v.X
		case *ast.UnaryExpr:
			e = v.X
		case *ast.SelectorExpr:
			if form == "assign" {
				form = "field"
			}
			e = v.X
		case *ast.IndexExpr:
			form = "elem"
			idx = append(idx, v.Index)
			e = v.X
		case *ast.SliceExpr:
			e = v.X
		case *ast.TypeAssertExpr:
			e = v.X
		default:
			return nil, idx, form
		}
	}
}

func (c *walkCtx) obj(id *ast.Ident) types.Object {
	if o := c.info.Uses[id]; o != nil {
		return o
	}
	return c.info.Defs[id]
}

// itemDerived: the expression mentions a variable derived from the received item
func (c *walkCtx) itemDerived(e ast.Expr) bool {
	found := false
	ast.Inspect(e, func(n ast.Node) bool {
		if id, ok := n.(*ast.Ident); ok {
			if r, ok := c.tracked[c.obj(id)]; ok && r.item {
				found = true
			}
		}
		return !found
	})
	return found
}

func (c *walkCtx) anyHeld() bool {
	for k, v := range c.held {
		if v && !strings.HasPrefix(k, "r:") {
			return true
		}
	}
	return false
}

// readHeld: some lock (write or read) is held
func (c *walkCtx) readHeld() bool {
	for _, v := range c.held {
		if v {
			return true
		}
	}
	return false
}

func accessForm(form string) string {
	switch form {
	case "elem", "field", "deref":
		return form
	}
	return "whole"
}

// recordRead: a read of the lvalue chain e (x, x.f, x[i], *x …) rooted at a tracked variable.
func (c *walkCtx) recordRead(e ast.Expr) {
	id, idx, form := rootIdent(e)
	if id == nil {
		return
	}
	r, ok := c.tracked[c.obj(id)]
	if !ok || r.name == "" {
		return
	}
	sync := "none"
	switch {
	case c.readHeld():
		sync = "mutex"
	case len(idx) > 0 && c.itemDerived(idx[0]):
		sync = "itemIndexed"
	}
	c.g.Accesses = append(c.g.Accesses, xAccess{Var: r.name, Form: accessForm(form), Sync: sync, Line: c.x.fset.Position(e.Pos()).Line})
}

func (c *walkCtx) how(form string) string {
	if c.via != "" {
		return form + " via " + c.via
	}
	return form
}

func (c *walkCtx) recordWrite(lhs ast.Expr, pos token.Pos, form0 string) {
	id, idx, form := rootIdent(lhs)
	if id == nil {
		return
	}
	if form0 != "" && form == "assign" {
		form = form0
	}
	r, ok := c.tracked[c.obj(id)]
	if !ok || r.item && r.name == "" {
		return
	}
	if r.name == "" {
		return
	}
	if r.param && accessForm(form) == "whole" {
		return // assigning a parameter changes the callee's copy only
	}
	sync := "none"
	switch {
	case c.anyHeld():
		sync = "mutex"
	case len(idx) > 0 && c.itemDerived(idx[0]):
		sync = "itemIndexed"
	}
	c.g.Writes = append(c.g.Writes, xWrite{Var: r.name, How: c.how(form), Sync: sync, Line: c.x.fset.Position(pos).Line})
	c.g.Accesses = append(c.g.Accesses, xAccess{Var: r.name, Form: accessForm(form), Write: true, Sync: sync, Line: c.x.fset.Position(pos).Line})
}

func isNamed(t types.Type, pkg, name string) bool {
	if p, ok := t.(*types.Pointer); ok {
		t = p.Elem()
	}
	n, ok := t.(*types.Named)
	if !ok || n.Obj().Pkg() == nil {
		return false
	}
	return n.Obj().Pkg().Path() == pkg && n.Obj().Name() == name
}

// calleeOf resolves the statically known callee of a call.
func (c *walkCtx) calleeOf(call *ast.CallExpr) (*types.Func, ast.Expr) {
	switch f := call.Fun.(type) {
	case *ast.Ident:
		if fn, ok := c.info.Uses[f].(*types.Func); ok {
			return fn, nil
		}
	case *ast.SelectorExpr:
		if sel, ok := c.info.Selections[f]; ok {
			if fn, ok := sel.Obj().(*types.Func); ok {
				return fn, f.X
			}
		}
		if fn, ok := c.info.Uses[f.Sel].(*types.Func); ok {
			return fn, nil // package-qualified function
		}
	}
	return nil, nil
}

func (c *walkCtx) involvesTracked(call *ast.CallExpr, recv ast.Expr) []string {
	var names []string
	add := func(e ast.Expr) {
		id, _, _ := rootIdent(e)
		if id == nil {
			return
		}
		if r, ok := c.tracked[c.obj(id)]; ok && r.name != "" {
			// only reference-like values can be written through
			if tv, ok := c.info.Types[e]; ok {
				switch tv.Type.Underlying().(type) {
				case *types.Pointer, *types.Slice, *types.Map, *types.Chan, *types.Interface, *types.Signature:
					names = append(names, r.name)
				}
			}
		}
	}
	if recv != nil {
		// a method with pointer receiver can write the receiver even when it is addressable value
		id, _, _ := rootIdent(recv)
		if id != nil {
			if r, ok := c.tracked[c.obj(id)]; ok && r.name != "" {
				names = append(names, r.name)
			}
		}
	}
	for _, a := range call.Args {
		add(a)
	}
	return names
}

// handleCall: lock bookkeeping, WaitGroup, close, atomic, and following of callees.
func (c *walkCtx) handleCall(call *ast.CallExpr, deferred bool) {
	line := c.x.fset.Position(call.Pos()).Line
	// function literals passed as arguments are run by this goroutine
	for _, a := range call.Args {
		if fl, ok := a.(*ast.FuncLit); ok {
			d := c.clone()
			d.walkBlock(fl.Body.List)
		}
	}
	if id, ok := call.Fun.(*ast.Ident); ok {
		if _, isB := c.info.Uses[id].(*types.Builtin); isB {
			if id.Name == "close" && len(call.Args) == 1 {
				c.g.Closes = append(c.g.Closes, xChan{Name: exprStr(call.Args[0]), Line: line, Wait: *c.waited})
			}
			return
		}
		if _, isT := c.info.Uses[id].(*types.TypeName); isT {
			return
		}
		// a closure of the enclosing function
		if v, ok := c.info.Uses[id].(*types.Var); ok {
			if fl := c.findClosure(v); fl != nil {
				if c.depth >= 3 || c.chain[id.Name] {
					c.g.Unfollowed = append(c.g.Unfollowed, id.Name+" (depth)")
					return
				}
				d := c.clone()
				d.info = c.encInfo
				d.depth++
				d.top = false
				d.via = strings.TrimPrefix(c.via+"/"+id.Name, "/")
				d.chain = map[string]bool{id.Name: true}
				for k := range c.chain {
					d.chain[k] = true
				}
				// parameters of the closure bound to tracked / item-derived arguments
				d.tracked = map[types.Object]root{}
				for k, v := range c.tracked {
					d.tracked[k] = v
				}
				// variables the closure captures from the enclosing function are shared too
				ast.Inspect(fl.Body, func(n ast.Node) bool {
					if cid, ok := n.(*ast.Ident); ok {
						if cv, ok := c.encInfo.Uses[cid].(*types.Var); ok && !cv.IsField() && c.lit != nil &&
							!(cv.Pos() >= c.lit.Pos() && cv.Pos() < c.lit.End()) && !(cv.Pos() >= fl.Pos() && cv.Pos() < fl.End()) &&
							cv.Pkg() != nil && cv.Pkg().Path() == c.pkgPath {
							if _, known := d.tracked[cv]; !known {
								d.tracked[cv] = root{name: cv.Name()}
							}
						}
					}
					return true
				})
				d.bindParams(fl.Type.Params, nil, nil, call, c)
				d.walkBlock(fl.Body.List)
				return
			}
			if names := c.involvesTracked(call, nil); len(names) > 0 || c.isTrackedIdent(id) {
				c.g.Unfollowed = append(c.g.Unfollowed, fmt.Sprintf("%s(…) line %d", id.Name, line))
			}
			return
		}
	}
	fn, recv := c.calleeOf(call)
	if fn == nil {
		if _, isConv := c.info.Types[call.Fun]; isConv && c.info.Types[call.Fun].IsType() {
			return
		}
		if names := c.involvesTracked(call, nil); len(names) > 0 {
			c.g.Unfollowed = append(c.g.Unfollowed, fmt.Sprintf("%s(%s) line %d", exprStr(call.Fun), strings.Join(names, ","), line))
		}
		return
	}
	full := fn.FullName()
	switch full {
	case "(*sync.Mutex).Lock", "(*sync.RWMutex).Lock":
		if recv != nil && !deferred {
			c.held[exprStr(recv)] = true
		}
		return
	case "(*sync.Mutex).Unlock", "(*sync.RWMutex).Unlock":
		if recv != nil && !deferred {
			c.held[exprStr(recv)] = false
		}
		return
	case "(*sync.RWMutex).RLock":
		if recv != nil && !deferred {
			c.held["r:"+exprStr(recv)] = true
		}
		return
	case "(*sync.RWMutex).RUnlock":
		if recv != nil && !deferred {
			c.held["r:"+exprStr(recv)] = false
		}
		return
	case "(*sync.WaitGroup).Wait":
		if c.top {
			c.g.Waits = true
		}
		if !deferred {
			*c.waited = true
		}
		return
	case "(*sync.WaitGroup).Done", "(*sync.WaitGroup).Add":
		return
	}
	if fn.Pkg() != nil && fn.Pkg().Path() == "sync/atomic" {
		if len(call.Args) > 0 && (strings.HasPrefix(fn.Name(), "Add") || strings.HasPrefix(fn.Name(), "Store") ||
			strings.HasPrefix(fn.Name(), "Swap") || strings.HasPrefix(fn.Name(), "CompareAndSwap")) {
			id, _, _ := rootIdent(call.Args[0])
			if id != nil {
				if r, ok := c.tracked[c.obj(id)]; ok && r.name != "" {
					c.g.Writes = append(c.g.Writes, xWrite{Var: r.name, How: c.how("atomic." + fn.Name()), Sync: "atomic", Line: line})
					c.g.Accesses = append(c.g.Accesses, xAccess{Var: r.name, Form: "whole", Write: true, Sync: "atomic", Line: line})
				}
			}
		}
		if len(call.Args) > 0 && strings.HasPrefix(fn.Name(), "Load") {
			if id, _, _ := rootIdent(call.Args[0]); id != nil {
				if r, ok := c.tracked[c.obj(id)]; ok && r.name != "" {
					c.g.Accesses = append(c.g.Accesses, xAccess{Var: r.name, Form: "whole", Sync: "atomic", Line: line})
				}
			}
		}
		return
	}
	names := c.involvesTracked(call, recv)
	if len(names) == 0 {
		return
	}
	// a call through an interface: every method of that name declared in the parsed packages is a
	// possible callee (hashmap.Hasher is implemented by tree.Edge and tree.Quartet)
	if sig, isSig := fn.Type().(*types.Signature); isSig && sig.Recv() != nil {
		if _, isIface := sig.Recv().Type().Underlying().(*types.Interface); isIface {
			var cands []string
			for name, d := range c.x.decls {
				if d.decl.Recv != nil && d.decl.Name.Name == fn.Name() && d.decl.Body != nil &&
					d.decl.Type.Params.NumFields() == sig.Params().Len() {
					cands = append(cands, name)
				}
			}
			sort.Strings(cands)
			if len(cands) == 0 {
				c.g.Unfollowed = append(c.g.Unfollowed, fmt.Sprintf("%s(%s) interface", shortName(full), strings.Join(uniq(names), ",")))
				return
			}
			for _, name := range cands {
				c.follow(name, c.x.decls[name], recv, call, names)
			}
			return
		}
	}
	d, ok := c.x.decls[full]
	if !ok {
		c.g.Unfollowed = append(c.g.Unfollowed, fmt.Sprintf("%s(%s) external", shortName(full), strings.Join(uniq(names), ",")))
		return
	}
	c.follow(full, d, recv, call, names)
}

// follow analyses the body of a callee into which a tracked variable flows.
func (c *walkCtx) follow(full string, d *fnDecl, recv ast.Expr, call *ast.CallExpr, names []string) {
	if c.chain[full] {
		return // recursion: the body is already being analysed
	}
	if d.decl.Body == nil || c.depth >= 3 {
		c.g.Unfollowed = append(c.g.Unfollowed, fmt.Sprintf("%s(%s) depth", shortName(full), strings.Join(uniq(names), ",")))
		return
	}
	e := c.clone()
	e.info = d.info
	e.depth++
	e.top = false
	e.via = strings.TrimPrefix(c.via+"/"+shortName(full), "/")
	e.chain = map[string]bool{full: true}
	for k := range c.chain {
		e.chain[k] = true
	}
	e.tracked = map[types.Object]root{}
	e.bindParams(d.decl.Type.Params, d.decl.Recv, recv, call, c)
	e.walkBlock(d.decl.Body.List)
}

func (c *walkCtx) isTrackedIdent(id *ast.Ident) bool {
	r, ok := c.tracked[c.obj(id)]
	return ok && r.name != ""
}

func shortName(full string) string {
	full = strings.ReplaceAll(full, "github.com/evolbioinfo/gotree/", "")
	return full
}

func uniq(l []string) []string {
	sort.Strings(l)
	var out []string
	for i, s := range l {
		if i == 0 || s != l[i-1] {
			out = append(out, s)
		}
	}
	return out
}

// bindParams: in the callee, a parameter is tracked when the argument is rooted at a tracked variable.
func (e *walkCtx) bindParams(params *ast.FieldList, recvFL *ast.FieldList, recv ast.Expr, call *ast.CallExpr, caller *walkCtx) {
	bind := func(name *ast.Ident, arg ast.Expr) {
		po := e.info.Defs[name]
		if po == nil {
			return
		}
		id, _, _ := rootIdent(arg)
		r := root{}
		if id != nil {
			if cr, ok := caller.tracked[caller.obj(id)]; ok {
				r = cr
			}
		}
		if caller.itemDerived(arg) {
			r.item = true
		}
		r.param = true
		if r.name != "" || r.item {
			e.tracked[po] = r
		}
	}
	if recvFL != nil && recv != nil && len(recvFL.List) == 1 && len(recvFL.List[0].Names) == 1 {
		bind(recvFL.List[0].Names[0], recv)
	}
	i := 0
	if params != nil {
		for _, f := range params.List {
			for _, n := range f.Names {
				if i < len(call.Args) {
					bind(n, call.Args[i])
				}
				i++
			}
		}
	}
}

func (c *walkCtx) findClosure(v *types.Var) *ast.FuncLit {
	var out *ast.FuncLit
	if c.enc == nil {
		return nil
	}
	ast.Inspect(c.enc.Body, func(n ast.Node) bool {
		switch s := n.(type) {
		case *ast.AssignStmt:
			for i, l := range s.Lhs {
				if id, ok := l.(*ast.Ident); ok && i < len(s.Rhs) {
					if c.encInfo.Defs[id] == v || c.encInfo.Uses[id] == v {
						if fl, ok := s.Rhs[i].(*ast.FuncLit); ok {
							out = fl
						}
					}
				}
			}
		case *ast.ValueSpec:
			for i, id := range s.Names {
				if c.encInfo.Defs[id] == v && i < len(s.Values) {
					if fl, ok := s.Values[i].(*ast.FuncLit); ok {
						out = fl
					}
				}
			}
		}
		return true
	})
	return out
}

// callsIn handles every call inside an expression (not descending into function literals).
func (c *walkCtx) callsIn(e ast.Node) {
	if e == nil {
		return
	}
	ast.Inspect(e, func(n ast.Node) bool {
		switch v := n.(type) {
		case *ast.FuncLit:
			return false
		case *ast.CallExpr:
			c.handleCall(v, false)
			if fn, _ := c.calleeOf(v); fn != nil && fn.Pkg() != nil && fn.Pkg().Path() == "sync/atomic" {
				// the operand of an atomic call is not a plain read
				for _, a := range v.Args[min(1, len(v.Args)):] {
					c.callsIn(a)
				}
				return false
			}
		case *ast.UnaryExpr:
			if v.Op == token.AND { // &x: taking the address is not a read of x
				c.indexReads(v.X)
				return false
			}
		case *ast.Ident, *ast.SelectorExpr, *ast.IndexExpr, *ast.StarExpr:
			x := v.(ast.Expr)
			if sel, ok := x.(*ast.SelectorExpr); ok {
				if s, ok := c.info.Selections[sel]; ok && s.Kind() != types.FieldVal {
					x = sel.X // a method: its receiver is what is read
				} else if !ok {
					return true // package-qualified name
				}
			}
			if id, _, _ := rootIdent(x); id != nil {
				if r, ok := c.tracked[c.obj(id)]; ok && r.name != "" {
					c.recordRead(x)
					c.indexReads(x)
					return false
				}
			}
		}
		return true
	})
}

// indexReads scans the index expressions of an lvalue chain (they are evaluated, hence read).
func (c *walkCtx) indexReads(e ast.Expr) {
	_, idx, _ := rootIdent(e)
	for _, i := range idx {
		c.callsIn(i)
	}
}

func (c *walkCtx) walkBlock(list []ast.Stmt) {
	for _, s := range list {
		c.walkStmt(s)
	}
}

func (c *walkCtx) alias(lhs ast.Expr, rhs ast.Expr) {
	id, ok := lhs.(*ast.Ident)
	if !ok {
		return
	}
	o := c.info.Defs[id]
	if o == nil {
		return
	}
	r := root{}
	if rid, _, _ := rootIdent(rhs); rid != nil {
		if rr, ok := c.tracked[c.obj(rid)]; ok {
			switch o.Type().Underlying().(type) {
			case *types.Pointer, *types.Slice, *types.Map:
				r.name = rr.name
			}
		}
	}
	if c.itemDerived(rhs) {
		r.item = true
	}
	if r.name != "" || r.item {
		c.tracked[o] = r
	}
}

func (c *walkCtx) walkStmt(s ast.Stmt) {
	switch v := s.(type) {
	case *ast.ExprStmt:
		c.callsIn(v.X)
	case *ast.DeferStmt:
		c.handleCall(v.Call, true)
		for _, a := range v.Call.Args {
			c.callsIn(a)
		}
	case *ast.GoStmt:
		// a goroutine started by a goroutine: its own entry of the table
	case *ast.AssignStmt:
		for _, r := range v.Rhs {
			c.callsIn(r)
		}
		for i, l := range v.Lhs {
			if id, ok := l.(*ast.Ident); ok && v.Tok == token.DEFINE && c.info.Defs[id] != nil {
				if len(v.Rhs) == len(v.Lhs) {
					c.alias(l, v.Rhs[i])
				} else if len(v.Rhs) == 1 && c.itemDerived(v.Rhs[0]) {
					c.tracked[c.info.Defs[id]] = root{item: true}
				}
				continue
			}
			c.indexReads(l)
			c.recordWrite(l, v.Pos(), "")
		}
	case *ast.IncDecStmt:
		c.indexReads(v.X)
		c.recordWrite(v.X, v.Pos(), "incdec")
	case *ast.SendStmt:
		c.callsIn(v.Value)
		c.g.Sends = append(c.g.Sends, xChan{Name: exprStr(v.Chan), Line: c.x.fset.Position(v.Pos()).Line})
	case *ast.DeclStmt:
		if gd, ok := v.Decl.(*ast.GenDecl); ok {
			for _, sp := range gd.Specs {
				if vs, ok := sp.(*ast.ValueSpec); ok {
					for _, val := range vs.Values {
						c.callsIn(val)
					}
				}
			}
		}
	case *ast.BlockStmt:
		c.clone().walkBlock(v.List)
	case *ast.IfStmt:
		d := c.clone()
		if v.Init != nil {
			d.walkStmt(v.Init)
		}
		d.callsIn(v.Cond)
		d.clone().walkBlock(v.Body.List)
		if v.Else != nil {
			d.clone().walkStmt(v.Else)
		}
	case *ast.ForStmt:
		d := c.clone()
		if v.Init != nil {
			d.walkStmt(v.Init)
		}
		d.callsIn(v.Cond)
		if v.Post != nil {
			d.walkStmt(v.Post)
		}
		d.walkBlock(v.Body.List)
	case *ast.RangeStmt:
		d := c.clone()
		d.callsIn(v.X)
		if v.Tok == token.DEFINE {
			if tv, ok := c.info.Types[v.X]; ok {
				if _, isChan := tv.Type.Underlying().(*types.Chan); isChan {
					if id, ok := v.Key.(*ast.Ident); ok && c.info.Defs[id] != nil && c.top {
						d.tracked[c.info.Defs[id]] = root{item: true}
					}
				} else if v.Value != nil {
					d.alias(v.Value, v.X)
				}
			}
		} else {
			if v.Key != nil {
				d.recordWrite(v.Key, v.Pos(), "")
			}
			if v.Value != nil {
				d.recordWrite(v.Value, v.Pos(), "")
			}
		}
		d.walkBlock(v.Body.List)
	case *ast.SwitchStmt:
		d := c.clone()
		if v.Init != nil {
			d.walkStmt(v.Init)
		}
		d.callsIn(v.Tag)
		for _, cc := range v.Body.List {
			if cl, ok := cc.(*ast.CaseClause); ok {
				e := d.clone()
				for _, x := range cl.List {
					e.callsIn(x)
				}
				e.walkBlock(cl.Body)
			}
		}
	case *ast.TypeSwitchStmt:
		for _, cc := range v.Body.List {
			if cl, ok := cc.(*ast.CaseClause); ok {
				c.clone().walkBlock(cl.Body)
			}
		}
	case *ast.SelectStmt:
		for _, cc := range v.Body.List {
			if cl, ok := cc.(*ast.CommClause); ok {
				e := c.clone()
				if cl.Comm != nil {
					e.walkStmt(cl.Comm)
				}
				e.walkBlock(cl.Body)
			}
		}
	case *ast.LabeledStmt:
		c.walkStmt(v.Stmt)
	case *ast.ReturnStmt:
		for _, r := range v.Results {
			c.callsIn(r)
		}
	}
}

// ---- exits ------------------------------------------------------------------------------------------

func isDoneCall(info *types.Info, s ast.Stmt) bool {
	var call *ast.CallExpr
	switch v := s.(type) {
	case *ast.ExprStmt:
		call, _ = v.X.(*ast.CallExpr)
	case *ast.DeferStmt:
		call = v.Call
	}
	if call == nil {
		return false
	}
	sel, ok := call.Fun.(*ast.SelectorExpr)
	if !ok || sel.Sel.Name != "Done" {
		return false
	}
	if s, ok := info.Selections[sel]; ok {
		if fn, ok := s.Obj().(*types.Func); ok {
			return fn.FullName() == "(*sync.WaitGroup).Done"
		}
	}
	return false
}

func (x *extractor) exitsOf(info *types.Info, lit *ast.FuncLit, loop *ast.RangeStmt) []xExit {
	deferred := false
	after := false
	seenLoop := loop == nil
	for _, s := range lit.Body.List {
		if _, ok := s.(*ast.DeferStmt); ok && isDoneCall(info, s) {
			deferred = true
		}
		if s == ast.Stmt(loop) {
			seenLoop = true
			continue
		}
		if _, ok := s.(*ast.ExprStmt); ok && seenLoop && isDoneCall(info, s) {
			after = true
		}
	}
	line := func(p token.Pos) int { return x.fset.Position(p).Line }
	exits := []xExit{{Kind: "rangeEnd", Line: line(lit.Body.Rbrace), Done: deferred || after}}
	if loop == nil {
		return exits
	}
	// returns and breaks inside the loop body; doneBefore = a wg.Done() statement earlier in an enclosing block
	var walk func(list []ast.Stmt, doneBefore bool, breakable bool)
	var walkS func(s ast.Stmt, doneBefore bool, breakable bool)
	walk = func(list []ast.Stmt, doneBefore bool, breakable bool) {
		for _, s := range list {
			if _, ok := s.(*ast.ExprStmt); ok && isDoneCall(info, s) {
				doneBefore = true
			}
			walkS(s, doneBefore, breakable)
		}
	}
	walkS = func(s ast.Stmt, doneBefore bool, breakable bool) {
		switch v := s.(type) {
		case *ast.ReturnStmt:
			exits = append(exits, xExit{Kind: "ret", Line: line(v.Pos()), Done: deferred || doneBefore})
		case *ast.BranchStmt:
			if v.Tok == token.BREAK && (breakable || v.Label != nil) {
				exits = append(exits, xExit{Kind: "brk", Line: line(v.Pos()), Done: deferred || after})
			}
			if v.Tok == token.GOTO {
				exits = append(exits, xExit{Kind: "brk", Line: line(v.Pos()), Done: deferred})
			}
		case *ast.BlockStmt:
			walk(v.List, doneBefore, breakable)
		case *ast.IfStmt:
			walk(v.Body.List, doneBefore, breakable)
			if v.Else != nil {
				walkS(v.Else, doneBefore, breakable)
			}
		case *ast.ForStmt:
			walk(v.Body.List, doneBefore, false)
		case *ast.RangeStmt:
			walk(v.Body.List, doneBefore, false)
		case *ast.SwitchStmt:
			for _, cc := range v.Body.List {
				if cl, ok := cc.(*ast.CaseClause); ok {
					walk(cl.Body, doneBefore, false)
				}
			}
		case *ast.TypeSwitchStmt:
			for _, cc := range v.Body.List {
				if cl, ok := cc.(*ast.CaseClause); ok {
					walk(cl.Body, doneBefore, false)
				}
			}
		case *ast.SelectStmt:
			for _, cc := range v.Body.List {
				if cl, ok := cc.(*ast.CommClause); ok {
					walk(cl.Body, doneBefore, false)
				}
			}
		case *ast.LabeledStmt:
			walkS(v.Stmt, doneBefore, breakable)
		}
	}
	walk(loop.Body.List, false, true)
	return exits
}

// ---- driver -----------------------------------------------------------------------------------------

type pkgData struct {
	rel   string
	files []*ast.File
	info  *types.Info
}

func (x *extractor) load(repo, rel string, imp types.Importer, ctx *build.Context) (*pkgData, error) {
	dir := filepath.Join(repo, rel)
	ents, err := os.ReadDir(dir)
	if err != nil {
		return nil, err
	}
	p := &pkgData{rel: rel}
	for _, e := range ents {
		n := e.Name()
		if e.IsDir() || !strings.HasSuffix(n, ".go") || strings.HasSuffix(n, "_test.go") {
			continue
		}
		if ok, _ := ctx.MatchFile(dir, n); !ok {
			continue
		}
		f, err := parser.ParseFile(x.fset, filepath.Join(dir, n), nil, 0)
		if err != nil {
			return nil, err
		}
		p.files = append(p.files, f)
	}
	p.info = &types.Info{Types: map[ast.Expr]types.TypeAndValue{}, Uses: map[*ast.Ident]types.Object{},
		Defs: map[*ast.Ident]types.Object{}, Selections: map[*ast.SelectorExpr]*types.Selection{}}
	var firstErr error
	conf := types.Config{Importer: imp, Error: func(e error) {
		if firstErr == nil {
			firstErr = e
		}
	}}
	conf.Check("github.com/evolbioinfo/gotree/"+filepath.ToSlash(rel), x.fset, p.files, p.info)
	if firstErr != nil {
		return nil, fmt.Errorf("type-checking %s: %v", rel, firstErr)
	}
	for _, f := range p.files {
		for _, d := range f.Decls {
			if fd, ok := d.(*ast.FuncDecl); ok {
				if fn, ok := p.info.Defs[fd.Name].(*types.Func); ok {
					x.decls[fn.FullName()] = &fnDecl{decl: fd, info: p.info}
				}
			}
		}
	}
	return p, nil
}

func isWGCall(info *types.Info, s ast.Stmt, method string) (*ast.CallExpr, bool) {
	es, ok := s.(*ast.ExprStmt)
	if !ok {
		return nil, false
	}
	call, ok := es.X.(*ast.CallExpr)
	if !ok {
		return nil, false
	}
	sel, ok := call.Fun.(*ast.SelectorExpr)
	if !ok {
		return nil, false
	}
	if x, ok := info.Selections[sel]; ok {
		if fn, ok := x.Obj().(*types.Func); ok && fn.FullName() == "(*sync.WaitGroup)."+method {
			return call, true
		}
	}
	return nil, false
}

// addDominates: `wg.Add(1)` precedes the go statement in its own block (so once per started worker),
// or `wg.Add(N)` precedes the loop `for …; i < N; …` that starts the workers.
func addDominates(info *types.Info, fd *ast.FuncDecl, gs *ast.GoStmt) bool {
	var stack []ast.Node
	ok := false
	ast.Inspect(fd.Body, func(n ast.Node) bool {
		if n == nil {
			stack = stack[:len(stack)-1]
			return true
		}
		if n == ast.Node(gs) {
			// innermost block containing gs, and the innermost loop around it
			var blk *ast.BlockStmt
			var loop ast.Node
			var loopBlk *ast.BlockStmt
			for i := len(stack) - 1; i >= 0; i-- {
				switch v := stack[i].(type) {
				case *ast.BlockStmt:
					if blk == nil {
						blk = v
					} else if loop != nil && loopBlk == nil {
						loopBlk = v
					}
				case *ast.ForStmt, *ast.RangeStmt:
					if loop == nil {
						loop = v
					}
				case *ast.FuncLit:
					i = -1
				}
			}
			if blk != nil {
				for _, st := range blk.List {
					if st == ast.Stmt(gs) {
						break
					}
					if call, is := isWGCall(info, st, "Add"); is && len(call.Args) == 1 {
						if bl, isLit := call.Args[0].(*ast.BasicLit); isLit && bl.Value == "1" {
							ok = true
						}
					}
				}
			}
			if fs, isFor := loop.(*ast.ForStmt); isFor && loopBlk != nil && !ok {
				if be, isBin := fs.Cond.(*ast.BinaryExpr); isBin && be.Op == token.LSS {
					for _, st := range loopBlk.List {
						if st == ast.Stmt(fs) {
							break
						}
						if call, is := isWGCall(info, st, "Add"); is && len(call.Args) == 1 && exprStr(call.Args[0]) == exprStr(be.Y) && exprStr(be.Y) != "?" {
							ok = true
						}
					}
				}
			}
		}
		stack = append(stack, n)
		return true
	})
	return ok
}

// containsGo: the statement starts a goroutine (not counting go statements inside function literals)
func containsGo(s ast.Stmt) bool {
	found := false
	ast.Inspect(s, func(n ast.Node) bool {
		switch n.(type) {
		case *ast.FuncLit:
			return false
		case *ast.GoStmt:
			found = true
		}
		return !found
	})
	return found
}

// mainRegions: the statements of the enclosing function that run WHILE its goroutines run: in the block
// that starts them, what follows the first go statement up to a `wg.Wait()` or up to (and including) a
// loop ranging over a channel (when that loop ends the channel has been closed: the workers are done).
// Their accesses to the variables the goroutines capture take part in the read/write race decision.
func (x *extractor) mainRegions(p *pkgData, fname string, fd *ast.FuncDecl) []*xGo {
	// variables of fd captured by its go literals
	tracked := map[types.Object]root{}
	ast.Inspect(fd.Body, func(n ast.Node) bool {
		gs, ok := n.(*ast.GoStmt)
		if !ok {
			return true
		}
		lit, ok := gs.Call.Fun.(*ast.FuncLit)
		if !ok {
			return true
		}
		ast.Inspect(lit.Body, func(m ast.Node) bool {
			if id, ok := m.(*ast.Ident); ok {
				if v, ok := p.info.Uses[id].(*types.Var); ok && !v.IsField() && !(v.Pos() >= lit.Pos() && v.Pos() < lit.End()) &&
					v.Pkg() != nil && v.Pkg().Path() == "github.com/evolbioinfo/gotree/"+filepath.ToSlash(p.rel) {
					tracked[v] = root{name: v.Name()}
				}
			}
			return true
		})
		return true
	})
	var out []*xGo
	var visit func(list []ast.Stmt)
	visit = func(list []ast.Stmt) {
		// a statement of this block starts goroutines that outlive it: a go statement, or a loop whose
		// body has one directly (a loop that also joins them deeper inside is handled as a nested block)
		startsHere := func(st ast.Stmt) bool {
			var body *ast.BlockStmt
			switch v := st.(type) {
			case *ast.GoStmt:
				return true
			case *ast.ForStmt:
				body = v.Body
			case *ast.RangeStmt:
				body = v.Body
			}
			if body != nil {
				for _, b := range body.List {
					if _, ok := b.(*ast.GoStmt); ok {
						return true
					}
				}
			}
			return false
		}
		first := -1
		for i, st := range list {
			if startsHere(st) {
				first = i
				break
			}
		}
		if first >= 0 {
			var region []ast.Stmt
			for _, st := range list[first+1:] {
				if startsHere(st) {
					continue
				}
				if _, isWait := isWGCall(p.info, st, "Wait"); isWait {
					break
				}
				region = append(region, st)
				if rs, ok := st.(*ast.RangeStmt); ok {
					if tv, ok := p.info.Types[rs.X]; ok {
						if _, isChan := tv.Type.Underlying().(*types.Chan); isChan {
							break
						}
					}
				}
			}
			if len(region) > 0 {
				g := &xGo{File: fname, Fn: fd.Name.Name, Line: x.fset.Position(region[0].Pos()).Line, Main: true,
					Exits: []xExit{{Kind: "rangeEnd", Line: x.fset.Position(region[len(region)-1].End()).Line, Done: false}}}
				waited := false
				tr := map[types.Object]root{}
				for k, v := range tracked {
					tr[k] = v
				}
				c := &walkCtx{x: x, info: p.info, g: g, tracked: tr, held: map[string]bool{}, enc: fd, encInfo: p.info,
					waited: &waited, top: false, chain: map[string]bool{}, pkgPath: "github.com/evolbioinfo/gotree/" + filepath.ToSlash(p.rel)}
				c.walkBlock(region)
				g.Unfollowed = uniq(g.Unfollowed)
				g.Closes, g.Sends, g.Waits = nil, nil, false
				out = append(out, g)
			}
		}
		// nested blocks (the goroutines of TBE are started inside the loop over the bootstrap trees)
		for _, st := range list {
			ast.Inspect(st, func(n ast.Node) bool {
				switch v := n.(type) {
				case *ast.FuncLit:
					return false
				case *ast.BlockStmt:
					if containsGo(v) {
						visit(v.List)
					}
					return false
				}
				return true
			})
		}
	}
	visit(fd.Body.List)
	return out
}

// inLoop: the go statement is inside a for/range loop of the enclosing function
func inLoop(fd *ast.FuncDecl, gs *ast.GoStmt) bool {
	var stack []ast.Node
	res := false
	ast.Inspect(fd.Body, func(n ast.Node) bool {
		if n == nil {
			stack = stack[:len(stack)-1]
			return true
		}
		if n == ast.Node(gs) {
			for i := len(stack) - 1; i >= 0; i-- {
				switch stack[i].(type) {
				case *ast.ForStmt, *ast.RangeStmt:
					res = true
				case *ast.FuncLit:
					i = -1
				}
			}
		}
		stack = append(stack, n)
		return true
	})
	return res
}

// filterReads keeps, for the goroutines of one function, the reads of the variables some goroutine of
// that function writes (the others cannot race), without duplicates.
func filterReads(gos []*xGo) {
	written := map[string]bool{}
	for _, g := range gos {
		for _, a := range g.Accesses {
			if a.Write {
				written[g.File+"\x00"+g.Fn+"\x00"+a.Var] = true
			}
		}
	}
	for _, g := range gos {
		var keep []xAccess
		seen := map[xAccess]bool{}
		for _, a := range g.Accesses {
			if !a.Write && !written[g.File+"\x00"+g.Fn+"\x00"+a.Var] {
				continue
			}
			if seen[a] {
				continue
			}
			seen[a] = true
			keep = append(keep, a)
		}
		g.Accesses = keep
	}
}

func returnsBeforeClose(fset *token.FileSet, lit *ast.FuncLit) []int {
	var closePos token.Pos
	for _, st := range lit.Body.List {
		if es, ok := st.(*ast.ExprStmt); ok {
			if call, ok := es.X.(*ast.CallExpr); ok {
				if id, ok := call.Fun.(*ast.Ident); ok && id.Name == "close" {
					closePos = st.Pos()
				}
			}
		}
	}
	var out []int
	if closePos == token.NoPos {
		return out
	}
	ast.Inspect(lit.Body, func(n ast.Node) bool {
		switch v := n.(type) {
		case *ast.FuncLit:
			return false
		case *ast.ReturnStmt:
			if v.Pos() < closePos {
				out = append(out, fset.Position(v.Pos()).Line)
			}
		}
		return true
	})
	return out
}

// ---- the callers: do they drain the channel the pool's closer closes? ---------------------------------
//
// Syntactic (go/parser only) look at cmd/comparetrees.go: for every variable that receives the channel
// returned by tree.Compare / tree.CompareWeighted: (a) some `for … range <var>` loop consumes it, and
// (b) every bare `for range <x> {}` (the "empty the channel" idiom used before an early return) inside
// that loop names the SAME variable (F38: the weighted branch drained the other, nil, channel).
type xCaller struct {
	Fn, Var string
	Line    int
	Ranged  bool
	Drains  []string // the channels named by the bare `for range` loops inside the consuming loop
}

var callers []xCaller

func extractCallers(repo string) error {
	callers = nil
	fset := token.NewFileSet()
	f, err := parser.ParseFile(fset, filepath.Join(repo, "cmd", "comparetrees.go"), nil, 0)
	if err != nil {
		return err
	}
	isPoolCall := func(e ast.Expr) (string, bool) {
		call, ok := e.(*ast.CallExpr)
		if !ok {
			return "", false
		}
		sel, ok := call.Fun.(*ast.SelectorExpr)
		if !ok {
			return "", false
		}
		if x, ok := sel.X.(*ast.Ident); ok && x.Name == "tree" && (sel.Sel.Name == "Compare" || sel.Sel.Name == "CompareWeighted") {
			return sel.Sel.Name, true
		}
		return "", false
	}
	var vars []xCaller
	ast.Inspect(f, func(n ast.Node) bool {
		if as, ok := n.(*ast.AssignStmt); ok && len(as.Rhs) == 1 && len(as.Lhs) >= 1 {
			if fn, ok := isPoolCall(as.Rhs[0]); ok {
				if id, ok := as.Lhs[0].(*ast.Ident); ok {
					vars = append(vars, xCaller{Fn: fn, Var: id.Name, Line: fset.Position(as.Pos()).Line})
				}
			}
		}
		return true
	})
	for i := range vars {
		v := &vars[i]
		ast.Inspect(f, func(n ast.Node) bool {
			rs, ok := n.(*ast.RangeStmt)
			if !ok || rs.Key == nil {
				return true
			}
			if id, ok := rs.X.(*ast.Ident); !ok || id.Name != v.Var {
				return true
			}
			v.Ranged = true
			ast.Inspect(rs.Body, func(m ast.Node) bool {
				if in, ok := m.(*ast.RangeStmt); ok && in.Key == nil && in.Value == nil {
					v.Drains = append(v.Drains, exprStr(in.X))
				}
				return true
			})
			return true
		})
	}
	callers = vars
	return nil
}

// ---- self-test: the extractor run on a source with seeded defects --------------------------------

const selfTestSrc = `package selftest

import (
	"sync"
	"sync/atomic"
)

type box struct {
	n  int
	mu sync.Mutex
}

func (b *box) incLocked() { b.mu.Lock(); defer b.mu.Unlock(); b.n++ }
func (b *box) incBare()   { b.n++ }

func pool(in <-chan int, cpus int) (<-chan int, *int) {
	out := make(chan int)
	var wg sync.WaitGroup
	var shared, guarded int
	var cnt int32
	var mu sync.Mutex
	cells := make([]int, 10)
	b := &box{}
	alias := cells
	for i := 0; i < cpus; i++ {
		wg.Add(1)
		go func() {
			for v := range in {
				if v < 0 {
					return
				}
				if v == 0 {
					wg.Done()
					return
				}
				if v == 1 {
					break
				}
				shared = v
				mu.Lock()
				guarded = v
				mu.Unlock()
				guarded++
				atomic.AddInt32(&cnt, 1)
				cells[v] = v
				cells[0] = v
				alias[1] = v
				b.incLocked()
				b.incBare()
				if guarded > 3 {
					v++
				}
				mu.Lock()
				v += guarded + cells[v]
				mu.Unlock()
				v += int(atomic.LoadInt32(&cnt))
				out <- v
			}
			wg.Done()
		}()
	}
	go func() {
		close(out)
		wg.Wait()
	}()
	go func() {
		for v := range in {
			if v > 5 {
				return
			}
			out <- v
		}
		close(out)
	}()
	total := guarded + cells[0]
	_ = total
	return out, &shared
}

func pool2(in <-chan int) {
	var wg sync.WaitGroup
	wg.Add(1)
	for i := 0; i < 3; i++ {
		go func() {
			defer wg.Done()
			for range in {
			}
		}()
	}
	wg.Wait()
}
`

const selfTestWant = "pool counted=true add=true multi=true exits=[rangeEnd:true ret:false ret:true brk:true] " +
	"writes=[shared/assign/none guarded/assign/mutex guarded/incdec/none cnt/atomic.AddInt32/atomic cells/elem/itemIndexed cells/elem/none alias/elem/none " +
	"b/field via (*selftest.box).incLocked/mutex b/field via (*selftest.box).incBare/none] closes=[] " +
	"reads=[b/field/mutex b/whole/none b/whole/none guarded/whole/none guarded/whole/mutex cells/elem/mutex cnt/whole/atomic] retNoClose=[]\n" +
	"pool counted=false add=false multi=false exits=[rangeEnd:false] writes=[] closes=[out:false] reads=[] retNoClose=[]\n" +
	"pool counted=true add=false multi=false exits=[rangeEnd:false ret:false] writes=[] closes=[out:false] reads=[] retNoClose=[1]\n" +
	"pool counted=false add=false multi=false exits=[rangeEnd:false] writes=[] closes=[] reads=[guarded/whole/none cells/elem/none] retNoClose=[]\n" +
	"pool2 counted=true add=false multi=true exits=[rangeEnd:true] writes=[] closes=[] reads=[] retNoClose=[]\n"

// selfTest runs the analysis on selfTestSrc and compares what it finds with what was seeded.
func selfTest() error {
	x := &extractor{fset: token.NewFileSet(), decls: map[string]*fnDecl{}}
	f, err := parser.ParseFile(x.fset, "selftest.go", selfTestSrc, 0)
	if err != nil {
		return err
	}
	p := &pkgData{rel: "selftest", files: []*ast.File{f}}
	p.info = &types.Info{Types: map[ast.Expr]types.TypeAndValue{}, Uses: map[*ast.Ident]types.Object{},
		Defs: map[*ast.Ident]types.Object{}, Selections: map[*ast.SelectorExpr]*types.Selection{}}
	var terr error
	conf := types.Config{Importer: importer.ForCompiler(x.fset, "source", nil), Error: func(e error) {
		if terr == nil {
			terr = e
		}
	}}
	conf.Check("github.com/evolbioinfo/gotree/selftest", x.fset, p.files, p.info)
	if terr != nil {
		return terr
	}
	for _, d := range f.Decls {
		if fd, ok := d.(*ast.FuncDecl); ok {
			if fn, ok := p.info.Defs[fd.Name].(*types.Func); ok {
				x.decls[fn.FullName()] = &fnDecl{decl: fd, info: p.info}
			}
		}
	}
	var b strings.Builder
	var all []*xGo
	for _, d := range f.Decls {
		fd, ok := d.(*ast.FuncDecl)
		if !ok || fd.Body == nil {
			continue
		}
		ast.Inspect(fd.Body, func(n ast.Node) bool {
			if gs, ok := n.(*ast.GoStmt); ok {
				if lit, ok := gs.Call.Fun.(*ast.FuncLit); ok {
					all = append(all, x.analyse(p, "selftest.go", fd, gs, lit))
				}
			}
			return true
		})
		if containsGo(fd.Body) {
			all = append(all, x.mainRegions(p, "selftest.go", fd)...)
		}
	}
	filterReads(all)
	{
		for _, g := range all {
			fmt.Fprintf(&b, "%s counted=%v add=%v multi=%v exits=[", g.Fn, g.Counted, g.AddOK, g.Multi)
			for i, e := range g.Exits {
				if i > 0 {
					b.WriteByte(' ')
				}
				fmt.Fprintf(&b, "%s:%v", e.Kind, e.Done)
			}
			b.WriteString("] writes=[")
			for i, w := range g.Writes {
				if i > 0 {
					b.WriteByte(' ')
				}
				fmt.Fprintf(&b, "%s/%s/%s", w.Var, w.How, w.Sync)
			}
			b.WriteString("] closes=[")
			for i, c := range g.Closes {
				if i > 0 {
					b.WriteByte(' ')
				}
				fmt.Fprintf(&b, "%s:%v", c.Name, c.Wait)
			}
			b.WriteString("] reads=[")
			first := true
			for _, a := range g.Accesses {
				if a.Write {
					continue
				}
				if !first {
					b.WriteByte(' ')
				}
				first = false
				fmt.Fprintf(&b, "%s/%s/%s", a.Var, a.Form, a.Sync)
			}
			fmt.Fprintf(&b, "] retNoClose=[%d]\n", len(g.RetNoClose))
		}
	}
	got := strings.ReplaceAll(b.String(), "retNoClose=[0]", "retNoClose=[]")
	if got != selfTestWant {
		return fmt.Errorf("extractor self-test: got\n%s\nwant\n%s", got, selfTestWant)
	}
	return selfTestGlobals()
}

func usesWaitGroup(info *types.Info, fd *ast.FuncDecl) bool {
	found := false
	ast.Inspect(fd, func(n ast.Node) bool {
		if id, ok := n.(*ast.Ident); ok {
			if o := info.Defs[id]; o != nil {
				if v, ok := o.(*types.Var); ok && isNamed(v.Type(), "sync", "WaitGroup") {
					found = true
				}
			}
		}
		return !found
	})
	return found
}

func (x *extractor) analyse(p *pkgData, fname string, fd *ast.FuncDecl, gs *ast.GoStmt, lit *ast.FuncLit) *xGo {
	g := &xGo{File: fname, Fn: fd.Name.Name, Line: x.fset.Position(gs.Pos()).Line}
	// the channel-range loop of the worker: a top-level statement of the literal's body
	var loop *ast.RangeStmt
	for _, s := range lit.Body.List {
		if rs, ok := s.(*ast.RangeStmt); ok {
			if tv, ok := p.info.Types[rs.X]; ok {
				if _, isChan := tv.Type.Underlying().(*types.Chan); isChan {
					loop = rs
					g.RangesOver = exprStr(rs.X)
					break
				}
			}
		}
	}
	g.Counted = loop != nil && usesWaitGroup(p.info, fd)
	g.Exits = x.exitsOf(p.info, lit, loop)
	g.AddOK = addDominates(p.info, fd, gs)
	g.Multi = inLoop(fd, gs)
	g.RetNoClose = returnsBeforeClose(x.fset, lit)
	// captured variables: declared outside the literal (locals of the enclosing function, its
	// parameters and results, package-level variables)
	tracked := map[types.Object]root{}
	ast.Inspect(lit.Body, func(n ast.Node) bool {
		id, ok := n.(*ast.Ident)
		if !ok {
			return true
		}
		o := p.info.Uses[id]
		v, ok := o.(*types.Var)
		if !ok || v.IsField() {
			return true
		}
		if v.Pos() >= lit.Pos() && v.Pos() < lit.End() {
			return true
		}
		if v.Pkg() == nil || v.Pkg().Path() != "github.com/evolbioinfo/gotree/"+filepath.ToSlash(p.rel) {
			return true
		}
		tracked[o] = root{name: v.Name()}
		return true
	})
	waited := false
	c := &walkCtx{x: x, info: p.info, g: g, tracked: tracked, held: map[string]bool{}, enc: fd, encInfo: p.info,
		waited: &waited, top: true, chain: map[string]bool{}, lit: lit, pkgPath: "github.com/evolbioinfo/gotree/" + filepath.ToSlash(p.rel)}
	c.walkBlock(lit.Body.List)
	g.Unfollowed = uniq(g.Unfollowed)
	return g
}

func leanStr(s string) string {
	s = strings.ReplaceAll(s, "\\", "\\\\")
	s = strings.ReplaceAll(s, "\"", "\\\"")
	return "\"" + s + "\""
}

// GenTables writes lean/Gotree/Gen/C11Goroutines.lean from the working tree of repo.
func GenTables(repo, out string) error {
	if err := selfTest(); err != nil {
		return err
	}
	gos, err := extractGoroutines(repo)
	if err != nil {
		return err
	}
	return emitLean(gos, out)
}

// extractGoroutines analyses every go statement of the scoped files.
func extractGoroutines(repo string) ([]*xGo, error) {
	hmMethods = nil
	globalWrites = nil
	chanCaps = nil
	extractRepo = repo
	x := &extractor{fset: token.NewFileSet(), decls: map[string]*fnDecl{}}
	ctx := build.Default
	ctx.BuildTags = append(ctx.BuildTags, "verif")
	ctx.CgoEnabled = false
	ctx.Dir = repo
	imp := importer.ForCompiler(x.fset, "source", nil)
	// the "source" importer resolves imports through go/build's default context: point it at the
	// repository under test (module mode locates the main module from this directory)
	build.Default.Dir = repo
	var pkgs []*pkgData
	for _, rel := range []string{"hashmap", "tree", "support", "io/utils", "cmd"} {
		p, err := x.load(repo, rel, imp, &ctx)
		if err != nil {
			return nil, err
		}
		pkgs = append(pkgs, p)
	}
	// the four computations the property names, and - shown in the table but judged apart - the other
	// pools driven by the thread option (cmd/edgetrees.go, cmd/roccurve.go)
	inScope := func(rel string) bool {
		return rel == "tree/algo.go" || strings.HasPrefix(rel, "support/") || rel == "io/utils/readtrees.go" ||
			rel == "cmd/edgetrees.go" || rel == "cmd/roccurve.go"
	}
	var gos []*xGo
	for _, p := range pkgs {
		for _, f := range p.files {
			fname, _ := filepath.Rel(repo, x.fset.Position(f.Pos()).Filename)
			fname = filepath.ToSlash(fname)
			if !inScope(fname) {
				continue
			}
			for _, d := range f.Decls {
				// functions, and the function literals bound in package-level variables (the RunE of a
				// cobra command): each becomes one "enclosing function" named after the variable
				var fds []*ast.FuncDecl
				switch v := d.(type) {
				case *ast.FuncDecl:
					if v.Body != nil {
						fds = append(fds, v)
					}
				case *ast.GenDecl:
					for _, sp := range v.Specs {
						vs, ok := sp.(*ast.ValueSpec)
						if !ok || len(vs.Names) == 0 {
							continue
						}
						for _, val := range vs.Values {
							ast.Inspect(val, func(n ast.Node) bool {
								if fl, ok := n.(*ast.FuncLit); ok {
									if containsGo(fl.Body) {
										fds = append(fds, &ast.FuncDecl{Name: ast.NewIdent(vs.Names[0].Name), Type: fl.Type, Body: fl.Body})
									}
									return false
								}
								return true
							})
						}
					}
				}
				for _, fd := range fds {
					fd := fd
					chanCaps = append(chanCaps, x.chanCapsOf(fname, fd)...)
					ast.Inspect(fd.Body, func(n ast.Node) bool {
						if gs, ok := n.(*ast.GoStmt); ok {
							if lit, ok := gs.Call.Fun.(*ast.FuncLit); ok {
								g := x.analyse(p, fname, fd, gs, lit)
								gos = append(gos, g)
								// package-level state written below this goroutine (globals.go)
								globalWrites = append(globalWrites, x.globalsOf(g, p.info, lit)...)
							} else {
								gos = append(gos, &xGo{File: fname, Fn: fd.Name.Name, Line: x.fset.Position(gs.Pos()).Line,
									Exits:      []xExit{{Kind: "rangeEnd", Line: x.fset.Position(gs.End()).Line, Done: false}},
									Unfollowed: []string{"go " + exprStr(gs.Call.Fun) + " (not a function literal)"}})
							}
						}
						return true
					})
					if containsGo(fd.Body) {
						gos = append(gos, x.mainRegions(p, fname, fd)...)
					}
				}
			}
		}
	}
	sort.SliceStable(gos, func(i, j int) bool {
		if gos[i].File != gos[j].File {
			return gos[i].File < gos[j].File
		}
		return gos[i].Line < gos[j].Line
	})
	filterReads(gos)
	if err := extractCallers(repo); err != nil {
		return nil, err
	}
	// the hash map shared by the workers: for every exported method of *HashMap, the writes it makes
	// through its receiver and the lock held (one pseudo entry per method, Fn = "HashMap.<method>")
	for _, p := range pkgs {
		typeName := map[string]string{"hashmap": "HashMap", "support": "Supporter"}[p.rel]
		if typeName == "" {
			continue
		}
		for _, f := range p.files {
			fname, _ := filepath.Rel(repo, x.fset.Position(f.Pos()).Filename)
			for _, d := range f.Decls {
				fd, ok := d.(*ast.FuncDecl)
				if !ok || fd.Body == nil || fd.Recv == nil || !fd.Name.IsExported() || len(fd.Recv.List) != 1 || len(fd.Recv.List[0].Names) != 1 {
					continue
				}
				ro := p.info.Defs[fd.Recv.List[0].Names[0]]
				if ro == nil || !isNamed(ro.Type(), "github.com/evolbioinfo/gotree/"+p.rel, typeName) {
					continue
				}
				g := &xGo{File: filepath.ToSlash(fname), Fn: typeName + "." + fd.Name.Name, Line: x.fset.Position(fd.Pos()).Line,
					Exits: []xExit{{Kind: "rangeEnd", Line: x.fset.Position(fd.End()).Line, Done: false}}}
				waited := false
				c := &walkCtx{x: x, info: p.info, g: g, tracked: map[types.Object]root{ro: {name: ro.Name()}}, held: map[string]bool{},
					enc: fd, encInfo: p.info, waited: &waited, top: false, chain: map[string]bool{}, pkgPath: "github.com/evolbioinfo/gotree/" + p.rel}
				c.walkBlock(fd.Body.List)
				g.Unfollowed = uniq(g.Unfollowed)
				hmMethods = append(hmMethods, g)
			}
		}
	}
	return gos, nil
}

func emitLean(gos []*xGo, out string) error {
	var b strings.Builder
	b.WriteString("-- GENERATED by harness/c11/extract.go (vh gen-tables) from the working tree of the repository; do not edit\n")
	b.WriteString("import Gotree.Model.C11\n\nnamespace Gotree.Gen.C11\nopen Gotree.C11\n\n")
	count := map[string]int{}
	var names []string
	for _, g := range gos {
		role := "go"
		if g.Main {
			role = "main"
		} else if g.Counted {
			role = "worker"
		} else if g.Waits {
			role = "closer"
		}
		base := g.Fn + "_" + role
		name := fmt.Sprintf("%s%d", base, count[base])
		count[base]++
		names = append(names, name)
		fmt.Fprintf(&b, "def %s : Goroutine :=\n  { file := %s, fn := %s, line := %d, rangesOver := %s, counted := %v,\n", name, leanStr(g.File), leanStr(g.Fn), g.Line, leanStr(g.RangesOver), g.Counted)
		b.WriteString("    exits := [")
		for i, e := range g.Exits {
			if i > 0 {
				b.WriteString(", ")
			}
			fmt.Fprintf(&b, "⟨.%s, %d, %v⟩", e.Kind, e.Line, e.Done)
		}
		b.WriteString("],\n    writes := [")
		for i, w := range g.Writes {
			if i > 0 {
				b.WriteString(",\n      ")
			}
			fmt.Fprintf(&b, "⟨%s, %s, .%s, %d⟩", leanStr(w.Var), leanStr(w.How), w.Sync, w.Line)
		}
		b.WriteString("],\n    sends := [")
		for i, s := range g.Sends {
			if i > 0 {
				b.WriteString(", ")
			}
			fmt.Fprintf(&b, "(%s, %d)", leanStr(s.Name), s.Line)
		}
		b.WriteString("],\n    closes := [")
		for i, s := range g.Closes {
			if i > 0 {
				b.WriteString(", ")
			}
			fmt.Fprintf(&b, "(%s, %d, %v)", leanStr(s.Name), s.Line, s.Wait)
		}
		b.WriteString("],\n    accesses := [")
		for i, a := range g.Accesses {
			if i > 0 {
				b.WriteString(",\n      ")
			}
			fmt.Fprintf(&b, "⟨%s, %s, %v, .%s, %d⟩", leanStr(a.Var), leanStr(a.Form), a.Write, a.Sync, a.Line)
		}
		fmt.Fprintf(&b, "],\n    multi := %v", g.Multi)
		fmt.Fprintf(&b, ",\n    waits := %v, addOK := %v, returnsBeforeClose := %s,\n    unfollowed := [", g.Waits, g.AddOK, strings.ReplaceAll(fmt.Sprint(append([]int{}, g.RetNoClose...)), " ", ", "))
		for i, s := range g.Unfollowed {
			if i > 0 {
				b.WriteString(", ")
			}
			b.WriteString(leanStr(s))
		}
		b.WriteString("] }\n\n")
	}
	// the goroutines the driver and the theorems name: when the source no longer has one of them (a pool rewritten
	// without a channel …) a placeholder keeps the Lean sources compiling — so that the cases still run and the oracle
	// can find a failing input — while its shape (a counted worker whose only exit skips wg.Done) breaks the table
	// decisions, and it is listed in `missingGoroutines` (decided empty)
	var missing []string
	for _, want := range []string{"Compare_worker0", "CompareWeighted_worker0", "FBP_worker0", "TBE_worker0", "TBE_go0", "ReadMultiTrees_go0",
		"Compare_closer0", "CompareWeighted_closer0", "FBP_closer0"} {
		found := false
		for _, n := range names {
			if n == want {
				found = true
			}
		}
		if !found {
			missing = append(missing, want)
			fmt.Fprintf(&b, "def %s : Goroutine :=\n  { file := \"MISSING\", fn := %s, line := 0, rangesOver := \"\", counted := true,\n    exits := [⟨.rangeEnd, 0, false⟩], writes := [], sends := [], closes := [], accesses := [], multi := false, waits := false, addOK := false,\n    returnsBeforeClose := [], unfollowed := [\"goroutine not found in the source\"] }\n\n", want, leanStr(want))
		}
	}
	b.WriteString("/-- goroutines the model names that the extractor did not find in the source (placeholders above) -/\ndef missingGoroutines : List String := [")
	for i, m := range missing {
		if i > 0 {
			b.WriteString(", ")
		}
		b.WriteString(leanStr(m))
	}
	b.WriteString("]\n\n")
	var inNames, otherNames []string
	for i, g := range gos {
		if strings.HasPrefix(g.File, "cmd/") {
			otherNames = append(otherNames, names[i])
		} else {
			inNames = append(inNames, names[i])
		}
	}
	b.WriteString("/-- the goroutines of the computations the property names (tree/algo.go, support/, io/utils/readtrees.go) -/\n")
	b.WriteString("def goroutines : List Goroutine := [" + strings.Join(inNames, ", ") + "]\n\n")
	b.WriteString("/-- the other pools driven by the thread option (cmd/edgetrees.go, cmd/roccurve.go): outside the four computations\n    the property names, shown here and judged apart -/\n")
	b.WriteString("def otherGoroutines : List Goroutine := [" + strings.Join(otherNames, ", ") + "]\n\n")
	b.WriteString("/-- exit paths of pool workers that leave without `wg.Done()` -/\n")
	b.WriteString("def exitsWithoutDone : List Exit := goroutines.flatMap Goroutine.exitsWithoutDone\n\n")
	b.WriteString("/-- writes of goroutines to captured variables with no synchronisation -/\n")
	b.WriteString("def unsyncSharedWrites : List Write := goroutines.flatMap Goroutine.unsyncSharedWrites\n\n")
	b.WriteString("/-- read/write races between goroutines visible in the table -/\n")
	b.WriteString("def readWriteRaces : List (String × Nat × Nat) := racePairs goroutines\n\n")
	b.WriteString("/-- writes to PACKAGE-LEVEL variables of the module reachable from a goroutine of the four pools through the\n    functions it calls (harness/c11/globals.go): (goroutine, write); the `how` names the call chain -/\n")
	for _, part := range []struct {
		name string
		cmd  bool
	}{{"globalWrites", false}, {"otherGlobalWrites", true}} {
		b.WriteString("def " + part.name + " : List (String × Write) := [")
		firstG := true
		for _, w := range globalWrites {
			if strings.HasPrefix(w.File, "cmd/") != part.cmd {
				continue
			}
			if !firstG {
				b.WriteString(",\n  ")
			}
			firstG = false
			fmt.Fprintf(&b, "(%s, ⟨%s, %s, .%s, %d⟩)", leanStr(fmt.Sprintf("%s:%d %s", w.File, w.GoLine, w.Fn)), leanStr(w.Var), leanStr(w.How+" in "+w.At), w.Sync, w.Line)
		}
		b.WriteString("]\n\n")
	}
	b.WriteString("/-- capacity of the channels made in the scoped functions (harness/c11/chans.go): (function, variable, element type, a, b),\n    capacity = a * threads + b -/\n")
	b.WriteString("def chanCaps : List (String × String × String × Nat × Nat) := [")
	firstC := true
	for _, c := range chanCaps {
		if c.Raw != "" {
			continue
		}
		if !firstC {
			b.WriteString(",\n  ")
		}
		firstC = false
		fmt.Fprintf(&b, "(%s, %s, %s, %d, %d)", leanStr(c.Fn), leanStr(c.Var), leanStr(c.Elem), c.A, c.B)
	}
	b.WriteString("]\n\n/-- channels whose capacity expression the extractor could not read -/\ndef chanCapsUnparsed : List (String × String × String) := [")
	firstC = true
	for _, c := range chanCaps {
		if c.Raw == "" {
			continue
		}
		if !firstC {
			b.WriteString(", ")
		}
		firstC = false
		fmt.Fprintf(&b, "(%s, %s, %s)", leanStr(c.Fn), leanStr(c.Var), leanStr(c.Raw))
	}
	b.WriteString("]\n\n")
	b.WriteString("/-- writes of the exported methods of *hashmap.HashMap through their receiver (method, write) -/\n")
	b.WriteString("def hashMapWrites : List (String × Write) := [")
	first := true
	for _, g := range hmMethods {
		if !strings.HasPrefix(g.Fn, "HashMap.") {
			continue
		}
		for _, w := range g.Writes {
			if !first {
				b.WriteString(",\n  ")
			}
			first = false
			fmt.Fprintf(&b, "(%s, ⟨%s, %s, .%s, %d⟩)", leanStr(g.Fn), leanStr(w.Var), leanStr(w.How), w.Sync, w.Line)
		}
	}
	b.WriteString("]\n\n")
	b.WriteString("/-- every access (read or write) the exported methods of *hashmap.HashMap and *support.Supporter make to the state behind their receiver (method, access) -/\n")
	b.WriteString("def hashMapAccesses : List (String × Access) := [")
	first = true
	seenHM := map[string]bool{}
	for _, g := range hmMethods {
		for _, a := range g.Accesses {
			if a.Form == "whole" {
				continue // the receiver pointer itself
			}
			a.Line = 0 // one entry per (method, form, read/write, lock)
			k := fmt.Sprint(g.Fn, a)
			if seenHM[k] {
				continue
			}
			seenHM[k] = true
			if !first {
				b.WriteString(",\n  ")
			}
			first = false
			fmt.Fprintf(&b, "(%s, ⟨%s, %s, %v, .%s, %d⟩)", leanStr(g.Fn), leanStr(a.Var), leanStr(a.Form), a.Write, a.Sync, a.Line)
		}
	}
	b.WriteString("]\n\n")
	b.WriteString("/-- the callers in cmd/comparetrees.go: (pool function, variable holding its channel, ranged over?, channels named by the bare `for range` loops inside that loop) -/\n")
	b.WriteString("def compareCallers : List (String × String × Bool × List String) := [")
	for i, cl := range callers {
		if i > 0 {
			b.WriteString(",\n  ")
		}
		fmt.Fprintf(&b, "(%s, %s, %v, [", leanStr(cl.Fn), leanStr(cl.Var), cl.Ranged)
		for j, d := range cl.Drains {
			if j > 0 {
				b.WriteString(", ")
			}
			b.WriteString(leanStr(d))
		}
		b.WriteString("])")
	}
	b.WriteString("]\n\n")
	b.WriteString("end Gotree.Gen.C11\n")
	os.MkdirAll(out, 0755)
	path := filepath.Join(out, "C11Goroutines.lean")
	if old, err := os.ReadFile(path); err == nil && string(old) == b.String() {
		return nil
	}
	return os.WriteFile(path, []byte(b.String()), 0644)
}
