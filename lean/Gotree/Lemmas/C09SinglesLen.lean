/-
  C09 — the length bridge for input trees with single-child nodes: the Spec fuses the
  branches of one bipartition with `fuseLen` (in `T.usplitsAll`), the code adds them
  with the `max(0,·)` rule in `RemoveSingleNodes` / `UnRoot`; for lengths that are
  absent or non-negative both give "absent if all are absent, else the sum of the
  present ones".
-/
import Gotree.Lemmas.C09Singles

namespace Gotree.C09
open Gotree

/-! ## summaries of lists of lengths -/

/-- a length that is absent or non-negative -/
def LenOK (x : Rat) : Prop := x = NIL ∨ 0 ≤ x

/-- what matters of a list of lengths: are they all absent, and the sum of the present ones -/
def summ (L : List Rat) : Bool × Rat := (L.all (· == NIL), (L.map max0).sum)

/-- same emptiness and same summary -/
def Eq3 (L L' : List Rat) : Prop := (L = [] ↔ L' = []) ∧ summ L = summ L'

theorem Eq3.refl (L : List Rat) : Eq3 L L := ⟨Iff.rfl, rfl⟩
theorem Eq3.symm {L L' : List Rat} (h : Eq3 L L') : Eq3 L' L := ⟨h.1.symm, h.2.symm⟩
theorem Eq3.trans {a b c : List Rat} (h1 : Eq3 a b) (h2 : Eq3 b c) : Eq3 a c :=
  ⟨h1.1.trans h2.1, h1.2.trans h2.2⟩

theorem summ_append (a b : List Rat) : summ (a ++ b) = ((summ a).1 && (summ b).1, (summ a).2 + (summ b).2) := by
  unfold summ
  simp [List.all_append, sumR_append]

theorem Eq3.append {a a' b b' : List Rat} (h1 : Eq3 a a') (h2 : Eq3 b b') : Eq3 (a ++ b) (a' ++ b') := by
  refine ⟨?_, ?_⟩
  · simp only [List.append_eq_nil_iff]; rw [h1.1, h2.1]
  · rw [summ_append, summ_append, h1.2, h2.2]

theorem max0_nil : max0 NIL = 0 := by unfold max0 NIL; decide +kernel

theorem max0_of_nonneg {x : Rat} (h : 0 ≤ x) : max0 x = x := by
  unfold max0; simp [Rat.not_lt.2 h]

theorem max0_nonneg (x : Rat) : 0 ≤ max0 x := by
  unfold max0
  split
  · exact Rat.le_refl
  · rename_i h; exact Rat.not_lt.1 h

theorem nil_neg : NIL < 0 := by unfold NIL; decide +kernel

theorem ne_nil_of_nonneg {x : Rat} (h : 0 ≤ x) : (x == NIL) = false := by
  rw [beq_eq_false_iff_ne]
  intro he; rw [he] at h
  exact absurd nil_neg (Rat.not_lt.2 h)

/-- the code's rule for adding two lengths (`UnRoot`, `RemoveSingleNodes`) -/
def addLen (a b : Rat) : Rat := if a != NIL || b != NIL then max0 a + max0 b else a

theorem addLen_ok {a b : Rat} (ha : LenOK a) (_hb : LenOK b) : LenOK (addLen a b) := by
  unfold addLen
  split
  · exact Or.inr (Rat.add_nonneg (max0_nonneg a) (max0_nonneg b))
  · exact ha

/-- two lengths and their sum have the same summary -/
theorem summ_addLen {a b : Rat} (ha : LenOK a) (hb : LenOK b) : summ [addLen a b] = summ [a, b] := by
  unfold summ addLen
  rcases ha with ha | ha <;> rcases hb with hb | hb
  · subst ha; subst hb; simp [max0_nil, Rat.add_zero]
  · subst ha
    have := ne_nil_of_nonneg hb
    have hs : 0 ≤ max0 NIL + max0 b := Rat.add_nonneg (max0_nonneg _) (max0_nonneg _)
    simp [this, bne, ne_nil_of_nonneg hs, max0_of_nonneg hs, Rat.add_zero]
  · subst hb
    have := ne_nil_of_nonneg ha
    have hs : 0 ≤ max0 a + max0 NIL := Rat.add_nonneg (max0_nonneg _) (max0_nonneg _)
    simp [this, bne, ne_nil_of_nonneg hs, max0_of_nonneg hs, Rat.add_zero]
  · have h1 := ne_nil_of_nonneg ha
    have h2 := ne_nil_of_nonneg hb
    have hs : 0 ≤ max0 a + max0 b := Rat.add_nonneg (max0_nonneg _) (max0_nonneg _)
    simp [h1, h2, bne, ne_nil_of_nonneg hs, max0_of_nonneg hs, Rat.add_zero]

/-- the value the Spec's fold gives to a non-empty list of lengths -/
def fz : List Rat → Rat
  | [] => 0
  | a :: r => r.foldl fuseLen a

/-- the value determined by the summary -/
def valOf (s : Bool × Rat) : Rat := if s.1 then NIL else s.2

theorem fuseLen_valOf (L : List Rat) (hL : L ≠ []) (b : Rat) (hb : LenOK b) :
    fuseLen (valOf (summ L)) b = valOf (summ (L ++ [b])) := by
  have hsum : 0 ≤ (L.map max0).sum := by
    induction L with
    | nil => exact absurd rfl hL
    | cons x L ih =>
      simp only [List.map_cons, List.sum_cons]
      cases L with
      | nil => simp [Rat.add_zero, max0_nonneg]
      | cons y L => exact Rat.add_nonneg (max0_nonneg x) (ih (by simp))
  rw [summ_append]
  unfold valOf fuseLen
  show (if ((if (summ L).1 = true then NIL else (summ L).2) == NIL && b == NIL) = true then NIL else _) = _
  cases hall : (summ L).1
  · -- some length present in L: the value is the sum, which is ≥ 0
    have hne' : ¬ ((L.map max0).sum = NIL) := by
      have := ne_nil_of_nonneg hsum; simpa using this
    simp only [Bool.false_eq_true, if_false, Bool.false_and, summ, List.all_cons, List.all_nil,
      Bool.and_true, List.map_cons, List.map_nil, List.sum_cons, List.sum_nil, Rat.add_zero]
    rcases hb with hb | hb
    · subst hb; simp [max0_nil, hne', Rat.add_zero]
    · simp [ne_nil_of_nonneg hb, max0_of_nonneg hb, hne']
  · simp only [if_true, beq_self_eq_true, Bool.true_and, summ, List.all_cons, List.all_nil, Bool.and_true,
      List.map_cons, List.map_nil, List.sum_cons, List.sum_nil, Rat.add_zero]
    -- all absent in L: the sum of the present ones is 0
    have hz : (summ L).2 = 0 := by
      have : ∀ x ∈ L, (x == NIL) = true := by
        have := hall; unfold summ at this; simpa [List.all_eq_true] using this
      show (L.map max0).sum = 0
      clear hsum hall hL
      induction L with
      | nil => rfl
      | cons x L ih =>
        have hx : x = NIL := by simpa using this x (by simp)
        simp only [List.map_cons, List.sum_cons, hx, max0_nil, Rat.zero_add]
        exact ih (fun y hy => this y (by simp [hy]))
    have hz' : (L.map max0).sum = 0 := hz
    rcases hb with hb | hb
    · subst hb; simp
    · simp [ne_nil_of_nonneg hb, max0_of_nonneg hb, hz', Rat.zero_add]

theorem valOf_single (a : Rat) (ha : LenOK a) : valOf (summ [a]) = a := by
  unfold valOf summ
  rcases ha with ha | ha
  · subst ha; simp
  · simp [ne_nil_of_nonneg ha, max0_of_nonneg ha, Rat.add_zero]

theorem foldl_fuseLen (r : List Rat) : ∀ (L : List Rat), L ≠ [] → (∀ x ∈ r, LenOK x) →
    r.foldl fuseLen (valOf (summ L)) = valOf (summ (L ++ r)) := by
  induction r with
  | nil => intro L _ _; simp
  | cons b r ih =>
    intro L hL hr
    rw [List.foldl_cons, fuseLen_valOf L hL b (hr b (by simp)), ih (L ++ [b]) (by simp) (fun x hx => hr x (by simp [hx]))]
    simp

/-- the Spec's fold only depends on the summary -/
theorem fz_eq (L : List Rat) (hL : ∀ x ∈ L, LenOK x) : fz L = if L = [] then 0 else valOf (summ L) := by
  cases L with
  | nil => rfl
  | cons a r =>
    simp only [fz, List.cons_ne_nil, if_false]
    have := foldl_fuseLen r [a] (by simp) (fun x hx => hL x (by simp [hx]))
    rw [valOf_single a (hL a (by simp))] at this
    rw [this]; rfl

theorem fz_of_eq3 {L L' : List Rat} (h : Eq3 L L') (hL : ∀ x ∈ L, LenOK x) (hL' : ∀ x ∈ L', LenOK x) :
    fz L = fz L' := by
  rw [fz_eq L hL, fz_eq L' hL', h.2]
  by_cases hl : L = []
  · simp [hl, h.1.1 hl]
  · have : L' ≠ [] := fun h' => hl (h.1.2 h')
    simp [hl, this]

theorem fuseAll_sum (L : List Rat) : (fuseAll L).sum = fz L := by
  cases L with
  | nil => rfl
  | cons a r => simp [fuseAll, fz, Rat.add_zero]

theorem fz_small (L : List Rat) (h : L.length ≤ 1) : fz L = L.sum := by
  match L, h with
  | [], _ => rfl
  | [a], _ => simp [fz, Rat.add_zero]

/-! ## the lengths of the branches with one bipartition -/

/-- the lengths of the entries selected by `P`, in order -/
def agg (P : SplitE → Bool) (S : List SplitE) : List Rat := (S.filter P).map (·.e.len)

def BelowOnly (P : SplitE → Bool) : Prop := ∀ s s' : SplitE, s.below = s'.below → P s = P s'

def LensOKL (S : List SplitE) : Prop := ∀ s ∈ S, LenOK s.e.len

theorem agg_append (P : SplitE → Bool) (a b : List SplitE) : agg P (a ++ b) = agg P a ++ agg P b := by
  simp [agg, List.filter_append]

theorem agg_cons (P : SplitE → Bool) (s : SplitE) (r : List SplitE) :
    agg P (s :: r) = (if P s then [s.e.len] else []) ++ agg P r := by
  unfold agg
  by_cases h : P s = true <;> simp [List.filter_cons, h]

theorem summ_perm {a b : List Rat} (h : a.Perm b) : summ a = summ b := by
  unfold summ
  have h1 : a.all (· == NIL) = b.all (· == NIL) := by
    rw [Bool.eq_iff_iff]
    simp only [List.all_eq_true]
    exact ⟨fun h' x hx => h' x (h.mem_iff.2 hx), fun h' x hx => h' x (h.mem_iff.1 hx)⟩
  rw [h1, sumR_perm (h.map _)]

theorem Eq3.of_perm {a b : List Rat} (h : a.Perm b) : Eq3 a b :=
  ⟨⟨fun e => by rw [e] at h; exact h.symm.eq_nil, fun e => by rw [e] at h; exact h.eq_nil⟩, summ_perm h⟩

theorem Eq3.of_summ {a b : List Rat} (ha : a ≠ []) (hb : b ≠ []) (h : summ a = summ b) : Eq3 a b :=
  ⟨⟨fun e => absurd e ha, fun e => absurd e hb⟩, h⟩

/-- the branch `e` over a removed single-child node and the branch `ec` below it, against the fused branch -/
theorem eq3_fuse (e ec : Rat) (he : LenOK e) (hec : LenOK ec) (R : List Rat) :
    Eq3 ([e] ++ ([ec] ++ R)) ([addLen ec e] ++ R) := by
  have h1 : Eq3 [e, ec] [addLen ec e] := by
    apply Eq3.of_summ (by simp) (by simp)
    rw [summ_addLen hec he]
    exact summ_perm (List.Perm.swap ec e [])
  have := Eq3.append h1 (Eq3.refl R)
  simpa using this

mutual
theorem rsT_agg (P : SplitE → Bool) (hP : BelowOnly P) (e : EdgeD) : ∀ t : T,
    LenOK e.len → LensOKL t.splitsBelow →
    Eq3 (agg P (blk (e, t))) (agg P (blk (removeSinglesT e t))) ∧ LensOKL (blk (removeSinglesT e t))
  | .node d p k => by
    intro he hk
    obtain ⟨hl, _, hlen⟩ := removeSinglesL_spec k
    have ih := rsL_agg P hP k hk
    cases k with
    | nil =>
      show Eq3 (agg P (blk (e, T.node d p []))) (agg P (blk (e, T.node d p []))) ∧ LensOKL (blk (e, T.node d p []))
      refine ⟨Eq3.refl _, ?_⟩
      intro s hs
      simp only [blk, T.splitsBelow, splitsL, List.mem_singleton] at hs
      subst hs; exact he
    | cons a b =>
      have hk0 : (a :: b) ≠ [] := by simp
      have hk' : removeSinglesL (a :: b) ≠ [] := by
        intro h; rw [h] at hlen; simp at hlen
      unfold removeSinglesT
      rw [blk_node _ _ _ _ hk0]
      split
      · rename_i ec c heq
        rw [heq] at hl ih
        have hb : splitsL [(ec, c)] = blk (ec, c) := by
          rw [splitsL_cons]; show _ ++ [] = _; rw [List.append_nil]
        rw [hb] at ih
        have hcl : c.leaves = leavesL (a :: b) := by
          have h0 : leavesL [(ec, c)] = c.leaves := by
            cases c with
            | node dc pc kc => cases kc <;> simp [leavesL, T.leaves]
          exact h0.symm.trans hl
        have hec : LenOK ec.len := ih.2 ⟨c.leaves, ec, c.isLeaf⟩ List.mem_cons_self
        unfold blk at ih ⊢
        simp only at ih ⊢
        have hp1 : P ⟨leavesL (a :: b), e, false⟩ = P ⟨c.leaves, ec, c.isLeaf⟩ := hP _ _ hcl.symm
        have hp2 : ∀ ee : EdgeD, P ⟨c.leaves, ee, c.isLeaf⟩ = P ⟨c.leaves, ec, c.isLeaf⟩ := fun ee => hP _ _ rfl
        refine ⟨?_, ?_⟩
        · rw [agg_cons, agg_cons, hp1]
          simp only [hp2]
          rw [agg_cons] at ih
          by_cases hp : P ⟨c.leaves, ec, c.isLeaf⟩ = true
          · simp only [hp, if_true] at ih ⊢
            have h1 : Eq3 ([e.len] ++ agg P (splitsL (a :: b))) ([e.len] ++ ([ec.len] ++ agg P c.splitsBelow)) :=
              Eq3.append (Eq3.refl _) ih.1
            have h2 := eq3_fuse e.len ec.len he hec (agg P c.splitsBelow)
            unfold addLen at h2
            exact h1.trans h2
          · simp only [hp, Bool.false_eq_true, if_false, List.nil_append] at ih ⊢
            exact ih.1
        · intro s hs
          rcases List.mem_cons.1 hs with rfl | hs
          · exact addLen_ok hec he
          · exact ih.2 s (List.mem_cons_of_mem _ hs)
      · rw [blk_node _ _ _ _ hk']
        have hp : P ⟨leavesL (a :: b), e, false⟩ = P ⟨leavesL (removeSinglesL (a :: b)), e, false⟩ :=
          hP _ _ hl.symm
        refine ⟨?_, ?_⟩
        · rw [agg_cons, agg_cons, hp]
          exact Eq3.append (Eq3.refl _) ih.1
        · intro s hs
          rcases List.mem_cons.1 hs with rfl | hs
          · exact he
          · exact ih.2 s hs
theorem rsL_agg (P : SplitE → Bool) (hP : BelowOnly P) : ∀ k : Kids, LensOKL (splitsL k) →
    Eq3 (agg P (splitsL k)) (agg P (splitsL (removeSinglesL k))) ∧ LensOKL (splitsL (removeSinglesL k))
  | [] => fun _ => ⟨Eq3.refl _, fun s hs => by simp [removeSinglesL, splitsL] at hs⟩
  | (e, t) :: r => by
    intro hk
    rw [splitsL_cons] at hk
    have he : LenOK e.len := hk ⟨t.leaves, e, t.isLeaf⟩ (List.mem_append_left _ List.mem_cons_self)
    have ht : LensOKL t.splitsBelow := fun s hs =>
      hk s (List.mem_append_left _ (List.mem_cons_of_mem _ hs))
    obtain ⟨h1, h2⟩ := rsT_agg P hP e t he ht
    obtain ⟨i1, i2⟩ := rsL_agg P hP r (fun s hs => hk s (List.mem_append_right _ hs))
    unfold removeSinglesL
    rw [splitsL_cons, splitsL_cons, agg_append, agg_append]
    refine ⟨Eq3.append h1 i1, ?_⟩
    intro s hs
    rcases List.mem_append.1 hs with h | h
    · exact h2 s h
    · exact i2 s h
end

theorem removeSingles_agg (P : SplitE → Bool) (hP : BelowOnly P) (t : T) (hl : LensOKL t.splits) :
    Eq3 (agg P t.splits) (agg P (removeSingles t).splits) ∧ LensOKL (removeSingles t).splits := by
  cases t with
  | node d p k => exact rsL_agg P hP k hl

theorem len3_eq_addLen (e1 e2 : EdgeD) : len3 e1 e2 = addLen e1.len e2.len := by
  unfold len3 addLen
  by_cases h : (e1.len != NIL || e2.len != NIL) = true
  · simp [h]
  · have h1 : e1.len = NIL := by
      simp only [Bool.or_eq_true, bne_iff_ne, ne_eq, not_or, Decidable.not_not] at h; exact h.1
    simp [h, h1]

/-- `UnRoot`: the two root branches against the fused one -/
theorem unroot_agg (P : SplitE → Bool) (hP : BelowOnly P) (t : T) (hl : LensOKL t.splits)
    (hroot : ∀ (e1 e2 : EdgeD) (n1 n2 : T) (x y : Bool) (d : NodeD) (p : Nat),
      t = .node d p [(e1, n1), (e2, n2)] → P ⟨n1.leaves, e1, x⟩ = P ⟨n2.leaves, e2, y⟩) :
    Eq3 (agg P t.splits) (agg P (unroot t).splits) ∧ LensOKL (unroot t).splits := by
  by_cases h2 : t.kids.length = 2
  · cases t with
    | node d p kids =>
      match kids, h2 with
      | [(e1, .node d1 p1 k1), (e2, .node d2 p2 k2)], _ =>
        have hpr := hroot e1 e2 (.node d1 p1 k1) (.node d2 p2 k2) (T.node d1 p1 k1).isLeaf (T.node d2 p2 k2).isLeaf d p rfl
        rw [splits_rooted] at hl ⊢
        have hl1 : LenOK e1.len := hl _ (List.mem_append_left _ List.mem_cons_self)
        have hl2 : LenOK e2.len := hl _ (List.mem_append_right _ List.mem_cons_self)
        have hS1 : LensOKL (splitsL k1) := fun s hs => hl s (List.mem_append_left _ (List.mem_cons_of_mem _ hs))
        have hS2 : LensOKL (splitsL k2) := fun s hs => hl s (List.mem_append_right _ (List.mem_cons_of_mem _ hs))
        by_cases hk1 : k1 = []
        · subst hk1
          obtain ⟨e3, he3, hun⟩ := unroot_splits_tip d p e1 e2 d1 d2 p1 p2 k2
          rw [hun]
          have hs0 : splitsL ([] : Kids) = [] := rfl
          rw [hs0]
          have hp3 : P ⟨(T.node d1 p1 []).leaves, e3, true⟩ = P ⟨(T.node d1 p1 []).leaves, e1, (T.node d1 p1 []).isLeaf⟩ :=
            hP _ _ rfl
          refine ⟨?_, ?_⟩
          · simp only [agg_append, agg_cons, List.cons_append, List.nil_append]
            rw [hp3, ← hpr]
            have hnil : agg P [] = [] := rfl
            rw [hnil]
            by_cases hp : P ⟨(T.node d1 p1 []).leaves, e1, (T.node d1 p1 []).isLeaf⟩ = true
            · simp only [hp, if_true, List.append_nil, he3, len3_eq_addLen]
              have h1 : Eq3 ([e1.len] ++ ([e2.len] ++ agg P (splitsL k2))) ([addLen e2.len e1.len] ++ agg P (splitsL k2)) :=
                eq3_fuse e1.len e2.len hl1 hl2 _
              have h2 : Eq3 ([addLen e2.len e1.len] ++ agg P (splitsL k2)) (agg P (splitsL k2) ++ [addLen e1.len e2.len]) := by
                refine (Eq3.of_perm List.perm_append_comm).trans (Eq3.append (Eq3.refl _) ?_)
                apply Eq3.of_summ (by simp) (by simp)
                rw [summ_addLen hl2 hl1, summ_addLen hl1 hl2]
                exact summ_perm (List.Perm.swap e1.len e2.len [])
              simpa using h1.trans h2
            · simp only [hp, Bool.false_eq_true, if_false, List.nil_append, List.append_nil]
              exact Eq3.refl _
          · intro s hs
            rcases List.mem_append.1 hs with h | h
            · exact hS2 s h
            · simp only [List.mem_singleton] at h; subst h
              show LenOK e3.len
              rw [he3, len3_eq_addLen]; exact addLen_ok hl1 hl2
        · obtain ⟨e3, he3, hun⟩ := unroot_splits_inner d p e1 e2 d1 d2 p1 p2 k1 k2 hk1
          rw [hun]
          have hp3 : P ⟨(T.node d2 p2 k2).leaves, e3, (T.node d2 p2 k2).isLeaf⟩ =
              P ⟨(T.node d2 p2 k2).leaves, e2, (T.node d2 p2 k2).isLeaf⟩ := hP _ _ rfl
          refine ⟨?_, ?_⟩
          · simp only [agg_append, agg_cons, List.cons_append, List.nil_append]
            rw [hp3, hpr]
            by_cases hp : P ⟨(T.node d2 p2 k2).leaves, e2, (T.node d2 p2 k2).isLeaf⟩ = true
            · simp only [hp, if_true, he3, len3_eq_addLen]
              -- bring the two root lengths together
              have hperm : ([e1.len] ++ agg P (splitsL k1) ++ ([e2.len] ++ agg P (splitsL k2))).Perm
                  ([e1.len] ++ ([e2.len] ++ (agg P (splitsL k1) ++ agg P (splitsL k2)))) := by
                simp only [List.singleton_append, List.cons_append, List.nil_append]
                exact List.Perm.cons _ List.perm_middle
              have h1 := eq3_fuse e1.len e2.len hl1 hl2 (agg P (splitsL k1) ++ agg P (splitsL k2))
              have h2 : Eq3 ([addLen e2.len e1.len] ++ (agg P (splitsL k1) ++ agg P (splitsL k2)))
                  ([addLen e1.len e2.len] ++ (agg P (splitsL k1) ++ agg P (splitsL k2))) := by
                refine Eq3.append ?_ (Eq3.refl _)
                apply Eq3.of_summ (by simp) (by simp)
                rw [summ_addLen hl2 hl1, summ_addLen hl1 hl2]
                exact summ_perm (List.Perm.swap e1.len e2.len [])
              have hperm2 : ([addLen e1.len e2.len] ++ (agg P (splitsL k1) ++ agg P (splitsL k2))).Perm
                  (agg P (splitsL k1) ++ ([addLen e1.len e2.len] ++ agg P (splitsL k2))) := by
                simp only [List.singleton_append]
                exact List.perm_middle.symm
              exact (Eq3.of_perm hperm).trans (h1.trans (h2.trans (Eq3.of_perm hperm2)))
            · simp only [hp, Bool.false_eq_true, if_false, List.nil_append]
              exact Eq3.refl _
          · intro s hs
            rcases List.mem_append.1 hs with h | h
            · exact hS1 s h
            · rcases List.mem_cons.1 h with rfl | h
              · show LenOK e3.len
                rw [he3, len3_eq_addLen]; exact addLen_ok hl1 hl2
              · exact hS2 s h
  · rw [unroot_of_ne2 t h2]
    exact ⟨Eq3.refl _, hl⟩

/-! ## one tree, the collection -/

theorem agg_eq (P : SplitE → Bool) (S : List SplitE) : agg P S = (S.filter P).map (·.e.len) := rfl

/-- one tree (single-child nodes and a rooted presentation allowed): the Spec's fused
    length of the canonical side is the model's length sum over the normal form -/
theorem spec_len_tree_norm (univ taxa : List String) (t : T) (k : List String)
    (hk : k.Nodup) (hnd : t.tipNames.Nodup) (hne : t.tipNames ≠ []) (htaxa : taxa.Nodup)
    (hmem : ∀ x, x ∈ t.tipNames ↔ x ∈ taxa) (hut : ∀ a, a ∈ univ ↔ a ∈ taxa)
    (hdist : distinctKeys univ (norm t) = true)
    (hlens : ∀ s ∈ t.splits, s.e.len = NIL ∨ 0 ≤ s.e.len) :
    ((t.usplitsAll.filter (·.side == canonSide taxa k)).map (·.len)).sum =
      lsum univ (edgeKeys univ (norm t)) (bits univ k) := by
  have hmu : ∀ a, a ∈ t.tipNames ↔ a ∈ univ := fun a => (hmem a).trans (hut a).symm
  have hkey : IsKey univ (bits univ k) := isKey_bits univ k
  rw [specLen_eq, lsum_splits]
  have hP : t.splits.filter (fun s => canonSide t.tipNames s.below == canonSide taxa k) =
      t.splits.filter (matchP univ (bits univ k)) := by
    apply List.filter_congr
    intro s hs
    have hsnd : s.below.Nodup := (below_sublist_L t.kids s hs).nodup (leavesL_nodup_of_tipNames hnd)
    rw [Bool.eq_iff_iff, beq_iff_eq, canonSide_eq_iff t.tipNames taxa s.below k hnd htaxa hmem hne hsnd hk]
    unfold matchP
    rw [eqc_iff, eqc_bits_iff]
    exact ⟨SameSide.of_mem_iff hmu, SameSide.of_mem_iff fun a => (hmu a).symm⟩
  rw [hP, fuseAll_sum, ← agg_eq, ← agg_eq]
  have hbo : BelowOnly (matchP univ (bits univ k)) := by
    intro s s' h; unfold matchP; rw [h]
  -- step 1: single-child nodes
  obtain ⟨e1, ok1⟩ := removeSingles_agg (matchP univ (bits univ k)) hbo t hlens
  obtain ⟨htn, _, _⟩ := removeSingles_spec t
  -- step 2: unrooting
  obtain ⟨e2, ok2⟩ := unroot_agg (matchP univ (bits univ k)) hbo (removeSingles t) ok1 (by
    intro e1' e2' n1 n2 x y d p heq
    have htn' : (removeSingles t).tipNames = n1.leaves ++ n2.leaves := by
      rw [heq]; simp [T.tipNames, leavesL]
    have hnd' : (n1.leaves ++ n2.leaves).Nodup := by rw [← htn', htn]; exact hnd
    have hroot := root_sides_eqc univ n1.leaves n2.leaves hnd' (fun a => by rw [← htn', htn]; exact (hmu a).symm)
    unfold matchP
    exact eqc_congr_right (isKey_bits _ _) (isKey_bits _ _) hkey hroot)
  have aggOK : ∀ (S : List SplitE), LensOKL S → ∀ x ∈ agg (matchP univ (bits univ k)) S, LenOK x := by
    intro S hS x hx
    rw [agg_eq, List.mem_map] at hx
    obtain ⟨s, hs, rfl⟩ := hx
    exact hS s (List.mem_filter.1 hs).1
  have hfz := fz_of_eq3 (e1.trans e2) (aggOK _ hlens) (aggOK _ ok2)
  show fz (agg (matchP univ (bits univ k)) t.splits) = _
  rw [hfz]
  apply fz_small
  rw [agg_eq, List.length_map]
  exact filter_le_one univ (norm t) (bits univ k) hkey hdist

theorem spec_lenSum_eq_norm (ts : List T) (k : List String) (hk : k.Nodup)
    (hnd : ∀ t ∈ ts, t.tipNames.Nodup) (hne : ∀ t ∈ ts, t.tipNames ≠ [])
    (hmem : ∀ t ∈ ts, ∀ x, x ∈ t.tipNames ↔ x ∈ C09S.taxa ts)
    (hut : ∀ a, a ∈ univOf ts ↔ a ∈ C09S.taxa ts) (htaxa : (C09S.taxa ts).Nodup)
    (hnr : noRepeat ts = true) (hl : lensOK ts = true) :
    C09S.lenSum ts (canonSide (C09S.taxa ts) k) = lenM (univOf ts) (trees ts) (bits (univOf ts) k) := by
  unfold C09S.lenSum lenM trees
  rw [List.map_map]
  congr 1
  apply List.map_congr_left
  intro t ht
  simp only [Function.comp]
  apply spec_len_tree_norm (univOf ts) (C09S.taxa ts) t k hk (hnd t ht) (hne t ht) htaxa (hmem t ht) hut
  · unfold noRepeat at hnr
    exact List.all_eq_true.1 hnr t ht
  · intro s hs
    unfold lensOK at hl
    have := List.all_eq_true.1 (List.all_eq_true.1 hl t ht) s hs
    simp only [Bool.or_eq_true, beq_iff_eq, decide_eq_true_eq] at this
    exact this

end Gotree.C09
