/-
  C07 — lemmas for HISTORIES of collapses on one tree: what a collapse leaves (unique branch ids, the
  root condition) is what the next one needs, and two filters of the observation list compose.
-/
import Gotree.Lemmas.C07Proof

namespace Gotree.C07
open Gotree

/-- the branch ids, read off the observation list -/
theorem ids_of_obs {β : Type} (f : List String → β) (t : T) :
    t.splits.map (·.e.id) = (obsT f t).map (·.2.1.id) := by
  have h := congrArg (List.map (fun y : β × EdgeD × Bool => y.2.1.id)) (splitsL_obs f t.kids)
  simp only [List.map_map] at h
  rw [obsT_kids]
  exact h

theorem rootOK_removeEdges (rr rt : Bool) : ∀ (ids : List Int) (t : T), RootOK rr t → RootOK rr (removeEdges rr rt ids t)
  | [], _, h => h
  | id :: ids, t, h => by
    rw [removeEdges_cons]
    exact rootOK_removeEdges rr rt ids _ (rootOK_step rr rt id t h)

/-- a filter that keeps the id of what it keeps yields a sublist of the ids -/
theorem ids_sublist {β : Type} (g : Obs β → Option (Obs β))
    (hg : ∀ x y, g x = some y → y.2.1.id = x.2.1.id) :
    ∀ L : List (Obs β), ((L.filterMap g).map (·.2.1.id)).Sublist (L.map (·.2.1.id))
  | [] => by simp
  | x :: r => by
    have ih := ids_sublist g hg r
    rw [List.filterMap_cons]
    cases hx : g x with
    | none => simpa using ih.cons _
    | some y =>
      simp only [List.map_cons]
      rw [hg x y hx]
      exact ih.cons_cons _

theorem stepAllO_id {β : Type} (rt : Bool) (ids : List Int) (x y : Obs β) (h : stepAllO rt ids x = some y) :
    y.2.1.id = x.2.1.id := by
  rw [stepAllO_char] at h
  split at h
  · split at h
    · cases h
      show (if rt then zeroLen x.2.1 else x.2.1).id = x.2.1.id
      cases rt <;> rfl
    · cases h
  · cases h; rfl

/-- `RemoveEdges` leaves the branch ids pairwise distinct -/
theorem uniqueIds_removeEdges (rr rt : Bool) (ids : List Int) (t : T) (hid : uniqueIds t = true)
    (h : RootOK rr t) : uniqueIds (removeEdges rr rt ids t) = true := by
  have hp := removeEdges_obs (fun _ => ()) (fun _ _ _ => rfl) rr rt ids t h
  have hnd : (t.splits.map (·.e.id)).Nodup := by simpa [uniqueIds] using hid
  rw [ids_of_obs (fun _ => ())] at hnd
  have hs := ids_sublist (stepAllO rt ids) (stepAllO_id rt ids) (obsT (fun _ => ()) t)
  have hnd' := hs.nodup hnd
  have : ((obsT (fun _ => ()) (removeEdges rr rt ids t)).map (·.2.1.id)).Nodup :=
    (hp.map _).nodup_iff.mpr hnd'
  rw [← ids_of_obs] at this
  simpa [uniqueIds] using this

/-- what two successive selections do to one observed branch -/
def keepV2 {β : Type} (selV1 selV2 : β × EdgeD × Bool → Bool) (rt1 rt2 : Bool) (x : Obs β) : Option (Obs β) :=
  (keepV selV1 rt1 x).bind (keepV selV2 rt2)

/-- selecting twice by the same criterion is selecting once -/
theorem keepV_idem {β : Type} (selV : β × EdgeD × Bool → Bool) (rt : Bool) (x : Obs β) :
    keepV2 selV selV rt rt x = keepV selV rt x := by
  obtain ⟨a, e, tip, nd⟩ := x
  unfold keepV2 keepV
  cases tip
  · cases h1 : selV (a, e, false) <;> simp [h1]
  · cases h1 : selV (a, e, true)
    · simp [h1]
    · cases rt
      · simp [h1]
      · cases h3 : selV (a, zeroLen e, true) <;> simp [h1, h3, zeroLen_idem]

end Gotree.C07
