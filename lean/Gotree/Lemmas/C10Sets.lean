/-
  C10 lemmas, part B: tip sets as duplicate-free lists.  The count of "ones"
  the code keeps is the symmetric difference of the definition, and a zero
  transfer distance means the same bipartition.
-/
import Gotree.Lemmas.C10

namespace Gotree.C10
open Gotree

/-! ## duplicate-free lists as finite sets -/

theorem nodup_subset_length_le : ∀ {l₁ l₂ : List String}, l₁.Nodup → (∀ x ∈ l₁, x ∈ l₂) →
    l₁.length ≤ l₂.length
  | [], _, _, _ => by simp
  | a :: t, l₂, hn, hs => by
    have ha : a ∈ l₂ := hs a (List.mem_cons_self ..)
    rw [List.nodup_cons] at hn
    have ht : ∀ x ∈ t, x ∈ l₂.erase a := by
      intro x hx
      have hne : x ≠ a := by rintro rfl; exact hn.1 hx
      exact (List.mem_erase_of_ne hne).2 (hs x (List.mem_cons_of_mem _ hx))
    have ih := nodup_subset_length_le hn.2 ht
    rw [List.length_erase_of_mem ha] at ih
    have := List.length_pos_of_mem ha
    simp only [List.length_cons]; omega

theorem subset_of_nodup_length_le {l₁ l₂ : List String} (hn : l₁.Nodup) (hs : ∀ x ∈ l₁, x ∈ l₂)
    (hl : l₂.length ≤ l₁.length) : ∀ x ∈ l₂, x ∈ l₁ := by
  intro x hx
  by_cases h : x ∈ l₁
  · exact h
  · have := nodup_subset_length_le (l₁ := x :: l₁) (l₂ := l₂) (List.nodup_cons.2 ⟨h, hn⟩)
      (by intro y hy
          rcases List.mem_cons.1 hy with rfl | hy
          · exact hx
          · exact hs y hy)
    simp only [List.length_cons] at this; omega

theorem mem_diff {a b : List String} {x : String} : x ∈ diff a b ↔ x ∈ a ∧ x ∉ b := by
  simp [diff]

theorem nodup_diff {a : List String} (b : List String) (h : a.Nodup) : (diff a b).Nodup :=
  List.Nodup.sublist List.filter_sublist h

/-- the part of `a` inside `b` -/
def inter (a b : List String) : List String := a.filter fun x => b.contains x

theorem mem_inter {a b : List String} {x : String} : x ∈ inter a b ↔ x ∈ a ∧ x ∈ b := by
  simp [inter]

theorem length_diff_add_inter (a b : List String) : (diff a b).length + (inter a b).length = a.length := by
  induction a with
  | nil => rfl
  | cons x l ih =>
    simp only [diff, inter, List.filter_cons] at ih ⊢
    by_cases h : b.contains x = true
    · simp only [h, Bool.not_true, Bool.false_eq_true, if_false, if_true, List.length_cons]; omega
    · have h' : b.contains x = false := by simpa using h
      simp only [h', Bool.not_false, if_true, Bool.false_eq_true, if_false, List.length_cons]; omega

theorem inter_length_comm {a b : List String} (ha : a.Nodup) (hb : b.Nodup) :
    (inter a b).length = (inter b a).length := by
  apply List.Perm.length_eq
  refine (List.perm_ext_iff_of_nodup (l₁ := inter a b) (l₂ := inter b a)
    (List.Nodup.sublist List.filter_sublist ha) (List.Nodup.sublist List.filter_sublist hb)).2 ?_
  intro x
  rw [mem_inter, mem_inter]
  exact And.comm

theorem inter_eq_self {a b : List String} (h : ∀ x ∈ a, x ∈ b) : inter a b = a := by
  unfold inter
  rw [List.filter_eq_self]
  intro x hx
  simpa using h x hx

/-- `|all \ below| = n - |below|` -/
theorem length_diff_of_subset {all below : List String} (ha : all.Nodup) (hb : below.Nodup)
    (hs : ∀ x ∈ below, x ∈ all) : (diff all below).length = all.length - below.length := by
  have h1 := length_diff_add_inter all below
  have h2 := inter_length_comm ha hb
  rw [inter_eq_self hs] at h2
  omega

theorem onesOf_eq (light : String → Bool) (L B : List String)
    (h : ∀ x ∈ B, light x = L.contains x) : onesOf light B = (diff B L).length := by
  unfold onesOf diff
  rw [List.countP_eq_length_filter]
  congr 1
  apply List.filter_congr
  intro x hx
  rw [h x hx]

/-- `|L △ B| ≤ n` -/
theorem symDiff_le {all L B : List String} (hL : L.Nodup) (hB : B.Nodup)
    (hLs : ∀ x ∈ L, x ∈ all) (hBs : ∀ x ∈ B, x ∈ all) : symDiff L B ≤ all.length := by
  unfold symDiff
  have hn : (diff L B ++ diff B L).Nodup := by
    rw [List.nodup_append]
    refine ⟨nodup_diff _ hL, nodup_diff _ hB, ?_⟩
    intro a ha b hb hab
    subst hab
    exact (mem_diff.1 ha).2 (mem_diff.1 hb).1
  have := nodup_subset_length_le hn (l₂ := all) (by
    intro x hx
    rcases List.mem_append.1 hx with h | h
    · exact hLs x (mem_diff.1 h).1
    · exact hBs x (mem_diff.1 h).1)
  simpa [List.length_append] using this

/-- the code's distance of one bootstrap branch is the transfer distance of the definition -/
theorem dOf_eq_transferDist {all L B : List String} (light : String → Bool)
    (hL : L.Nodup) (hB : B.Nodup) (hLs : ∀ x ∈ L, x ∈ all) (hBs : ∀ x ∈ B, x ∈ all)
    (hl : ∀ x ∈ B, light x = L.contains x) :
    dOf light (L.length : Int) (all.length : Int) B = ((transferDist L B all.length : Nat) : Int) := by
  unfold dOf edgeDist transferDist
  rw [onesOf_eq light L B hl]
  have h1 := length_diff_add_inter L B
  have h2 := length_diff_add_inter B L
  have h3 := inter_length_comm hL hB
  have h4 := symDiff_le hL hB hLs hBs
  unfold symDiff at h4 ⊢
  simp only []
  split <;> omega

/-! ## a zero transfer distance is the same bipartition -/

theorem setEq_iff {a b : List String} : setEq a b = true ↔ (∀ x, x ∈ a ↔ x ∈ b) := by
  simp only [setEq, subset, Bool.and_eq_true, List.all_eq_true, List.contains_eq_mem, decide_eq_true_eq]
  constructor
  · rintro ⟨h1, h2⟩ x; exact ⟨h1 x, h2 x⟩
  · intro h; exact ⟨fun x hx => (h x).1 hx, fun x hx => (h x).2 hx⟩

theorem sameSplit_iff {all a b : List String} :
    sameSplit all a b = true ↔ (∀ x, x ∈ a ↔ x ∈ b) ∨ (∀ x, x ∈ a ↔ (x ∈ all ∧ x ∉ b)) := by
  unfold sameSplit
  rw [Bool.or_eq_true, setEq_iff, setEq_iff]
  have : ∀ x, x ∈ all.filter (fun x => !b.contains x) ↔ (x ∈ all ∧ x ∉ b) := by
    intro x; simp
  simp only [this]

theorem transferDist_zero {all L B : List String} (hL : L.Nodup) (hB : B.Nodup)
    (hLs : ∀ x ∈ L, x ∈ all) (hBs : ∀ x ∈ B, x ∈ all)
    (h : transferDist L B all.length = 0) : sameSplit all L B = true := by
  rw [sameSplit_iff]
  unfold transferDist at h
  have hle := symDiff_le hL hB hLs hBs
  have h1 := length_diff_add_inter L B
  have h2 := length_diff_add_inter B L
  have h3 := inter_length_comm hL hB
  by_cases h0 : symDiff L B = 0
  · left
    unfold symDiff at h0
    have e1 : diff L B = [] := List.eq_nil_of_length_eq_zero (by omega)
    have e2 : diff B L = [] := List.eq_nil_of_length_eq_zero (by omega)
    intro x
    constructor
    · intro hx
      by_cases hb : x ∈ B
      · exact hb
      · have : x ∈ diff L B := mem_diff.2 ⟨hx, hb⟩
        rw [e1] at this; cases this
    · intro hx
      by_cases hl : x ∈ L
      · exact hl
      · have : x ∈ diff B L := mem_diff.2 ⟨hx, hl⟩
        rw [e2] at this; cases this
  · right
    have hsd : symDiff L B = all.length := by omega
    unfold symDiff at hsd
    -- L ++ (B \ L) is duplicate-free inside `all`
    have hn : (L ++ diff B L).Nodup := by
      rw [List.nodup_append]
      refine ⟨hL, nodup_diff _ hB, ?_⟩
      intro a ha' b hb hab
      subst hab
      exact (mem_diff.1 hb).2 ha'
    have hsub : ∀ x ∈ L ++ diff B L, x ∈ all := by
      intro x hx
      rcases List.mem_append.1 hx with h | h
      · exact hLs x h
      · exact hBs x (mem_diff.1 h).1
    have hlen := nodup_subset_length_le hn hsub
    rw [List.length_append] at hlen
    -- so the intersection is empty and the union is everything
    have hi : (inter L B).length = 0 := by omega
    have hi' : inter L B = [] := List.eq_nil_of_length_eq_zero hi
    have hall : ∀ x ∈ all, x ∈ L ++ diff B L :=
      subset_of_nodup_length_le hn hsub (by rw [List.length_append]; omega)
    intro x
    constructor
    · intro hx
      refine ⟨hLs x hx, fun hb => ?_⟩
      have : x ∈ inter L B := mem_inter.2 ⟨hx, hb⟩
      rw [hi'] at this; cases this
    · rintro ⟨hxa, hxb⟩
      rcases List.mem_append.1 (hall x hxa) with h | h
      · exact h
      · exact absurd (mem_diff.1 h).1 hxb

/-! ## the split list of a tree with unique tips -/

mutual
theorem below_nodup : ∀ (t : T), t.leaves.Nodup → ∀ s ∈ t.splitsBelow, s.below.Nodup
  | .node _ _ [], _ => by simp [T.splitsBelow, splitsL]
  | .node _ _ (k :: ks), h => by
    simpa [T.splitsBelow] using below_nodupL (k :: ks) (by simpa [T.leaves] using h)
theorem below_nodupL : ∀ (k : Kids), (leavesL k).Nodup → ∀ s ∈ splitsL k, s.below.Nodup
  | [], _ => by simp [splitsL]
  | (e, t) :: r, h => by
    intro s hs
    simp only [leavesL, List.nodup_append] at h
    simp only [splitsL, List.mem_cons, List.mem_append] at hs
    rcases hs with rfl | hs | hs
    · exact h.1
    · exact below_nodup t h.1 s hs
    · exact below_nodupL r h.2.1 s hs
end

theorem tipNames_of_rootNotTip (t : T) (h : (t.kids.length != 1) = true) : t.tipNames = leavesL t.kids := by
  unfold T.tipNames
  have : (t.kids.length == 1) = false := by simpa using h
  simp [this]

/-- unique tips, the root not a tip -/
theorem treeOK_facts (t : T) (h : treeOK t = true) :
    t.tipNames.Nodup ∧ t.tipNames = leavesL t.kids ∧ t.kids.length ≠ 1 ∧
    ∀ s ∈ t.splits, s.below.Nodup ∧ ∀ x ∈ s.below, x ∈ t.tipNames := by
  simp only [treeOK, reinitOk, Bool.and_eq_true, decide_eq_true_eq] at h
  obtain ⟨⟨hn, _⟩, hr⟩ := h
  have ht := tipNames_of_rootNotTip t hr
  refine ⟨hn, ht, by simpa using hr, ?_⟩
  intro s hs
  rw [ht] at hn ⊢
  exact ⟨below_nodupL t.kids hn s hs, C14.below_subL t.kids s hs⟩

/-! ## the light side of a reference branch -/

section light
variable {all below : List String}

theorem lightSide_nodup (ha : all.Nodup) (hb : below.Nodup) : (lightSide all below).Nodup := by
  unfold lightSide; split
  · exact nodup_diff _ ha
  · exact hb

theorem lightSide_subset (hs : ∀ x ∈ below, x ∈ all) : ∀ x ∈ lightSide all below, x ∈ all := by
  unfold lightSide; split
  · intro x hx; exact (mem_diff.1 hx).1
  · exact hs

theorem lightSide_length (ha : all.Nodup) (hb : below.Nodup) (hs : ∀ x ∈ below, x ∈ all) :
    (lightSide all below).length = depth all below := by
  have hle := nodup_subset_length_le hb hs
  unfold lightSide depth; split
  · rw [length_diff_of_subset ha hb hs]; omega
  · omega

theorem lightOf_eq (s : SplitE) (x : String) (hx : x ∈ all) :
    lightOf all.length s x = (lightSide all s.below).contains x := by
  unfold lightOf lightSide
  simp only []
  split
  · have : (diff all s.below).contains x = !s.below.contains x := by
      by_cases h : x ∈ s.below <;> simp [diff, h, hx]
    rw [this]
  · rfl

/-- the split of the light side is the split of the branch -/
theorem sameSplit_lightSide (B : List String) (hs : ∀ x ∈ below, x ∈ all) (hB : ∀ x ∈ B, x ∈ all) :
    sameSplit all (lightSide all below) B = sameSplit all below B := by
  unfold lightSide; split
  · rw [Bool.eq_iff_iff, sameSplit_iff, sameSplit_iff]
    constructor
    · rintro (h | h)
      · right
        intro x
        constructor
        · intro hx
          refine ⟨hs x hx, fun hb => ?_⟩
          exact (mem_diff.1 ((h x).2 hb)).2 hx
        · rintro ⟨hxa, hxb⟩
          by_cases hx : x ∈ below
          · exact hx
          · exact absurd ((h x).1 (mem_diff.2 ⟨hxa, hx⟩)) hxb
      · left
        intro x
        constructor
        · intro hx
          by_cases hb : x ∈ B
          · exact hb
          · exact absurd ((h x).2 ⟨hs x hx, hb⟩) (by intro h'; exact (mem_diff.1 h').2 hx)
        · intro hb
          by_cases hx : x ∈ below
          · exact hx
          · exact absurd hb ((h x).1 (mem_diff.2 ⟨hB x hb, hx⟩)).2
    · rintro (h | h)
      · right
        intro x
        constructor
        · intro hx
          exact ⟨(mem_diff.1 hx).1, fun hb => (mem_diff.1 hx).2 ((h x).2 hb)⟩
        · rintro ⟨hxa, hxb⟩
          exact mem_diff.2 ⟨hxa, fun hx => hxb ((h x).1 hx)⟩
      · left
        intro x
        constructor
        · intro hx
          by_cases hb : x ∈ B
          · exact hb
          · exact absurd ((h x).2 ⟨(mem_diff.1 hx).1, hb⟩) (mem_diff.1 hx).2
        · intro hb
          exact mem_diff.2 ⟨hB x hb, fun hx => ((h x).1 hx).2 hb⟩
  · rfl

end light

theorem foldl_min_cast (l : List Nat) (a : Nat) :
    ((l.foldl min a : Nat) : Int) = (l.map fun (x : Nat) => ((x : Nat) : Int)).foldl min (a : Int) := by
  induction l generalizing a with
  | nil => rfl
  | cons x l ih =>
    simp only [List.foldl_cons, List.map_cons]
    rw [ih]
    congr 1
    omega

theorem foldl_min_le (l : List Nat) (a : Nat) : l.foldl min a ≤ a := by
  induction l generalizing a with
  | nil => exact Nat.le_refl _
  | cons x l ih =>
    simp only [List.foldl_cons]
    have := ih (min a x)
    omega

theorem minTransfer_le (L : List String) (n : Nat) (b : T) : minTransfer L n b ≤ L.length - 1 :=
  foldl_min_le _ _

theorem sameTaxa_iff {r b : T} : sameTaxa r b = true ↔ ∀ x, x ∈ r.tipNames ↔ x ∈ b.tipNames := setEq_iff

/-- what `topoDepth > 1` says -/
theorem topoDepth_gt_one {n : Nat} {s : SplitE} (h : 1 < topoDepth n s) :
    topoDepth n s = ((min s.below.length (n - s.below.length) : Nat) : Int) ∧
    2 ≤ s.below.length ∧ 2 ≤ n - s.below.length := by
  unfold topoDepth at h ⊢
  simp only [] at h ⊢
  by_cases hc : ((n - s.below.length == 0) || (s.below.length == 0)) = true
  · rw [if_pos hc] at h; omega
  · rw [if_neg hc] at h ⊢
    simp only [Bool.or_eq_true, beq_iff_eq, not_or] at hc
    refine ⟨by omega, by omega, by omega⟩

/-- ★ `MinTransferDist` is the least transfer distance to a branch of the bootstrap tree -/
theorem minTransferDist_eq_minTransfer (r b : T) (s : SplitE) (absent : Bool)
    (hr : treeOK r = true) (hb : treeOK b = true) (hT : sameTaxa r b = true) (hs : s ∈ r.splits)
    (hp : 1 < topoDepth (ntips r) s)
    (habs : absent = true → containsSplit r.tipNames s.below b = false) :
    minTransferDist (lightOf (ntips r) s) (topoDepth (ntips r) s) (ntips r) absent b =
      ((minTransfer (lightSide r.tipNames s.below) (ntips r) b : Nat) : Int) := by
  obtain ⟨hrn, _, _, hrs⟩ := treeOK_facts r hr
  obtain ⟨hbn, _, hbroot, hbs⟩ := treeOK_facts b hb
  obtain ⟨hsn, hss⟩ := hrs s hs
  have hT' := sameTaxa_iff.1 hT
  obtain ⟨hp1, hp2, hp3⟩ := topoDepth_gt_one hp
  have hLn := lightSide_nodup hrn hsn
  have hLs := lightSide_subset hss
  have hLl := lightSide_length hrn hsn hss
  have hpL : topoDepth (ntips r) s = ((lightSide r.tipNames s.below).length : Int) := by
    rw [hp1, hLl]; rfl
  have hL2 : 2 ≤ (lightSide r.tipNames s.below).length := by
    rw [hLl]; unfold depth; unfold ntips at hp3; omega
  -- every bootstrap branch: the code's distance is the definition's
  have hd : ∀ s' ∈ b.splits, dOf (lightOf (ntips r) s) (topoDepth (ntips r) s) (ntips r) s'.below =
      ((transferDist (lightSide r.tipNames s.below) s'.below (ntips r) : Nat) : Int) := by
    intro s' hs'
    obtain ⟨hn', hsub'⟩ := hbs s' hs'
    rw [hpL]
    exact dOf_eq_transferDist (all := r.tipNames) _ hLn hn' hLs (fun x hx => (hT' x).2 (hsub' x hx))
      (fun x hx => lightOf_eq s x ((hT' x).2 (hsub' x hx)))
  rw [minTransferDist_eq_fold _ _ _ _ _ (by omega) hbroot]
  · unfold minTransfer
    rw [foldl_min_cast, List.map_map]
    have e1 : (b.splits.map fun s' => dOf (lightOf (ntips r) s) (topoDepth (ntips r) s) (ntips r) s'.below) =
        b.splits.map ((fun (x : Nat) => ((x : Nat) : Int)) ∘ fun s' => transferDist (lightSide r.tipNames s.below) s'.below (ntips r)) :=
      List.map_congr_left (fun s' hs' => hd s' hs')
    rw [e1, hpL]
    congr 1
    omega
  · intro ha s' hs'
    rw [hd s' hs']
    obtain ⟨hn', hsub'⟩ := hbs s' hs'
    have hsubr : ∀ x ∈ s'.below, x ∈ r.tipNames := fun x hx => (hT' x).2 (hsub' x hx)
    by_cases h0 : transferDist (lightSide r.tipNames s.below) s'.below (ntips r) = 0
    · exfalso
      have h1 := transferDist_zero (all := r.tipNames) hLn hn' hLs hsubr h0
      rw [sameSplit_lightSide s'.below hss hsubr] at h1
      have h2 := habs ha
      unfold containsSplit at h2
      rw [List.any_eq_false] at h2
      exact h2 s' hs' h1
    · omega

end Gotree.C10
