// vh — the verification harness: runs the real gotree code on generated cases
// and prints one case line per case for the Lean driver.
//
//	vh <property> [-seed N] [-tier quick|thorough] [-gotree path] [-tmp dir] [-arg s]
package main

import (
	"bufio"
	"flag"
	"fmt"
	"os"

	"verifharness/c14"
	"verifharness/core"
)

var runners = map[string]func(*core.Ctx){
	"C14": c14.Run,
}

func main() {
	if len(os.Args) < 2 {
		fmt.Fprintln(os.Stderr, "usage: vh <property> [flags]")
		os.Exit(2)
	}
	prop := os.Args[1]
	fs := flag.NewFlagSet("vh", flag.ExitOnError)
	seed := fs.Int64("seed", 1, "PRNG seed")
	tier := fs.String("tier", "quick", "quick|thorough")
	gotree := fs.String("gotree", "", "gotree binary")
	tmp := fs.String("tmp", os.TempDir(), "scratch dir")
	arg := fs.String("arg", "", "extra argument")
	fs.Parse(os.Args[2:])
	run, ok := runners[prop]
	if !ok {
		fmt.Fprintln(os.Stderr, "unknown property", prop)
		os.Exit(2)
	}
	w := bufio.NewWriterSize(os.Stdout, 1<<20)
	defer w.Flush()
	c := &core.Ctx{G: core.NewG(*seed), Seed: *seed, Tier: *tier, W: w, Gotree: *gotree, Tmp: *tmp, Arg: *arg}
	run(c)
}
