/-
  C04 — `computeDepthRecurRooted` (model `depthRootedT`) is "distance to the closest tip below" (`downT`, pre-order).
-/
import Gotree.Spec.C04

namespace Gotree.C04
open Gotree

mutual
theorem depthRootedT_eq : ∀ t : T, depthRootedT t = downPreT t ∧ (depthRootedT t).headD 0 = downT t
  | .node d p [] => by simp [depthRootedT, downPreT, downT, downPreL]
  | .node d p (k :: ks) => by
    have h := depthRootedL_eq (k :: ks)
    simp only [depthRootedT, downPreT, downT, h.1, h.2, List.headD_cons, and_self]
theorem depthRootedL_eq : ∀ k : Kids, (depthRootedL k).1 = downL k ∧ (depthRootedL k).2 = downPreL k
  | [] => by simp [depthRootedL, downL, downPreL]
  | (e, t) :: r => by
    have h1 := depthRootedT_eq t
    have h2 := depthRootedL_eq r
    simp only [depthRootedL, downL, downPreL, h1.1, h2.1, h2.2]
    rw [← h1.1, h1.2]
    simp
end

end Gotree.C04
