/-
  C15 — lemmas about the copies (`Clone`, `SubTree`).  Core Lean only.
-/
import Gotree.Lemmas.C15

namespace Gotree.C15
open Gotree Gotree.C14

/-! ## a copy under a table that copies every observable field is the tree with `ppos` reset -/

theorem copyNodeBy_eq {tb : Table} (h : allObservableFieldsCopied tb = true) (d : NodeD) : copyNodeBy tb d = d := by
  simp only [allObservableFieldsCopied, observableFields, List.all_cons, List.all_nil, Bool.and_true, Bool.and_eq_true] at h
  obtain ⟨h1, h2, -⟩ := h
  simp [copyNodeBy, h1, h2]

theorem copyEdgeBy_eq {tb : Table} (h : allObservableFieldsCopied tb = true) (e : EdgeD) : copyEdgeBy tb e = e := by
  simp only [allObservableFieldsCopied, observableFields, List.all_cons, List.all_nil, Bool.and_true, Bool.and_eq_true] at h
  obtain ⟨-, -, -, h4, h5, h6, h7, h8⟩ := h
  simp [copyEdgeBy, h4, h5, h6, h7, h8]

mutual
theorem copyRecBy_eq {tb : Table} (h : allObservableFieldsCopied tb = true) : ∀ (t : T), copyRecBy tb t = zeroPpos t
  | .node d p k => by simp [copyRecBy, zeroPpos, copyNodeBy_eq h, copyKidsBy_eq h k]
theorem copyKidsBy_eq {tb : Table} (h : allObservableFieldsCopied tb = true) : ∀ (k : Kids), copyKidsBy tb k = zeroPposL k
  | [] => by simp [copyKidsBy, zeroPposL]
  | (e, t) :: r => by simp [copyKidsBy, zeroPposL, copyEdgeBy_eq h, copyRecBy_eq h t, copyKidsBy_eq h r]
end

/-! ## `zeroPpos` changes nothing any enumeration sees -/

theorem zeroPposL_length : ∀ (k : Kids), (zeroPposL k).length = k.length
  | [] => rfl
  | (_, _) :: r => by simp [zeroPposL, zeroPposL_length r]

theorem zeroPpos_kids (t : T) : (zeroPpos t).kids = zeroPposL t.kids := by
  cases t; simp [zeroPpos]

theorem zeroPpos_d (t : T) : (zeroPpos t).d = t.d := by
  cases t; simp [zeroPpos]

theorem zeroPpos_isLeaf (t : T) : (zeroPpos t).isLeaf = t.isLeaf := by
  cases t with
  | node d p k => cases k with
    | nil => simp [zeroPpos, zeroPposL, T.isLeaf]
    | cons x r => obtain ⟨e, c⟩ := x; simp [zeroPpos, zeroPposL, T.isLeaf]

mutual
theorem zeroPpos_leaves : ∀ (t : T), (zeroPpos t).leaves = t.leaves
  | .node d p [] => by simp [zeroPpos, zeroPposL, T.leaves]
  | .node d p ((e, c) :: r) => by
    have := zeroPposL_leaves ((e, c) :: r)
    simpa [zeroPpos, zeroPposL, T.leaves] using this
theorem zeroPposL_leaves : ∀ (k : Kids), leavesL (zeroPposL k) = leavesL k
  | [] => rfl
  | (e, t) :: r => by simp [zeroPposL, leavesL, zeroPpos_leaves t, zeroPposL_leaves r]
end

mutual
theorem zeroPpos_splitsBelow : ∀ (t : T), (zeroPpos t).splitsBelow = t.splitsBelow
  | .node d p k => by simp [zeroPpos, zeroPposL_splits k]
theorem zeroPposL_splits : ∀ (k : Kids), splitsL (zeroPposL k) = splitsL k
  | [] => rfl
  | (e, t) :: r => by
    simp [zeroPposL, splitsL, zeroPpos_leaves t, zeroPpos_isLeaf t, zeroPpos_splitsBelow t, zeroPposL_splits r]
end

theorem zeroPpos_splits (t : T) : (zeroPpos t).splits = t.splits := by
  simp [T.splits, zeroPpos_kids, zeroPposL_splits]

theorem zeroPpos_tipNames (t : T) : (zeroPpos t).tipNames = t.tipNames := by
  simp [T.tipNames, T.name, zeroPpos_kids, zeroPpos_d, zeroPposL_length, zeroPposL_leaves]

theorem zeroPpos_dist (t : T) (a b : String) : (zeroPpos t).dist a b = t.dist a b := by
  simp [T.dist, zeroPpos_splits]

mutual
theorem zeroPpos_nodeNames : ∀ (t : T), (zeroPpos t).nodeNames = t.nodeNames
  | .node d p k => by simp [zeroPpos, T.nodeNames, zeroPposL_nodeNames k]
theorem zeroPposL_nodeNames : ∀ (k : Kids), nodeNamesL (zeroPposL k) = nodeNamesL k
  | [] => rfl
  | (e, t) :: r => by simp [zeroPposL, nodeNamesL, zeroPpos_nodeNames t, zeroPposL_nodeNames r]
end

mutual
theorem zeroPpos_idem : ∀ (t : T), zeroPpos (zeroPpos t) = zeroPpos t
  | .node d p k => by simp [zeroPpos, zeroPposL_idem k]
theorem zeroPposL_idem : ∀ (k : Kids), zeroPposL (zeroPposL k) = zeroPposL k
  | [] => rfl
  | (e, t) :: r => by simp [zeroPposL, zeroPpos_idem t, zeroPposL_idem r]
end

/-! ## the structural equality test is reflexive -/

theorem nodeD_beq_refl (d : NodeD) : (d == d) = true := by
  cases d with
  | mk n c =>
    have h : (c == c) = true := beq_self_eq_true c
    simp [BEq.beq, instBEqNodeD.beq] at h ⊢
    exact h

theorem edgeD_beq_refl (e : EdgeD) : (e == e) = true := by
  cases e with
  | mk a b c d i =>
    have h : (d == d) = true := beq_self_eq_true d
    simp [BEq.beq, instBEqEdgeD.beq] at h ⊢
    exact h

mutual
theorem beq_refl_go : ∀ (t : T), T.beq t t = true
  | .node d p k => by simp [T.beq, nodeD_beq_refl, beqL_refl_go k]
theorem beqL_refl_go : ∀ (k : Kids), T.beqL k k = true
  | [] => by simp [T.beqL]
  | (e, t) :: r => by simp [T.beqL, edgeD_beq_refl, beq_refl_go t, beqL_refl_go r]
end

theorem beq_refl_T (t : T) : (t == t) = true := beq_refl_go t

/-! ## the node at a path: distances between the leaves below it are those of the whole tree -/

theorem getElem?_split {α : Type} : ∀ (l : List α) (i : Nat) (x : α), l[i]? = some x → ∃ pre post, l = pre ++ x :: post
  | [], i, x, h => by simp at h
  | a :: r, 0, x, h => by simp at h; exact ⟨[], r, by simp [h]⟩
  | a :: r, i + 1, x, h => by
    simp at h
    obtain ⟨pre, post, hp⟩ := getElem?_split r i x h
    exact ⟨a :: pre, post, by simp [hp]⟩

/-- below one child, with leaf names unique among the siblings, only that child's branches matter -/
theorem distW_into_kid (w : EdgeD → Rat) (pre post : Kids) (e : EdgeD) (c : T) (a b : String)
    (hu : (leavesL (pre ++ (e, c) :: post)).Nodup) (ha : a ∈ c.leaves) (hb : b ∈ c.leaves) :
    distW w (splitsL (pre ++ (e, c) :: post)) a b = distW w c.splitsBelow a b := by
  rw [leavesL_append] at hu
  simp only [leavesL] at hu
  have hd := List.nodup_append.mp hu
  have hd2 := List.nodup_append.mp hd.2.1
  have na : ∀ x ∈ c.leaves, x ∉ leavesL pre := fun x hx hp => hd.2.2 x hp x (by simp [hx]) rfl
  have nb : ∀ x ∈ c.leaves, x ∉ leavesL post := fun x hx hp => hd2.2.2 x hx x hp rfl
  rw [splitsL_append, distW_append]
  simp only [splitsL]
  rw [distW_cons, distW_append,
    distW_both_out w (splitsL pre) a b (out_of_subL _ _ (na a ha)) (out_of_subL _ _ (na b hb)),
    distW_both_out w (splitsL post) a b (out_of_subL _ _ (nb a ha)) (out_of_subL _ _ (nb b hb)),
    sep_of_both_in _ a b ha hb]
  simp [Rat.zero_add, Rat.add_zero]

theorem nodup_kid_leaves (pre post : Kids) (e : EdgeD) (c : T)
    (hu : (leavesL (pre ++ (e, c) :: post)).Nodup) : c.leaves.Nodup := by
  rw [leavesL_append] at hu
  simp only [leavesL] at hu
  exact (List.nodup_append.mp (List.nodup_append.mp hu).2.1).1

theorem nodeAt_dist (w : EdgeD → Rat) : ∀ (path : List Nat) (t n : T), nodeAt t path = some n →
    (leavesL t.kids).Nodup → ∀ a b, a ∈ leavesL n.kids → b ∈ leavesL n.kids →
    distW w (splitsL n.kids) a b = distW w (splitsL t.kids) a b
  | [], t, n, h, _, a, b, _, _ => by simp [nodeAt] at h; subst h; rfl
  | i :: r, t, n, h, hu, a, b, ha, hb => by
    simp only [nodeAt] at h
    split at h
    · rename_i e c hc
      obtain ⟨pre, post, hp⟩ := getElem?_split _ _ _ hc
      rw [hp] at hu ⊢
      have huc := nodup_kid_leaves pre post e c hu
      cases c with
      | node d p k =>
        cases k with
        | nil =>
          -- a leaf: the only node below is itself, which has no children
          cases r with
          | nil => simp [nodeAt] at h; subst h; simp [leavesL] at ha
          | cons j r' => simp [nodeAt] at h
        | cons x k' =>
          have huk : (leavesL (T.node d p (x :: k')).kids).Nodup := by
            simpa [leaves_node_cons] using huc
          have ih := nodeAt_dist w r (T.node d p (x :: k')) n h huk a b ha hb
          rw [ih]
          have sub : ∀ y, y ∈ leavesL n.kids → y ∈ (T.node d p (x :: k')).leaves := by
            intro y hy
            exact nodeAt_leaves_sub r (T.node d p (x :: k')) n h y hy
          rw [distW_into_kid w pre post e _ a b hu (sub a ha) (sub b hb)]
          simp
    · cases h
where
  nodeAt_leaves_sub : ∀ (path : List Nat) (t n : T), nodeAt t path = some n → ∀ y, y ∈ leavesL n.kids → y ∈ t.leaves
    | [], t, n, h, y, hy => by
      simp [nodeAt] at h; subst h
      cases t with
      | node d p k => cases k with
        | nil => simp [leavesL] at hy
        | cons x r => simpa [leaves_node_cons] using hy
    | i :: r, t, n, h, y, hy => by
      simp only [nodeAt] at h
      split at h
      · rename_i e c hc
        obtain ⟨pre, post, hp⟩ := getElem?_split _ _ _ hc
        have := nodeAt_leaves_sub r c n h y hy
        cases t with
        | node d p k =>
          simp only [T.kids_node] at hp
          subst hp
          cases pre with
          | nil => simp [T.leaves, leavesL, this]
          | cons z pre' => simp [T.leaves, leavesL, leavesL_append, this]
      · cases h

end Gotree.C15
