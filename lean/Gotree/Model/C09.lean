/-
  C09 — model of `tree.Consensus` (tree/algo.go:271-385) with what it calls:
  `UnRoot` (tree/tree.go:1460, only the part Consensus depends on), the per-tree
  re-indexing (`ReinitIndexes`: tip index = sorted tip names, a bitset per branch
  = the tips below it), `AllTipNames`, `StarTreeFromTree`/`StarTree`
  (tree/treegen.go:246,288), the taxon check, `EdgeIndex.AddEdgeCount` /
  `EdgeIndex.Edges` (tree/edgeindex.go:54,85), the tip-length update, and the
  insertion of a kept bipartition (`LeastCommonAncestorUnrooted` +
  `AddBipartition`, tree/algo.go:35,207).

  Modelling decisions (DESIGN §3.4, §6 C09):
  * A bitset over the tip index (the sorted tip names `univ`) is the sublist of
    `univ` of the tips below the branch; `EqualOrComplement` is `eqc`.  The hash map is an association list
    in insertion order whose key is the first presentation seen (as in Go, where
    the key is the first `*Edge` stored); `HashCode` only selects a bucket, so
    the iteration order of `KeyValues()` is an explicit argument `ord` and every
    theorem holds for every `ord` that permutes its argument.
  * `int(cutoff*float64(n))` is `⌊c·n⌋` on exact rationals (the float product is
    outside the model; the harness checks per case that both agree).
  * Go sums `e.Length()` as it is: an absent length contributes the sentinel -1.
  * The insertion walk of Go is rooted at a temporary tip; the model performs the
    same grouping seen from the star's centre (which stays the root).  The branch
    set, the data of every branch and the error conditions are the same; child
    order / parent positions of the *result* are not modelled (obs_C09 is order
    free).  `AddBipartition`'s refusal (`len(edges) ≤ 1 ∨ len(edges) ≥ deg-1`)
    is ignored by `Consensus` and so it is here.
  * An input tree whose root is itself a tip is re-rooted at the neighbour of that tip
    before anything else (`rerootTip`, since 5a3a76a); a tree that still has a root with
    fewer than two neighbours (a single node, two tips) is outside the property's domain:
    the model answers `unsupported`.
-/
import Gotree.Model.Core

namespace Gotree.C09
open Gotree

/-- Outcome of `Consensus`. -/
inductive Out where
  | ok (t : T)
  | err (cls : String)      -- "range" | "taxa" | "dup" | "startree" | "side" | "lca" | "mono" | "empty"
  | panic                   -- not produced any more (before 29626f3: empty collection, nil star tree dereferenced)
  | unsupported             -- a root with < 2 neighbours
  deriving Inhabited

def Out.cls : Out → String
  | .ok _ => "ok" | .err _ => "err" | .panic => "panic" | .unsupported => "unsupported"

/-- Go's `sort.Slice` with `strings.Compare` on names (insertion sort: the result
    is the sorted list whatever the algorithm; structural, so that the kernel can
    evaluate the concrete witnesses). -/
def insertS (a : String) : List String → List String
  | [] => [a]
  | b :: r => if a ≤ b then a :: b :: r else b :: insertS a r

def sortN (l : List String) : List String := l.foldr insertS []

/-- `math.Max(0, x)` -/
def max0 (x : Rat) : Rat := if x < 0 then 0 else x

def maxR (a b : Rat) : Rat := if a < b then b else a

/-- `Tree.UnRoot` (tree/tree.go:1460).  The first child of the root becomes the
    root unless it is a tip; the other one is appended to its neighbours. -/
def unroot : T → T
  | .node _ _ [(e1, .node d1 _ k1), (e2, .node d2 _ k2)] =>
    let len3 := if e1.len != NIL || e2.len != NIL then max0 e1.len + max0 e2.len else NIL
    let sup3 := if !k1.isEmpty && !k2.isEmpty && (e1.sup != NIL || e2.sup != NIL)
      then maxR (max0 e1.sup) (max0 e2.sup) else NIL
    let e3 : EdgeD := ⟨len3, sup3, NIL, [], -1⟩
    if k1.isEmpty then .node d2 0 (k2 ++ [(e3, .node d1 0 [])])
    else .node d1 0 (k1 ++ [(e3, .node d2 k2.length k2)])
  | t => t

/- `Tree.RemoveSingleNodes` (tree/tree.go:1280), called on every input tree since fix
   5dad91e: post-order, every non-root node with exactly one child is removed; the
   child's branch gets the added lengths (`max(0,·)` rule, absent only if both are) and
   the larger support.  `removeSinglesT e t` is the (branch, subtree) that replaces the
   child `(e, t)` of its parent.  (Go re-attaches the grandchild at the end of the
   parent's neighbour list; the position is not modelled, obs_C09 is order free.) -/
mutual
def removeSinglesT (e : EdgeD) : T → EdgeD × T
  | .node d p k =>
    match removeSinglesL k with
    | [(ec, c)] =>
      ({ ec with
          len := if ec.len != NIL || e.len != NIL then max0 ec.len + max0 e.len else ec.len,
          sup := maxR ec.sup e.sup }, c)
    | k' => (e, .node d p k')
def removeSinglesL : Kids → Kids
  | [] => []
  | (e, t) :: r => removeSinglesT e t :: removeSinglesL r
end

def removeSingles : T → T
  | .node d p k => .node d p (removeSinglesL k)

/-- `Tree.AllTipNames`: since 9642e30 a root with one neighbour is reported and the
    traversal goes on below it (the order of `Tips()`); before, it was reported alone. -/
def allTipNames (t : T) : List String :=
  (if t.kids.length == 1 then [t.name] else []) ++ leavesL t.kids

/-- some element occurs twice -/
def hasDup : List String → Bool
  | [] => false
  | a :: r => r.contains a || hasDup r

/-- `UpdateTipIndex` fails when two tips have the same name. -/
def dupTips (t : T) : Bool := hasDup t.tipNames

/-- `all \ side` (keeps the order of `all`). -/
def compl (all side : List String) : List String := all.filter (fun x => !side.contains x)

/-- `bitset.EqualOrComplement` on sorted name lists over the sorted universe `all`. -/
def eqc (all a b : List String) : Bool := a == b || a == compl all b

/-- Value stored in the edge index (`KeyValue` + `EdgeIndexInfo`). -/
structure Entry where
  key : List String      -- bitset of the first branch stored with this bipartition
  count : Nat
  len : Rat              -- sum of the lengths (`Len`)
  deriving Repr, BEq, DecidableEq

/-- `EdgeIndex.AddEdgeCount`: look the bipartition up, add 1 and the length, or
    store a new entry. -/
def addCount (all : List String) : List Entry → List String → Rat → List Entry
  | [], k, l => [⟨k, 1, l⟩]
  | x :: r, k, l =>
    if eqc all x.key k then { x with count := x.count + 1, len := x.len + l } :: r
    else x :: addCount all r k l

/-- the bitset of a branch over the tip index `univ` (sorted tip names): bit `i`
    is set iff tip `i` is below the branch (`UpdateBitSet`) -/
def bits (univ below : List String) : List String := univ.filter below.contains

/-- the (bitset, length) of every branch, in `Edges()` order -/
def edgeKeys (univ : List String) (t : T) : List (List String × Rat) :=
  t.splits.map fun s => (bits univ s.below, s.e.len)

/-- `AddEdgeCount` over a list of branches -/
def addKeys (all : List String) (idx : List Entry) (l : List (List String × Rat)) : List Entry :=
  l.foldl (fun acc kl => addCount all acc kl.1 kl.2) idx

def addTree (all : List String) (idx : List Entry) (t : T) : List Entry :=
  addKeys all idx (edgeKeys all t)

/-- no two bitsets of the list are equal or complementary -/
def pairwiseNe (all : List String) : List (List String) → Bool
  | [] => true
  | a :: r => r.all (fun b => !eqc all a b) && pairwiseNe all r

/-- hypothesis "no two branches of the tree define the same bipartition" (true for
    a tree with unique tips, no single-child node and a root of degree ≥ 3) -/
def distinctKeys (all : List String) (t : T) : Bool := pairwiseNe all ((edgeKeys all t).map (·.1))

/-- `EdgeIndex.Edges(min, max)`: `]min, max]` plus `== max`. -/
def keep (m n : Nat) (x : Entry) : Bool := (x.count > m && x.count ≤ n) || x.count == n

def selectEntries (m n : Nat) (l : List Entry) : List Entry := l.filter (keep m n)

/-- `int(cutoff*float64(nbtrees))` on exact rationals. -/
def floorCut (c : Rat) (n : Nat) : Nat := (c * (n : Rat)).floor.toNat

/-- `StarTreeFromTree`: one tip per tip branch of the tree, with its length. -/
def starOf (t : T) : T :=
  .node ⟨"", []⟩ 0 ((t.splits.filter (·.tip)).map fun s =>
    ((⟨s.e.len, NIL, NIL, [], -1⟩ : EdgeD), T.leaf (s.below.headD "")))

/- `t.br[0].SetLength(v)` on the tip named `a`: `setTipLenT a v e t` gives the
   (branch, subtree) pair after the update, `e` being the branch above `t`. -/
mutual
def setTipLenT (a : String) (v : Rat) (e : EdgeD) : T → EdgeD × T
  | .node d p [] => if d.name == a then ({ e with len := v }, .node d p []) else (e, .node d p [])
  | .node d p (k :: ks) => (e, .node d p (setTipLenL a v (k :: ks)))
def setTipLenL (a : String) (v : Rat) : Kids → Kids
  | [] => []
  | (e, t) :: r => setTipLenT a v e t :: setTipLenL a v r
end

def setTipLen (a : String) (v : Rat) : T → T
  | .node d p k => .node d p (setTipLenL a v k)

/-- number of leaves of `t` that are in `S` -/
def com (S : List String) (t : T) : Nat := (t.leaves.filter S.contains).length

def comL (S : List String) (k : Kids) : Nat := ((leavesL k).filter S.contains).length

/-- what `AddBipartition` does to a moved branch: a fresh edge with the same
    length, support and p-value (comments and id are not copied) -/
def moved (et : EdgeD × T) : EdgeD × T :=
  (⟨et.1.len, et.1.sup, et.1.pval, [], -1⟩, match et.2 with | .node d _ k => .node d k.length k)

def newEdge (len sup : Rat) : EdgeD := ⟨len, sup, NIL, [], -1⟩

inductive Ins where
  | done (k : Kids)          -- the kids of the node after the insertion below it
  | lift (k : Kids) (up : Kids) -- "parent side grouped": the node keeps `k`; `up` moves to the new node above it
  | fail (why : String)

/-- replace the kids of a node -/
def withKids (t : T) (k : Kids) : T := match t with | .node d p _ => .node d p k

/- Insertion of the bipartition `S | rest` (|S| = `tot`, `n` tips in all) seen from
   the centre.  `insK isRoot outside pre rest`: `outside` = number of leaves that
   are not below this node, `pre ++ rest` its kids, `rest` still to be scanned for
   a child that contains tips of both sides (`pre` has none).  -/
mutual
def insT (S : List String) (tot n : Nat) (len sup : Rat) : T → Ins
  | .node _ _ k => insK S tot n len sup false (n - (leavesL k).length) [] k
def insK (S : List String) (tot n : Nat) (len sup : Rat) (isRoot : Bool) (outside : Nat)
    (pre : Kids) : Kids → Ins
  | [] =>
    -- no child is mixed: every child is inside `S` or disjoint from it
    let A := pre.filter (fun et => com S et.2 > 0)
    let B := pre.filter (fun et => !(com S et.2 > 0))
    let outCom := tot - comL S pre
    if isRoot || outCom == 0 then
      -- node = this one, edges = A
      if A.length ≤ 1 || A.length + 1 ≥ pre.length + (if isRoot then 0 else 1) then .done pre   -- refused, ignored
      else .done (B ++ [(newEdge len sup, .node ⟨"", []⟩ A.length (A.map moved))])
    else if outCom == outside then
      -- the parent side is inside S: node = this one, edges = parent branch + A
      if A.length + 1 ≥ pre.length then .done pre
      else .lift B (A.map moved)
    else .fail "mono"
  | (e, t) :: r =>
    let c := com S t
    if 0 < c && c < t.leaves.length then
      -- a mixed child: the bipartition lies inside it provided everything else is on one side
      let others := tot - c
      let restLeaves := n - t.leaves.length
      if others == 0 || others == restLeaves then
        match insT S tot n len sup t with
        | .done k' => .done (pre ++ (e, withKids t k') :: r)
        | .lift k' up =>
          -- the new node takes this child's place and keeps its branch data; the child hangs below it with the new data
          .done (pre ++ ((moved (e, t)).1, .node ⟨"", []⟩ 0 (up ++ [(newEdge len sup, withKids t k')])) :: r)
        | .fail w => .fail w
      else .fail "mono"
    else insK S tot n len sup isRoot outside (pre ++ [(e, t)]) r
end

/-- `LeastCommonAncestorUnrooted` + the checks of `Consensus` + `AddBipartition`. -/
def insertSplit (names : List String) (len sup : Rat) (t : T) : Except String T :=
  let tips := t.tipNames
  let S := names.filter tips.contains
  if S.isEmpty then .error "lca"            -- none of the given tips are present
  else if tips.all S.contains then .error "lca"   -- all tips given
  else match t with
    | .node d p k =>
      match insK S S.length tips.length len sup true 0 [] k with
      | .done k' => .ok (.node d p k')
      | .lift _ _ => .error "mono"
      | .fail w => .error w

/-- the loop over the kept bipartitions (tree/algo.go:341-381) -/
def applyEntry (alltips : List String) (n : Nat) (star : T) (x : Entry) : Except String T :=
  let names := alltips.filter x.key.contains   -- = rowNames alltips x
  let mean := x.len / (x.count : Rat)
  if names.length < 2 then
    match names with
    | [a] => if star.tipNames.contains a then .ok (setTipLen a mean star) else .error "side"
    | _ => .error "side"
  else insertSplit names mean ((x.count : Rat) / (n : Rat)) star

def applyAll (alltips : List String) (n : Nat) : T → List Entry → Except String T
  | star, [] => .ok star
  | star, x :: r =>
    match applyEntry alltips n star x with
    | .ok s => applyAll alltips n s r
    | .error w => .error w

/-- State after the counting loop: the star tree's inputs and the index. -/
structure Counted where
  first : T               -- first tree, unrooted
  alltips : List String
  idx : List Entry
  n : Nat

/-- what `Consensus` does to each input tree first: single-child nodes are removed
    (`rs`, since fix 5dad91e) and a rooted tree is unrooted (`unr`, since fix 8466f11);
    `false` gives the pinned behaviours -/
def prep (unr rs : Bool) (t : T) : T :=
  let t1 := if rs then removeSingles t else t
  if unr then unroot t1 else t1

/-- the counting loop (tree/algo.go:283-336) after the first tree -/
def countRest (unr rs : Bool) (first : T) (alltips : List String) (univ : List String) :
    List T → List Entry → Nat → Except String Counted
  | [], idx, n => .ok ⟨first, alltips, idx, n⟩
  | t :: r, idx, n =>
    let u := prep unr rs t
    if dupTips u then .error "dup" else
    let names := allTipNames u
    if names.length != alltips.length then .error "taxa"
    else if !(names.all fun a => (starOf first).tipNames.contains a) then .error "taxa"
    else countRest unr rs first alltips univ r (addTree univ idx u) (n + 1)

def countAll (unr rs : Bool) : List T → Except String (Option Counted)
  | [] => .ok none
  | t :: r =>
    let u := prep unr rs t
    if dupTips u then .error "dup" else
    if (u.splits.filter (·.tip)).length < 2 then .error "startree" else
    let univ := sortN u.tipNames
    match countRest unr rs u (allTipNames u) univ r (addTree univ [] u) 1 with
    | .ok c => .ok (some c)
    | .error w => .error w

/-- `Reroot(r.Neigh()[0])` when the root `r` is a tip and its neighbour is not (tree/algo.go,
    since 5a3a76a): the neighbour becomes the root, the old root is its child at the position
    the parent occupied (`ppos`), no neighbour order changes. -/
def rerootTip (t : T) : T :=
  match t.kids with
  | [(e, v)] =>
    if v.kids.isEmpty then t
    else .node v.d 0 (v.kids.take v.ppos ++ (e, .node t.d 0 []) :: v.kids.drop v.ppos)
  | _ => t

/-- the body of `Consensus` after the threshold check, on trees already re-rooted by `rerootTip` -/
def consensusCore (unr rs : Bool) (ord : List Entry → List Entry) (ts : List T) (c : Rat) : Out :=
  if ts.any (fun t => t.kids.length < 2) then .unsupported
  else match countAll unr rs ts with
    | .error w => .err w
    | .ok none => .err "empty"   -- since 29626f3: no tree in the input is an error (it was a nil dereference)
    | .ok (some cn) =>
      let sel := selectEntries (floorCut c cn.n) cn.n (ord cn.idx)
      match applyAll cn.alltips cn.n (starOf cn.first) sel with
      | .ok r => .ok r
      | .error w => .err w

/-- `Consensus`, with the unrooting of rooted inputs and the removal of single-child
    nodes switchable (the variants without them are the pinned trees before the fixes
    8466f11, F34, and 5dad91e). -/
def consensusG (unr rs : Bool) (ord : List Entry → List Entry) (ts : List T) (c : Rat) : Out :=
  if c < 1/2 || c > 1 then .err "range"
  else consensusCore unr rs ord (ts.map rerootTip) c

def consensus (ord : List Entry → List Entry) (ts : List T) (c : Rat) : Out := consensusG true true ord ts c

/-- before fix 8466f11 (F34): rooted inputs are not unrooted -/
def consensusPinned (ord : List Entry → List Entry) (ts : List T) (c : Rat) : Out := consensusG false false ord ts c

/-- before fix 5dad91e: rooted inputs are unrooted but single-child nodes stay, and
    both branches around such a node are counted -/
def consensusPinnedSingles (ord : List Entry → List Entry) (ts : List T) (c : Rat) : Out :=
  consensusG true false ord ts c

/-! ## Vocabulary of the property theorems (naive frequency table over the branch lists) -/

abbrev KL := List String × Rat

/-- number of branches of `L` whose bipartition is `k` -/
def cnt (all : List String) (L : List KL) (k : List String) : Nat :=
  L.countP (fun kl => eqc all k kl.1)

/-- sum of the lengths of the branches of `L` whose bipartition is `k` -/
def lsum (all : List String) (L : List KL) (k : List String) : Rat :=
  ((L.filter (fun kl => eqc all k kl.1)).map (·.2)).sum

/-- the tree has a branch whose bipartition is `k` -/
def hasSplit (all : List String) (u : T) (k : List String) : Bool :=
  (edgeKeys all u).any (fun kl => eqc all k kl.1)

/-- number of trees containing the bipartition `k` (the naive frequency table) -/
def countM (all : List String) (us : List T) (k : List String) : Nat :=
  us.countP (fun u => hasSplit all u k)

/-- sum over the trees of the lengths of their branches with bipartition `k` -/
def lenM (all : List String) (us : List T) (k : List String) : Rat :=
  (us.map fun u => lsum all (edgeKeys all u) k).sum

/-- the index after the counting loop over the trees `us` -/
def buildIdx (all : List String) (us : List T) : List Entry := us.foldl (addTree all) []

/-- what `Consensus` counts for an input tree: single-child nodes removed, then unrooted -/
def norm (t : T) : T := unroot (removeSingles t)

/-- the tip index of the collection: the sorted tips of the first tree (normalised) -/
def univOf : List T → List String
  | [] => []
  | t :: _ => sortN (norm t).tipNames

/-- the trees as the counting loop sees them -/
def trees (ts : List T) : List T := ts.map norm

/-- the edge index the model's counting loop builds for the collection -/
def index (ts : List T) : List Entry := buildIdx (univOf ts) (trees ts)

/-- number of trees of the collection containing the bipartition -/
def count (ts : List T) (k : List String) : Nat := countM (univOf ts) (trees ts) k

def freq (ts : List T) (k : List String) : Rat := (count ts k : Rat) / (ts.length : Rat)

/-- mean of the lengths of the bipartition's branch over the trees containing it -/
def meanLen (ts : List T) (k : List String) : Rat := lenM (univOf ts) (trees ts) k / (count ts k : Rat)

/-- the rows `Consensus` inserts, in the order it inserts them -/
def selected (ord : List Entry → List Entry) (ts : List T) (c : Rat) : List Entry :=
  selectEntries (floorCut c ts.length) ts.length (ord (index ts))

/-- hypothesis: inside each (unrooted) tree no two branches define the same bipartition -/
def noRepeat (ts : List T) : Bool := ts.all fun t => distinctKeys (univOf ts) (norm t)


/-! ## Hypothesis of `consensus_splits`: the inserted rows are pairwise compatible -/

def subB (a b : List String) : Bool := a.all b.contains
def disjB (a b : List String) : Bool := a.all (fun x => !b.contains x)
def coverB (tips a b : List String) : Bool := tips.all (fun x => a.contains x || b.contains x)

/-- the sides `a`, `b` (of two bipartitions of `tips`) are compatible and the two
    bipartitions are different -/
def pairOK (tips a b : List String) : Bool :=
  (disjB a b || subB a b || subB b a || coverB tips a b) &&
  !(subB a b && subB b a) && !(disjB a b && coverB tips a b)

def allPairsOK (tips : List String) : List (List String) → Bool
  | [] => true
  | a :: r => r.all (pairOK tips a) && allPairsOK tips r

def nodupB : List (List String) → Bool
  | [] => true
  | a :: r => !r.contains a && nodupB r

/-- the tips of the stored side of a row (`names` in tree/algo.go:342) -/
def rowNames (alltips : List String) (x : Entry) : List String := alltips.filter x.key.contains

/-- every inserted row is a tip branch or has at least two tips on both sides, no
    two rows have the same side, and the inner ones are pairwise compatible -/
def selOK (tips alltips : List String) (sel : List Entry) : Bool :=
  let nms := sel.map (rowNames alltips)
  nms.all (fun s => s.length == 1 || (decide (2 ≤ s.length) && decide (s.length + 2 ≤ tips.length))) &&
  nodupB nms && allPairsOK tips (nms.filter (fun s => decide (2 ≤ s.length)))

/-- the hypotheses of `consensus_splits` for the collection (evaluated by the driver) -/
def selHyp (ts : List T) (c : Rat) : Bool :=
  match countAll true true ts with
  | .ok (some cn) =>
    decide (2 ≤ cn.first.kids.length) && selOK (starOf cn.first).tipNames cn.alltips (selected id ts c)
  | _ => false

/- no single-child inner node below (the same notion as `T.noSingle` of Spec/Splits.lean,
   repeated here so that the model does not depend on the Spec) -/
mutual
def okBelow : T → Bool
  | .node _ _ k => k.length != 1 && okBelowL k
def okBelowL : Kids → Bool
  | [] => true
  | (_, t) :: r => okBelow t && okBelowL r
end

/-- The property's domain, on the trees as the counting loop sees them (after
    `norm`: single-child nodes removed, unrooted): non-empty collection, every
    root of degree ≥ 3, no single-child inner node, unique leaves, the leaves of the first tree.  (`noRepeat` follows.) -/
def domB (ts : List T) : Bool :=
  !ts.isEmpty &&
  (trees ts).all (fun u =>
    decide (3 ≤ u.kids.length) && okBelowL u.kids && !hasDup (leavesL u.kids) &&
    sortN (leavesL u.kids) == sortN (leavesL (norm ts.head!).kids))

/-- every branch length is absent (`NIL`) or non-negative (hypothesis of the length bridge) -/
def lensOK (ts : List T) : Bool :=
  ts.all fun t => t.splits.all fun s => s.e.len == NIL || decide (0 ≤ s.e.len)

/-! ## `cmd/consensus.go`: the threshold option -/

/-- value of a digit string (base 10) -/
def digitsVal (l : List Char) : Nat := l.foldl (fun n ch => 10 * n + (ch.toNat - 48)) 0

/-- The text of `-f` as cobra/pflag reads a `Float64Var` (`strconv.ParseFloat(s, 64)`),
    restricted to the decimal syntax `[+-]digits[.digits][(e|E)[+-]digits]` with at least one
    mantissa digit; the value is the exact rational of the text (the harness only uses
    texts whose value is a float64).  `none` = flag error (the command is not run).
    Hexadecimal floats, `inf`, `nan` and `_` separators are not modelled. -/
def parseCutoff (s : String) : Option Rat :=
  let cs := s.toList
  let (neg, cs) := match cs with
    | '+' :: r => (false, r)
    | '-' :: r => (true, r)
    | r => (false, r)
  let ip := cs.takeWhile Char.isDigit
  let r1 := cs.dropWhile Char.isDigit
  let (fp, r2) := match r1 with
    | '.' :: r => (r.takeWhile Char.isDigit, r.dropWhile Char.isDigit)
    | r => ([], r)
  if ip.isEmpty && fp.isEmpty then none else
  let mant : Rat := ((digitsVal (ip ++ fp) : Nat) : Rat) / ((10 ^ fp.length : Nat) : Rat)
  let withExp : Option Rat :=
    match r2 with
    | [] => some mant
    | ch :: r =>
      if ch == 'e' || ch == 'E' then
        let (eneg, ds) := match r with
          | '+' :: d => (false, d)
          | '-' :: d => (true, d)
          | d => (false, d)
        if ds.isEmpty || !ds.all Char.isDigit then none
        else
          let k := digitsVal ds
          some (if eneg then mant / ((10 ^ k : Nat) : Rat) else mant * ((10 ^ k : Nat) : Rat))
      else none
  withExp.map fun v => if neg then -v else v

/-- the threshold `Consensus` is called with: the flag's documented default is 0.5 -/
def cliCutoff (ftext : Option String) : Option Rat :=
  match ftext with
  | none => some (1/2)
  | some s => parseCutoff s

end Gotree.C09
