package c05

// Index tier: the structures the library derives from the tree (the tip index built by UpdateTipIndex, the
// bitset of every branch filled by ClearBitSets / UpdateBitSet) after a HISTORY of one to three root moves /
// reorderings applied to ONE in-memory tree whose indexes were initialised (ReinitIndexes) before the first
// step.  Reroot, RerootOutGroup, RerootMidPoint and UnRoot end with ReinitInternalIndexes / ReinitIndexes /
// UpdateTipIndex: after them every branch must carry the bitset of the tips below it and the tip index must
// number exactly the tips of the tree.  One case line per history:
//
//	C05.index <dump before> <steps;> <steps done> <class of the last step> <dump after> <NbTips> <TipIndex of every tip,> <bitset of every branch;> <stale names,> <dump after every step|>
//
// step = reroot:<path i.j.k> | unroot | outgroup:<remove>:<strict>:<names joined by +> | midpoint | sort |
// rerootfirst | rotate:<seed>:<draws d.d.d>;  bitset = "n" (nil) or <length>:<set bits b.b.b>, branches in the
// pre-order of the α dump; stale names = tips of the first tree that the index still answers although they
// are no longer tips.

import (
	"fmt"
	"math/rand"
	"strconv"
	"strings"

	"verifharness/core"

	"github.com/evolbioinfo/gotree/tree"
)

func dotInts(l []int) string {
	s := make([]string, len(l))
	for i, v := range l {
		s[i] = strconv.Itoa(v)
	}
	return strings.Join(s, ".")
}

func undotInts(s string) []int {
	var out []int
	for _, x := range strings.Split(s, ".") {
		if x == "" {
			continue
		}
		v, err := strconv.Atoi(x)
		if err != nil {
			panic(err)
		}
		out = append(out, v)
	}
	return out
}

// genStep draws the next step of a history from the tree as it is now.
func genStep(c *core.Ctx, cur *core.N) string {
	if len(cur.Kids) == 2 && len(cur.TipNames()) >= 3 && c.G.Chance(0.35) {
		// the tree is rooted (input, or left so by a midpoint / outgroup rooting): outgroup = one of the two
		// root clades, the root being wherever the previous operation put it on that branch
		S := cur.Kids[c.G.Intn(2)].Leaves()
		esc := make([]string, len(S))
		for i, s := range S {
			esc[i] = core.Escape(s)
		}
		return "outgroup:0:" + b01(c.G.Chance(0.5)) + ":" + strings.Join(esc, "+")
	}
	switch r := c.G.Intn(100); {
	case r < 30:
		var inner [][]int
		for _, p := range cur.Paths() {
			x := cur.At(p)
			deg := len(x.Kids)
			if len(p) > 0 {
				deg++
			}
			if deg >= 2 && len(p) > 0 {
				inner = append(inner, p)
			}
		}
		if len(inner) == 0 {
			return "sort"
		}
		return "reroot:" + dotInts(inner[c.G.Intn(len(inner))])
	case r < 40:
		return "unroot"
	case r < 70:
		// a clade / the complement of a clade / two random tips; removal one time out of three
		all := cur.TipNames()
		paths := cur.Paths()
		var S []string
		x := cur
		if len(paths) > 1 {
			x = cur.At(paths[1+c.G.Intn(len(paths)-1)])
		}
		switch c.G.Intn(3) {
		case 0:
			S = x.Leaves()
		case 1:
			in := map[string]bool{}
			for _, l := range x.Leaves() {
				in[l] = true
			}
			for _, l := range all {
				if !in[l] {
					S = append(S, l)
				}
			}
		default:
			perm := c.G.R.Perm(len(all))
			for j := 0; j < 2 && j < len(all); j++ {
				S = append(S, all[perm[j]])
			}
		}
		if len(S) == 0 {
			S = []string{all[0]}
		}
		esc := make([]string, len(S))
		for i, s := range S {
			esc[i] = core.Escape(s)
		}
		return "outgroup:" + b01(c.G.Chance(0.34)) + ":" + b01(c.G.Chance(0.3)) + ":" + strings.Join(esc, "+")
	case r < 82:
		return "midpoint"
	case r < 88:
		return "sort"
	case r < 92:
		return "rerootfirst"
	default:
		seed := c.G.R.Int63()
		rand.Seed(seed)
		var degs []int
		degrees(cur, true, &degs)
		var draws []int
		for _, d := range degs {
			for i := 0; i < d; i++ {
				draws = append(draws, rand.Intn(i+1))
			}
		}
		return "rotate:" + strconv.FormatInt(seed, 10) + ":" + dotInts(draws)
	}
}

// applyStep runs one step on the real code.
func applyStep(t *tree.Tree, step string) error {
	f := strings.Split(step, ":")
	switch f[0] {
	case "reroot":
		node, _, err := core.NodeAt(t, undotInts(f[1]))
		if err != nil {
			panic(err)
		}
		return t.Reroot(node)
	case "unroot":
		t.UnRoot()
	case "outgroup":
		var S []string
		for _, x := range strings.Split(f[3], "+") {
			u, err := core.Unescape(x)
			if err != nil {
				panic(err)
			}
			S = append(S, u)
		}
		return t.RerootOutGroup(f[1] == "1", f[2] == "1", S...)
	case "midpoint":
		return t.RerootMidPoint()
	case "sort":
		t.SortNeighborsByTips()
	case "rerootfirst":
		return t.RerootFirst()
	case "rotate":
		seed, err := strconv.ParseInt(f[1], 10, 64)
		if err != nil {
			panic(err)
		}
		rand.Seed(seed)
		t.RotateInternalNodes()
	default:
		panic("unknown step " + step)
	}
	return nil
}

// walkBits lists the bitsets of the branches in the pre-order of the α dump.
func walkBits(cur, prev *tree.Node, out *[]string) {
	for i, nb := range cur.Neigh() {
		if nb == prev {
			continue
		}
		b := cur.Edges()[i].Bitset()
		if b == nil {
			*out = append(*out, "n")
		} else {
			var set []int
			for j := uint(0); j < b.Len(); j++ {
				if b.Test(j) {
					set = append(set, int(j))
				}
			}
			*out = append(*out, fmt.Sprintf("%d:%s", b.Len(), dotInts(set)))
		}
		walkBits(nb, cur, out)
	}
}

// doIndex runs a history (given, or of k generated steps) and reports the indexes at its end.
func doIndex(c *core.Ctx, n *core.N, k int, given []string) {
	t := build(n)
	if err := t.ReinitIndexes(); err != nil {
		return // two tips with the same name: no index can be built
	}
	first := n.TipNames()
	if given != nil {
		k = len(given)
	}
	var steps []string
	cur := n
	oc, dump := "ok", n.Dump()
	done := 0
	trail := ""
	for j := 0; j < k; j++ {
		var step string
		if given != nil {
			step = given[j]
		} else {
			step = genStep(c, cur)
		}
		steps = append(steps, step)
		var err error
		p, msg := quiet(func() { err = applyStep(t, step) })
		oc, dump = after(t, err, p, msg)
		if oc != "ok" {
			break
		}
		done++
		trail += dump + "|"
		var perr error
		if cur, perr = core.ParseDump(dump); perr != nil {
			panic(perr)
		}
	}
	nb, ids, bits, stale := "", "", "", ""
	if oc == "ok" {
		p, msg := core.Safe(func() {
			x, err := t.NbTips()
			if err != nil {
				x = -1
			}
			nb = strconv.Itoa(x)
			var l []int
			now := map[string]bool{}
			for _, tip := range t.Tips() {
				now[tip.Name()] = true
				v, err := t.TipIndex(tip.Name())
				if err != nil {
					v = -1
				}
				l = append(l, v)
			}
			ids = core.IntList(l)
			var bl []string
			walkBits(t.Root(), nil, &bl)
			for _, b := range bl {
				bits += b + ";"
			}
			var st []string
			for _, name := range first {
				if ok, err := t.ExistsTip(name); err == nil && ok && !now[name] {
					st = append(st, name)
				}
			}
			stale = core.StrList(st)
		})
		if p {
			oc = "panic:" + core.Escape("reading the indexes: "+msg)
		}
	}
	c.Emit("C05.index", n.Dump(), strings.Join(steps, ";")+";", strconv.Itoa(done), oc, dump, nb, ids, bits, stale, trail)
}

func indexCase(c *core.Ctx) {
	n := genTree(c)
	doIndex(c, n, 1+c.G.Intn(3), nil)
}

func replayIndex(c *core.Ctx, f []string) {
	n, err := core.ParseDump(f[1])
	if err != nil {
		panic(err)
	}
	var steps []string
	for _, s := range strings.Split(f[2], ";") {
		if s != "" {
			steps = append(steps, s)
		}
	}
	doIndex(c, n, 0, steps)
}
