package c15

import (
	"fmt"

	"verifharness/core"
)

// Exhaustive part of the exploration: every ordered tree shape (inner nodes with two or
// more children) on up to maxTips tips, with a rotating pattern of branch lengths
// (1, 0, absent, 5/2), and on each of them every graft position, every node as subtree
// root, every placement of one or two single-child nodes (chains included), every tip as
// the existing member of a group of identical tips, every pair of rooted shapes for Merge.

func shapes(names []string) []*core.N {
	if len(names) == 1 {
		return []*core.N{{Name: names[0]}}
	}
	var out []*core.N
	// split names into k >= 2 consecutive non-empty parts
	var rec func(start int, parts [][]string)
	rec = func(start int, parts [][]string) {
		if start == len(names) {
			if len(parts) < 2 {
				return
			}
			// cartesian product of the shapes of the parts
			combos := [][]*core.N{{}}
			for _, p := range parts {
				var next [][]*core.N
				for _, c := range combos {
					for _, s := range shapes(p) {
						next = append(next, append(append([]*core.N(nil), c...), s))
					}
				}
				combos = next
			}
			for _, c := range combos {
				n := &core.N{}
				for _, k := range c {
					n.Kids = append(n.Kids, k.Clone())
				}
				out = append(out, n)
			}
			return
		}
		for end := start + 1; end <= len(names); end++ {
			rec(end, append(append([][]string(nil), parts...), names[start:end]))
		}
	}
	rec(0, nil)
	return out
}

var lenPattern = []float64{1, 0, -1, 2.5}

func decoratePattern(n *core.N, v int) {
	idx := 0
	var rec func(x *core.N)
	rec = func(x *core.N) {
		for _, k := range x.Kids {
			k.E = core.NewE()
			k.E.Len = lenPattern[(idx+v)%len(lenPattern)]
			k.E.Id = idx
			if len(k.Kids) > 0 && (idx+v)%3 == 0 {
				k.E.Sup = 0.5
			}
			idx++
			rec(k)
		}
	}
	rec(n)
}

func tipNamesN(prefix string, n int) []string {
	out := make([]string, n)
	for i := range out {
		out[i] = fmt.Sprintf("%s%d", prefix, i)
	}
	return out
}

// insertSingle puts a single-child node on the branch above the node at path.
func insertSingle(root *core.N, path []int, l float64) {
	parent := root.At(path[:len(path)-1])
	i := path[len(path)-1]
	mid := &core.N{E: core.NewE(), Kids: []*core.N{parent.Kids[i]}}
	mid.E.Len = l
	mid.E.Sup = 0.25
	parent.Kids[i] = mid
}

func enumCases(c *core.Ctx, maxTips int) {
	grafts := []*core.N{
		{Name: "g0"},
		func() *core.N {
			n := &core.N{Kids: []*core.N{{Name: "g1"}, {Name: "g2"}}}
			decoratePattern(n, 0)
			return n
		}(),
		func() *core.N {
			n := &core.N{Name: "gr", Kids: []*core.N{{Name: "g1"}}}
			decoratePattern(n, 3)
			return n
		}(),
	}
	var rootedShapes []*core.N
	for nt := 2; nt <= maxTips; nt++ {
		for si, s := range shapes(tipNamesN("t", nt)) {
			v := si % len(lenPattern)
			base := s.Clone()
			decoratePattern(base, v)
			if len(base.Kids) == 2 && nt <= 3 {
				rootedShapes = append(rootedShapes, base)
			}
			// clone, every node as subtree root
			doClone(c, true, true, base.Clone())
			for _, p := range base.Paths() {
				doSubTree(c, base.Clone(), p)
			}
			// every graft position x every graft
			for _, tip := range base.TipNames() {
				for _, g := range grafts {
					doGraft(c, true, base.Clone(), tip, g.Clone())
				}
			}
			// every tip as the existing member of a group (one and two new names)
			for _, tip := range base.TipNames() {
				doInsid(c, true, base.Clone(), [][]string{{tip, "n0"}})
				doInsid(c, true, base.Clone(), [][]string{{"n0", tip, "n1"}})
			}
			// every placement of one or two single-child nodes (the same branch twice = a chain)
			paths := base.Paths()[1:]
			for i, p := range paths {
				one := base.Clone()
				insertSingle(one, p, lenPattern[(i+v)%len(lenPattern)])
				core.NumberEdges(one)
				doRmSingle(c, true, one)
				for j := i; j < len(paths); j++ {
					two := base.Clone()
					// insert the deeper / later one first so that the earlier path stays valid
					insertSingle(two, paths[j], lenPattern[(j+v+1)%len(lenPattern)])
					insertSingle(two, p, lenPattern[(i+v)%len(lenPattern)])
					core.NumberEdges(two)
					doRmSingle(c, true, two)
				}
			}
		}
	}
	// the same below a root that is itself a tip (one neighbour), the two-node tree included
	for nt := 1; nt <= maxTips-1; nt++ {
		for si, s := range shapes(tipNamesN("t", nt)) {
			for v := 0; v < len(lenPattern); v++ {
				if nt > 1 && v != si%len(lenPattern) {
					continue
				}
				rt := &core.N{Name: "r", Kids: []*core.N{s.Clone()}}
				decoratePattern(rt, v)
				doClone(c, true, true, rt.Clone())
				for _, p := range rt.Paths() {
					doSubTree(c, rt.Clone(), p)
				}
				for _, tip := range rt.TipNames() {
					doGraft(c, true, rt.Clone(), tip, grafts[1].Clone())
					doInsid(c, true, rt.Clone(), [][]string{{tip, "n0"}})
					doInsid(c, true, rt.Clone(), [][]string{{"n0", tip, "n1"}})
				}
				doRmSingle(c, true, rt.Clone())
			}
		}
	}
	// every pair of rooted shapes (disjoint names) under a new root
	for _, a := range rootedShapes {
		for _, b := range rootedShapes {
			b2 := b.Clone()
			var ren func(x *core.N)
			ren = func(x *core.N) {
				if len(x.Kids) == 0 {
					x.Name = "u" + x.Name[1:]
				}
				for _, k := range x.Kids {
					ren(k)
				}
			}
			ren(b2)
			doMerge(c, true, true, a.Clone(), b2)
		}
	}
}
