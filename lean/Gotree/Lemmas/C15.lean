/-
  C15 — helper lemmas for `Gotree/Proofs/C15.lean`.  Core Lean only.
-/
import Gotree.Spec.C15
import Gotree.Lemmas.C14

namespace Gotree.C15
open Gotree Gotree.C14

/-! ## basic facts about the enumerations -/

theorem splitsL_append : ∀ (k₁ k₂ : Kids), splitsL (k₁ ++ k₂) = splitsL k₁ ++ splitsL k₂
  | [], _ => rfl
  | (e, t) :: r, k₂ => by simp [splitsL, splitsL_append r k₂]

theorem leavesL_append : ∀ (k₁ k₂ : Kids), leavesL (k₁ ++ k₂) = leavesL k₁ ++ leavesL k₂
  | [], _ => rfl
  | (e, t) :: r, k₂ => by simp [leavesL, leavesL_append r k₂]

@[simp] theorem splitsBelow_node (d : NodeD) (p : Nat) (k : Kids) : (T.node d p k).splitsBelow = splitsL k := by
  simp [T.splitsBelow]

theorem leaves_node_cons (d : NodeD) (p : Nat) (x : EdgeD × T) (k : Kids) :
    (T.node d p (x :: k)).leaves = leavesL (x :: k) := by simp [T.leaves]

theorem leaves_node_nil (d : NodeD) (p : Nat) : (T.node d p []).leaves = [d.name] := by simp [T.leaves]

theorem leaves_of_kids_ne (d : NodeD) (p : Nat) (k : Kids) (h : k ≠ []) : (T.node d p k).leaves = leavesL k := by
  cases k with
  | nil => exact absurd rfl h
  | cons x r => exact leaves_node_cons d p x r

theorem dist_def (t : T) (a b : String) : t.dist a b = distW EdgeD.lenOr0 (splitsL t.kids) a b := rfl

theorem tipNames_def (t : T) : t.tipNames = (if t.kids.length == 1 then [t.name] else []) ++ leavesL t.kids := rfl

theorem sep_of_both_in (s : SplitE) (a b : String) (ha : a ∈ s.below) (hb : b ∈ s.below) : s.sep a b = false := by
  simp [SplitE.sep, ha, hb]

theorem sep_of_both_out (s : SplitE) (a b : String) (ha : a ∉ s.below) (hb : b ∉ s.below) : s.sep a b = false := by
  simp [SplitE.sep, ha, hb]

/-- separation only depends on membership -/
theorem sep_congr (s s' : SplitE) (a b : String) (ha : a ∈ s'.below ↔ a ∈ s.below) (hb : b ∈ s'.below ↔ b ∈ s.below) :
    s'.sep a b = s.sep a b := by
  simp only [SplitE.sep, List.contains_eq_mem]
  by_cases h1 : a ∈ s.below <;> by_cases h2 : b ∈ s.below <;> simp [h1, h2, ha, hb]

/-! ## Merge -/

theorem merge_ok {i1 i2 : Bool} {t t2 t' : T} (h : merge i1 i2 t t2 = .ok t') :
    t.rooted = true ∧ t2.rooted = true ∧ (t.tipNames.any (t2.tipNames.contains ·)) = false ∧
    t' = .node ⟨"", []⟩ 0 [(EdgeD.blank, .node t.d t.kids.length t.kids), (EdgeD.blank, .node t2.d t2.kids.length t2.kids)] := by
  unfold merge at h
  split at h
  · cases h
  · split at h
    · cases h
    · split at h
      · cases h
      · rename_i h1 h2 h3
        simp only [Bool.not_eq_true', Bool.and_eq_false_iff] at h1
        injection h with h
        refine ⟨?_, ?_, by simpa using h3, h.symm⟩
        · cases hr : t.rooted <;> simp_all
        · cases hr : t2.rooted <;> simp_all

theorem rooted_kids_ne {t : T} (h : t.rooted = true) : t.kids ≠ [] := by
  intro h0; simp [T.rooted, h0] at h

theorem rooted_tipNames {t : T} (h : t.rooted = true) : t.tipNames = leavesL t.kids := by
  have : t.kids.length = 2 := by simpa [T.rooted] using h
  simp [T.tipNames, this]


theorem merge_disjoint {t t2 : T} (hr : t.rooted = true) (hr2 : t2.rooted = true)
    (hd : (t.tipNames.any (t2.tipNames.contains ·)) = false) : ∀ x ∈ leavesL t.kids, x ∉ leavesL t2.kids := by
  rw [rooted_tipNames hr, rooted_tipNames hr2] at hd
  intro x hx hx2
  have := List.any_eq_false.mp hd x hx
  simp [hx2] at this

theorem merge_dist_left {i1 i2 : Bool} {t t2 t' : T} (h : merge i1 i2 t t2 = .ok t') (a b : String)
    (ha : a ∈ t.tipNames) (hb : b ∈ t.tipNames) : t'.dist a b = t.dist a b := by
  obtain ⟨hr, hr2, hd, rfl⟩ := merge_ok h
  have hk := rooted_kids_ne hr
  have hk2 := rooted_kids_ne hr2
  have hdj := merge_disjoint hr hr2 hd
  rw [rooted_tipNames hr] at ha hb
  simp only [dist_def, T.kids_node, splitsL, splitsBelow_node, List.append_nil]
  rw [distW_cons, distW_append, distW_cons]
  have e1 : (SplitE.mk (T.node t.d t.kids.length t.kids).leaves EdgeD.blank (T.node t.d t.kids.length t.kids).isLeaf).sep a b = false :=
    sep_of_both_in _ _ _ (by simpa [leaves_of_kids_ne _ _ _ hk] using ha) (by simpa [leaves_of_kids_ne _ _ _ hk] using hb)
  have e2 : (SplitE.mk (T.node t2.d t2.kids.length t2.kids).leaves EdgeD.blank (T.node t2.d t2.kids.length t2.kids).isLeaf).sep a b = false :=
    sep_of_both_out _ _ _ (by simpa [leaves_of_kids_ne _ _ _ hk2] using hdj a ha) (by simpa [leaves_of_kids_ne _ _ _ hk2] using hdj b hb)
  rw [e1, e2, distW_both_out _ (splitsL t2.kids) a b (out_of_subL _ _ (hdj a ha)) (out_of_subL _ _ (hdj b hb))]
  simp [Rat.add_zero, Rat.zero_add]

theorem merge_dist_right {i1 i2 : Bool} {t t2 t' : T} (h : merge i1 i2 t t2 = .ok t') (a b : String)
    (ha : a ∈ t2.tipNames) (hb : b ∈ t2.tipNames) : t'.dist a b = t2.dist a b := by
  obtain ⟨hr, hr2, hd, rfl⟩ := merge_ok h
  have hk := rooted_kids_ne hr
  have hk2 := rooted_kids_ne hr2
  have hdj := merge_disjoint hr hr2 hd
  rw [rooted_tipNames hr2] at ha hb
  have na : a ∉ leavesL t.kids := fun h => hdj a h ha
  have nb : b ∉ leavesL t.kids := fun h => hdj b h hb
  simp only [dist_def, T.kids_node, splitsL, splitsBelow_node, List.append_nil]
  rw [distW_cons, distW_append, distW_cons]
  have e1 : (SplitE.mk (T.node t.d t.kids.length t.kids).leaves EdgeD.blank (T.node t.d t.kids.length t.kids).isLeaf).sep a b = false :=
    sep_of_both_out _ _ _ (by simpa [leaves_of_kids_ne _ _ _ hk] using na) (by simpa [leaves_of_kids_ne _ _ _ hk] using nb)
  have e2 : (SplitE.mk (T.node t2.d t2.kids.length t2.kids).leaves EdgeD.blank (T.node t2.d t2.kids.length t2.kids).isLeaf).sep a b = false :=
    sep_of_both_in _ _ _ (by simpa [leaves_of_kids_ne _ _ _ hk2] using ha) (by simpa [leaves_of_kids_ne _ _ _ hk2] using hb)
  rw [e1, e2, distW_both_out _ (splitsL t.kids) a b (out_of_subL _ _ na) (out_of_subL _ _ nb)]
  simp [Rat.add_zero, Rat.zero_add]

theorem merge_tipNames {i1 i2 : Bool} {t t2 t' : T} (h : merge i1 i2 t t2 = .ok t') :
    t'.tipNames = t.tipNames ++ t2.tipNames := by
  obtain ⟨hr, hr2, _, rfl⟩ := merge_ok h
  rw [rooted_tipNames hr, rooted_tipNames hr2]
  simp [T.tipNames, leavesL, leaves_of_kids_ne _ _ _ (rooted_kids_ne hr), leaves_of_kids_ne _ _ _ (rooted_kids_ne hr2)]

end Gotree.C15
