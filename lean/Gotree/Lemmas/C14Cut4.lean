/-
  C14 round 2 — the outer loop of `CutEdgesMaxLength` on the pointer graph, part 3: the loop
  over the branches below a node.  Core Lean only.
-/
import Gotree.Lemmas.C14Cut3

namespace Gotree.C14
open Gotree Gotree.C14.Go

/-! ## one turn of the loop -/

theorem step_skip (g : G) (thr : Rat) (bags : List Bag) (vis : Array Bool) (i : Nat) (E : GEdge)
    (he : g.edges[i]? = some E) (hv : vis.getD i false = true) :
    cutStep g thr (bags, vis) i = .ok (bags, vis) := by
  simp [cutStep, he, hv]

theorem step_long (g : G) (thr : Rat) (bags : List Bag) (vis : Array Bool) (i p c : Nat) (e : EdgeD)
    (he : g.edges[i]? = some ⟨p, c, e⟩) (hv : vis.getD i false = false) (hl : ¬ e.len < thr) (hp : g.tip p = false) :
    cutStep g thr (bags, vis) i =
      .ok (bags ++ (if g.tip c then [[(g.name c, c)]] else []), vis.set! i true) := by
  simp only [cutStep, he, hv, Bool.false_eq_true, if_false, hl, hp]
  split <;> simp

theorem step_flood (g : G) (thr : Rat) (bags : List Bag) (vis : Array Bool) (i p c : Nat) (e : EdgeD)
    (bagA bagB : Bag) (visA visB : Array Bool)
    (he : g.edges[i]? = some ⟨p, c, e⟩) (hv : vis.getD i false = false) (hs : e.len < thr)
    (h1 : cutRecur g thr (g.nodes.size + 1) [] p c (vis.set! i true) = .ok (bagA, visA))
    (h2 : cutRecur g thr (g.nodes.size + 1) bagA c p visA = .ok (bagB, visB)) :
    cutStep g thr (bags, vis) i = .ok (if bagB.length > 0 then bags ++ [bagB] else bags, visB) := by
  simp only [cutStep, he, hv, Bool.false_eq_true, if_false, hs, if_true, h1, h2]

/-! ## the loop over the branches below a node -/

/-- branch indices of the children `ks` whose first node is `c` (and of everything below) -/
def Seg (c : Nat) (ks : Kids) (j : Nat) : Prop := c ≤ j + 1 ∧ j + 1 < c + T.sizeL ks

/-- the loop over the segment of `suf` succeeds, marks the whole segment and nothing else,
    and appends bags that are, up to order, `expected` -/
def LoopOK (g : G) (thr : Rat) (bags : List Bag) (vis : Array Bool) (c : Nat) (suf : Kids)
    (expected : List (List String)) : Prop :=
  ∃ (newBags : List Bag) (vis' : Array Bool),
    (List.range' (c - 1) (T.sizeL suf)).foldlM (cutStep g thr) (bags, vis) = .ok (bags ++ newBags, vis') ∧
    vis'.size = vis.size ∧ (∀ j, Seg c suf j → vis'.getD j false = true) ∧
    (∀ j, ¬ Seg c suf j → vis'.getD j false = vis.getD j false) ∧
    LPerm (newBags.map fun b => b.map (·.1)) expected

/-- what the loop below node `p` (children `all = pre ++ suf`, `suf` still to do) needs -/
structure LoopPre (g : G) (thr : Rat) (p : Nat) (all pre suf : Kids) (fl : Bool) (vis : Array Bool) : Prop where
  split : all = pre ++ suf
  kids : ∀ x ∈ kidsIdx (p + 1) all, KidOK g p (p + 1) all x
  notTip : g.tip p = false
  ctx : fl = false → NodeCtx g thr p all ∧ ∀ x ∈ pre, ¬ x.1.len < thr
  size : vis.size = g.edges.size
  names : (((kidsIdx (p + 1) all).flatMap fun x => leafIdxT x.1 x.2.2).map g.name).Nodup
  vis : ∀ j, Seg (p + 1 + T.sizeL pre) suf j →
    vis.getD j false = (fl && decide (j ∈ reachL thr (p + 1 + T.sizeL pre) suf))

def LoopGoal (g : G) (thr : Rat) (p : Nat) (all pre suf : Kids) (fl : Bool) (bags : List Bag) (vis : Array Bool) : Prop :=
  LoopOK g thr bags vis (p + 1 + T.sizeL pre) suf
    ((if fl then [] else optBag (compL thr all).1) ++ (compL thr suf).2)

theorem foldlM_range_split (g : G) (thr : Rat) (s a b : Nat) (st : List Bag × Array Bool) :
    (List.range' s (a + b)).foldlM (cutStep g thr) st =
      ((List.range' s a).foldlM (cutStep g thr) st).bind fun st' => (List.range' (s + a) b).foldlM (cutStep g thr) st' := by
  rw [← List.range'_append_1, List.foldlM_append]
  rfl

end Gotree.C14
