// Package c07: collapse (length / support / topological depth), RemoveEdges, Resolve.
//
// Case lines (inputs first, then what the implementation returned):
//
//	C07.len     l rr rt dumpBefore | outcome dumpAfter
//	C07.sup     s rr dumpBefore    | outcome dumpAfter
//	C07.depth   min max rr rt dumpBefore | outcome dumpAfter
//	C07.remove  rr rt ids dumpBefore | outcome dumpAfter          (RemoveEdges, branches by id, any order)
//	C07.resolve seed dumpBefore | draws outcome dumpAfter consumed
//
// The same ops are produced by the CLI tier (`gotree collapse length|support|depth`,
// `gotree resolve --seed`): there dumpBefore is α of the Newick text as re-read by the
// harness, dumpAfter is α of the tree printed by the binary.
package c07

import (
	"fmt"
	"math/rand"
	"os"
	"strconv"
	"strings"
	"time"

	"verifharness/core"

	"github.com/evolbioinfo/gotree/io/newick"
	"github.com/evolbioinfo/gotree/tree"
)

func b2s(b bool) string {
	if b {
		return "1"
	}
	return "0"
}

func s2b(s string) bool { return s == "1" }

func opts(g *core.G) core.TreeOpts {
	o := core.DefaultOpts()
	o.Lengths = 2
	o.Supports = 2
	o.MaxTips = 14
	if g.Chance(0.12) {
		o.Singles = 0.15
	}
	if g.Chance(0.08) {
		o.MinTips, o.MaxTips = 2, 4
	}
	if g.Chance(0.15) {
		o.InnerNames = 0.5
	}
	if g.Chance(0.2) {
		o.Multif, o.MaxDeg = 0.6, 7
	}
	return o
}

func genTree(c *core.Ctx, cli bool) *core.N {
	o := opts(c.G)
	if !c.Quick() && c.G.Chance(0.1) {
		o.MaxTips = 40 // deeper nestings of contracted branches
	}
	if cli {
		o.Singles = 0
		if o.MinTips < 3 {
			o.MinTips = 3
		}
	}
	n, _ := c.G.Tree(o)
	if c.G.Chance(0.05) {
		n = rootTip(c, &o, n)
	}
	if !cli && c.G.Chance(0.4) {
		shufflePPos(c, n, true)
	}
	core.NumberEdges(n)
	return n
}

// shufflePPos puts the parent of inner nodes at a random position of their neighbour slice — the
// states Reroot / UnRoot / RerootOutGroup / removeTip / NNI leave behind (the Newick parser always
// puts the parent first).  core.Build honours PPos and re-reads the result with α.
func shufflePPos(c *core.Ctx, n *core.N, isRoot bool) {
	if !isRoot && len(n.Kids) > 0 {
		n.PPos = c.G.Intn(len(n.Kids) + 1)
	}
	for _, k := range n.Kids {
		shufflePPos(c, k, false)
	}
}

// rootTip hangs the tree under a new root that has this single neighbour: the root is a tip
// (what "((a,b,c):1)r;" gives); its branch is a terminal branch (fix e276115).
func rootTip(c *core.Ctx, o *core.TreeOpts, n *core.N) *core.N {
	n.E = core.NewE()
	n.E.Len = c.G.Length(o)
	if c.G.Chance(0.5) {
		n.E.Sup = c.G.Support(o)
	}
	return &core.N{Name: "r", Kids: []*core.N{n}}
}

func mustBuild(n *core.N) *tree.Tree {
	t, err := core.Build(n)
	if err != nil {
		panic(err)
	}
	return t
}

func mustDump(s string) *core.N {
	n, err := core.ParseDump(s)
	if err != nil {
		panic(err)
	}
	return n
}

// after returns the α dump of a tree produced by the implementation.
func after(t *tree.Tree) (string, string) {
	a, wf := core.Alpha(t)
	if !wf.OK() {
		return "malformed:" + core.Escape(strings.Join(wf.Problems, ";")), ""
	}
	return "ok", a.Dump()
}

// viaNewick writes the tree as Newick and re-reads that text with the project's parser:
// what the CLI sees.
func viaNewick(c *core.Ctx, n *core.N) (file string, seen *core.N) {
	t := mustBuild(n)
	text := t.Newick()
	file = c.TmpFile(text + "\n")
	pt, err := newick.NewParser(strings.NewReader(text)).Parse()
	if err != nil {
		panic(fmt.Errorf("re-reading %q: %v", text, err))
	}
	seen, wf := core.Alpha(pt)
	if !wf.OK() {
		panic(fmt.Errorf("parsed tree malformed: %v", wf.Problems))
	}
	return
}

func parseOut(r core.CLIResult) (string, string) {
	if r.Timeout {
		return "timeout", ""
	}
	if r.Exit != 0 {
		return "exit:" + strconv.Itoa(r.Exit), ""
	}
	pt, err := newick.NewParser(strings.NewReader(r.Stdout)).Parse()
	if err != nil {
		return "unparsable-output", ""
	}
	return after(pt)
}

func fmtF(f float64) string { return strconv.FormatFloat(f, 'f', -1, 64) }

func flags(rr, rt bool) []string {
	var a []string
	if rr {
		a = append(a, "--root")
	}
	if rt {
		a = append(a, "--tips")
	}
	return a
}

func doLen(c *core.Ctx, cli bool, thr float64, rr, rt bool, n *core.N) {
	if cli {
		file, seen := viaNewick(c, n)
		args := append([]string{"collapse", "length", "-i", file, "-l", fmtF(thr)}, flags(rr, rt)...)
		out, a := parseOut(c.RunCLI("", 20*time.Second, args...))
		c.Emit("C07.len@cli", core.Rat(thr), b2s(rr), b2s(rt), seen.Dump(), out, a)
		return
	}
	t := mustBuild(n)
	pending(c, "C07.len", core.Rat(thr), b2s(rr), b2s(rt), n.Dump(), "exit:killed", "")
	defer done()
	if p, msg := core.Safe(func() { t.CollapseShortBranches(thr, rr, rt) }); p {
		c.Emit("C07.len", core.Rat(thr), b2s(rr), b2s(rt), n.Dump(), "panic:"+core.Escape(msg), "")
		return
	}
	out, a := after(t)
	c.Emit("C07.len", core.Rat(thr), b2s(rr), b2s(rt), n.Dump(), out, a)
}

func doSup(c *core.Ctx, cli bool, thr float64, rr bool, n *core.N) {
	if cli {
		file, seen := viaNewick(c, n)
		args := append([]string{"collapse", "support", "-i", file, "-s", fmtF(thr)}, flags(rr, false)...)
		out, a := parseOut(c.RunCLI("", 20*time.Second, args...))
		c.Emit("C07.sup@cli", core.Rat(thr), b2s(rr), seen.Dump(), out, a)
		return
	}
	t := mustBuild(n)
	pending(c, "C07.sup", core.Rat(thr), b2s(rr), n.Dump(), "exit:killed", "")
	defer done()
	if p, msg := core.Safe(func() { t.CollapseLowSupport(thr, rr) }); p {
		c.Emit("C07.sup", core.Rat(thr), b2s(rr), n.Dump(), "panic:"+core.Escape(msg), "")
		return
	}
	out, a := after(t)
	c.Emit("C07.sup", core.Rat(thr), b2s(rr), n.Dump(), out, a)
}

func doDepth(c *core.Ctx, cli bool, mn, mx int, rr, rt bool, n *core.N) {
	if cli {
		file, seen := viaNewick(c, n)
		args := append([]string{"collapse", "depth", "-i", file, "-m", strconv.Itoa(mn), "-M", strconv.Itoa(mx)}, flags(rr, rt)...)
		out, a := parseOut(c.RunCLI("", 20*time.Second, args...))
		c.Emit("C07.depth@cli", strconv.Itoa(mn), strconv.Itoa(mx), b2s(rr), b2s(rt), seen.Dump(), out, a)
		return
	}
	t := mustBuild(n)
	var err error
	pending(c, "C07.depth", strconv.Itoa(mn), strconv.Itoa(mx), b2s(rr), b2s(rt), n.Dump(), "exit:killed", "")
	defer done()
	if p, msg := core.Safe(func() {
		// as cmd/collapsedepth.go: the subtree sizes come from ReinitIndexes
		if err = t.ReinitIndexes(); err != nil {
			return
		}
		err = t.CollapseTopoDepth(mn, mx, rr, rt)
	}); p {
		c.Emit("C07.depth", strconv.Itoa(mn), strconv.Itoa(mx), b2s(rr), b2s(rt), n.Dump(), "panic:"+core.Escape(msg), "")
		return
	}
	if err != nil {
		c.Emit("C07.depth", strconv.Itoa(mn), strconv.Itoa(mx), b2s(rr), b2s(rt), n.Dump(), "err", "")
		return
	}
	out, a := after(t)
	c.Emit("C07.depth", strconv.Itoa(mn), strconv.Itoa(mx), b2s(rr), b2s(rt), n.Dump(), out, a)
}

// doDepthRaw calls CollapseTopoDepth WITHOUT ReinitIndexes: Edge.TopoDepth must report that the
// subtree sizes are not computed, and nothing may be removed.
func doDepthRaw(c *core.Ctx, mn, mx int, rr, rt bool, n *core.N) {
	t := mustBuild(n)
	var err error
	pending(c, "C07.depthraw", strconv.Itoa(mn), strconv.Itoa(mx), b2s(rr), b2s(rt), n.Dump(), "exit:killed", "")
	defer done()
	if p, msg := core.Safe(func() { err = t.CollapseTopoDepth(mn, mx, rr, rt) }); p {
		c.Emit("C07.depthraw", strconv.Itoa(mn), strconv.Itoa(mx), b2s(rr), b2s(rt), n.Dump(), "panic:"+core.Escape(msg), "")
		return
	}
	out, a := after(t)
	if err != nil && out == "ok" {
		out = "err"
	}
	c.Emit("C07.depthraw", strconv.Itoa(mn), strconv.Itoa(mx), b2s(rr), b2s(rt), n.Dump(), out, a)
}

// doDepthStale: CollapseTopoDepth on a tree that was indexed (ReinitIndexes) and then EDITED without
// re-indexing, so that the subtree sizes stored on the branches are stale:
//
//	scenario 0: no edit (fresh indexes);
//	scenario 1: GraftTipOnEdge(tip "g", branch number arg of Edges()) — the two new branches have no sizes;
//	scenario 2: SetRoot(arg-th inner node of Nodes()) + ReorderEdges — sizes stay, sides are swapped on the path.
//
// The case line carries what the call starts from: α of the edited tree and (id, ntaxleft, ntaxright) of
// every branch, read through NumTipsLeft/NumTipsRight.
//
//	C07.depthstale mn mx rr rt scenario arg baseDump | curDump stored outcome dumpAfter
func doDepthStale(c *core.Ctx, mn, mx int, rr, rt bool, scenario, arg int, n *core.N) {
	pre := []string{strconv.Itoa(mn), strconv.Itoa(mx), b2s(rr), b2s(rt), strconv.Itoa(scenario), strconv.Itoa(arg), n.Dump()}
	t := mustBuild(n)
	if err := t.ReinitIndexes(); err != nil {
		return
	}
	setup := func() {
		switch scenario {
		case 1:
			es := t.Edges()
			if len(es) == 0 {
				return
			}
			maxid := 0
			for _, e := range es {
				if e.Id() > maxid {
					maxid = e.Id()
				}
			}
			g := t.NewNode()
			g.SetName("g")
			e1, e2, _, err := t.GraftTipOnEdge(g, es[arg%len(es)])
			if err != nil {
				panic(err)
			}
			e1.SetId(maxid + 1)
			e2.SetId(maxid + 2)
		case 2:
			var inner []*tree.Node
			for _, x := range t.Nodes() {
				if !x.Tip() {
					inner = append(inner, x)
				}
			}
			if len(inner) == 0 {
				return
			}
			t.SetRoot(inner[arg%len(inner)])
			if err := t.ReorderEdges(t.Root(), nil, nil); err != nil {
				panic(err)
			}
		}
	}
	if p, msg := core.Safe(setup); p {
		panic("C07.depthstale setup: " + msg)
	}
	cur, wf := core.Alpha(t)
	if !wf.OK() {
		panic("C07.depthstale: edited tree malformed")
	}
	var stored strings.Builder
	for _, e := range t.Edges() {
		fmt.Fprintf(&stored, "%d:%d:%d,", e.Id(), e.NumTipsLeft(), e.NumTipsRight())
	}
	var err error
	pending(c, "C07.depthstale", append(pre, cur.Dump(), stored.String(), "exit:killed", "")...)
	defer done()
	if p, msg := core.Safe(func() { err = t.CollapseTopoDepth(mn, mx, rr, rt) }); p {
		c.Emit("C07.depthstale", append(pre, cur.Dump(), stored.String(), "panic:"+core.Escape(msg), "")...)
		return
	}
	out, a := after(t)
	if err != nil && out == "ok" {
		out = "err"
	}
	c.Emit("C07.depthstale", append(pre, cur.Dump(), stored.String(), out, a)...)
}

func doRemove(c *core.Ctx, rr, rt bool, ids []int, n *core.N) {
	t := mustBuild(n)
	byId := map[int]*tree.Edge{}
	for _, e := range t.Edges() {
		byId[e.Id()] = e
	}
	var es []*tree.Edge
	for _, id := range ids {
		if e, ok := byId[id]; ok {
			es = append(es, e)
		}
	}
	pending(c, "C07.remove", b2s(rr), b2s(rt), core.IntList(ids), n.Dump(), "exit:killed", "")
	defer done()
	if p, msg := core.Safe(func() { t.RemoveEdges(rr, rt, es...) }); p {
		c.Emit("C07.remove", b2s(rr), b2s(rt), core.IntList(ids), n.Dump(), "panic:"+core.Escape(msg), "")
		return
	}
	out, a := after(t)
	c.Emit("C07.remove", b2s(rr), b2s(rt), core.IntList(ids), n.Dump(), out, a)
}

// script lists the bounds of the Intn calls Resolve makes on this tree (post-order; a node
// with more than 3 neighbours calls Perm(l), l = number of non-parent neighbours).
func script(n *core.N, isRoot bool, out *[]int) {
	for _, k := range n.Kids {
		script(k, false, out)
	}
	deg := len(n.Kids)
	if !isRoot {
		deg++
	}
	if deg > 3 {
		for i := 0; i < len(n.Kids); i++ {
			*out = append(*out, i+1)
		}
	}
}

func doResolve(c *core.Ctx, cli bool, seed int64, n *core.N) {
	var before *core.N
	var out, a string
	var x int64
	if cli {
		file, seen := viaNewick(c, n)
		before = seen
		out, a = parseOut(c.RunCLI("", 20*time.Second, "resolve", "-i", file, "--seed", strconv.FormatInt(seed, 10)))
	} else {
		before = n
		t := mustBuild(n)
		rand.Seed(seed)
		pending(c, "C07.resolve", strconv.FormatInt(seed, 10), n.Dump(), "", "exit:killed", "", "0")
		defer done()
		if p, msg := core.Safe(func() { t.Resolve() }); p {
			c.Emit("C07.resolve", strconv.FormatInt(seed, 10), n.Dump(), "", "panic:"+core.Escape(msg), "", "0")
			return
		}
		x = rand.Int63()
		out, a = after(t)
	}
	// replay of the draw script on the same source
	var bounds []int
	script(before, true, &bounds)
	rand.Seed(seed)
	draws := make([]int, len(bounds))
	for i, b := range bounds {
		draws[i] = rand.Intn(b)
	}
	consumed := "1"
	if !cli && rand.Int63() != x {
		consumed = "0"
	}
	op := "C07.resolve"
	if cli {
		op += "@cli"
	}
	c.Emit(op, strconv.FormatInt(seed, 10), before.Dump(), core.IntList(draws), out, a, consumed)
}

// multiCLI pushes a file holding several trees through one invocation of a collapse command
// (the `for t := range treechan` loop of cmd/collapse*.go) and emits one case per tree.
func multiCLI(c *core.Ctx) {
	k := 2 + c.G.Intn(2)
	var text strings.Builder
	var seen []*core.N
	for i := 0; i < k; i++ {
		n := genTree(c, true)
		t := mustBuild(n)
		nw := t.Newick()
		text.WriteString(nw + "\n")
		pt, err := newick.NewParser(strings.NewReader(nw)).Parse()
		if err != nil {
			panic(err)
		}
		a, wf := core.Alpha(pt)
		if !wf.OK() {
			panic("parsed tree malformed")
		}
		seen = append(seen, a)
	}
	file := c.TmpFile(text.String())
	rr, rt := c.G.Chance(0.35), c.G.Chance(0.3)
	var op string
	var pre []string
	var args []string
	switch c.G.Intn(3) {
	case 0:
		thr := float64(c.G.Intn(24)) / 8
		op, pre = "C07.len@cli", []string{core.Rat(thr), b2s(rr), b2s(rt)}
		args = append([]string{"collapse", "length", "-i", file, "-l", fmtF(thr)}, flags(rr, rt)...)
	case 1:
		thr := float64(c.G.Intn(18)) / 16
		op, pre = "C07.sup@cli", []string{core.Rat(thr), b2s(rr)}
		args = append([]string{"collapse", "support", "-i", file, "-s", fmtF(thr)}, flags(rr, false)...)
	default:
		mn := 1 + c.G.Intn(2)
		mx := mn + c.G.Intn(3)
		op, pre = "C07.depth@cli", []string{strconv.Itoa(mn), strconv.Itoa(mx), b2s(rr), b2s(rt)}
		args = append([]string{"collapse", "depth", "-i", file, "-m", strconv.Itoa(mn), "-M", strconv.Itoa(mx)}, flags(rr, rt)...)
	}
	r := c.RunCLI("", 30*time.Second, args...)
	lines := strings.Split(strings.TrimRight(r.Stdout, "\n"), "\n")
	for i, b := range seen {
		out, a := "missing-output", ""
		if r.Timeout {
			out = "timeout"
		} else if r.Exit != 0 {
			out = "exit:" + strconv.Itoa(r.Exit)
		} else if len(lines) == len(seen) {
			out, a = parseOut(core.CLIResult{Stdout: lines[i]})
		}
		c.Emit(op, append(append([]string{}, pre...), b.Dump(), out, a)...)
	}
}

// Replay re-executes the requests of a corpus / replay file on the real code.
func Replay(c *core.Ctx, lines []string) {
	skip, _ := strconv.Atoi(os.Getenv("C07_SKIP"))
	for li, l := range lines {
		if li < skip {
			continue // restarted behind a request that ended the process
		}
		replayLine = li
		f := strings.Split(l, "\t")
		cli := false
		if strings.HasSuffix(f[0], "@cli") {
			cli = true
			f[0] = strings.TrimSuffix(f[0], "@cli")
		}
		if cli && c.Gotree == "" {
			continue
		}
		switch {
		case f[0] == "C07.len" && len(f) >= 5:
			thr, _ := core.ParseRat(f[1])
			doLen(c, cli, thr, s2b(f[2]), s2b(f[3]), mustDump(f[4]))
		case f[0] == "C07.sup" && len(f) >= 4:
			thr, _ := core.ParseRat(f[1])
			doSup(c, cli, thr, s2b(f[2]), mustDump(f[3]))
		case f[0] == "C07.depth" && len(f) >= 6:
			mn, _ := strconv.Atoi(f[1])
			mx, _ := strconv.Atoi(f[2])
			doDepth(c, cli, mn, mx, s2b(f[3]), s2b(f[4]), mustDump(f[5]))
		case f[0] == "C07.nonfinite" && len(f) >= 3:
			doNonFinite(c, f[1], mustDump(f[2]))
		case f[0] == "C07.seq" && len(f) >= 3:
			doSeq(c, strings.Split(f[1], ";"), mustDump(f[2]))
		case f[0] == "C07.cmd" && len(f) >= 6:
			replayCmd(c, f)
		case f[0] == "C07.depthstale" && len(f) >= 8:
			mn, _ := strconv.Atoi(f[1])
			mx, _ := strconv.Atoi(f[2])
			sc, _ := strconv.Atoi(f[5])
			arg, _ := strconv.Atoi(f[6])
			doDepthStale(c, mn, mx, s2b(f[3]), s2b(f[4]), sc, arg, mustDump(f[7]))
		case f[0] == "C07.depthraw" && len(f) >= 6:
			mn, _ := strconv.Atoi(f[1])
			mx, _ := strconv.Atoi(f[2])
			doDepthRaw(c, mn, mx, s2b(f[3]), s2b(f[4]), mustDump(f[5]))
		case f[0] == "C07.remove" && len(f) >= 5:
			var ids []int
			for _, s := range strings.Split(strings.TrimSuffix(f[3], ","), ",") {
				if s == "" {
					continue
				}
				v, _ := strconv.Atoi(s)
				ids = append(ids, v)
			}
			doRemove(c, s2b(f[1]), s2b(f[2]), ids, mustDump(f[4]))
		case f[0] == "C07.resolve" && len(f) >= 3:
			seed, _ := strconv.ParseInt(f[1], 10, 64)
			doResolve(c, cli, seed, mustDump(f[2]))
		default:
			panic("C07: cannot replay " + l)
		}
	}
}

func collect(n *core.N, f func(k *core.N)) {
	for _, k := range n.Kids {
		f(k)
		collect(k, f)
	}
}

// doNonFinite: thresholds the flag parser accepts but that are no numbers of the model (CLI only).
func doNonFinite(c *core.Ctx, kind string, n *core.N) {
	if c.Gotree == "" {
		return
	}
	file, seen := viaNewick(c, n)
	var args []string
	switch kind {
	case "l-inf":
		args = []string{"collapse", "length", "-i", file, "-l", "inf"}
	case "l-nan":
		args = []string{"collapse", "length", "-i", file, "-l", "nan"}
	case "l-ninf":
		args = []string{"collapse", "length", "-i", file, "-l", "-inf"}
	case "s-nan":
		args = []string{"collapse", "support", "-i", file, "-s", "nan"}
	default:
		kind = "s-inf"
		args = []string{"collapse", "support", "-i", file, "-s", "inf"}
	}
	out, a := parseOut(c.RunCLI("", 20*time.Second, args...))
	c.Emit("C07.nonfinite@cli", kind, seen.Dump(), out, a)
}

func lenCase(c *core.Ctx, cli bool) {
	n := genTree(c, cli)
	if c.G.Chance(0.5) {
		// half of the length cases on trees where EVERY branch has a length: the verdict then does not
		// rest on how an absent length is read
		collect(n, func(k *core.N) {
			if k.E.Len == -1 {
				k.E.Len = float64(c.G.Intn(40)) / 8
			}
		})
	}
	var vals []float64
	collect(n, func(k *core.N) {
		if len(k.Kids) > 0 || c.G.Chance(0.2) {
			vals = append(vals, k.E.Len)
		}
	})
	thr := float64(c.G.Intn(40)) / 8
	switch r := c.G.Intn(10); {
	case r < 6 && len(vals) > 0:
		thr = vals[c.G.Intn(len(vals))] // a value present: tie (may be the sentinel -1)
		if c.G.Chance(0.25) {
			thr += 1.0 / 16
		} else if c.G.Chance(0.15) {
			thr -= 1.0 / 16
		}
	case r == 6:
		thr = 0
	case r == 7:
		thr = -1
	}
	doLen(c, cli, thr, c.G.Chance(0.35), c.G.Chance(0.3), n)
}

func supCase(c *core.Ctx, cli bool) {
	n := genTree(c, cli)
	var vals []float64
	collect(n, func(k *core.N) {
		if len(k.Kids) > 0 {
			vals = append(vals, k.E.Sup)
		}
	})
	thr := float64(c.G.Intn(18)) / 16
	switch r := c.G.Intn(10); {
	case r < 6 && len(vals) > 0:
		thr = vals[c.G.Intn(len(vals))]
		if c.G.Chance(0.3) {
			thr += 1.0 / 32
		}
	case r == 6:
		thr = 0
	case r == 7:
		thr = 2 // everything that has a support
	}
	doSup(c, cli, thr, c.G.Chance(0.35), n)
}

func depthCase(c *core.Ctx, cli bool) {
	n := genTree(c, cli)
	nt := len(n.TipNames())
	mn := c.G.Intn(4) - 1 + c.G.Intn(2)
	mx := mn + c.G.Intn(nt/2+2) - 1
	if c.G.Chance(0.15) {
		mn, mx = 0, nt
	}
	if !cli && c.G.Chance(0.04) {
		doDepthRaw(c, mn, mx, c.G.Chance(0.35), c.G.Chance(0.3), n)
		return
	}
	if !cli && c.G.Chance(0.15) {
		doDepthStale(c, mn, mx, c.G.Chance(0.35), c.G.Chance(0.3), c.G.Intn(3), c.G.Intn(64), n)
		return
	}
	doDepth(c, cli, mn, mx, c.G.Chance(0.35), c.G.Chance(0.3), n)
}

// depthLowCase (round 7b): depth intervals whose upper end is at most 1 (and empty ones, min > max) on trees
// that HAVE an inner branch of depth 1 — a single-child inner node (or a chain of them) above one tip — and,
// with removeRoot, on rooted trees with a tip hanging off the root (its sister root branch has depth 1).
// "Depth 1 concerns tips only" is false there: the branch above the single-child node meets the criterion
// and must go although --tips is not given.
func depthLowCase(c *core.Ctx, cli bool) {
	o := opts(c.G)
	o.Singles = 0
	if o.MinTips < 3 {
		o.MinTips = 3
	}
	n, _ := c.G.Tree(o)
	rooted := c.G.Chance(0.4)
	if rooted {
		// a tip hanging off a root with two neighbours
		tipN := &core.N{Name: "tz", E: core.NewE()}
		tipN.E.Len = c.G.Length(&o)
		n.E = core.NewE()
		n.E.Len = c.G.Length(&o)
		if c.G.Chance(0.5) {
			n.E.Sup = c.G.Support(&o)
		}
		kids := []*core.N{tipN, n}
		if c.G.Chance(0.5) {
			kids = []*core.N{n, tipN}
		}
		n = &core.N{Kids: kids}
	}
	if !rooted || c.G.Chance(0.5) {
		// single-child nodes above 1-3 of the tips, chains of up to 3
		var spots [][2]interface{}
		var walk func(x *core.N)
		walk = func(x *core.N) {
			for i, k := range x.Kids {
				if len(k.Kids) == 0 {
					spots = append(spots, [2]interface{}{x, i})
				} else {
					walk(k)
				}
			}
		}
		walk(n)
		for j := 0; j < 1+c.G.Intn(3) && len(spots) > 0; j++ {
			sp := spots[c.G.Intn(len(spots))]
			par, i := sp[0].(*core.N), sp[1].(int)
			for d := 0; d < 1+c.G.Intn(3); d++ {
				mid := &core.N{E: core.NewE(), Kids: []*core.N{par.Kids[i]}}
				mid.E.Len = c.G.Length(&o)
				if c.G.Chance(0.5) {
					mid.E.Sup = c.G.Support(&o)
				}
				par.Kids[i] = mid
			}
		}
	}
	if !cli && c.G.Chance(0.4) {
		shufflePPos(c, n, true)
	}
	core.NumberEdges(n)
	iv := [][2]int{{1, 1}, {0, 1}, {1, 1}, {0, 0}, {2, 1}, {1, 0}, {-1, 1}, {1, 2}, {3, 1}}[c.G.Intn(9)]
	rr := c.G.Chance(0.5)
	if rooted && c.G.Chance(0.6) {
		rr = true
	}
	doDepth(c, cli, iv[0], iv[1], rr, c.G.Chance(0.15), n)
}

func removeCase(c *core.Ctx) {
	n := genTree(c, false)
	var ids []int
	collect(n, func(k *core.N) {
		if c.G.Chance(0.45) {
			ids = append(ids, k.E.Id)
		}
	})
	// any order: shuffled, reversed or as listed
	switch c.G.Intn(3) {
	case 0:
		c.G.R.Shuffle(len(ids), func(i, j int) { ids[i], ids[j] = ids[j], ids[i] })
	case 1:
		for i, j := 0, len(ids)-1; i < j; i, j = i+1, j-1 {
			ids[i], ids[j] = ids[j], ids[i]
		}
	}
	doRemove(c, c.G.Chance(0.4), c.G.Chance(0.3), ids, n)
}

func resolveCase(c *core.Ctx, cli bool) {
	o := opts(c.G)
	o.Multif, o.MaxDeg = 0.6, 7
	if c.G.Chance(0.3) {
		o.Rooted = 0 // more multifurcating roots
	}
	if !c.Quick() && c.G.Chance(0.1) {
		o.MaxTips, o.MaxDeg = 40, 12 // long ladders
	}
	if cli {
		o.Singles = 0
		if o.MinTips < 3 {
			o.MinTips = 3
		}
	}
	n, _ := c.G.Tree(o)
	if c.G.Chance(0.06) {
		n = rootTip(c, &o, n)
	}
	if !cli && c.G.Chance(0.5) {
		shufflePPos(c, n, true)
	}
	core.NumberEdges(n)
	doResolve(c, cli, int64(c.G.Intn(1<<30)), n)
}

// Run generates the cases of C07.
func Run(c *core.Ctx) {
	if runInChild(c) {
		return
	}
	if c.Arg != "" {
		lines := core.ReadRequests(c.Arg)
		if os.Getenv("VERIF_SHRINK") != "" {
			for i := range lines {
				lines[i] = Shrink(c, lines[i])
			}
		}
		Replay(c, lines)
		return
	}
	n := c.Scale(800, 25000)
	for i := 0; i < n; i++ {
		switch i % 8 {
		case 0, 1:
			lenCase(c, false)
		case 2:
			supCase(c, false)
		case 3, 7:
			depthCase(c, false)
		case 4:
			removeCase(c)
		default:
			resolveCase(c, false)
		}
	}
	for i := 0; i < c.Scale(40, 1200); i++ {
		seqCase(c)
	}
	for i := 0; i < c.Scale(40, 1500); i++ {
		depthLowCase(c, false)
	}
	if c.Gotree != "" {
		m := c.Scale(40, 800)
		for i := 0; i < c.Scale(2, 12); i++ {
			cmdCases(c) // every flag combination of the four commands
			for _, kind := range []string{"l-inf", "l-nan", "l-ninf", "s-nan", "s-inf"} {
				doNonFinite(c, kind, genTree(c, true))
			}
		}
		for i := 0; i < m/8; i++ {
			multiCLI(c)
		}
		for i := 0; i < c.Scale(12, 200); i++ {
			depthLowCase(c, true) // single-child nodes and a tip at the root through `gotree collapse depth`
		}
		for i := 0; i < m; i++ {
			switch i % 4 {
			case 0:
				lenCase(c, true)
			case 1:
				supCase(c, true)
			case 2:
				depthCase(c, true)
			default:
				resolveCase(c, true)
			}
		}
	}
}
