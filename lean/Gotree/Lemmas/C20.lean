/-
  C20 — helper lemmas for `Gotree/Proofs/C20.lean`.  Core Lean only.
-/
import Gotree.Spec.C20

namespace Gotree.C20
open Gotree List

/-! ## sums of naturals over lists -/

theorem sum_map_congr {l : List α} {f g : α → Nat} (h : ∀ a ∈ l, f a = g a) :
    (l.map f).sum = (l.map g).sum := by
  rw [List.map_congr_left h]

theorem sum_map_add (l : List α) (f g : α → Nat) :
    (l.map fun a => f a + g a).sum = (l.map f).sum + (l.map g).sum := by
  induction l with
  | nil => rfl
  | cons a l ih => simp [ih]; omega

theorem sum_map_zero (l : List α) : (l.map fun _ => (0 : Nat)).sum = 0 := by
  induction l with
  | nil => rfl
  | cons a l ih => simpa using ih

theorem sum_map_const (l : List α) (c : Nat) : (l.map fun _ => c).sum = l.length * c := by
  induction l with
  | nil => simp
  | cons a l ih => simp [ih, Nat.add_mul]; omega

theorem sum_map_mul_left (l : List α) (c : Nat) (f : α → Nat) :
    (l.map fun a => c * f a).sum = c * (l.map f).sum := by
  induction l with
  | nil => simp
  | cons a l ih => simp [ih, Nat.mul_add]

/-- exchange of two finite sums -/
theorem sum_comm (l : List α) (m : List β) (g : α → β → Nat) :
    (l.map fun a => (m.map fun b => g a b).sum).sum = (m.map fun b => (l.map fun a => g a b).sum).sum := by
  induction l with
  | nil => simp [sum_map_zero]
  | cons a l ih => simp [ih, sum_map_add]

theorem countP_eq_sum (p : α → Bool) (l : List α) :
    l.countP p = (l.map fun a => if p a then 1 else 0).sum := by
  induction l with
  | nil => rfl
  | cons a l ih => by_cases h : p a <;> simp [h, ih] <;> omega

/-- a sum is not changed by dropping terms that vanish -/
theorem sum_filter_of_zero (l : List α) (q : α → Bool) (F : α → Nat)
    (h : ∀ x ∈ l, q x = false → F x = 0) : (l.map F).sum = ((l.filter q).map F).sum := by
  induction l with
  | nil => rfl
  | cons a l ih =>
    have ih' := ih (fun x hx => h x (List.mem_cons_of_mem _ hx))
    by_cases hq : q a
    · simp [hq, ih']
    · have : F a = 0 := h a (List.mem_cons_self) (by simpa using hq)
      simp [hq, ih', this]

/-! ## draw spaces -/

theorem space_snoc (bs : List Nat) (b : Nat) :
    space (bs ++ [b]) = (space bs).flatMap fun ds => (List.range b).map fun j => ds ++ [j] := by
  simp [space, spaceR, List.reverse_append]

theorem space_nil : space [] = [[]] := rfl

theorem countP_space_snoc (p : List Nat → Bool) (bs : List Nat) (b : Nat) :
    (space (bs ++ [b])).countP p =
      ((space bs).map fun ds => (List.range b).countP fun j => p (ds ++ [j])).sum := by
  rw [space_snoc, List.countP_flatMap]
  congr 1
  apply List.map_congr_left
  intro ds _
  simp [List.countP_map, Function.comp_def]

theorem length_of_mem_space {bs ds : List Nat} (h : ds ∈ space bs) : ds.length = bs.length := by
  have : ∀ (rs : List Nat) ds, ds ∈ spaceR rs → ds.length = rs.length := by
    intro rs
    induction rs with
    | nil => intro ds h; simp [spaceR] at h; simp [h]
    | cons b rs ih =>
      intro ds h
      simp only [spaceR, List.mem_flatMap, List.mem_map] at h
      obtain ⟨d', hd', j, _, rfl⟩ := h
      simp [ih d' hd']
  simpa using this bs.reverse ds h

theorem length_space (bs : List Nat) : (space bs).length = bs.foldl (· * ·) 1 := by
  have : ∀ (rs : List Nat), (spaceR rs).length = rs.foldr (· * ·) 1 := by
    intro rs
    induction rs with
    | nil => rfl
    | cons b rs ih =>
      simp only [spaceR, List.length_flatMap, List.length_map, List.length_range, List.foldr_cons]
      rw [sum_map_const, ih, Nat.mul_comm]
  rw [space, this, List.foldr_reverse]
  congr 1
  funext a b
  exact Nat.mul_comm _ _

/-! ## reservoir: the loop as a fold -/

/-- the reservoir as a fold: the first `k` items fill the slots, every later item makes one draw -/
def resFold (k : Nat) (items : List α) (draws : List Nat) : List α :=
  ((items.drop k).zip draws).foldl (fun r p => resStep k r p.1 p.2) (items.take k)

theorem resLoop_eq_fold (k : Nat) (xs : List α) (i : Nat) (res : List α) (ds : List Nat) :
    resLoop k xs i res ds =
      ((xs.drop (k - i)).zip ds).foldl (fun r p => resStep k r p.1 p.2) (res ++ xs.take (k - i)) := by
  induction xs generalizing i res ds with
  | nil => simp [resLoop]
  | cons x xs ih =>
    by_cases h : i < k
    · have h1 : k - i = (k - (i + 1)) + 1 := by omega
      simp only [resLoop, if_pos h]
      rw [ih, h1]
      simp
    · have h0 : k - i = 0 := by omega
      cases ds with
      | nil => simp [resLoop, if_neg h, h0]
      | cons j ds' =>
        simp only [resLoop, if_neg h, h0]
        simp only [List.drop_zero, List.take_zero, List.append_nil, List.zip_cons_cons, List.foldl_cons]
        rw [ih]
        have h2 : k - (i + 1) = 0 := by omega
        simp [h2]

theorem reservoir_eq_fold (k : Nat) (items : List α) (ds : List Nat) :
    reservoir k items ds = resFold k items ds := by
  simp [reservoir, resFold, resLoop_eq_fold]

/-- `k ≥ n`: every item is kept, whatever the draws -/
theorem reservoir_all (k : Nat) (items : List α) (ds : List Nat) (h : items.length ≤ k) :
    reservoir k items ds = items := by
  rw [reservoir_eq_fold, resFold, List.drop_eq_nil_of_le h, List.take_of_length_le h]
  rfl

theorem resFold_snoc (k n : Nat) (ds : List Nat) (j : Nat) (hk : k ≤ n) (hl : ds.length = n - k) :
    resFold k (List.range (n + 1)) (ds ++ [j]) = resStep k (resFold k (List.range n) ds) n j := by
  have h1 : (List.range (n + 1)).drop k = (List.range n).drop k ++ [n] := by
    rw [List.range_succ, List.drop_append_of_le_length (by simpa using hk)]
  have h2 : (List.range (n + 1)).take k = (List.range n).take k := by
    rw [List.range_succ, List.take_append_of_le_length (by simpa using hk)]
  have h3 : ((List.range n).drop k).length = ds.length := by simp [hl]
  rw [resFold, h1, h2, List.zip_append h3, List.foldl_append]
  rfl

theorem resScript_succ (bound : Nat → Nat) (k n : Nat) (hk : k ≤ n) :
    resScript bound k (n + 1) = resScript bound k n ++ [bound n] := by
  have h1 : n + 1 - k = (n - k) + 1 := by omega
  have h2 : k + (n - k) = n := by omega
  simp [resScript, h1, List.range'_concat, h2]

theorem resScript_self (bound : Nat → Nat) (k : Nat) : resScript bound k k = [] := by
  simp [resScript]

theorem length_resScript (bound : Nat → Nat) (k n : Nat) : (resScript bound k n).length = n - k := by
  simp [resScript]

/-! ## reservoir: invariants (slots hold pairwise distinct items) -/

theorem nodup_set_of_not_mem {l : List Nat} {a : Nat} (i : Nat) (hn : l.Nodup) (ha : a ∉ l) :
    (l.set i a).Nodup := by
  rw [List.set_eq_take_append_cons_drop]
  split
  · rename_i hi
    have hsub : (l.take i ++ l.drop (i + 1)).Sublist l := by
      conv => rhs; rw [← List.take_append_drop i l]
      exact List.Sublist.append (List.Sublist.refl _) (List.drop_sublist_drop_left l (Nat.le_succ i))
    have hnd := hn.sublist hsub
    have hmem : a ∉ l.take i ++ l.drop (i + 1) := fun h => ha (hsub.subset h)
    rw [List.nodup_append] at hnd ⊢
    simp only [List.mem_append, not_or] at hmem
    refine ⟨hnd.1, ?_, ?_⟩
    · rw [List.nodup_cons]; exact ⟨hmem.2, hnd.2.1⟩
    · intro x hx y hy
      rcases List.mem_cons.1 hy with rfl | hy
      · intro h; exact hmem.1 (h ▸ hx)
      · exact hnd.2.2 x hx y hy
  · exact hn

/-- what the invariant says about the slots after `n ≥ k` items -/
structure ResInv (k n : Nat) (R : List Nat) : Prop where
  len : R.length = k
  nodup : R.Nodup
  lt : ∀ x ∈ R, x < n

theorem ResInv.step {k n : Nat} {R : List Nat} (h : ResInv k n R) (j : Nat) :
    ResInv k (n + 1) (resStep k R n j) := by
  unfold resStep
  split
  · refine ⟨by simp [h.len], ?_, ?_⟩
    · exact nodup_set_of_not_mem j h.nodup (fun hm => Nat.lt_irrefl _ (h.lt n hm))
    · intro x hx
      rcases List.mem_or_eq_of_mem_set hx with hx | rfl
      · exact Nat.lt_succ_of_lt (h.lt x hx)
      · exact Nat.lt_succ_self _
  · exact ⟨h.len, h.nodup, fun x hx => Nat.lt_succ_of_lt (h.lt x hx)⟩

theorem eq_snoc_of_length_succ {ds : List Nat} {m : Nat} (h : ds.length = m + 1) :
    ∃ ds' j, ds = ds' ++ [j] ∧ ds'.length = m := by
  rcases List.eq_nil_or_concat ds with rfl | ⟨ds', j, rfl⟩
  · simp at h
  · exact ⟨ds', j, by simp, by simpa using h⟩

theorem resInv (k m : Nat) (ds : List Nat) (hl : ds.length = m) :
    ResInv k (k + m) (resFold k (List.range (k + m)) ds) := by
  induction m generalizing ds with
  | zero =>
    have : ds = [] := List.eq_nil_of_length_eq_zero hl
    subst this
    simp only [Nat.add_zero, resFold, List.zip_nil_right, List.foldl_nil]
    rw [List.take_of_length_le (by simp)]
    exact ⟨by simp, List.nodup_range, fun x hx => by simpa using hx⟩
  | succ m ih =>
    obtain ⟨ds', j, rfl, hl'⟩ := eq_snoc_of_length_succ hl
    have := resFold_snoc k (k + m) ds' j (by omega) (by omega)
    rw [show k + (m + 1) = (k + m) + 1 from rfl, this]
    exact (ih ds' hl').step j

/-! ## indicator vectors -/

theorem length_chi (n : Nat) (R : List Nat) : (indicator n R).length = n := by simp [indicator]

theorem getElem_chi (n : Nat) (R : List Nat) (x : Nat) (h : x < (indicator n R).length) :
    (indicator n R)[x] = R.contains x := by simp [indicator]

theorem chi_succ (n : Nat) (R : List Nat) : indicator (n + 1) R = indicator n R ++ [R.contains n] := by
  simp [indicator, List.range_succ]

theorem mem_set_iff {R : List Nat} {j a x : Nat} (hn : R.Nodup) (hj : j < R.length) (hx : x ≠ a) :
    x ∈ R.set j a ↔ (x ∈ R ∧ x ≠ R[j]) := by
  constructor
  · intro h
    obtain ⟨i, hi, he⟩ := List.mem_iff_getElem.1 h
    rw [List.length_set] at hi
    rw [List.getElem_set] at he
    split at he
    · exact absurd he.symm hx
    · rename_i hne
      refine ⟨he ▸ List.getElem_mem hi, ?_⟩
      intro hxe
      have := (List.getElem_inj (h₀ := hi) (h₁ := hj) hn).1 (he.trans hxe)
      exact hne this.symm
  · rintro ⟨h, hne⟩
    obtain ⟨i, hi, he⟩ := List.mem_iff_getElem.1 h
    have hij : j ≠ i := fun hji => hne (by subst hji; exact he.symm)
    exact List.mem_iff_getElem.2 ⟨i, by simpa using hi, by simp [hij, he]⟩

theorem chi_set {k n : Nat} {R : List Nat} (h : ResInv k n R) (j : Nat) (hj : j < k) :
    indicator (n + 1) (R.set j n) = (indicator n R).set (R[j]'(h.len ▸ hj)) false ++ [true] := by
  have hjR : j < R.length := h.len ▸ hj
  have hnR : n ∉ R := fun hm => Nat.lt_irrefl _ (h.lt n hm)
  rw [chi_succ]
  congr 1
  · apply List.ext_getElem
    · simp [length_chi]
    · intro x h1 h2
      have hx : x < n := by simpa [length_chi] using h1
      rw [getElem_chi, List.getElem_set]
      have hiff := mem_set_iff (j := j) (a := n) (x := x) h.nodup hjR (by omega)
      by_cases hxe : R[j] = x
      · simp only [hxe, if_true]
        have : ¬ x ∈ R.set j n := fun hm => (hiff.1 hm).2 hxe.symm
        simpa using this
      · simp only [hxe, if_false, getElem_chi]
        have : x ∈ R.set j n ↔ x ∈ R := by
          rw [hiff]; exact ⟨fun h => h.1, fun h => ⟨h, fun e => hxe e.symm⟩⟩
        by_cases hm : x ∈ R <;> simp [hm, this]
  · simp [List.mem_set, hjR]

/-! ## counting helpers -/

theorem countP_range_getD (l : List α) (d : α) (G : α → Bool) (N : Nat) (h : l.length ≤ N) :
    (List.range N).countP (fun j => decide (j < l.length) && G (l.getD j d)) = l.countP G := by
  induction l generalizing N with
  | nil => simp
  | cons a l ih =>
    obtain ⟨N', rfl⟩ : ∃ N', N = N' + 1 := ⟨N - 1, by simp at h; omega⟩
    rw [List.range_succ_eq_map, List.countP_cons, List.countP_map]
    have h' : l.length ≤ N' := by simp at h; omega
    have := ih N' h'
    have e : (fun x : Nat => decide (x.succ < l.length + 1) && G (l.getD x d)) =
        (fun j => decide (j < l.length) && G (l.getD j d)) := by
      funext x; simp
    simp only [Function.comp_def, List.length_cons, List.getD_cons_succ]
    rw [e, this]
    simp [List.countP_cons]

theorem countP_range_ge (N k : Nat) (c : Bool) :
    (List.range N).countP (fun j => decide (k ≤ j) && c) = (N - k) * (if c then 1 else 0) := by
  induction N with
  | zero => simp
  | succ N ih =>
    rw [List.range_succ, List.countP_append, ih]
    cases c
    · simp
    · by_cases hk : k ≤ N
      · simp [hk]; omega
      · simp [hk]; omega

theorem count_true_add_false (s : List Bool) : s.count true + s.count false = s.length := by
  induction s with
  | nil => rfl
  | cons b s ih => cases b <;> simp <;> omega

theorem set_false_eq_iff (v s : List Bool) (y : Nat) (hy : y < v.length) (hv : v[y] = true)
    (hl : v.length = s.length) :
    v.set y false = s ↔ (s[y]'(hl ▸ hy) = false ∧ v = s.set y true) := by
  constructor
  · intro h
    subst h
    refine ⟨by simp, ?_⟩
    rw [List.set_set]
    exact (hv ▸ (List.set_getElem_self hy).symm)
  · rintro ⟨h1, h2⟩
    subst h2
    rw [List.set_set]
    have hy' : y < s.length := hl ▸ hy
    exact (h1 ▸ List.set_getElem_self hy')

/-! ## reservoir: the counting step -/

theorem chi_step {k n : Nat} {R : List Nat} (h : ResInv k n R) (j : Nat) :
    indicator (n + 1) (resStep k R n j) =
      if hj : j < k then (indicator n R).set (R[j]'(h.len ▸ hj)) false ++ [true] else indicator n R ++ [false] := by
  unfold resStep
  by_cases hj : j < k
  · simp only [hj, if_true, dif_pos]
    exact chi_set h j hj
  · simp only [hj, if_false, dif_neg, not_false_eq_true]
    rw [chi_succ]
    have : ¬ n ∈ R := fun hm => Nat.lt_irrefl _ (h.lt n hm)
    simp [this]

theorem inner_false {k n : Nat} {R : List Nat} (h : ResInv k n R) (s : List Bool) (hs : s.length = n) :
    (List.range (n + 1)).countP (fun j => indicator (n + 1) (resStep k R n j) == s ++ [false]) =
      (n + 1 - k) * (if indicator n R == s then 1 else 0) := by
  rw [← countP_range_ge]
  congr 1
  funext j
  rw [chi_step h j]
  by_cases hj : j < k
  · have hne : ¬ k ≤ j := by omega
    simp only [hj, dif_pos, hne, decide_false, Bool.false_and]
    have hlen : ((indicator n R).set (R[j]'(h.len ▸ hj)) false).length = s.length := by simp [length_chi, hs]
    simp
  · have hge : k ≤ j := by omega
    simp only [hj, dif_neg, not_false_eq_true, hge, decide_true, Bool.true_and]
    have hlen : (indicator n R).length = s.length := by simp [length_chi, hs]
    by_cases he : indicator n R = s <;> simp [he]

/-- the candidates for the item that was overwritten -/
def flipOK (v s : List Bool) (x : Nat) : Bool := (s.getD x true == false) && (v == s.set x true)

theorem inner_true {k n : Nat} {R : List Nat} (h : ResInv k n R) (hk : k ≤ n) (s : List Bool)
    (hs : s.length = n) :
    (List.range (n + 1)).countP (fun j => indicator (n + 1) (resStep k R n j) == s ++ [true]) =
      ((List.range n).map fun x => if flipOK (indicator n R) s x then 1 else 0).sum := by
  -- left: one term per slot
  have hL : (fun j => indicator (n + 1) (resStep k R n j) == s ++ [true]) =
      (fun j => decide (j < R.length) && ((indicator n R).set (R.getD j 0) false == s)) := by
    funext j
    rw [chi_step h j]
    by_cases hj : j < k
    · have hjR : j < R.length := h.len ▸ hj
      simp only [hj, dif_pos, hjR, decide_true, Bool.true_and]
      have hlen : ((indicator n R).set R[j] false).length = s.length := by simp [length_chi, hs]
      have hg : R.getD j 0 = R[j] := by simp [List.getD_eq_getElem?_getD, hjR]
      rw [hg]
      by_cases he : (indicator n R).set R[j] false = s <;> simp [he]
    · have hjR : ¬ j < R.length := h.len ▸ hj
      simp [hj, hjR]
  rw [hL, countP_range_getD R 0 (fun y => (indicator n R).set y false == s) (n + 1) (by rw [h.len]; omega)]
  -- on the elements of R the test is `flipOK`
  rw [countP_eq_sum]
  have hR : (R.map fun y => if ((indicator n R).set y false == s) = true then 1 else 0).sum =
      (R.map fun x => if flipOK (indicator n R) s x then 1 else 0).sum := by
    apply sum_map_congr
    intro y hy
    have hyn : y < n := h.lt y hy
    have hyv : y < (indicator n R).length := by simpa [length_chi] using hyn
    have hvy : (indicator n R)[y] = true := by rw [getElem_chi]; simpa using hy
    have := set_false_eq_iff (indicator n R) s y hyv hvy (by simp [length_chi, hs])
    have hys : y < s.length := hs ▸ hyn
    have hg : s.getD y true = s[y] := by simp [List.getD_eq_getElem?_getD, hys]
    by_cases he : (indicator n R).set y false = s
    · have h12 := this.1 he
      have hf : flipOK (indicator n R) s y = true := by
        simp only [flipOK, hg, h12.1, BEq.rfl, Bool.true_and]
        exact beq_iff_eq.2 h12.2
      rw [if_pos (by simp [he]), if_pos hf]
    · have hne : ¬ (s[y] = false ∧ indicator n R = s.set y true) := fun hc => he (this.2 hc)
      simp only [flipOK, hg]
      simp only [beq_iff_eq, he, if_false, Bool.and_eq_true]
      simp [hne]
  rw [hR]
  -- right: only elements of R can pass the test
  rw [sum_filter_of_zero (List.range n) (fun x => R.contains x)]
  · apply List.Perm.sum_nat
    apply List.Perm.map
    apply (List.perm_ext_iff_of_nodup h.nodup (List.nodup_range.sublist List.filter_sublist)).2
    intro a
    simp only [List.mem_filter, List.mem_range, List.contains_iff_mem]
    exact ⟨fun ha => ⟨h.lt a ha, ha⟩, fun ha => ha.2⟩
  · intro x hx hq
    have hxn : x < n := List.mem_range.1 hx
    have hxR : ¬ x ∈ R := by simpa using hq
    have : flipOK (indicator n R) s x = false := by
      simp only [flipOK, Bool.and_eq_false_iff]
      right
      apply beq_false_of_ne
      intro he
      have h1 : (indicator n R)[x]'(by simpa [length_chi] using hxn) = false := by
        rw [getElem_chi]; simpa using hxR
      have h2 : (s.set x true)[x]'(by simpa [hs] using hxn) = true := by simp
      simp [he] at h1
    simp [this]

/-! ## reservoir: every `k`-subset has exactly `(n-k)!` draw lists -/

theorem resFold_nil_draws (k : Nat) : resFold k (List.range k) [] = List.range k := by
  simp only [resFold, List.zip_nil_right, List.foldl_nil]
  exact List.take_of_length_le (by simp)

theorem chi_range (k : Nat) : indicator k (List.range k) = List.replicate k true := by
  apply List.ext_getElem
  · simp [length_chi]
  · intro x h1 h2
    rw [getElem_chi]
    have : x < k := by simpa [length_chi] using h1
    simp [this]

theorem count_flip (s : List Bool) (x : Nat) (hx : x < s.length) (hf : s[x] = false) :
    (s.set x true).count true = s.count true + 1 := by
  rw [List.count_set hx]
  simp [hf]

theorem sum_flip_candidates (s : List Bool) (c : Nat) :
    ((List.range s.length).map fun x => if (s.getD x true == false) then c else 0).sum = s.count false * c := by
  have h1 := countP_range_getD s true (fun b => b == false) s.length (Nat.le_refl _)
  have h2 : ((List.range s.length).map fun x => if (s.getD x true == false) then c else 0) =
      ((List.range s.length).map fun x => c * (if (decide (x < s.length) && (s.getD x true == false)) then 1 else 0)) := by
    apply List.map_congr_left
    intro x hx
    have : x < s.length := List.mem_range.1 hx
    by_cases hb : (s.getD x true == false) = true
    · simp only [hb, if_true, this, decide_true, Bool.and_self]; omega
    · simp only [hb, Bool.and_false]; simp
  rw [h2, sum_map_mul_left, ← countP_eq_sum, h1, Nat.mul_comm]
  rfl

theorem reservoir_count (k m : Nat) (s : List Bool) (hs : s.length = k + m) (hc : s.count true = k) :
    (space (resScript (· + 1) k (k + m))).countP
        (fun ds => indicator (k + m) (resFold k (List.range (k + m)) ds) == s) = fact m := by
  induction m generalizing s with
  | zero =>
    have hs' : s = List.replicate k true := by
      rw [List.eq_replicate_iff]
      refine ⟨hs, ?_⟩
      have : s.count true = s.length := by rw [hc, hs]; rfl
      intro b hb
      exact ((List.count_eq_length.1 this) b hb).symm
    simp [resScript_self, space_nil, resFold_nil_draws, chi_range, hs', fact]
  | succ m ih =>
    have hkn : k ≤ k + m := Nat.le_add_right _ _
    rw [show k + (m + 1) = (k + m) + 1 from rfl, resScript_succ _ _ _ hkn, countP_space_snoc]
    obtain ⟨s0, b, rfl⟩ : ∃ s0 b, s = s0 ++ [b] := by
      rcases List.eq_nil_or_concat s with rfl | ⟨s0, b, rfl⟩
      · simp at hs
      · exact ⟨s0, b, by simp⟩
    have hs0 : s0.length = k + m := by simp at hs; omega
    -- rewrite every inner count with the step lemmas
    have hinner : ∀ ds ∈ space (resScript (· + 1) k (k + m)),
        (List.range (k + m + 1)).countP (fun j => indicator (k + m + 1) (resFold k (List.range (k + m + 1)) (ds ++ [j])) == s0 ++ [b]) =
        (List.range (k + m + 1)).countP (fun j => indicator (k + m + 1) (resStep k (resFold k (List.range (k + m)) ds) (k + m) j) == s0 ++ [b]) := by
      intro ds hds
      have hl : ds.length = k + m - k := by rw [length_of_mem_space hds, length_resScript]
      congr 1
      funext j
      rw [resFold_snoc k (k + m) ds j hkn hl]
    rw [sum_map_congr hinner]
    cases b with
    | false =>
      have hc0 : s0.count true = k := by simpa using hc
      have h2 : ∀ ds ∈ space (resScript (· + 1) k (k + m)),
          (List.range (k + m + 1)).countP (fun j => indicator (k + m + 1) (resStep k (resFold k (List.range (k + m)) ds) (k + m) j) == s0 ++ [false]) =
          (m + 1) * (if indicator (k + m) (resFold k (List.range (k + m)) ds) == s0 then 1 else 0) := by
        intro ds hds
        have hl : ds.length = m := by rw [length_of_mem_space hds, length_resScript]; omega
        rw [inner_false (resInv k m ds hl) s0 hs0]
        congr 1
        omega
      rw [sum_map_congr h2, sum_map_mul_left, ← countP_eq_sum, ih s0 hs0 hc0]
      rfl
    | true =>
      have hc0 : s0.count true + 1 = k := by simpa using hc
      have h2 : ∀ ds ∈ space (resScript (· + 1) k (k + m)),
          (List.range (k + m + 1)).countP (fun j => indicator (k + m + 1) (resStep k (resFold k (List.range (k + m)) ds) (k + m) j) == s0 ++ [true]) =
          ((List.range (k + m)).map fun x => if flipOK (indicator (k + m) (resFold k (List.range (k + m)) ds)) s0 x then 1 else 0).sum := by
        intro ds hds
        have hl : ds.length = m := by rw [length_of_mem_space hds, length_resScript]; omega
        exact inner_true (resInv k m ds hl) hkn s0 hs0
      rw [sum_map_congr h2, sum_comm]
      -- for every candidate x the inner sum is `fact m` by the induction hypothesis
      have h3 : ∀ x ∈ List.range (k + m),
          ((space (resScript (· + 1) k (k + m))).map fun ds =>
            if flipOK (indicator (k + m) (resFold k (List.range (k + m)) ds)) s0 x then 1 else 0).sum =
          if (s0.getD x true == false) then fact m else 0 := by
        intro x hx
        have hxn : x < s0.length := by rw [hs0]; exact List.mem_range.1 hx
        by_cases hf : (s0.getD x true == false) = true
        · have hfx : s0[x] = false := by
            have : s0.getD x true = s0[x] := by simp [List.getD_eq_getElem?_getD, hxn]
            rw [this] at hf; simpa using hf
          have := ih (s0.set x true) (by simpa using hs0) (by rw [count_flip s0 x hxn hfx]; exact hc0)
          rw [countP_eq_sum] at this
          simp only [flipOK, hf, Bool.true_and, if_true]
          exact this
        · simp only [flipOK, hf, Bool.false_and]
          simp only [Bool.false_eq_true, if_false]
          exact sum_map_zero _
      rw [sum_map_congr h3, ← hs0, sum_flip_candidates]
      have := count_true_add_false s0
      have hcf : s0.count false = m + 1 := by omega
      rw [hcf]
      rfl

/-! ## bounds -/

theorem length_of_inBounds {bs ds : List Nat} (h : inBounds bs ds = true) : ds.length = bs.length := by
  induction bs generalizing ds with
  | nil => cases ds <;> simp_all [inBounds]
  | cons b bs ih =>
    cases ds with
    | nil => simp [inBounds] at h
    | cons j ds => simp [inBounds] at h; simp [ih h.2]

theorem inBounds_snoc (bs ds : List Nat) (b j : Nat) :
    inBounds (bs ++ [b]) (ds ++ [j]) = (inBounds bs ds && decide (j < b)) := by
  induction bs generalizing ds with
  | nil =>
    cases ds with
    | nil => simp [inBounds]
    | cons a ds => cases ds <;> simp [inBounds]
  | cons c bs ih =>
    cases ds with
    | nil => cases bs <;> simp [inBounds]
    | cons a ds => simp [inBounds, ih, Bool.and_assoc]

theorem inBounds_snoc_elim {bs ds : List Nat} {b : Nat} (h : inBounds (bs ++ [b]) ds = true) :
    ∃ ds' j, ds = ds' ++ [j] ∧ inBounds bs ds' = true ∧ j < b := by
  have hl := length_of_inBounds h
  rcases List.eq_nil_or_concat ds with rfl | ⟨ds', j, rfl⟩
  · simp at hl
  · refine ⟨ds', j, by simp, ?_⟩
    have : ds'.concat j = ds' ++ [j] := by simp
    rw [this, inBounds_snoc] at h
    simpa using h

theorem mem_space_iff (bs ds : List Nat) : ds ∈ space bs ↔ inBounds bs ds = true := by
  have : ∀ (rs : List Nat) ds, ds ∈ spaceR rs ↔ inBounds rs.reverse ds = true := by
    intro rs
    induction rs with
    | nil => intro ds; cases ds <;> simp [spaceR, inBounds]
    | cons b rs ih =>
      intro ds
      simp only [spaceR, List.mem_flatMap, List.mem_map, List.mem_range, List.reverse_cons]
      constructor
      · rintro ⟨d', hd', j, hj, rfl⟩
        rw [inBounds_snoc]; simp [(ih d').1 hd', hj]
      · intro h
        obtain ⟨d', j, rfl, h1, h2⟩ := inBounds_snoc_elim h
        exact ⟨d', (ih d').2 h1, j, h2, rfl⟩
  simpa [space] using this bs.reverse ds

/-! ## rand.Perm -/

theorem permScript_succ (n : Nat) : permScript (n + 1) = permScript n ++ [n + 1] := by
  simp [permScript, List.range_succ]

theorem goPerm_snoc (ds : List Nat) (j : Nat) : goPerm (ds ++ [j]) = permStep (goPerm ds) j := by
  simp [goPerm, List.foldl_append]

theorem permStep_lt (m : List Nat) (j : Nat) (hj : j < m.length) :
    permStep m j = m.set j m.length ++ [m[j]] := by
  simp [permStep, hj, List.getD_eq_getElem?_getD]

theorem permStep_self (m : List Nat) : permStep m m.length = m ++ [m.length] := by
  simp [permStep]

theorem length_permStep (m : List Nat) (j : Nat) : (permStep m j).length = m.length + 1 := by
  simp [permStep]

theorem set_append_getElem_perm (l : List Nat) (j a : Nat) (hj : j < l.length) :
    (l.set j a ++ [l[j]]).Perm (l ++ [a]) := by
  rw [List.set_eq_take_append_cons_drop, if_pos hj]
  have hm : l = l.take j ++ l[j] :: l.drop (j + 1) := by
    rw [List.getElem_cons_drop]; exact (List.take_append_drop j l).symm
  conv => rhs; rw [hm]
  simp only [List.append_assoc, List.cons_append]
  apply List.Perm.append_left
  have h1 : (a :: (l.drop (j + 1) ++ [l[j]])).Perm (a :: l[j] :: l.drop (j + 1)) :=
    List.Perm.cons _ (List.perm_append_singleton _ _)
  have h2 : (l[j] :: (l.drop (j + 1) ++ [a])).Perm (l[j] :: a :: l.drop (j + 1)) :=
    List.Perm.cons _ (List.perm_append_singleton _ _)
  exact h1.trans ((List.Perm.swap _ _ _).trans h2.symm)

theorem permStep_perm (m : List Nat) (j : Nat) (hj : j ≤ m.length) :
    (permStep m j).Perm (m ++ [m.length]) := by
  rcases Nat.lt_or_eq_of_le hj with hlt | rfl
  · rw [permStep_lt m j hlt]
    exact set_append_getElem_perm m j m.length hlt
  · rw [permStep_self]

/-- the permutations produced are permutations of `0 … n-1` -/
theorem goPerm_perm (n : Nat) (ds : List Nat) (h : inBounds (permScript n) ds = true) :
    (goPerm ds).Perm (List.range n) := by
  induction n generalizing ds with
  | zero =>
    have := length_of_inBounds h
    have : ds = [] := by simpa [permScript] using this
    subst this; simp [goPerm]
  | succ n ih =>
    rw [permScript_succ] at h
    obtain ⟨d', j, rfl, h1, h2⟩ := inBounds_snoc_elim h
    have hp := ih d' h1
    have hl : (goPerm d').length = n := by simpa using hp.length_eq
    rw [goPerm_snoc, List.range_succ]
    refine (permStep_perm _ j (by omega)).trans ?_
    rw [hl]
    exact List.Perm.append_right _ hp

theorem getElem_permStep_self (m : List Nat) (j : Nat) (hj : j ≤ m.length) :
    (permStep m j)[j]'(by rw [length_permStep]; omega) = m.length := by
  simp [permStep]

theorem getElem_permStep_ne (m : List Nat) (j i : Nat) (hi : i < m.length + 1) (hj : j ≤ m.length)
    (hij : i ≠ j) (hn : m.length ∉ m) : (permStep m j)[i]'(by rw [length_permStep]; exact hi) ≠ m.length := by
  intro he
  simp only [permStep] at he
  rw [List.getElem_set_ne (by omega)] at he
  by_cases hlt : i < m.length
  · rw [List.getElem_append_left hlt] at he
    exact hn (he ▸ List.getElem_mem hlt)
  · have hil : i = m.length := by omega
    subst hil
    simp only [List.getElem_concat_length] at he
    by_cases hjl : j < m.length
    · have : m.getD j 0 = m[j] := by
        rw [List.getD_eq_getElem?_getD, List.getElem?_eq_getElem hjl]; rfl
      rw [this] at he
      exact hn (he ▸ List.getElem_mem hjl)
    · omega

/-- undo one step of the inside-out shuffle -/
def permUnstep (P : List Nat) (j : Nat) : List Nat :=
  let n := P.length - 1
  if j < n then (P.take n).set j (P.getD n 0) else P.take n

theorem permUnstep_permStep (m : List Nat) (j : Nat) (hj : j ≤ m.length) :
    permUnstep (permStep m j) j = m := by
  rcases Nat.lt_or_eq_of_le hj with hlt | rfl
  · simp only [permUnstep, length_permStep, Nat.add_sub_cancel, hlt, if_true]
    rw [permStep_lt m j hlt]
    simp [List.getD_eq_getElem?_getD, List.set_set]
  · simp only [permUnstep, length_permStep, Nat.add_sub_cancel, Nat.lt_irrefl, if_false]
    rw [permStep_self]
    simp

theorem permStep_inj {m1 m2 : List Nat} {j1 j2 : Nat} (hl : m1.length = m2.length)
    (h1 : m1.length ∉ m1) (hj1 : j1 ≤ m1.length) (hj2 : j2 ≤ m2.length)
    (he : permStep m1 j1 = permStep m2 j2) : m1 = m2 ∧ j1 = j2 := by
  have hj : j1 = j2 := by
    apply Classical.byContradiction
    intro hne
    have ha := getElem_permStep_self m2 j2 hj2
    have hb := getElem_permStep_ne m1 j1 j2 (by omega) hj1 (fun h => hne h.symm) h1
    apply hb
    have : (permStep m1 j1)[j2]'(by rw [length_permStep]; omega) = (permStep m2 j2)[j2]'(by rw [length_permStep]; omega) := by
      simp [he]
    rw [this, ha, hl]
  subst hj
  refine ⟨?_, rfl⟩
  rw [← permUnstep_permStep m1 j1 hj1, he, permUnstep_permStep m2 j1 hj2]

theorem goPerm_injective (n : Nat) (d1 d2 : List Nat) (h1 : inBounds (permScript n) d1 = true)
    (h2 : inBounds (permScript n) d2 = true) (he : goPerm d1 = goPerm d2) : d1 = d2 := by
  induction n generalizing d1 d2 with
  | zero =>
    have a := length_of_inBounds h1
    have b := length_of_inBounds h2
    simp [permScript] at a b
    simp [a, b]
  | succ n ih =>
    rw [permScript_succ] at h1 h2
    obtain ⟨a, j1, rfl, ha, hj1⟩ := inBounds_snoc_elim h1
    obtain ⟨b, j2, rfl, hb, hj2⟩ := inBounds_snoc_elim h2
    have pa := goPerm_perm n a ha
    have pb := goPerm_perm n b hb
    have la : (goPerm a).length = n := by simpa using pa.length_eq
    have lb : (goPerm b).length = n := by simpa using pb.length_eq
    have na : (goPerm a).length ∉ goPerm a := by
      rw [la]; intro hm; have := pa.mem_iff.1 hm; simp at this
    rw [goPerm_snoc, goPerm_snoc] at he
    obtain ⟨hm, hj⟩ := permStep_inj (by omega) na (by omega) (by omega) he
    rw [ih a b ha hb hm, hj]

theorem goPerm_surjective (n : Nat) (p : List Nat) (hp : p.Perm (List.range n)) :
    ∃ d, inBounds (permScript n) d = true ∧ goPerm d = p := by
  induction n generalizing p with
  | zero =>
    have : p = [] := by simpa using hp.length_eq
    exact ⟨[], by simp [permScript, inBounds], by simp [this, goPerm]⟩
  | succ n ih =>
    have hn : n ∈ p := hp.mem_iff.2 (by simp)
    obtain ⟨A, B, rfl⟩ := List.append_of_mem hn
    have hlen : A.length + B.length = n := by
      have := hp.length_eq; simp at this; omega
    -- the list with `n` removed is a permutation of `0 … n-1`
    have hAB : (A ++ B).Perm (List.range n) := by
      have h1 : (n :: (A ++ B)).Perm (n :: List.range n) := by
        refine (List.perm_middle.symm).trans (hp.trans ?_)
        rw [List.range_succ]; exact List.perm_append_singleton _ _
      exact List.Perm.cons_inv h1
    rcases List.eq_nil_or_concat B with rfl | ⟨B', x, rfl⟩
    · simp at hAB hlen
      obtain ⟨d', hd', hg⟩ := ih A hAB
      refine ⟨d' ++ [n], ?_, ?_⟩
      · rw [permScript_succ, inBounds_snoc]; simp [hd']
      · rw [goPerm_snoc, hg]
        have := permStep_self A
        rw [hlen] at this
        exact this
    · have hB : B'.concat x = B' ++ [x] := by simp
      rw [hB] at hAB hlen ⊢
      have hm : (A ++ x :: B').Perm (List.range n) := by
        refine List.Perm.trans ?_ hAB
        apply List.Perm.append_left
        exact (List.perm_append_singleton _ _).symm
      obtain ⟨d', hd', hg⟩ := ih (A ++ x :: B') hm
      have hlen' : (A ++ x :: B').length = n := by simp at hlen ⊢; omega
      refine ⟨d' ++ [A.length], ?_, ?_⟩
      · rw [permScript_succ, inBounds_snoc]; simp [hd']; simp at hlen; omega
      · rw [goPerm_snoc, hg, permStep_lt _ _ (by simp)]
        simp at hlen
        simp [hlen]

/-! ## RotateNeighbors: the same permutation as `rand.Perm`, applied to the positions -/

theorem rotScript_eq (n : Nat) : rotScript n = permScript n := rfl

theorem swapAt_map (f : α → β) (l : List α) (i j : Nat) :
    swapAt (l.map f) i j = (swapAt l i j).map f := by
  unfold swapAt
  simp only [List.getElem?_map]
  cases hi : l[i]? <;> cases hj : l[j]? <;> simp [List.map_set]

theorem rotLoop_map (f : α → β) (ds : List Nat) (i : Nat) (l : List α) :
    rotLoop ds i (l.map f) = (rotLoop ds i l).map f := by
  induction ds generalizing i l with
  | nil => rfl
  | cons j ds ih => simp [rotLoop, swapAt_map, ih]

theorem rotLoop_snoc (ds : List Nat) (j i : Nat) (a : List α) :
    rotLoop (ds ++ [j]) i a = swapAt (rotLoop ds i a) (i + ds.length) j := by
  induction ds generalizing i a with
  | nil => simp [rotLoop]
  | cons k ds ih =>
    simp only [List.cons_append, rotLoop, ih, List.length_cons]
    congr 1
    omega

theorem swapAt_step (m rest : List Nat) (j : Nat) (hj : j ≤ m.length) :
    swapAt (m ++ m.length :: rest) m.length j = permStep m j ++ rest := by
  unfold swapAt
  rcases Nat.lt_or_eq_of_le hj with hlt | rfl
  · rw [permStep_lt m j hlt]
    have h1 : (m ++ m.length :: rest)[m.length]? = some m.length := by simp
    have h2 : (m ++ m.length :: rest)[j]? = some m[j] := by
      rw [List.getElem?_append_left hlt]; simp [hlt]
    rw [h1, h2]
    simp only []
    rw [List.set_append_right _ _ (Nat.le_refl _)]
    simp only [Nat.sub_self, List.set_cons_zero]
    rw [List.set_append_left _ _ hlt]
    simp
  · have h1 : (m ++ m.length :: rest)[m.length]? = some m.length := by simp
    rw [h1, permStep_self]
    simp only []
    rw [List.set_append_right _ _ (Nat.le_refl _)]
    simp only [Nat.sub_self, List.set_cons_zero]
    rw [List.set_append_right _ _ (Nat.le_refl _)]
    simp

/-- on the positions `0 … n-1`, `RotateNeighbors` computes exactly the permutation `rand.Perm`
    computes from the same draws (and leaves the positions not yet visited alone) -/
theorem rotLoop_range (n : Nat) (i : Nat) (d : List Nat) (hl : d.length = i) (hi : i ≤ n)
    (hb : inBounds (permScript i) d = true) :
    rotLoop d 0 (List.range n) = goPerm d ++ List.range' i (n - i) := by
  induction i generalizing d with
  | zero =>
    have : d = [] := List.eq_nil_of_length_eq_zero hl
    subst this
    simp [rotLoop, goPerm, List.range_eq_range']
  | succ i ih =>
    rw [permScript_succ] at hb
    obtain ⟨d', j, rfl, hb', hj⟩ := inBounds_snoc_elim hb
    have hl' : d'.length = i := by simpa using hl
    rw [rotLoop_snoc, ih d' hl' (by omega) hb', goPerm_snoc, Nat.zero_add, hl']
    have hp := goPerm_perm i d' hb'
    have hgl : (goPerm d').length = i := by simpa using hp.length_eq
    have hr : List.range' i (n - i) = i :: List.range' (i + 1) (n - (i + 1)) := by
      have : n - i = (n - (i + 1)) + 1 := by omega
      rw [this, List.range'_succ]
    rw [hr]
    have := swapAt_step (goPerm d') (List.range' (i + 1) (n - (i + 1))) j (by omega)
    rw [hgl] at this
    exact this

theorem rotate_range (n : Nat) (d : List Nat) (hb : inBounds (rotScript n) d = true) :
    rotate (List.range n) d = goPerm d := by
  have hl : d.length = n := by simpa [rotScript] using length_of_inBounds hb
  have := rotLoop_range n n d hl (Nat.le_refl _) hb
  simp only [rotate, List.length_range]
  rw [List.take_of_length_le (by omega), this]
  simp

theorem map_getD_range (a : List α) (dflt : α) : (List.range a.length).map (fun q => a.getD q dflt) = a := by
  apply List.ext_getElem
  · simp
  · intro i h1 h2
    simp at h1
    simp [List.getD_eq_getElem?_getD, h1]

/-- `RotateNeighbors` on any list = the position permutation applied to the list -/
theorem rotate_eq_map (a : List α) (dflt : α) (d : List Nat) (hb : inBounds (rotScript a.length) d = true) :
    rotate a d = (goPerm d).map fun q => a.getD q dflt := by
  have h := rotate_range a.length d hb
  have hl : d.length = a.length := by simpa [rotScript] using length_of_inBounds hb
  conv => lhs; rw [← map_getD_range a dflt]
  simp only [rotate, List.length_map, List.length_range] at h ⊢
  rw [rotLoop_map, h]

/-! ## permuting a duplicate-free list of names -/

theorem map_getD_injective (names : List α) (dflt : α) (hn : names.Nodup) (p1 p2 : List Nat)
    (h1 : ∀ q ∈ p1, q < names.length) (h2 : ∀ q ∈ p2, q < names.length)
    (he : p1.map (fun q => names.getD q dflt) = p2.map (fun q => names.getD q dflt)) : p1 = p2 := by
  induction p1 generalizing p2 with
  | nil => cases p2 <;> simp_all
  | cons a p1 ih =>
    cases p2 with
    | nil => simp at he
    | cons b p2 =>
      simp only [List.map_cons, List.cons.injEq] at he
      have ha : a < names.length := h1 a (by simp)
      have hb : b < names.length := h2 b (by simp)
      have e : names[a] = names[b] := by
        have := he.1
        simpa [List.getD_eq_getElem?_getD, ha, hb] using this
      have hab : a = b := (List.getElem_inj hn).1 e
      rw [hab, ih p2 (fun q hq => h1 q (by simp [hq])) (fun q hq => h2 q (by simp [hq])) he.2]

/-! ## RandomUniformBinaryTree: different draw lists give different topologies -/

/-- what `GraftTipOnEdge` does to the cluster of a branch -/
def extCl (b : List Nat) (i : Nat) (s : List Nat) : List Nat := if subset b s then s ++ [i] else s

theorem graft_spec (E : List (List Nat)) (i j : Nat) (hj : j < E.length) :
    graft E i j = E.map (extCl E[j] i) ++ [[i], E[j]] := by
  simp [graft, List.getElem?_eq_getElem hj, extCl]

theorem length_graft (E : List (List Nat)) (i j : Nat) (hj : j < E.length) :
    (graft E i j).length = E.length + 2 := by
  simp [graft_spec E i j hj]

theorem utreeLoop_snoc (ds : List Nat) (j i : Nat) (e : List (List Nat)) :
    utreeLoop (ds ++ [j]) i e = graft (utreeLoop ds i e) (i + ds.length) j := by
  induction ds generalizing i e with
  | nil => simp [utreeLoop]
  | cons k ds ih =>
    simp only [List.cons_append, utreeLoop, ih, List.length_cons]
    congr 1
    omega

theorem subset_refl (b : List Nat) : subset b b = true := by
  simp [subset]

/-- clusters are pairwise different, non-empty, and mention only tips added so far -/
structure CInv (i : Nat) (E : List (List Nat)) : Prop where
  nodup : E.Nodup
  ne : ∀ s ∈ E, s ≠ []
  lt : ∀ s ∈ E, ∀ x ∈ s, x < i

theorem filter_ne_self (s : List Nat) (i : Nat) (h : i ∉ s) : s.filter (· != i) = s := by
  rw [List.filter_eq_self]
  intro a ha
  simp only [bne_iff_ne, ne_eq]
  intro e; exact h (e ▸ ha)

theorem strip_extCl (b s : List Nat) (i : Nat) (h : i ∉ s) : (extCl b i s).filter (· != i) = s := by
  unfold extCl
  split
  · simp [List.filter_append, filter_ne_self s i h]
  · exact filter_ne_self s i h

theorem strip_graft {i : Nat} {E : List (List Nat)} (h : CInv i E) (j : Nat) (hj : j < E.length) :
    (graft E i j).map (fun s => s.filter (· != i)) = E ++ [[], E[j]] := by
  have hni : ∀ s ∈ E, i ∉ s := fun s hs hi => Nat.lt_irrefl _ (h.lt s hs i hi)
  rw [graft_spec E i j hj, List.map_append, List.map_map]
  congr 1
  · conv => rhs; rw [← List.map_id E]
    apply List.map_congr_left
    intro s hs
    simp only [Function.comp, id]
    exact strip_extCl _ s i (hni s hs)
  · simp only [List.map_cons, List.map_nil]
    have : i ∉ E[j] := hni _ (List.getElem_mem hj)
    simp [filter_ne_self _ i this]

theorem extCl_inj {b s1 s2 : List Nat} {i : Nat} (h1 : i ∉ s1) (h2 : i ∉ s2)
    (he : extCl b i s1 = extCl b i s2) : s1 = s2 := by
  have := congrArg (fun s => s.filter (· != i)) he
  simpa [strip_extCl _ _ _ h1, strip_extCl _ _ _ h2] using this

theorem CInv.graft {i : Nat} {E : List (List Nat)} (h : CInv i E) (j : Nat) (hj : j < E.length) :
    CInv (i + 1) (graft E i j) := by
  have hni : ∀ s ∈ E, i ∉ s := fun s hs hi => Nat.lt_irrefl _ (h.lt s hs i hi)
  have hb : E[j] ∈ E := List.getElem_mem hj
  rw [graft_spec E i j hj]
  refine ⟨?_, ?_, ?_⟩
  · rw [List.nodup_append]
    refine ⟨?_, ?_, ?_⟩
    · -- the extension is injective on clusters that do not mention `i`
      have hinj : ∀ (l : List (List Nat)), l.Nodup → (∀ s ∈ l, i ∉ s) → (l.map (extCl E[j] i)).Nodup := by
        intro l
        induction l with
        | nil => intro _ _; simp
        | cons a l ih =>
          intro hn hm
          rw [List.map_cons, List.nodup_cons]
          rw [List.nodup_cons] at hn
          refine ⟨?_, ih hn.2 (fun s hs => hm s (List.mem_cons_of_mem _ hs))⟩
          intro hmem
          obtain ⟨s, hs, hes⟩ := List.mem_map.1 hmem
          have := extCl_inj (hm s (List.mem_cons_of_mem _ hs)) (hm a List.mem_cons_self) hes
          exact hn.1 (this ▸ hs)
      exact hinj E h.nodup hni
    · rw [List.nodup_cons]
      refine ⟨?_, by simp⟩
      simp only [List.mem_singleton]
      intro e
      exact hni _ hb (e ▸ List.mem_singleton.2 rfl)
    · intro x hx y hy
      obtain ⟨s, hs, rfl⟩ := List.mem_map.1 hx
      simp only [List.mem_cons, List.mem_nil_iff, or_false] at hy
      rcases hy with rfl | rfl
      · -- `[i]` is new: an extended cluster is longer, an untouched one does not mention `i`
        intro e
        unfold extCl at e
        split at e
        · have hne := h.ne s hs
          cases s with
          | nil => exact hne rfl
          | cons a s => simp at e
        · exact hni s hs (e ▸ List.mem_singleton.2 rfl)
      · -- the old cluster of the branch itself was extended
        intro e
        unfold extCl at e
        split at e
        · rename_i hsub
          exact hni _ hb (e ▸ (by simp))
        · rename_i hsub
          rw [e] at hsub
          exact hsub (subset_refl _)
  · intro s hs
    simp only [List.mem_append, List.mem_map, List.mem_cons, List.mem_nil_iff, or_false] at hs
    rcases hs with ⟨s', hs', rfl⟩ | rfl | rfl
    · unfold extCl; split
      · simp
      · exact h.ne s' hs'
    · simp
    · exact h.ne _ hb
  · intro s hs x hx
    simp only [List.mem_append, List.mem_map, List.mem_cons, List.mem_nil_iff, or_false] at hs
    rcases hs with ⟨s', hs', rfl⟩ | rfl | rfl
    · unfold extCl at hx; split at hx
      · rcases List.mem_append.1 hx with hx | hx
        · exact Nat.lt_succ_of_lt (h.lt s' hs' x hx)
        · simp at hx; omega
      · exact Nat.lt_succ_of_lt (h.lt s' hs' x hx)
    · simp at hx; omega
    · exact Nat.lt_succ_of_lt (h.lt _ hb x hx)

theorem utreeInit_inv (rooted : Bool) : CInv 2 (utreeInit rooted) := by
  cases rooted <;> refine ⟨by decide, by decide, by decide⟩

/-- bounds of the `Intn` calls, as the loop sees them: tip `i + t` is grafted on one of `len + 2t` branches -/
def loopBounds (len : Nat) : Nat → List Nat
  | 0 => []
  | m + 1 => loopBounds len m ++ [len + 2 * m]

theorem loopBounds_eq (rooted : Bool) (n : Nat) :
    utreeBounds rooted n = loopBounds (utreeInit rooted).length (n - 2) := by
  unfold utreeBounds
  generalize n - 2 = m
  induction m with
  | zero => simp [loopBounds]
  | succ m ih =>
    rw [List.range'_concat, List.map_append, ih, loopBounds]
    cases rooted <;> simp [utreeInit] <;> omega

theorem utreeLoop_inv (e : List (List Nat)) (i : Nat) (he : CInv i e) (m : Nat) (d : List Nat)
    (hb : inBounds (loopBounds e.length m) d = true) :
    CInv (i + m) (utreeLoop d i e) ∧ (utreeLoop d i e).length = e.length + 2 * m ∧ d.length = m := by
  induction m generalizing d with
  | zero =>
    have : d = [] := by simpa [loopBounds] using length_of_inBounds hb
    subst this
    simpa [utreeLoop] using he
  | succ m ih =>
    rw [loopBounds] at hb
    obtain ⟨d', j, rfl, hb', hj⟩ := inBounds_snoc_elim hb
    obtain ⟨h1, h2, h3⟩ := ih d' hb'
    rw [utreeLoop_snoc, h3]
    refine ⟨h1.graft j (by omega), ?_, by simp [h3]⟩
    rw [length_graft _ _ _ (by omega), h2]
    omega

theorem count_two_of_perm {E1 E2 : List (List Nat)} {b1 b2 : List Nat} (h1 : E1.Nodup) (h2 : E2.Nodup)
    (hb1 : b1 ∈ E1) (hne : b1 ≠ []) (hp : (E1 ++ [[], b1]).Perm (E2 ++ [[], b2])) : b1 = b2 := by
  apply Classical.byContradiction
  intro hne2
  have c1 : (E1 ++ [[], b1]).count b1 = 2 := by
    rw [List.count_append, h1.count, if_pos hb1]
    simp [hne.symm]
  have c2 : (E2 ++ [[], b2]).count b1 ≤ 1 := by
    rw [List.count_append, h2.count]
    have : b2 ≠ b1 := fun e => hne2 e.symm
    simp [hne.symm, this]
    split <;> omega
  rw [hp.count_eq] at c1
  omega

theorem utreeLoop_injective (e : List (List Nat)) (i : Nat) (he : CInv i e) (m : Nat) (d1 d2 : List Nat)
    (h1 : inBounds (loopBounds e.length m) d1 = true) (h2 : inBounds (loopBounds e.length m) d2 = true)
    (hp : (utreeLoop d1 i e).Perm (utreeLoop d2 i e)) : d1 = d2 := by
  induction m generalizing d1 d2 with
  | zero =>
    have a : d1 = [] := by simpa [loopBounds] using length_of_inBounds h1
    have b : d2 = [] := by simpa [loopBounds] using length_of_inBounds h2
    rw [a, b]
  | succ m ih =>
    rw [loopBounds] at h1 h2
    obtain ⟨a, j1, rfl, ha, hj1⟩ := inBounds_snoc_elim h1
    obtain ⟨b, j2, rfl, hb, hj2⟩ := inBounds_snoc_elim h2
    obtain ⟨ia, la, lena⟩ := utreeLoop_inv e i he m a ha
    obtain ⟨ib, lb, lenb⟩ := utreeLoop_inv e i he m b hb
    rw [utreeLoop_snoc, utreeLoop_snoc, lena, lenb] at hp
    have hj1' : j1 < (utreeLoop a i e).length := by omega
    have hj2' : j2 < (utreeLoop b i e).length := by omega
    -- forget the new tip
    have hs := hp.map (fun s => s.filter (· != i + m))
    rw [strip_graft ia j1 hj1', strip_graft ib j2 hj2'] at hs
    have hbb := count_two_of_perm ia.nodup ib.nodup (List.getElem_mem hj1') (ia.ne _ (List.getElem_mem hj1')) hs
    rw [hbb] at hs
    have hE : (utreeLoop a i e).Perm (utreeLoop b i e) := (List.perm_append_right_iff _).1 hs
    have hab := ih a b ha hb hE
    subst hab
    have : j1 = j2 := (List.getElem_inj ia.nodup).1 hbb
    rw [this]

theorem dfact_space (len m : Nat) :
    (space (loopBounds len m)).length = (List.range m).foldl (fun acc t => acc * (len + 2 * t)) 1 := by
  induction m with
  | zero => simp [loopBounds, space_nil]
  | succ m ih =>
    rw [loopBounds, space_snoc, List.length_flatMap]
    simp only [List.length_map, List.length_range]
    rw [sum_map_const, ih, List.range_succ, List.foldl_append]
    rfl

theorem prod_unrooted (m : Nat) : (List.range m).foldl (fun acc t => acc * (1 + 2 * t)) 1 = dfact m := by
  induction m with
  | zero => rfl
  | succ m ih =>
    rw [List.range_succ, List.foldl_append, ih]
    simp [dfact, Nat.mul_comm]
    congr 1; omega

/-! ## naturality: the reservoir only moves items around -/

theorem resStep_map (f : α → β) (k : Nat) (res : List α) (x : α) (j : Nat) :
    resStep k (res.map f) (f x) j = (resStep k res x j).map f := by
  unfold resStep
  split <;> simp [List.map_set]

theorem resLoop_map (f : α → β) (k : Nat) (xs : List α) (i : Nat) (res : List α) (ds : List Nat) :
    resLoop k (xs.map f) i (res.map f) ds = (resLoop k xs i res ds).map f := by
  induction xs generalizing i res ds with
  | nil => simp [resLoop]
  | cons x xs ih =>
    simp only [List.map_cons, resLoop]
    split
    · have := ih (i + 1) (res ++ [x]) ds
      simpa using this
    · cases ds with
      | nil => rfl
      | cons j ds' =>
        simp only []
        rw [resStep_map, ih]

/-- selecting among `items.map f` = selecting among `items`, then applying `f` -/
theorem reservoir_map (f : α → β) (k : Nat) (items : List α) (ds : List Nat) :
    reservoir k (items.map f) ds = (reservoir k items ds).map f := by
  have := resLoop_map f k items 0 [] ds
  simpa [reservoir] using this

/-! ## product structure of draw spaces -/

theorem spaceR_append (rs qs : List Nat) :
    spaceR (rs ++ qs) = (spaceR qs).flatMap fun d1 => (spaceR rs).map fun d2 => d1 ++ d2 := by
  induction rs with
  | nil => simp [spaceR]
  | cons r rs ih =>
    simp only [List.cons_append, spaceR, ih, List.flatMap_assoc, List.flatMap_map, List.map_flatMap, List.map_map]
    simp [Function.comp_def, List.append_assoc]

theorem space_append (bs cs : List Nat) :
    space (bs ++ cs) = (space bs).flatMap fun d1 => (space cs).map fun d2 => d1 ++ d2 := by
  simp [space, List.reverse_append, spaceR_append]

theorem countP_space_append (p : List Nat → Bool) (bs cs : List Nat) :
    (space (bs ++ cs)).countP p =
      ((space bs).map fun d1 => (space cs).countP fun d2 => p (d1 ++ d2)).sum := by
  rw [space_append, List.countP_flatMap]
  congr 1
  apply List.map_congr_left
  intro ds _
  simp [List.countP_map, Function.comp_def]

theorem space_singleton (b : Nat) : space [b] = (List.range b).map fun j => [j] := by
  simp [space, spaceR]

theorem space_cons (b : Nat) (bs : List Nat) :
    space (b :: bs) = (List.range b).flatMap fun j => (space bs).map fun d => j :: d := by
  have := space_append [b] bs
  simp only [List.singleton_append] at this
  rw [this, space_singleton, List.flatMap_map]
  simp

theorem sum_flatMap (l : List α) (f : α → List Nat) :
    (l.flatMap f).sum = (l.map fun a => (f a).sum).sum := by
  induction l with
  | nil => rfl
  | cons a l ih => simp [List.flatMap_cons, List.sum_append, ih]

theorem sum_map_mul_right (l : List α) (c : Nat) (f : α → Nat) :
    (l.map fun a => f a * c).sum = (l.map f).sum * c := by
  induction l with
  | nil => simp
  | cons a l ih => simp [ih, Nat.add_mul]

/-! ## reservoir with replacement -/

/-- one pass of the inner loop over all slots -/
def rowStep (x : α) (out : List (Option α)) (row : List Nat) : List (Option α) :=
  List.zipWith (fun s r => if r == 0 then some x else s) out row

theorem replRow_append (x : α) (out : List (Option α)) (row d : List Nat) (h : row.length = out.length) :
    replRow x out (row ++ d) = (rowStep x out row, d) := by
  induction out generalizing row with
  | nil =>
    have : row = [] := List.eq_nil_of_length_eq_zero h
    subst this
    simp [replRow, rowStep]
  | cons s ss ih =>
    cases row with
    | nil => simp at h
    | cons r row' =>
      simp only [List.cons_append, replRow, rowStep, List.zipWith_cons_cons]
      rw [ih row' (by simpa using h)]
      simp [rowStep]

theorem length_rowStep (x : α) (out : List (Option α)) (row : List Nat) (h : row.length = out.length) :
    (rowStep x out row).length = out.length := by
  simp [rowStep, h]

theorem replLoop_cons_append (x : α) (xs : List α) (out : List (Option α)) (row d : List Nat)
    (h : row.length = out.length) :
    replLoop (x :: xs) out (row ++ d) = replLoop xs (rowStep x out row) d := by
  simp [replLoop, replRow_append x out row d h]

/-- draw script from item `t0` on: item `t` makes `k` calls `Intn(t+1)` -/
def scriptFrom (k t0 m : Nat) : List Nat := (List.range' t0 m).flatMap fun t => List.replicate k (t + 1)

theorem replScript_eq (k n : Nat) : replScript k n = scriptFrom k 0 n := by
  simp [replScript, scriptFrom, List.range_eq_range']

theorem scriptFrom_succ (k t0 m : Nat) :
    scriptFrom k t0 (m + 1) = List.replicate k (t0 + 1) ++ scriptFrom k (t0 + 1) m := by
  simp [scriptFrom, List.range'_succ]

/-- number of draw lists for the items `t0 … t0+m-1` leading from the slots `R` to the slots `A` -/
def cnt (k m t0 : Nat) (R A : List (Option Nat)) : Nat :=
  (space (scriptFrom k t0 m)).countP fun d => replLoop (List.range' t0 m) R d == A

theorem cnt_zero (k t0 : Nat) (R A : List (Option Nat)) : cnt k 0 t0 R A = if R == A then 1 else 0 := by
  simp [cnt, scriptFrom, space_nil, replLoop]

theorem cnt_succ (k m t0 : Nat) (R A : List (Option Nat)) (hR : R.length = k) :
    cnt k (m + 1) t0 R A =
      ((space (List.replicate k (t0 + 1))).map fun row => cnt k m (t0 + 1) (rowStep t0 R row) A).sum := by
  unfold cnt
  rw [scriptFrom_succ, countP_space_append]
  apply sum_map_congr
  intro row hrow
  have hl : row.length = R.length := by rw [length_of_mem_space hrow, hR]; simp
  congr 1
  funext d
  rw [List.range'_succ, replLoop_cons_append _ _ _ _ _ hl]

/-- product over the slots of the single-slot counts -/
def slotProd (m t0 : Nat) : List (Option Nat) → List (Option Nat) → Nat
  | r :: R, a :: A => cnt 1 m t0 [r] [a] * slotProd m t0 R A
  | [], [] => 1
  | _, _ => 0

theorem cnt1_succ (m t0 : Nat) (r a : Option Nat) :
    cnt 1 (m + 1) t0 [r] [a] =
      ((List.range (t0 + 1)).map fun j => cnt 1 m (t0 + 1) [if j == 0 then some t0 else r] [a]).sum := by
  rw [cnt_succ 1 m t0 [r] [a] rfl]
  simp [space_singleton, List.map_map, Function.comp_def, rowStep]

theorem slotProd_step (m t0 : Nat) (R A : List (Option Nat)) :
    ((space (List.replicate R.length (t0 + 1))).map fun row => slotProd m (t0 + 1) (rowStep t0 R row) A).sum =
      slotProd (m + 1) t0 R A := by
  induction R generalizing A with
  | nil =>
    cases A <;> simp [space_nil, rowStep, slotProd]
  | cons r R ih =>
    cases A with
    | nil =>
      simp only [List.length_cons, List.replicate_succ, space_cons, slotProd]
      simp only [List.map_flatMap, List.map_map, Function.comp_def, rowStep, List.zipWith_cons_cons, slotProd]
      rw [sum_flatMap]
      simp [sum_map_zero]
    | cons a A =>
      simp only [List.length_cons, List.replicate_succ, space_cons, slotProd]
      simp only [List.map_flatMap, List.map_map, Function.comp_def, rowStep, List.zipWith_cons_cons, slotProd]
      rw [sum_flatMap]
      have : ∀ j ∈ List.range (t0 + 1),
          ((space (List.replicate R.length (t0 + 1))).map fun row =>
            cnt 1 m (t0 + 1) [if (j == 0) = true then some t0 else r] [a] *
              slotProd m (t0 + 1) (List.zipWith (fun s r => if (r == 0) = true then some t0 else s) R row) A).sum =
          cnt 1 m (t0 + 1) [if (j == 0) = true then some t0 else r] [a] * slotProd (m + 1) t0 R A := by
        intro j _
        rw [sum_map_mul_left]
        congr 1
        exact ih A
      rw [sum_map_congr this, sum_map_mul_right, ← cnt1_succ]

theorem slotProd_zero (t0 : Nat) (R A : List (Option Nat)) :
    slotProd 0 t0 R A = if R == A then 1 else 0 := by
  induction R generalizing A with
  | nil => cases A <;> simp [slotProd]
  | cons r R ih =>
    cases A with
    | nil => simp [slotProd]
    | cons a A =>
      simp only [slotProd, cnt_zero, ih]
      by_cases h1 : r = a <;> by_cases h2 : R = A <;> simp [h1, h2]

/-- the slots are independent: the count for `k` slots is the product of the single-slot counts -/
theorem cnt_eq_slotProd (k m t0 : Nat) (R A : List (Option Nat)) (hR : R.length = k) :
    cnt k m t0 R A = slotProd m t0 R A := by
  induction m generalizing t0 R with
  | zero => rw [cnt_zero, slotProd_zero]
  | succ m ih =>
    rw [cnt_succ k m t0 R A hR]
    have : ∀ row ∈ space (List.replicate k (t0 + 1)),
        cnt k m (t0 + 1) (rowStep t0 R row) A = slotProd m (t0 + 1) (rowStep t0 R row) A := by
      intro row hrow
      have hl : row.length = R.length := by rw [length_of_mem_space hrow, hR]; simp
      exact ih (t0 + 1) _ (by rw [length_rowStep _ _ _ hl, hR])
    rw [sum_map_congr this, ← hR, slotProd_step]

/-! ### one slot -/

def slot1 (xs : List Nat) (r0 : Option Nat) (d : List Nat) : Option Nat :=
  (xs.zip d).foldl (fun s p => if p.2 == 0 then some p.1 else s) r0

theorem replLoop_one (xs : List Nat) (r0 : Option Nat) (d : List Nat) (h : d.length = xs.length) :
    replLoop xs [r0] d = [slot1 xs r0 d] := by
  induction xs generalizing r0 d with
  | nil => simp [replLoop, slot1]
  | cons x xs ih =>
    cases d with
    | nil => simp at h
    | cons j d =>
      simp only [replLoop, replRow]
      rw [ih _ d (by simpa using h)]
      simp [slot1]

theorem slot1_snoc (xs : List Nat) (x : Nat) (r0 : Option Nat) (d : List Nat) (j : Nat) (h : d.length = xs.length) :
    slot1 (xs ++ [x]) r0 (d ++ [j]) = if j == 0 then some x else slot1 xs r0 d := by
  simp [slot1, List.zip_append h.symm, List.foldl_append]

theorem slot1_mem (xs : List Nat) (r0 : Option Nat) (d : List Nat) :
    slot1 xs r0 d = r0 ∨ ∃ y ∈ xs, slot1 xs r0 d = some y := by
  induction xs generalizing r0 d with
  | nil => simp [slot1]
  | cons x xs ih =>
    cases d with
    | nil => simp [slot1]
    | cons j d =>
      have := ih (if j == 0 then some x else r0) d
      simp only [slot1, List.zip_cons_cons, List.foldl_cons] at this ⊢
      rcases this with h | ⟨y, hy, h⟩
      · by_cases hj : (j == 0) = true
        · right; exact ⟨x, by simp, by rw [h]; simp [hj]⟩
        · left; rw [h]; simp [hj]
      · right; exact ⟨y, by simp [hy], h⟩

theorem scriptFrom_one (n : Nat) : scriptFrom 1 0 n = permScript n := by
  simp [scriptFrom, permScript, List.range_eq_range', List.flatMap_eq_foldl]
  induction n with
  | zero => rfl
  | succ n ih => simp [List.range'_concat, ih]

theorem length_space_perm (n : Nat) : (space (permScript n)).length = fact n := by
  induction n with
  | zero => rfl
  | succ n ih =>
    rw [permScript_succ, space_snoc, List.length_flatMap]
    simp only [List.length_map, List.length_range]
    rw [sum_map_const, ih, fact, Nat.mul_comm]

theorem countP_range_pos (N : Nat) (c : Bool) :
    (List.range (N + 1)).countP (fun j => !(j == 0) && c) = N * (if c then 1 else 0) := by
  have := countP_range_ge (N + 1) 1 c
  rw [show N + 1 - 1 = N from rfl] at this
  rw [← this]
  congr 1
  funext j
  cases j <;> simp

/-- one slot: every item is the final content for exactly `(n-1)!` of the `n!` draw lists -/
theorem cnt_one (n t : Nat) (ht : t < n) : cnt 1 n 0 [none] [some t] = fact (n - 1) := by
  induction n generalizing t with
  | zero => omega
  | succ n ih =>
    unfold cnt
    rw [scriptFrom_one, permScript_succ, countP_space_snoc]
    have hinner : ∀ d ∈ space (permScript n),
        (List.range (n + 1)).countP (fun j => replLoop (List.range' 0 (n + 1)) [none] (d ++ [j]) == [some t]) =
        (List.range (n + 1)).countP (fun j => (if j == 0 then some n else slot1 (List.range' 0 n) none d) == some t) := by
      intro d hd
      have hl : d.length = (List.range' 0 n).length := by rw [length_of_mem_space hd]; simp [permScript]
      congr 1
      funext j
      rw [replLoop_one _ _ _ (by simp [hl]), List.range'_concat, slot1_snoc _ _ _ _ _ hl]
      simp
    rw [sum_map_congr hinner]
    by_cases htn : t = n
    · subst htn
      have h1 : ∀ d ∈ space (permScript t),
          (List.range (t + 1)).countP (fun j => (if j == 0 then some t else slot1 (List.range' 0 t) none d) == some t) = 1 := by
        intro d _
        have hne : slot1 (List.range' 0 t) none d ≠ some t := by
          rcases slot1_mem (List.range' 0 t) none d with h | ⟨y, hy, h⟩
          · rw [h]; simp
          · rw [h]; simp at hy; simp; omega
        rw [List.range_succ_eq_map, List.countP_cons, List.countP_map]
        simp [Function.comp_def, hne]
      rw [sum_map_congr h1, sum_map_const, length_space_perm]
      simp
    · have htn' : t < n := by omega
      have h1 : ∀ d ∈ space (permScript n),
          (List.range (n + 1)).countP (fun j => (if j == 0 then some n else slot1 (List.range' 0 n) none d) == some t) =
          n * (if (slot1 (List.range' 0 n) none d == some t) then 1 else 0) := by
        intro d _
        rw [← countP_range_pos]
        congr 1
        funext j
        by_cases hj : j = 0
        · subst hj; simp; omega
        · simp [hj]
      rw [sum_map_congr h1, sum_map_mul_left, ← countP_eq_sum]
      have := ih t htn'
      unfold cnt at this
      rw [scriptFrom_one] at this
      have hc : (space (permScript n)).countP (fun d => slot1 (List.range' 0 n) none d == some t) =
          (space (permScript n)).countP (fun d => replLoop (List.range' 0 n) [none] d == [some t]) := by
        apply List.countP_congr
        intro d hd
        have hl : d.length = (List.range' 0 n).length := by rw [length_of_mem_space hd]; simp [permScript]
        rw [replLoop_one _ _ _ hl]
        simp
      rw [hc, this]
      cases n with
      | zero => omega
      | succ n => simp [fact]

theorem slotProd_none (n : Nat) (a : List Nat) (hlt : ∀ t ∈ a, t < n) :
    slotProd n 0 (List.replicate a.length none) (a.map some) = (fact (n - 1)) ^ a.length := by
  induction a with
  | nil => simp [slotProd]
  | cons t a ih =>
    simp only [List.length_cons, List.replicate_succ, List.map_cons, slotProd]
    rw [cnt_one n t (hlt t (by simp)), ih (fun x hx => hlt x (by simp [hx])), Nat.pow_succ, Nat.mul_comm]

/-! ## rooted uniform tree: fewer histories than topologies (F29) -/

theorem prod_rooted_lt (m : Nat) (hm : 1 ≤ m) :
    (List.range m).foldl (fun acc t => acc * (2 + 2 * t)) 1 < dfact (m + 1) := by
  induction m with
  | zero => omega
  | succ m ih =>
    rw [List.range_succ, List.foldl_append]
    simp only [List.foldl_cons, List.foldl_nil]
    rcases Nat.eq_zero_or_pos m with rfl | hpos
    · decide
    · have := ih hpos
      rw [dfact]
      calc (List.range m).foldl (fun acc t => acc * (2 + 2 * t)) 1 * (2 + 2 * m)
          ≤ dfact (m + 1) * (2 + 2 * m) := Nat.mul_le_mul_right _ (Nat.le_of_lt this)
        _ < dfact (m + 1) * (2 * (m + 1) + 1) := by
            apply Nat.mul_lt_mul_of_pos_left
            · omega
            · have : ∀ q, 0 < dfact q := by
                intro q; induction q with
                | zero => decide
                | succ q ih => rw [dfact]; exact Nat.mul_pos (by omega) ih
              exact this _
        _ = (2 * (m + 1) + 1) * dfact (m + 1) := Nat.mul_comm _ _

/-! ## every permutation of the names is an outcome of `ShuffleTips` -/

theorem perm_of_names (names q : List String) (hn : names.Nodup) (hq : q.Perm names) :
    ∃ p : List Nat, p.Perm (List.range names.length) ∧ p.map (fun i => names.getD i "") = q := by
  refine ⟨q.map (fun a => names.idxOf a), ?_, ?_⟩
  · have h1 := hq.map (fun a => names.idxOf a)
    refine h1.trans ?_
    have : names.map (fun a => names.idxOf a) = List.range names.length := by
      apply List.ext_getElem
      · simp
      · intro i h1 h2
        simp only [List.getElem_map, List.getElem_range]
        exact hn.idxOf_getElem i (by simpa using h1)
    rw [this]
  · rw [List.map_map]
    conv => rhs; rw [← List.map_id q]
    apply List.map_congr_left
    intro a ha
    have hm : a ∈ names := hq.mem_iff.1 ha
    have hi : names.idxOf a < names.length := List.idxOf_lt_length_of_mem hm
    simp [List.getD_eq_getElem?_getD, hi]

/-! ## a `k`-subset through any given element -/

theorem exists_subset_containing (k n x : Nat) (hk : 1 ≤ k) (hkn : k ≤ n) (hx : x < n) :
    ∃ s : List Bool, s.length = n ∧ s.count true = k ∧ s[x]? = some true := by
  let s0 := List.replicate k true ++ List.replicate (n - k) false
  have hl0 : s0.length = n := by simp [s0]; omega
  have hc0 : s0.count true = k := by simp [s0, List.count_append, List.count_replicate]
  by_cases hxk : x < k
  · refine ⟨s0, hl0, hc0, ?_⟩
    simp only [s0]
    rw [List.getElem?_append_left (by simpa using hxk), List.getElem?_replicate]
    simp [hxk]
  · have hk1 : k - 1 < s0.length := by omega
    have h1 : s0[k - 1] = true := by
      simp only [s0]
      rw [List.getElem_append_left (by simp; omega)]
      simp
    let s1 := s0.set (k - 1) false
    have hl1 : s1.length = n := by simp [s1, hl0]
    have hc1 : s1.count true = k - 1 := by
      simp only [s1]
      rw [List.count_set hk1, h1, hc0]
      simp
    have hx1 : x < s1.length := by omega
    have h2 : s1[x] = false := by
      simp only [s1]
      rw [List.getElem_set_ne (by omega)]
      simp only [s0]
      rw [List.getElem_append_right (by simp; omega)]
      simp
    refine ⟨s1.set x true, by simp [hl1], ?_, ?_⟩
    · rw [List.count_set hx1, h2, hc1]
      simp; omega
    · simp [hx1]

/-! ## the sorted form of a selection -/

theorem mem_insertBy (le : Nat → Nat → Bool) (a x : Nat) (l : List Nat) :
    x ∈ insertBy le a l ↔ x = a ∨ x ∈ l := by
  induction l with
  | nil => simp [insertBy]
  | cons b r ih =>
    simp only [insertBy]
    split
    · simp
    · simp [ih]; constructor
      · rintro (h | h | h) <;> simp [h]
      · rintro (h | h | h) <;> simp [h]

theorem insertBy_sorted (a : Nat) (l : List Nat) (hs : l.Pairwise (· < ·)) (ha : a ∉ l) :
    (insertBy (fun a b => decide (a ≤ b)) a l).Pairwise (· < ·) := by
  induction l with
  | nil => simp [insertBy]
  | cons b r ih =>
    rw [List.pairwise_cons] at hs
    simp only [insertBy]
    have hab : a ≠ b := fun e => ha (by simp [e])
    have har : a ∉ r := fun h => ha (by simp [h])
    by_cases hle : a ≤ b
    · simp only [hle, decide_true, if_true]
      rw [List.pairwise_cons]
      refine ⟨?_, List.pairwise_cons.2 hs⟩
      intro x hx
      rcases List.mem_cons.1 hx with rfl | hx
      · omega
      · have := hs.1 x hx; omega
    · simp only [hle, decide_false, Bool.false_eq_true, if_false]
      rw [List.pairwise_cons]
      refine ⟨?_, ih hs.2 har⟩
      intro x hx
      rcases (mem_insertBy _ a x r).1 hx with rfl | hx
      · omega
      · exact hs.1 x hx

theorem mem_sortNat (x : Nat) (l : List Nat) : x ∈ sortNat l ↔ x ∈ l := by
  induction l with
  | nil => simp [sortNat, isort]
  | cons a l ih =>
    simp only [sortNat, isort, List.foldr_cons] at ih ⊢
    rw [mem_insertBy, ih]; simp

theorem sortNat_sorted (l : List Nat) (hn : l.Nodup) : (sortNat l).Pairwise (· < ·) := by
  induction l with
  | nil => simp [sortNat, isort]
  | cons a l ih =>
    rw [List.nodup_cons] at hn
    simp only [sortNat, isort, List.foldr_cons]
    apply insertBy_sorted
    · exact ih hn.2
    · intro h; exact hn.1 ((mem_sortNat a l).1 h)

theorem sorted_ext (l1 l2 : List Nat) (h1 : l1.Pairwise (· < ·)) (h2 : l2.Pairwise (· < ·))
    (hm : ∀ a, a ∈ l1 ↔ a ∈ l2) : l1 = l2 := by
  induction l1 generalizing l2 with
  | nil =>
    cases l2 with
    | nil => rfl
    | cons b r => have := (hm b).2 (by simp); simp at this
  | cons a l1 ih =>
    cases l2 with
    | nil => have := (hm a).1 (by simp); simp at this
    | cons b l2 =>
      rw [List.pairwise_cons] at h1 h2
      have hab : a = b := by
        have ha := (hm a).1 (by simp)
        have hb := (hm b).2 (by simp)
        rcases List.mem_cons.1 ha with e | ha'
        · exact e
        · rcases List.mem_cons.1 hb with e | hb'
          · exact e.symm
          · have := h2.1 a ha'; have := h1.1 b hb'; omega
      subst hab
      congr 1
      apply ih l2 h1.2 h2.2
      intro x
      constructor
      · intro hx
        have := (hm x).1 (by simp [hx])
        rcases List.mem_cons.1 this with e | h
        · have := h1.1 x hx; omega
        · exact h
      · intro hx
        have := (hm x).2 (by simp [hx])
        rcases List.mem_cons.1 this with e | h
        · have := h2.1 x hx; omega
        · exact h

theorem pairwise_of_sortedLt (S : List Nat) (h : sortedLt S = true) : S.Pairwise (· < ·) := by
  induction S with
  | nil => simp
  | cons a r ih =>
    cases r with
    | nil => simp
    | cons b r =>
      simp only [sortedLt, Bool.and_eq_true, decide_eq_true_eq] at h
      have ihr := ih h.2
      rw [List.pairwise_cons] at ihr ⊢
      refine ⟨?_, List.pairwise_cons.2 ihr⟩
      intro x hx
      rcases List.mem_cons.1 hx with rfl | hx
      · exact h.1
      · have := ihr.1 x hx; omega

theorem nodup_of_pairwise_lt (S : List Nat) (h : S.Pairwise (· < ·)) : S.Nodup := by
  induction S with
  | nil => simp
  | cons a r ih =>
    rw [List.pairwise_cons] at h
    rw [List.nodup_cons]
    exact ⟨fun hm => Nat.lt_irrefl _ (h.1 a hm), ih h.2⟩

theorem indicator_eq_iff (n : Nat) (R S : List Nat) (hR : ∀ x ∈ R, x < n) (hS : ∀ x ∈ S, x < n) :
    indicator n R = indicator n S ↔ ∀ x, x ∈ R ↔ x ∈ S := by
  constructor
  · intro h x
    by_cases hx : x < n
    · have h1 : (indicator n R)[x]? = (indicator n S)[x]? := by rw [h]
      simp [indicator, hx] at h1
      exact h1
    · constructor
      · intro hm; exact absurd (hR x hm) hx
      · intro hm; exact absurd (hS x hm) hx
  · intro h
    simp only [indicator]
    apply List.map_congr_left
    intro x _
    by_cases hm : x ∈ R
    · simp [hm, (h x).1 hm]
    · have : x ∉ S := fun hs => hm ((h x).2 hs)
      simp [hm, this]

theorem count_indicator (n : Nat) (S : List Nat) (hn : S.Nodup) (hS : ∀ x ∈ S, x < n) :
    (indicator n S).count true = S.length := by
  have h1 : (indicator n S).count true = ((List.range n).filter fun x => S.contains x).length := by
    simp only [indicator, List.count_eq_countP]
    rw [List.countP_map, List.countP_eq_length_filter]
    congr 1
    apply List.filter_congr
    intro x _
    simp [Function.comp]
  rw [h1]
  apply List.Perm.length_eq
  apply (List.perm_ext_iff_of_nodup (List.nodup_range.sublist List.filter_sublist) hn).2
  intro a
  simp only [List.mem_filter, List.mem_range, List.contains_iff_mem]
  exact ⟨fun h => h.2, fun h => ⟨hS a h, h⟩⟩

/-! ## rooted uniform tree: the set of all tips is never a cluster (F29) -/

theorem graft_no_full {i : Nat} {E : List (List Nat)} (hi : 1 ≤ i) (h : CInv i E) (hf : List.range i ∉ E)
    (j : Nat) (hj : j < E.length) : List.range (i + 1) ∉ graft E i j := by
  have hni : ∀ s ∈ E, i ∉ s := fun s hs hm => Nat.lt_irrefl _ (h.lt s hs i hm)
  rw [graft_spec E i j hj]
  intro hm
  simp only [List.mem_append, List.mem_map, List.mem_cons, List.mem_nil_iff, or_false] at hm
  have hlast : i ∈ List.range (i + 1) := by simp
  rcases hm with ⟨s, hs, he⟩ | he | he
  · unfold extCl at he
    split at he
    · rw [List.range_succ] at he
      have := List.append_inj_left' he (by simp)
      exact hf (this ▸ hs)
    · exact hni s hs (he ▸ hlast)
  · have : (List.range (i + 1)).length = 1 := by rw [he]; rfl
    simp at this; omega
  · exact hni _ (List.getElem_mem hj) (he ▸ hlast)

theorem utreeLoop_no_full (e : List (List Nat)) (i : Nat) (hi : 1 ≤ i) (he : CInv i e) (hf : List.range i ∉ e)
    (m : Nat) (d : List Nat) (hb : inBounds (loopBounds e.length m) d = true) :
    List.range (i + m) ∉ utreeLoop d i e := by
  induction m generalizing d with
  | zero =>
    have : d = [] := by simpa [loopBounds] using length_of_inBounds hb
    subst this
    simpa [utreeLoop] using hf
  | succ m ih =>
    rw [loopBounds] at hb
    obtain ⟨d', j, rfl, hb', hj⟩ := inBounds_snoc_elim hb
    obtain ⟨h1, h2, h3⟩ := utreeLoop_inv e i he m d' hb'
    rw [utreeLoop_snoc, h3]
    exact graft_no_full (by omega) h1 (ih d' hb') j (by omega)

theorem graft_no_prev_full {i : Nat} {E : List (List Nat)} (hf : List.range i ∉ E)
    (j : Nat) (hj : j < E.length) : List.range i ∉ graft E i j := by
  rw [graft_spec E i j hj]
  intro hm
  simp only [List.mem_append, List.mem_map, List.mem_cons, List.mem_nil_iff, or_false] at hm
  have hnot : i ∉ List.range i := by simp
  rcases hm with ⟨s, hs, he⟩ | he | he
  · unfold extCl at he
    split at he
    · exact hnot (he ▸ (by simp))
    · exact hf (he ▸ hs)
  · exact hnot (he ▸ (by simp))
  · exact hf (he ▸ List.getElem_mem hj)

/-- rooted generator, `n ≥ 3` tips: the cluster of all tips but the last is never a branch -/
theorem utree_rooted_last_alone (m : Nat) (d : List Nat)
    (hb : inBounds (loopBounds 2 (m + 1)) d = true) :
    List.range (m + 2) ∉ utreeLoop d 2 (utreeInit true) := by
  rw [loopBounds] at hb
  obtain ⟨d', j, rfl, hb', hj⟩ := inBounds_snoc_elim hb
  have hE : (utreeInit true).length = 2 := rfl
  obtain ⟨h1, h2, h3⟩ := utreeLoop_inv (utreeInit true) 2 (utreeInit_inv true) m d' (by rw [hE]; exact hb')
  have hfull := utreeLoop_no_full (utreeInit true) 2 (by omega) (utreeInit_inv true) (by decide) m d'
    (by rw [hE]; exact hb')
  rw [utreeLoop_snoc, h3]
  rw [hE] at h2
  have := graft_no_prev_full hfull j (by omega)
  rw [show 2 + m = m + 2 by omega] at this ⊢
  exact this

/-! ## `--replace`: with at least one tree every slot is filled -/

theorem replRow_allSome (x : α) : ∀ (out : List (Option α)) (ds : List Nat),
    out.all (·.isSome) = true → (replRow x out ds).1.all (·.isSome) = true
  | [], ds, _ => by simp [replRow]
  | s :: ss, [], h => by simpa [replRow] using h
  | s :: ss, r :: ds, h => by
    simp only [List.all_cons, Bool.and_eq_true] at h
    simp only [replRow, List.all_cons, Bool.and_eq_true]
    refine ⟨?_, replRow_allSome x ss ds h.2⟩
    by_cases hr : (r == 0) = true <;> simp [hr, h.1]

theorem replLoop_allSome : ∀ (xs : List α) (out : List (Option α)) (ds : List Nat),
    out.all (·.isSome) = true → (replLoop xs out ds).all (·.isSome) = true
  | [], out, ds, h => by simpa [replLoop] using h
  | x :: xs, out, ds, h => by
    simp only [replLoop]
    exact replLoop_allSome xs _ _ (replRow_allSome x out ds h)

theorem replRow_first (x : α) : ∀ (k : Nat) (ds : List Nat), k ≤ ds.length → (∀ r ∈ ds.take k, r = 0) →
    (replRow x (List.replicate k none) ds).1 = List.replicate k (some x)
  | 0, ds, _, _ => by simp [replRow]
  | k + 1, [], h, _ => by simp at h
  | k + 1, r :: ds, h, h0 => by
    have hr : r = 0 := h0 r (by simp)
    subst hr
    simp only [List.replicate_succ, replRow]
    rw [replRow_first x k ds (by simpa using h) (fun r hr => h0 r (by simp [hr]))]
    simp

theorem inBounds_replicate_one : ∀ (k : Nat) (rest ds : List Nat),
    inBounds (List.replicate k 1 ++ rest) ds = true → k ≤ ds.length ∧ ∀ r ∈ ds.take k, r = 0
  | 0, _, _, _ => by simp
  | k + 1, rest, [], h => by simp [List.replicate_succ, inBounds] at h
  | k + 1, rest, r :: ds, h => by
    simp only [List.replicate_succ, List.cons_append, inBounds, Bool.and_eq_true, decide_eq_true_eq] at h
    obtain ⟨h1, h2⟩ := inBounds_replicate_one k rest ds h.2
    refine ⟨by simp; omega, ?_⟩
    intro r' hr'
    simp only [List.take_succ_cons, List.mem_cons] at hr'
    rcases hr' with rfl | hr'
    · omega
    · exact h2 r' hr'

theorem sampleReplace_allSome (k n : Nat) (hn : 1 ≤ n) (d : List Nat)
    (hb : inBounds (replScript k n) d = true) :
    (sampleReplace k (List.range n) d).all (·.isSome) = true := by
  obtain ⟨n', rfl⟩ : ∃ n', n = n' + 1 := ⟨n - 1, by omega⟩
  rw [replScript_eq, scriptFrom_succ] at hb
  obtain ⟨h1, h2⟩ := inBounds_replicate_one k _ d hb
  rw [sampleReplace, List.range_succ_eq_map]
  simp only [replLoop]
  apply replLoop_allSome
  rw [replRow_first 0 k d h1 h2]
  simp

/-! ## RotateInternalNodes: node by node -/

theorem mem_space_append {bs cs d : List Nat} :
    d ∈ space (bs ++ cs) ↔ ∃ d1 ∈ space bs, ∃ d2 ∈ space cs, d = d1 ++ d2 := by
  rw [space_append]
  simp only [List.mem_flatMap, List.mem_map]
  constructor
  · rintro ⟨d1, h1, d2, h2, rfl⟩; exact ⟨d1, h1, d2, h2, rfl⟩
  · rintro ⟨d1, h1, d2, h2, rfl⟩; exact ⟨d1, h1, d2, h2, rfl⟩

theorem rotAllPerms_cons (g : Nat) (degs d1 d2 : List Nat) (h : d1.length = g) :
    rotAllPerms (g :: degs) (d1 ++ d2) = rotate (List.range g) d1 :: rotAllPerms degs d2 := by
  simp [rotAllPerms, segments, h]

/-- one arrangement (a permutation of the positions) for every node -/
def PermsOf : List (List Nat) → List Nat → Prop
  | [], [] => True
  | p :: ps, g :: gs => p.Perm (List.range g) ∧ PermsOf ps gs
  | _, _ => False

theorem length_rotScript (g : Nat) : (rotScript g).length = g := by simp [rotScript]

/-- `RotateInternalNodes`: the draw lists correspond one to one to the choices of one arrangement
    of the neighbour positions for every node -/
theorem rotAllPerms_bijective' (degs : List Nat) :
    (∀ d ∈ space (rotAllPermScript degs),
        PermsOf (rotAllPerms degs d) degs) ∧
    (∀ d1 ∈ space (rotAllPermScript degs), ∀ d2 ∈ space (rotAllPermScript degs),
        rotAllPerms degs d1 = rotAllPerms degs d2 → d1 = d2) ∧
    (∀ ps : List (List Nat), PermsOf ps degs →
        ∃ d ∈ space (rotAllPermScript degs), rotAllPerms degs d = ps) := by
  induction degs with
  | nil =>
    refine ⟨?_, ?_, ?_⟩
    · intro d _; simp [rotAllPerms, segments, PermsOf]
    · intro d1 h1 d2 h2 _
      simp [rotAllPermScript, space_nil] at h1 h2
      rw [h1, h2]
    · intro ps hps
      cases ps with
      | nil => exact ⟨[], by simp [rotAllPermScript, space_nil], by simp [rotAllPerms, segments]⟩
      | cons p ps => simp [PermsOf] at hps
  | cons g degs ih =>
    obtain ⟨i1, i2, i3⟩ := ih
    have hscript : rotAllPermScript (g :: degs) = rotScript g ++ rotAllPermScript degs := by
      simp [rotAllPermScript]
    -- rotate on one node, from `perm_bijective`
    have r1 : ∀ d ∈ space (rotScript g), (rotate (List.range g) d).Perm (List.range g) := by
      intro d hd; rw [rotate_range g d ((mem_space_iff _ _).1 hd)]
      exact goPerm_perm g d ((mem_space_iff _ _).1 hd)
    have r2 : ∀ d1 ∈ space (rotScript g), ∀ d2 ∈ space (rotScript g),
        rotate (List.range g) d1 = rotate (List.range g) d2 → d1 = d2 := by
      intro d1 h1 d2 h2 he
      rw [rotate_range g d1 ((mem_space_iff _ _).1 h1), rotate_range g d2 ((mem_space_iff _ _).1 h2)] at he
      exact goPerm_injective g d1 d2 ((mem_space_iff _ _).1 h1) ((mem_space_iff _ _).1 h2) he
    have r3 : ∀ p : List Nat, p.Perm (List.range g) → ∃ d ∈ space (rotScript g), rotate (List.range g) d = p := by
      intro p hp
      obtain ⟨d, hd, he⟩ := goPerm_surjective g p hp
      exact ⟨d, (mem_space_iff _ _).2 hd, by rw [rotate_range g d hd, he]⟩
    refine ⟨?_, ?_, ?_⟩
    · intro d hd
      rw [hscript, mem_space_append] at hd
      obtain ⟨a, ha, b, hb, rfl⟩ := hd
      have hl : a.length = g := by rw [length_of_mem_space ha, length_rotScript]
      rw [rotAllPerms_cons g degs a b hl]
      exact ⟨r1 a ha, i1 b hb⟩
    · intro d1 h1 d2 h2 he
      rw [hscript, mem_space_append] at h1 h2
      obtain ⟨a1, ha1, b1, hb1, rfl⟩ := h1
      obtain ⟨a2, ha2, b2, hb2, rfl⟩ := h2
      have hl1 : a1.length = g := by rw [length_of_mem_space ha1, length_rotScript]
      have hl2 : a2.length = g := by rw [length_of_mem_space ha2, length_rotScript]
      rw [rotAllPerms_cons g degs a1 b1 hl1, rotAllPerms_cons g degs a2 b2 hl2] at he
      simp only [List.cons.injEq] at he
      rw [r2 a1 ha1 a2 ha2 he.1, i2 b1 hb1 b2 hb2 he.2]
    · intro ps hps
      cases ps with
      | nil => simp [PermsOf] at hps
      | cons p ps =>
        obtain ⟨hp, hrest⟩ := hps
        obtain ⟨a, ha, hea⟩ := r3 _ hp
        obtain ⟨b, hb, heb⟩ := i3 _ hrest
        have hl : a.length = g := by rw [length_of_mem_space ha, length_rotScript]
        refine ⟨a ++ b, ?_, ?_⟩
        · rw [hscript, mem_space_append]; exact ⟨a, ha, b, hb, rfl⟩
        · rw [rotAllPerms_cons g degs a b hl, hea, heb]


/-! ## RotateInternalNodes on the tree = the arrangements of `rotAllPerms`, node by node -/

theorem inBounds_append_elim {x y d : List Nat} (h : inBounds (x ++ y) d = true) :
    ∃ a b, d = a ++ b ∧ inBounds x a = true ∧ inBounds y b = true := by
  have := (mem_space_iff _ _).2 h
  rw [mem_space_append] at this
  obtain ⟨a, ha, b, hb, rfl⟩ := this
  exact ⟨a, b, rfl, (mem_space_iff _ _).1 ha, (mem_space_iff _ _).1 hb⟩

theorem rotAllPerms_nil (d : List Nat) : rotAllPerms [] d = [] := by simp [rotAllPerms, segments]

theorem rotAllPerms_append (g1 g2 a b : List Nat) (h : a.length = g1.sum) :
    rotAllPerms (g1 ++ g2) (a ++ b) = rotAllPerms g1 a ++ rotAllPerms g2 b := by
  induction g1 generalizing a with
  | nil =>
    have : a = [] := by simpa using h
    subst this
    simp [rotAllPerms_nil]
  | cons g g1 ih =>
    simp only [List.sum_cons] at h
    have hsplit : a = a.take g ++ a.drop g := (List.take_append_drop g a).symm
    have hl : (a.take g).length = g := by simp; omega
    rw [hsplit, List.cons_append, List.append_assoc, rotAllPerms_cons g _ _ _ hl,
      rotAllPerms_cons g g1 _ _ hl, ih (a.drop g) (by simp; omega)]
    simp

theorem length_permScript' (degs : List Nat) : (rotAllPermScript degs).length = degs.sum := by
  induction degs with
  | nil => rfl
  | cons g degs ih => simp [rotAllPermScript, length_rotScript] at ih ⊢

mutual
theorem rotAllScriptT_eq (isRoot : Bool) : ∀ (t : T), rotAllScriptT isRoot t = rotAllPermScript (degsT isRoot t)
  | .node d p kids => by
    simp only [rotAllScriptT, degsT, rotAllPermScript, List.flatMap_cons]
    have := rotAllScriptL_eq kids
    simp only [rotAllPermScript] at this
    rw [this]
theorem rotAllScriptL_eq : ∀ (ks : Kids), rotAllScriptL ks = rotAllPermScript (degsL ks)
  | [] => rfl
  | (e, t) :: r => by
    simp only [rotAllScriptL, degsL, rotAllPermScript, List.flatMap_append]
    have h1 := rotAllScriptT_eq false t
    have h2 := rotAllScriptL_eq r
    simp only [rotAllPermScript] at h1 h2
    rw [h1, h2]
end

theorem length_neighOf (isRoot : Bool) (t : T) : (neighOf isRoot t).length = degOf isRoot t := by
  unfold neighOf degOf
  cases isRoot
  · simp only [Bool.false_eq_true, if_false, List.length_append, List.length_map, List.length_take,
      List.length_drop, List.length_cons, List.length_nil]
    omega
  · simp

/-- one node: `RotateNeighbors` gives the neighbours the arrangement `rotate (range deg) draws` -/
theorem rotateNode_eq_permNode (isRoot : Bool) (t : T) (seg : List Nat)
    (h : inBounds (rotScript (degOf isRoot t)) seg = true) :
    rotateNode isRoot t seg = permNode isRoot t (rotate (List.range (degOf isRoot t)) seg) := by
  unfold rotateNode permNode
  rw [← length_neighOf] at h ⊢
  rw [rotate_eq_map (neighOf isRoot t) none seg h, rotate_range _ seg h]

mutual
theorem rotAllL_length : ∀ (ks : Kids) (ds : List Nat), (rotAllL ks ds).1.length = ks.length
  | [], _ => rfl
  | (e, t) :: r, ds => by simp [rotAllL, rotAllL_length r]
end

mutual
theorem rotAllT_link (isRoot : Bool) : ∀ (t : T) (d1 rest : List Nat) (prest : List (List Nat)),
    inBounds (rotAllScriptT isRoot t) d1 = true →
    rotAllT isRoot t (d1 ++ rest) =
      ((applyPermsT isRoot t (rotAllPerms (degsT isRoot t) d1 ++ prest)).1, rest) ∧
    (applyPermsT isRoot t (rotAllPerms (degsT isRoot t) d1 ++ prest)).2 = prest
  | .node d p kids, d1, rest, prest, hb => by
    simp only [rotAllScriptT] at hb
    obtain ⟨a, b, rfl, ha, hb'⟩ := inBounds_append_elim hb
    have hla : a.length = kids.length + (if isRoot then 0 else 1) := by
      rw [length_of_inBounds ha, length_rotScript]
    obtain ⟨ih1, ih2⟩ := rotAllL_link kids b rest prest hb'
    simp only [degsT]
    rw [rotAllPerms_cons _ _ a b hla]
    simp only [rotAllT, applyPermsT, List.cons_append, List.drop_succ_cons, List.drop_zero, List.headD_cons]
    have ht : (a ++ b ++ rest).take (kids.length + (if isRoot then 0 else 1)) = a := by
      rw [List.append_assoc, List.take_append_of_le_length (by omega), List.take_of_length_le (by omega)]
    have hd : (a ++ b ++ rest).drop (kids.length + (if isRoot then 0 else 1)) = b ++ rest := by
      rw [List.append_assoc, List.drop_append_of_le_length (by omega), List.drop_of_length_le (by omega)]
      simp
    rw [ht, hd, ih1]
    simp only [ih2, and_true]
    congr 1
    have hdeg : degOf isRoot (T.node d p (applyPermsL kids (rotAllPerms (degsL kids) b ++ prest)).1) =
        kids.length + (if isRoot then 0 else 1) := by
      have := congrArg Prod.fst ih1
      simp only at this
      unfold degOf
      rw [T.kids_node, ← this, rotAllL_length]
    have hb2 : inBounds (rotScript (degOf isRoot (T.node d p (applyPermsL kids (rotAllPerms (degsL kids) b ++ prest)).1))) a = true := by
      rw [hdeg]; exact ha
    rw [rotateNode_eq_permNode _ _ _ hb2, hdeg]
theorem rotAllL_link : ∀ (ks : Kids) (d1 rest : List Nat) (prest : List (List Nat)),
    inBounds (rotAllScriptL ks) d1 = true →
    rotAllL ks (d1 ++ rest) = ((applyPermsL ks (rotAllPerms (degsL ks) d1 ++ prest)).1, rest) ∧
    (applyPermsL ks (rotAllPerms (degsL ks) d1 ++ prest)).2 = prest
  | [], d1, rest, prest, hb => by
    have : d1 = [] := by simpa [rotAllScriptL] using length_of_inBounds hb
    subst this
    simp [rotAllL, applyPermsL, degsL, rotAllPerms_nil]
  | (e, t) :: r, d1, rest, prest, hb => by
    simp only [rotAllScriptL] at hb
    obtain ⟨a, b, rfl, ha, hb'⟩ := inBounds_append_elim hb
    have hla : a.length = (degsT false t).sum := by
      rw [length_of_inBounds ha, rotAllScriptT_eq, length_permScript']
    obtain ⟨t1, t2⟩ := rotAllT_link false t a (b ++ rest) (rotAllPerms (degsL r) b ++ prest) ha
    obtain ⟨l1, l2⟩ := rotAllL_link r b rest prest hb'
    simp only [degsL]
    rw [rotAllPerms_append _ _ a b hla]
    simp only [rotAllL, applyPermsL, List.append_assoc]
    rw [t1]
    simp only [t2, l1, l2, and_self]
end

end Gotree.C20
