/-
  C06 — model of the refresh of the branch indexes at the end of `RemoveTips`
  (`UpdateTipIndex`, then `ReinitInternalIndexes` → `ClearBitSets` + `UpdateBitSet` → `fillRightBitSet`,
  tree/tree.go) and of the look-up `TipNode`.

  * `UpdateTipIndex` gives every tip its rank in the sorted tip names (`tipid`); the index is the list of
    names in that order (`Model/C06.lean`: `updateTipIndex`), so `tipid(name) = ix.idxOf name`.
  * `ClearBitSets` gives every branch a bitset of `len(tipIndex)` bits, all clear.
  * `fillRightBitSet(e, rightEdges)`: at a tip branch, `tipIndexNode` looks the tip's name up (an error when
    it is unknown) and sets that bit in every branch of `rightEdges` (the branch itself and the branches
    above it); otherwise it recurses into the branches below.  Returned-value form: the row of a branch is
    the OR of the rows of the branches below it, the row of a tip branch has the single bit `tipid`.
  Rows are listed in `Edges()` order (a branch, then the branches below it), the order of `T.splits`.
  Core Lean only.
-/
import Gotree.Model.C06

namespace Gotree.C06
open Gotree

/-- a cleared bitset of `len(tipIndex)` bits -/
def zeroRow (ix : Index) : List Bool := List.replicate ix.length false

/-- `e.bitset.Set(uint(i))` with `i = tipid` of the tip named `n` -/
def tipRow (ix : Index) (n : String) : List Bool := (zeroRow ix).set (ix.idxOf n) true

/-- bitwise OR of two rows of the same width -/
def orRow (a b : List Bool) : List Bool := List.zipWith (· || ·) a b

/- `fillT ix t` = (row of the branch above `t`, rows of the branches below it in `Edges()` order);
   `fillK ix kids` = (OR of the rows of the branches to `kids`, all rows below).  `none`: `tipIndexNode` fails
   ("No tip named … in the index"). -/
mutual
def fillT (ix : Index) : T → Option (List Bool × List (List Bool))
  | .node d _ [] => if ix.contains d.name then some (tipRow ix d.name, []) else none
  | .node _ _ (k :: ks) => fillK ix (k :: ks)
def fillK (ix : Index) : Kids → Option (List Bool × List (List Bool))
  | [] => some (zeroRow ix, [])
  | (_, t) :: r =>
    match fillT ix t, fillK ix r with
    | some (row, below), some (acc, rest) => some (orRow row acc, row :: (below ++ rest))
    | _, _ => none
end

/-- `UpdateBitSet` against the index `ix`: one row per branch, in `Edges()` order -/
def bitsets (ix : Index) (t : T) : Option (List (List Bool)) := (fillK ix t.kids).map (·.2)

/-- the branch indexes as `RemoveTips` leaves them: the tip index is rebuilt FIRST, the bitsets against it -/
def bitsetsAfter (t' : T) : Option (List (List Bool)) :=
  match updateTipIndex t' with
  | .ok ix => bitsets ix t'
  | .error _ => none

/-- the branch indexes when the two refreshes are swapped (seeded C06-5): the bitsets are built against
    the index as it was BEFORE the call -/
def bitsetsAfterSwapped (oldIx : Index) (t' : T) : Option (List (List Bool)) := bitsets oldIx t'

/-- `TipNode(name)`: the node the index holds for `name` — its name, its number of neighbours, its
    position in `Tips()` -/
def tipNodeOf (ix : Index) (t : T) (name : String) : Option (String × Nat × Nat) :=
  if ix.contains name then some (name, 1, t.tipNames.idxOf name) else none

end Gotree.C06
