/-
  C16 — the option handling of `gotree generate <tree command>` (cmd/generate.go, cmd/*tree.go,
  cmd/root.go) as a small pure function: which request do the command-line words denote.
  Defaults: 10 tips (`-l`, `--nbtips`) or depth 3 (`-d`, `--depth`, balancedtree only), one tree
  (`-n`, `--nbtrees`), unrooted (`-r`, `--rooted`), output "stdout" (`-o`, `--output`; "-" is stdout too),
  seed from the clock (`--seed`), one thread (`-t`, `--threads`, without effect here).  An option
  given twice: the last one counts.  Core Lean only.
-/
import Gotree.Spec.C16

namespace Gotree.C16
open Gotree

structure GenReq where
  size : Int
  rooted : Bool
  nbtrees : Int
  output : String
  seed : Option Int
  threads : Int
  deriving Repr, BEq

def GenReq.default (balanced : Bool) : GenReq :=
  ⟨if balanced then 3 else 10, false, 1, "stdout", none, 1⟩

/-- `--flag=value` ↦ (`--flag`, value) -/
def splitFlag (a : String) : String × Option String :=
  if a.startsWith "--" then
    match a.splitOn "=" with
    | [f] => (f, none)
    | f :: vs => (f, some ("=".intercalate vs))
    | [] => (a, none)
  else (a, none)

inductive FlagKind | size | nbtrees | output | seed | threads | rooted | unknown
  deriving BEq

def flagKind (balanced : Bool) (f : String) : FlagKind :=
  if f == "-r" || f == "--rooted" then .rooted
  else if f == "-n" || f == "--nbtrees" then .nbtrees
  else if f == "-o" || f == "--output" then .output
  else if f == "--seed" then .seed
  else if f == "-t" || f == "--threads" then .threads
  else if balanced && (f == "-d" || f == "--depth") then .size
  else if !balanced && (f == "-l" || f == "--nbtips") then .size
  else .unknown

def setFlag (k : FlagKind) (v : String) (r : GenReq) : Option GenReq :=
  match k with
  | .size => v.toInt?.map fun x => { r with size := x }
  | .nbtrees => v.toInt?.map fun x => { r with nbtrees := x }
  | .threads => v.toInt?.map fun x => { r with threads := x }
  | .seed => v.toInt?.map fun x => { r with seed := some x }
  | .output => some { r with output := v }
  | _ => none

/-- the request denoted by the words after `gotree generate <command>`; `none` = usage error -/
def parseGenArgs (balanced : Bool) : List String → GenReq → Option GenReq
  | [], r => some r
  | [a], r =>
    let (f, v) := splitFlag a
    match flagKind balanced f, v with
    | .rooted, none => some { r with rooted := true }
    | .rooted, some b => if b == "true" then some { r with rooted := true }
                         else if b == "false" then some { r with rooted := false } else none
    | .unknown, _ => none
    | k, some x => setFlag k x r
    | _, none => none
  | a :: b :: rest, r =>
    let (f, v) := splitFlag a
    match flagKind balanced f, v with
    | .rooted, none => parseGenArgs balanced (b :: rest) { r with rooted := true }
    | .rooted, some x => if x == "true" then parseGenArgs balanced (b :: rest) { r with rooted := true }
                         else if x == "false" then parseGenArgs balanced (b :: rest) { r with rooted := false } else none
    | .unknown, _ => none
    | k, some x => (setFlag k x r).bind (parseGenArgs balanced (b :: rest))
    | k, none => (setFlag k b r).bind (parseGenArgs balanced rest)

/-- does the request write to a file -/
def GenReq.toFile (r : GenReq) : Bool := r.output != "stdout" && r.output != "-"

end Gotree.C16
