package c19

// reads.go — which flag-bound package variables does the body of each command read without the
// command (or an ancestor, through a persistent flag) registering a flag on them?  Such a command
// gets whatever default some *other* command's registration left there: "registering the options
// of one command changes the behaviour of another command" in its purest form, and invisible in
// the flag table (the reading command has no row for the variable).  Syntactic, first order: the
// Run/RunE/PreRun… function literals of the command literal; helpers are not followed.

import (
	"go/ast"
	"go/parser"
	"go/token"
	"os"
	"path/filepath"
	"sort"
	"strings"
)

type unboundRead struct {
	Path, CmdVar, GoVar, File string
	Line                      int
	BoundBy                   []string // "path --flag" of the registrations of that variable
}

func unboundReads(repo string) (out []unboundRead, problems []string) {
	sites, paths, problems := initSites(repo)
	bound := map[string][]regSite{} // Go variable -> its registrations
	for _, s := range sites {
		if s.GoVar != "" {
			bound[s.GoVar] = append(bound[s.GoVar], s)
		}
	}
	dir := filepath.Join(repo, "cmd")
	ents, _ := os.ReadDir(dir)
	fset := token.NewFileSet()
	for _, e := range ents {
		n := e.Name()
		if !strings.HasSuffix(n, ".go") || strings.HasSuffix(n, "_test.go") || !compiled(dir, n) {
			continue
		}
		f, err := parser.ParseFile(fset, filepath.Join(dir, n), nil, 0)
		if err != nil {
			problems = append(problems, err.Error())
			continue
		}
		for _, d := range f.Decls {
			gd, ok := d.(*ast.GenDecl)
			if !ok {
				continue
			}
			for _, sp := range gd.Specs {
				vs, ok := sp.(*ast.ValueSpec)
				if !ok {
					continue
				}
				for i, id := range vs.Names {
					if i >= len(vs.Values) {
						continue
					}
					u, ok := vs.Values[i].(*ast.UnaryExpr)
					if !ok {
						continue
					}
					cl, ok := u.X.(*ast.CompositeLit)
					if !ok {
						continue
					}
					path, ok := paths[id.Name]
					if !ok {
						continue
					}
					// variables this command may set: its own registrations and the persistent ones of its ancestors
					mine := map[string]bool{}
					for _, s := range sites {
						sp, ok := paths[s.CmdVar]
						if !ok {
							continue
						}
						if sp == path || s.Persistent && strings.HasPrefix(path+" ", sp+" ") {
							mine[s.GoVar] = true
						}
					}
					seen := map[string]bool{}
					for _, el := range cl.Elts {
						kv, ok := el.(*ast.KeyValueExpr)
						if !ok {
							continue
						}
						fl, ok := kv.Value.(*ast.FuncLit)
						if !ok {
							continue
						}
						// local declarations shadowing a package variable are rare in this code base; a
						// name declared inside the literal is skipped
						local := map[string]bool{}
						ast.Inspect(fl, func(n ast.Node) bool {
							switch x := n.(type) {
							case *ast.AssignStmt:
								if x.Tok == token.DEFINE {
									for _, l := range x.Lhs {
										if li, ok := l.(*ast.Ident); ok {
											local[li.Name] = true
										}
									}
								}
							case *ast.ValueSpec:
								for _, li := range x.Names {
									local[li.Name] = true
								}
							}
							return true
						})
						ast.Inspect(fl, func(n ast.Node) bool {
							if se, ok := n.(*ast.SelectorExpr); ok {
								// x.f: only x can be a package variable
								ast.Inspect(se.X, func(m ast.Node) bool { return true })
							}
							idn, ok := n.(*ast.Ident)
							if !ok || local[idn.Name] || seen[idn.Name] {
								return true
							}
							if regs, ok := bound[idn.Name]; ok && !mine[idn.Name] && idn.Obj == nil {
								seen[idn.Name] = true
								var by []string
								for _, s := range regs {
									by = append(by, paths[s.CmdVar]+" --"+s.Flag)
								}
								out = append(out, unboundRead{Path: path, CmdVar: id.Name, GoVar: idn.Name, File: n2base(fset.Position(idn.Pos()).Filename),
									Line: fset.Position(idn.Pos()).Line, BoundBy: by})
							}
							return true
						})
					}
				}
			}
		}
	}
	sort.Slice(out, func(i, j int) bool {
		if out[i].Path != out[j].Path {
			return out[i].Path < out[j].Path
		}
		return out[i].GoVar < out[j].GoVar
	})
	return
}

func n2base(p string) string { return filepath.Base(p) }
