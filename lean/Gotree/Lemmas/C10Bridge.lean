/-
  C10 lemmas, part I: bridge from C05's statements (`usplits` / `tipLens` of the
  re-rooted tree are permutations of the original's) to the hypothesis
  `splitsEquiv` of C10's presentation theorems.
-/
import Gotree.Lemmas.C10Rot
import Gotree.Lemmas.C05Splits

namespace Gotree.C10
open Gotree

theorem mem_ufoldU_side : ∀ (l acc : List USplit) (a : List String),
    a ∈ (ufoldU l acc).map (·.side) ↔ a ∈ acc.map (·.side) ∨ a ∈ l.map (·.side)
  | [], acc, a => by simp [ufoldU_nil]
  | s :: l, acc, a => by
    rw [ufoldU_cons, mem_ufoldU_side l (insertU s acc) a, mem_insertU_side]
    simp only [List.map_cons, List.mem_cons]
    constructor
    · rintro ((h | h) | h)
      · exact Or.inl h
      · exact Or.inr (Or.inl h)
      · exact Or.inr (Or.inr h)
    · rintro (h | h | h)
      · exact Or.inl (Or.inl h)
      · exact Or.inl (Or.inr h)
      · exact Or.inr h

/-- the sides of the non-trivial unrooted splits -/
theorem mem_usplits_side (t : T) (a : List String) :
    a ∈ t.usplits.map (·.side) ↔
      ∃ s ∈ t.splits, canonSide t.tipNames s.below = a ∧ 2 ≤ lightSize t.tipNames a := by
  rw [((T.usplits_perm_ufold t).map (·.side)).mem_iff, mem_ufoldU_side]
  simp only [List.map_nil, List.not_mem_nil, false_or, List.mem_map, List.mem_filter, nontrivU, toU,
    decide_eq_true_eq]
  constructor
  · rintro ⟨u, ⟨⟨s, hs, rfl⟩, h2⟩, rfl⟩
    exact ⟨s, hs, rfl, h2⟩
  · rintro ⟨s, hs, rfl, h2⟩
    exact ⟨_, ⟨⟨s, hs, rfl⟩, h2⟩, rfl⟩

/-- the sides of the trivial ones -/
theorem mem_tipLens_side (t : T) (a : List String) :
    a ∈ t.tipLens.map (·.1) ↔
      ∃ s ∈ t.splits, canonSide t.tipNames s.below = a ∧ lightSize t.tipNames a ≤ 1 := by
  rw [((T.tipLens_perm_ufold t).map (·.1)).mem_iff, List.map_map]
  have : ((fun (x : List String × Rat) => x.1) ∘ fun (s : USplit) => (s.side, s.len)) = fun s => s.side := rfl
  rw [this, mem_ufoldU_side]
  simp only [List.map_nil, List.not_mem_nil, false_or, List.mem_map, List.mem_filter, trivU, toU,
    decide_eq_true_eq, forgetSup]
  constructor
  · rintro ⟨u, ⟨v, ⟨⟨s, hs, rfl⟩, h2⟩, rfl⟩, rfl⟩
    exact ⟨s, hs, rfl, h2⟩
  · rintro ⟨s, hs, rfl, h2⟩
    exact ⟨_, ⟨_, ⟨⟨s, hs, rfl⟩, h2⟩, rfl⟩, rfl⟩

/-- the canonical side is the side (inside the taxa) or its complement -/
theorem canonSide_cases (all a : List String) :
    (∀ x, x ∈ canonSide all a ↔ (x ∈ a ∧ x ∈ all)) ∨
    (∀ x, x ∈ canonSide all a ↔ (x ∈ all ∧ ¬ (x ∈ a ∧ x ∈ all))) := by
  unfold canonSide
  simp only []
  cases minS all with
  | none => left; intro x; simp [mem_sortS]
  | some m =>
    by_cases hm : (sortS (a.filter all.contains)).contains m = true
    · right; intro x
      simp only []
      rw [if_pos hm]
      simp only [mem_sortS, complS, List.mem_filter, List.contains_eq_mem,
        Bool.not_eq_true', decide_eq_false_iff_not, decide_eq_true_eq]
    · left; intro x
      simp only []
      rw [if_neg hm]
      simp [mem_sortS]

theorem sameSplit_of_canonSide_eq {all a b : List String} (ha : ∀ x ∈ a, x ∈ all) (hb : ∀ x ∈ b, x ∈ all)
    (h : canonSide all a = canonSide all b) : sameSplit all a b = true := by
  rw [sameSplit_iff]
  have hx : ∀ x, x ∈ canonSide all a ↔ x ∈ canonSide all b := fun x => by rw [h]
  rcases canonSide_cases all a with ca | ca <;> rcases canonSide_cases all b with cb | cb
  · left; intro x
    have := (ca x).symm.trans ((hx x).trans (cb x))
    exact ⟨fun h1 => (this.1 ⟨h1, ha x h1⟩).1, fun h1 => (this.2 ⟨h1, hb x h1⟩).1⟩
  · right; intro x
    have := (ca x).symm.trans ((hx x).trans (cb x))
    constructor
    · intro h1
      obtain ⟨h2, h3⟩ := this.1 ⟨h1, ha x h1⟩
      exact ⟨h2, fun hb' => h3 ⟨hb', h2⟩⟩
    · rintro ⟨h2, h3⟩
      exact (this.2 ⟨h2, fun hh => h3 hh.1⟩).1
  · right; intro x
    have := (ca x).symm.trans ((hx x).trans (cb x))
    constructor
    · intro h1
      refine ⟨ha x h1, fun hb' => ?_⟩
      exact (this.2 ⟨hb', hb x hb'⟩).2 ⟨h1, ha x h1⟩
    · rintro ⟨h2, h3⟩
      by_cases h1 : x ∈ a
      · exact h1
      · exact absurd (this.1 ⟨h2, fun hh => h1 hh.1⟩).1 h3
  · left; intro x
    have := (ca x).symm.trans ((hx x).trans (cb x))
    constructor
    · intro h1
      by_cases h2 : x ∈ b
      · exact h2
      · exact absurd ⟨h1, ha x h1⟩ (this.2 ⟨ha x h1, fun hh => h2 hh.1⟩).2
    · intro h1
      by_cases h2 : x ∈ a
      · exact h2
      · exact absurd ⟨h1, hb x h1⟩ (this.1 ⟨hb x h1, fun hh => h2 hh.1⟩).2

/-- ★ bridge: what C05 proves of `Reroot`, `UnRoot`, … (`tipNames`, `usplits`, `tipLens` are
    permuted) gives the hypothesis of C10's presentation theorems. -/
theorem splitsEquiv_of_usplits (t u : T) (ht : treeOK t = true) (hu : treeOK u = true)
    (hall : u.tipNames.Perm t.tipNames) (h1 : u.usplits.Perm t.usplits) (h2 : u.tipLens.Perm t.tipLens) :
    sameTaxa t u = true ∧ splitsEquiv t.tipNames t u = true := by
  obtain ⟨_, _, _, ft⟩ := treeOK_facts t ht
  obtain ⟨_, _, _, fu⟩ := treeOK_facts u hu
  have hm : ∀ x, x ∈ t.tipNames ↔ x ∈ u.tipNames := fun x => hall.mem_iff.symm
  have m1 : ∀ a, a ∈ u.usplits.map (·.side) ↔ a ∈ t.usplits.map (·.side) := fun a => (h1.map _).mem_iff
  have m2 : ∀ a, a ∈ u.tipLens.map (·.1) ↔ a ∈ t.tipLens.map (·.1) := fun a => (h2.map _).mem_iff
  have hcu : ∀ side, canonSide u.tipNames side = canonSide t.tipNames side :=
    fun side => canonSide_perm_all hall side
  have hlu : ∀ side, lightSize u.tipNames side = lightSize t.tipNames side :=
    fun side => lightSize_perm_all hall side
  refine ⟨sameTaxa_iff.2 hm, ?_⟩
  apply splitsEquiv_of
  · intro s hs
    by_cases hl : 2 ≤ lightSize t.tipNames (canonSide t.tipNames s.below)
    · obtain ⟨s', hs', e, _⟩ := (mem_usplits_side u _).1 ((m1 _).2 ((mem_usplits_side t _).2 ⟨s, hs, rfl, hl⟩))
      rw [hcu] at e
      exact ⟨s', hs', sameSplit_of_canonSide_eq (ft s hs).2 (fun x hx => (hm x).2 ((fu s' hs').2 x hx)) e.symm⟩
    · obtain ⟨s', hs', e, _⟩ := (mem_tipLens_side u _).1 ((m2 _).2 ((mem_tipLens_side t _).2 ⟨s, hs, rfl, by omega⟩))
      rw [hcu] at e
      exact ⟨s', hs', sameSplit_of_canonSide_eq (ft s hs).2 (fun x hx => (hm x).2 ((fu s' hs').2 x hx)) e.symm⟩
  · intro s' hs'
    have hsub' : ∀ x ∈ s'.below, x ∈ t.tipNames := fun x hx => (hm x).2 ((fu s' hs').2 x hx)
    by_cases hl : 2 ≤ lightSize u.tipNames (canonSide u.tipNames s'.below)
    · obtain ⟨s, hs, e, _⟩ := (mem_usplits_side t _).1 ((m1 _).1 ((mem_usplits_side u _).2 ⟨s', hs', rfl, hl⟩))
      rw [hcu] at e
      exact ⟨s, hs, sameSplit_of_canonSide_eq hsub' (ft s hs).2 e.symm⟩
    · obtain ⟨s, hs, e, _⟩ := (mem_tipLens_side t _).1 ((m2 _).1 ((mem_tipLens_side u _).2 ⟨s', hs', rfl, by omega⟩))
      rw [hcu] at e
      exact ⟨s, hs, sameSplit_of_canonSide_eq hsub' (ft s hs).2 e.symm⟩

end Gotree.C10
