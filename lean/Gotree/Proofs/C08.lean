/-
  C08 — property theorems (audited with `#print axioms` by bin/check).

  `compare`, `compareWeighted`, `commonEdges`, `compareTipIndexes` are the model
  functions the driver runs against the Go code (Model/C08.lean: `EdgeIndex` keyed by
  bitsets searched with `eqOrCompl`); `S`, `U`, `counts`, `sameSplits`, `sameTaxa`,
  `unrootedOK`, `good`, `onlyLens`, `commonDiffs`, `wSame` are the Spec (Spec/C08.lean,
  built on `T.usplitsAll` / `T.usplitSet` of Spec/Splits.lean).

  Proof route: Lemmas/C08Bits.lean shows the bitset model equal, on all inputs, to the
  same model keyed by canonical sides (`Canon.*`, Lemmas/C08Canon.lean); Lemmas/C08.lean,
  C08W.lean relate that one to the Spec under the semantic hypotheses `good`; and
  Lemmas/C08Tree.lean derives `good` from the shape hypotheses `unrootedOK`.
-/
import Gotree.Lemmas.C08Bits
import Gotree.Lemmas.C08HM
import Gotree.Lemmas.C08Rooted
import Gotree.Lemmas.C08Inv
import Gotree.Lemmas.C08Zero
import Gotree.Lemmas.C08Cli

namespace Gotree.C08
open Gotree List

/-- The shape hypotheses of the property (unique tip names, root of degree ≥ 3, no
    single-child node) give the semantic ones: distinct branches define distinct splits,
    and the tip branches are exactly the trivial splits. -/
theorem unrooted_good (t : T) (h : unrootedOK t = true) : good t = true := Canon.good_of_unrootedOK t h

/-- ★ `compare_counts` (DESIGN Appendix B): for two unrooted trees on the same taxa,
    `Compare` without the shortcut reports (|R \ C|, |R ∩ C|, |C \ R|, R = C) over the
    split sets (internal ones, or all with `tips`). -/
theorem compare_counts (r c : T) (tips : Bool) (hT : sameTaxa r c = true)
    (hr : unrootedOK r = true) (hc : unrootedOK c = true) :
    compare r c tips false =
      .ok ⟨((diffL (S tips r) (S tips c)).length : Int), ((interL (S tips r) (S tips c)).length : Int),
           ((diffL (S tips c) (S tips r)).length : Int), sameSplits r c tips⟩ := by
  rw [compare_eq]
  exact Canon.compare_noSC_of_good r c tips hT (unrooted_good r hr) (unrooted_good c hc)

/-- the hypotheses are satisfiable on a non-trivial pair (a tree and a contraction of it) -/
def exLeaf (n : String) : EdgeD × T := (⟨1, NIL, NIL, [], -1⟩, T.leaf n)
def exNode (k : Kids) : EdgeD × T := (⟨1, NIL, NIL, [], -1⟩, .node ⟨"", []⟩ 0 k)
/-- `((a,b),c,(d,e));` -/
def exR : T := .node ⟨"", []⟩ 0 [exNode [exLeaf "a", exLeaf "b"], exLeaf "c", exNode [exLeaf "d", exLeaf "e"]]
/-- `((a,b),c,d,e);` -/
def exC : T := .node ⟨"", []⟩ 0 [exNode [exLeaf "a", exLeaf "b"], exLeaf "c", exLeaf "d", exLeaf "e"]
example : sameTaxa exR exC = true ∧ unrootedOK exR = true ∧ unrootedOK exC = true := by decide

/-- `compare_counts` under the semantic hypotheses only (`good` is weaker than `unrootedOK`). -/
theorem compare_counts_good (r c : T) (tips : Bool) (hT : sameTaxa r c = true)
    (hr : good r = true) (hc : good c = true) :
    compare r c tips false =
      .ok ⟨((counts r c tips).1 : Int), ((counts r c tips).2.1 : Int), ((counts r c tips).2.2 : Int),
           sameSplits r c tips⟩ := by
  rw [compare_eq]
  exact Canon.compare_noSC_of_good r c tips hT hr hc

/-- `sametree_iff` (no hypothesis on the trees): without the shortcut, `Sametree` is set
    exactly when both "only" counts are zero. -/
theorem sametree_iff (r c : T) (tips : Bool) (st : Stats) (h : compare r c tips false = .ok st) :
    st.same = true ↔ st.tree1 = 0 ∧ st.tree2 = 0 := by
  rw [compare_eq] at h
  exact Canon.compare_same_iff_zero r c tips st h

/-- the identical-only shortcut never changes the flag (no hypothesis on the trees) -/
theorem shortcut_same_flag (r c : T) (tips : Bool) :
    Canon.flag (compare r c tips true) = Canon.flag (compare r c tips false) := by
  rw [compare_eq, compare_eq]
  exact Canon.compare_shortcut_flag r c tips

/-- `sametree_iff`, with the identical-only shortcut: `Sametree ↔ R = C`. -/
theorem sametree_shortcut (r c : T) (tips : Bool) (hT : sameTaxa r c = true)
    (hr : unrootedOK r = true) (hc : unrootedOK c = true) (st : Stats) (h : compare r c tips true = .ok st) :
    st.same = sameSplits r c tips := by
  have h1 := shortcut_same_flag r c tips
  rw [h, compare_counts r c tips hT hr hc] at h1
  simpa [Canon.flag] using h1

/-- `compare_swap`: swapping the trees swaps the "only" counts and keeps the rest. -/
theorem compare_swap (r c : T) (tips : Bool) (hT : sameTaxa r c = true)
    (hr : unrootedOK r = true) (hc : unrootedOK c = true) (st : Stats) (h : compare r c tips false = .ok st) :
    compare c r tips false = .ok ⟨st.tree2, st.common, st.tree1, st.same⟩ := by
  have hgr := unrooted_good r hr
  have hgc := unrooted_good c hc
  obtain ⟨_, _, hr3, hr4, _⟩ := Canon.good_parts hgr
  obtain ⟨_, _, hc3, hc4, _⟩ := Canon.good_parts hgc
  rw [compare_counts r c tips hT hr hc] at h
  rw [compare_counts c r tips (Canon.sameTaxa_symm r c hT) hc hr]
  have e := Canon.length_inter_comm (Canon.S_nodup r tips hr3 hr4) (Canon.S_nodup c tips hc3 hc4)
  cases h
  simp only [Canon.interL_eq, sameSplits, Res.ok.injEq, Stats.mk.injEq, true_and]
  exact ⟨by rw [e], Bool.and_comm _ _⟩

/-- Invariance: the record depends on the two trees only through their split sets, hence
    not on where either tree is rooted nor on the order of children (re-rooting and
    rotation preserve `S`: C05). -/
theorem compare_invariant (r c r' c' : T) (tips : Bool)
    (hT : sameTaxa r c = true) (hT' : sameTaxa r' c' = true)
    (hr : unrootedOK r = true) (hc : unrootedOK c = true) (hr' : unrootedOK r' = true) (hc' : unrootedOK c' = true)
    (hR : sameSplits r r' tips = true) (hC : sameSplits c c' tips = true) :
    compare r' c' tips false = compare r c tips false := by
  rw [compare_counts r c tips hT hr hc, compare_counts r' c' tips hT' hr' hc']
  have pR := Canon.perm_of_sameSplits r r' tips (unrooted_good r hr) (unrooted_good r' hr') hR
  have pC := Canon.perm_of_sameSplits c c' tips (unrooted_good c hc) (unrooted_good c' hc') hC
  have d1 := (Canon.diff_perm pR pC).length_eq
  have d2 := (Canon.diff_perm pC pR).length_eq
  have i1 := (Canon.inter_perm pR pC).length_eq
  simp only [Canon.diffL_eq, Canon.interL_eq, sameSplits, Res.ok.injEq, Stats.mk.injEq]
  refine ⟨by rw [d1], by rw [i1], by rw [d2], ?_⟩
  rw [Bool.eq_iff_iff]
  simp only [Bool.and_eq_true, isEmpty_iff, ← length_eq_zero_iff]
  rw [d1, d2]

/-- `weighted_terms`: the record of `CompareWeighted` (no shortcut) lists, up to order, the
    lengths of the splits specific to the reference, of those specific to the compared
    tree, the length differences (reference - compared) of the shared ones, and the flag
    says "same splits, same lengths". -/
theorem weighted_terms (r c : T) (tips : Bool) (hT : sameTaxa r c = true)
    (hr : unrootedOK r = true) (hc : unrootedOK c = true) :
    ∃ w, compareWeighted r c tips false = .ok w ∧
      w.tree1 ~ onlyLens (U tips r) (U tips c) ∧ w.tree2 ~ onlyLens (U tips c) (U tips r) ∧
      w.common ~ commonDiffs (U tips r) (U tips c) ∧ w.same = wSame r c tips := by
  rw [compareWeighted_eq]
  exact Canon.compareWeighted_noSC_of_good r c tips hT (unrooted_good r hr) (unrooted_good c hc)

/-- `weighted_terms`, with the identical-only shortcut: the flag is still "same splits, same lengths". -/
theorem weighted_shortcut (r c : T) (tips : Bool) (hT : sameTaxa r c = true)
    (hr : unrootedOK r = true) (hc : unrootedOK c = true) (w : WStats)
    (h : compareWeighted r c tips true = .ok w) : w.same = wSame r c tips := by
  obtain ⟨w0, h0, _, _, _, hs⟩ := weighted_terms r c tips hT hr hc
  have hf := Canon.compareWeighted_shortcut_flag r c tips
  rw [← compareWeighted_eq, ← compareWeighted_eq, h, h0] at hf
  simp only [Canon.wflag, Res.ok.injEq] at hf
  rw [hf, hs]

/-- what `gotree compare trees` prints from these records: `--rf` is |R \ C| + |C \ R|, and
    `--weighted` the Spec's weighted Robinson-Foulds sum and the square root of the Spec's
    Kuhner-Felsenstein radicand (the square root itself stays symbolic). -/
theorem cli_sums (r c : T) (tips : Bool) (hT : sameTaxa r c = true)
    (hr : unrootedOK r = true) (hc : unrootedOK c = true) :
    (∃ st, compare r c tips false = .ok st ∧
      rf st = ((diffL (S tips r) (S tips c)).length : Int) + ((diffL (S tips c) (S tips r)).length : Int)) ∧
    (∃ w, compareWeighted r c tips false = .ok w ∧
      wrf w = Canon.wrfSpec r c tips ∧ kf2 w = Canon.kf2Spec r c tips) := by
  constructor
  · exact ⟨_, compare_counts r c tips hT hr hc, rfl⟩
  · obtain ⟨w, h0, h1, h2, h3, _⟩ := weighted_terms r c tips hT hr hc
    exact ⟨w, h0, Canon.sums_of_perm w r c tips h1 h2 h3⟩

/-- `CommonEdges` (pairwise variant by linear search `FindEdge`): reference-only and common counts. -/
theorem commonEdges_counts (r c : T) (tips : Bool) (hT : sameTaxa r c = true)
    (hr : unrootedOK r = true) (hc : unrootedOK c = true) :
    commonEdges r c tips =
      .ok (((diffL (S tips r) (S tips c)).length : Int), ((interL (S tips r) (S tips c)).length : Int)) := by
  have hgr := unrooted_good r hr
  have hgc := unrooted_good c hc
  rw [commonEdges_eq r c tips (Canon.reinitOk_of_good hgr) (Canon.reinitOk_of_good hgc)]
  exact Canon.commonEdges_of_good r c tips hT hgr hgc

/-- F13 (fixed by 64ef88d) as a theorem about the pinned variant of the model: before the
    fix every compared tree whose splits all occur in the reference was reported identical,
    whatever the reference has besides; the repaired model disagrees as soon as the reference
    has a split of its own. -/
theorem comparePinned_contraction_identical (r c : T) (tips : Bool) (hT : sameTaxa r c = true)
    (hr : unrootedOK r = true) (hc : unrootedOK c = true)
    (hsub : diffL (S tips c) (S tips r) = []) :
    (∃ st, comparePinned r c tips false = .ok st ∧ st.same = true ∧
        st.tree1 = ((diffL (S tips r) (S tips c)).length : Int)) ∧
    (diffL (S tips r) (S tips c) ≠ [] → ∃ st, compare r c tips false = .ok st ∧ st.same = false) := by
  have hgr := unrooted_good r hr
  have hgc := unrooted_good c hc
  have hcmp := Canon.compare_noSC_of_good r c tips hT hgr hgc
  constructor
  · -- the pinned record is the repaired one but for the flag, which is "all lookups succeeded"
    have h1 := Canon.reinitOk_of_good hgr
    have h2 := Canon.reinitOk_of_good hgc
    obtain ⟨hr1, hr2, _, _, _⟩ := Canon.good_parts hgr
    obtain ⟨hc1, _, _, _, _⟩ := Canon.good_parts hgc
    have h3 := Canon.compareTipIndexes_of_perm
      (Canon.perm_of_sameTaxa r c hT (Canon.nodup_of_uniqueTips r hr1) (Canon.nodup_of_uniqueTips c hc1)) hr2
    rw [comparePinned_eq]
    unfold Canon.compare at hcmp
    unfold Canon.comparePinned
    simp only [h1, h2, h3, Bool.not_true, Bool.false_eq_true, if_false, Canon.cmpLoop_noSC, Nat.zero_add,
      Bool.true_and, Res.ok.injEq, Stats.mk.injEq] at hcmp ⊢
    refine ⟨_, rfl, ?_, hcmp.1⟩
    -- all lookups succeed: the tally of hits equals the tally of candidates, i.e. |C \ R| = 0
    have hall := Canon.all_iff_countP_eq (Canon.okE (Canon.buildIndex r.tipNames r.splits) c.tipNames)
      (counted tips) c.splits (fun e _ hq => Canon.not_counted_okE _ _ tips e hq)
    rw [hall.2]
    have := hcmp.2.2.1
    rw [hsub] at this
    simp only [length_nil, Int.natCast_zero] at this
    omega
  · intro hne
    refine ⟨_, compare_counts r c tips hT hr hc, ?_⟩
    unfold sameSplits
    cases hd : diffL (S tips r) (S tips c) with
    | nil => exact absurd hd hne
    | cons _ _ => simp

/-- the premises of `comparePinned_contraction_identical` hold for the witness
    `((a,b),c,(d,e))` vs its contraction `((a,b),c,d,e)`: every split of the contraction
    is in the reference, and the reference has one of its own. -/
theorem comparePinned_witness :
    sameTaxa exR exC = true ∧ unrootedOK exR = true ∧ unrootedOK exC = true ∧
    diffL (S false exC) (S false exR) = [] ∧ diffL (S false exR) (S false exC) ≠ [] := by
  have h0 : sameTaxa exR exC = true ∧ unrootedOK exR = true ∧ unrootedOK exC = true := by decide
  obtain ⟨hT, hr, hc⟩ := h0
  have hgr := unrooted_good exR hr
  have hgc := unrooted_good exC hc
  have hall : exR.tipNames = ["a", "b", "c", "d", "e"] ∧ exC.tipNames = ["a", "b", "c", "d", "e"] := by decide
  have hCf : (exC.splits.filter (counted false)).map (·.below) = [["a", "b"]] := by decide
  have hRf : (exR.splits.filter (counted false)).map (·.below) = [["a", "b"], ["d", "e"]] := by decide
  have keysC : (exC.splits.filter (counted false)).map (fun s => canonSide exC.tipNames s.below)
      = [canonSide ["a", "b", "c", "d", "e"] ["a", "b"]] := by
    rw [hall.2]
    show map (canonSide ["a", "b", "c", "d", "e"] ∘ SplitE.below) _ = _
    rw [← map_map]
    show map _ (map (fun x : SplitE => x.below) _) = _
    rw [hCf]; rfl
  have keysR : (exR.splits.filter (counted false)).map (fun s => canonSide exR.tipNames s.below)
      = [canonSide ["a", "b", "c", "d", "e"] ["a", "b"], canonSide ["a", "b", "c", "d", "e"] ["d", "e"]] := by
    rw [hall.1]
    show map (canonSide ["a", "b", "c", "d", "e"] ∘ SplitE.below) _ = _
    rw [← map_map]
    show map _ (map (fun x : SplitE => x.below) _) = _
    rw [hRf]; rfl
  refine ⟨hT, hr, hc, ?_, ?_⟩
  · unfold diffL
    simp only [filter_eq_nil_iff, Bool.not_eq_true', Bool.not_eq_false, contains_iff_mem]
    intro k hk
    rw [Canon.mem_S_iff exC false hgc, keysC] at hk
    rw [Canon.mem_S_iff exR false hgr, keysR]
    simp only [mem_singleton] at hk
    simp [hk]
  · intro hnil
    unfold diffL at hnil
    simp only [filter_eq_nil_iff, Bool.not_eq_true', Bool.not_eq_false, contains_iff_mem] at hnil
    have hin : canonSide ["a", "b", "c", "d", "e"] ["d", "e"] ∈ S false exR := by
      rw [Canon.mem_S_iff exR false hgr, keysR]; simp
    have := hnil _ hin
    rw [Canon.mem_S_iff exC false hgc, keysC] at this
    simp only [mem_singleton] at this
    refine Canon.canonSide_ne ["a", "b", "c", "d", "e"] ["d", "e"] ["a", "b"] (by decide) (by decide) ?_ "c"
      (by decide) (by decide) (by decide) this
    intro h
    exact absurd ((h "d").mp (by decide)) (by decide)

/-- `different_taxa_err`: two indexable trees (unique tip names, at least one tip) on
    different taxa are rejected by every entry point. -/
theorem different_taxa_err (r c : T) (tips sc : Bool) (hr : reinitOk r = true) (hc : reinitOk c = true)
    (h : sameTaxa r c = false) :
    compare r c tips sc = .err ∧ compareWeighted r c tips sc = .err ∧ commonEdges r c tips = .err := by
  have hr1 : r.uniqueTips = true := by unfold reinitOk at hr; simp at hr; exact hr.1
  have hc1 : c.uniqueTips = true := by unfold reinitOk at hc; simp at hc; exact hc.1
  have h3 := Canon.compareTipIndexes_false r c hr1 hc1 h
  refine ⟨?_, ?_, ?_⟩
  · unfold compare; simp [hr, hc, h3]
  · unfold compareWeighted; simp [hr, hc, h3]
  · unfold commonEdges; simp [h3]

/-- … and the same taxa are never rejected. -/
theorem same_taxa_ok (r c : T) (tips sc : Bool) (hr : reinitOk r = true) (hc : reinitOk c = true)
    (h : sameTaxa r c = true) : ∃ st, compare r c tips sc = .ok st := by
  have hr1 : r.uniqueTips = true := by unfold reinitOk at hr; simp at hr; exact hr.1
  have hc1 : c.uniqueTips = true := by unfold reinitOk at hc; simp at hc; exact hc.1
  have hne : r.tipNames ≠ [] := by unfold reinitOk at hr; simp at hr; exact hr.2
  have hperm := Canon.perm_of_sameTaxa r c h (Canon.nodup_of_uniqueTips r hr1) (Canon.nodup_of_uniqueTips c hc1)
  have h3 := Canon.compareTipIndexes_of_perm hperm hne
  unfold compare
  simp [hr, hc, h3]

/-- the bitset model run by the driver and the canonical-side model used in the proofs
    agree on every input (no hypothesis) -/
theorem bitset_model_eq_canonical (r c : T) (tips sc : Bool) :
    compare r c tips sc = Canon.compare r c tips sc ∧
    compareWeighted r c tips sc = Canon.compareWeighted r c tips sc :=
  ⟨compare_eq r c tips sc, compareWeighted_eq r c tips sc⟩

/-! ## the rooting / child-order clause, about C05's operation models -/

/-- `Reroot` (C05's model `C05.reroot`, any target node) applied to either tree does not change
    the record: by `C05.P.reroot_preserves` the re-rooted trees have the same tips, non-trivial
    splits and tip branches, which is all the record depends on.  (`unrootedOK` of the results
    is the one shape hypothesis kept: re-rooting an unrooted tree on a node with two neighbours
    would make it rooted; the driver evaluates it on every re-rooted copy.) -/
theorem compare_reroot_invariant (r c r' c' : T) (pr pc : List Nat) (tips : Bool)
    (hT : sameTaxa r c = true) (hr : unrootedOK r = true) (hc : unrootedOK c = true)
    (hlr : C05.lensOK r = true) (hlc : C05.lensOK c = true)
    (h1 : C05.reroot r pr = .ok r') (h2 : C05.reroot c pc = .ok c')
    (hr' : unrootedOK r' = true) (hc' : unrootedOK c' = true) :
    compare r' c' tips false = compare r c tips false := by
  have sr := sameU_reroot (uniq_of_unrootedOK hr) hlr h1
  have sc := sameU_reroot (uniq_of_unrootedOK hc) hlc h2
  exact compare_invariant r c r' c' tips hT (sameTaxa_of_perms hT sr.tips sc.tips) hr hc hr' hc'
    (sr.sameSplits tips) (sc.sameSplits tips)

/-- the same with the hypothesis on the INPUTS: every node the re-rooting walks through, the
    target included, is an inner node (`innerPath`; `Reroot` itself refuses a tip target) — then
    the re-rooted trees are again trees of the property (`unrootedOK_reroot`) and the record is
    unchanged.  No hypothesis on the results. -/
theorem compare_reroot_invariant_inner (r c r' c' : T) (pr pc : List Nat) (tips : Bool)
    (hT : sameTaxa r c = true) (hr : unrootedOK r = true) (hc : unrootedOK c = true)
    (hlr : C05.lensOK r = true) (hlc : C05.lensOK c = true)
    (h1 : C05.reroot r pr = .ok r') (h2 : C05.reroot c pc = .ok c')
    (hpr : innerPath r pr none = true) (hpc : innerPath c pc none = true) :
    compare r' c' tips false = compare r c tips false :=
  compare_reroot_invariant r c r' c' pr pc tips hT hr hc hlr hlc h1 h2
    (unrootedOK_reroot hr hpr h1) (unrootedOK_reroot hc hpc h2)

/-- `exR` re-rooted on its cherry `(a,b)` (path `[0]`): the hypotheses hold -/
example : innerPath exR [0] none = true ∧ (∃ t', C05.reroot exR [0] = .ok t') := ⟨by decide, ⟨_, rfl⟩⟩

/-- `RotateInternalNodes` (C05's model `C05.rotate`, any draws) applied to either tree does not
    change the record. -/
theorem compare_rotate_invariant (r c : T) (dr dc : List Nat) (tips : Bool)
    (hT : sameTaxa r c = true) (hr : unrootedOK r = true) (hc : unrootedOK c = true)
    (hlr : C05.lensOK r = true) (hlc : C05.lensOK c = true)
    (hr' : unrootedOK (C05.rotate r dr) = true) (hc' : unrootedOK (C05.rotate c dc) = true) :
    compare (C05.rotate r dr) (C05.rotate c dc) tips false = compare r c tips false := by
  have sr := sameU_rotate r dr hlr
  have sc := sameU_rotate c dc hlc
  exact compare_invariant r c _ _ tips hT (sameTaxa_of_perms hT sr.tips sc.tips) hr hc hr' hc'
    (sr.sameSplits tips) (sc.sameSplits tips)

/-- one-edge root moves (of which `Reroot` is the fold, DESIGN §3.1) towards inner children, in
    both trees: no hypothesis on the results — `unrootedOK` is preserved (`unrootedOK_moveRoot`). -/
theorem compare_moveRoot_invariant (r c : T) (i j : Nat) (ei ej : EdgeD) (ci cj : T) (tips : Bool)
    (hT : sameTaxa r c = true) (hr : unrootedOK r = true) (hc : unrootedOK c = true)
    (hlr : C05.lensOK r = true) (hlc : C05.lensOK c = true)
    (hi : r.kids[i]? = some (ei, ci)) (hii : ci.isLeaf = false)
    (hj : c.kids[j]? = some (ej, cj)) (hji : cj.isLeaf = false) :
    compare (C05.moveRoot r i) (C05.moveRoot c j) tips false = compare r c tips false := by
  have sr := sameU_moveRoot r i (uniq_of_unrootedOK hr) hlr
  have sc := sameU_moveRoot c j (uniq_of_unrootedOK hc) hlc
  exact compare_invariant r c _ _ tips hT (sameTaxa_of_perms hT sr.tips sc.tips) hr hc
    (unrootedOK_moveRoot r i ei ci hr hi hii) (unrootedOK_moveRoot c j ej cj hc hj hji)
    (sr.sameSplits tips) (sc.sameSplits tips)

/-- The weighted record too depends only on what C05's operations preserve: for trees related by
    `SameU` (same tips, same non-trivial splits with their data, same tip-branch lengths) the three
    term lists agree up to order and the flag is the same. -/
theorem weighted_invariant (r c r' c' : T) (tips : Bool) (hT : sameTaxa r c = true)
    (hr : unrootedOK r = true) (hc : unrootedOK c = true) (hr' : unrootedOK r' = true) (hc' : unrootedOK c' = true)
    (sr : SameU r r') (sc : SameU c c') :
    ∃ w w', compareWeighted r c tips false = .ok w ∧ compareWeighted r' c' tips false = .ok w' ∧
      w'.tree1 ~ w.tree1 ∧ w'.tree2 ~ w.tree2 ∧ w'.common ~ w.common ∧ w'.same = w.same := by
  have hT' := sameTaxa_of_perms hT sr.tips sc.tips
  obtain ⟨w, h0, a1, a2, a3, a4⟩ := weighted_terms r c tips hT hr hc
  obtain ⟨w', h0', b1, b2, b3, b4⟩ := weighted_terms r' c' tips hT' hr' hc'
  obtain ⟨_, _, g3, g4, _⟩ := Canon.good_parts (unrooted_good c' hc')
  obtain ⟨t1, t2, t3⟩ := spec_terms_invariant tips sr sc (Canon.S_nodup c' tips g3 g4)
  refine ⟨w, w', h0, h0', b1.trans (t1.trans a1.symm), b2.trans (t2.trans a2.symm), b3.trans (t3.trans a3.symm), ?_⟩
  rw [a4, b4]
  unfold wSame
  have hs : sameSplits r' c' tips = sameSplits r c tips := by
    have pR := sr.S_perm tips
    have pC := sc.S_perm tips
    unfold sameSplits
    rw [Bool.eq_iff_iff]
    simp only [Bool.and_eq_true, isEmpty_iff, ← length_eq_zero_iff, Canon.diffL_eq]
    rw [(Canon.diff_perm pR pC).length_eq, (Canon.diff_perm pC pR).length_eq]
  rw [hs, t3.all_eq]

/-- `Reroot` / `RotateInternalNodes` (C05's models) on either tree do not change the weighted
    record either (terms up to order, same flag). -/
theorem weighted_reroot_invariant (r c r' c' : T) (pr pc : List Nat) (tips : Bool)
    (hT : sameTaxa r c = true) (hr : unrootedOK r = true) (hc : unrootedOK c = true)
    (hlr : C05.lensOK r = true) (hlc : C05.lensOK c = true)
    (h1 : C05.reroot r pr = .ok r') (h2 : C05.reroot c pc = .ok c')
    (hr' : unrootedOK r' = true) (hc' : unrootedOK c' = true) :
    ∃ w w', compareWeighted r c tips false = .ok w ∧ compareWeighted r' c' tips false = .ok w' ∧
      w'.tree1 ~ w.tree1 ∧ w'.tree2 ~ w.tree2 ∧ w'.common ~ w.common ∧ w'.same = w.same :=
  weighted_invariant r c r' c' tips hT hr hc hr' hc'
    (sameU_reroot (uniq_of_unrootedOK hr) hlr h1) (sameU_reroot (uniq_of_unrootedOK hc) hlc h2)

theorem weighted_rotate_invariant (r c : T) (dr dc : List Nat) (tips : Bool)
    (hT : sameTaxa r c = true) (hr : unrootedOK r = true) (hc : unrootedOK c = true)
    (hlr : C05.lensOK r = true) (hlc : C05.lensOK c = true)
    (hr' : unrootedOK (C05.rotate r dr) = true) (hc' : unrootedOK (C05.rotate c dc) = true) :
    ∃ w w', compareWeighted r c tips false = .ok w ∧
      compareWeighted (C05.rotate r dr) (C05.rotate c dc) tips false = .ok w' ∧
      w'.tree1 ~ w.tree1 ∧ w'.tree2 ~ w.tree2 ∧ w'.common ~ w.common ∧ w'.same = w.same :=
  weighted_invariant r c _ _ tips hT hr hc hr' hc' (sameU_rotate r dr hlr) (sameU_rotate c dc hlc)

/-- the hypotheses of `compare_moveRoot_invariant` hold on `exR` (move to the cherry `(a,b)`) and
    `exC`; lengths are all 1 -/
example : C05.lensOK exR = true ∧ C05.lensOK exC = true ∧
    (∃ e c, exR.kids[0]? = some (e, c) ∧ c.isLeaf = false) ∧ (∃ e c, exC.kids[0]? = some (e, c) ∧ c.isLeaf = false) :=
  ⟨by decide, by decide, ⟨_, _, rfl, rfl⟩, ⟨_, _, rfl, rfl⟩⟩

/-- `compare_swap`, with the identical-only shortcut: the flag is the same in both orders. -/
theorem sametree_shortcut_swap (r c : T) (tips : Bool) (hT : sameTaxa r c = true)
    (hr : unrootedOK r = true) (hc : unrootedOK c = true) (st st' : Stats)
    (h : compare r c tips true = .ok st) (h' : compare c r tips true = .ok st') : st'.same = st.same := by
  rw [sametree_shortcut r c tips hT hr hc st h,
    sametree_shortcut c r tips (Canon.sameTaxa_symm r c hT) hc hr st' h']
  unfold sameSplits
  exact Bool.and_comm _ _

/-- hypotheses of `different_taxa_err` on a concrete pair: `exR` against `((a,zz),c,(d,e))` -/
def exZ : T := .node ⟨"", []⟩ 0 [exNode [exLeaf "a", exLeaf "zz"], exLeaf "c", exNode [exLeaf "d", exLeaf "e"]]
example : reinitOk exR = true ∧ reinitOk exZ = true ∧ sameTaxa exR exZ = false := by decide

/-! ## any shape: rooted trees, single-child nodes (outside the property's quantifier; tie only) -/

/-- `Compare` without the shortcut on ANY two indexable trees on the same taxa, in closed form
    over the branch lists: the totals count branches (a rooted tree has two root branches for one
    split, both counted, one index entry), `common` counts the counted branches of the compared
    tree that are found (tip branches are taken for found without a lookup). -/
theorem compare_any (r c : T) (tips : Bool) (hr : reinitOk r = true) (hc : reinitOk c = true)
    (hT : sameTaxa r c = true) :
    compare r c tips false =
      .ok ⟨(r.splits.countP (counted tips) : Int) - (c.splits.countP fun e => foundIn r c e && counted tips e : Nat),
           (c.splits.countP fun e => foundIn r c e && counted tips e : Nat),
           (c.splits.countP (counted tips) : Int) - (c.splits.countP fun e => foundIn r c e && counted tips e : Nat),
           c.splits.all (foundIn r c) && c.splits.countP (counted tips) == r.splits.countP (counted tips)⟩ :=
  compare_any' r c tips hr hc hT

/-- any indexable tree, rooted or not, is reported identical to itself -/
theorem compare_self (t : T) (tips : Bool) (ht : reinitOk t = true) :
    compare t t tips false = .ok ⟨0, (t.splits.countP (counted tips) : Nat), 0, true⟩ :=
  compare_self' t tips ht

/-- the two root branches of a rooted tree have `EqualOrComplement` bitsets (one index entry) -/
theorem rooted_root_branches (d : NodeD) (p : Nat) (e1 e2 : EdgeD) (t1 t2 : T)
    (hn : (T.node d p [(e1, t1), (e2, t2)]).tipNames.Nodup) :
    eqOrCompl (key (T.node d p [(e1, t1), (e2, t2)]).tipNames ⟨t1.leaves, e1, t1.isLeaf⟩)
      (key (T.node d p [(e1, t1), (e2, t2)]).tipNames ⟨t2.leaves, e2, t2.isLeaf⟩) = true :=
  (root_branches_same_key d p e1 e2 t1 t2 hn).2

/-- `gotree compare edges`: the row of a branch of the reference says terminal, its topological
    depth, and "found" exactly when its split is a split (tip branches included) of the compared tree. -/
theorem edgeRow_spec (r c : T) (hT : sameTaxa r c = true) (hr : unrootedOK r = true) (hc : unrootedOK c = true)
    (s : SplitE) (hs : s ∈ r.splits) :
    edgeRow r c s = (s.tip, lightSize r.tipNames (canonSide r.tipNames s.below),
                     (S true c).contains (canonSide r.tipNames s.below)) :=
  edgeRow_spec' r c hT hr hc s hs

/-! ## through `ReinitIndexes` and the real hash map (C04's refinement, no assumption left) -/

/-- `Compare` modelled through C04's `ReinitIndexes` (bitsets, tip counts, additive hashes for an
    arbitrary name hash `H`) and C04's `hashmap.HashMap` (bucket by `Edge.HashCode`, `HashEquals`
    inside the bucket, rehash under an arbitrary policy) returns the record of `compare`, for
    every `H`, every policy and ALL inputs; the map never panics.  Uses `C04.put_refines`,
    `C04.get_refines` (the lemmas behind `hm_refines`/`ei_refines`) with the key laws of the
    index records (`keyLaws`, from C04's `spec_equals_iff_sameSplit`/`spec_hashCode_of_sameSplit`,
    as in `edge_keys_lawful` but across the two trees). -/
theorem compareHM_eq (H : String → UInt64) (policy : Nat → Nat → Bool) (r c : T) (tips sc : Bool) :
    compareHM H policy r c tips sc = .res (compare r c tips sc) := compareHM_eq' H policy r c tips sc

theorem compareWeightedHM_eq (H : String → UInt64) (policy : Nat → Nat → Bool) (r c : T) (tips sc : Bool) :
    compareWeightedHM H policy r c tips sc = .res (compareWeighted r c tips sc) :=
  compareWeightedHM_eq' H policy r c tips sc

/-- ★ `compare_counts` for the model that goes through the hash map with the real hash. -/
theorem compare_counts_hm (H : String → UInt64) (policy : Nat → Nat → Bool) (r c : T) (tips : Bool)
    (hT : sameTaxa r c = true) (hr : unrootedOK r = true) (hc : unrootedOK c = true) :
    compareHM H policy r c tips false =
      .res (.ok ⟨((diffL (S tips r) (S tips c)).length : Int), ((interL (S tips r) (S tips c)).length : Int),
                 ((diffL (S tips c) (S tips r)).length : Int), sameSplits r c tips⟩) := by
  rw [compareHM_eq, compare_counts r c tips hT hr hc]

theorem weighted_terms_hm (H : String → UInt64) (policy : Nat → Nat → Bool) (r c : T) (tips : Bool)
    (hT : sameTaxa r c = true) (hr : unrootedOK r = true) (hc : unrootedOK c = true) :
    ∃ w, compareWeightedHM H policy r c tips false = .res (.ok w) ∧
      w.tree1 ~ onlyLens (U tips r) (U tips c) ∧ w.tree2 ~ onlyLens (U tips c) (U tips r) ∧
      w.common ~ commonDiffs (U tips r) (U tips c) ∧ w.same = wSame r c tips := by
  obtain ⟨w, h0, h⟩ := weighted_terms r c tips hT hr hc
  exact ⟨w, by rw [compareWeightedHM_eq, h0], h⟩

/-- `different_taxa_err` through `ReinitIndexes` and the hash map: on two indexable trees with
    other taxa the record carries the error, for every name hash and every rehash policy. -/
theorem different_taxa_err_hm (H : String → UInt64) (policy : Nat → Nat → Bool) (r c : T) (tips sc : Bool)
    (hr : reinitOk r = true) (hc : reinitOk c = true) (h : sameTaxa r c = false) :
    compareHM H policy r c tips sc = .res .err ∧ compareWeightedHM H policy r c tips sc = .res .err := by
  obtain ⟨h1, h2, _⟩ := different_taxa_err r c tips sc hr hc h
  exact ⟨by rw [compareHM_eq, h1], by rw [compareWeightedHM_eq, h2]⟩

/-- The code before fix e41ab42 tested `err` where `inerr` was meant and went on comparing a tree
    with other taxa (bitsets of another width looked up in the hash map).  The pinned variants
    `compareHMFallthrough` / `compareWeightedHMFallthrough` follow that path: nothing panics, for
    every name hash and every rehash policy, and the records are the same on ALL inputs — the
    slip was not observable through `Err` (only through the counts a rejected record carries,
    which the harness now reports and ties to `errRecord`). -/
theorem err_slip_pinned_harmless (H : String → UInt64) (policy : Nat → Nat → Bool) (r c : T) (tips sc : Bool) :
    compareHMFallthrough H policy r c tips sc = .res (compare r c tips sc) ∧
    compareWeightedHMFallthrough H policy r c tips sc = .res (compareWeighted r c tips sc) :=
  ⟨compareHMFallthrough_eq' H policy r c tips sc, compareWeightedHMFallthrough_eq' H policy r c tips sc⟩

/-! ## rotation without hypothesis on the result; weighted swap -/

/-- `compare_rotate_invariant` with no hypothesis on the rotated trees (`unrootedOK_rotate`) -/
theorem compare_rotate_invariant_full (r c : T) (dr dc : List Nat) (tips : Bool)
    (hT : sameTaxa r c = true) (hr : unrootedOK r = true) (hc : unrootedOK c = true)
    (hlr : C05.lensOK r = true) (hlc : C05.lensOK c = true) :
    compare (C05.rotate r dr) (C05.rotate c dc) tips false = compare r c tips false :=
  compare_rotate_invariant r c dr dc tips hT hr hc hlr hlc (unrootedOK_rotate r dr hr) (unrootedOK_rotate c dc hc)

theorem weighted_rotate_invariant_full (r c : T) (dr dc : List Nat) (tips : Bool)
    (hT : sameTaxa r c = true) (hr : unrootedOK r = true) (hc : unrootedOK c = true)
    (hlr : C05.lensOK r = true) (hlc : C05.lensOK c = true) :
    ∃ w w', compareWeighted r c tips false = .ok w ∧
      compareWeighted (C05.rotate r dr) (C05.rotate c dc) tips false = .ok w' ∧
      w'.tree1 ~ w.tree1 ∧ w'.tree2 ~ w.tree2 ∧ w'.common ~ w.common ∧ w'.same = w.same :=
  weighted_rotate_invariant r c dr dc tips hT hr hc hlr hlc (unrootedOK_rotate r dr hr) (unrootedOK_rotate c dc hc)

/-- weighted swap, the unshared part: swapping the trees swaps the two lists of unshared lengths.
    (That the shared differences change sign is checked by the driver's relation on every run,
    not proved here.) -/
theorem weighted_swap (r c : T) (tips : Bool) (hT : sameTaxa r c = true)
    (hr : unrootedOK r = true) (hc : unrootedOK c = true) :
    ∃ w w', compareWeighted r c tips false = .ok w ∧ compareWeighted c r tips false = .ok w' ∧
      w'.tree1 ~ w.tree2 ∧ w'.tree2 ~ w.tree1 := by
  obtain ⟨w, h0, a1, a2, _, _⟩ := weighted_terms r c tips hT hr hc
  obtain ⟨w', h0', b1, b2, _, _⟩ := weighted_terms c r tips (Canon.sameTaxa_symm r c hT) hc hr
  exact ⟨w, w', h0, h0', b1.trans a2.symm, b2.trans a1.symm⟩

/-! ## absent branch lengths -/

/-- `weighted_terms` for the function that reads an absent length as 0 (`compareWeighted0`): its
    terms are the Spec's terms of the trees with absent lengths replaced by 0 — lengths and length
    differences, never the "no length" marker -1. -/
theorem weighted_terms0 (r c : T) (tips : Bool) (hT : sameTaxa r c = true)
    (hr : unrootedOK r = true) (hc : unrootedOK c = true) :
    ∃ w, compareWeighted0 r c tips false = .ok w ∧
      w.tree1 ~ onlyLens (U tips r.zeroLens) (U tips c.zeroLens) ∧
      w.tree2 ~ onlyLens (U tips c.zeroLens) (U tips r.zeroLens) ∧
      w.common ~ commonDiffs (U tips r.zeroLens) (U tips c.zeroLens) ∧ w.same = wSame0 r c tips :=
  weighted_terms r.zeroLens c.zeroLens tips (by rw [sameTaxa_zeroLens]; exact hT)
    (by rw [unrootedOK_zeroLens]; exact hr) (by rw [unrootedOK_zeroLens]; exact hc)

/-- the unweighted record does not look at lengths at all -/
theorem compare_zeroLens (r c : T) (tips : Bool) (hT : sameTaxa r c = true)
    (hr : unrootedOK r = true) (hc : unrootedOK c = true) :
    ∃ st st', compare r c tips false = .ok st ∧ compare r.zeroLens c.zeroLens tips false = .ok st' ∧
      st'.tree1 = ((diffL (S tips r.zeroLens) (S tips c.zeroLens)).length : Int) ∧
      st.tree1 = ((diffL (S tips r) (S tips c)).length : Int) :=
  ⟨_, _, compare_counts r c tips hT hr hc,
   compare_counts r.zeroLens c.zeroLens tips (by rw [sameTaxa_zeroLens]; exact hT)
     (by rw [unrootedOK_zeroLens]; exact hr) (by rw [unrootedOK_zeroLens]; exact hc), rfl, rfl⟩

/-- F89 (fixed by 462ffd9) as a statement about the pinned model (`compareWeighted`, marker kept — the code before the
    time of writing): the quartets `((a,b),c,d)` and `((a,c),b,d)` without any branch length are
    trees of the property, and the model's weighted Robinson-Foulds sum of the terms the theorem
    `weighted_terms` gives them (one reference-only and one compared-only split, each "of length"
    the marker -1) is negative, whereas with absent = 0 it is 0. -/
def exQ1 : T := .node ⟨"", []⟩ 0
  [(EdgeD.blank, .node ⟨"", []⟩ 0 [(EdgeD.blank, T.leaf "a"), (EdgeD.blank, T.leaf "b")]),
   (EdgeD.blank, T.leaf "c"), (EdgeD.blank, T.leaf "d")]
def exQ2 : T := .node ⟨"", []⟩ 0
  [(EdgeD.blank, .node ⟨"", []⟩ 0 [(EdgeD.blank, T.leaf "a"), (EdgeD.blank, T.leaf "c")]),
   (EdgeD.blank, T.leaf "b"), (EdgeD.blank, T.leaf "d")]

theorem weighted_absent_pinned_negative :
    sameTaxa exQ1 exQ2 = true ∧ unrootedOK exQ1 = true ∧ unrootedOK exQ2 = true ∧
    wrf ⟨[NIL], [NIL], [], false⟩ = -2 ∧ wrf ⟨[0], [0], [], false⟩ = 0 := by
  refine ⟨by decide, by decide, by decide, ?_, ?_⟩
  · simp [wrf, NIL]; grind
  · simp [wrf]; grind

/-! ## The glue of `gotree compare trees` (cmd/comparetrees.go) and the call protocol

  The command is modelled as an interpreter (`cliOutput`, Model/C08Cli.lean) of a table of facts
  about its source; the table is regenerated from the working tree on every run
  (`harness/c08/extract.go` → `Gotree/Gen/C08Glue.lean`). -/

/-- option priorities, part 1: `--weighted` alone decides which library function is called;
    `--tips` and `--binary` are passed on as its `tips` / identical-only arguments; `--rf` never
    reaches the library -/
theorem cli_mode_priority (f : Flags) :
    libCall expectedGlue f = some (if f.weighted then "CompareWeighted" else "Compare", f.tips, f.binary) := by
  rcases f with ⟨t, b, r, w⟩
  cases t <;> cases b <;> cases r <;> cases w <;> decide

/-- option priorities, part 2: the row printed is the one of `--binary` whenever it is given, else the
    one of `--weighted`, else the one of `--rf`, else the four columns — the documented modes -/
theorem cli_row_format (f : Flags) :
    (rowEvent expectedGlue f).map (·.text) =
      some (if f.binary then "%d\t%v\n" else if f.weighted then "%d\t%E\t%E\n"
            else if f.rf then "%d\n" else "%d\t%d\t%d\t%d\n") := by
  rcases f with ⟨t, b, r, w⟩
  cases t <;> cases b <;> cases r <;> cases w <;> decide

theorem cli_header (f : Flags) :
    headerOf expectedGlue f =
      (if f.binary then ["tree\tidentical\n"] else if f.weighted then ["tree\tweighted_RF\tKF\n"]
       else if f.rf then [] else ["tree\treference\tcommon\tcompared\n"]) := by
  rcases f with ⟨t, b, r, w⟩
  cases t <;> cases b <;> cases r <;> cases w <;> decide

/-- the record the command reads for a tree of the property is the Spec's -/
theorem recOf_compare (f : Flags) (hw : f.weighted = false) (hb : f.binary = false) (r c : T) (id : Nat)
    (hT : sameTaxa r c = true) (hr : unrootedOK r = true) (hc : unrootedOK c = true) :
    recOf expectedGlue f r c id = some (.ok (specRec r c f.tips id)) := by
  unfold recOf
  rw [cli_mode_priority, hw, hb]
  simp [compare_counts r c f.tips hT hr hc, specRec]

theorem rows_plain (r : T) (tips : Bool) (hr : unrootedOK r = true) :
    ∀ (cs : List T) (id : Nat), (∀ c ∈ cs, sameTaxa r c = true ∧ unrootedOK c = true) →
      rowsUntilErr expectedGlue (plainF tips) r cs id = some (specRows plainLine r tips cs id, false)
  | [], _, _ => rfl
  | c :: cs, id, h => by
    have hc := h c (by simp)
    have ih := rows_plain r tips hr cs (id + 1) (fun x hx => h x (by simp [hx]))
    unfold rowsUntilErr
    rw [recOf_compare (plainF tips) rfl rfl r c id hc.1 hr hc.2]
    simp only [plainF_tips, rowText_plain, ih, specRows]

theorem rows_rf (r : T) (tips : Bool) (hr : unrootedOK r = true) :
    ∀ (cs : List T) (id : Nat), (∀ c ∈ cs, sameTaxa r c = true ∧ unrootedOK c = true) →
      rowsUntilErr expectedGlue (rfF tips) r cs id = some (specRows rfLine r tips cs id, false)
  | [], _, _ => rfl
  | c :: cs, id, h => by
    have hc := h c (by simp)
    have ih := rows_rf r tips hr cs (id + 1) (fun x hx => h x (by simp [hx]))
    unfold rowsUntilErr
    rw [recOf_compare (rfF tips) rfl rfl r c id hc.1 hr hc.2]
    simp only [rfF_tips, rowText_rf, ih, specRows]

/-- ★ `gotree compare trees -i r -c cs [-l]` on trees of the property writes the header and, for the
    compared tree number i, the line `i⇥|R\C|⇥|R∩C|⇥|C\R|` of the Spec, in file order, and succeeds. -/
theorem cli_plain_output (r : T) (cs : List T) (tips : Bool) (hr : unrootedOK r = true)
    (h : ∀ c ∈ cs, sameTaxa r c = true ∧ unrootedOK c = true) :
    cliOutput expectedGlue (plainF tips) r cs =
      some (String.join ("tree\treference\tcommon\tcompared\n" :: specRows plainLine r tips cs 0), false) := by
  unfold cliOutput
  rw [rows_plain r tips hr cs 0 h, headerOf_plain]
  simp

/-- `--rf`: no header, one line `|R\C| + |C\R|` per compared tree, in file order -/
theorem cli_rf_output (r : T) (cs : List T) (tips : Bool) (hr : unrootedOK r = true)
    (h : ∀ c ∈ cs, sameTaxa r c = true ∧ unrootedOK c = true) :
    cliOutput expectedGlue (rfF tips) r cs = some (String.join (specRows rfLine r tips cs 0), false) := by
  unfold cliOutput
  rw [rows_rf r tips hr cs 0 h, headerOf_rf]
  simp

/-- the hypotheses are satisfiable on `exR` against `[exC, exR]` (a contraction, the tree itself) -/
example : cliOutput expectedGlue (plainF false) exR [exC, exR] =
    some (String.join ("tree\treference\tcommon\tcompared\n" :: specRows plainLine exR false [exC, exR] 0), false) :=
  cli_plain_output exR [exC, exR] false (by decide)
    (by intro c hc; simp at hc; rcases hc with rfl | rfl <;> exact ⟨by decide, by decide⟩)
theorem reinitOk_of_unrootedOK (t : T) (h : unrootedOK t = true) : reinitOk t = true := by
  have hg := unrooted_good t h
  simp [good] at hg
  simp [reinitOk, hg.1.1.1.1, hg.1.1.1.2]

theorem recOf_binary (f : Flags) (hw : f.weighted = false) (hb : f.binary = true) (r c : T) (id : Nat)
    (hT : sameTaxa r c = true) (hr : unrootedOK r = true) (hc : unrootedOK c = true) :
    ∃ a b d, recOf expectedGlue f r c id = some (.ok ⟨id, a, b, d, sameSplits r c f.tips⟩) := by
  obtain ⟨st, hst⟩ := same_taxa_ok r c f.tips true (reinitOk_of_unrootedOK r hr) (reinitOk_of_unrootedOK c hc) hT
  have hs := sametree_shortcut r c f.tips hT hr hc st hst
  refine ⟨st.tree1, st.tree2, st.common, ?_⟩
  unfold recOf
  rw [cli_mode_priority, hw, hb]
  simp [hst, hs]

theorem rows_binary (f : Flags) (hw : f.weighted = false) (hb : f.binary = true) (r : T) (hr : unrootedOK r = true) :
    ∀ (cs : List T) (id : Nat), (∀ c ∈ cs, sameTaxa r c = true ∧ unrootedOK c = true) →
      rowsUntilErr expectedGlue f r cs id = some (specRows binaryLine r f.tips cs id, false)
  | [], _, _ => rfl
  | c :: cs, id, h => by
    have hc := h c (by simp)
    have ih := rows_binary f hw hb r hr cs (id + 1) (fun x hx => h x (by simp [hx]))
    obtain ⟨a, b, d, hrec⟩ := recOf_binary f hw hb r c id hc.1 hr hc.2
    unfold rowsUntilErr
    rw [hrec]
    simp only [rowText_binary f hb, ih, specRows]
    simp [binaryLine, specRec]

/-- `--binary` (with or without `--rf`): the header `tree⇥identical` and, for the compared tree number
    i, the line `i⇥true|false` saying whether its split set is the reference's; `--rf` changes nothing -/
theorem cli_binary_output (f : Flags) (hw : f.weighted = false) (hb : f.binary = true) (r : T) (cs : List T)
    (hr : unrootedOK r = true) (h : ∀ c ∈ cs, sameTaxa r c = true ∧ unrootedOK c = true) :
    cliOutput expectedGlue f r cs = some (String.join ("tree\tidentical\n" :: specRows binaryLine r f.tips cs 0), false) := by
  unfold cliOutput
  rw [rows_binary f hw hb r hr cs 0 h, cli_header, hb]
  simp

/-- with the identical-only shortcut too, `CompareWeighted` (absent length = 0) answers on trees of the
    property, and its flag is the Spec's weighted identity -/
theorem weighted0_shortcut_ok (r c : T) (tips : Bool) (hT : sameTaxa r c = true)
    (hr : unrootedOK r = true) (hc : unrootedOK c = true) :
    ∃ w, compareWeighted0 r c tips true = .ok w ∧ w.same = wSame0 r c tips := by
  obtain ⟨w0, h0, _, _, _, hs⟩ := weighted_terms0 r c tips hT hr hc
  have hf := Canon.compareWeighted_shortcut_flag r.zeroLens c.zeroLens tips
  rw [← compareWeighted_eq, ← compareWeighted_eq] at hf
  unfold compareWeighted0 at h0 ⊢
  rw [h0] at hf
  cases hx : compareWeighted r.zeroLens c.zeroLens tips true with
  | ok w =>
    refine ⟨w, rfl, ?_⟩
    rw [hx] at hf
    simp only [Canon.wflag, Res.ok.injEq] at hf
    rw [hf, hs]
  | err => rw [hx] at hf; simp [Canon.wflag] at hf
  | refErr => rw [hx] at hf; simp [Canon.wflag] at hf

theorem rows_wbinary (f : Flags) (hw : f.weighted = true) (hb : f.binary = true) (r : T) (hr : unrootedOK r = true) :
    ∀ (cs : List T) (id : Nat), (∀ c ∈ cs, sameTaxa r c = true ∧ unrootedOK c = true) →
      rowsUntilErr expectedGlue f r cs id = some (specRowsW r f.tips cs id, false)
  | [], _, _ => rfl
  | c :: cs, id, h => by
    have hc := h c (by simp)
    have ih := rows_wbinary f hw hb r hr cs (id + 1) (fun x hx => h x (by simp [hx]))
    obtain ⟨w, hw0, hs⟩ := weighted0_shortcut_ok r c f.tips hc.1 hr hc.2
    have hrec : recOf expectedGlue f r c id = some (.ok ⟨id, 0, 0, 0, wSame0 r c f.tips⟩) := by
      unfold recOf
      rw [cli_mode_priority, hw, hb]
      simp [hw0, hs]
    unfold rowsUntilErr
    rw [hrec]
    simp only [rowText_binary f hb, ih, specRowsW]

/-- `--weighted --binary` (with or without `--rf`): `i⇥true|false`, true exactly when the compared
    tree has the reference's splits with the reference's lengths (an absent length counting 0) -/
theorem cli_wbinary_output (f : Flags) (hw : f.weighted = true) (hb : f.binary = true) (r : T) (cs : List T)
    (hr : unrootedOK r = true) (h : ∀ c ∈ cs, sameTaxa r c = true ∧ unrootedOK c = true) :
    cliOutput expectedGlue f r cs = some (String.join ("tree\tidentical\n" :: specRowsW r f.tips cs 0), false) := by
  unfold cliOutput
  rw [rows_wbinary f hw hb r hr cs 0 h, cli_header, hb]
  simp

/-- the rejection clause at the command: a first compared tree on other taxa makes the command
    fail, whatever the flags (in the modes whose rows are text) -/
theorem cli_difftaxa_fails (f : Flags) (r c : T) (cs : List T) (hr : reinitOk r = true) (hc : reinitOk c = true)
    (h : sameTaxa r c = false) (out : String × Bool) (ho : cliOutput expectedGlue f r (c :: cs) = some out) :
    out.2 = true := by
  unfold cliOutput at ho
  have h1 : rowsUntilErr expectedGlue f r (c :: cs) 0 = some ([], true) := by
    unfold rowsUntilErr
    have hd := different_taxa_err r c f.tips f.binary hr hc h
    have hz : compareWeighted0 r c f.tips f.binary = .err := by
      unfold compareWeighted0
      exact (different_taxa_err r.zeroLens c.zeroLens f.tips f.binary (by rw [reinitOk_zeroLens]; exact hr)
        (by rw [reinitOk_zeroLens]; exact hc) (by rw [sameTaxa_zeroLens]; exact h)).2.1
    unfold recOf
    rw [cli_mode_priority]
    cases hw : f.weighted <;> simp [hd.1, hz]
  rw [h1] at ho
  simp at ho
  rw [← ho]

/-- `if cpus < 1 { cpus = 1 }`: at least one worker is started, so every item gets a record -/
theorem workersOf_pos (cpus : Int) : 1 ≤ workersOf cpus := by
  unfold workersOf
  split <;> omega

/-- the call protocol: with an indexable reference the caller that drains the channel gets exactly
    one record per item whatever `cpus` (0 and negative values included), and an item that carries
    the reader's error gets a record carrying an error -/
theorem compareCall_records (r : T) (items : List Item) (tips sc : Bool) (cpus : Int) (hr : reinitOk r = true) :
    compareCall (some r) items tips sc cpus = some (items.map fun it => compareItem r it tips sc) ∧
    compareItem r .readErr tips sc = .err ∧ compareWeightedItem r .readErr tips sc = .err ∧
    compareCall none items tips sc cpus = none := by
  have h := workersOf_pos cpus
  refine ⟨?_, ?_, ?_, rfl⟩
  · unfold compareCall
    have : (workersOf cpus == 0) = false := by
      cases hw : workersOf cpus with
      | zero => omega
      | succ n => rfl
    simp [hr, this]
  · simp [compareItem, hr]
  · simp [compareWeightedItem, hr]

end Gotree.C08
