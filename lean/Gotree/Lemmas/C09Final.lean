/-
  C09 — assembly: the star tree satisfies the loop invariant, and the loop of
  `Consensus` over compatible rows gives a tree whose branches are the rows.
-/
import Gotree.Lemmas.C09
import Gotree.Lemmas.C09Loop

namespace Gotree.C09
open Gotree

theorem starOf_kids (t : T) : (starOf t).kids = (t.splits.filter (·.tip)).map fun s =>
    ((⟨s.e.len, NIL, NIL, [], -1⟩ : EdgeD), T.leaf (s.below.headD "")) := rfl

theorem star_splits_tip (t : T) : ∀ s ∈ (starOf t).splits, s.tip = true := by
  intro s hs
  unfold T.splits at hs
  rw [starOf_kids] at hs
  obtain ⟨et, het, hse⟩ := mem_splitsL.1 hs
  obtain ⟨x, _, rfl⟩ := List.mem_map.1 het
  simp only [blk, T.leaf, T.leaves, T.splitsBelow, splitsL, List.mem_singleton] at hse
  rw [hse]; rfl

theorem star_splits_singleton (t : T) : ∀ s ∈ (starOf t).splits, ∃ a, s.below = [a] := by
  intro s hs
  unfold T.splits at hs
  rw [starOf_kids] at hs
  obtain ⟨et, het, hse⟩ := mem_splitsL.1 hs
  obtain ⟨x, _, rfl⟩ := List.mem_map.1 het
  simp only [blk, T.leaf, T.leaves, T.splitsBelow, splitsL, List.mem_singleton] at hse
  exact ⟨x.below.headD "", by rw [hse]⟩

/-- the star tree of the first tree satisfies the loop invariant with nothing inserted -/
theorem star_loopInv (first : T) (hnd : first.tipNames.Nodup) (hdeg : 2 ≤ first.kids.length)
    (h2 : 2 ≤ (first.splits.filter (·.tip)).length) :
    LoopInv (starOf first).tipNames (starOf first) [] [] := by
  have hk : 2 ≤ (starOf first).kids.length := by rw [starOf_kids, List.length_map]; exact h2
  have ht := tipNames_eq_leaves (starOf first) hk
  have hst := starOf_tipNames first h2
  have hft := tipNames_eq_leaves first hdeg
  refine ⟨hk, ?_, ?_, ?_, by simp, by simp, ?_⟩
  rotate_left 3
  · have : ni (starOf first).splits = 0 := by
      unfold ni
      rw [List.length_eq_zero_iff, List.filter_eq_nil_iff]
      intro s hs
      simp [star_splits_tip first s hs]
    omega
  · rw [← ht, hst, ← hft]; exact hnd
  · rw [ht]
  · intro s hs; exact Or.inl (star_splits_singleton first s hs)

/-- the loop of `Consensus` on the star tree, for rows that satisfy `selOK` -/
theorem consensus_loop (first : T) (alltips : List String) (n : Nat) (sel : List Entry)
    (hnd : first.tipNames.Nodup) (hdeg : 2 ≤ first.kids.length)
    (h2 : 2 ≤ (first.splits.filter (·.tip)).length) (halt : alltips = allTipNames first)
    (hsel : selOK (starOf first).tipNames alltips sel = true) :
    ∃ r, applyAll alltips n (starOf first) sel = .ok r ∧
      LoopInv (starOf first).tipNames r (innerRows alltips n sel) (tipRows alltips sel) := by
  have hst := starOf_tipNames first h2
  have hft := tipNames_eq_leaves first hdeg
  have ha : alltips = (starOf first).tipNames := by
    rw [halt, hst, allTipNames_eq first (by omega), hft]
  have hT : (starOf first).tipNames.Nodup := by rw [hst, ← hft]; exact hnd
  have := loop_spec (starOf first).tipNames alltips n hT (by rw [ha]; exact hT) (by rw [ha]; exact fun a h => h)
    sel [] (starOf first) (by simpa using hsel) (by simpa [innerRows, tipRows] using star_loopInv first hnd hdeg h2)
  simpa using this

/-! ## as many inner branches as inner rows -/

theorem mem_innerRows' {alltips : List String} {n : Nat} {sel : List Entry} {p : List String × Rat × Rat} :
    p ∈ innerRows alltips n sel ↔ ∃ x ∈ sel, 2 ≤ (rowNames alltips x).length ∧
      p = (rowNames alltips x, x.len / (x.count : Rat), (x.count : Rat) / (n : Rat)) := by
  unfold innerRows
  simp only [List.mem_map, List.mem_filter, decide_eq_true_eq]
  constructor
  · rintro ⟨x, ⟨hx, h2⟩, rfl⟩; exact ⟨x, hx, h2, rfl⟩
  · rintro ⟨x, hx, h2, rfl⟩; exact ⟨x, ⟨hx, h2⟩, rfl⟩

theorem length_le_of_witness {α β : Type} [DecidableEq β] (Q : α → β → Prop) (D : α → α → Prop) :
    ∀ (L : List α) (M : List β), L.Pairwise D → (∀ x ∈ L, ∃ w ∈ M, Q x w) →
      (∀ x y w, D x y → Q x w → Q y w → False) → L.length ≤ M.length
  | [], _, _, _, _ => Nat.zero_le _
  | x :: L, M, hpw, hw, hinj => by
    rw [List.pairwise_cons] at hpw
    obtain ⟨w, hwM, hq⟩ := hw x (by simp)
    have := length_le_of_witness Q D L (M.erase w) hpw.2
      (by
        intro y hy
        obtain ⟨w', hw'M, hq'⟩ := hw y (by simp [hy])
        have hne : w' ≠ w := fun e => hinj x y w (hpw.1 y hy) hq (e ▸ hq')
        exact ⟨w', (List.mem_erase_of_ne hne).2 hw'M, hq'⟩)
      hinj
    rw [List.length_erase_of_mem hwM] at this
    have hpos : 0 < M.length := List.length_pos_of_mem hwM
    simp only [List.length_cons]; omega

theorem allPairsOK_pairwise (tips : List String) : ∀ l : List (List String),
    allPairsOK tips l = true → l.Pairwise (fun a b => pairOK tips a b = true)
  | [], _ => List.Pairwise.nil
  | a :: r, h => by
    simp only [allPairsOK, Bool.and_eq_true, List.all_eq_true] at h
    exact List.Pairwise.cons h.1 (allPairsOK_pairwise tips r h.2)

/-- In the result of the loop there are exactly as many inner branches as inner rows
    (no bipartition is represented twice, none is missing). -/
theorem inner_count (tips alltips : List String) (n : Nat) (sel : List Entry) (r : T)
    (tipv : List (String × Rat)) (hAT : SubS alltips tips)
    (hsel : selOK tips alltips sel = true)
    (inv : LoopInv tips r (innerRows alltips n sel) tipv) :
    ni r.splits = (innerRows alltips n sel).length := by
  apply Nat.le_antisymm inv.cnt
  -- the inner rows have pairwise different bipartitions
  unfold selOK at hsel
  simp only [Bool.and_eq_true] at hsel
  have hpw := allPairsOK_pairwise tips _ hsel.2
  have hnames : (innerRows alltips n sel).map (·.1) =
      (sel.map (rowNames alltips)).filter (fun s => decide (2 ≤ s.length)) := by
    unfold innerRows
    rw [List.map_map, List.filter_map]
    rfl
  rw [← hnames, List.pairwise_map] at hpw
  have hle := length_le_of_witness
    (fun (p : List String × Rat × Rat) (s : SplitE) => s.tip = false ∧ SameSide tips s.below p.1)
    (fun p q => pairOK tips p.1 q.1 = true ∧ SubS p.1 tips ∧ SubS q.1 tips)
    (innerRows alltips n sel) (r.splits.filter (fun s => !s.tip))
    (by
      refine hpw.imp_of_mem ?_
      intro p q hp hq h
      refine ⟨h, ?_, ?_⟩
      · obtain ⟨x, _, _, rfl⟩ := mem_innerRows'.1 hp
        exact fun a ha => hAT a (List.mem_filter.1 ha).1
      · obtain ⟨x, _, _, rfl⟩ := mem_innerRows'.1 hq
        exact fun a ha => hAT a (List.mem_filter.1 ha).1)
    (by
      intro p hp
      obtain ⟨s, hs, htip, hss, _, _⟩ := inv.j2 p hp
      exact ⟨s, List.mem_filter.2 ⟨hs, by simp [htip]⟩, htip, hss⟩)
    (by
      intro p q s ⟨hpair, hpT, hqT⟩ ⟨_, h1⟩ ⟨_, h2⟩
      -- both rows would be sides of the branch s: the same bipartition
      have hsame : SameSide tips p.1 q.1 := by
        -- symmetry and transitivity of SameSide through s.below
        rcases h1 with h1 | h1 <;> rcases h2 with h2 | h2
        · exact Or.inl fun a ha => (h1 a ha).symm.trans (h2 a ha)
        · exact Or.inr fun a ha => (h1 a ha).symm.trans (h2 a ha)
        · refine Or.inr fun a ha => ⟨fun hp hq => (h1 a ha).1 ((h2 a ha).2 hq) hp, fun hnq => ?_⟩
          apply Classical.byContradiction
          intro hnp
          exact hnq ((h2 a ha).1 ((h1 a ha).2 hnp))
        · refine Or.inl fun a ha => ⟨fun hp => ?_, fun hq => ?_⟩
          · apply Classical.byContradiction
            intro hnq
            exact (h1 a ha).1 ((h2 a ha).2 hnq) hp
          · apply Classical.byContradiction
            intro hnp
            exact (h2 a ha).1 ((h1 a ha).2 hnp) hq
      obtain ⟨_, n1, n2⟩ := (pairOK_iff tips p.1 q.1).1 hpair
      rcases hsame with h | h
      · exact n1 ⟨fun a ha => (h a (hpT a ha)).1 ha, fun a ha => (h a (hqT a ha)).2 ha⟩
      · exact n2 ⟨fun a ha hq => (h a (hpT a ha)).1 ha hq, fun a ha => by
          by_cases hp : a ∈ p.1
          · exact Or.inl hp
          · exact Or.inr (Classical.byContradiction fun hnq => hp ((h a ha).2 hnq))⟩)
  exact hle

end Gotree.C09
