/-
  C19 — helper lemmas about `run` / `finalValue` / `noConflict` (core Lean only).
-/
import Gotree.Spec.C19

namespace Gotree.C19

/-- reading a variable after the registrations `regs` ran on store `s`: the default of the last
    registration of that variable, else what the store held -/
theorem lookup_run (regs : List Reg) (s : Store) (v : Nat) :
    (run regs s).lookup v =
      match regs.reverse.find? (fun r => r.var == v) with
      | some r => some r.default
      | none => s.lookup v := by
  induction regs generalizing s with
  | nil => simp [run]
  | cons r rs ih =>
    simp only [run, ih, List.reverse_cons, List.find?_append]
    cases h : List.find? (fun r => r.var == v) rs.reverse with
    | some q => simp
    | none =>
      simp only [Option.none_or, List.find?_cons, List.find?_nil, register, List.lookup_cons]
      by_cases hv : r.var = v
      · subst hv; simp
      · have h1 : (r.var == v) = false := by simpa using hv
        have h2 : (v == r.var) = false := by simpa using (fun h => hv h.symm)
        simp [h1, h2]

/-- `finalValue` is "the default of the last registration of the variable" -/
theorem finalValue_eq (regs : List Reg) (v : Nat) :
    finalValue regs v = (regs.reverse.find? (fun r => r.var == v)).map (·.default) := by
  unfold finalValue
  rw [lookup_run]
  cases regs.reverse.find? (fun r => r.var == v) <;> simp

/-- whatever a variable holds at the end was the default of one of its registrations -/
theorem finalValue_some {regs : List Reg} {v : Nat} {d : String} (h : finalValue regs v = some d) :
    ∃ r ∈ regs, r.var = v ∧ r.default = d := by
  rw [finalValue_eq] at h
  cases hf : regs.reverse.find? (fun r => r.var == v) with
  | none => simp [hf] at h
  | some r =>
    simp [hf] at h
    have hm := List.mem_of_find?_eq_some hf
    have hp := List.find?_some hf
    exact ⟨r, by simpa using hm, by simpa using hp, h⟩

/-- a registered variable holds something at the end -/
theorem finalValue_isSome {regs : List Reg} {r : Reg} (h : r ∈ regs) :
    ∃ d, finalValue regs r.var = some d := by
  rw [finalValue_eq]
  cases hf : regs.reverse.find? (fun q => q.var == r.var) with
  | some q => exact ⟨q.default, by simp⟩
  | none =>
    have := List.find?_eq_none.mp hf r (by simpa using h)
    simp at this

theorem noConflict_iff (regs : List Reg) :
    noConflict regs = true ↔ ∀ r ∈ regs, ∀ s ∈ regs, r.var = s.var → r.default = s.default := by
  unfold noConflict
  simp only [List.all_eq_true, Bool.or_eq_true, bne_iff_ne, ne_eq, beq_iff_eq]
  constructor
  · intro h r hr s hs hv
    rcases h r hr s hs with h | h
    · exact absurd hv h
    · exact h
  · intro h r hr s hs
    by_cases hv : r.var = s.var
    · exact Or.inr (h r hr s hs hv)
    · exact Or.inl hv

theorem noConflict_perm {regs regs' : List Reg} (hp : regs'.Perm regs) :
    noConflict regs' = noConflict regs := by
  rw [Bool.eq_iff_iff, noConflict_iff, noConflict_iff]
  constructor
  · intro h r hr s hs; exact h r (hp.mem_iff.mpr hr) s (hp.mem_iff.mpr hs)
  · intro h r hr s hs; exact h r (hp.mem_iff.mp hr) s (hp.mem_iff.mp hs)

theorem noConflict_sublist {regs sub : List Reg} (hs : ∀ r ∈ sub, r ∈ regs) (h : noConflict regs = true) :
    noConflict sub = true := by
  rw [noConflict_iff] at *
  intro r hr s hs'; exact h r (hs r hr) s (hs s hs')

/-! ### stores up to what can be read from them -/

/-- two stores answer every read alike -/
def StoreEq (s s' : Store) : Prop := ∀ v, s.lookup v = s'.lookup v

theorem StoreEq.refl (s : Store) : StoreEq s s := fun _ => rfl

theorem setFlag_congr {s s' : Store} (h : StoreEq s s') (r : Reg) (x : String) :
    StoreEq (setFlag s r x) (setFlag s' r x) := by
  intro v
  simp only [setFlag, List.lookup_cons]
  cases v == r.var <;> simp [h v]

theorem parse_congr {s s' : Store} (h : StoreEq s s') (given : List (Reg × String)) :
    StoreEq (parse s given) (parse s' given) := by
  induction given generalizing s s' with
  | nil => exact h
  | cons g rest ih =>
    obtain ⟨r, x⟩ := g
    exact ih (setFlag_congr h r x)

/-- writing to a variable the value it already holds changes no read -/
theorem setFlag_same {s : Store} {r : Reg} {x : String} (h : s.lookup r.var = some x) :
    StoreEq (setFlag s r x) s := by
  intro v
  simp only [setFlag, List.lookup_cons]
  by_cases hv : v = r.var
  · subst hv; simp [h]
  · have : (v == r.var) = false := by simpa using hv
    simp [this]

theorem parse_append (s : Store) (a b : List (Reg × String)) : parse s (a ++ b) = parse (parse s a) b := by
  induction a generalizing s with
  | nil => rfl
  | cons g rest ih => obtain ⟨r, x⟩ := g; simp [parse, ih]

/-- options that do not bind variable `v` leave it alone -/
theorem parse_untouched (s : Store) (given : List (Reg × String)) (v : Nat)
    (h : ∀ g ∈ given, g.1.var ≠ v) : (parse s given).lookup v = s.lookup v := by
  induction given generalizing s with
  | nil => rfl
  | cons g rest ih =>
    obtain ⟨r, x⟩ := g
    have hr : r.var ≠ v := h (r, x) (List.mem_cons_self)
    have hne : (v == r.var) = false := by simpa using (fun e => hr e.symm)
    rw [parse, ih _ (fun g hg => h g (List.mem_cons_of_mem _ hg))]
    simp [setFlag, List.lookup_cons, hne]

theorem nearest_mem {l : List Reg} {q : Reg} (h : nearest l = some q) : q ∈ l := by
  induction l generalizing q with
  | nil => simp [nearest] at h
  | cons a rest ih =>
    simp only [nearest] at h
    cases hn : nearest rest with
    | none => simp [hn] at h; simp [h]
    | some b =>
      simp only [hn] at h
      by_cases hc : a.path.length ≥ b.path.length
      · simp [hc] at h; simp [h]
      · simp [hc] at h; subst h; exact List.mem_cons_of_mem _ (ih hn)

/-- the Spec's reading function is the model's `finalValue` -/
theorem readBy_eq (t : List Row) (r : Row) : readBy t r = finalValue t r.var := by
  rw [finalValue_eq]; rfl

theorem sharedAgree_eq (t : List Row) : sharedAgree t = noConflict t := by
  unfold sharedAgree noConflict peersOK
  congr 1; funext r; congr 1; funext s
  rw [Bool.eq_iff_iff]
  simp only [Bool.or_eq_true, bne_iff_ne, ne_eq, beq_iff_eq]
  constructor
  · intro h
    rcases h with h | h
    · exact Or.inl (fun e => h e.symm)
    · exact Or.inr h.symm
  · intro h
    rcases h with h | h
    · exact Or.inl (fun e => h e.symm)
    · exact Or.inr h.symm

end Gotree.C19
