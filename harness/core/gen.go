package core

import (
	"fmt"
	"math/rand"
)

// G is the single PRNG state of a harness run (seed = VERIF_SEED); it never
// touches the global math/rand source, which belongs to the code under test.
type G struct {
	R *rand.Rand
}

func NewG(seed int64) *G { return &G{R: rand.New(rand.NewSource(seed))} }

func (g *G) Intn(n int) int {
	if n <= 0 {
		return 0
	}
	return g.R.Intn(n)
}
func (g *G) Chance(p float64) bool { return g.R.Float64() < p }
func (g *G) Pick(xs []string) string { return xs[g.Intn(len(xs))] }

// TreeOpts steers the structured tree generator.
type TreeOpts struct {
	MinTips, MaxTips int
	Rooted           int     // 0 never, 1 always, 2 mixed
	Multif           float64 // probability that a node gets more than two children
	MaxDeg           int
	Lengths          int     // 0 none, 1 all present, 2 mixed (some absent), 3 all present incl. zeros
	Supports         int     // 0 none, 1 on all inner, 2 mixed
	InnerNames       float64 // probability of an inner name (excludes support on that node)
	Comments         float64 // probability of comments on a node / branch
	FunnyNames       bool    // tip names with blanks inside, quotes, numeric-looking …
	Singles          float64 // probability of inserting a single-child inner node
	TipPrefix        string
	LenDenom         int // lengths are multiples of 1/LenDenom (dyadic keeps float sums exact)
	LenMax           int // numerator bound
}

func DefaultOpts() TreeOpts {
	return TreeOpts{MinTips: 3, MaxTips: 12, Rooted: 2, Multif: 0.3, MaxDeg: 5, Lengths: 3, Supports: 2,
		InnerNames: 0.1, Comments: 0, TipPrefix: "t", LenDenom: 8, LenMax: 40}
}

// Shape kinds reported in the input distribution.
var ShapeNames = []string{"random", "caterpillar", "balanced", "star"}

func (g *G) tipName(o *TreeOpts, i int) string {
	if o.FunnyNames && g.Chance(0.3) {
		switch g.Intn(6) {
		case 0:
			return fmt.Sprintf("%d", 100+i) // numeric-looking tip
		case 1:
			return fmt.Sprintf("a b%d", i) // blank inside
		case 2:
			return fmt.Sprintf("x/y%d", i)
		case 3:
			return fmt.Sprintf("'q%d'", i)
		case 4:
			return fmt.Sprintf("é%d", i)
		default:
			return fmt.Sprintf("1e%d", i+1) // float-looking tip
		}
	}
	return fmt.Sprintf("%s%d", o.TipPrefix, i)
}

func (g *G) Length(o *TreeOpts) float64 {
	switch o.Lengths {
	case 0:
		return -1
	case 2:
		if g.Chance(0.15) {
			return -1
		}
	}
	if o.Lengths >= 2 && g.Chance(0.12) {
		return 0
	}
	lo := 1
	if o.Lengths == 3 {
		lo = 0
	}
	return float64(lo+g.Intn(o.LenMax)) / float64(o.LenDenom)
}

func (g *G) Support(o *TreeOpts) float64 {
	switch o.Supports {
	case 0:
		return -1
	case 2:
		if g.Chance(0.3) {
			return -1
		}
	}
	return float64(g.Intn(17)) / 16
}

// Tree draws a tree.  The returned shape index says which generator branch was used.
func (g *G) Tree(o TreeOpts) (*N, int) {
	n := o.MinTips
	if o.MaxTips > o.MinTips {
		n += g.Intn(o.MaxTips - o.MinTips + 1)
	}
	names := make([]string, n)
	perm := g.R.Perm(n)
	for i := range names {
		names[i] = g.tipName(&o, perm[i])
	}
	rooted := o.Rooted == 1 || (o.Rooted == 2 && g.Chance(0.4))
	shape := 0
	if r := g.Intn(10); r == 0 {
		shape = 1
	} else if r == 1 {
		shape = 2
	} else if r == 2 && !rooted {
		shape = 3
	}
	var root *N
	switch shape {
	case 1: // caterpillar
		root = g.caterpillar(&o, names, rooted)
	case 3:
		root = &N{}
		for _, nm := range names {
			root.Kids = append(root.Kids, &N{Name: nm})
		}
	default:
		mf := o.Multif
		if shape == 2 {
			mf = 0
		}
		root = g.split(&o, names, true, rooted, mf, shape == 2)
	}
	g.decorate(&o, root, true)
	if o.Singles > 0 {
		g.addSingles(&o, root)
	}
	return root, shape
}

func (g *G) caterpillar(o *TreeOpts, names []string, rooted bool) *N {
	// ((((a,b),c),d),e) ; unrooted: top has three children
	cur := &N{Kids: []*N{{Name: names[0]}, {Name: names[1]}}}
	for i := 2; i < len(names); i++ {
		if i == len(names)-1 && !rooted {
			cur.Kids = append(cur.Kids, &N{Name: names[i]})
		} else {
			cur = &N{Kids: []*N{cur, {Name: names[i]}}}
		}
	}
	if len(names) == 2 {
		return cur
	}
	return cur
}

func (g *G) split(o *TreeOpts, names []string, isRoot, rooted bool, mf float64, balanced bool) *N {
	if len(names) == 1 {
		return &N{Name: names[0]}
	}
	k := 2
	if isRoot && !rooted && len(names) >= 3 {
		k = 3
	}
	if g.Chance(mf) {
		maxk := o.MaxDeg
		if maxk > len(names) {
			maxk = len(names)
		}
		if maxk > k {
			k += g.Intn(maxk - k + 1)
		}
	}
	if k > len(names) {
		k = len(names)
	}
	// random composition of len(names) into k non-empty parts
	sizes := make([]int, k)
	for i := range sizes {
		sizes[i] = 1
	}
	if balanced {
		for i := 0; i < len(names)-k; i++ {
			sizes[i%k]++
		}
	} else {
		for i := 0; i < len(names)-k; i++ {
			sizes[g.Intn(k)]++
		}
	}
	n := &N{}
	off := 0
	for _, s := range sizes {
		n.Kids = append(n.Kids, g.split(o, names[off:off+s], false, rooted, mf, balanced))
		off += s
	}
	return n
}

func (g *G) decorate(o *TreeOpts, n *N, isRoot bool) {
	if !isRoot {
		n.E = NewE()
		n.E.Len = g.Length(o)
	}
	inner := len(n.Kids) > 0
	if inner {
		if g.Chance(o.InnerNames) {
			n.Name = fmt.Sprintf("N%d", g.Intn(1000))
		} else if !isRoot {
			n.E.Sup = g.Support(o)
		}
	}
	if g.Chance(o.Comments) {
		n.Comments = append(n.Comments, g.comment())
		if g.Chance(0.3) {
			n.Comments = append(n.Comments, g.comment())
		}
	}
	if !isRoot && n.E.Len != -1 && g.Chance(o.Comments) {
		n.E.Comments = append(n.E.Comments, g.comment())
	}
	for _, k := range n.Kids {
		g.decorate(o, k, false)
	}
}

func (g *G) comment() string {
	c := []string{"&x=1", "c", "a b", "&&NHX:S=x", "k;(),:[", ""}
	return c[g.Intn(len(c))]
}

func (g *G) addSingles(o *TreeOpts, n *N) {
	for i, k := range n.Kids {
		g.addSingles(o, k)
		if g.Chance(o.Singles) {
			mid := &N{E: NewE(), Kids: []*N{k}}
			mid.E.Len = g.Length(o)
			n.Kids[i] = mid
		}
	}
}

// NumberEdges gives branch ids in pre-order, like the Newick parser does.
func NumberEdges(n *N) {
	id := 0
	var rec func(x *N)
	rec = func(x *N) {
		for _, k := range x.Kids {
			k.E.Id = id
			id++
			rec(k)
		}
	}
	rec(n)
}
