/-
  C15 — Clone / SubTree on the heap.  A copy is a heap program that writes ONLY cells it has
  allocated itself; when moreover every reference it stores is one of its own cells — which is
  what table (d) decides (`allRefFieldsFresh`) — nothing reachable from the new root existed
  before: the copy is disjoint from its source (and from everything else), and the source is
  untouched.  With a `shared` field in the table the stored reference is a path into the
  source, and the statement fails (that is F-like defect "CopyNode shares the comment slice").
  Core Lean only.
-/
import Gotree.Lemmas.C15HeapProg
import Gotree.Model.C15

namespace Gotree.C15.Heap
open Gotree Gotree.C15

structure FInv (h0 h : H) : Prop where
  le : h0.next ≤ h.next
  old : ∀ a, a < h0.next → h.ptrs a = h0.ptrs a ∧ h.data a = h0.data a
  own : ∀ a, h0.next ≤ a → a < h.next → ∀ b ∈ h.ptrs a, h0.next ≤ b ∧ b < h.next

theorem resolve_fresh {h : H} {r base : Addr} {s : Src} {a : Addr} (hs : s.isFresh = true)
    (hr : resolve h r base s = some a) : base ≤ a ∧ a < h.next := by
  cases s with
  | path p => simp [Src.isFresh] at hs
  | fresh k =>
    simp only [resolve] at hr
    split at hr
    · rename_i hlt
      injection hr with hr
      subst hr
      exact ⟨Nat.le_add_right _ _, hlt⟩
    · cases hr

theorem resolveAll_fresh {h : H} {r base : Addr} : ∀ (l : List Src) (bs : List Addr), l.all Src.isFresh = true →
    resolveAll h r base l = some bs → ∀ b ∈ bs, base ≤ b ∧ b < h.next
  | [], bs, _, hr, b, hb => by simp [resolveAll] at hr; subst hr; cases hb
  | s :: l, bs, hf, hr, b, hb => by
    simp only [List.all_cons, Bool.and_eq_true] at hf
    simp only [resolveAll] at hr
    split at hr
    · rename_i a as ha has
      injection hr with hr
      subst hr
      rcases List.mem_cons.mp hb with rfl | hb
      · exact resolve_fresh hf.1 ha
      · exact resolveAll_fresh l as hf.2 has b hb
    · cases hr

theorem step_finv {h0 h : H} {r : Addr} (hi : FInv h0 h) (o : Op) (ht : o.freshTarget = true) (hr : o.freshRefs = true) :
    FInv h0 (step r h0.next h o) := by
  cases o with
  | setData t v =>
    simp only [step]
    split
    · rename_i a hres
      have ha := resolve_fresh (by simpa [Op.freshTarget] using ht) hres
      refine ⟨hi.le, fun x hx => ?_, fun x h1 h2 b hb => hi.own x h1 h2 b hb⟩
      have hne : x ≠ a := Nat.ne_of_lt (Nat.lt_of_lt_of_le hx ha.1)
      simp [setDataAt, hne, hi.old x hx]
    · exact hi
  | setPtrs t l =>
    simp only [step]
    split
    · rename_i a bs hres hall
      have ha := resolve_fresh (by simpa [Op.freshTarget] using ht) hres
      have hbs := resolveAll_fresh l bs (by simpa [Op.freshRefs] using hr) hall
      refine ⟨hi.le, fun x hx => ?_, fun x h1 h2 b hb => ?_⟩
      · have hne : x ≠ a := Nat.ne_of_lt (Nat.lt_of_lt_of_le hx ha.1)
        simp [setPtrsAt, hne, hi.old x hx]
      · by_cases hxa : x = a
        · simp only [setPtrsAt, hxa, if_true] at hb
          exact hbs b hb
        · simp only [setPtrsAt, hxa, if_false] at hb
          exact hi.own x h1 h2 b hb
    · exact hi
  | copyData t s0 =>
    simp only [step]
    split
    · rename_i a b hres _
      have ha := resolve_fresh (by simpa [Op.freshTarget] using ht) hres
      refine ⟨hi.le, fun x hx => ?_, fun x h1 h2 b hb => hi.own x h1 h2 b hb⟩
      have hne : x ≠ a := Nat.ne_of_lt (Nat.lt_of_lt_of_le hx ha.1)
      simp [setDataAt, hne, hi.old x hx]
    · exact hi
  | alloc =>
    simp only [step]
    have hle := hi.le
    refine ⟨Nat.le_succ_of_le hi.le, fun x hx => ?_, fun x h1 h2 b hb => ?_⟩
    · have hne : x ≠ h.next := Nat.ne_of_lt (Nat.lt_of_lt_of_le hx hle)
      simp [allocCell, hne, hi.old x hx]
    · by_cases hxn : x = h.next
      · simp [allocCell, hxn] at hb
      · simp only [allocCell, hxn, if_false] at hb
        have h2' : x < h.next := Nat.lt_of_le_of_ne (Nat.le_of_lt_succ h2) hxn
        have := hi.own x h1 h2' b hb
        exact ⟨this.1, Nat.lt_succ_of_lt this.2⟩

theorem exec_finv {h0 : H} {r : Addr} : ∀ (os : List Op) (h : H), FInv h0 h →
    (∀ o ∈ os, o.freshTarget = true ∧ o.freshRefs = true) → FInv h0 (exec r h0.next os h)
  | [], _, hi, _ => hi
  | o :: os, h, hi, ho =>
    exec_finv os _ (step_finv hi o (ho o (by simp)).1 (ho o (by simp)).2) (fun o' ho' => ho o' (by simp [ho']))

theorem reach_own {h0 h : H} (hi : FInv h0 h) (c : Addr) (hc : h0.next ≤ c ∧ c < h.next) :
    ∀ a, Reach h c a → h0.next ≤ a ∧ a < h.next := by
  intro a ha
  induction ha with
  | root => exact hc
  | step _ hb ih => exact hi.own _ ih.1 ih.2 _ hb

theorem reach_old {h0 h : H} (hi : FInv h0 h) (r' : Addr) (ha' : Alloc h0 r') : ∀ a, Reach h r' a ↔ Reach h0 r' a := by
  have hs : SameOn h0 h r' := fun a hra => hi.old a (ha' a hra)
  exact fun a => ⟨reach_back hs a, reach_of_sameOn hs a⟩

/-- ★ a program that writes only its own cells and stores only references to its own cells builds,
    at any of its cells `c`, a structure disjoint from every tree `r'` that existed before — and leaves
    that tree exactly as it was -/
theorem fresh_prog_disjoint (r : Addr) (os : List Op) (h0 : H)
    (hos : ∀ o ∈ os, o.freshTarget = true ∧ o.freshRefs = true) (r' : Addr) (ha' : Alloc h0 r')
    (c : Addr) (hc : h0.next ≤ c ∧ c < (exec r h0.next os h0).next) :
    Disjoint (exec r h0.next os h0) c r' ∧ SameOn h0 (exec r h0.next os h0) r' ∧
    (∀ a, Reach (exec r h0.next os h0) r' a ↔ Reach h0 r' a) ∧ Alloc (exec r h0.next os h0) c := by
  have hi : FInv h0 (exec r h0.next os h0) :=
    exec_finv os h0 ⟨Nat.le_refl _, fun _ _ => ⟨rfl, rfl⟩, fun a h1 h2 => absurd h2 (Nat.not_lt.mpr h1)⟩ hos
  refine ⟨fun a hca hra => ?_, fun a hra => hi.old a (ha' a hra), reach_old hi r' ha', fun a hca => (reach_own hi c hc a hca).2⟩
  have h1 := (reach_own hi c hc a hca).1
  have h2 := ha' a ((reach_old hi r' ha' a).mp hra)
  exact absurd h2 (Nat.not_lt.mpr h1)

/-! ## the copy of `copyTreeRecur` as a heap program

  Layout of the cells (reference fields, in this order):
    Tree  : [root node, tip index]              Node : [comment array, neigh array, br array]
    Edge  : [left, right, comment array, bitset] arrays : their elements
  Every node of the copy takes 4 fresh cells (struct + 3 arrays), every branch 3 (struct,
  comment array, bitset). -/

theorem refSrc_fresh (own : Nat) (p : List Nat) : (refSrc false own p).isFresh = true := by simp [refSrc, Src.isFresh]

theorem all_fresh_map {α : Type} (l : List α) (f : α → Nat) : (l.map fun x => Src.fresh (f x)).all Src.isFresh = true := by
  induction l with
  | nil => rfl
  | cons a r ih => simp [Src.isFresh, ih]

mutual
theorem copyNodeOps_fresh : ∀ (t : T) (sp : List Nat) (isRoot : Bool) (up : Option (Nat × Nat)) (k : Nat),
    ∀ o ∈ (copyNodeOps Plan.none t sp isRoot up k).1, o.freshTarget = true ∧ o.freshRefs = true
  | .node d pp kids, sp, isRoot, up, k => by
    intro o ho
    simp only [copyNodeOps] at ho
    rcases List.mem_append.mp ho with ho | ho
    · rcases List.mem_append.mp ho with ho | ho
      · simp only [List.mem_cons, List.not_mem_nil, or_false] at ho
        rcases ho with rfl | rfl | rfl | rfl | rfl | rfl | rfl
        · exact ⟨rfl, rfl⟩
        · exact ⟨rfl, rfl⟩
        · exact ⟨rfl, rfl⟩
        · exact ⟨rfl, rfl⟩
        · simp [Op.freshTarget, Op.freshRefs, Src.isFresh, Plan.none, refSrc]
        · exact ⟨rfl, rfl⟩
        · exact ⟨rfl, rfl⟩
      · exact copyKidsOps_fresh kids sp isRoot pp 0 k (k + 4) o ho
    · simp only [List.mem_cons, List.not_mem_nil, or_false] at ho
      rcases ho with rfl | rfl
      · refine ⟨rfl, ?_⟩
        simp only [Op.freshRefs, List.all_append, all_fresh_map, Bool.and_true]
        cases up <;> simp [Src.isFresh]
      · refine ⟨rfl, ?_⟩
        simp only [Op.freshRefs, List.all_append, all_fresh_map, Bool.and_true]
        cases up <;> simp [Src.isFresh]
theorem copyKidsOps_fresh : ∀ (kids : Kids) (sp : List Nat) (isRoot : Bool) (pp i parent k : Nat),
    ∀ o ∈ (copyKidsOps Plan.none kids sp isRoot pp i parent k).1, o.freshTarget = true ∧ o.freshRefs = true
  | [], _, _, _, _, _, _ => by simp [copyKidsOps]
  | (e, t) :: rest, sp, isRoot, pp, i, parent, k => by
    intro o ho
    simp only [copyKidsOps] at ho
    rcases List.mem_append.mp ho with ho | ho
    · rcases List.mem_append.mp ho with ho | ho
      · rcases List.mem_append.mp ho with ho | ho
        · simp only [List.mem_cons, List.not_mem_nil, or_false] at ho
          rcases ho with rfl | rfl | rfl <;> exact ⟨rfl, rfl⟩
        · exact copyNodeOps_fresh t _ false _ (k + 3) o ho
      · simp only [List.mem_cons, List.not_mem_nil, or_false] at ho
        rcases ho with rfl | rfl | rfl | rfl
        · simp [Op.freshTarget, Op.freshRefs, Src.isFresh, Plan.none, refSrc]
        · exact ⟨rfl, rfl⟩
        · exact ⟨rfl, rfl⟩
        · exact ⟨rfl, rfl⟩
    · exact copyKidsOps_fresh rest sp isRoot pp (i + 1) parent _ o ho
end

theorem sharedIn_false_of_fresh {tb : Table} {rf : RecurFacts} (h : allRefFieldsFresh tb rf = true)
    (owner name : String) (hk : ∀ f ∈ tb, f.owner = owner → f.name = name → f.kind.isRef = true) :
    sharedIn tb owner name = false := by
  simp only [allRefFieldsFresh, Bool.and_eq_true, List.all_eq_true] at h
  have h1 := h.1.1.1.1.1
  simp only [sharedIn, List.any_eq_false, Bool.and_eq_true, beq_iff_eq, not_and]
  intro f hf ho hs
  have := h1 f hf
  have hr := hk f hf ho.1 ho.2
  simp [hr, hs] at this

theorem step_next_mono (r base : Addr) (h : H) (o : Op) : h.next ≤ (step r base h o).next := by
  cases o with
  | setData t v => simp only [step]; split <;> exact Nat.le_refl _
  | setPtrs t l => simp only [step]; split <;> exact Nat.le_refl _
  | copyData t s => simp only [step]; split <;> exact Nat.le_refl _
  | alloc => exact Nat.le_succ _

theorem exec_next_mono (r base : Addr) : ∀ (os : List Op) (h : H), h.next ≤ (exec r base os h).next
  | [], _ => Nat.le_refl _
  | o :: os, h => Nat.le_trans (step_next_mono r base h o) (exec_next_mono r base os _)

/-- the first cell a copy allocates is the struct of its root node -/
theorem cloneOps_cons (tb : Table) (t : T) (sp : List Nat) : ∃ rest, cloneOps tb t sp = Op.alloc :: rest := by
  cases t with
  | node d pp kids => exact ⟨_, rfl⟩

theorem cloneOpsAt_cons (tb : Table) (t : T) (sp : List Nat) (b : Bool) : ∃ rest, cloneOpsAt tb t sp b = Op.alloc :: rest := by
  cases t with
  | node d pp kids => exact ⟨_, rfl⟩

theorem cloneOps_root_allocated (tb : Table) (t : T) (sp : List Nat) (r : Addr) (h0 : H) :
    h0.next < (exec r h0.next (cloneOps tb t sp) h0).next := by
  obtain ⟨rest, hr⟩ := cloneOps_cons tb t sp
  rw [hr]
  show h0.next < (exec r h0.next rest (allocCell h0)).next
  exact Nat.lt_of_lt_of_le (Nat.lt_succ_self _) (exec_next_mono r h0.next rest (allocCell h0))

theorem disjoint_symm {h : H} {r r' : Addr} (hd : Disjoint h r r') : Disjoint h r' r :=
  fun a ha hb => hd a hb ha

/-- ★ Clone / SubTree with a table that shares nothing, then ANY history of heap programs run on the
    copy: the source keeps every cell content and its set of cells; and the same with the roles
    exchanged (edits of the source never reach the copy). -/
theorem clone_then_edit_frame (tb : Table) (hp : planOf tb = Plan.none) (t : T) (sp : List Nat)
    (src : Addr) (h0 : H) (hsrc : Alloc h0 src) (progs : List (H → List Op)) :
    let h1 := exec src h0.next (cloneOps tb t sp) h0
    let cp := h0.next
    (SameOn h0 h1 src ∧ Disjoint h1 cp src) ∧
    (SameOn h1 (run (progs.map (runProg cp)) h1) src ∧ Disjoint (run (progs.map (runProg cp)) h1) cp src) ∧
    (SameOn h1 (run (progs.map (runProg src)) h1) cp ∧ Disjoint (run (progs.map (runProg src)) h1) src cp) := by
  intro h1 cp
  have hfresh : ∀ o ∈ cloneOps tb t sp, o.freshTarget = true ∧ o.freshRefs = true := by
    simp only [cloneOps, cloneOpsAt, hp]; exact copyNodeOps_fresh t sp true none 0
  have hc : h0.next ≤ cp ∧ cp < h1.next := ⟨Nat.le_refl _, cloneOps_root_allocated tb t sp src h0⟩
  obtain ⟨hd, hs, hiff, hacp⟩ := fresh_prog_disjoint src (cloneOps tb t sp) h0 hfresh src hsrc cp hc
  have hasrc : Alloc h1 src := fun a ha =>
    Nat.lt_of_lt_of_le (hsrc a ((hiff a).mp ha)) (exec_next_mono src h0.next _ h0)
  have f1 := progs_frame (r := cp) (r' := src) progs h1 hacp hasrc hd
  have f2 := progs_frame (r := src) (r' := cp) progs h1 hasrc hacp (disjoint_symm hd)
  exact ⟨⟨hs, hd⟩, ⟨f1.1, f1.2.2⟩, ⟨f2.1, f2.2.2⟩⟩

/-- the same for `SubTree` at a node that is not the root of the source -/
theorem subtree_then_edit_frame (tb : Table) (hp : planOf tb = Plan.none) (t : T) (sp : List Nat) (b : Bool)
    (src : Addr) (h0 : H) (hsrc : Alloc h0 src) (progs : List (H → List Op)) :
    let h1 := exec src h0.next (cloneOpsAt tb t sp b) h0
    let cp := h0.next
    (SameOn h0 h1 src ∧ Disjoint h1 cp src) ∧
    (SameOn h1 (run (progs.map (runProg cp)) h1) src ∧ Disjoint (run (progs.map (runProg cp)) h1) cp src) ∧
    (SameOn h1 (run (progs.map (runProg src)) h1) cp ∧ Disjoint (run (progs.map (runProg src)) h1) src cp) := by
  intro h1 cp
  have hfresh : ∀ o ∈ cloneOpsAt tb t sp b, o.freshTarget = true ∧ o.freshRefs = true := by
    simp only [cloneOpsAt, hp]; exact copyNodeOps_fresh t sp b none 0
  have hlt : h0.next < h1.next := by
    obtain ⟨rest, hr⟩ := cloneOpsAt_cons tb t sp b
    show h0.next < (exec src h0.next (cloneOpsAt tb t sp b) h0).next
    rw [hr]
    show h0.next < (exec src h0.next rest (allocCell h0)).next
    exact Nat.lt_of_lt_of_le (Nat.lt_succ_self _) (exec_next_mono src h0.next rest (allocCell h0))
  have hc : h0.next ≤ cp ∧ cp < h1.next := ⟨Nat.le_refl _, hlt⟩
  obtain ⟨hd, hs, hiff, hacp⟩ := fresh_prog_disjoint src (cloneOpsAt tb t sp b) h0 hfresh src hsrc cp hc
  have hasrc : Alloc h1 src := fun a ha =>
    Nat.lt_of_lt_of_le (hsrc a ((hiff a).mp ha)) (exec_next_mono src h0.next _ h0)
  have f1 := progs_frame (r := cp) (r' := src) progs h1 hacp hasrc hd
  have f2 := progs_frame (r := src) (r' := cp) progs h1 hasrc hacp (disjoint_symm hd)
  exact ⟨⟨hs, hd⟩, ⟨f1.1, f1.2.2⟩, ⟨f2.1, f2.2.2⟩⟩

/-! ## executable side: the model copy against the pointer graph the harness read off the real copy -/

end Gotree.C15.Heap
