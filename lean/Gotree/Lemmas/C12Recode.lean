/-
  C12 — re-coding invariance of the MODEL itself: if the tip slices of a second coding (k2 states)
  are the images of those of a first coding (k1 states) under an injection `enc` (left inverse
  `dec`), then every slice the three algorithms compute corresponds in the same way, and the
  numbers of steps are equal.  This is "ASR agrees site by site with ACR".
-/
import Gotree.Lemmas.C12AccTips

namespace Gotree.C12
open Gotree

/-- least-upper-bound characterisation of the `max` loop -/
theorem maxTo_le_iff (h : Nat → Nat) (M : Nat) : ∀ n, maxTo h n ≤ M ↔ ∀ i, i < n → h i ≤ M
  | 0 => by simp [maxTo]
  | n + 1 => by
    have ih := maxTo_le_iff h M n
    unfold maxTo
    constructor
    · intro hle i hi
      by_cases hin : i = n
      · subst hin; split at hle <;> omega
      · have : maxTo h n ≤ M := by split at hle <;> omega
        exact ih.mp this i (by omega)
    · intro hall
      have h1 := ih.mpr (fun i hi => hall i (by omega))
      have h2 := hall n (by omega)
      split <;> omega

section recode
variable (k1 k2 : Nat) (enc dec : Nat → Nat)

/-- `v2` is `v1` transported along `enc` (0 outside the image) -/
def Rel (v1 v2 : Vec) : Prop :=
  ∀ b, b < k2 → v2.at b = if enc (dec b) = b then v1.at (dec b) else 0

structure Coding : Prop where
  henc : ∀ a, a < k1 → enc a < k2
  hdec : ∀ b, b < k2 → dec b < k1
  hinv : ∀ a, a < k1 → dec (enc a) = a

variable {k1 k2 enc dec}

theorem Rel.at_enc (C : Coding k1 k2 enc dec) {v1 v2 : Vec} (h : Rel k2 enc dec v1 v2) (a : Nat) (ha : a < k1) :
    v2.at (enc a) = v1.at a := by
  have := h (enc a) (C.henc a ha)
  rw [C.hinv a ha] at this
  simpa using this

theorem rel_vzero : Rel k2 enc dec (vzero k1) (vzero k2) := by
  intro b _; simp [at_vzero]

theorem rel_vadd (C : Coding k1 k2 enc dec) {x1 x2 y1 y2 : Vec} (hx : Rel k2 enc dec x1 x2) (hy : Rel k2 enc dec y1 y2) :
    Rel k2 enc dec (vadd k1 x1 y1) (vadd k2 x2 y2) := by
  intro b hb
  have := hx b hb; have := hy b hb
  simp only [at_vadd, hb, C.hdec b hb, if_true]
  split <;> simp_all

theorem rel_maxTo (C : Coding k1 k2 enc dec) {v1 v2 : Vec} (h : Rel k2 enc dec v1 v2) :
    maxTo v2.at k2 = maxTo v1.at k1 := by
  apply Nat.le_antisymm
  · rw [maxTo_le_iff]
    intro b hb
    rw [h b hb]
    split
    · exact le_maxTo _ k1 _ (C.hdec b hb)
    · omega
  · rw [maxTo_le_iff]
    intro a ha
    rw [← h.at_enc C a ha]
    exact le_maxTo _ k2 _ (C.henc a ha)

/-- some entry below `k` is non-zero -/
def NZ (k : Nat) (v : Vec) : Prop := ∃ a, a < k ∧ v.at a ≠ 0

theorem maxTo_pos {k : Nat} {v : Vec} (h : NZ k v) : 0 < maxTo v.at k := by
  obtain ⟨a, ha, hne⟩ := h
  have := le_maxTo v.at k a ha
  omega

theorem cp_nz (k : Nat) (hk : 0 < k) (v : Vec) : NZ k (cp k v) := by
  obtain ⟨hi, he⟩ := argTo_fst v.at k hk
  exact ⟨_, hi, by simp only [cp, at_tab, hi, if_true, he]; simp⟩

theorem rel_cp (C : Coding k1 k2 enc dec) {v1 v2 : Vec} (h : Rel k2 enc dec v1 v2) (hnz : NZ k1 v1) :
    Rel k2 enc dec (cp k1 v1) (cp k2 v2) := by
  intro b hb
  have hm := rel_maxTo C h
  have hpos := maxTo_pos hnz
  simp only [cp, at_tab, hb, C.hdec b hb, if_true, hm]
  rw [h b hb]
  split
  · rfl
  · have : ¬ (0 = maxTo v1.at k1) := by omega
    simp [this]

theorem rel_inter (C : Coding k1 k2 enc dec) {s1 s2 p1 p2 : Vec} (hs : Rel k2 enc dec s1 s2) (hp : Rel k2 enc dec p1 p2) :
    Rel k2 enc dec (inter k1 s1 p1) (inter k2 s2 p2) := by
  have hsum := rel_vadd C hs hp
  rcases inter_cases k1 s1 p1 with ⟨⟨a0, ha0, hgt1⟩, heq1⟩ | ⟨hle1, heq1⟩
  · rcases inter_cases k2 s2 p2 with ⟨_, heq2⟩ | ⟨hle2, _⟩
    · rw [heq1, heq2]
      intro b hb
      simp only [at_tab, hb, C.hdec b hb, if_true]
      rw [hsum b hb]
      split <;> simp
    · exfalso
      have := hle2 (enc a0) (C.henc a0 ha0)
      rw [hs.at_enc C a0 ha0, hp.at_enc C a0 ha0] at this
      omega
  · rcases inter_cases k2 s2 p2 with ⟨⟨b0, hb0, hgt2⟩, _⟩ | ⟨_, heq2⟩
    · exfalso
      rw [hs b0 hb0, hp b0 hb0] at hgt2
      split at hgt2
      · have := hle1 (dec b0) (C.hdec b0 hb0); omega
      · omega
    · rw [heq1, heq2]; exact hs

end recode

section recodeTree
variable (k1 k2 : Nat) (enc dec : Nat → Nat) (tv1 tv2 : String → Vec)

/- the annotated trees of the two runs correspond slice by slice -/
mutual
def RelA : A → A → Prop
  | .node s1 ks1, .node s2 ks2 => Rel k2 enc dec s1 s2 ∧ RelAL ks1 ks2
def RelAL : List A → List A → Prop
  | [], [] => True
  | a1 :: r1, a2 :: r2 => RelA a1 a2 ∧ RelAL r1 r2
  | _, _ => False
end

mutual
theorem RelA.get : ∀ (a1 a2 : A), RelA k2 enc dec a1 a2 → ∀ (p : List Nat) (v1 v2 : Vec),
    a1.get p = some v1 → a2.get p = some v2 → Rel k2 enc dec v1 v2
  | .node s1 ks1, .node s2 ks2, h, [], v1, v2, h1, h2 => by
    simp only [RelA] at h
    simp only [A.get, Option.some.injEq] at h1 h2
    subst h1; subst h2; exact h.1
  | .node s1 ks1, .node s2 ks2, h, i :: p, v1, v2, h1, h2 => by
    simp only [RelA] at h
    simp only [A.get] at h1 h2
    exact RelAL.get ks1 ks2 h.2 i p v1 v2 h1 h2
theorem RelAL.get : ∀ (l1 l2 : List A), RelAL k2 enc dec l1 l2 → ∀ (i : Nat) (p : List Nat) (v1 v2 : Vec),
    A.getL l1 i p = some v1 → A.getL l2 i p = some v2 → Rel k2 enc dec v1 v2
  | [], [], _, _, _, _, _, h1, _ => by simp [A.getL] at h1
  | [], _ :: _, h, _, _, _, _, _, _ => by simp [RelAL] at h
  | _ :: _, [], h, _, _, _, _, _, _ => by simp [RelAL] at h
  | a1 :: r1, a2 :: r2, h, 0, p, v1, v2, h1, h2 => by
    simp only [RelAL] at h
    simp only [A.getL] at h1 h2
    exact RelA.get a1 a2 h.1 p v1 v2 h1 h2
  | a1 :: r1, a2 :: r2, h, i + 1, p, v1, v2, h1, h2 => by
    simp only [RelAL] at h
    simp only [A.getL] at h1 h2
    exact RelAL.get r1 r2 h.2 i p v1 v2 h1 h2
end

/-- the parent slices handed down correspond -/
def RelOpt : Option Vec → Option Vec → Prop
  | none, none => True
  | some u1, some u2 => Rel k2 enc dec u1 u2
  | _, _ => False

variable {k1 k2 enc dec}

/- DELTRAN and ACCTRAN preserve the correspondence -/
mutual
theorem deltran_rel (C : Coding k1 k2 enc dec) : ∀ (a1 a2 : A) (q1 q2 : Option Vec), RelOpt k2 enc dec q1 q2 →
    RelA k2 enc dec a1 a2 → RelA k2 enc dec (deltran k1 q1 a1) (deltran k2 q2 a2)
  | .node s1 [], .node s2 [], _, _, _, h => by simpa [deltran, RelA, RelAL] using h
  | .node s1 [], .node s2 (_ :: _), _, _, _, h => by simp [RelA, RelAL] at h
  | .node s1 (_ :: _), .node s2 [], _, _, _, h => by simp [RelA, RelAL] at h
  | .node s1 (c1 :: r1), .node s2 (c2 :: r2), none, none, _, h => by
    simp only [RelA] at h
    simp only [deltran, RelA]
    exact ⟨h.1, deltranL_rel C (c1 :: r1) (c2 :: r2) _ _ h.1 h.2⟩
  | .node s1 (c1 :: r1), .node s2 (c2 :: r2), some u1, some u2, hq, h => by
    simp only [RelA] at h
    have hs' := rel_inter C h.1 hq
    simp only [deltran, RelA]
    exact ⟨hs', deltranL_rel C (c1 :: r1) (c2 :: r2) _ _ hs' h.2⟩
  | .node s1 (c1 :: r1), .node s2 (c2 :: r2), none, some _, hq, _ => by simp [RelOpt] at hq
  | .node s1 (c1 :: r1), .node s2 (c2 :: r2), some _, none, hq, _ => by simp [RelOpt] at hq
theorem deltranL_rel (C : Coding k1 k2 enc dec) : ∀ (l1 l2 : List A) (q1 q2 : Option Vec), RelOpt k2 enc dec q1 q2 →
    RelAL k2 enc dec l1 l2 → RelAL k2 enc dec (deltranL k1 q1 l1) (deltranL k2 q2 l2)
  | [], [], _, _, _, _ => by simp [deltranL, RelAL]
  | [], _ :: _, _, _, _, h => by simp [RelAL] at h
  | _ :: _, [], _, _, _, h => by simp [RelAL] at h
  | a1 :: r1, a2 :: r2, q1, q2, hq, h => by
    simp only [RelAL] at h
    simp only [deltranL, RelAL]
    exact ⟨deltran_rel C a1 a2 q1 q2 hq h.1, deltranL_rel C r1 r2 q1 q2 hq h.2⟩
end

mutual
theorem acctran_rel (C : Coding k1 k2 enc dec) : ∀ (a1 a2 : A) (q1 q2 : Option Vec), RelOpt k2 enc dec q1 q2 →
    RelA k2 enc dec a1 a2 → RelA k2 enc dec (acctran k1 q1 a1) (acctran k2 q2 a2)
  | .node s1 [], .node s2 [], _, _, _, h => by simpa [acctran, RelA, RelAL] using h
  | .node s1 [], .node s2 (_ :: _), _, _, _, h => by simp [RelA, RelAL] at h
  | .node s1 (_ :: _), .node s2 [], _, _, _, h => by simp [RelA, RelAL] at h
  | .node s1 (c1 :: r1), .node s2 (c2 :: r2), none, none, _, h => by
    simp only [RelA] at h
    simp only [acctran, RelA]
    exact ⟨h.1, acctranL_rel C (c1 :: r1) (c2 :: r2) _ _ h.1 h.2⟩
  | .node s1 (c1 :: r1), .node s2 (c2 :: r2), some u1, some u2, hq, h => by
    simp only [RelA] at h
    have hs' := rel_inter C h.1 hq
    simp only [acctran, RelA]
    exact ⟨hs', acctranL_rel C (c1 :: r1) (c2 :: r2) _ _ hs' h.2⟩
  | .node s1 (c1 :: r1), .node s2 (c2 :: r2), none, some _, hq, _ => by simp [RelOpt] at hq
  | .node s1 (c1 :: r1), .node s2 (c2 :: r2), some _, none, hq, _ => by simp [RelOpt] at hq
theorem acctranL_rel (C : Coding k1 k2 enc dec) : ∀ (l1 l2 : List A) (q1 q2 : Option Vec), RelOpt k2 enc dec q1 q2 →
    RelAL k2 enc dec l1 l2 → RelAL k2 enc dec (acctranL k1 q1 l1) (acctranL k2 q2 l2)
  | [], [], _, _, _, _ => by simp [acctranL, RelAL]
  | [], _ :: _, _, _, _, h => by simp [RelAL] at h
  | _ :: _, [], _, _, _, h => by simp [RelAL] at h
  | a1 :: r1, a2 :: r2, q1, q2, hq, h => by
    simp only [RelAL] at h
    simp only [acctranL, RelAL]
    exact ⟨acctran_rel C a1 a2 q1 q2 hq h.1, acctranL_rel C r1 r2 q1 q2 hq h.2⟩
end

/-- the tip slices correspond and are non-empty -/
def TipRel (n : String) : Prop := Rel k2 enc dec (tv1 n) (tv2 n) ∧ NZ k1 (tv1 n)

variable {tv1 tv2}

/- UPPASS -/
theorem up_rel_list (C : Coding k1 k2 enc dec) : ∀ (ks : Kids),
    (∀ et ∈ ks, Rel k2 enc dec (upS k1 tv1 et.2) (upS k2 tv2 et.2)) →
    Rel k2 enc dec (sumL k1 tv1 ks) (sumL k2 tv2 ks)
  | [], _ => by simp only [sumL]; exact rel_vzero
  | (e, c) :: r, h => by
    simp only [sumL]
    exact rel_vadd C (h (e, c) (List.mem_cons_self ..)) (up_rel_list C r (fun et het => h et (List.mem_cons_of_mem _ het)))

theorem upS_nz (hk1 : 0 < k1) (c : T) (hl : ∀ n ∈ c.leaves, NZ k1 (tv1 n)) : NZ k1 (upS k1 tv1 c) := by
  match c, hl with
  | .node d p [], hl => simp only [upS]; exact hl d.name (by simp [T.leaves])
  | .node d p (x :: xs), _ => simp only [upS]; exact cp_nz k1 hk1 _

theorem sumL_nz (hk1 : 0 < k1) : ∀ (ks : Kids), ks ≠ [] → (∀ n ∈ leavesL ks, NZ k1 (tv1 n)) → NZ k1 (sumL k1 tv1 ks)
  | [], h, _ => by simp at h
  | (e, c) :: r, _, hl => by
    obtain ⟨a, ha, hne⟩ := upS_nz hk1 c (fun n hn => hl n (by simp only [leavesL, List.mem_append]; exact Or.inl hn))
    exact ⟨a, ha, by simp only [sumL, at_vadd, ha, if_true]; omega⟩

theorem up_rel (C : Coding k1 k2 enc dec) (hk1 : 0 < k1) : ∀ c : T,
    (∀ n ∈ c.leaves, TipRel (k1 := k1) (k2 := k2) (enc := enc) (dec := dec) tv1 tv2 n) →
    Rel k2 enc dec (upS k1 tv1 c) (upS k2 tv2 c) := by
  intro c
  induction c using T.induct with
  | h d p ks ih =>
    intro hl
    match ks, ih, hl with
    | [], _, hl => simp only [upS]; exact (hl d.name (by simp [T.leaves])).1
    | x :: xs, ih, hl =>
      rw [leaves_node_cons] at hl
      simp only [upS]
      refine rel_cp C (up_rel_list C (x :: xs) (fun et het => ih et het
        (fun n hn => hl n (leaves_mem_kids (x :: xs) et het n hn)))) ?_
      exact sumL_nz hk1 (x :: xs) (by simp) (fun n hn => (hl n hn).2)

theorem nz_vadd_left {k : Nat} {x y : Vec} (h : NZ k x) : NZ k (vadd k x y) := by
  obtain ⟨a, ha, hne⟩ := h
  exact ⟨a, ha, by simp only [at_vadd, ha, if_true]; omega⟩

theorem nz_vadd_right {k : Nat} {x y : Vec} (h : NZ k y) : NZ k (vadd k x y) := by
  obtain ⟨a, ha, hne⟩ := h
  exact ⟨a, ha, by simp only [at_vadd, ha, if_true]; omega⟩

abbrev LeavesRel (k1 k2 : Nat) (enc dec : Nat → Nat) (tv1 tv2 : String → Vec) (l : List String) : Prop :=
  ∀ n ∈ l, TipRel (k1 := k1) (k2 := k2) (enc := enc) (dec := dec) tv1 tv2 n

/- the up-pass slices of all nodes -/
theorem upA_rel_list : ∀ (ks : Kids),
    (∀ et ∈ ks, RelA k2 enc dec (upA k1 tv1 et.2) (upA k2 tv2 et.2)) →
    RelAL k2 enc dec (upAL k1 tv1 ks) (upAL k2 tv2 ks)
  | [], _ => by simp [upAL, RelAL]
  | (e, c) :: r, h => by
    simp only [upAL, RelAL]
    exact ⟨h (e, c) (List.mem_cons_self ..), upA_rel_list r (fun et het => h et (List.mem_cons_of_mem _ het))⟩

theorem upA_rel (C : Coding k1 k2 enc dec) (hk1 : 0 < k1) : ∀ c : T,
    LeavesRel k1 k2 enc dec tv1 tv2 c.leaves → RelA k2 enc dec (upA k1 tv1 c) (upA k2 tv2 c) := by
  intro c
  induction c using T.induct with
  | h d p ks ih =>
    intro hl
    have hs := up_rel C hk1 (.node d p ks) hl
    match ks, ih, hl, hs with
    | [], _, _, hs => simp only [upA, upAL, RelA, RelAL]; exact ⟨hs, trivial⟩
    | x :: xs, ih, hl, hs =>
      rw [leaves_node_cons] at hl
      simp only [upA, RelA]
      exact ⟨hs, upA_rel_list (x :: xs) (fun et het => ih et het
        (fun n hn => hl n (leaves_mem_kids (x :: xs) et het n hn)))⟩

/- DOWNPASS -/
def PDn (k1 k2 : Nat) (enc dec : Nat → Nat) (tv1 tv2 : String → Vec) (c : T) : Prop :=
  ∀ (us1 us2 : Option Vec), RelOpt k2 enc dec us1 us2 → (∀ u1, us1 = some u1 → NZ k1 u1) →
    (us1 = none → c.kids.length ≠ 1) → LeavesRel k1 k2 enc dec tv1 tv2 c.leaves →
    RelA k2 enc dec (down k1 tv1 us1 c) (down k2 tv2 us2 c)

theorem down_rel_list (C : Coding k1 k2 enc dec) (hk1 : 0 < k1) : ∀ (ks : Kids),
    (∀ et ∈ ks, PDn k1 k2 enc dec tv1 tv2 et.2) →
    ∀ (us1 us2 : Option Vec), RelOpt k2 enc dec us1 us2 → (∀ u1, us1 = some u1 → NZ k1 u1) →
    ∀ (pre1 pre2 : Vec), Rel k2 enc dec pre1 pre2 →
    (us1.isSome = true ∨ NZ k1 pre1 ∨ 2 ≤ ks.length) →
    LeavesRel k1 k2 enc dec tv1 tv2 (leavesL ks) →
    RelAL k2 enc dec (downL k1 tv1 us1 pre1 ks) (downL k2 tv2 us2 pre2 ks)
  | [], _, _, _, _, _, _, _, _, _, _ => by simp [downL, RelAL]
  | (e, c) :: rest, ih, us1, us2, hus, hnz, pre1, pre2, hpre, hcond, hl => by
    have hlc : LeavesRel k1 k2 enc dec tv1 tv2 c.leaves :=
      fun n hn => hl n (by simp only [leavesL, List.mem_append]; exact Or.inl hn)
    have hlr : LeavesRel k1 k2 enc dec tv1 tv2 (leavesL rest) :=
      fun n hn => hl n (by simp only [leavesL, List.mem_append]; exact Or.inr hn)
    have hsumr : Rel k2 enc dec (sumL k1 tv1 rest) (sumL k2 tv2 rest) :=
      up_rel_list C rest (fun et het => up_rel C hk1 et.2 (fun n hn => hlr n (leaves_mem_kids rest et het n hn)))
    have hoth := rel_vadd C hpre hsumr
    have hupc := up_rel C hk1 c hlc
    have hupnz := upS_nz hk1 c (fun n hn => (hlc n hn).2)
    have hrec := down_rel_list C hk1 rest (fun et het => ih et (List.mem_cons_of_mem _ het)) us1 us2 hus hnz
      (vadd k1 pre1 (upS k1 tv1 c)) (vadd k2 pre2 (upS k2 tv2 c)) (rel_vadd C hpre hupc)
      (Or.inr (Or.inl (nz_vadd_right hupnz))) hlr
    simp only [downL, RelAL]
    refine ⟨?_, hrec⟩
    match us1, us2, hus, hnz, hcond with
    | none, none, _, _, hcond =>
      have hnzst : NZ k1 (vadd k1 pre1 (sumL k1 tv1 rest)) := by
        rcases hcond with h | h | h
        · simp at h
        · exact nz_vadd_left h
        · have : rest ≠ [] := by intro e; subst e; simp at h
          exact nz_vadd_right (sumL_nz hk1 rest this (fun n hn => (hlr n hn).2))
      exact ih (e, c) (List.mem_cons_self ..) _ _ (rel_cp C hoth hnzst)
        (fun u1 e => by cases e; exact cp_nz k1 hk1 _) (fun e => by cases e) hlc
    | some u1, some u2, hus, hnz, _ =>
      have hnzst : NZ k1 (vadd k1 u1 (vadd k1 pre1 (sumL k1 tv1 rest))) := nz_vadd_left (hnz u1 rfl)
      exact ih (e, c) (List.mem_cons_self ..) _ _ (rel_cp C (rel_vadd C hus hoth) hnzst)
        (fun u1 e => by cases e; exact cp_nz k1 hk1 _) (fun e => by cases e) hlc
    | none, some _, hus, _, _ => simp [RelOpt] at hus
    | some _, none, hus, _, _ => simp [RelOpt] at hus

theorem down_rel (C : Coding k1 k2 enc dec) (hk1 : 0 < k1) : ∀ c : T, PDn k1 k2 enc dec tv1 tv2 c := by
  intro c
  induction c using T.induct with
  | h d p ks ih =>
    intro us1 us2 hus hnz hroot hl
    match ks, ih, hroot, hl with
    | [], _, _, hl =>
      simp only [down, RelA, RelAL]
      exact ⟨(hl d.name (by simp [T.leaves])).1, trivial⟩
    | x :: xs, ih, hroot, hl =>
      rw [leaves_node_cons] at hl
      have hsum : Rel k2 enc dec (sumL k1 tv1 (x :: xs)) (sumL k2 tv2 (x :: xs)) :=
        up_rel_list C (x :: xs) (fun et het => up_rel C hk1 et.2 (fun n hn => hl n (leaves_mem_kids (x :: xs) et het n hn)))
      have hsumnz := sumL_nz hk1 (x :: xs) (by simp) (fun n hn => (hl n hn).2)
      have hlist := down_rel_list C hk1 (x :: xs) ih us1 us2 hus hnz (vzero k1) (vzero k2) rel_vzero
        (by
          cases hu : us1 with
          | some _ => exact Or.inl rfl
          | none =>
            right; right
            have := hroot hu
            simp only [T.kids_node, List.length_cons] at this ⊢
            omega) hl
      match us1, us2, hus, hlist with
      | none, none, _, hlist =>
        simp only [down, RelA]
        exact ⟨rel_cp C hsum hsumnz, hlist⟩
      | some u1, some u2, hus, hlist =>
        simp only [down, RelA]
        exact ⟨rel_cp C (rel_vadd C hus hsum) (nz_vadd_right hsumnz), hlist⟩
      | none, some _, hus, _ => simp [RelOpt] at hus
      | some _, none, hus, _ => simp [RelOpt] at hus

end recodeTree

end Gotree.C12
