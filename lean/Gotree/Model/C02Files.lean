/-
  C02 — the file-level entry points: io/utils/readfiles.go `OpenFile`, `GetReader`, io/utils/readtrees.go `ReadTree`,
  cmd/root.go `readTrees` / `readTree`.  The file system and compress/gzip are outside the model: a case says what
  the name leads to (`FsEntry`) and — for a `.gz` name — what a gzip reader makes of the content (`gz`: `none` when
  `gzip.NewReader` refuses the header, which includes every short read: empty file, one-byte file, a directory;
  `some p`: the bytes it yields before its first error).  Network sources (http://, https://, itol://, treebase://)
  are dispatched by the same prefix tests as the code and answered by `net` (`none`: the request failed).
-/
import Gotree.Model.C02Dispatch

namespace Gotree.C02.Files
open Gotree Gotree.C02 Gotree.C02.Readers

/-- what `os.Open(name)` finds -/
inductive FsEntry where
  | missing                          -- os.Open returns an error
  | dir                              -- os.Open succeeds, every Read returns EISDIR
  | file (content : List UInt8)
  deriving Inhabited

/-- which branch of `GetReader` a name takes -/
inductive Source where
  | http | itol | treebase | stdin | path
  deriving DecidableEq, Repr

/-- `strings.HasPrefix` / `strings.HasSuffix` (on the characters: the prefixes tested are ASCII) -/
def hasPrefix (s p : String) : Bool := p.toList.isPrefixOf s.toList
def hasSuffix (s p : String) : Bool := p.toList.isSuffixOf s.toList

/-- `isHttpFile`, `isItol`, `isTreeBase` (strings.HasPrefix), then `OpenFile`'s test for the standard input -/
def sourceOf (name : String) : Source :=
  if hasPrefix name "http://" || hasPrefix name "https://" then .http
  else if hasPrefix name "itol://" then .itol
  else if hasPrefix name "treebase://" then .treebase
  else if name == "" || name == "stdin" || name == "-" then .stdin
  else .path

structure FileIn where
  name : String
  entry : FsEntry := .missing
  stdin : List UInt8 := []
  net : Option (List UInt8) := none
  gz : Option (List UInt8) := none

/-- the bytes behind `f` before any decompression: `none` = `GetReader` already returns an error -/
def rawSource (f : FileIn) : Option (List UInt8) :=
  match sourceOf f.name with
  | .http | .itol | .treebase => f.net
  | .stdin => some f.stdin
  | .path =>
    match f.entry with
    | .missing => none
    | .dir => some []              -- the reads fail: the readers see the end of the input at once
    | .file c => some c

/-- `utils.GetReader(name)`: the bytes the returned `bufio.Reader` delivers, or the error.
    `strings.HasSuffix(inputfile, ".gz")` → `gzip.NewReader(f)`, whose error is returned. -/
def getReader (f : FileIn) : Res (List UInt8) :=
  match rawSource f with
  | none => .err "open"
  | some raw =>
    if hasSuffix f.name ".gz" then
      match f.gz with
      | none => .err "gzip: invalid header"
      | some p => .ok p
    else .ok raw

/-- `utils.ReadTree(name, format)`: GetReader, ReadTreeReader, then `f.Close()` (never fails on a file opened for reading) -/
def readTree (f : FileIn) (mk : List UInt8 → Input) (format : Int) : ROut :=
  match getReader f with
  | .err m => .err m
  | .panic m => .panic m
  | .ok b => readTreeReader (mk b) format

/-- cmd/root.go `readTrees(name)`: GetReader, then ReadMultiTrees on its reader -/
def readTrees (f : FileIn) (mk : List UInt8 → Input) (format : Int) : ROut :=
  match getReader f with
  | .err m => .err m
  | .panic m => .panic m
  | .ok b => readMultiTrees (mk b) format

/-- cmd/root.go `readTree(name)`: the name "none" is refused before anything is opened -/
def cmdReadTree (f : FileIn) (mk : List UInt8 → Input) (format : Int) : ROut :=
  if f.name != "none" then readTree f mk format else .err "cannot use \"none\" as input file"

end Gotree.C02.Files
