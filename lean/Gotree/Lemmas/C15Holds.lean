/-
  C15 — the model's results meet the Spec predicates that the driver uses as oracle.
  Core Lean only.
-/
import Gotree.Lemmas.C15Copy
import Gotree.Lemmas.C15Single
import Gotree.Lemmas.C15InsertAll

namespace Gotree.C15
open Gotree Gotree.C14

theorem sortS_eq_of_perm {l₁ l₂ : List String} (h : l₁.Perm l₂) : sortS l₁ = sortS l₂ :=
  sortNames_eq_of_perm h

theorem sameNames_of_perm {l₁ l₂ : List String} (h : l₁.Perm l₂) : sameNames l₁ l₂ = true := by
  simp [sameNames, sortS_eq_of_perm h]

theorem distAgree_of {t u : T} {l : List String} (h : ∀ a ∈ l, ∀ b ∈ l, t.dist a b = u.dist a b) :
    distAgree t u l = true := by
  simp only [distAgree, List.all_eq_true, beq_iff_eq]
  exact h

theorem dedupS_mem : ∀ (l : List String) (x : String), x ∈ dedupS l ↔ x ∈ l
  | [], _ => by simp [dedupS]
  | a :: r, x => by
    simp only [dedupS]
    split
    · rename_i h
      have ha : a ∈ r := by simpa using h
      rw [dedupS_mem r x, List.mem_cons]
      constructor
      · exact Or.inr
      · rintro (rfl | h) <;> assumption
    · rw [List.mem_cons, List.mem_cons, dedupS_mem r x]

theorem dedupS_nodup : ∀ (l : List String), (dedupS l).Nodup
  | [] => by simp [dedupS]
  | a :: r => by
    simp only [dedupS]
    split
    · exact dedupS_nodup r
    · rename_i h
      have ha : a ∉ r := by simpa using h
      exact List.nodup_cons.mpr ⟨fun hm => ha ((dedupS_mem r a).mp hm), dedupS_nodup r⟩

theorem mem_newNames (tips : List String) (groups : List (List String)) (x : String) :
    x ∈ newNames tips groups ↔ x ∈ groups.flatten ∧ x ∉ tips := by
  simp only [newNames]
  rw [dedupS_mem, List.mem_filter]
  simp

/-! ## RemoveSingleNodes -/

theorem removeSingleOK_holds' (t : T) (h : lengthsOK t = true) : removeSingleOK t (removeSingle t) = true := by
  simp only [removeSingleOK, Bool.and_eq_true]
  exact ⟨⟨sameNames_of_perm (removeSingle_tips' t), distAgree_of fun a _ b _ => (removeSingle_dist' t h a b).symm⟩,
    removeSingle_noSingle' t⟩

/-! ## Merge -/

theorem mergeOK_holds' {i1 i2 : Bool} {t t2 t' : T} (h : merge i1 i2 t t2 = .ok t') : mergeOK t t2 t' = true := by
  have htips := merge_tipNames h
  have hl := fun a ha b hb => (merge_dist_left h a b ha hb).symm
  have hr := fun a ha b hb => (merge_dist_right h a b ha hb).symm
  obtain ⟨hr1, hr2, _, rfl⟩ := merge_ok h
  simp only [mergeOK, Bool.and_eq_true, T.kids_node]
  refine ⟨⟨⟨sameNames_of_perm (by rw [htips]), distAgree_of hl⟩, distAgree_of hr⟩, ?_⟩
  simp only [Bool.or_eq_true, Bool.and_eq_true]
  left
  rw [leaves_of_kids_ne _ _ _ (rooted_kids_ne hr1), leaves_of_kids_ne _ _ _ (rooted_kids_ne hr2),
    rooted_tipNames hr1, rooted_tipNames hr2]
  exact ⟨sameNames_of_perm (List.Perm.refl _), sameNames_of_perm (List.Perm.refl _)⟩

theorem merge_dist_cross' {i1 i2 : Bool} {t t2 t' : T} (h : merge i1 i2 t t2 = .ok t') (a b : String)
    (ha : a ∈ t.tipNames) (hb : b ∈ t2.tipNames) : t'.dist a b = t.rootDist a + t2.rootDist b := by
  obtain ⟨hr, hr2, hd, rfl⟩ := merge_ok h
  have hdj := merge_disjoint hr hr2 hd
  rw [rooted_tipNames hr] at ha
  rw [rooted_tipNames hr2] at hb
  have nb : b ∉ leavesL t.kids := fun h0 => hdj b h0 hb
  have na : a ∉ leavesL t2.kids := hdj a ha
  have hblank : EdgeD.lenOr0 EdgeD.blank = 0 := by decide
  simp only [dist_def, T.kids_node, splitsL, splitsBelow_node, List.append_nil]
  rw [distW_cons, distW_append, distW_cons, hblank,
    distW_right_out _ (splitsL t.kids) a b (out_of_subL _ _ nb),
    distW_left_out _ (splitsL t2.kids) a b (out_of_subL _ _ na)]
  simp only [ite_self, Rat.zero_add]
  rfl

/-! ## InsertIdenticalTips -/

theorem insertOK_holds' {t t' : T} {groups : List (List String)} {tips' : List String}
    (hu : t.tipNames.Nodup) (hI : Inv t t' tips' groups.flatten groups) : insertOK t groups t' = true := by
  simp only [insertOK, Bool.and_eq_true]
  refine ⟨⟨?_, distAgree_of fun a ha b hb => (hI.keep a ha b hb).symm⟩, ?_⟩
  · apply sameNames_of_perm
    have hn : (t.tipNames ++ newNames t.tipNames groups).Nodup := by
      rw [List.nodup_append]
      refine ⟨hu, dedupS_nodup _, fun a ha b hb hab => ?_⟩
      subst hab
      exact ((mem_newNames _ _ a).mp hb).2 ha
    rw [List.perm_ext_iff_of_nodup hI.nodup hn]
    intro x
    constructor
    · intro hx
      by_cases hxt : x ∈ t.tipNames
      · exact List.mem_append_left _ hxt
      · rcases hI.only x hx with h | h
        · exact absurd h hxt
        · exact List.mem_append_right _ ((mem_newNames _ _ x).mpr ⟨h, hxt⟩)
    · intro hx
      rcases List.mem_append.mp hx with hx | hx
      · exact hI.sub x hx
      · obtain ⟨g, hg, hxg⟩ := List.mem_flatten.mp ((mem_newNames _ _ x).mp hx).1
        exact (hI.zero g hg x hxg x hxg).2
  · simp only [List.all_eq_true, beq_iff_eq]
    intro g hg a ha b hb
    exact (hI.zero g hg a ha b hb).1


/-! ## GraftTreeOnTip: a host tip and a leaf of the graft -/

mutual
theorem graftAt_dist_cross (w : EdgeD → Rat) {tip : String} {G : T} : ∀ (t t' : T), graftAt tip G t = some t' →
    t.leaves.Nodup → ∀ a b, a ≠ tip → a ∉ G.leaves → b ∈ G.leaves → b ∉ t.leaves →
    distW w t'.splitsBelow a b = distW w t.splitsBelow a tip + belowW w G.splitsBelow b
  | .node d p k, t', h, hu, a, b, ha, hag, hb, hbt => by
    obtain ⟨k', hk, rfl⟩ := graftAt_some h
    rw [leaves_of_kids_ne _ _ _ (graftKids_ne hk).1] at hu hbt
    simpa using graftKids_dist_cross w k k' hk hu a b ha hag hb hbt
theorem graftKids_dist_cross (w : EdgeD → Rat) {tip : String} {G : T} : ∀ (k k' : Kids), graftKids tip G k = some k' →
    (leavesL k).Nodup → ∀ a b, a ≠ tip → a ∉ G.leaves → b ∈ G.leaves → b ∉ leavesL k →
    distW w (splitsL k') a b = distW w (splitsL k) a tip + belowW w G.splitsBelow b
  | [], _, h, _, _, _, _, _, _, _ => by simp [graftKids] at h
  | (e, t) :: r, k', h, hu, a, b, ha, hag, hb, hbt => by
    simp only [leavesL, List.mem_append, not_or] at hbt
    simp only [leavesL] at hu
    have hd := List.nodup_append.mp hu
    have rest : ∀ y ∈ t.leaves, y ∉ leavesL r := fun y hy hr => hd.2.2 y hy y hr rfl
    rcases graftKids_cases h with ⟨hl, hn, rfl⟩ | ⟨_, t', ht, rfl⟩ | ⟨hm, ht, r', hr, rfl⟩
    · have htip : tip ∉ leavesL r := rest tip (by simp [(isLeaf_leaves hl).1, hn])
      simp only [splitsL, distW_cons, distW_append]
      rw [(isLeaf_leaves hl).2, (isLeaf_leaves hl).1, hn, distW_nil,
        distW_left_out w G.splitsBelow a b (out_of_sub _ _ hag),
        distW_right_out w (splitsL r) a b (out_of_subL _ _ hbt.2),
        distW_right_out w (splitsL r) a tip (out_of_subL _ _ htip)]
      have e1 : (SplitE.mk G.leaves e G.isLeaf).sep a b = true := by simp [SplitE.sep, hag, hb]
      have e2 : (SplitE.mk [tip] e t.isLeaf).sep a tip = true := by simp [SplitE.sep, ha]
      rw [e1, e2]
      simp only [if_true, Rat.zero_add]
      grind
    · have htip : tip ∈ t.leaves := graftAt_tip_mem t t' ht
      simp only [splitsL, distW_cons, distW_append]
      rw [graftAt_dist_cross w t t' ht hd.1 a b ha hag hb hbt.1,
        distW_right_out w (splitsL r) a b (out_of_subL _ _ hbt.2),
        distW_right_out w (splitsL r) a tip (out_of_subL _ _ (rest tip htip))]
      have e1 : (SplitE.mk t'.leaves e t'.isLeaf).sep a b = (SplitE.mk t.leaves e t.isLeaf).sep a tip := by
        simp [SplitE.sep, graftAt_mem t t' ht a ha hag, graftAt_sub t t' ht b hb, htip]
      rw [e1]
      grind
    · have htip : tip ∉ t.leaves := graftAt_none t ht hm
      simp only [splitsL, distW_cons, distW_append]
      rw [graftKids_dist_cross w r r' hr hd.2.1 a b ha hag hb hbt.2,
        distW_right_out w t.splitsBelow a b (out_of_sub _ _ hbt.1),
        distW_right_out w t.splitsBelow a tip (out_of_sub _ _ htip)]
      have e1 : (SplitE.mk t.leaves e t.isLeaf).sep a b = (SplitE.mk t.leaves e t.isLeaf).sep a tip := by
        simp [SplitE.sep, hbt.1, htip]
      rw [e1]
      grind
end

theorem rootDist_eq (g : T) (b : String) : g.rootDist b = belowW EdgeD.lenOr0 g.splits b := rfl

end Gotree.C15
